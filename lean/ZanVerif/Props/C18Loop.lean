/-
  C18 — the coordinator's own check loop (pd_coordinator.go doCheckNamespaces), trimming branch: an over-replicated
  partition (more live ISR members than the replication factor) loses the member the placement does not want.
  The decisions are REGENERATED from the source (Gen/CoordLoop.lean: when the ISR counts as too short, how aliveCount
  is computed, the trimming guard; pinned besides: the branch performs ONE removal, through removeNamespaceFromNode,
  only when no node is being removed anywhere and every ISR member reports fully ready).  The removal itself is the
  modelled `remove` decision of `Z.Coord` (Props/C18.lean); here: the guard alone already keeps a full, live quorum.
-/
import ZanVerif.Gen.CoordLoop

namespace Z.Props.C18Loop

/-- `needMigrate` as the loop computes it, for a partition with `isrLen` ISR members of which `alive` are among the
    current nodes: the ISR is shorter than the replication factor, or an ISR member is lost -/
def needMigrate (isrLen alive replica : Nat) : Bool :=
  Gen.isrTooShort (isrLen : Int) (replica : Int) || decide (alive < isrLen)

/-- **trimming keeps a full live quorum.** If the loop's trimming guard lets a removal through, every ISR member is alive
    and there are more of them than the replication factor; after ONE member is removed the remaining ISR members are all
    alive, at least `replica` many, hence a strict majority of the replication factor — and at most one removal is
    performed per pass. -/
theorem C18_trim_keeps_live_quorum (isrLen alive replica : Nat) (hr : 1 ≤ replica) (ha : alive ≤ isrLen)
    (h : Gen.trimGuard (alive : Int) (replica : Int) (needMigrate isrLen alive replica) = true) :
    alive = isrLen ∧ replica ≤ isrLen - 1 ∧ 2 * (isrLen - 1) > replica := by
  unfold Gen.trimGuard needMigrate Gen.isrTooShort at h
  simp only [Bool.and_eq_true, decide_eq_true_eq, Bool.not_eq_true', Bool.or_eq_false_iff, decide_eq_false_iff_not] at h
  obtain ⟨h1, h2, h3⟩ := h
  refine ⟨by omega, by omega, by omega⟩

/-- the guard is exact: with exactly `replica` live ISR members (nothing to trim), or with a member lost, or with a short
    ISR, no removal is attempted -/
theorem C18_trim_refuses (isrLen alive replica : Nat) (ha : alive ≤ isrLen)
    (h : alive ≤ replica ∨ alive < isrLen ∨ isrLen < replica) :
    Gen.trimGuard (alive : Int) (replica : Int) (needMigrate isrLen alive replica) = false := by
  unfold Gen.trimGuard needMigrate Gen.isrTooShort
  rcases h with h | h | h
  · have : ¬ ((alive : Int) > (replica : Int)) := by omega
    simp [this]
  · simp [h]
  · have : (isrLen : Int) < (replica : Int) := by omega
    simp [this]

/-- why the comparison must be strict (the shape of an off-by-one in the guard): with `≥` a partition with exactly
    `replica = 2` live members would lose one and keep 1 of 2 — no strict majority -/
theorem C18_trim_nonstrict_witness :
    (decide ((2 : Int) ≥ (2 : Int)) && !(needMigrate 2 2 2)) = true ∧ ¬ (2 * (2 - 1) > 2) := by
  decide

/-! non-vacuity: replication 3, four live ISR members → one is trimmed, three live members remain -/
example : Gen.trimGuard 4 3 (needMigrate 4 4 3) = true := by decide
example : (4 : Nat) = 4 ∧ 3 ≤ 4 - 1 ∧ 2 * (4 - 1) > 3 := C18_trim_keeps_live_quorum 4 4 3 (by decide) (by decide) (by decide)
example : Gen.aliveCountsIsrMembersAlive = true := rfl

end Z.Props.C18Loop
