/-
  C03 / C02 — the index a leader commits is stored by a quorum of the CURRENT voters.
  `raft.maybeCommit` (raft/raft.go; statement list pinned by Gen/QuorumIndex.lean, `quorum()` regenerated as `Gen.quorum`) sorts the
  Match values of the current voters and takes the entry at position `len - quorum`.  Theorem: at least `quorum` of those voters
  have a Match at or above that index — for every voter count and every Match values.  (The abstract protocol's commit step of
  C02/C03 has exactly this as its precondition.)  Witness: with a buffer that still carries the slot of a removed voter (the
  seeded change C03-m4) the computed index is acknowledged by fewer than a quorum.
-/
import ZanVerif.Gen.Raft
import ZanVerif.Gen.QuorumIndex

namespace Z.Props.C03Quorum

/-- `sort.Sort(&r.matchBuf); mci := r.matchBuf[len(r.matchBuf) - r.quorum()]` over the Match values of the current voters -/
def quorumIndex (ms : List Nat) : Nat :=
  let s := ms.mergeSort (· ≤ ·)
  s.getD (s.length - (Gen.quorum (ms.length : Int)).toNat) 0

theorem quorum_nat (n : Nat) : (Gen.quorum (n : Int)).toNat = n / 2 + 1 := by
  unfold Gen.quorum
  have : Int.tdiv (n : Int) 2 = ((n / 2 : Nat) : Int) := by
    rw [Int.tdiv_eq_ediv_of_nonneg (by omega)]; rfl
  rw [this]; omega

/-- in an ascending list the entries from position k on are all ≥ the entry at k -/
theorem ge_from {s : List Nat} (hs : s.Pairwise (· ≤ ·)) (k : Nat) (hk : k < s.length) :
    ∀ x ∈ s.drop k, s[k] ≤ x := by
  intro x hx
  obtain ⟨i, hi, rfl⟩ := List.mem_iff_getElem.mp hx
  simp only [List.getElem_drop]
  have hlen : k + i < s.length := by simp [List.length_drop] at hi; omega
  rcases Nat.eq_zero_or_pos i with h0 | hpos
  · subst h0; simp
  · exact List.pairwise_iff_getElem.mp hs k (k + i) hk hlen (by omega)

/-- **the committed index is acknowledged by a quorum of the current voters** -/
theorem C03_quorum_index_has_quorum (ms : List Nat) (hne : ms ≠ []) :
    ms.length / 2 + 1 ≤ (ms.filter (fun m => decide (quorumIndex ms ≤ m))).length := by
  have hn : 0 < ms.length := List.length_pos_iff.mpr hne
  unfold quorumIndex
  simp only
  rw [quorum_nat]
  generalize hs : ms.mergeSort (· ≤ ·) = s
  have hperm : s.Perm ms := by rw [← hs]; exact List.mergeSort_perm _ _
  have hsorted : s.Pairwise (· ≤ ·) := by
    rw [← hs]
    have := List.pairwise_mergeSort (le := fun (a b : Nat) => decide (a ≤ b))
      (by intro a b c h1 h2; simp at *; omega) (by intro a b; simp; omega) ms
    exact this.imp (by intro a b h; simpa using h)
  have hlen : s.length = ms.length := hperm.length_eq
  have hk : s.length - (ms.length / 2 + 1) < s.length := by omega
  have hgd : s.getD (s.length - (ms.length / 2 + 1)) 0 = s[s.length - (ms.length / 2 + 1)] := by
    rw [List.getD_eq_getElem?_getD, List.getElem?_eq_getElem hk]; rfl
  rw [hgd]
  have hge : ∀ x ∈ s.drop (s.length - (ms.length / 2 + 1)), s[s.length - (ms.length / 2 + 1)] ≤ x := ge_from hsorted _ hk
  generalize s[s.length - (ms.length / 2 + 1)] = v at hge ⊢
  -- count over the sorted list instead
  have hcount : (ms.filter (fun m => decide (v ≤ m))).length = (s.filter (fun m => decide (v ≤ m))).length :=
    ((hperm.filter _).length_eq).symm
  rw [hcount]
  -- the last quorum-many entries of the sorted list all pass the filter
  have hall : (s.drop (s.length - (ms.length / 2 + 1))).filter (fun m => decide (v ≤ m)) =
      s.drop (s.length - (ms.length / 2 + 1)) := by
    apply List.filter_eq_self.mpr
    intro x hx
    simpa using hge x hx
  have hsplit : (s.filter (fun m => decide (v ≤ m))).length =
      ((s.take (s.length - (ms.length / 2 + 1))).filter (fun m => decide (v ≤ m))).length +
      ((s.drop (s.length - (ms.length / 2 + 1))).filter (fun m => decide (v ≤ m))).length := by
    rw [← List.length_append, ← List.filter_append, List.take_append_drop]
  rw [hsplit, hall, List.length_drop]
  omega

/-- the shape of the seeded change C03-m4: after a voter was removed ({1,2,3,4} → {1,2,3}) the buffer keeps a fourth slot holding
    the leader's old Match 6; the index taken from the 4-slot buffer with the 3-voter quorum is 6, which only ONE current voter
    has — the pinned re-slice to `len(r.prs)` gives 5, acknowledged by 2 of 3 -/
theorem C03_stale_slot_witness :
    quorumIndex [6, 5, 5] = 5 ∧ ([6, 5, 5].filter (fun m => decide (5 ≤ m))).length = 3 ∧
    (([6, 5, 5, 6].mergeSort (· ≤ ·)).getD (4 - 2) 0 = 6 ∧ ([6, 5, 5].filter (fun m => decide (6 ≤ m))).length = 1) := by
  refine ⟨by simp [quorumIndex, Gen.quorum, List.mergeSort], by decide, by simp [List.mergeSort], by decide⟩

example : 3 / 2 + 1 ≤ ([6, 5, 5].filter (fun m => decide (quorumIndex [6, 5, 5] ≤ m))).length :=
  C03_quorum_index_has_quorum [6, 5, 5] (by decide)
example : Gen.quorumIndexOverCurrentVoters = true := rfl

end Z.Props.C03Quorum
