/-
  C03 — a committed entry survives any crash/restart of replicas.
  Theorems over the abstract raft with durable copies (term, log, commit as held by the storage
  object), created vs sent record sets (a campaign / vote / ack is usable by other nodes only after
  the flush that follows the persist) and the steps `flush j` and `crash j` (volatile := durable,
  unsent records forgotten) — for every schedule and every subset of nodes crashing at any points.
  The flush discipline that makes the real node an instance (persist, then send, then Advance; what a
  crash inside a Ready can leave behind) is exercised by the certificate runs: crash between events,
  crash with nothing persisted, crash with everything persisted and nothing sent, leader Ready sent
  before the persist, entries persisted without the hard state.
-/
import ZanVerif.Raft.RaftExec
import ZanVerif.Raft.RaftWitness

namespace Z.Props.C03
open Z.RaftAbs Z.LogMatch

/-- **committed survives**: what node a has committed is in the log of every leader of a later term, in
    EVERY later state of EVERY execution, crashes of any nodes at any points included -/
theorem C03_committed_survives (vs : List Nat) {s : St} (r : Reach vs s) (a : Nat) (hpos : 0 < s.commit a) :
    ∃ t, t ≤ s.term a ∧ ∀ s', Steps vs s s' → ∀ c, s'.role c = Role.leader → t < s'.term c →
      (s'.log c).take (s.commit a) = (s.log a).take (s.commit a) := committed_survives vs r a hpos

/-- **never replaced**, over time and across crashes -/
theorem C03_never_replaced (vs : List Nat) {s s' : St} (r : Reach vs s) (hs : Steps vs s s') (a b : Nat) :
    (s.log a).take (min (s.commit a) (s'.commit b)) = (s'.log b).take (min (s.commit a) (s'.commit b)) :=
  state_machine_safety_over_time vs r hs a b

/-- a commit record (a current-term entry acknowledged by a quorum of SENT acks) stays valid forever -/
theorem C03_record_stable (vs : List Nat) {s s' : St} (r : Reach vs s) (h : Steps vs s s') {t k : Nat}
    (g : Good s t k) (q : QAcked vs s t k) :
    Good s' t k ∧ QAcked vs s' t k ∧ pre s' t k = pre s t k := record_stable vs r h g q

/-- the crash really loses something in the model (non-vacuity): a follower that accepted an entry and
    crashed before its flush has an empty log again and its computed ack is gone -/
theorem C03_witness_loss : ∃ s, Reach [1, 2, 3] s ∧ s.log 2 = [] ∧ (2, 1, 1) ∉ s.acks ∧ s.log 1 = [⟨1, 0⟩] :=
  witness_loss

/-- … and a run with a follower crash and a leader crash right after committing is reachable -/
theorem C03_witness : ∃ s s', Reach [1, 2, 3] s ∧ s.commit 1 = 1 ∧ Steps [1, 2, 3] s s' ∧
    s'.role 1 = Role.follower ∧ s'.log 1 = [⟨1, 0⟩] ∧ s'.log 2 = [⟨1, 0⟩] := witness

end Z.Props.C03
