/-
  C18 — replica migration never drops a partition below a safe quorum. Property theorems only, all about
  the EXECUTABLE model `Z.Coord` (Place/Coord.lean) of the placement driver's decision methods that the
  differential run compares line by line with the real handleNamespaceMigrate / addNamespaceToNode /
  removeNamespaceFromNode / removeNamespaceFromRemovings / rebalanceNamespace. Every guard inside the
  model is a `Gen.*` definition regenerated from the Go source on every run (ZanVerif.Gen.Coord).

  Quantification: every valid start info, every sequence of (environment, decision) pairs. An environment
  fixes the alive set, the answers of the data nodes (synced / members ready / still joined), whether the
  removal grace time has passed, whether the register's compare-and-swap succeeds, and the answer of the
  layout function (ANY list, refusal or panic).
-/
import ZanVerif.Place.CoordInv

namespace Z.Props.C18
open Z.Coord List

/-- the code's quorum test `len(ISR) > Replica/2` IS the strict majority of the configured factor, for
    odd and even factors alike (the even-factor worry of the design does not materialise) -/
theorem C18_quorum_is_strict_majority (n r : Nat) : Gen.isISRQuorum (n : Int) (r : Int) = true ↔ 2 * n > r := by
  rw [quorum_iff]; omega

/-- the marking guard of handleNamespaceMigrate `len(Removings) == 0 && len(ISR)-1 > Replica/2` = nothing
    pending and the ISR without the marked node is still a strict majority -/
theorem C18_mark_guard (k n r : Nat) : Gen.canMark (k : Int) (n : Int) (r : Int) = true ↔ k = 0 ∧ 2 * (n - 1) > r := by
  rw [canMark_iff]; omega

/-- **invariant**: from any valid info, for every sequence of environments and decisions, every info handed
    to the register (whether the compare-and-swap then succeeds or not) has: at most one removal pending;
    ISR = RaftNodes \ Removings duplicate-free and a strict majority of the replication factor; every
    replica id ≤ MaxRaftID; the ghost set of ids ever issued duplicate-free and containing every id in use
    (so an id is never handed out twice) -/
theorem C18_inv (i : Info) (hi : Inv i) (steps : List (Env × Act)) :
    ∀ w ∈ (run i steps).1,
      w.removing.length ≤ 1 ∧ (isr w).Nodup ∧ 2 * (isr w).length > w.replica ∧ w.nodes.Nodup ∧
      (∀ x ∈ w.ids, x.2 ≤ w.maxId) ∧ (∀ x ∈ w.ids, x.2 ∈ w.issued) ∧ w.issued.Nodup ∧
      (∀ x ∈ w.issued, x ≤ w.maxId) := by
  intro w hw
  have inv := (inv_run steps i hi).1 w hw
  refine ⟨inv.oneRemoving, isr_nodup inv.nodesNodup, ?_, inv.nodesNodup, inv.idsBound, inv.idsIssued,
    inv.issuedNodup, inv.issuedBound⟩
  have := inv.quorum; omega

/-- the register itself stays valid along every run (so the next decision again starts from a valid info) -/
theorem C18_register_stays_valid (i : Info) (hi : Inv i) (steps : List (Env × Act)) : Inv (run i steps).2 :=
  (inv_run steps i hi).2

/-- the readiness answer a decision saw before it may add a node. `add` (addNamespaceToNode) has no gate of
    its own — its only caller addNodeToNamespaceAndWaitReady checks IsAllISRFullReady first; that caller is
    modelled inside `balance` -/
def gate (e : Env) (i : Info) : Act → Prop
  | .migrate => allReady e i = true
  | .balance => allReady e i = true
  | _ => True

/-- **growth**: one decision adds at most one raft node, and only when no removal is pending before and after,
    every ISR member reported ready (for the decisions that contain the gate), with a replica id that is the
    new MaxRaftID = old MaxRaftID + 1 and was never issued before -/
theorem C18_growth (e : Env) (i w : Info) (hi : Inv i) (a : Act) (h : (act e i a).write = some w) :
    w.nodes.length ≤ i.nodes.length + 1 ∧
    (i.nodes.length < w.nodes.length →
      i.removing = [] ∧ w.removing = [] ∧ gate e i a ∧
      ∃ n, n ∉ i.nodes ∧ w.nodes = i.nodes ++ [n] ∧ w.maxId = i.maxId + 1 ∧ (n, w.maxId) ∈ w.ids ∧
        w.maxId ∉ i.issued ∧ w.issued = w.maxId :: i.issued) := by
  -- the shape of an `addNew` write
  have added : ∀ (n : Nat) (step : Int), step = 1 → i.removing = [] → n ∉ i.nodes → w = addNew i n step → gate e i a →
      w.nodes.length ≤ i.nodes.length + 1 ∧ (i.nodes.length < w.nodes.length →
        i.removing = [] ∧ w.removing = [] ∧ gate e i a ∧
        ∃ n, n ∉ i.nodes ∧ w.nodes = i.nodes ++ [n] ∧ w.maxId = i.maxId + 1 ∧ (n, w.maxId) ∈ w.ids ∧
          w.maxId ∉ i.issued ∧ w.issued = w.maxId :: i.issued) := by
    intro n step hs hrem hn hw hg
    obtain ⟨f1, f2, f3, _, f5, f6⟩ := addNew_fields i n step hs
    subst hw
    refine ⟨by rw [f2]; simp, fun _ => ⟨hrem, by rw [f3, hrem], hg, n, hn, f2, f1, ?_, ?_, ?_⟩⟩
    · rw [f5, f1]; exact mem_cons_self
    · rw [f1]; exact addNew_fresh hi
    · rw [f6, f1]
  have same : ∀ (P : Prop), w.nodes.length ≤ i.nodes.length →
      w.nodes.length ≤ i.nodes.length + 1 ∧ (i.nodes.length < w.nodes.length → P) :=
    fun P hle => ⟨by omega, fun hlt => by omega⟩
  cases a with
  | migrate =>
    obtain ⟨h0, _, _, _, hcase, _⟩ := migrate_write h
    rcases hcase with ⟨a1, _⟩ | ⟨n, hn, hw, hr, _⟩
    · exact same _ (by rw [a1]; exact Nat.le_refl _)
    · exact added n _ step_migrate h0 hn hw hr
  | add n =>
    obtain ⟨h0, hn, hw⟩ := addNode_write h
    exact added n _ step_add h0 hn hw trivial
  | remove n =>
    obtain ⟨_, hw, _⟩ := removeNode_write h
    exact same _ (by rw [hw]; exact Nat.le_refl _)
  | finish =>
    obtain ⟨s, _⟩ := finish_write h
    exact same _ s.nodes.length_le
  | balance =>
    obtain ⟨h0, hr, hc | hc | hc⟩ := balance_write h
    · obtain ⟨c, hc⟩ := hc
      obtain ⟨_, hn, hw⟩ := addNode_write hc
      exact added c _ step_add h0 hn hw hr
    · obtain ⟨n, hn⟩ := hc
      obtain ⟨_, hw, _⟩ := removeNode_write hn
      exact same _ (by rw [hw]; exact Nat.le_refl _)
    · obtain ⟨x, hw⟩ := hc
      exact same _ (by rw [hw]; simp only; rw [(swapHead_perm i.nodes x hi.nodesNodup).length_eq]; exact Nat.le_refl _)

/-- **no removal without a live majority** — the reactions of the placement driver itself: when
    handleNamespaceMigrate or a balance round marks a replica for removal, a strict majority (of the
    replication factor) of the partition's replicas is alive -/
theorem C18_no_removal_when_majority_dead (e : Env) (i w : Info) (hi : Inv i) (a : Act)
    (ha : a = .migrate ∨ a = .balance) (h : (act e i a).write = some w) (hm : ∃ r ∈ w.removing, r ∉ i.removing) :
    2 * (i.nodes.filter e.alive).length > i.replica := by
  obtain ⟨r, hr, _⟩ := hm
  rcases ha with rfl | rfl
  · obtain ⟨_, _, _, _, _, hal⟩ := migrate_write h
    have := hal (by intro hnil; rw [hnil] at hr; cases hr)
    omega
  · obtain ⟨h0, hready, _⟩ := balance_write h
    -- every ISR member answered the readiness query, and nothing is being removed: all replicas are alive
    have hall : i.nodes.filter e.alive = i.nodes := by
      apply filter_eq_self.mpr
      intro x hx
      have hx' : x ∈ isr i := by rw [isr_nil h0]; exact hx
      have := (all_eq_true.mp hready) x hx'
      simp only [Bool.and_eq_true] at this
      exact this.1.1
    rw [hall]
    have := hi.quorum
    rw [isr_nil h0] at this
    omega

/-- the same clause at the strength the property states it (every decision, `remove` included) -/
def C18_no_removal_when_majority_dead_full : Prop :=
  ∀ (e : Env) (i w : Info) (a : Act), Inv i → (act e i a).write = some w → (∃ r ∈ w.removing, r ∉ i.removing) →
    2 * (i.nodes.filter e.alive).length > i.replica

/-! ### concrete runs (non-vacuity) and the counterexample to the full clause -/

def i0 : Info := ⟨[1, 2, 3], [(1, 1), (2, 2), (3, 3)], [], [], 3, 3, [1, 2, 3]⟩

theorem i0_valid : Inv i0 := by
  refine ⟨by decide, by decide, by decide, by decide, by decide, by decide, by decide⟩

def envAll : Env := ⟨fun _ => true, fun _ => true, fun _ => true, fun _ => false, true, true, 4, fun _ => .ok [1, 2, 4]⟩
def envDead3 : Env := { envAll with alive := fun n => n != 3 }
def envOnly1 : Env := { envAll with alive := fun n => n == 1 }

/-- removeNamespaceFromNode (operator API PDCoordinator.RemoveNamespaceFromNode) has no liveness guard:
    replicas 2 and 3 are unreachable, yet replica 1 — the only live one — is marked for removal; the written
    ISR [2, 3] is a "quorum" by count and entirely dead. The full clause is therefore FALSE for the code
    (replayed on the real code by `bin/check C18`: oracle class removal-with-majority-dead, act=remove). -/
theorem C18_remove_unguarded_witness :
    ((removeNode envOnly1 i0 1).write.map (·.removing)) = some [1] ∧
    (i0.nodes.filter envOnly1.alive).length = 1 ∧ ¬ C18_no_removal_when_majority_dead_full := by
  refine ⟨by decide, by decide, ?_⟩
  intro hfull
  have := hfull envOnly1 i0 { i0 with removing := [1] } (.remove 1) i0_valid (by decide) ⟨1, by decide, by decide⟩
  revert this
  decide

/-- node 3 dies → marked; the removal finishes; a replacement (4, fresh id 4) is added -/
example : ((run i0 [(envDead3, .migrate), (envAll, .finish), (envAll, .migrate)]).1.map (fun w => (w.nodes, w.removing, w.maxId)))
    = [([1, 2, 3], [3], 3), ([1, 2], [], 3), ([1, 2, 4], [], 4)] := by decide

example : (run i0 [(envDead3, .migrate), (envAll, .finish), (envAll, .migrate)]).2.ids = [(4, 4), (1, 1), (2, 2)] := by decide

-- a failed compare-and-swap leaves the register unchanged, the attempt is still a valid info
example : (run i0 [({ envDead3 with casOk := false }, .migrate)]) = ([{ i0 with removing := [3] }], i0) := by decide

-- a balance round: wanted [1,2,4] ⇒ add 4 first (ISR ≤ replica), then mark 3, (finish), then nothing to do
example : ((run i0 [(envAll, .balance), (envAll, .balance), (envAll, .finish), (envAll, .balance)]).1.map
    (fun w => (w.nodes, w.removing))) = [([1, 2, 3, 4], []), ([1, 2, 3, 4], [3]), ([1, 2, 4], [])] := by decide

example : gate envAll i0 .migrate := by show allReady envAll i0 = true; decide

end Z.Props.C18

#print axioms Z.Props.C18.C18_quorum_is_strict_majority
#print axioms Z.Props.C18.C18_mark_guard
#print axioms Z.Props.C18.C18_inv
#print axioms Z.Props.C18.C18_register_stays_valid
#print axioms Z.Props.C18.C18_growth
#print axioms Z.Props.C18.C18_no_removal_when_majority_dead
#print axioms Z.Props.C18.C18_remove_unguarded_witness
