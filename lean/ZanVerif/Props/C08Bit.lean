/-
  C08 — commands behave like redis on per-type keyspaces (BITMAP family, both layouts).
  The executable storage-level bitmap model `Z.BitExec` (the functions the `datacorebit` correspondence runs against a
  real KVNode, with the real key codec; every decision expression regenerated in `Gen.Bit`) refines the reference
  `offset ↦ bit` function of a key: SETBIT answers the bit as it was and afterwards GETBIT reads the new bit at that
  offset and what it read before at every other offset; a SETBIT on a bitmap that is absent or expired (and has no legacy
  string under its name) starts an all-zero bitmap (C10); nothing else in the store changes — not another bitmap
  (GETBIT / BITCOUNT / BKEYEXIST / BTTL of every other key answer as before), not a key of another type (C12).
  Stated for every well-formed store (`WF`: preserved by every write of the model, `C09Bit_wf_reachable`).
  Deviation from redis that the model reproduces (it is what the code does): a SETBIT on a name that holds a plain
  STRING converts it; under the value-header layout the converted bytes are stored where no reader looks, i.e. the
  string's bits are lost (`C08Bit_legacy_string_lost_witness`; they survive under local_deletion).
-/
import ZanVerif.Data.BitSize
import ZanVerif.Props.C12

namespace Z.Props.C08Bit
open Z.BitExec Z.Header
open Z.Codec (inI64 be64 toU64 ofU64 fromBE)
open Z.Ref (get Sorted)

theorem C08Bit_aux_bit_reply (b : Bool) (on : Int) (hv : on = 0 ∨ on = 1) (hb : b = decide (on = 1)) :
    (if b = true then (1 : Int) else 0) = on := by
  rcases hv with rfl | rfl <;> subst hb <;> rfl

/-- **SETBIT on a live bitmap refines `f ↦ f[offset := bit]`**: the reply is the bit as GETBIT showed it; afterwards,
    at every read time at which the bitmap has not expired, GETBIT reads the new bit at `offset` and the old bit at every
    other offset; the store stays well-formed. -/
theorem C08Bit_setbit_live (pol : Pol) {m : List KV} (W : WF m) (ts : Int) (table rk : Bytes) (offset : Nat) (on : Int)
    (ht : table.length < 65536) (hts : inI64 ts) (hv : on = 0 ∨ on = 1) (ho : (offset : Int) ≤ 4294967294)
    (h : Hdr) (ex : Bool) (size0 : Int) (hm : bmeta pol m ts table rk = .mk h ex size0 true) :
    ∃ m', setbit pol m ts table rk offset on = (m', getbit pol m ts table rk offset) ∧ WF m' ∧
      ∀ t, expiredAt pol h t = false → ∀ o : Nat, o < 9223372036854775808 →
        getbit pol m' t table rk o = if o = offset then .ok on else getbit pol m ts table rk o := by
  have hlive := bmeta_live_notExist pol m ts table rk h ex size0 hm
  have hH : wHdr pol h ex ts = h := by unfold wHdr; rw [if_neg (by rw [hlive]; simp)]
  obtain ⟨m', size2, heq, _, hge, _, hmeta, hbits, _, hwf⟩ :=
    setbit_spec pol W.sorted ts table rk offset on ht hts hv ho h ex size0 true hm (Or.inl rfl)
  rw [hH] at heq hmeta hbits
  obtain ⟨W', hle⟩ := hwf W
  refine ⟨m', ?_, W', ?_⟩
  · rw [heq, getbit_live pol m ts table rk h ex size0 hm offset]; rfl
  · intro t hex o hob
    have hok := mview_hdrOk pol m ts table rk h ex (bmeta_mview pol m ts table rk h ex size0 true hm)
    have hs0 := bmeta_size_in pol m ts table rk h ex size0 true hm
    have hst : startSize size0 true = size0 := rfl
    rw [hst] at hge hle
    have hsz : inI64 size2 := by unfold inI64 at *; omega
    have hm' := bmeta_of_written pol m' table rk h size2 ts hok hsz hmeta t
    rw [hex] at hm'
    rw [getbit_live pol m' t table rk _ _ _ hm' o]
    show BOut.ok (if genBit m' table (vkey pol rk h.ver) o = true then 1 else 0) = _
    rw [hbits o hob]
    by_cases he : o = offset
    · rw [if_pos he, if_pos he, C08Bit_aux_bit_reply _ on hv rfl]
    · rw [if_neg he, if_neg he, getbit_live pol m ts table rk h ex size0 hm o]; rfl

theorem C08Bit_aux_expiredAt_renew (pol : Pol) (h : Hdr) (ts t : Int) : expiredAt pol (renewH pol h ts) t = false := by
  cases pol
  · exact isExpired_zero _ t rfl
  · rfl

/-- the size a never-used key gets from `SETBIT key offset …`: the end of the one segment written -/
def freshSize (offset : Nat) : Int := Gen.bitSetIndex (offset : Int) + ((byteOffOf (offset : Int) : Nat) : Int) + 1

/-- **SETBIT on a dead bitmap (C10)**: the bitmap is absent or expired at the log time, no string is stored under its
    name, and the generation it starts is fresh (no stored segment carries it: always true for a log timestamp above every
    earlier one; see the known finding "generation = timestamp" otherwise). Then the reply is 0 — whatever the dead
    generation held —; afterwards GETBIT reads the new bit at `offset` and 0 everywhere else, at every read time; and every
    reader decodes a live bitmap without expiry whose size is the size a NEVER-USED key gets (`freshSize`: nothing of the dead
    generation's size survives, fix 0ad0963), which covers the one stored segment (`SizeOK`). -/
theorem C08Bit_setbit_dead (pol : Pol) {m : List KV} (W : WF m) (ts : Int) (table rk : Bytes) (offset : Nat) (on : Int)
    (ht : table.length < 65536) (hts : inI64 ts) (hv : on = 0 ∨ on = 1) (ho : (offset : Int) ≤ 4294967294)
    (h : Hdr) (ex : Bool) (size0 : Int) (hm : bmeta pol m ts table rk = .mk h ex size0 false) (hdead : notExist h ex = true)
    (hstr : get m (strK table rk) = none)
    (hfresh : ∀ idx, get m (segK table (vkey pol rk (renewH pol h ts).ver) idx) = none) :
    ∃ m', setbit pol m ts table rk offset on = (m', .ok 0) ∧ WF m' ∧
      (∀ t, ∀ o : Nat, o < 9223372036854775808 → getbit pol m' t table rk o = if o = offset then .ok on else .ok 0) ∧
      (∀ t, bmeta pol m' t table rk =
        .mk { renewH pol h ts with user := some (metaUser (freshSize offset) ts) } false (freshSize offset) true) ∧
      SizeOK pol m' table rk := by
  have hH : wHdr pol h ex ts = renewH pol h ts := by unfold wHdr; rw [if_pos hdead]
  obtain ⟨m', size2, heq, _, hge, hs2, hmeta, hbits, _, hwf⟩ :=
    setbit_spec pol W.sorted ts table rk offset on ht hts hv ho h ex size0 false hm (Or.inr hstr)
  rw [hH] at heq hmeta hbits hs2
  obtain ⟨W', hle⟩ := hwf W
  have hzero : ∀ o, genBit m table (vkey pol rk (renewH pol h ts).ver) o = false := by
    intro o; unfold genBit byteAt; rw [hfresh]; simp [testBit_zero]
  have hsize : size2 = freshSize offset := by
    rw [hs2, hfresh]
    exact sizeAfter_fresh (offset : Int) (by omega)
  have hok := renewH_ok pol h ts (mview_hdrOk pol m ts table rk h ex (bmeta_mview pol m ts table rk h ex size0 false hm)) hts
  have hfs : inI64 (freshSize offset) := by
    have hb := byteOffOf_lt (offset : Int) (by omega)
    unfold freshSize inI64
    rw [setIndex_eq (offset : Int) (by omega), segBytes_val]
    omega
  have hbm : ∀ t, bmeta pol m' t table rk =
      .mk { renewH pol h ts with user := some (metaUser (freshSize offset) ts) } false (freshSize offset) true := by
    intro t
    have hm' := bmeta_of_written pol m' table rk (renewH pol h ts) (freshSize offset) ts hok hfs (by rw [← hsize]; exact hmeta) t
    rw [C08Bit_aux_expiredAt_renew] at hm'
    exact hm'
  refine ⟨m', ?_, W', ?_, hbm, ?_⟩
  · rw [heq, hzero]; rfl
  · intro t o hob
    rw [getbit_live pol m' t table rk _ _ _ (hbm t) o]
    show BOut.ok (if genBit m' table (vkey pol rk (renewH pol h ts).ver) o = true then 1 else 0) = _
    rw [hbits o hob, hzero]
    by_cases he : o = offset
    · rw [if_pos he, if_pos he, C08Bit_aux_bit_reply _ on hv rfl]
    · rw [if_neg he, if_neg he]; rfl
  · have := SizeOK_setbit_self pol W ts table rk offset on ht hts hv ho h ex size0 false hm (Or.inr hstr)
      (by intro j v _ hg; rw [hH, hfresh] at hg; cases hg)
    rw [heq] at this
    exact this

/-- **other bitmaps are untouched** (C12): after a SETBIT that converts no legacy string, GETBIT, the prescribed BITCOUNT,
    BKEYEXIST and BTTL of every OTHER bitmap key answer what they answered before, at every read time, for every offset
    and range — whatever the bytes of the names (table names without ':', as the server cuts them) -/
theorem C08Bit_setbit_other_bitmaps (pol : Pol) {m : List KV} (hs : Sorted m) (ts : Int) (table rk : Bytes) (offset : Nat) (on : Int)
    (ht : table.length < 65536) (hts : inI64 ts) (hv : on = 0 ∨ on = 1) (ho : (offset : Int) ≤ 4294967294)
    (h : Hdr) (ex : Bool) (size0 : Int) (ok : Bool) (hm : bmeta pol m ts table rk = .mk h ex size0 ok)
    (hnc : ok = true ∨ get m (strK table rk) = none) (hc : Gen.cTableStartSep ∉ table)
    (table' rk' : Bytes) (ht' : table'.length < 65536) (hc' : Gen.cTableStartSep ∉ table') (hne : ¬ (table' = table ∧ rk' = rk)) (now : Int) :
    (∀ o, getbit pol (setbit pol m ts table rk offset on).1 now table' rk' o = getbit pol m now table' rk' o) ∧
    (∀ a b, bitcountSpec pol (setbit pol m ts table rk offset on).1 now table' rk' a b = bitcountSpec pol m now table' rk' a b) ∧
    bkeyexist pol (setbit pol m ts table rk offset on).1 now table' rk' = bkeyexist pol m now table' rk' ∧
    bttl pol (setbit pol m ts table rk offset on).1 now table' rk' = bttl pol m now table' rk' := by
  obtain ⟨m', size2, heq, _, _, _, _, _, hframe, _⟩ :=
    setbit_spec pol hs ts table rk offset on ht hts hv ho h ex size0 ok hm hnc
  rw [heq]
  exact reads_congr pol m m' table' rk'
    (sameKeys_other pol m m' table rk table' rk' _ _ ht ht' hc hc' ⟨_, rfl⟩ hframe hne) now

/-- **other types are untouched** (C12): such a SETBIT changes no key outside the two bitmap type bytes — no string, hash,
    list, set, sorted set, no table or index key -/
theorem C08Bit_setbit_other_types (pol : Pol) {m : List KV} (hs : Sorted m) (ts : Int) (table rk : Bytes) (offset : Nat) (on : Int)
    (ht : table.length < 65536) (hts : inI64 ts) (hv : on = 0 ∨ on = 1) (ho : (offset : Int) ≤ 4294967294)
    (h : Hdr) (ex : Bool) (size0 : Int) (ok : Bool) (hm : bmeta pol m ts table rk = .mk h ex size0 ok)
    (hnc : ok = true ∨ get m (strK table rk) = none)
    (x : Bytes) (h1 : x.head? ≠ some Gen.cBitmapType) (h2 : x.head? ≠ some Gen.cBitmapMetaType) :
    get (setbit pol m ts table rk offset on).1 x = get m x := by
  obtain ⟨m', size2, heq, _, _, _, _, _, hframe, _⟩ :=
    setbit_spec pol hs ts table rk offset on ht hts hv ho h ex size0 ok hm hnc
  rw [heq]
  apply hframe
  · intro e; exact h1 (e ▸ segK_head _ _ _)
  · intro e; exact h2 (e ▸ metaK_head _ _)

/-- the two argument guards of `BitSetV2` (regenerated): a value other than 0 / 1, an offset outside `[0, MaxBitOffsetV2]` -/
theorem C08Bit_setbit_guards (pol : Pol) (m : List KV) (ts : Int) (table rk : Bytes) (offset on : Int) :
    (on ≠ 0 ∧ on ≠ 1 → setbit pol m ts table rk offset on = (m, .err "bitvalue")) ∧
    ((on = 0 ∨ on = 1) → (offset < 0 ∨ 4294967294 < offset) → setbit pol m ts table rk offset on = (m, .err "bitoffset")) := by
  constructor
  · intro ⟨h0, h1⟩
    unfold setbit
    rw [if_pos (by unfold Gen.bitValueBad; simp [h0, h1])]
  · intro hv ho
    unfold setbit
    rw [if_neg (by rw [valueGuard on hv]; simp), if_pos (by
      unfold Gen.bitOffsetBad; rw [show Gen.cMaxBitOffsetV2 = 4294967294 from rfl]
      simp only [Bool.or_eq_true, decide_eq_true_eq]; omega)]

/-- GETBIT of a bitmap that no reader can see (absent or expired) and that has no string under its name: 0 everywhere -/
theorem C08Bit_getbit_dead_zero (pol : Pol) (m : List KV) (now : Int) (table rk : Bytes) (h : Hdr) (ex : Bool) (size : Int)
    (hm : bmeta pol m now table rk = .mk h ex size false) (hstr : strGet pol m now table rk = .ok none) (o : Int) :
    getbit pol m now table rk o = .ok 0 := getbit_dead pol m now table rk h ex size hm hstr o

theorem C08Bit_aux_get_none {m : List KV} {k : Bytes} (h : ∀ p ∈ m, p.1 ≠ k) : get m k = none := by
  induction m with
  | nil => rfl
  | cons a t ih =>
    simp only [Z.Ref.get]
    rw [if_neg (h a List.mem_cons_self)]
    exact ih (fun p hp => h p (List.mem_cons_of_mem _ hp))

/-! ### witnesses and non-vacuity: concrete runs with the real codec (table "t", keys "b", "b:x") -/
section Example
def wT : Bytes := [116]
def wK : Bytes := [98]
def wK2 : Bytes := [98, 58, 120]
def wTs : Int := 1600000000000000000
/-- SETBIT b 9 1 ; SETBIT b 8200 1 ; SETBIT b:x 0 1 -/
def wS (pol : Pol) : List KV :=
  (setbit pol (setbit pol (setbit pol [] wTs wT wK 9 1).1 (wTs + 1) wT wK 8200 1).1 (wTs + 2) wT wK2 0 1).1

set_option maxRecDepth 100000 in
theorem C08Bit_aux_wS_wf (pol : Pol) : WF (wS pol) := by
  unfold wS
  refine ((WF.nil.setbit pol _ wT wK _ _ (by decide) (by intro v h; cases h)).setbit pol _ wT wK _ _ (by decide) ?_).setbit pol _ wT wK2 _ _ (by decide) ?_
  · intro v hv
    have : get (setbit pol [] wTs wT wK 9 1).1 (strK wT wK) = none := by cases pol <;> decide
    rw [this] at hv; cases hv
  · intro v hv
    have : get (setbit pol (setbit pol [] wTs wT wK 9 1).1 (wTs + 1) wT wK 8200 1).1 (strK wT wK2) = none := by cases pol <;> decide
    rw [this] at hv; cases hv

set_option maxRecDepth 100000 in
theorem C08Bit_aux_wS_meta : bmeta .compact (wS .compact) (wTs + 3) wT wK = .mk ⟨0, wTs, some (metaUser 1026 (wTs + 1))⟩ false 1026 true := by decide

set_option maxRecDepth 100000 in
example : getbit .compact (wS .compact) (wTs + 3) wT wK 9 = .ok 1 ∧ getbit .compact (wS .compact) (wTs + 3) wT wK 10 = .ok 0 := by decide

set_option maxRecDepth 100000 in
/-- the hypotheses of `C08Bit_setbit_live` hold on a reachable store; its conclusion on a concrete offset -/
example : ∃ m', setbit .compact (wS .compact) (wTs + 3) wT wK ((10 : Nat) : Int) 1 = (m', .ok 0) ∧ WF m' ∧
    getbit .compact m' (wTs + 9) wT wK (9 : Nat) = .ok 1 ∧ getbit .compact m' (wTs + 9) wT wK (10 : Nat) = .ok 1 := by
  obtain ⟨m', h1, h2, h3⟩ := C08Bit_setbit_live .compact (C08Bit_aux_wS_wf .compact) (wTs + 3) wT wK 10 1 (by decide)
    (by unfold inI64 wTs; omega) (Or.inr rfl) (by decide) _ _ _ C08Bit_aux_wS_meta
  refine ⟨m', ?_, h2, ?_, ?_⟩
  · rw [h1]; congr 1
  · rw [h3 (wTs + 9) (by decide) 9 (by decide)]; decide
  · rw [h3 (wTs + 9) (by decide) 10 (by decide)]; rfl

set_option maxRecDepth 100000 in
/-- the hypotheses of `C08Bit_setbit_dead` hold for the first write of a store (SETBIT … 0 on a missing key included: the
    zero segment and the meta are written, the reply is 0) -/
example : ∃ m', setbit .compact [] wTs wT wK ((77 : Nat) : Int) 0 = (m', .ok 0) ∧ WF m' ∧
    ∀ o : Nat, o < 9223372036854775808 → getbit .compact m' (wTs + 9) wT wK o = if o = 77 then .ok 0 else .ok 0 := by
  obtain ⟨m', h1, h2, h3, _⟩ := C08Bit_setbit_dead .compact WF.nil wTs wT wK 77 0 (by decide)
    (by unfold inI64 wTs; omega) (Or.inl rfl) (by decide) fresh false 0 (by decide) (by decide) (by decide) (fun _ => rfl)
  exact ⟨m', h1, h2, fun o ho => h3 (wTs + 9) o ho⟩

set_option maxRecDepth 100000 in
/-- other bitmap: after SETBIT b 10 1, the key b:x answers as before (`C08Bit_setbit_other_bitmaps`) -/
example : getbit .compact (setbit .compact (wS .compact) (wTs + 3) wT wK ((10 : Nat) : Int) 1).1 (wTs + 9) wT wK2 0 = getbit .compact (wS .compact) (wTs + 9) wT wK2 0 :=
  (C08Bit_setbit_other_bitmaps .compact (C08Bit_aux_wS_wf .compact).sorted (wTs + 3) wT wK 10 1 (by decide)
    (by unfold inI64 wTs; omega) (Or.inr rfl) (by decide) _ _ _ true C08Bit_aux_wS_meta (Or.inl rfl) (by decide)
    wT wK2 (by decide) (by decide) (by decide) (wTs + 9)).1 0

set_option maxRecDepth 100000 in
/-- **witness (legacy string under the value-header layout)**: `SET b "\x80"` (bit 0 set), then `SETBIT b 9 1`: the
    string is gone (its key is deleted), and bit 0 — which GETBIT showed as 1 before — reads 0: the converted bytes sit
    under the UNVERSIONED segment key where no reader looks. Under local_deletion the same run keeps bit 0. -/
theorem C08Bit_legacy_string_lost_witness :
    let str (pol : Pol) : List KV := match pol with
      | .compact => [(strK wT wK, encode ⟨0, 0, some [128]⟩ ++ be64 (toU64 wTs))]
      | .local => [(strK wT wK, [128] ++ be64 (toU64 wTs))]
    getbit .compact (str .compact) (wTs + 1) wT wK 0 = .ok 1 ∧
    getbit .compact (setbit .compact (str .compact) (wTs + 1) wT wK 9 1).1 (wTs + 2) wT wK 0 = .ok 0 ∧
    get (setbit .compact (str .compact) (wTs + 1) wT wK 9 1).1 (strK wT wK) = none ∧
    getbit .local (str .local) (wTs + 1) wT wK 0 = .ok 1 ∧
    getbit .local (setbit .local (str .local) (wTs + 1) wT wK 9 1).1 (wTs + 2) wT wK 0 = .ok 1 := by decide
set_option maxRecDepth 100000 in
/-- **regression (defect repaired by 0ad0963; C10: an expired bitmap is "as if absent")**: `SETBIT b 8192 1 @t; BEXPIRE b 1 @t;
    SETBIT b 0 1 @t+3s` — the write starts a new generation (bit 8192 reads 0 again) of size 1, exactly like the same SETBIT
    on a never-used key: `BITCOUNT b -1 -1` answers 1 on both (before the fix the expired size 1025 survived and the answer
    was 0), and the two stores decode to the same size. -/
theorem C08Bit_expired_size_reset :
    let s1 := (setbit .compact [] wTs wT wK 8192 1).1
    let s2 := (bexpire s1 wTs wT wK 1).1
    let s3 := (setbit .compact s2 (wTs + 3000000000) wT wK 0 1).1
    let f := (setbit .compact [] (wTs + 3000000000) wT wK 0 1).1
    (setbit .compact s2 (wTs + 3000000000) wT wK 0 1).2 = .ok 0 ∧
    getbit .compact s3 (wTs + 4000000000) wT wK 8192 = .ok 0 ∧ getbit .compact s3 (wTs + 4000000000) wT wK 0 = .ok 1 ∧
    bitcountSpec .compact s3 (wTs + 4000000000) wT wK (-1) (-1) = .ok 1 ∧ bitcount .compact s3 (wTs + 4000000000) wT wK (-1) (-1) = .ok 1 ∧
    bitcount .compact f (wTs + 4000000000) wT wK (-1) (-1) = .ok 1 ∧
    bmeta .compact s3 (wTs + 4000000000) wT wK = bmeta .compact f (wTs + 4000000000) wT wK := by decide

set_option maxRecDepth 100000 in
/-- the hypotheses of `C08Bit_setbit_dead` hold for an EXPIRED bitmap of a reachable store (generation wTs expired at wTs+3s,
    the new generation wTs+3s is fresh); its conclusion: size `freshSize 0 = 1` -/
example : ∃ m', setbit .compact (bexpire (setbit .compact [] wTs wT wK 8192 1).1 wTs wT wK 1).1 (wTs + 3000000000) wT wK ((0 : Nat) : Int) 1 = (m', .ok 0) ∧
    bmeta .compact m' (wTs + 4000000000) wT wK = .mk ⟨0, wTs + 3000000000, some (metaUser 1 (wTs + 3000000000))⟩ false 1 true ∧
    SizeOK .compact m' wT wK := by
  have W : WF (bexpire (setbit .compact [] wTs wT wK 8192 1).1 wTs wT wK 1).1 :=
    (WF.nil.setbit .compact _ wT wK _ _ (by decide) (by intro v h; cases h)).bexpire _ _ _ _
  obtain ⟨m', h1, _, _, h4, h5⟩ := C08Bit_setbit_dead .compact W (wTs + 3000000000) wT wK 0 1 (by decide)
    (by unfold inI64 wTs; omega) (Or.inr rfl) (by decide)
    ⟨1600000001, wTs, some (metaUser 1025 wTs)⟩ true 1025 (by decide) (by decide) (by decide)
    (by
      intro idx
      apply C08Bit_aux_get_none
      intro p hp
      have hs : (bexpire (setbit .compact [] wTs wT wK 8192 1).1 wTs wT wK 1).1 =
          [(segK wT (vkey .compact wK wTs) 1024, [128]), (metaK wT wK, encode ⟨1600000001, wTs, some (metaUser 1025 wTs)⟩)] := by decide
      rw [hs] at hp
      simp only [List.mem_cons, List.mem_nil_iff, or_false] at hp
      rcases hp with rfl | rfl
      · intro e
        have := (segK_inj_tv (by decide) (by decide) e).2
        have hv : vkey .compact wK wTs = vkey .compact wK (wTs + 3000000000) := this
        have := Z.Props.C12.C12_verkey_injective _ _ _ _ (by unfold inI64 wTs; omega) (by unfold inI64 wTs; omega) hv
        exact absurd this.2 (by unfold wTs; omega)
      · exact fun e => segK_ne_metaK _ _ _ _ _ e.symm)
  exact ⟨m', h1, h4 _, h5⟩
end Example

end Z.Props.C08Bit
