/-
  C08 — commands behave like redis on per-type keyspaces (BITMAP family, both layouts).
  The executable storage-level bitmap model `Z.BitExec` (the functions the `datacorebit` correspondence runs against a
  real KVNode, with the real key codec; every decision expression regenerated in `Gen.Bit`) refines the reference
  `offset ↦ bit` function of a key: SETBIT answers the bit as it was and afterwards GETBIT reads the new bit at that
  offset and what it read before at every other offset; a SETBIT on a bitmap that is absent or expired (and has no legacy
  string under its name) starts an all-zero bitmap (C10); nothing else in the store changes — not another bitmap
  (GETBIT / BITCOUNT / BKEYEXIST / BTTL of every other key answer as before), not a key of another type (C12).
  Stated for every well-formed store (`WF`: preserved by every write of the model, `C09Bit_wf_reachable`).
  Deviation from redis that the model reproduces (it is what the code does): a SETBIT on a name that holds a plain
  STRING converts it; under the value-header layout the converted bytes are stored where no reader looks, i.e. the
  string's bits are lost (`C08Bit_legacy_string_lost_witness`; they survive under local_deletion).
-/
import ZanVerif.Data.BitRead

namespace Z.Props.C08Bit
open Z.BitExec Z.Header
open Z.Codec (inI64 be64 toU64 ofU64 fromBE)
open Z.Ref (get Sorted)

theorem C08Bit_aux_bit_reply (b : Bool) (on : Int) (hv : on = 0 ∨ on = 1) (hb : b = decide (on = 1)) :
    (if b = true then (1 : Int) else 0) = on := by
  rcases hv with rfl | rfl <;> subst hb <;> rfl

/-- **SETBIT on a live bitmap refines `f ↦ f[offset := bit]`**: the reply is the bit as GETBIT showed it; afterwards,
    at every read time at which the bitmap has not expired, GETBIT reads the new bit at `offset` and the old bit at every
    other offset; the store stays well-formed. -/
theorem C08Bit_setbit_live (pol : Pol) {m : List KV} (W : WF m) (ts : Int) (table rk : Bytes) (offset : Nat) (on : Int)
    (ht : table.length < 65536) (hts : inI64 ts) (hv : on = 0 ∨ on = 1) (ho : (offset : Int) ≤ 4294967294)
    (h : Hdr) (ex : Bool) (size0 : Int) (hm : bmeta pol m ts table rk = .mk h ex size0 true) :
    ∃ m', setbit pol m ts table rk offset on = (m', getbit pol m ts table rk offset) ∧ WF m' ∧
      ∀ t, expiredAt pol h t = false → ∀ o : Nat, o < 9223372036854775808 →
        getbit pol m' t table rk o = if o = offset then .ok on else getbit pol m ts table rk o := by
  have hlive := bmeta_live_notExist pol m ts table rk h ex size0 hm
  have hH : wHdr pol h ex ts = h := by unfold wHdr; rw [if_neg (by rw [hlive]; simp)]
  obtain ⟨m', size2, heq, _, hge, hmeta, hbits, _, hwf⟩ :=
    setbit_spec pol W.sorted ts table rk offset on ht hts hv ho h ex size0 true hm (Or.inl rfl)
  rw [hH] at heq hmeta hbits
  obtain ⟨W', hle⟩ := hwf W
  refine ⟨m', ?_, W', ?_⟩
  · rw [heq, getbit_live pol m ts table rk h ex size0 hm offset]; rfl
  · intro t hex o hob
    have hok := mview_hdrOk pol m ts table rk h ex (bmeta_mview pol m ts table rk h ex size0 true hm)
    have hs0 := bmeta_size_in pol m ts table rk h ex size0 true hm
    have hsz : inI64 size2 := by unfold inI64 at *; omega
    have hm' := bmeta_of_written pol m' table rk h size2 ts hok hsz hmeta t
    rw [hex] at hm'
    rw [getbit_live pol m' t table rk _ _ _ hm' o]
    show BOut.ok (if genBit m' table (vkey pol rk h.ver) o = true then 1 else 0) = _
    rw [hbits o hob]
    by_cases he : o = offset
    · rw [if_pos he, if_pos he, C08Bit_aux_bit_reply _ on hv rfl]
    · rw [if_neg he, if_neg he, getbit_live pol m ts table rk h ex size0 hm o]; rfl

theorem C08Bit_aux_expiredAt_renew (pol : Pol) (h : Hdr) (ts t : Int) : expiredAt pol (renewH pol h ts) t = false := by
  cases pol
  · exact isExpired_zero _ t rfl
  · rfl

/-- **SETBIT on a dead bitmap (C10)**: the bitmap is absent or expired at the log time, no string is stored under its
    name, and the generation it starts is fresh (no stored segment carries it: always true for a log timestamp above every
    earlier one; see the known finding "generation = timestamp" otherwise). Then the reply is 0 — whatever the dead
    generation held —, and afterwards GETBIT reads the new bit at `offset` and 0 everywhere else, at every read time. -/
theorem C08Bit_setbit_dead (pol : Pol) {m : List KV} (W : WF m) (ts : Int) (table rk : Bytes) (offset : Nat) (on : Int)
    (ht : table.length < 65536) (hts : inI64 ts) (hv : on = 0 ∨ on = 1) (ho : (offset : Int) ≤ 4294967294)
    (h : Hdr) (ex : Bool) (size0 : Int) (hm : bmeta pol m ts table rk = .mk h ex size0 false) (hdead : notExist h ex = true)
    (hstr : get m (strK table rk) = none)
    (hfresh : ∀ idx, get m (segK table (vkey pol rk (renewH pol h ts).ver) idx) = none) :
    ∃ m', setbit pol m ts table rk offset on = (m', .ok 0) ∧ WF m' ∧
      ∀ t, ∀ o : Nat, o < 9223372036854775808 → getbit pol m' t table rk o = if o = offset then .ok on else .ok 0 := by
  have hH : wHdr pol h ex ts = renewH pol h ts := by unfold wHdr; rw [if_pos hdead]
  obtain ⟨m', size2, heq, _, hge, hmeta, hbits, _, hwf⟩ :=
    setbit_spec pol W.sorted ts table rk offset on ht hts hv ho h ex size0 false hm (Or.inr hstr)
  rw [hH] at heq hmeta hbits
  obtain ⟨W', hle⟩ := hwf W
  have hzero : ∀ o, genBit m table (vkey pol rk (renewH pol h ts).ver) o = false := by
    intro o; unfold genBit byteAt; rw [hfresh]; simp [testBit_zero]
  refine ⟨m', ?_, W', ?_⟩
  · rw [heq, hzero]; rfl
  · intro t o hob
    have hok := renewH_ok pol h ts (mview_hdrOk pol m ts table rk h ex (bmeta_mview pol m ts table rk h ex size0 false hm)) hts
    have hs0 := bmeta_size_in pol m ts table rk h ex size0 false hm
    have hsz : inI64 size2 := by unfold inI64 at *; omega
    have hm' := bmeta_of_written pol m' table rk (renewH pol h ts) size2 ts hok hsz hmeta t
    rw [C08Bit_aux_expiredAt_renew] at hm'
    rw [getbit_live pol m' t table rk _ _ _ hm' o]
    show BOut.ok (if genBit m' table (vkey pol rk (renewH pol h ts).ver) o = true then 1 else 0) = _
    rw [hbits o hob, hzero]
    by_cases he : o = offset
    · rw [if_pos he, if_pos he, C08Bit_aux_bit_reply _ on hv rfl]
    · rw [if_neg he, if_neg he]; rfl

/-- **other bitmaps are untouched** (C12): after a SETBIT that converts no legacy string, GETBIT, the prescribed BITCOUNT,
    BKEYEXIST and BTTL of every OTHER bitmap key answer what they answered before, at every read time, for every offset
    and range — whatever the bytes of the names (table names without ':', as the server cuts them) -/
theorem C08Bit_setbit_other_bitmaps (pol : Pol) {m : List KV} (hs : Sorted m) (ts : Int) (table rk : Bytes) (offset : Nat) (on : Int)
    (ht : table.length < 65536) (hts : inI64 ts) (hv : on = 0 ∨ on = 1) (ho : (offset : Int) ≤ 4294967294)
    (h : Hdr) (ex : Bool) (size0 : Int) (ok : Bool) (hm : bmeta pol m ts table rk = .mk h ex size0 ok)
    (hnc : ok = true ∨ get m (strK table rk) = none) (hc : Gen.cTableStartSep ∉ table)
    (table' rk' : Bytes) (ht' : table'.length < 65536) (hc' : Gen.cTableStartSep ∉ table') (hne : ¬ (table' = table ∧ rk' = rk)) (now : Int) :
    (∀ o, getbit pol (setbit pol m ts table rk offset on).1 now table' rk' o = getbit pol m now table' rk' o) ∧
    (∀ a b, bitcountSpec pol (setbit pol m ts table rk offset on).1 now table' rk' a b = bitcountSpec pol m now table' rk' a b) ∧
    bkeyexist pol (setbit pol m ts table rk offset on).1 now table' rk' = bkeyexist pol m now table' rk' ∧
    bttl pol (setbit pol m ts table rk offset on).1 now table' rk' = bttl pol m now table' rk' := by
  obtain ⟨m', size2, heq, _, _, _, _, hframe, _⟩ :=
    setbit_spec pol hs ts table rk offset on ht hts hv ho h ex size0 ok hm hnc
  rw [heq]
  exact reads_congr pol m m' table' rk'
    (sameKeys_other pol m m' table rk table' rk' _ _ ht ht' hc hc' ⟨_, rfl⟩ hframe hne) now

/-- **other types are untouched** (C12): such a SETBIT changes no key outside the two bitmap type bytes — no string, hash,
    list, set, sorted set, no table or index key -/
theorem C08Bit_setbit_other_types (pol : Pol) {m : List KV} (hs : Sorted m) (ts : Int) (table rk : Bytes) (offset : Nat) (on : Int)
    (ht : table.length < 65536) (hts : inI64 ts) (hv : on = 0 ∨ on = 1) (ho : (offset : Int) ≤ 4294967294)
    (h : Hdr) (ex : Bool) (size0 : Int) (ok : Bool) (hm : bmeta pol m ts table rk = .mk h ex size0 ok)
    (hnc : ok = true ∨ get m (strK table rk) = none)
    (x : Bytes) (h1 : x.head? ≠ some Gen.cBitmapType) (h2 : x.head? ≠ some Gen.cBitmapMetaType) :
    get (setbit pol m ts table rk offset on).1 x = get m x := by
  obtain ⟨m', size2, heq, _, _, _, _, hframe, _⟩ :=
    setbit_spec pol hs ts table rk offset on ht hts hv ho h ex size0 ok hm hnc
  rw [heq]
  apply hframe
  · intro e; exact h1 (e ▸ segK_head _ _ _)
  · intro e; exact h2 (e ▸ metaK_head _ _)

/-- the two argument guards of `BitSetV2` (regenerated): a value other than 0 / 1, an offset outside `[0, MaxBitOffsetV2]` -/
theorem C08Bit_setbit_guards (pol : Pol) (m : List KV) (ts : Int) (table rk : Bytes) (offset on : Int) :
    (on ≠ 0 ∧ on ≠ 1 → setbit pol m ts table rk offset on = (m, .err "bitvalue")) ∧
    ((on = 0 ∨ on = 1) → (offset < 0 ∨ 4294967294 < offset) → setbit pol m ts table rk offset on = (m, .err "bitoffset")) := by
  constructor
  · intro ⟨h0, h1⟩
    unfold setbit
    rw [if_pos (by unfold Gen.bitValueBad; simp [h0, h1])]
  · intro hv ho
    unfold setbit
    rw [if_neg (by rw [valueGuard on hv]; simp), if_pos (by
      unfold Gen.bitOffsetBad; rw [show Gen.cMaxBitOffsetV2 = 4294967294 from rfl]
      simp only [Bool.or_eq_true, decide_eq_true_eq]; omega)]

/-- GETBIT of a bitmap that no reader can see (absent or expired) and that has no string under its name: 0 everywhere -/
theorem C08Bit_getbit_dead_zero (pol : Pol) (m : List KV) (now : Int) (table rk : Bytes) (h : Hdr) (ex : Bool) (size : Int)
    (hm : bmeta pol m now table rk = .mk h ex size false) (hstr : strGet pol m now table rk = .ok none) (o : Int) :
    getbit pol m now table rk o = .ok 0 := getbit_dead pol m now table rk h ex size hm hstr o

/-! ### witnesses and non-vacuity: concrete runs with the real codec (table "t", keys "b", "b:x") -/
section Example
def wT : Bytes := [116]
def wK : Bytes := [98]
def wK2 : Bytes := [98, 58, 120]
def wTs : Int := 1600000000000000000
/-- SETBIT b 9 1 ; SETBIT b 8200 1 ; SETBIT b:x 0 1 -/
def wS (pol : Pol) : List KV :=
  (setbit pol (setbit pol (setbit pol [] wTs wT wK 9 1).1 (wTs + 1) wT wK 8200 1).1 (wTs + 2) wT wK2 0 1).1

set_option maxRecDepth 100000 in
theorem C08Bit_aux_wS_wf (pol : Pol) : WF (wS pol) := by
  unfold wS
  refine ((WF.nil.setbit pol _ wT wK _ _ (by decide) (by intro v h; cases h)).setbit pol _ wT wK _ _ (by decide) ?_).setbit pol _ wT wK2 _ _ (by decide) ?_
  · intro v hv
    have : get (setbit pol [] wTs wT wK 9 1).1 (strK wT wK) = none := by cases pol <;> decide
    rw [this] at hv; cases hv
  · intro v hv
    have : get (setbit pol (setbit pol [] wTs wT wK 9 1).1 (wTs + 1) wT wK 8200 1).1 (strK wT wK2) = none := by cases pol <;> decide
    rw [this] at hv; cases hv

set_option maxRecDepth 100000 in
theorem C08Bit_aux_wS_meta : bmeta .compact (wS .compact) (wTs + 3) wT wK = .mk ⟨0, wTs, some (metaUser 1026 (wTs + 1))⟩ false 1026 true := by decide

set_option maxRecDepth 100000 in
example : getbit .compact (wS .compact) (wTs + 3) wT wK 9 = .ok 1 ∧ getbit .compact (wS .compact) (wTs + 3) wT wK 10 = .ok 0 := by decide

set_option maxRecDepth 100000 in
/-- the hypotheses of `C08Bit_setbit_live` hold on a reachable store; its conclusion on a concrete offset -/
example : ∃ m', setbit .compact (wS .compact) (wTs + 3) wT wK ((10 : Nat) : Int) 1 = (m', .ok 0) ∧ WF m' ∧
    getbit .compact m' (wTs + 9) wT wK (9 : Nat) = .ok 1 ∧ getbit .compact m' (wTs + 9) wT wK (10 : Nat) = .ok 1 := by
  obtain ⟨m', h1, h2, h3⟩ := C08Bit_setbit_live .compact (C08Bit_aux_wS_wf .compact) (wTs + 3) wT wK 10 1 (by decide)
    (by unfold inI64 wTs; omega) (Or.inr rfl) (by decide) _ _ _ C08Bit_aux_wS_meta
  refine ⟨m', ?_, h2, ?_, ?_⟩
  · rw [h1]; congr 1
  · rw [h3 (wTs + 9) (by decide) 9 (by decide)]; decide
  · rw [h3 (wTs + 9) (by decide) 10 (by decide)]; rfl

set_option maxRecDepth 100000 in
/-- the hypotheses of `C08Bit_setbit_dead` hold for the first write of a store (SETBIT … 0 on a missing key included: the
    zero segment and the meta are written, the reply is 0) -/
example : ∃ m', setbit .compact [] wTs wT wK ((77 : Nat) : Int) 0 = (m', .ok 0) ∧ WF m' ∧
    ∀ o : Nat, o < 9223372036854775808 → getbit .compact m' (wTs + 9) wT wK o = if o = 77 then .ok 0 else .ok 0 := by
  obtain ⟨m', h1, h2, h3⟩ := C08Bit_setbit_dead .compact WF.nil wTs wT wK 77 0 (by decide)
    (by unfold inI64 wTs; omega) (Or.inl rfl) (by decide) fresh false 0 (by decide) (by decide) (by decide) (fun _ => rfl)
  exact ⟨m', h1, h2, fun o ho => h3 (wTs + 9) o ho⟩

set_option maxRecDepth 100000 in
/-- other bitmap: after SETBIT b 10 1, the key b:x answers as before (`C08Bit_setbit_other_bitmaps`) -/
example : getbit .compact (setbit .compact (wS .compact) (wTs + 3) wT wK ((10 : Nat) : Int) 1).1 (wTs + 9) wT wK2 0 = getbit .compact (wS .compact) (wTs + 9) wT wK2 0 :=
  (C08Bit_setbit_other_bitmaps .compact (C08Bit_aux_wS_wf .compact).sorted (wTs + 3) wT wK 10 1 (by decide)
    (by unfold inI64 wTs; omega) (Or.inr rfl) (by decide) _ _ _ true C08Bit_aux_wS_meta (Or.inl rfl) (by decide)
    wT wK2 (by decide) (by decide) (by decide) (wTs + 9)).1 0

set_option maxRecDepth 100000 in
/-- **witness (legacy string under the value-header layout)**: `SET b "\x80"` (bit 0 set), then `SETBIT b 9 1`: the
    string is gone (its key is deleted), and bit 0 — which GETBIT showed as 1 before — reads 0: the converted bytes sit
    under the UNVERSIONED segment key where no reader looks. Under local_deletion the same run keeps bit 0. -/
theorem C08Bit_legacy_string_lost_witness :
    let str (pol : Pol) : List KV := match pol with
      | .compact => [(strK wT wK, encode ⟨0, 0, some [128]⟩ ++ be64 (toU64 wTs))]
      | .local => [(strK wT wK, [128] ++ be64 (toU64 wTs))]
    getbit .compact (str .compact) (wTs + 1) wT wK 0 = .ok 1 ∧
    getbit .compact (setbit .compact (str .compact) (wTs + 1) wT wK 9 1).1 (wTs + 2) wT wK 0 = .ok 0 ∧
    get (setbit .compact (str .compact) (wTs + 1) wT wK 9 1).1 (strK wT wK) = none ∧
    getbit .local (str .local) (wTs + 1) wT wK 0 = .ok 1 ∧
    getbit .local (setbit .local (str .local) (wTs + 1) wT wK 9 1).1 (wTs + 2) wT wK 0 = .ok 1 := by decide
set_option maxRecDepth 100000 in
/-- **witness (C10: an expired bitmap is not quite "as if absent")**: `SETBIT b 8192 1 @t; BEXPIRE b 1 @t; SETBIT b 0 1 @t+3s`
    — the write starts a new generation (bit 8192 reads 0 again), but the EXPIRED meta hands its size (1025) on:
    `BITCOUNT b -1 -1` looks at byte 1024 and answers 0, where the same SETBIT on a never-used key gives size 1 and answers 1.
    (`getBitmapMeta` returns the size of an expired meta with ok = false and `BitSetV2` keeps it.) -/
theorem C08Bit_expired_size_survives_witness :
    let s1 := (setbit .compact [] wTs wT wK 8192 1).1
    let s2 := (bexpire s1 wTs wT wK 1).1
    let s3 := (setbit .compact s2 (wTs + 3000000000) wT wK 0 1).1
    let f := (setbit .compact [] (wTs + 3000000000) wT wK 0 1).1
    (setbit .compact s2 (wTs + 3000000000) wT wK 0 1).2 = .ok 0 ∧
    getbit .compact s3 (wTs + 4000000000) wT wK 8192 = .ok 0 ∧ getbit .compact s3 (wTs + 4000000000) wT wK 0 = .ok 1 ∧
    bitcountSpec .compact s3 (wTs + 4000000000) wT wK (-1) (-1) = .ok 0 ∧ bitcount .compact s3 (wTs + 4000000000) wT wK (-1) (-1) = .ok 0 ∧
    bitcountSpec .compact f (wTs + 4000000000) wT wK (-1) (-1) = .ok 1 := by decide
end Example

end Z.Props.C08Bit
