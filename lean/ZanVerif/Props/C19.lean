/-
  C19 — cross-cluster log replay applies each source entry exactly once.
  Theorems over `Z.SyncM` (the apply path of a FromClusterSyncer entry with the REGENERATED filter
  `Gen.isAlreadyApplied` and update guard `Gen.postprocessUpdates`), for EVERY delivery sequence: no
  assumption on the sender (duplicates, stale re-sends, overlapping batches, any order, several source
  clusters interleaved).
-/
import ZanVerif.Node.SyncLemmas

namespace Z.Props.C19
open Z.SyncM

/-- **at most once**: whatever is delivered, in whatever order and however often, the source indexes
    whose effect was applied are strictly increasing per source cluster — no entry changes the data twice -/
theorem C19_at_most_once (es : List Ent) (hr : ∀ e ∈ es, Real e) (c : Cluster) :
    (effects (run {} es) c).Pairwise (· < ·) := (inv_run es inv_init hr c).1

theorem C19_no_duplicate_effect (es : List Ent) (hr : ∀ e ∈ es, Real e) (c : Cluster) :
    (effects (run {} es) c).Nodup :=
  (C19_at_most_once es hr c).imp (fun h => Nat.ne_of_lt h)

/-- **the synced position never moves backwards** (term weakly, index weakly; it moves only to a
    strictly larger index), along any delivery sequence -/
theorem C19_position_monotone (s : St) (es : List Ent) (hr : ∀ e ∈ es, Real e) (c : Cluster) (p : Pos)
    (hp : s.pos c = some p) :
    ∃ p', (run s es).pos c = some p' ∧ p.term ≤ p'.term ∧ p.index ≤ p'.index :=
  posLe_run es s hr c p hp

/-- **position after effect**: a step that moves the position of a cluster is a step in which the state
    machine ran for exactly that entry, and the new position is the entry's own -/
theorem C19_position_after_effect (s : St) (e : Ent) (hr : Real e) (c : Cluster)
    (hch : (apply s e).1.pos c ≠ s.pos c) :
    (apply s e).2 = true ∧ c = e.cluster ∧ (apply s e).1.pos c = some ⟨e.term, e.index⟩ := by
  rw [apply_pos s e hr c] at hch ⊢
  by_cases hc : skip s e = true ∨ e.ignored = true
  · rw [if_pos hc] at hch; exact absurd rfl hch
  · rw [if_neg hc] at hch ⊢
    by_cases hcc : c = e.cluster
    · refine ⟨?_, hcc, by rw [if_pos hcc]⟩
      have : skip s e = false := by
        cases h : skip s e
        · rfl
        · exact absurd (Or.inl h) hc
      unfold apply; simp [this]
    · rw [if_neg hcc] at hch; exact absurd rfl hch

/-- every effect is covered by the recorded position (the position is never behind the data) -/
theorem C19_position_covers_effects (es : List Ent) (hr : ∀ e ∈ es, Real e) (c : Cluster) :
    ∀ x ∈ effects (run {} es) c, ∃ p, (run {} es).pos c = some p ∧ x ≤ p.index :=
  (inv_run es inv_init hr c).2

/-- **replay after any interruption neither repeats nor loses anything**: delivering again any part of
    what was already delivered (a retry of the last batch, the whole log from the beginning after a
    restart from a snapshot, …) leaves data and position exactly as they were -/
theorem C19_replay_idempotent (s : St) (es again : List Ent) (hr : ∀ e ∈ es, Real e)
    (hsub : ∀ e ∈ again, e ∈ es) : run (run s es) again = run s es :=
  run_settled again _ (fun e he => hr e (hsub e he))
    (fun e he => all_settled_after_run es s hr e (hsub e he))

/-- snapshot + restart: the snapshot holds data and positions of one instant; restoring it and
    replaying the local log tail (again through the filter) reproduces the pre-crash pair, and
    replaying more than the tail (entries already contained in the snapshot) does not change that -/
theorem C19_snapshot_restart_consistent (s0 : St) (beforeSnap tail : List Ent)
    (hr : ∀ e ∈ beforeSnap ++ tail, Real e) :
    let snap := run s0 beforeSnap
    run snap tail = run s0 (beforeSnap ++ tail) ∧
    run snap (beforeSnap ++ tail) = run s0 (beforeSnap ++ tail) := by
  intro snap
  constructor
  · exact (run_append s0 beforeSnap tail).symm
  · have hb : ∀ e ∈ beforeSnap, Real e := fun e he => hr e (List.mem_append_left _ he)
    rw [run_append, C19_replay_idempotent s0 beforeSnap beforeSnap hb (fun _ h => h)]
    exact (run_append s0 beforeSnap tail).symm

/-- **exactly once under a well-behaved sender**: if the source log 1..n of one cluster (terms weakly
    increasing) is delivered in order, with arbitrary re-deliveries of earlier entries in between,
    the effects are exactly 1..n. Stated as: delivering index n+1 (term ≥ the recorded one) to a state whose
    effects are 1..n at position n yields effects 1..n+1 at position n+1. -/
theorem C19_exactly_once_step (s : St) (c : Cluster) (n t : Nat) (p : Pos)
    (hpos : s.pos c = some p) (hidx : p.index = n) (hterm : p.term ≤ t) :
    let e : Ent := { cluster := c, term := t, index := n + 1 }
    effects (apply s e).1 c = effects s c ++ [n + 1] ∧ (apply s e).1.pos c = some ⟨t, n + 1⟩ := by
  intro e
  have hr : Real e := by unfold Real; simp [e]
  have hns : ¬ (skip s e = true ∨ e.ignored = true) := by
    intro h
    rcases h with h | h
    · obtain ⟨p', hp', hc⟩ := (skip_iff s e).mp h
      simp only [e] at hp' hc
      rw [hpos] at hp'; cases hp'
      omega
    · simp [e] at h
  constructor
  · unfold effects
    rw [apply_data s e, if_neg hns]
    have := effects_append s c e.cluster e.index
    simp only [e, if_true] at this
    exact this
  · rw [apply_pos s e hr c, if_neg hns]
    simp [e]

/-- the filter applied at receive time by the gRPC API is the same predicate as the apply-time filter -/
theorem C19_receive_filter_same (t i st si : Int) :
    Gen.grpcRecvFilter t i st si = Gen.isAlreadyApplied t i st si := by
  unfold Gen.grpcRecvFilter Gen.isAlreadyApplied; simp

/-! non-vacuity: a run with a duplicate, a stale re-send and an out-of-order old-term entry -/
example : effects (run {} [⟨0, 1, 1, false⟩, ⟨0, 1, 2, false⟩, ⟨0, 1, 1, false⟩, ⟨0, 2, 3, false⟩, ⟨0, 1, 9, false⟩, ⟨0, 2, 3, false⟩]) 0 = [1, 2, 3] := by decide
example : Real ⟨0, 1, 1, false⟩ := by unfold Real; decide

end Z.Props.C19
