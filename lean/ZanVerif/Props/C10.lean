/-
  C10 — expired data is dead; unexpired data is never removed (value-header / wait_compact policy).
  (a) the expiry arithmetic, over the expression REGENERATED from rockredis/t_ttl_compact.go;
  (b) the generation mechanism of collections (`Z.Gen`): dead after expiry, a renewed collection shows
      only what was written since — under the proviso that no stale sub-key of the new generation is
      stored, and a witness that the proviso is needed (generation = log timestamp).
  The per-command behaviour on the real store is judged by the C10 oracles of protocol `data`.
-/
import ZanVerif.Data.Gen
import ZanVerif.Gen.Ttl

namespace Z.Props.C10

/-- second granularity: a key with expiry second e is expired at log time ts iff e ≤ ⌊ts / 1e9⌋ — for every
    non-negative timestamp; `ExpireAt = 0` (no expiry) and `ts = 0` (no log time) never expire -/
theorem C10_expiry_rule (e ts : Nat) :
    Gen.isExpired e ts = (e != 0 && ts != 0 && decide (e ≤ ts / 1000000000)) := by
  unfold Gen.isExpired
  by_cases he : e = 0
  · subst he; simp
  · by_cases ht : ts = 0
    · subst ht; simp
    · have h1 : ((e : Int) == 0) = false := by simp; omega
      have h2 : ((ts : Int) == 0) = false := by simp; omega
      simp only [h1, h2, Bool.or_self, Bool.false_eq_true, if_false]
      have hd : Int.tdiv (ts : Int) 1000000000 = ((ts / 1000000000 : Nat) : Int) := by
        rw [Int.tdiv_eq_ediv_of_nonneg (by omega)]; simp
      rw [hd]
      have : (e != 0) = true := by simp [he]
      have : (ts != 0) = true := by simp [ht]
      simp [*]
      omega

/-- the model of `Z.Gen` uses exactly that rule -/
theorem C10_model_uses_generated_rule (m : Z.Gen.Meta) (ts : Nat) (hts : ts ≠ 0) :
    Z.Gen.expired m ts = Gen.isExpired m.expireAt ts := by
  rw [C10_expiry_rule]
  unfold Z.Gen.expired
  have : (ts != 0) = true := by simp [hts]
  simp [this]

/-- before its expiry second a key is visible and TTL reports the remaining whole seconds;
    at or after it, the key is expired — the two regenerated expressions are consistent -/
theorem C10_ttl_value (e ts : Nat) (he : e ≠ 0) (hts : ts ≠ 0) :
    (Gen.isExpired e ts = false ↔ 0 < Gen.ttlSeconds e ts) ∧
    Gen.ttlSeconds e ts = (e : Int) - ((ts / 1000000000 : Nat) : Int) := by
  have hd : Int.tdiv (ts : Int) 1000000000 = ((ts / 1000000000 : Nat) : Int) := by
    rw [Int.tdiv_eq_ediv_of_nonneg (by omega)]; simp
  constructor
  · rw [C10_expiry_rule]
    unfold Gen.ttlSeconds
    rw [hd]
    have h1 : (e != 0) = true := by simp [he]
    have h2 : (ts != 0) = true := by simp [hts]
    simp [h1, h2]
    omega
  · unfold Gen.ttlSeconds; rw [hd]

open Z.Gen in
/-- dead after expiry: every read at or after the expiry second answers as for an absent key -/
theorem C10_dead_after_expiry (s : Store) (k f ts : Nat) (m : Meta) (hm : s.metaOf k = some m)
    (he : expired m ts = true) : hget s k f ts = none := dead_after_expiry s k f ts m hm he

open Z.Gen in
/-- a renewal at ts makes exactly the generation `ts` visible -/
theorem C10_renew_visible (s : Store) (k f v ts g : Nat) (m : Meta) (hm : s.metaOf k = some m)
    (he : expired m ts = true) :
    hget (hset s k f v ts) k g ts = if g = f then some v else s.field k ts g :=
  renew_visible s k f v ts g m hm he

open Z.Gen in
/-- no resurrection, under the proviso that no stale sub-key of the new generation is stored -/
theorem C10_no_resurrection_partial (s : Store) (k f v ts g : Nat) (m : Meta) (hm : s.metaOf k = some m)
    (he : expired m ts = true) (hfresh : ∀ g', s.field k ts g' = none) (hg : g ≠ f) :
    hget (hset s k f v ts) k g ts = none := no_resurrection s k f v ts g m hm he hfresh hg

open Z.Gen in
/-- the full statement (no proviso) is FALSE of the model and of the code: equal log timestamps bring a
    dead generation back (known finding C10-generation-equals-timestamp; replayed on the real store by
    the `data` oracle in sessions with non-increasing log timestamps) -/
theorem C10_equal_ts_witness :
    hget (hset { stale with metaOf := fun j => if j = 0 then some ⟨7000000000, 1, 1⟩ else none }
      0 2 99 7000000000) 0 1 7000000000 = some 42 := equal_ts_witness

end Z.Props.C10
