/-
  C04 — the proposal WAIT TABLE with POOLED wait channels: "a request is woken only by its own result".

  Model: Node/WaitTable.lean (ProposeInternal / queueRequest's wait function / waitReqHeaders.release of node/node.go and
  RegisterWithC / Trigger of pkg/wait/wait.go, statement by statement).  The decisions of the code the theorems depend on are
  REGENERATED (Gen/WaitTable.lean): the stale-signal replacement test of ProposeInternal, the Trigger of the ctx.Done() arm,
  the Trigger of a failed propose, and — since fix 184e1b3 — that Trigger stores the result and signals the channel UNDER the
  lock (`atomicTrigger`); the statement structure around them is pinned by the generator.

  Schedules: ANY list of steps propose / applied / signal / timeout / fail / wake / poolDrop, i.e. any interleaving of any
  number of client goroutines, the apply goroutine, and the pool handing ANY released header to ANY later proposal.

  THE CODE (C04_wait_code, C04_wait_woken_only_by_own_result, C04_wait_ends_once, C04_wait_no_registration_leak): (a) own
  result, (b) at most one wake-up, (c) no registration leak and no panic — for EVERY schedule, no schedule condition left.

  REPAIRED DEFECT (fix 184e1b3; section "before the fix").  Before the fix Trigger dropped the lock BEFORE it stored the
  result and signalled.  If the waiter of id gave up exactly inside that window — its own Trigger(id, err) finds nothing, it
  releases the header with an EMPTY channel, the replacement test of the next proposal sees nothing — the late signal woke
  whoever got the header: C04_wait_FIXED_trigger_gap_before_184e1b3 (a theorem about `Cfg.preFix`); the same schedule on the
  code as it is now: C04_wait_fixed_schedule_now_correct.  For `Cfg.preFix` the exact condition was SAFE PICK — the pool
  never hands out a header whose channel a half-done Trigger still targets (C04_wait_prefix_*).
-/
import ZanVerif.Node.WaitTableLemmas
import ZanVerif.Gen.WaitTable

namespace Z.Props.C04Wait
open Z.WaitTable

/-- the configuration the CURRENT source tree has (regenerated) -/
def codeCfg : Cfg :=
  { replaceStale := Gen.waitReplaceStale, timeoutTriggers := Gen.waitTimeoutTriggers, failTriggers := Gen.waitFailTriggers,
    atomicTrigger := Gen.waitTriggerSignalsUnderLock }

/-! ### what the trace predicates say -/

/-- `ownResult tr` (newest event first): every wake-up in `tr` that read a non-error result `r` has an OLDER event
    `applied id r` of ITS OWN id with exactly that result -/
theorem C04_wait_ownResult_meaning (tr : List Ev) :
    ownResult tr = true ↔
      ∀ post pre id r, tr = post ++ Ev.woke id r :: pre → r.isErr = false → Ev.applied id r ∈ pre :=
  ownResult_iff tr

example : ownResult [.woke 1 (.val 7), .applied 1 (.val 7), .proposed 1 0] = true ∧
    ownResult [.woke 1 Res.nil, .applied 0 (.val 7), .proposed 1 0] = false := by decide

/-- `endsOnce tr`: no wake-up / give-up of an id has an older wake-up / give-up of the same id -/
theorem C04_wait_endsOnce_meaning (tr : List Ev) :
    endsOnce tr = true ↔
      ∀ post pre e e' id, tr = post ++ e :: pre → finishes id e = true → e' ∈ pre → finishes id e' = false :=
  endsOnce_iff tr

example : endsOnce [.woke 1 (.val 7), .gaveUp 0, .proposed 1 0] = true ∧
    endsOnce [.woke 1 (.val 7), .gaveUp 1] = false := by decide

/-! ### (a) woken only by the own result — every schedule -/

/-- **(a)** With the replacement test, both give-up Triggers and the atomic Trigger in place, for EVERY schedule: a waiter that
    wakes with a success result does so only after `applied` of ITS OWN id happened, and the result it reads is exactly the
    result of that `applied` (never earlier than the effect, never another request's result, never the nil of an unwritten
    slot).  Every prefix of a schedule is a schedule, so this holds in every reachable state. -/
theorem C04_wait_woken_only_by_own_result (cfg : Cfg) (hr : cfg.replaceStale = true) (ht : cfg.timeoutTriggers = true)
    (hf : cfg.failTriggers = true) (ha : cfg.atomicTrigger = true) (sched : List Step) :
    ownResult (run cfg init sched).trace = true := by
  rw [cfg_eq_code cfg hr ht hf ha]
  exact (inv_run_code sched).own

/-- a schedule with two clients, pool reuse after a timeout (the stale signal is replaced) and after a wake-up, a give-up
    right behind the apply of the own id (the signal stays in the pooled channel and is replaced): the second and third
    request are woken by their own results -/
example :
    let sched : List Step := [.propose none, .timeout 0, .propose (some 0), .applied 0 (.val 5),
      .applied 1 (.val 7), .wake 1, .propose (some 1), .applied 2 (.err 3), .wake 2,
      .propose (some 1), .applied 3 (.val 9), .timeout 3, .propose (some 1), .applied 4 (.val 2), .wake 4]
    (run Cfg.code init sched).trace.contains (.woke 1 (.val 7)) = true ∧
      (run Cfg.code init sched).trace.contains (.woke 2 (.err 3)) = true ∧
      (run Cfg.code init sched).trace.contains (.woke 4 (.val 2)) = true ∧
      (run Cfg.code init sched).trace.contains (.gaveUp 3) = true ∧
      ownResult (run Cfg.code init sched).trace = true := by decide

/-! ### (b) at most one wake-up per request -/

/-- **(b)** EVERY configuration, EVERY schedule: a request ends (wakes or gives up) at most once -/
theorem C04_wait_ends_once (cfg : Cfg) (sched : List Step) : endsOnce (run cfg init sched).trace = true :=
  (invB_run cfg sched init invB_init).once

example : (run Cfg.code init [.propose none, .applied 0 (.val 5), .wake 0, .wake 0, .timeout 0]).trace =
    [.woke 0 (.val 5), .applied 0 (.val 5), .proposed 0 0] := by decide

/-! ### (c) no registration outlives its request; no panic — every schedule -/

/-- **(c)** under the conditions of (a), for EVERY schedule: a request that ended (woke or gave up) is no longer registered;
    more: every registration belongs to a request that is still waiting, on the very channel it is registered with; no
    Trigger is ever half-done; and neither `log.Panicf("done chan is full")` nor `log.Panicf("dup id")` can fire -/
theorem C04_wait_no_registration_leak (cfg : Cfg) (hr : cfg.replaceStale = true) (ht : cfg.timeoutTriggers = true)
    (hf : cfg.failTriggers = true) (ha : cfg.atomicTrigger = true) (sched : List Step) :
    let s := run cfg init sched
    (∀ id, s.trace.any (finishes id) = true → s.tab id = none) ∧
    (∀ id ch, s.tab id = some ch → s.waiter id = some ch) ∧
    (∀ id, s.gap id = none) ∧
    s.panicked = false := by
  rw [cfg_eq_code cfg hr ht hf ha]
  have h := inv_run_code sched
  have hb := invB_run Cfg.code sched init invB_init
  have hg : NoGap (run Cfg.code init sched) := by
    have : ∀ (sched : List Step) (s : State), NoGap s → NoGap (run Cfg.code s sched) := by
      intro sched
      induction sched with
      | nil => intro s hs; exact hs
      | cons st rest ih => intro s hs; exact ih _ (nogap_step rfl hs st)
    exact this sched init nogap_init
  refine ⟨?_, h.tabW, hg, h.np⟩
  intro id hfin
  cases ht : (run Cfg.code init sched).tab id with
  | none => rfl
  | some ch =>
    have h1 := h.tabW id ch ht
    rw [(hb.fin id hfin).1] at h1
    exact absurd h1 (by simp)

example :
    let s := run Cfg.code init [.propose none, .propose none, .timeout 0, .applied 1 (.val 7)]
    s.trace.any (finishes 0) = true ∧ s.tab 0 = none ∧ s.tab 1 = none ∧ s.slot 1 = some (.val 7) ∧ s.full 1 = true := by
  decide

/-! ### the theorems over the REGENERATED configuration of the current source tree -/

/-- the current tree has the replacement test, both give-up Triggers and the Trigger that signals under the lock (this is the
    line that a change of ProposeInternal / queueRequest / wait.Trigger breaks) -/
theorem C04_wait_code_tie : codeCfg = Cfg.code := by decide

/-- (a), (b), (c) for the configuration regenerated from the current source tree — EVERY schedule, no condition -/
theorem C04_wait_code (sched : List Step) :
    let s := run codeCfg init sched
    ownResult s.trace = true ∧ endsOnce s.trace = true ∧
    (∀ id, s.trace.any (finishes id) = true → s.tab id = none) ∧
    (∀ id ch, s.tab id = some ch → s.waiter id = some ch) ∧ s.panicked = false := by
  have hr : codeCfg.replaceStale = true := by decide
  have ht : codeCfg.timeoutTriggers = true := by decide
  have hf : codeCfg.failTriggers = true := by decide
  have ha : codeCfg.atomicTrigger = true := by decide
  have hc := C04_wait_no_registration_leak codeCfg hr ht hf ha sched
  exact ⟨C04_wait_woken_only_by_own_result codeCfg hr ht hf ha sched, C04_wait_ends_once codeCfg sched, hc.1, hc.2.1, hc.2.2.2⟩

example : (run codeCfg init [.propose none, .timeout 0, .propose (some 0), .applied 1 (.val 7), .wake 1]).trace =
    [.woke 1 (.val 7), .applied 1 (.val 7), .proposed 1 1, .gaveUp 0, .proposed 0 0] := by decide

/-- the structure the model was written against, as pinned by the generator (each of these is an anchor failure of the
    generator when it changes) -/
theorem C04_wait_code_structure :
    Gen.waitRegisterBeforePropose = true ∧ Gen.waitWakeReadsOwnSlotThenReleases = true ∧ Gen.waitReleaseKeepsDone = true ∧
    Gen.waitChanCap = 1 ∧ Gen.waitRegisterFreshSlot = true ∧ Gen.waitTriggerDeletesStoresSignals = true := by decide

/-! ### witnesses: the two seeded variants (on the code with the atomic Trigger) -/

/-- **seeded variant (i), C04-m1** — WITHOUT the stale-signal replacement test: a request times out (its own Trigger leaves a
    signal in the channel), the header is pooled, the next proposal gets it and is woken at once, with the nil of its
    unwritten slot = success, although nothing was applied. -/
theorem C04_wait_witness_no_replacement_test :
    let cfg : Cfg := { Cfg.code with replaceStale := false }
    let sched : List Step := [.propose none, .timeout 0, .propose (some 0), .wake 1]
    (run cfg init sched).trace = [.woke 1 Res.nil, .proposed 1 0, .gaveUp 0, .proposed 0 0] ∧
    ownResult (run cfg init sched).trace = false := by decide

/-- **seeded variant (ii), C04-m4** — WITHOUT the Trigger on timeout: the timed-out id stays registered with the pooled
    channel; its late apply signals the channel that by now belongs to the next request, which wakes with nil = success
    before its own entry is applied — and the registration of the request that gave up is still there (leak). -/
theorem C04_wait_witness_no_trigger_on_timeout :
    let cfg : Cfg := { Cfg.code with timeoutTriggers := false }
    let sched : List Step := [.propose none, .timeout 0, .propose (some 0), .applied 0 (.val 7), .wake 1]
    (run cfg init sched).trace =
      [.woke 1 Res.nil, .applied 0 (.val 7), .proposed 1 0, .gaveUp 0, .proposed 0 0] ∧
    ownResult (run cfg init sched).trace = false ∧
    (run cfg init [.propose none, .timeout 0]).tab 0 = some 0 := by decide

/-! ### before the fix 184e1b3: `Cfg.preFix` = the code whose Trigger dropped the lock between delete and store + signal -/

/-- **REPAIRED DEFECT (fixed by 184e1b3)** — with the NON-atomic Trigger: request 0 is applied, the apply path's Trigger(0, r)
    has deleted the registration and dropped the lock but has not signalled yet; the waiter of 0 times out: its own
    Trigger(0, err) finds nothing, it releases the header with an EMPTY channel; request 1 gets that header (nothing to
    replace) and registers the channel; now part 2 of Trigger(0, r) signals the channel: request 1 wakes, reads the nil of
    its unwritten slot and reports SUCCESS although it was never applied.  Its registration stays behind (leak). -/
theorem C04_wait_FIXED_trigger_gap_before_184e1b3 :
    let sched : List Step := [.propose none, .applied 0 (.val 7), .timeout 0, .propose (some 0), .signal 0, .wake 1]
    (run Cfg.preFix init sched).trace =
      [.woke 1 Res.nil, .proposed 1 0, .gaveUp 0, .applied 0 (.val 7), .proposed 0 0] ∧
    ownResult (run Cfg.preFix init sched).trace = false ∧
    (run Cfg.preFix init sched).tab 1 = some 0 ∧ (run Cfg.preFix init sched).panicked = false ∧
    -- the schedule breaks both schedule conditions, at `timeout 0` resp. at the second `propose`
    admissible noGiveUpInGap Cfg.preFix init sched = false ∧ admissible safePick Cfg.preFix init sched = false ∧
    admissible safePick Cfg.preFix init (sched.take 3) = true := by decide

/-- **the same schedule on the code as it is now**: `applied 0` stores and signals at once; the waiter of 0 that gives up
    right behind it finds its id unregistered but pools a channel that HOLDS the signal; request 1 gets the header, the
    replacement test gives it a NEW channel; `signal 0` has nothing to do; request 1 stays blocked (no wake-up) until its
    own entry is applied -/
theorem C04_wait_fixed_schedule_now_correct :
    let sched : List Step := [.propose none, .applied 0 (.val 7), .timeout 0, .propose (some 0), .signal 0, .wake 1]
    (run Cfg.code init sched).trace = [.proposed 1 1, .gaveUp 0, .applied 0 (.val 7), .proposed 0 0] ∧
    (run Cfg.code init sched).waiter 1 = some 1 ∧ (run Cfg.code init sched).full 1 = false ∧
    (run Cfg.code init (sched ++ [.applied 1 (.val 3), .wake 1])).trace =
      [.woke 1 (.val 3), .applied 1 (.val 3), .proposed 1 1, .gaveUp 0, .applied 0 (.val 7), .proposed 0 0] := by decide

/-- before the fix, (a) and (c) held for every schedule with SAFE PICKS only -/
theorem C04_wait_prefix_safe_pick_suffices (sched : List Step) (hs : admissible safePick Cfg.preFix init sched = true) :
    let s := run Cfg.preFix init sched
    ownResult s.trace = true ∧ (∀ id ch, s.tab id = some ch → s.waiter id = some ch) ∧ s.panicked = false := by
  have h := inv_run (cfg := Cfg.preFix) rfl rfl rfl sched init inv_init hs
  exact ⟨h.own, h.tabW, h.np⟩

example : admissible safePick Cfg.preFix init
    [.propose none, .timeout 0, .propose (some 0), .applied 1 (.val 7), .signal 1, .wake 1] = true := by decide

/-- before the fix: a schedule in which no waiter gives up between the two parts of the apply path's Trigger of ITS OWN id
    has only safe picks (this is what the fix now guarantees for every schedule: the waiter's own Trigger waits for the lock) -/
theorem C04_wait_prefix_atomic_schedule_suffices (sched : List Step)
    (hs : admissible noGiveUpInGap Cfg.preFix init sched = true) :
    admissible safePick Cfg.preFix init sched = true ∧ ownResult (run Cfg.preFix init sched).trace = true := by
  have h := gapfree_admissible sched init inv_init live_init hs
  exact ⟨h, (inv_run (cfg := Cfg.preFix) rfl rfl rfl sched init inv_init h).own⟩

example : admissible noGiveUpInGap Cfg.preFix init
    [.propose none, .applied 0 (.val 5), .signal 0, .timeout 0, .propose (some 0), .applied 1 (.val 7), .signal 1, .wake 1] = true := by
  decide

/-- before the fix **the condition was exact**: in EVERY state reached through safe picks, a pick that is not safe — the pool
    hands out header `c` while a half-done Trigger targets its channel — could be continued by two steps (that Trigger's
    signal, the new waiter's wake-up) to a wake-up that did not read the own result -/
theorem C04_wait_prefix_safe_pick_is_exact (sched : List Step) (hs : admissible safePick Cfg.preFix init sched = true) (c : Ch)
    (hu : safePick (run Cfg.preFix init sched) (.propose (some c)) = false) :
    ∃ id, ownResult (run Cfg.preFix init
      (sched ++ [.propose (some c), .signal id, .wake (run Cfg.preFix init sched).nextId])).trace = false := by
  obtain ⟨id, h⟩ := bad_pick_breaks (inv_run (cfg := Cfg.preFix) rfl rfl rfl sched init inv_init hs) c hu
  refine ⟨id, ?_⟩
  simpa only [run, List.foldl_append] using h

example :
    let sched : List Step := [.propose none, .applied 0 (.val 7), .timeout 0]
    admissible safePick Cfg.preFix init sched = true ∧ safePick (run Cfg.preFix init sched) (.propose (some 0)) = false := by
  decide

end Z.Props.C04Wait
