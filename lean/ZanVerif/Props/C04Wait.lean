/-
  C04 — the proposal WAIT TABLE with POOLED wait channels: "a request is woken only by its own result".

  Model: Node/WaitTable.lean (ProposeInternal / queueRequest's wait function / waitReqHeaders.release of node/node.go and
  RegisterWithC / Trigger of pkg/wait/wait.go, statement by statement; Trigger in its TWO parts — lookup + delete under the
  lock, store + signal after the lock is dropped).  The decisions of the code the theorems depend on are REGENERATED
  (Gen/WaitTable.lean): the stale-signal replacement test of ProposeInternal, the Trigger of the ctx.Done() arm, the Trigger
  of a failed propose; the statement structure around them is pinned by the generator.

  Schedules: ANY list of steps propose / applied / signal / timeout / fail / wake / poolDrop, i.e. any interleaving of any
  number of client goroutines, the apply goroutine, and the pool handing ANY released header to ANY later proposal.

  FINDING (unchanged code).  (a) is FALSE for some schedules of the unchanged code: Trigger drops the lock BEFORE it stores
  the result and signals (wait.go:108 vs 110-113).  If the waiter of id gives up exactly inside that window — its own
  Trigger(id, err) finds nothing, it releases the header with an EMPTY channel, the replacement test of the next
  proposal sees nothing — the late signal wakes whoever got the header: C04_wait_FINDING_trigger_gap.  The exact
  condition: SAFE PICK — the pool never hands out a header whose channel a half-done Trigger still targets.  (a), (b), (c)
  hold for every schedule with safe picks (C04_wait_woken_only_by_own_result, …); EVERY pick that is not safe can be continued to a
  violation (C04_wait_safe_pick_is_exact); and safe picks are implied by "no waiter gives up inside the Trigger window of
  its own id" (C04_wait_atomic_trigger_suffices), which is what a Trigger that signals under the lock would guarantee.
-/
import ZanVerif.Node.WaitTableLemmas
import ZanVerif.Gen.WaitTable

namespace Z.Props.C04Wait
open Z.WaitTable

/-- the configuration the CURRENT source tree has (regenerated) -/
def codeCfg : Cfg :=
  { replaceStale := Gen.waitReplaceStale, timeoutTriggers := Gen.waitTimeoutTriggers, failTriggers := Gen.waitFailTriggers }

/-! ### what the trace predicates say -/

/-- `ownResult tr` (newest event first): every wake-up in `tr` that read a non-error result `r` has an OLDER event
    `applied id r` of ITS OWN id with exactly that result -/
theorem C04_wait_ownResult_meaning (tr : List Ev) :
    ownResult tr = true ↔
      ∀ post pre id r, tr = post ++ Ev.woke id r :: pre → r.isErr = false → Ev.applied id r ∈ pre :=
  ownResult_iff tr

example : ownResult [.woke 1 (.val 7), .applied 1 (.val 7), .proposed 1 0] = true ∧
    ownResult [.woke 1 Res.nil, .applied 0 (.val 7), .proposed 1 0] = false := by decide

/-- `endsOnce tr`: no wake-up / give-up of an id has an older wake-up / give-up of the same id -/
theorem C04_wait_endsOnce_meaning (tr : List Ev) :
    endsOnce tr = true ↔
      ∀ post pre e e' id, tr = post ++ e :: pre → finishes id e = true → e' ∈ pre → finishes id e' = false :=
  endsOnce_iff tr

example : endsOnce [.woke 1 (.val 7), .gaveUp 0, .proposed 1 0] = true ∧
    endsOnce [.woke 1 (.val 7), .gaveUp 1] = false := by decide

/-! ### (a) woken only by the own result -/

/-- **(a)** With the replacement test and both give-up Triggers in place, for EVERY schedule with safe picks: a waiter that
    wakes with a success result does so only after `applied` of ITS OWN id happened, and the result it reads is exactly the
    result of that `applied` (never earlier than the effect, never another request's result, never the nil of an unwritten
    slot).  Every prefix of such a schedule is such a schedule, so this holds in every reachable state. -/
theorem C04_wait_woken_only_by_own_result (cfg : Cfg) (hr : cfg.replaceStale = true) (ht : cfg.timeoutTriggers = true)
    (hf : cfg.failTriggers = true) (sched : List Step) (hs : admissible safePick cfg init sched = true) :
    ownResult (run cfg init sched).trace = true := by
  rw [cfg_eq_code cfg hr ht hf] at hs ⊢
  exact (inv_run sched init inv_init hs).own

/-- a schedule with two clients, pool reuse after a timeout (the stale signal is replaced) and after a wake-up: admissible,
    and the second and third request are woken by their own results -/
example :
    let sched : List Step := [.propose none, .timeout 0, .propose (some 0), .applied 0 (.val 5), .signal 0,
      .applied 1 (.val 7), .signal 1, .wake 1, .propose (some 1), .applied 2 (.err 3), .signal 2, .wake 2]
    admissible safePick Cfg.code init sched = true ∧
      (run Cfg.code init sched).trace.contains (.woke 1 (.val 7)) = true ∧
      (run Cfg.code init sched).trace.contains (.woke 2 (.err 3)) = true ∧
      ownResult (run Cfg.code init sched).trace = true := by decide

/-- **(a) under the simpler condition**: a schedule in which no waiter gives up between the two parts of the apply
    path's Trigger of ITS OWN id (what a Trigger that stores and signals under the lock would guarantee: the waiter's own
    Trigger(id, err) would wait for the lock) has only safe picks -/
theorem C04_wait_atomic_trigger_suffices (cfg : Cfg) (hr : cfg.replaceStale = true) (ht : cfg.timeoutTriggers = true)
    (hf : cfg.failTriggers = true) (sched : List Step) (hs : admissible noGiveUpInGap cfg init sched = true) :
    admissible safePick cfg init sched = true ∧ ownResult (run cfg init sched).trace = true := by
  rw [cfg_eq_code cfg hr ht hf] at hs ⊢
  have h := gapfree_admissible sched init inv_init live_init hs
  exact ⟨h, (inv_run sched init inv_init h).own⟩

example : admissible noGiveUpInGap Cfg.code init
    [.propose none, .applied 0 (.val 5), .signal 0, .timeout 0, .propose (some 0), .applied 1 (.val 7), .signal 1, .wake 1] = true := by
  decide

/-! ### (b) at most one wake-up per request -/

/-- **(b)** EVERY configuration, EVERY schedule: a request ends (wakes or gives up) at most once -/
theorem C04_wait_ends_once (cfg : Cfg) (sched : List Step) : endsOnce (run cfg init sched).trace = true :=
  (invB_run cfg sched init invB_init).once

example : (run Cfg.code init [.propose none, .applied 0 (.val 5), .signal 0, .wake 0, .wake 0, .timeout 0]).trace =
    [.woke 0 (.val 5), .applied 0 (.val 5), .proposed 0 0] := by decide

/-! ### (c) no registration outlives its request; no panic -/

/-- **(c)** under the conditions of (a): a request that ended (woke or gave up) is no longer registered; more: every
    registration belongs to a request that is still waiting, on the very channel it is registered with; and neither
    `log.Panicf("done chan is full")` nor `log.Panicf("dup id")` can fire -/
theorem C04_wait_no_registration_leak (cfg : Cfg) (hr : cfg.replaceStale = true) (ht : cfg.timeoutTriggers = true)
    (hf : cfg.failTriggers = true) (sched : List Step) (hs : admissible safePick cfg init sched = true) :
    let s := run cfg init sched
    (∀ id, s.trace.any (finishes id) = true → s.tab id = none) ∧
    (∀ id ch, s.tab id = some ch → s.waiter id = some ch) ∧
    s.panicked = false := by
  rw [cfg_eq_code cfg hr ht hf] at hs ⊢
  have h := inv_run sched init inv_init hs
  have hb := invB_run Cfg.code sched init invB_init
  refine ⟨?_, h.tabW, h.np⟩
  intro id hfin
  cases ht : (run Cfg.code init sched).tab id with
  | none => rfl
  | some ch =>
    have h1 := h.tabW id ch ht
    rw [(hb.fin id hfin).1] at h1
    exact absurd h1 (by simp)

example :
    let s := run Cfg.code init [.propose none, .propose none, .timeout 0, .applied 1 (.val 7)]
    s.trace.any (finishes 0) = true ∧ s.tab 0 = none ∧ s.tab 1 = none ∧ s.gap 1 = some (1, .val 7) := by decide

/-! ### the theorems over the REGENERATED configuration of the current source tree -/

/-- the current tree has the replacement test and both give-up Triggers (this is the line that a change of
    ProposeInternal / queueRequest breaks) -/
theorem C04_wait_code_tie : codeCfg = Cfg.code := by decide

/-- (a), (b), (c) for the configuration regenerated from the current source tree -/
theorem C04_wait_code (sched : List Step) (hs : admissible safePick codeCfg init sched = true) :
    let s := run codeCfg init sched
    ownResult s.trace = true ∧ endsOnce s.trace = true ∧
    (∀ id, s.trace.any (finishes id) = true → s.tab id = none) ∧ s.panicked = false := by
  have hr : codeCfg.replaceStale = true := by decide
  have ht : codeCfg.timeoutTriggers = true := by decide
  have hf : codeCfg.failTriggers = true := by decide
  have hc := C04_wait_no_registration_leak codeCfg hr ht hf sched hs
  exact ⟨C04_wait_woken_only_by_own_result codeCfg hr ht hf sched hs, C04_wait_ends_once codeCfg sched, hc.1, hc.2.2⟩

example : admissible safePick codeCfg init [.propose none, .timeout 0, .propose (some 0), .applied 1 (.val 7), .signal 1, .wake 1] = true := by
  decide

/-- the structure the model was written against, as pinned by the generator (each of these is an anchor failure of the
    generator when it changes; the last one is the window of the finding) -/
theorem C04_wait_code_structure :
    Gen.waitRegisterBeforePropose = true ∧ Gen.waitWakeReadsOwnSlotThenReleases = true ∧ Gen.waitReleaseKeepsDone = true ∧
    Gen.waitChanCap = 1 ∧ Gen.waitRegisterFreshSlot = true ∧ Gen.waitTriggerDeletesStoresSignals = true ∧
    Gen.waitTriggerSignalsUnderLock = false := by decide

/-! ### witnesses: the two seeded variants, and the finding on the unchanged code -/

/-- **seeded variant (i), C04-m1** — WITHOUT the stale-signal replacement test: a request times out (its own Trigger leaves a
    signal in the channel), the header is pooled, the next proposal gets it and is woken at once, with the nil of its
    unwritten slot = success, although nothing was applied.  The schedule even keeps every Trigger atomic. -/
theorem C04_wait_witness_no_replacement_test :
    let cfg : Cfg := { Cfg.code with replaceStale := false }
    let sched : List Step := [.propose none, .timeout 0, .propose (some 0), .wake 1]
    admissible noGiveUpInGap cfg init sched = true ∧ admissible safePick cfg init sched = true ∧
    (run cfg init sched).trace = [.woke 1 Res.nil, .proposed 1 0, .gaveUp 0, .proposed 0 0] ∧
    ownResult (run cfg init sched).trace = false := by decide

/-- **seeded variant (ii), C04-m4** — WITHOUT the Trigger on timeout: the timed-out id stays registered with the pooled
    channel; its late apply signals the channel that by now belongs to the next request, which wakes with nil = success
    before its own entry is applied — and the registration of the request that gave up is still there (leak). -/
theorem C04_wait_witness_no_trigger_on_timeout :
    let cfg : Cfg := { Cfg.code with timeoutTriggers := false }
    let sched : List Step := [.propose none, .timeout 0, .propose (some 0), .applied 0 (.val 7), .signal 0, .wake 1]
    admissible noGiveUpInGap cfg init sched = true ∧ admissible safePick cfg init sched = true ∧
    (run cfg init sched).trace =
      [.woke 1 Res.nil, .applied 0 (.val 7), .proposed 1 0, .gaveUp 0, .proposed 0 0] ∧
    ownResult (run cfg init sched).trace = false ∧
    (run cfg init [.propose none, .timeout 0]).tab 0 = some 0 := by decide

/-- **FINDING, unchanged code** — Trigger is not atomic: request 0 is applied, the apply path's Trigger(0, r) has deleted
    the registration and dropped the lock (wait.go:105-108) but has not signalled yet; the waiter of 0 times out: its own
    Trigger(0, err) finds nothing, it releases the header with an EMPTY channel; request 1 gets that header (nothing to
    replace) and registers the channel; now part 2 of Trigger(0, r) signals the channel: request 1 wakes, reads the nil of
    its unwritten slot and reports SUCCESS although it was never applied.  Its registration stays behind (leak), and when
    entry 1 is applied later the signal goes into the pooled channel of whoever is next. -/
theorem C04_wait_FINDING_trigger_gap :
    let sched : List Step := [.propose none, .applied 0 (.val 7), .timeout 0, .propose (some 0), .signal 0, .wake 1]
    (run Cfg.code init sched).trace =
      [.woke 1 Res.nil, .proposed 1 0, .gaveUp 0, .applied 0 (.val 7), .proposed 0 0] ∧
    ownResult (run Cfg.code init sched).trace = false ∧
    (run Cfg.code init sched).tab 1 = some 0 ∧ (run Cfg.code init sched).panicked = false ∧
    -- the schedule breaks both schedule conditions, at `timeout 0` resp. at the second `propose`
    admissible noGiveUpInGap Cfg.code init sched = false ∧ admissible safePick Cfg.code init sched = false ∧
    admissible safePick Cfg.code init (sched.take 3) = true := by decide

/-- **the condition is exact**: in EVERY state the unchanged code reaches through safe picks, a pick that is not safe — the pool
    hands out header `c` while a half-done Trigger targets its channel — can be continued by two steps (that Trigger's
    signal, the new waiter's wake-up) to a wake-up that did not read the own result -/
theorem C04_wait_safe_pick_is_exact (sched : List Step) (hs : admissible safePick Cfg.code init sched = true) (c : Ch)
    (hu : safePick (run Cfg.code init sched) (.propose (some c)) = false) :
    ∃ id, ownResult (run Cfg.code init
      (sched ++ [.propose (some c), .signal id, .wake (run Cfg.code init sched).nextId])).trace = false := by
  obtain ⟨id, h⟩ := bad_pick_breaks (inv_run sched init inv_init hs) c hu
  refine ⟨id, ?_⟩
  simpa only [run, List.foldl_append] using h

example :
    let sched : List Step := [.propose none, .applied 0 (.val 7), .timeout 0]
    admissible safePick Cfg.code init sched = true ∧ safePick (run Cfg.code init sched) (.propose (some 0)) = false := by
  decide

end Z.Props.C04Wait
