/-
  C10 — expired data is dead; unexpired data is never removed: the KV (string) type under the value-header
  policy, over the EXECUTABLE storage-level model `Z.KVExec` that the `datacorekv` / `datacorettl`
  correspondence runs line by line against a real KVNode.  Expiry arithmetic = the expressions REGENERATED
  from rockredis/t_ttl_compact.go (`Gen.isExpired`, `Gen.ttlSeconds`, `Gen.ttlClamp`, `Gen.expOverflow`) and
  t_kv.go (`Gen.incrFromZero`).  All statements are for every sorted store, key, value and clock.
-/
import ZanVerif.Data.KVLemmas

namespace Z.Props.C10KV
open Z.KVExec Z.Header
open Z.Ref (Sorted get get_del del_sorted)
open Z.Codec (kvKey)

/-- **dead after expiry** (KV).  A key whose stored expiry second `e ≠ 0` satisfies `e ≤ ⌊t/1e9⌋`:
    (1) every read and every leader-side pre-check at any time `t' ≥ t` answers as for an absent key;
    (2) every write command of the model except DEL / SETIFEQ / DELIFEQ (see the witnesses below), applied at
        any log time `t' ≥ t`, gives the reply of the same command on the store WITHOUT the key, and leaves the
        same visible content (every key, every later read time). -/
theorem C10_dead_after_expiry_partial {m : List KV} (hs : Sorted m) {k : Bytes} {e : Nat} {u : Bytes}
    (hst : Stored m k e u) {t t' : Int} (ht : 0 < t) (he : e ≠ 0) (hexp : (e : Int) ≤ t / 1000000000) (htt : t ≤ t') :
    (rdGet (view m t' k) = rdGet .absent ∧ rdStrlen (view m t' k) = rdStrlen .absent ∧
     (∀ a b, rdGetRange a b (view m t' k) = rdGetRange a b .absent) ∧
     rdTtl t' (view m t' k) = rdTtl t' .absent ∧ existsOne (view m t' k) = existsOne .absent ∧
     (∀ Vs, existsCount (view m t' k :: Vs) = existsCount (.absent :: Vs)) ∧
     rdMgetOne (view m t' k) = rdMgetOne .absent ∧ leadSetnx (view m t' k) = leadSetnx .absent ∧
     (∀ old, leadIfEq old (view m t' k) = leadIfEq old .absent)) ∧
    ∀ c, followsDeadRule c = true →
      (kvApply m t' k c).2 = (kvApply (Z.Ref.del m (kvKey k)) t' k c).2 ∧
      ∀ (t'' : Int) (k' : Bytes), t' ≤ t'' →
        absKV (kvApply m t' k c).1 t'' k' = absKV (kvApply (Z.Ref.del m (kvKey k)) t' k c).1 t'' k' := by
  obtain ⟨ver, mt, _, hv⟩ := view_stored hst
  have hx : ∀ s, t ≤ s → Gen.isExpired (e : Int) s = true := by
    intro s hs'
    have := (isExpired_iff ⟨e, 0, none⟩ s (by omega)).mpr ⟨he, by
      have : t / 1000000000 ≤ s / 1000000000 := Int.ediv_le_ediv (by decide) hs'
      show (e : Int) ≤ s / 1000000000
      omega⟩
    exact this
  have habs : view (Z.Ref.del m (kvKey k)) t' k = .absent := view_of_none t' (by rw [get_del m hs]; simp)
  refine ⟨?_, ?_⟩
  · rw [hv t', hx t' htt]
    refine ⟨rfl, rfl, fun a b => rfl, ?_, rfl, fun Vs => rfl, rfl, rfl, fun old => rfl⟩
    simp only [rdTtl]
    rw [ttl_dead _ t' (by omega) (Or.inl (by exact hx t' htt))]
  · intro c hc
    have hd := dead_cmd c hc t' (encFixed e ver ++ (u ++ mt)) ⟨e, Z.Codec.ofU64 (Z.Codec.toU64 ver), some u⟩ u
    constructor
    · simp only [kvApply, hv t', hx t' htt, habs]
      exact hd.1
    · intro t'' k' h''
      by_cases hk : k' = k
      · subst hk
        simp only [kvApply, absKV]
        rw [view_applyEff_self hs, view_applyEff_self (del_sorted hs _)]
        rw [hv t', hx t' htt, habs, hv t'', hx t'' (by omega)]
        have : view (Z.Ref.del m (kvKey k')) t'' k' = .absent := view_of_none t'' (by rw [get_del m hs]; simp)
        rw [this]
        exact hd.2 t''
      · simp only [kvApply, absKV]
        rw [view_applyEff_other hs _ _ hk, view_applyEff_other (del_sorted hs _) _ _ hk]
        have hne : kvKey k' ≠ kvKey k := fun h => hk (kvKey_inj h)
        simp [view, get_del m hs, hne]


/-! #### the three commands outside the dead rule: witnesses on the executable model

    `wKey` = "t:a"; `wStore` = the store after `SETEX t:a 1 v` at log time 1.6e18 ns; two seconds later the key
    is expired in log time. -/

def wKey : Bytes := [116, 58, 97]
def wT0 : Int := 1600000000000000000
def wT1 : Int := 1600000002000000000
def wStore : List KV := (kvApply [] wT0 wKey (.setex 1 [118])).1

/-- the key IS expired at `wT1`: GET answers nil -/
theorem C10_witness_store_expired : rdGet (view wStore wT1 wKey) = .nil ∧ rdGet (view wStore wT0 wKey) = .bulk [118] := by
  decide

/-- DEL of a key that is expired in log time answers 1 (it counts the physical key); on the store without the key
    it answers 0 — the full statement of `C10_dead_after_expiry` is FALSE for DEL -/
theorem C10_dead_after_expiry_false_del :
    (kvApply wStore wT1 wKey .del).2 = .int 1 ∧ (kvApply (Z.Ref.del wStore (kvKey wKey)) wT1 wKey .del).2 = .int 0 := by
  decide

/-- SETIFEQ on a key that is expired in log time skips the comparison and writes (reply 1) where an absent key
    refuses a non-empty expected value (reply 0) -/
theorem C10_dead_after_expiry_false_setifeq :
    (kvApply wStore wT1 wKey (.setifeq [120] [121] 0)).2 = .int 1 ∧
    (kvApply (Z.Ref.del wStore (kvKey wKey)) wT1 wKey (.setifeq [120] [121] 0)).2 = .int 0 ∧
    absKV (kvApply wStore wT1 wKey (.setifeq [120] [121] 0)).1 wT1 wKey = some ([121], 0) ∧
    absKV (kvApply (Z.Ref.del wStore (kvKey wKey)) wT1 wKey (.setifeq [120] [121] 0)).1 wT1 wKey = none := by
  decide

/-- DELIFEQ likewise: reply 1 on the expired key, 0 on the store without it -/
theorem C10_dead_after_expiry_false_delifeq :
    (kvApply wStore wT1 wKey (.delifeq [120])).2 = .int 1 ∧
    (kvApply (Z.Ref.del wStore (kvKey wKey)) wT1 wKey (.delifeq [120])).2 = .int 0 := by
  decide

/-- **visible before expiry; never removed** (KV).  A key with no expiry second, or with one that is still ahead
    (`⌊t/1e9⌋ < e`), is seen by every read at time `t` with its value; and no command on another key and no DEL of
    other keys — at any log time — touches what is stored for it. -/
theorem C10_visible_before_expiry {m : List KV} (hs : Sorted m) {k : Bytes} {e : Nat} {u : Bytes}
    (hst : Stored m k e u) {t : Int} (ht : 0 < t) (hlive : e = 0 ∨ t / 1000000000 < (e : Int)) :
    (rdGet (view m t k) = .bulk u ∧ rdStrlen (view m t k) = .int (u.length : Nat) ∧
     existsOne (view m t k) = (1, none) ∧ rdMgetOne (view m t k) = .bulk u ∧ leadSetnx (view m t k) = .localReply (.int 0) ∧
     absKV m t k = some (u, e)) ∧
    (∀ (k' : Bytes), k' ≠ k → ∀ (ts : Int) (c : KCmd), Stored (kvApply m ts k' c).1 k e u) ∧
    (∀ (keys : List Bytes), k ∉ keys → Stored (delKeys m keys).1 k e u) := by
  obtain ⟨ver, mt, _, hv⟩ := view_stored hst
  have hx : Gen.isExpired (e : Int) t = false := (live_iff e t ht).mpr hlive
  refine ⟨?_, ?_, ?_⟩
  · simp [hv t, hx, rdGet, rdStrlen, live, existsOne, rdMgetOne, leadSetnx, absKV, vis]
  · intro k' hk ts c
    exact stored_other hs hk hst _
  · intro keys hk
    obtain ⟨he, ver', mt', hm', hg⟩ := hst
    exact ⟨he, ver', mt', hm', by simp only [delKeys]; rw [get_foldl_del keys k hk hs, hg]⟩

/-- **TTL value** (KV).  (a) TTL of a live key with expiry second `e` answers the remaining whole seconds
    `e - ⌊t/1e9⌋ > 0`; a key without expiry answers -1.  (b) EXPIRE d on a key that is live at log time `ts`, and
    (c) SETEX d v on any key, store exactly the second `⌊ts/1e9⌋ + d` when it lies in `[0, 2^32 - 2)`. -/
theorem C10_ttl_value {m : List KV} (hs : Sorted m) {k : Bytes} {e : Nat} {u : Bytes}
    (hst : Stored m k e u) {t : Int} (ht : 0 < t) (hlive : e = 0 ∨ t / 1000000000 < (e : Int)) :
    (rdTtl t (view m t k) = .int (if e = 0 then -1 else (e : Int) - t / 1000000000) ∧
      (e ≠ 0 → 0 < (e : Int) - t / 1000000000)) ∧
    (∀ (d : Int), 0 ≤ t / 1000000000 + d → t / 1000000000 + d < 4294967294 →
      (kvApply m t k (.expire d)).2 = .int 1 ∧ Stored (kvApply m t k (.expire d)).1 k (t / 1000000000 + d).toNat u) ∧
    (∀ (d : Int) (v : Bytes), 0 < d → t / 1000000000 + d < 4294967294 → tooBig v = false →
      (kvApply m t k (.setex d v)).2 = .ok ∧ Stored (kvApply m t k (.setex d v)).1 k (t / 1000000000 + d).toNat v) := by
  obtain ⟨ver, mt, hm, hv⟩ := view_stored hst
  have hx : Gen.isExpired (e : Int) t = false := (live_iff e t ht).mpr hlive
  have hd : Int.tdiv t 1000000000 = t / 1000000000 := Int.tdiv_eq_ediv_of_nonneg (by omega)
  have hnn : 0 ≤ t / 1000000000 := Int.ediv_nonneg (by omega) (by decide)
  refine ⟨⟨?_, ?_⟩, ?_, ?_⟩
  · simp only [hv t, rdTtl]
    by_cases he : e = 0
    · simp only [he, if_true]
      rw [ttl_dead _ t ht (Or.inr rfl)]
    · simp only [he, if_false]
      rw [(ttl_live ⟨e, _, some u⟩ t ht he hx).1]
  · intro he
    rcases hlive with h | h
    · exact absurd h he
    · omega
  · intro d h0 h1
    have hno : Gen.expOverflow (t / 1000000000 + d) = false := by
      cases hh : Gen.expOverflow (t / 1000000000 + d) with
      | false => rfl
      | true => have := (expOverflow_iff _).mp hh; omega
    have hu : u32 (t / 1000000000 + d) = (t / 1000000000 + d).toNat := by unfold u32; omega
    simp only [kvApply, hv t, hx, kvCmd, hd]
    rw [rawExpireAt_encFixed e ver _ _ hst.1, hno]
    simp only [Bool.false_eq_true, if_false, applyEff, true_and]
    rw [hu]
    exact stored_put hs k _ _ u mt (by omega) hm
  · intro d v hd0 h1 hb
    have hno : Gen.expOverflow (d + t / 1000000000) = false := by
      cases hh : Gen.expOverflow (d + t / 1000000000) with
      | false => rfl
      | true => have := (expOverflow_iff _).mp hh; omega
    have hu : u32 (d + t / 1000000000) = (t / 1000000000 + d).toNat := by unfold u32; omega
    have hnd : ¬ d ≤ 0 := by omega
    simp only [kvApply, kvCmd, hnd, if_false, hb, Bool.false_eq_true, reset_eq, hd, hno, applyEff, true_and]
    rw [hu]
    exact stored_put hs k _ 0 v _ (by omega) (Z.Codec.be64_length _)


/-- **overwriting clears, modifying keeps** (KV).  On a key that is live at log time `ts` with expiry second `e`
    (0 = none): SET / GETSET / PERSIST leave it without expiry (SETEX and SET … EX give the new one, see
    `C10_ttl_value`); APPEND / INCRBY / SETRANGE keep exactly `e`. -/
theorem C10_overwrite_clears_modify_keeps {m : List KV} (hs : Sorted m) {k : Bytes} {e : Nat} {u : Bytes}
    (hst : Stored m k e u) {ts : Int} (ht : 0 < ts) (hlive : e = 0 ∨ ts / 1000000000 < (e : Int)) :
    (∀ v, tooBig v = false →
      Stored (kvApply m ts k (.set v)).1 k 0 v ∧
      Stored (kvApply m ts k (.getset v)).1 k 0 v ∧ (kvApply m ts k (.getset v)).2 = .bulk u) ∧
    (Stored (kvApply m ts k .persist).1 k 0 u ∧ (kvApply m ts k .persist).2 = .int 1) ∧
    (∀ v, v.isEmpty = false → u.length + v.length ≤ Gen.cMaxValueSize →
      Stored (kvApply m ts k (.append v)).1 k e (u ++ v) ∧
      (kvApply m ts k (.append v)).2 = .int ((u.length + v.length : Nat) : Int)) ∧
    (∀ d c, parseInt u = .ok c →
      Stored (kvApply m ts k (.incrby d)).1 k e (fmtInt (wrap64 (c + d))) ∧
      (kvApply m ts k (.incrby d)).2 = .int (wrap64 (c + d))) ∧
    (∀ (off : Int) v, 0 ≤ off → v.isEmpty = false → (v.length : Int) + off ≤ Gen.cMaxValueSize →
      Stored (kvApply m ts k (.setrange off v)).1 k e
        ((padTo u (off.toNat + v.length)).take off.toNat ++ v ++ (padTo u (off.toNat + v.length)).drop (off.toNat + v.length))) := by
  obtain ⟨ver, mt, hm, hv⟩ := view_stored hst
  have hx : Gen.isExpired (e : Int) ts = false := (live_iff e ts ht).mpr hlive
  have he := hst.1
  refine ⟨?_, ?_, ?_, ?_, ?_⟩
  · intro v hb
    refine ⟨?_, ?_, ?_⟩
    · simp only [kvApply, kvCmd, hb, Bool.false_eq_true, if_false, reset_eq, Int.le_refl, if_true, applyEff]
      exact stored_put hs k 0 0 v _ (by decide) (Z.Codec.be64_length _)
    · simp only [kvApply, kvCmd, hb, Bool.false_eq_true, if_false, hv ts, hx, reset_eq, Int.le_refl, if_true, applyEff]
      exact stored_put hs k 0 0 v _ (by decide) (Z.Codec.be64_length _)
    · simp only [kvApply, kvCmd, hb, Bool.false_eq_true, if_false, hv ts, hx, reset_eq, Int.le_refl, if_true, live]
  · have hno : Gen.expOverflow 0 = false := by decide
    have hu0 : u32 0 = 0 := by decide
    simp only [kvApply, kvCmd, hv ts, hx]
    rw [rawExpireAt_encFixed e ver _ _ he, hno]
    simp only [Bool.false_eq_true, if_false, applyEff, and_true, hu0]
    exact stored_put hs k 0 _ u mt (by decide) hm
  · intro v hne hl
    have hl' : ¬ (u.length + v.length > Gen.cMaxValueSize) := by omega
    simp only [kvApply, kvCmd, hne, Bool.false_eq_true, if_false, hv ts, hx, live, Option.getD_some, hl', hdrForWrite,
      applyEff, putH_eq, and_true]
    exact stored_put hs k e _ (u ++ v) _ he (Z.Codec.be64_length _)
  · intro d c hp
    simp only [kvApply, kvCmd, hv ts, hx, isAbsent, isExpiredV, Gen.incrFromZero, Bool.or_self, Bool.false_eq_true, if_false,
      live, Option.getD_some, hp, hdrForWrite, applyEff, putH_eq, and_true]
    exact stored_put hs k e _ _ _ he (Z.Codec.be64_length _)
  · intro off v h0 hne hl
    have h1 : ¬ off < 0 := by omega
    have hl' : ¬ ((v.length : Int) + off > Gen.cMaxValueSize) := by omega
    simp only [kvApply, kvCmd, h1, if_false, hne, Bool.false_eq_true, hl', hv ts, hx, live, Option.getD_some, hdrForWrite,
      applyEff, putH_eq]
    exact stored_put hs k e _ _ _ he (Z.Codec.be64_length _)

/-- **expiry instants beyond uint32 are refused** (`rawExpireAt`, over the REGENERATED guard): on a well-formed
    value exactly the instants `≥ 2^32 - 2` are refused with errExpOverflow; an accepted instant `≥ 0` is stored
    EXACTLY (no truncation by the 32-bit field), everything behind the fixed part is kept.  Command level: EXPIRE
    and SETEX with such an instant answer the error and change nothing. -/
theorem C10_expire_overflow (e : Nat) (ver : Int) (rest : Bytes) (when : Int) (he : e < 4294967296) :
    (rawExpireAt (encFixed e ver ++ rest) when = .err .overflow ↔ 4294967294 ≤ when) ∧
    (when < 4294967294 → ∃ e', rawExpireAt (encFixed e ver ++ rest) when = .ok (encFixed e' (Z.Codec.ofU64 (Z.Codec.toU64 ver)) ++ rest) ∧
        e' < 4294967296 ∧ (0 ≤ when → (e' : Int) = when)) ∧
    (∀ (m : List KV) (k : Bytes) (ts d : Int) (v : Bytes), 0 < ts → 0 < d → 4294967294 ≤ ts / 1000000000 + d → tooBig v = false →
        kvApply m ts k (.setex d v) = (m, .err .expoverflow)) := by
  refine ⟨?_, ?_, ?_⟩
  · rw [rawExpireAt_encFixed e ver rest when he, ← expOverflow_iff]
    cases Gen.expOverflow when <;> simp
  · intro hlt
    have hno : Gen.expOverflow when = false := by
      cases hh : Gen.expOverflow when with
      | false => rfl
      | true => have := (expOverflow_iff _).mp hh; omega
    refine ⟨u32 when, ?_, u32_lt when, fun h0 => u32_of_range h0 (by omega)⟩
    rw [rawExpireAt_encFixed e ver rest when he, hno]; simp
  · intro m k ts d v hts hd hov hb
    have hdiv : Int.tdiv ts 1000000000 = ts / 1000000000 := Int.tdiv_eq_ediv_of_nonneg (by omega)
    have hyes : Gen.expOverflow (d + ts / 1000000000) = true := (expOverflow_iff _).mpr (by omega)
    have hnd : ¬ d ≤ 0 := by omega
    simp [kvApply, kvCmd, hnd, hb, reset_eq, hdiv, hyes, applyEff, eerr]

/-- EXPIRE with an overflowing instant on a live key: error, nothing changes -/
theorem C10_expire_overflow_cmd {m : List KV} {k : Bytes} {e : Nat} {u : Bytes} (hst : Stored m k e u) {ts d : Int}
    (ht : 0 < ts) (hlive : e = 0 ∨ ts / 1000000000 < (e : Int)) (hov : 4294967294 ≤ ts / 1000000000 + d) :
    kvApply m ts k (.expire d) = (m, .err .expoverflow) := by
  obtain ⟨ver, mt, hm, hv⟩ := view_stored hst
  have hx : Gen.isExpired (e : Int) ts = false := (live_iff e ts ht).mpr hlive
  have hdiv : Int.tdiv ts 1000000000 = ts / 1000000000 := Int.tdiv_eq_ediv_of_nonneg (by omega)
  have hyes : Gen.expOverflow (ts / 1000000000 + d) = true := (expOverflow_iff _).mpr hov
  simp only [kvApply, kvCmd, hv ts, hx, hdiv]
  rw [rawExpireAt_encFixed e ver _ _ hst.1, hyes]
  simp [applyEff, eerr]

/-- `SET k v EX d` (any of NX / XX that lets the write through) whose expiry instant overflows is refused with the
    overflow error and changes nothing, for every store, key, value, log time.  (Before the fix listed in DESIGN §0.2
    `KVSetWithOpts` / `SetIfEQ` dropped the error of `resetWithNewKVValue`, answered OK and stored an EMPTY raw value,
    after which every read and read-modify-write of the key answered "invalid header meta value".) -/
theorem C10_set_ex_overflow_rejected {m : List KV} (k v : Bytes) (ts d : Int) (hts : 0 < ts) (hd : 0 < d)
    (hov : 4294967294 ≤ ts / 1000000000 + d) (hb : tooBig v = false)
    (hnb : ∀ raw er, view m ts k ≠ .bad raw er) :
    kvApply m ts k (.setOpts v d false false) = (m, .err .expoverflow) := by
  have hdiv : Int.tdiv ts 1000000000 = ts / 1000000000 := Int.tdiv_eq_ediv_of_nonneg (by omega)
  have hyes : Gen.expOverflow (d + ts / 1000000000) = true := (expOverflow_iff _).mpr (by omega)
  have hnd : ¬ d ≤ 0 := by omega
  have hr : reset ts v d = .err .overflow := by simp [reset_eq, hnd, hdiv, hyes]
  simp only [kvApply, kvCmd, kvSetWithOpts, hb, Bool.false_eq_true, if_false, Bool.false_and, hr]
  cases hV : view m ts k with
  | absent => simp [applyEff, eerr]
  | bad raw er => exact absurd hV (hnb raw er)
  | val raw h u ex => simp [applyEff, eerr]

/-! ### non-vacuity: the hypotheses instantiated on concrete stores of the executable model -/

theorem C10_aux_store_sorted : Sorted wStore := kvApply_sorted (m := []) trivial wT0 wKey _
/-- `wStore` holds the value "v" with expiry second 1600000001 -/
theorem C10_aux_store_stored : Stored wStore wKey 1600000001 [118] :=
  ⟨by decide, 0, Z.Codec.be64 (Z.Codec.toU64 wT0), by decide, by decide⟩

/-- dead rule on the witness store, two seconds later: INCR answers as on the store without the key -/
example : (kvApply wStore wT1 wKey (.incrby 1)).2 = (kvApply (Z.Ref.del wStore (kvKey wKey)) wT1 wKey (.incrby 1)).2 :=
  ((C10_dead_after_expiry_partial C10_aux_store_sorted C10_aux_store_stored (t := wT1) (t' := wT1) (by decide) (by decide) (by decide)
    (by decide)).2 (.incrby 1) rfl).1
example : rdGet (view wStore wT1 wKey) = rdGet .absent :=
  (C10_dead_after_expiry_partial C10_aux_store_sorted C10_aux_store_stored (t := wT1) (t' := wT1) (by decide) (by decide) (by decide)
    (by decide)).1.1
/-- before the expiry second the key is visible and a write on another key leaves it stored -/
example : rdGet (view wStore (wT0 + 5) wKey) = .bulk [118] ∧
    Stored (kvApply wStore wT1 [116, 58, 98] (.set [120])).1 wKey 1600000001 [118] :=
  let h := C10_visible_before_expiry C10_aux_store_sorted C10_aux_store_stored (t := wT0 + 5) (by decide) (Or.inr (by decide))
  ⟨h.1.1, h.2.1 [116, 58, 98] (by decide) wT1 (.set [120])⟩
/-- TTL at wT0 + 5 ns: one second left; EXPIRE 10 stores second 1600000010 -/
example : rdTtl (wT0 + 5) (view wStore (wT0 + 5) wKey) = .int 1 ∧
    Stored (kvApply wStore (wT0 + 5) wKey (.expire 10)).1 wKey 1600000010 [118] :=
  let h := C10_ttl_value C10_aux_store_sorted C10_aux_store_stored (t := wT0 + 5) (by decide) (Or.inr (by decide))
  ⟨h.1.1, (h.2.1 10 (by decide) (by decide)).2⟩
/-- APPEND keeps the expiry second, SET clears it -/
example : Stored (kvApply wStore (wT0 + 5) wKey (.append [119])).1 wKey 1600000001 [118, 119] ∧
    Stored (kvApply wStore (wT0 + 5) wKey (.set [119])).1 wKey 0 [119] :=
  let h := C10_overwrite_clears_modify_keeps C10_aux_store_sorted C10_aux_store_stored (ts := wT0 + 5) (by decide) (Or.inr (by decide))
  ⟨(h.2.2.1 [119] rfl (by decide)).1, (h.1 [119] (by decide)).1⟩
/-- overflow: SETEX refused, EXPIRE refused, SET … EX refused -/
example : kvApply wStore 4000000000000000000 wKey (.setex 2000000000 [118]) = (wStore, .err .expoverflow) :=
  (C10_expire_overflow 0 0 [] 0 (by decide)).2.2 wStore wKey 4000000000000000000 2000000000 [118] (by decide) (by decide)
    (by decide) (by decide)
example : kvApply wStore (wT0 + 5) wKey (.expire 4000000000) = (wStore, .err .expoverflow) :=
  C10_expire_overflow_cmd C10_aux_store_stored (ts := wT0 + 5) (by decide) (Or.inr (by decide)) (by decide)
example : kvApply wStore 4000000000000000000 wKey (.setOpts [120] 2000000000 false false) = (wStore, .err .expoverflow) :=
  C10_set_ex_overflow_rejected wKey [120] 4000000000000000000 2000000000 (by decide) (by decide)
    (by decide) (by decide) (by
      obtain ⟨ver, mt, _, hv⟩ := view_stored C10_aux_store_stored
      intro raw er h; rw [hv] at h; cases h)

end Z.Props.C10KV
