/-
  C09 — counting commands agree with enumerating commands (SET family, local-deletion layout).
  Representation invariant of the executable storage-level set model `Z.SetExec` (the functions the
  `datacoreset` correspondence runs against a real KVNode): stored size = number of member keys in the
  collection's range, size meta present iff non-empty, sizes fit the size field, members passed the size check.
  Preserved by EVERY write of the model (SADD / SREM with repeated members, SPOP with and without count, SCLEAR,
  error replies = store unchanged), hence true after every command sequence; the property's equalities in the
  model's own read functions; all of it for every codec satisfying `Z.SetInv.Enc` and in particular for the real
  codec on admitted keys (`Z.SetReal.realEnc`).
-/
import ZanVerif.Data.SetRef
import ZanVerif.Data.SetReal

namespace Z.Props.C09
open Z.Ref Z.Coll Z.SetExec Z.SetInv Z.SetRef

variable {κ : Type} [DecidableEq κ]

/-- SADD (any arguments, repeated members, error replies) preserves the invariant, provided the new size fits -/
theorem C09_set_inv_sadd (E : Enc κ) {m : List KV} (inv : Inv E m) (ts : Int) (k : κ) (args : List Bytes)
    (hfit : (abs E m k).length + args.length < E.cap) : Inv E (sadd E.toEncFns m ts k args).1 :=
  inv_sadd E inv ts k args hfit

/-- SREM preserves the invariant -/
theorem C09_set_inv_srem (E : Enc κ) {m : List KV} (inv : Inv E m) (ts : Int) (k : κ) (args : List Bytes) :
    Inv E (srem E.toEncFns m ts k args).1 := inv_srem E inv ts k args

/-- SPOP (any count, also the error cases) preserves the invariant -/
theorem C09_set_inv_spop (E : Enc κ) {m : List KV} (inv : Inv E m) (ts : Int) (k : κ) (count : Int) :
    Inv E (spop E.toEncFns m ts k count).1 := inv_spop E inv ts k count

/-- SCLEAR (single deletes and the DeleteRange variant above RangeDeleteNum) preserves the invariant -/
theorem C09_set_inv_sclear (E : Enc κ) {m : List KV} (inv : Inv E m) (k : κ) : Inv E (sclear E.toEncFns m k).1 :=
  inv_sclear E inv k

/-- the invariant holds after EVERY sequence of set writes from the empty store (total number of SADD arguments
    below the capacity of the size field) -/
theorem C09_set_inv_reachable (E : Enc κ) (cs : List (Cmd κ)) (hfit : (cs.map adds).sum < E.cap) :
    Inv E (run E [] cs) := inv_reachable E cs hfit

/-- SCARD = |SMEMBERS| whenever SMEMBERS answers a list (it answers `batchsize` above MAX_BATCH_NUM members) -/
theorem C09_set_scard_eq_smembers (E : Enc κ) {m : List KV} (inv : Inv E m) (k : κ) (l : List Bytes)
    (h : smembers E.toEncFns m k = .ok l) : scard E.toEncFns m k = l.length := by
  rw [smembers_refines E inv k] at h
  split at h
  · injection h with h; rw [← h]; exact scard_refines E inv k
  · cases h

/-- SMEMBERS answers a list up to MAX_BATCH_NUM members -/
theorem C09_set_smembers_total (E : Enc κ) {m : List KV} (inv : Inv E m) (k : κ) (h : scard E.toEncFns m k ≤ maxBatch) :
    ∃ l, smembers E.toEncFns m k = .ok l := by
  rw [smembers_refines E inv k, ← scard_refines E inv k, if_pos h]; exact ⟨_, rfl⟩

/-- SKEYEXIST = 1 ⇔ SCARD > 0 (and SKEYEXIST is 0 or 1) -/
theorem C09_set_skeyexist_iff (E : Enc κ) {m : List KV} (inv : Inv E m) (k : κ) :
    (skeyexist E.toEncFns m k = 1 ↔ scard E.toEncFns m k > 0) ∧ (skeyexist E.toEncFns m k = 0 ∨ skeyexist E.toEncFns m k = 1) := by
  rw [skeyexist_refines E inv k, scard_refines E inv k]
  by_cases h : abs E m k = []
  · simp [h]
  · have : (abs E m k).length > 0 := List.length_pos_iff.mpr h
    simp [h, this]

/-- SISMEMBER a = 1 ⇔ a is listed by SMEMBERS -/
theorem C09_set_sismember_iff (E : Enc κ) {m : List KV} (inv : Inv E m) (k : κ) (l : List Bytes)
    (h : smembers E.toEncFns m k = .ok l) (a : Bytes) (ha : okSub a = true) :
    sismember E.toEncFns m k a = .ok 1 ↔ a ∈ l := by
  rw [smembers_refines E inv k] at h
  split at h
  · injection h with h
    rw [← h, sismember_refines E inv k a ha]
    by_cases hin : a ∈ abs E m k <;> simp [hin]
  · cases h

/-- the members SMEMBERS lists are distinct and in key order -/
theorem C09_set_smembers_sorted (E : Enc κ) {m : List KV} (inv : Inv E m) (k : κ) (l : List Bytes)
    (h : smembers E.toEncFns m k = .ok l) : l.Pairwise (· < ·) ∧ l.Nodup := by
  rw [smembers_refines E inv k] at h
  split at h
  · injection h with h; rw [← h]; exact ⟨abs_sorted E inv.sorted k, abs_nodup E inv.sorted k⟩
  · cases h

/-- … for the REAL codec: every store the executable model reaches by the commands the driver runs
    (`Z.SetReal.*_comap`: the instance's functions are the driver's functions) satisfies the invariant -/
theorem C09_set_real_reachable (cs : List (Cmd Z.CollReal.InKey)) (hfit : (cs.map adds).sum < 9223372036854775808) :
    Inv Z.SetReal.realEnc (run Z.SetReal.realEnc [] cs) := inv_reachable Z.SetReal.realEnc cs hfit

/-! non-vacuity: a concrete run with the real codec (table "t", key part "s:x", a repeated member) -/
section Example
open Z.CollReal Z.SetReal
def exKeyS : InKey := ⟨[116], [115, 58, 120], by decide, by decide, by decide⟩
def exCmdsS : List (Cmd InKey) := [.sadd 1 exKeyS [[1], [2], [1]], .srem 2 exKeyS [[2], [9]], .sadd 3 exKeyS [[], [7]], .spop 4 exKeyS 1]

example : Inv realEnc (run realEnc [] exCmdsS) := C09_set_real_reachable exCmdsS (by decide)
example : smembers realFns (run realEnc [] exCmdsS) exKeyS.pair = .ok [[1], [7]] := by rfl
example : scard realFns (run realEnc [] exCmdsS) exKeyS.pair = 2 :=
  C09_set_scard_eq_smembers realEnc (C09_set_real_reachable exCmdsS (by decide)) exKeyS [[1], [7]] (by rfl)
example : sismember realFns (run realEnc [] exCmdsS) exKeyS.pair [7] = .ok 1 :=
  (C09_set_sismember_iff realEnc (C09_set_real_reachable exCmdsS (by decide)) exKeyS [[1], [7]] (by rfl) [7] (by decide)).mpr (by decide)
example : Inv realEnc (sadd realEnc.toEncFns (run realEnc [] exCmdsS) 9 exKeyS [[5], [5]]).1 :=
  C09_set_inv_sadd realEnc (C09_set_real_reachable exCmdsS (by decide)) 9 exKeyS [[5], [5]] (by decide)
example : Inv realEnc (srem realEnc.toEncFns (run realEnc [] exCmdsS) 9 exKeyS [[1]]).1 :=
  C09_set_inv_srem realEnc (C09_set_real_reachable exCmdsS (by decide)) 9 exKeyS [[1]]
example : Inv realEnc (spop realEnc.toEncFns (run realEnc [] exCmdsS) 9 exKeyS 5).1 :=
  C09_set_inv_spop realEnc (C09_set_real_reachable exCmdsS (by decide)) 9 exKeyS 5
example : Inv realEnc (sclear realEnc.toEncFns (run realEnc [] exCmdsS) exKeyS).1 :=
  C09_set_inv_sclear realEnc (C09_set_real_reachable exCmdsS (by decide)) exKeyS
example : skeyexist realFns (run realEnc [] exCmdsS) exKeyS.pair = 1 := by rfl
example : (skeyexist realEnc.toEncFns (run realEnc [] exCmdsS) exKeyS = 1 ↔ scard realEnc.toEncFns (run realEnc [] exCmdsS) exKeyS > 0) :=
  (C09_set_skeyexist_iff realEnc (C09_set_real_reachable exCmdsS (by decide)) exKeyS).1
example : ∃ l, smembers realEnc.toEncFns (run realEnc [] exCmdsS) exKeyS = .ok l :=
  C09_set_smembers_total realEnc (C09_set_real_reachable exCmdsS (by decide)) exKeyS (by decide)
example : ([[1], [7]] : List Bytes).Pairwise (· < ·) ∧ ([[1], [7]] : List Bytes).Nodup :=
  C09_set_smembers_sorted realEnc (C09_set_real_reachable exCmdsS (by decide)) exKeyS [[1], [7]] (by rfl)
end Example

end Z.Props.C09
