/-
  C09, hash type — the size invariant for every write command of the storage-level hash model and for every reachable
  state.  `Props/C09.lean` has HSET; here HDEL (last field: the meta goes too; otherwise size - 1) and HCLEAR (delete
  the collection's range, then the meta), over the same abstract codec facts (C12) and the executable functions the
  `datacore` correspondence runs against the real code (`Z.HashExec.*` = these, by `rfl`).
-/
import ZanVerif.Data.HashInvDel
import ZanVerif.Data.HashToy

namespace Z.Props.C09Hash
open Z.HashInv Z.Ref

/-- HDEL preserves: HLEN = number of stored fields, meta present ⇔ non-empty -/
theorem C09H_inv_hdel (E : Enc) {m : List KV} (inv : Inv E m) (k f : Bytes) : Inv E (hdel E m k f) :=
  inv_hdel E inv k f

/-- HCLEAR preserves the invariant and leaves the key empty -/
theorem C09H_inv_hclear (E : Enc) {m : List KV} (inv : Inv E m) (k : Bytes) :
    Inv E (hclear E m k) ∧ hlen E (hclear E m k) k = 0 ∧ (scan (hclear E m k) (E.start k) (E.stop k)).length = 0 := by
  have h := inv_hclear E inv k
  refine ⟨h, hlen_hclear E inv k, ?_⟩
  have := h.size k
  rw [hlen_hclear E inv k] at this
  exact this.symm

/-- the functions the correspondence executes are the ones the theorems are about -/
theorem C09H_exec_is_model (E : Enc) :
    Z.HashExec.hdel (Z.HashExec.ofEnc E) = hdel E ∧ Z.HashExec.hclear (Z.HashExec.ofEnc E) = hclear E ∧
    Z.HashExec.hset (Z.HashExec.ofEnc E) = hset E := ⟨rfl, rfl, rfl⟩

/-- **every reachable state**: after any sequence of HSET / HDEL / HCLEAR from the empty store, for every key, the
    size HLEN reports equals the number of fields a scan of the collection enumerates, and the key "exists" (has a
    meta) iff that number is not zero -/
theorem C09H_reachable (E : Enc) (ops : List HOp) (k : Bytes) :
    let m := ops.foldl (applyOp E) []
    hlen E m k = (scan m (E.start k) (E.stop k)).length ∧
    (get m (E.metaK k) = none ↔ (scan m (E.start k) (E.stop k)).length = 0) := by
  have inv := inv_reachable E ops
  exact ⟨inv.size k, inv.metaIff k⟩

/-! ### the hypotheses are met: the real codec, concrete run

`Enc` asks for the codec facts at every key. The REAL codec has them for key parts shorter than 65536 bytes
(`Z.Props.C08.C08_real_codec_facts`; the 2-byte length field wraps beyond that, the server refuses keys over
10240 bytes), and the proofs above use them only at keys that occur. Below: the executable functions with the real
codec on a concrete history — HSET f1, HSET f2, HDEL f1, HDEL f2 (meta gone), HSET f1, HCLEAR — keep HLEN equal to
the number of enumerated fields at every step (kernel evaluation). -/

section concrete
open Z.HashExec

def tbl : Bytes := [116]          -- "t"
def F := realFns tbl
def kk : Bytes := [107]           -- "k"
def s1 := Z.HashExec.hset F [] kk [1] [9]
def s2 := Z.HashExec.hset F s1 kk [2] [9]
def s3 := Z.HashExec.hdel F s2 kk [1]
def s4 := Z.HashExec.hdel F s3 kk [2]
def s5 := Z.HashExec.hset F s4 kk [1] [7]
def s6 := Z.HashExec.hclear F s5 kk

example : ([s1, s2, s3, s4, s5, s6].map (fun s => (Z.HashExec.hlen F s kk, (Z.HashExec.hscan F s kk).length))) =
    [(1, 1), (2, 2), (1, 1), (0, 0), (1, 1), (0, 0)] := by decide
example : s4 = [] ∧ s6 = [] := by decide

end concrete

/-- the codec hypotheses are satisfiable as a whole: `Z.HashToy.toyEnc` is an instance of `Enc`, and the reachable-state
    theorem applies to a concrete history over it -/
example : ∀ k, hlen Z.HashToy.toyEnc ([HOp.hset [1] [2] [3], .hset [1] [4] [5], .hdel [1] [2], .hclear [1], .hset [7] [8] [9]].foldl
      (applyOp Z.HashToy.toyEnc) []) k =
    (scan ([HOp.hset [1] [2] [3], .hset [1] [4] [5], .hdel [1] [2], .hclear [1], .hset [7] [8] [9]].foldl
      (applyOp Z.HashToy.toyEnc) []) (Z.HashToy.toyEnc.start k) (Z.HashToy.toyEnc.stop k)).length :=
  fun k => (C09H_reachable Z.HashToy.toyEnc _ k).1

end Z.Props.C09Hash
