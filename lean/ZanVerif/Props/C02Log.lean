/-
  C02 (log layer) — "replicas never apply different entries at the same index … each replica applies
  indexes in increasing order without gaps (a snapshot may replace a prefix)" — and C03 (storage):
  theorems about the EXECUTABLE model of this fork's raft log layer (`Z.LogModel`:
  raftLog + unstable + MemoryStorage, mirroring raft/log.go, raft/log_unstable.go, raft/storage.go
  function by function; tied to the real code by the differential protocol `raftlog`), for ALL logs and
  arguments.  They connect the concrete representation (snapshot meta + storage entries with the dummy
  entry + unstable entries + offsets) to the abstract whole-log operations of the global raft proof
  (`Z.LogMatch.maybeAppend` / `matchLen` / `termAt`, used by `Z.RaftAbs.recvApp`):

    * `fullLog l` = the entries the log holds at firstIndex..lastIndex; `Abs l L` = "l is the suffix above
      its snapshot index of the whole log L"; `WfLog l` = offsets consistent (decided by the executable
      `wfB`, which the driver prints and the Go harness recomputes on the real state);
    * `WfLog` is preserved by every non-panicking operation called within its contract
      (`C02_wf_preserved`, `C02_wf_reachable`);
    * every function computes on `fullLog` what the abstract proof assumes, and every Go panic fires
      exactly under the stated condition.
-/
import ZanVerif.Raft.LogLemmas
import ZanVerif.Raft.LogNodeLemmas
import ZanVerif.Raft.RocksLemmas
import ZanVerif.Gen.Raft
import ZanVerif.Raft.RaftAbs

namespace Z.Props.C02Log
open Z.LogModel
open Z.LogMatch (matchLen termAt Log)

/-! ### a concrete, non-trivial log for the non-vacuity examples -/

/-- snapshot at (2, term 1); storage holds 3,4; unstable holds 5,6; committed 4, applied 3 -/
def exLog : RaftLog :=
  { storage := { snapIndex := 2, snapTerm := 1, dummy := ⟨2, 1, 0, 0⟩, rest := [⟨3, 1, 31, 0⟩, ⟨4, 2, 41, 3⟩] },
    unstable := { snapshot := none, entries := [⟨5, 2, 51, 0⟩, ⟨6, 3, 61, 5⟩], offset := 5 },
    committed := 4, applied := 3, maxNextEntsSize := noLimit }

/-- the whole log it stands for -/
def exWhole : Log := [⟨1, 11⟩, ⟨1, 21⟩, ⟨1, 31⟩, ⟨2, 41⟩, ⟨2, 51⟩, ⟨3, 61⟩]

/-- a follower's view after an incoming snapshot (7, term 4) that is not yet applied -/
def exSnapLog : RaftLog := exLog.restore 7 4

/-! ### well-formedness is decidable and preserved -/

/-- the executable check printed by the driver (and recomputed by the Go harness on the real state)
    decides `WfLog` -/
theorem C02_wfB_iff (l : RaftLog) : wfB l = true ↔ WfLog l := wfB_iff l

theorem exWf : WfLog exLog := (C02_wfB_iff _).mp (by decide)
example : WfLog exSnapLog := (C02_wfB_iff _).mp (by decide)
example : ¬ WfLog { exLog with committed := 9 } := fun h => absurd ((C02_wfB_iff _).mpr h) (by decide)

/-- `newLog` over a storage whose index fields are consistent is well-formed; it holds exactly the
    storage's entries; committed = applied = the dummy (snapshot) index -/
theorem C02_wf_newLog (s : Storage) (m : Nat) (h : Contig s.dummy.index s.all) :
    WfLog (RaftLog.newLog s m) ∧ fullLog (RaftLog.newLog s m) = s.rest ∧
    (RaftLog.newLog s m).committed = s.dummy.index ∧ (RaftLog.newLog s m).applied = s.dummy.index ∧
    (RaftLog.newLog s m).firstIndex = s.dummy.index + 1 ∧ (RaftLog.newLog s m).lastIndex = s.lastIndex :=
  newLog_wf s m h

example : fullLog (RaftLog.newLog exLog.storage 0) = [⟨3, 1, 31, 0⟩, ⟨4, 2, 41, 3⟩] :=
  (C02_wf_newLog exLog.storage 0 exWf.stContig).2.1

/-- shape of a well-formed log: `fullLog` has one entry per index firstIndex..lastIndex, with that index -/
theorem C02_fullLog_shape {l : RaftLog} (w : WfLog l) :
    (fullLog l).length = l.lastIndex + 1 - l.firstIndex ∧ Contig l.firstIndex (fullLog l) ∧
    l.lastIndex + 1 = l.unstable.offset + l.unstable.entries.length ∧ l.firstIndex ≤ l.unstable.offset ∧
    1 ≤ l.firstIndex :=
  ⟨w.fullLog_length, w.fullLog_contig, w.last_succ, w.first_le_off, w.first_pos⟩

example : fullLog exLog = [⟨3, 1, 31, 0⟩, ⟨4, 2, 41, 3⟩, ⟨5, 2, 51, 0⟩, ⟨6, 3, 61, 5⟩] := by decide

/-! ### term / matchTerm -/

/-- `term(i)` on a well-formed log never fails: 0 outside [firstIndex-1, lastIndex], the snapshot/dummy
    term at firstIndex-1, the entry's term inside — and never ErrCompacted / ErrUnavailable / a panic -/
theorem C02_term_spec {l : RaftLog} (w : WfLog l) (i : Nat) :
    l.term i = .ok (termW l i) ∧
    (i + 1 < l.firstIndex ∨ l.lastIndex < i → termW l i = 0) ∧
    (i + 1 = l.firstIndex → termW l i = dummyTerm l) ∧
    (l.firstIndex ≤ i → i ≤ l.lastIndex → ∃ e, (fullLog l)[i - l.firstIndex]? = some e ∧ e.index = i ∧ termW l i = e.term) := by
  refine ⟨term_eq w i, ?_, fun h => termW_dummy w h, ?_⟩
  · intro h; unfold termW; rw [if_pos (by omega)]
  · intro h1 h2
    obtain ⟨e, he, hi⟩ := w.fullLog_get h1 h2
    exact ⟨e, he, hi, termW_in_range w h1 h2 he⟩

example : exLog.term 5 = .ok 2 ∧ exLog.term 2 = .ok 1 ∧ exLog.term 1 = .ok 0 ∧ exLog.term 7 = .ok 0 := by decide

/-- where the errors come from (no well-formedness assumed beyond "a pending snapshot lies below the
    offset"): an index inside [firstIndex-1, lastIndex] that the unstable part does not know is
    answered by the storage — ErrCompacted below its dummy index, ErrUnavailable beyond its last index -/
theorem C02_term_errors (l : RaftLog)
    (hsn : ∀ si st, l.unstable.snapshot = some (si, st) → l.unstable.entries = [] → si < l.unstable.offset)
    (i : Nat) (hin : ¬ (i < l.firstIndex - 1 ∨ i > l.lastIndex)) (hun : l.unstable.maybeTermP i = none) :
    (i < l.storage.dummy.index → l.term i = .err .compacted) ∧
    (l.storage.lastIndex < i → l.term i = .err .unavailable) ∧
    (l.storage.dummy.index ≤ i → i ≤ l.storage.lastIndex → ∃ e, l.storage.all[i - l.storage.dummy.index]? = some e ∧
      l.term i = .ok e.term) := by
  have hterm : l.term i = l.storage.term i := by
    unfold RaftLog.term
    simp only []
    rw [if_neg hin, Unstable.maybeTerm_eq _ _ hsn, hun]
  refine ⟨fun h => ?_, fun h => ?_, fun h1 h2 => ?_⟩
  · rw [hterm, Storage.term_compacted _ _ h]
  · rw [hterm, Storage.term_unavailable _ _ h]
  · obtain ⟨e, he1, he2⟩ := l.storage.term_covered i h1 h2
    exact ⟨e, he1, by rw [hterm, he2]⟩

/-- a log whose storage was compacted behind its back (dummy moved to 4 while firstIndex is decided by
    the pending-snapshot-free storage): the real code answers ErrCompacted / ErrUnavailable, so does the model -/
example : ({ exLog with unstable := { snapshot := some (0, 0), entries := [⟨5, 2, 51, 0⟩], offset := 5 } } : RaftLog).term 1
    = .err .compacted := by decide
example : ({ exLog with storage := { exLog.storage with rest := [] },
                        unstable := { snapshot := none, entries := [⟨5, 2, 51, 0⟩], offset := 5 } } : RaftLog).term 4
    = .err .unavailable := by decide

/-- `matchTerm(i, t)`; note the corner of the code: outside the log's range the answer is `t = 0` -/
theorem C02_matchTerm_spec {l : RaftLog} (w : WfLog l) (i t : Nat) :
    l.matchTerm i t = .ok (termW l i == t) := matchTerm_eq w i t

example : exLog.matchTerm 6 3 = .ok true ∧ exLog.matchTerm 6 2 = .ok false ∧ exLog.matchTerm 99 0 = .ok true := by decide

/-- if the concrete log represents the whole log `L`, `term(i)` is `termAt L i` on [firstIndex-1, lastIndex] -/
theorem C02_term_refines {l : RaftLog} {L : Log} (w : WfLog l) (a : Abs l L) {i : Nat}
    (h1 : l.firstIndex ≤ i + 1) (h2 : i ≤ l.lastIndex) :
    L.length = l.lastIndex ∧ l.term i = .ok (termAt L i) := by
  refine ⟨a.length w, ?_⟩
  rw [a.termAt_eq w h1 h2]; exact term_eq w i

theorem exAbs : Abs exLog exWhole := ⟨by decide, by decide, by decide⟩
example : exLog.term 4 = .ok (termAt exWhole 4) := (C02_term_refines exWf exAbs (by decide) (by decide)).2

/-! ### findConflict -/

/-- `findConflict(ents)` for a contiguous batch placed at `start ≥ firstIndex` with non-zero terms:
    with m = the abstract `matchLen` (number of leading entries already in the log with the same
    term), the result is 0 if all of them are there and the index `start + m` of the first one that is
    not (conflict or new) otherwise -/
theorem C02_findConflict_spec {l : RaftLog} (w : WfLog l) (ents : List Entry) (start : Nat)
    (hc : Contig start ents) (hs : l.firstIndex ≤ start) (ht : ∀ e ∈ ents, e.term ≠ 0) :
    l.findConflict ents =
      .ok (if matchLen ((fullLog l).map absE) (start - l.firstIndex) (ents.map absE) = ents.length then 0
           else start + matchLen ((fullLog l).map absE) (start - l.firstIndex) (ents.map absE)) := by
  rw [findConflict_eq w, findConflictP_spec w ents start hc hs ht]; rfl

/-- the batch used below: 5 matches, 6 conflicts (term 4 vs 3), 7 is new -/
def exBatch : List Entry := [⟨5, 2, 51, 0⟩, ⟨6, 4, 62, 1⟩, ⟨7, 4, 72, 0⟩]
theorem exBatchContig : Contig 5 exBatch := (contigB_iff _ _).mp (by decide)
theorem exBatchTerms : ∀ e ∈ exBatch, e.term ≠ 0 := by decide

example : exLog.findConflict exBatch = .ok 6 := by
  rw [C02_findConflict_spec exWf exBatch 5 exBatchContig (by decide) exBatchTerms]; decide

/-! ### truncateAndAppend, append -/

/-- the three cases of `unstable.truncateAndAppend` (and the slice panic of a batch that would leave a gap) -/
theorem C02_truncateAndAppend_spec (u : Unstable) (e0 : Entry) (es : List Entry) :
    (e0.index = u.offset + u.entries.length →
      u.truncateAndAppend (e0 :: es) = .ok { u with entries := u.entries ++ e0 :: es }) ∧
    (e0.index ≠ u.offset + u.entries.length → e0.index ≤ u.offset →
      u.truncateAndAppend (e0 :: es) = .ok { u with offset := e0.index, entries := e0 :: es }) ∧
    (u.offset < e0.index → e0.index < u.offset + u.entries.length →
      u.truncateAndAppend (e0 :: es) = .ok { u with entries := u.entries.take (e0.index - u.offset) ++ e0 :: es }) ∧
    (u.offset + u.entries.length < e0.index → u.truncateAndAppend (e0 :: es) = .panic .usliceOob) :=
  truncateAndAppend_cases u e0 es

example : exLog.unstable.truncateAndAppend [⟨7, 3, 71, 0⟩] =
    .ok { exLog.unstable with entries := [⟨5, 2, 51, 0⟩, ⟨6, 3, 61, 5⟩, ⟨7, 3, 71, 0⟩] } :=
  (C02_truncateAndAppend_spec exLog.unstable ⟨7, 3, 71, 0⟩ []).1 (by decide)
example : exLog.unstable.truncateAndAppend [⟨4, 3, 42, 0⟩] = .ok { exLog.unstable with offset := 4, entries := [⟨4, 3, 42, 0⟩] } :=
  (C02_truncateAndAppend_spec exLog.unstable ⟨4, 3, 42, 0⟩ []).2.1 (by decide) (by decide)
example : exLog.unstable.truncateAndAppend [⟨6, 4, 62, 0⟩] =
    .ok { exLog.unstable with entries := [⟨5, 2, 51, 0⟩, ⟨6, 4, 62, 0⟩] } :=
  (C02_truncateAndAppend_spec exLog.unstable ⟨6, 4, 62, 0⟩ []).2.2.1 (by decide) (by decide)
example : exLog.unstable.truncateAndAppend [⟨9, 4, 92, 0⟩] = .panic .usliceOob :=
  (C02_truncateAndAppend_spec exLog.unstable ⟨9, 4, 92, 0⟩ []).2.2.2 (by decide)

/-- `raftLog.append` of a contiguous batch starting at `a`: panic `after` iff a ≤ committed (a ≠ 0),
    the unstable-slice panic iff a > lastIndex+1, otherwise the log keeps everything below `a` and
    continues with the batch; nothing at or below `committed` changes; well-formedness is kept -/
theorem C02_append_spec {l : RaftLog} (w : WfLog l) (e0 : Entry) (es : List Entry)
    (hc : Contig e0.index (e0 :: es)) :
    (e0.index ≠ 0 → e0.index ≤ l.committed → l.append (e0 :: es) = .panic .after) ∧
    (l.lastIndex + 1 < e0.index → l.append (e0 :: es) = .panic .usliceOob) ∧
    (l.committed < e0.index → e0.index ≤ l.lastIndex + 1 →
      ∃ l', l.append (e0 :: es) = .ok (l', e0.index + es.length) ∧
        l'.storage = l.storage ∧ l'.committed = l.committed ∧ l'.applied = l.applied ∧
        l'.firstIndex = l.firstIndex ∧ l'.lastIndex = e0.index + es.length ∧
        fullLog l' = (fullLog l).take (e0.index - l.firstIndex) ++ e0 :: es ∧
        (fullLog l').take (l.committed + 1 - l.firstIndex) = (fullLog l).take (l.committed + 1 - l.firstIndex) ∧
        WfLog l') := by
  refine ⟨fun h0 h => append_panic_after l e0 es h0 h, fun h => append_panic_oob w e0 es h, fun h1 h2 => ?_⟩
  obtain ⟨l', a1, a2, a3, a4, _, _, a7, a8, a9, a10⟩ := append_ok w e0 es hc h1 h2
  refine ⟨l', a1, a2, a3, a4, a7, a8, a9, ?_, a10⟩
  have hlen := w.fullLog_length
  rw [a9, List.take_append_of_le_length (by rw [List.length_take]; omega), List.take_take,
    Nat.min_eq_left (by omega)]

example : ∃ l', exLog.append [⟨6, 5, 63, 0⟩, ⟨7, 5, 73, 0⟩] = .ok (l', 7) ∧
    fullLog l' = [⟨3, 1, 31, 0⟩, ⟨4, 2, 41, 3⟩, ⟨5, 2, 51, 0⟩, ⟨6, 5, 63, 0⟩, ⟨7, 5, 73, 0⟩] := by
  obtain ⟨l', h1, _, _, _, _, _, h7, _, _⟩ :=
    (C02_append_spec exWf ⟨6, 5, 63, 0⟩ [⟨7, 5, 73, 0⟩] ((contigB_iff _ _).mp (by decide))).2.2 (by decide) (by decide)
  exact ⟨l', h1, by rw [h7]; decide⟩
example : exLog.append [⟨4, 5, 43, 0⟩] = .panic .after :=
  (C02_append_spec exWf ⟨4, 5, 43, 0⟩ [] ((contigB_iff _ _).mp (by decide))).1 (by decide) (by decide)

/-! ### maybeAppend -/

/-- a `(index, logTerm)` that does not match is rejected and nothing changes -/
theorem C02_maybeAppend_reject {l : RaftLog} (w : WfLog l) (index logTerm cm : Nat) (ents : List Entry)
    (h : termW l index ≠ logTerm) : l.maybeAppend index logTerm cm ents = .ok (l, none) :=
  maybeAppend_reject w index logTerm cm ents h

example : exLog.maybeAppend 5 3 6 exBatch = .ok (exLog, none) := C02_maybeAppend_reject exWf 5 3 6 exBatch (by decide)

/-- **maybeAppend_spec.** On a prev match inside the log, for a contiguous batch with non-zero terms and
    m = the abstract `matchLen` of the batch against the log:
    * the panic branch is exactly "first conflict ≤ committed" (m < |ents| ∧ index+1+m ≤ committed);
    * otherwise lastnewi = index + |ents|, the log is unchanged if everything matched and else is cut at
      the first non-matching index index+1+m and continued with `ents.drop m`; nothing at or below
      `committed` changes; `committed' = max committed (min leaderCommit lastnewi)`; `applied`, the storage
      and the pending snapshot are untouched; well-formedness is kept -/
theorem C02_maybeAppend_spec {l : RaftLog} (w : WfLog l) (index logTerm cm : Nat) (ents : List Entry)
    (hm : termW l index = logTerm) (h1 : l.firstIndex ≤ index + 1) (h2 : index ≤ l.lastIndex)
    (hc : Contig (index + 1) ents) (ht : ∀ e ∈ ents, e.term ≠ 0) :
    (matched l (index + 1) ents < ents.length ∧ index + 1 + matched l (index + 1) ents ≤ l.committed →
      l.maybeAppend index logTerm cm ents = .panic .conflict) ∧
    (¬ (matched l (index + 1) ents < ents.length ∧ index + 1 + matched l (index + 1) ents ≤ l.committed) →
      ∃ l', l.maybeAppend index logTerm cm ents = .ok (l', some (index + ents.length)) ∧
        l'.storage = l.storage ∧ l'.applied = l.applied ∧ l'.unstable.snapshot = l.unstable.snapshot ∧
        l'.firstIndex = l.firstIndex ∧
        l'.lastIndex = (if matched l (index + 1) ents = ents.length then l.lastIndex else index + ents.length) ∧
        l'.committed = max l.committed (min cm (index + ents.length)) ∧
        fullLog l' = (if matched l (index + 1) ents = ents.length then fullLog l
          else (fullLog l).take (index + 1 - l.firstIndex + matched l (index + 1) ents)
            ++ ents.drop (matched l (index + 1) ents)) ∧
        (fullLog l').take (l.committed + 1 - l.firstIndex) = (fullLog l).take (l.committed + 1 - l.firstIndex) ∧
        WfLog l') := by
  obtain ⟨p1, p2⟩ := maybeAppend_accept w index logTerm cm ents hm h1 h2 hc ht
  refine ⟨fun h => p1 h.1 h.2, fun h => ?_⟩
  obtain ⟨l', a1, a2, a3, a4, _, a6, a7, a8, a9, a10⟩ := p2 h
  refine ⟨l', a1, a2, a3, a4, a6, a7, a8, a9, ?_, a10⟩
  rw [a9]
  split
  · rfl
  · rename_i hne
    have := matched_le l (index + 1) ents
    have hlen := w.fullLog_length
    have hb := matched_bound w (index + 1) ents h1 (by omega)
    rw [List.take_append_of_le_length (by rw [List.length_take]; omega), List.take_take,
      Nat.min_eq_left (by omega)]

/-- `matched` is the abstract `matchLen` on the represented whole log -/
theorem C02_matched_is_matchLen {l : RaftLog} {L : Log} (w : WfLog l) (a : Abs l L) (index : Nat)
    (ents : List Entry) (h1 : l.firstIndex ≤ index + 1) :
    matchLen L index (ents.map absE) = matched l (index + 1) ents := a.matched_eq w index ents h1

/-- **refinement**: if the log represents the whole log `L`, then after an accepted `maybeAppend` it
    represents `Z.LogMatch.maybeAppend L index ents` — the operation of the abstract `recvApp`, for which
    `Z.LogMatch.accept` proves the prefix invariant and Log Matching -/
theorem C02_maybeAppend_refines {l l' : RaftLog} {L : Log} (w : WfLog l) (a : Abs l L)
    (index logTerm cm : Nat) (ents : List Entry) (lastnewi : Nat)
    (hm : termW l index = logTerm) (h1 : l.firstIndex ≤ index + 1) (h2 : index ≤ l.lastIndex)
    (hc : Contig (index + 1) ents) (ht : ∀ e ∈ ents, e.term ≠ 0)
    (hr : l.maybeAppend index logTerm cm ents = .ok (l', some lastnewi)) :
    Abs l' (Z.LogMatch.maybeAppend L index (ents.map absE)) ∧ WfLog l' ∧
    termAt L index = logTerm ∧ lastnewi = index + ents.length := by
  obtain ⟨p1, p2⟩ := C02_maybeAppend_spec w index logTerm cm ents hm h1 h2 hc ht
  by_cases hp : matched l (index + 1) ents < ents.length ∧ index + 1 + matched l (index + 1) ents ≤ l.committed
  · rw [p1 hp] at hr; cases hr
  · obtain ⟨l'', a1, a2, _, a4, _, _, _, a8, _, a10⟩ := p2 hp
    rw [a1] at hr
    have e1 : l'' = l' := by injection hr with h; exact (Prod.mk.inj h).1
    have e2 : index + ents.length = lastnewi := by
      injection hr with h; exact Option.some.inj (Prod.mk.inj h).2
    subst e1
    exact ⟨a.maybeAppend w index ents h1 h2 a2 a4 a8, a10, by rw [a.termAt_eq w h1 h2]; exact hm, e2.symm⟩

example : ∃ l', exLog.maybeAppend 4 2 6 exBatch = .ok (l', some 7) ∧ l'.committed = 6 ∧
    fullLog l' = [⟨3, 1, 31, 0⟩, ⟨4, 2, 41, 3⟩, ⟨5, 2, 51, 0⟩, ⟨6, 4, 62, 1⟩, ⟨7, 4, 72, 0⟩] ∧
    Abs l' (Z.LogMatch.maybeAppend exWhole 4 (exBatch.map absE)) := by
  obtain ⟨l', h1, _, _, _, _, _, h7, h8, _, _⟩ :=
    (C02_maybeAppend_spec exWf 4 2 6 exBatch (by decide) (by decide) (by decide) exBatchContig exBatchTerms).2 (by decide)
  refine ⟨l', h1, by rw [h7]; decide, by rw [h8]; decide, ?_⟩
  exact (C02_maybeAppend_refines exWf exAbs 4 2 6 exBatch 7 (by decide) (by decide) (by decide) exBatchContig
    exBatchTerms h1).1
/-- the panic branch: a conflicting entry at the committed index 4 -/
example : exLog.maybeAppend 3 1 6 [⟨4, 3, 44, 0⟩] = .panic .conflict :=
  (C02_maybeAppend_spec exWf 3 1 6 [⟨4, 3, 44, 0⟩] (by decide) (by decide) (by decide)
    ((contigB_iff _ _).mp (by decide)) (by decide)).1 (by decide)

/-! ### committed / applied -/

/-- **commit_monotone.** `commitTo` never lowers `committed`, panics iff the new value is beyond
    lastIndex, and changes nothing else; `maybeAppend`, `maybeCommit` never lower it either -/
theorem C02_commit_monotone (l : RaftLog) (c : Nat) :
    (l.commitTo c = .panic .tocommit ↔ l.committed < c ∧ l.lastIndex < c) ∧
    (∀ l', l.commitTo c = .ok l' → l' = { l with committed := max l.committed c } ∧ l.committed ≤ l'.committed) ∧
    (∀ p, l.commitTo c = .panic p → p = .tocommit) ∧ (∀ e, l.commitTo c ≠ .err e) := by
  obtain ⟨c1, c2, c3⟩ := commitTo_cases l c
  by_cases h1 : c ≤ l.committed
  · rw [c1 h1]
    refine ⟨⟨?_, ?_⟩, ?_, ?_, ?_⟩
    · intro h; cases h
    · intro h; omega
    · intro l' h; injection h with h; subst h
      have : max l.committed c = l.committed := by omega
      rw [this]; exact ⟨rfl, Nat.le_refl _⟩
    · intro p h; cases h
    · intro x h; cases h
  · by_cases h2 : c ≤ l.lastIndex
    · rw [c2 (by omega) h2]
      refine ⟨⟨?_, ?_⟩, ?_, ?_, ?_⟩
      · intro h; cases h
      · intro h; omega
      · intro l' h; injection h with h; subst h
        have : max l.committed c = c := by omega
        rw [this]; exact ⟨rfl, by show l.committed ≤ c; omega⟩
      · intro p h; cases h
      · intro x h; cases h
    · rw [c3 (by omega) (by omega)]
      refine ⟨⟨?_, ?_⟩, ?_, ?_, ?_⟩
      · intro _; exact ⟨by omega, by omega⟩
      · intro _; rfl
      · intro l' h; cases h
      · intro p h; injection h with h; exact h.symm
      · intro x h; cases h

theorem C02_commit_monotone_maybeCommit {l : RaftLog} (w : WfLog l) (i t : Nat) {l' : RaftLog} {b : Bool}
    (h : l.maybeCommit i t = .ok (l', b)) :
    l.committed ≤ l'.committed ∧ WfLog l' ∧
    (b = Gen.maybeCommitGuard i l.committed (termW l i) t) ∧ (b = true → l'.committed = i) ∧ (b = false → l' = l) := by
  obtain ⟨c1, c2, c3⟩ := maybeCommit_cases w i t
  have hg : Gen.maybeCommitGuard i l.committed (termW l i) t = (decide (i > l.committed) && (termW l i == t)) := by
    unfold Gen.maybeCommitGuard
    simp only [gt_iff_lt, Int.ofNat_lt]
    congr 1
    rw [Bool.eq_iff_iff]; simp only [beq_iff_eq, Int.natCast_inj]
  by_cases hc : i > l.committed ∧ termW l i = t
  · by_cases hl : i ≤ l.lastIndex
    · rw [c2 hc.1 hc.2 hl] at h
      injection h with h; obtain ⟨e1, e2⟩ := Prod.mk.inj h
      subst e1; subst e2
      refine ⟨by show l.committed ≤ i; omega, w.setCommitted i (by omega) hl, ?_, fun _ => rfl, ?_⟩
      · rw [hg]; simp [hc.1, hc.2]
      · intro h; cases h
    · rw [c3 hc.1 hc.2 (by omega)] at h; cases h
  · rw [c1 hc] at h
    injection h with h; obtain ⟨e1, e2⟩ := Prod.mk.inj h
    subst e1; subst e2
    refine ⟨Nat.le_refl _, w, ?_, ?_, fun _ => rfl⟩
    · rw [hg]
      by_cases h1 : i > l.committed
      · have : ¬ termW l i = t := fun hh => hc ⟨h1, hh⟩
        simp [h1, this]
      · simp [h1]
    · intro h; cases h

example : exLog.commitTo 6 = .ok { exLog with committed := 6 } ∧ exLog.commitTo 2 = .ok exLog ∧
    exLog.commitTo 7 = .panic .tocommit := by decide
example : exLog.maybeCommit 6 3 = .ok ({ exLog with committed := 6 }, true) ∧ exLog.maybeCommit 6 2 = .ok (exLog, false) := by
  decide

/-- `appliedTo(i)`: a no-op for 0, a panic exactly outside [applied, committed], else `applied := i` -/
theorem C02_appliedTo_spec (l : RaftLog) (i : Nat) :
    (i = 0 → l.appliedTo i = .ok l) ∧
    (i ≠ 0 → (l.committed < i ∨ i < l.applied) → l.appliedTo i = .panic .applied) ∧
    (i ≠ 0 → l.applied ≤ i → i ≤ l.committed → l.appliedTo i = .ok { l with applied := i }) :=
  appliedTo_cases l i

example : exLog.appliedTo 4 = .ok { exLog with applied := 4 } ∧ exLog.appliedTo 5 = .panic .applied ∧
    exLog.appliedTo 2 = .panic .applied := by decide

/-! ### restore, stableTo, stableSnapTo -/

/-- **restore_spec.** After `restore(snapshot (i, t))` the log is empty above i: firstIndex = i+1,
    lastIndex = committed = i, `term(i) = t`, applied unchanged; well-formed whenever applied ≤ i
    (raft.restore calls it only for i > committed) -/
theorem C02_restore_spec {l : RaftLog} (w : WfLog l) (i t : Nat) (h : l.applied ≤ i) :
    WfLog (l.restore i t) ∧ fullLog (l.restore i t) = [] ∧ (l.restore i t).firstIndex = i + 1 ∧
    (l.restore i t).lastIndex = i ∧ (l.restore i t).committed = i ∧ (l.restore i t).applied = l.applied ∧
    (l.restore i t).term i = .ok t := by
  obtain ⟨r1, r2, r3, r4, r5, r6, r7⟩ := restore_wf w i t h
  refine ⟨r1, r2, r3, r4, r5, r6, ?_⟩
  rw [term_eq r1, termW_dummy r1 (by rw [r3]), r7]

example : exSnapLog.firstIndex = 8 ∧ exSnapLog.lastIndex = 7 ∧ exSnapLog.committed = 7 ∧ exSnapLog.term 7 = .ok 4 := by
  decide

/-- **stableTo_spec.** `stableTo(i, t)` moves the offset to i+1 (dropping the entries up to i from the
    unstable part) only when i ≥ offset is an unstable entry's index and that entry has term t; in every
    other case (stale term, index below the offset or matched with the snapshot, unknown index) nothing changes -/
theorem C02_stableTo_spec {l : RaftLog} (w : WfLog l) (i t : Nat) :
    (∀ e, l.unstable.offset ≤ i → l.unstable.entries[i - l.unstable.offset]? = some e → e.term = t →
      l.stableTo i t = .ok { l with unstable := { l.unstable with
        entries := l.unstable.entries.drop (i + 1 - l.unstable.offset), offset := i + 1 } }) ∧
    ((i < l.unstable.offset ∨ l.unstable.entries[i - l.unstable.offset]? = none ∨
        ∃ e, l.unstable.entries[i - l.unstable.offset]? = some e ∧ e.term ≠ t) → l.stableTo i t = .ok l) :=
  stableTo_cases w i t

/-- … and when the application has persisted the entries offset..i (`Persisted`), the log is unchanged
    by the move (same entries at the same indexes, same first/last index) and stays well-formed -/
theorem C02_stableTo_keeps_log {l : RaftLog} (w : WfLog l) (i : Nat) (h1 : l.unstable.offset ≤ i)
    (h2 : i ≤ l.lastIndex) (hp : Persisted l i) (hs : l.unstable.snapshot = none ∨ i < l.lastIndex) :
    let l' : RaftLog := { l with unstable := { l.unstable with
        entries := l.unstable.entries.drop (i + 1 - l.unstable.offset), offset := i + 1 } }
    WfLog l' ∧ fullLog l' = fullLog l ∧ l'.firstIndex = l.firstIndex ∧ l'.lastIndex = l.lastIndex :=
  stableTo_wf w i h1 h2 hp hs

example : exLog.stableTo 5 2 = .ok { exLog with unstable := { exLog.unstable with entries := [⟨6, 3, 61, 5⟩], offset := 6 } } ∧
    exLog.stableTo 5 3 = .ok exLog ∧ exLog.stableTo 4 2 = .ok exLog ∧ exLog.stableTo 9 3 = .ok exLog := by decide

/-- `stableSnapTo(i)` clears the pending snapshot iff its index is i -/
theorem C02_stableSnapTo_spec (l : RaftLog) (i : Nat) :
    (∀ si st, l.unstable.snapshot = some (si, st) → si = i →
      l.stableSnapTo i = { l with unstable := { l.unstable with snapshot := none } }) ∧
    ((l.unstable.snapshot = none ∨ ∃ si st, l.unstable.snapshot = some (si, st) ∧ si ≠ i) → l.stableSnapTo i = l) :=
  stableSnapTo_cases l i

example : (exSnapLog.stableSnapTo 7).unstable.snapshot = none ∧ exSnapLog.stableSnapTo 6 = exSnapLog := by decide

/-! ### slice, nextEnts -/

/-- `slice(lo, hi, maxSize)` with firstIndex ≤ lo ≤ hi ≤ lastIndex+1: a prefix of the entries lo..hi-1 in
    order (index fields lo, lo+1, …), at least one entry when lo < hi, all of them when they fit `maxSize` -/
theorem C02_slice_spec {l : RaftLog} (w : WfLog l) (lo hi m : Nat) (h1 : l.firstIndex ≤ lo) (h2 : lo ≤ hi)
    (h3 : hi ≤ l.lastIndex + 1) :
    ∃ n, l.slice lo hi m = .ok ((range l lo hi).take n) ∧ n ≤ hi - lo ∧ (lo < hi → 1 ≤ n) ∧
      (((range l lo hi).map Entry.size).sum ≤ m → n = hi - lo) ∧ Contig lo ((range l lo hi).take n) := by
  obtain ⟨n, e1, e2, e3, e4⟩ := slice_ok w lo hi m h1 h2 h3
  exact ⟨n, e1, e2, e3, e4, (range_contig w lo hi h1).take n⟩

/-- out-of-contract calls: ErrCompacted below firstIndex, the two bound panics -/
theorem C02_slice_bounds (l : RaftLog) (lo hi m : Nat) :
    (lo > hi → l.slice lo hi m = .panic .sliceInv) ∧
    (lo ≤ hi → lo < l.firstIndex → l.slice lo hi m = .err .compacted) ∧
    (lo ≤ hi → l.firstIndex ≤ lo → hi > l.lastIndex + 1 → l.slice lo hi m = .panic .sliceOob) := by
  refine ⟨fun h => ?_, fun h1 h2 => ?_, fun h1 h2 h3 => ?_⟩
  · unfold RaftLog.slice RaftLog.mustCheckOutOfBounds; rw [if_pos h]
  · unfold RaftLog.slice RaftLog.mustCheckOutOfBounds; rw [if_neg (by omega)]; simp only []; rw [if_pos h2]
  · unfold RaftLog.slice RaftLog.mustCheckOutOfBounds
    rw [if_neg (by omega)]; simp only []; rw [if_neg (by omega), if_pos h3]

example : exLog.slice 4 7 noLimit = .ok [⟨4, 2, 41, 3⟩, ⟨5, 2, 51, 0⟩, ⟨6, 3, 61, 5⟩] ∧
    exLog.slice 4 7 30 = .ok [⟨4, 2, 41, 3⟩, ⟨5, 2, 51, 0⟩] ∧ exLog.slice 4 7 0 = .ok [⟨4, 2, 41, 3⟩] ∧
    exLog.slice 2 4 0 = .err .compacted ∧ exLog.slice 4 8 0 = .panic .sliceOob := by decide

/-- **nextEnts_contiguous.** On a well-formed log `nextEnts()` never panics and returns exactly the entries
    off, off+1, …, off+n-1 with off = max(applied+1, firstIndex) (so all above firstIndex-1 and above
    applied), in order, nothing beyond `committed`; n ≥ 1 iff `hasNextEnts`, and n reaches `committed`
    when the entries fit `maxNextEntsSize` -/
theorem C02_nextEnts_contiguous {l : RaftLog} (w : WfLog l) :
    ∃ n, l.nextEnts = .ok ((range l (max (l.applied + 1) l.firstIndex) (l.committed + 1)).take n) ∧
      Contig (max (l.applied + 1) l.firstIndex) ((range l (max (l.applied + 1) l.firstIndex) (l.committed + 1)).take n) ∧
      ((range l (max (l.applied + 1) l.firstIndex) (l.committed + 1)).take n).length = n ∧
      max (l.applied + 1) l.firstIndex + n ≤ l.committed + 1 ∧
      (l.hasNextEnts = true ↔ 1 ≤ n) ∧
      (((range l (max (l.applied + 1) l.firstIndex) (l.committed + 1)).map Entry.size).sum ≤ l.maxNextEntsSize →
        max (l.applied + 1) l.firstIndex + n = l.committed + 1) := by
  obtain ⟨n, e1, e2, e3, e4⟩ := nextEnts_ok w
  have hcl := w.committedLe
  have hfl := w.firstLe
  have hal := w.appliedLe
  have hrl := range_length w (a := max (l.applied + 1) l.firstIndex) (b := l.committed + 1)
    (Nat.le_max_right _ _) (by omega)
  refine ⟨n, e1, (range_contig w _ _ (Nat.le_max_right _ _)).take n, ?_, ?_, ⟨e3, fun h => ?_⟩, ?_⟩
  · rw [List.length_take, hrl]; omega
  · by_cases h : l.committed + 1 > max (l.applied + 1) l.firstIndex
    · omega
    · omega
  · unfold RaftLog.hasNextEnts; simp only [decide_eq_true_eq]; omega
  · intro h
    have := e4 h
    by_cases hh : l.committed + 1 > max (l.applied + 1) l.firstIndex
    · omega
    · have : n = 0 := by omega
      omega

example : exLog.nextEnts = .ok [⟨4, 2, 41, 3⟩] ∧ exLog.hasNextEnts = true ∧
    ({ exLog with committed := 6, maxNextEntsSize := 30 } : RaftLog).nextEnts = .ok [⟨4, 2, 41, 3⟩, ⟨5, 2, 51, 0⟩] ∧
    ({ exLog with applied := 4 } : RaftLog).nextEnts = .ok [] := by decide

/-! ### isUpToDate -/

/-- `isUpToDate(lasti, term)` is the REGENERATED decision expression of raft/log.go on the log's
    (lastTerm, lastIndex) — the expression the abstract `grant` precondition stands for
    (`C02_uptodate_is_code`) -/
theorem C02_isUpToDate_is_code {l : RaftLog} (w : WfLog l) (lasti term : Nat) :
    l.lastTerm = .ok (termW l l.lastIndex) ∧
    l.isUpToDate lasti term = .ok (Gen.isUpToDate lasti term (termW l l.lastIndex) l.lastIndex) := by
  refine ⟨lastTerm_eq w, ?_⟩
  unfold RaftLog.isUpToDate
  rw [lastTerm_eq w]
  simp only []
  congr 1
  unfold Gen.isUpToDate
  rw [Bool.eq_iff_iff]
  simp only [Bool.or_eq_true, Bool.and_eq_true, decide_eq_true_eq, beq_iff_eq, Int.natCast_inj, gt_iff_lt, ge_iff_le,
    Int.ofNat_lt, Int.ofNat_le]

example : exLog.isUpToDate 6 3 = .ok true ∧ exLog.isUpToDate 5 3 = .ok false ∧ exLog.isUpToDate 1 4 = .ok true ∧
    exLog.isUpToDate 99 2 = .ok false := by decide

/-! ### MemoryStorage (C03: storage specs) -/

/-- **storage_append_spec**: the compacted prefix of the batch is dropped, the storage is cut at the
    batch's first remaining index and the batch written there (a later tail is deleted); a batch entirely
    below firstIndex changes nothing; a batch that would leave a gap panics -/
theorem C02_storage_append_spec (s : Storage) (hs : Contig s.dummy.index s.all) (e0 : Entry) (es : List Entry)
    (hc : Contig e0.index (e0 :: es)) :
    (e0.index + es.length < s.firstIndex → s.append (e0 :: es) = .ok s) ∧
    (s.lastIndex + 1 < e0.index → s.append (e0 :: es) = .panic .stMissing) ∧
    (s.firstIndex ≤ e0.index + es.length → e0.index ≤ s.lastIndex + 1 →
      ∃ s', s.append (e0 :: es) = .ok s' ∧ s'.snapIndex = s.snapIndex ∧ s'.snapTerm = s.snapTerm ∧
        s'.dummy = s.dummy ∧
        s'.all = s.all.take (max e0.index s.firstIndex - s.dummy.index) ++ (e0 :: es).drop (s.firstIndex - e0.index) ∧
        Contig s'.dummy.index s'.all ∧ s'.lastIndex = e0.index + es.length) :=
  s.append_spec hs e0 es hc

example : exLog.storage.append [⟨2, 9, 0, 0⟩, ⟨3, 9, 0, 0⟩, ⟨4, 9, 0, 0⟩] =
    .ok { exLog.storage with rest := [⟨3, 9, 0, 0⟩, ⟨4, 9, 0, 0⟩] } ∧
    exLog.storage.append [⟨4, 9, 0, 0⟩] = .ok { exLog.storage with rest := [⟨3, 1, 31, 0⟩, ⟨4, 9, 0, 0⟩] } ∧
    exLog.storage.append [⟨1, 9, 0, 0⟩] = .ok exLog.storage ∧
    exLog.storage.append [⟨6, 9, 0, 0⟩] = .panic .stMissing := by decide

theorem C02_storage_compact_spec (s : Storage) (hs : Contig s.dummy.index s.all) (ci : Nat) :
    (ci ≤ s.dummy.index → s.compact ci = .err .compacted) ∧
    (s.lastIndex < ci → s.compact ci = .panic .stCompactOob) ∧
    (s.dummy.index < ci → ci ≤ s.lastIndex →
      ∃ e, s.all[ci - s.dummy.index]? = some e ∧
        s.compact ci = .ok { s with dummy := ⟨ci, e.term, 0, 0⟩, rest := s.all.drop (ci - s.dummy.index + 1) } ∧
        Contig ci (⟨ci, e.term, 0, 0⟩ :: s.all.drop (ci - s.dummy.index + 1))) :=
  s.compact_spec hs ci

theorem C02_storage_snapshot_spec (s : Storage) (i t : Nat) :
    ((i ≤ s.snapIndex → s.createSnapshot i = .err .snapOutOfDate) ∧
     (s.snapIndex < i → s.lastIndex < i → s.createSnapshot i = .panic .stSnapOob) ∧
     (s.snapIndex < i → i ≤ s.lastIndex → i < s.dummy.index → s.createSnapshot i = .panic .rtIndex) ∧
     (s.snapIndex < i → i ≤ s.lastIndex → s.dummy.index ≤ i →
       ∃ e, s.all[i - s.dummy.index]? = some e ∧
         s.createSnapshot i = .ok ({ s with snapIndex := i, snapTerm := e.term }, i, e.term))) ∧
    ((i ≤ s.snapIndex → s.applySnapshot i t = .err .snapOutOfDate) ∧
     (s.snapIndex < i → s.applySnapshot i t = .ok ⟨i, t, ⟨i, t, 0, 0⟩, []⟩)) :=
  ⟨s.createSnapshot_spec i, s.applySnapshot_spec i t⟩

example : exLog.storage.compact 3 = .ok { exLog.storage with dummy := ⟨3, 1, 0, 0⟩, rest := [⟨4, 2, 41, 3⟩] } ∧
    exLog.storage.compact 2 = .err .compacted ∧ exLog.storage.compact 5 = .panic .stCompactOob ∧
    exLog.storage.createSnapshot 4 = .ok ({ exLog.storage with snapIndex := 4, snapTerm := 2 }, 4, 2) ∧
    exLog.storage.createSnapshot 2 = .err .snapOutOfDate := by decide

/-! ### every non-panicking operation, called within its contract, preserves `WfLog` -/

/-- the operations of the log layer and of the application on its storage -/
inductive Op where
  | append (ents : List Entry)
  | maybeAppend (index logTerm committed : Nat) (ents : List Entry)
  | commitTo (c : Nat)
  | maybeCommit (i t : Nat)
  | appliedTo (i : Nat)
  | restore (i t : Nat)
  | stableTo (i t : Nat)
  | stableSnapTo (i : Nat)
  | persist (n : Nat)          -- storage.Append(the first n unstable entries)
  | compact (ci : Nat)         -- storage.Compact(ci)
  | applySnap                  -- storage.ApplySnapshot(the pending unstable snapshot)
  | createSnap (i : Nat)       -- storage.CreateSnapshot(i)

def withStorage (l : RaftLog) (r : Res Storage) : Res RaftLog :=
  match r with
  | .ok s => .ok { l with storage := s }
  | .err e => .err e
  | .panic p => .panic p

/-- run one operation on the executable model -/
def exec (l : RaftLog) : Op → Res RaftLog
  | .append ents => match l.append ents with | .ok (l', _) => .ok l' | .err e => .err e | .panic p => .panic p
  | .maybeAppend i t c ents =>
      match l.maybeAppend i t c ents with | .ok (l', _) => .ok l' | .err e => .err e | .panic p => .panic p
  | .commitTo c => l.commitTo c
  | .maybeCommit i t => match l.maybeCommit i t with | .ok (l', _) => .ok l' | .err e => .err e | .panic p => .panic p
  | .appliedTo i => l.appliedTo i
  | .restore i t => .ok (l.restore i t)
  | .stableTo i t => l.stableTo i t
  | .stableSnapTo i => .ok (l.stableSnapTo i)
  | .persist n => withStorage l (l.storage.append (l.unstable.entries.take n))
  | .compact ci => withStorage l (l.storage.compact ci)
  | .applySnap => match l.unstable.snapshot with
      | some (si, st) => withStorage l (l.storage.applySnapshot si st)
      | none => .ok l
  | .createSnap i => match l.storage.createSnapshot i with
      | .ok (s, _, _) => .ok { l with storage := s } | .err e => .err e | .panic p => .panic p

/-- the contract of each operation (what raft and the application guarantee when they call it) -/
def Legal (l : RaftLog) : Op → Prop
  | .append ents => ∃ a, Contig a ents ∧ 1 ≤ a
  | .maybeAppend index _ _ ents => l.firstIndex ≤ index + 1 ∧ index ≤ l.lastIndex ∧ Contig (index + 1) ents ∧
      ∀ e ∈ ents, e.term ≠ 0
  | .commitTo _ => True
  | .maybeCommit _ _ => True
  | .appliedTo _ => True
  | .restore i _ => l.committed < i                       -- raft.restore's guard
  | .stableTo i _ => l.unstable.offset ≤ i → i ≤ l.lastIndex →
      Persisted l i ∧ (l.unstable.snapshot = none ∨ i < l.lastIndex)
  | .stableSnapTo i => ∀ si st, l.unstable.snapshot = some (si, st) → si = i →
      l.storage.dummy.index = si ∧ l.storage.dummy.term = st ∧ l.unstable.offset ≤ l.storage.lastIndex + 1 ∧
      (l.unstable.entries = [] → l.unstable.offset = l.storage.lastIndex + 1)
  | .persist _ => l.storage.dummy.index < l.unstable.offset ∧ l.unstable.offset ≤ l.storage.lastIndex + 1
  | .compact ci => ci ≤ l.applied ∧ ci < l.unstable.offset ∧ ∀ si st, l.unstable.snapshot = some (si, st) → ci ≤ si
  | .applySnap => ∀ si st, l.unstable.snapshot = some (si, st) → l.unstable.offset = si + 1
  | .createSnap _ => True

/-- **WfLog is preserved by every non-panicking operation** (errors and panics leave the state alone) -/
theorem C02_wf_preserved {l l' : RaftLog} (w : WfLog l) (op : Op) (hl : Legal l op) (h : exec l op = .ok l') :
    WfLog l' := by
  cases op with
  | append ents =>
    obtain ⟨a, hc, ha⟩ := hl
    cases ents with
    | nil => simp [exec, RaftLog.append] at h; subst h; exact w
    | cons e0 es =>
      have hidx : e0.index = a := hc.head
      obtain ⟨p1, p2, p3⟩ := C02_append_spec w e0 es (by rw [hidx]; exact hc)
      simp only [exec] at h
      by_cases h1 : e0.index ≤ l.committed
      · rw [p1 (by omega) h1] at h; cases h
      · by_cases h2 : l.lastIndex + 1 < e0.index
        · rw [p2 h2] at h; cases h
        · obtain ⟨l'', a1, _, _, _, _, _, _, _, a10⟩ := p3 (by omega) (by omega)
          rw [a1] at h; injection h with h; subst h; exact a10
  | maybeAppend index logTerm cm ents =>
    obtain ⟨h1, h2, hc, ht⟩ := hl
    simp only [exec] at h
    by_cases hm : termW l index = logTerm
    · obtain ⟨p1, p2⟩ := C02_maybeAppend_spec w index logTerm cm ents hm h1 h2 hc ht
      by_cases hp : matched l (index + 1) ents < ents.length ∧ index + 1 + matched l (index + 1) ents ≤ l.committed
      · rw [p1 hp] at h; cases h
      · obtain ⟨l'', a1, _, _, _, _, _, _, _, _, a10⟩ := p2 hp
        rw [a1] at h; injection h with h; subst h; exact a10
    · rw [C02_maybeAppend_reject w index logTerm cm ents hm] at h
      injection h with h; subst h; exact w
  | commitTo c =>
    simp only [exec] at h
    obtain ⟨c1, c2, c3⟩ := commitTo_cases l c
    by_cases h1 : c ≤ l.committed
    · rw [c1 h1] at h; injection h with h; subst h; exact w
    · by_cases h2 : c ≤ l.lastIndex
      · rw [c2 (by omega) h2] at h; injection h with h; subst h; exact w.setCommitted c (by omega) h2
      · rw [c3 (by omega) (by omega)] at h; cases h
  | maybeCommit i t =>
    simp only [exec] at h
    cases hr : l.maybeCommit i t with
    | ok p => obtain ⟨l'', b⟩ := p; rw [hr] at h; injection h with h; subst h
              exact (C02_commit_monotone_maybeCommit w i t hr).2.1
    | err e => rw [hr] at h; cases h
    | panic p => rw [hr] at h; cases h
  | appliedTo i =>
    simp only [exec] at h
    obtain ⟨c1, c2, c3⟩ := appliedTo_cases l i
    by_cases h0 : i = 0
    · rw [c1 h0] at h; injection h with h; subst h; exact w
    · by_cases hr : l.committed < i ∨ i < l.applied
      · rw [c2 h0 hr] at h; cases h
      · rw [c3 h0 (by omega) (by omega)] at h; injection h with h; subst h; exact w.setApplied i (by omega)
  | restore i t =>
    simp only [exec] at h; injection h with h; subst h
    have := w.appliedLe
    exact (restore_wf w i t (by have : l.committed < i := hl; omega)).1
  | stableTo i t =>
    simp only [exec] at h
    obtain ⟨c1, c2⟩ := stableTo_cases w i t
    by_cases hc : l.unstable.offset ≤ i ∧ ∃ e, l.unstable.entries[i - l.unstable.offset]? = some e ∧ e.term = t
    · obtain ⟨h1, e, he, het⟩ := hc
      rw [c1 e h1 he het] at h; injection h with h; subst h
      have hls := w.last_succ
      have hlt : i - l.unstable.offset < l.unstable.entries.length := by
        rcases List.getElem?_eq_some_iff.mp he with ⟨h', _⟩; exact h'
      obtain ⟨hp, hs⟩ := hl h1 (by omega)
      exact (stableTo_wf w i h1 (by omega) hp hs).1
    · have : l.stableTo i t = .ok l := by
        apply c2
        by_cases h1 : i < l.unstable.offset
        · exact Or.inl h1
        · cases he : l.unstable.entries[i - l.unstable.offset]? with
          | none => exact Or.inr (Or.inl rfl)
          | some e => exact Or.inr (Or.inr ⟨e, rfl, fun het => hc ⟨by omega, e, he, het⟩⟩)
      rw [this] at h; injection h with h; subst h; exact w
  | stableSnapTo i =>
    simp only [exec] at h; injection h with h; subst h
    obtain ⟨c1, c2⟩ := stableSnapTo_cases l i
    cases hs : l.unstable.snapshot with
    | none => rw [c2 (Or.inl hs)]; exact w
    | some p =>
      obtain ⟨si, st⟩ := p
      by_cases he : si = i
      · rw [c1 si st hs he]
        obtain ⟨q1, q2, q3, q4⟩ := hl si st hs he
        exact (stableSnapTo_wf w hs q1 q2 q3 q4).1
      · rw [c2 (Or.inr ⟨si, st, hs, he⟩)]; exact w
  | persist n =>
    simp only [exec] at h
    by_cases hn : n = 0 ∨ l.unstable.entries = []
    · have : l.unstable.entries.take n = [] := by
        rcases hn with hn | hn
        · rw [hn]; rfl
        · rw [hn]; simp
      rw [this] at h
      simp [Storage.append, withStorage] at h; subst h; exact w
    · have hn1 : 1 ≤ n := by omega
      have hne : l.unstable.entries ≠ [] := fun hh => hn (Or.inr hh)
      have hlen : 1 ≤ l.unstable.entries.length := by
        cases he : l.unstable.entries with
        | nil => exact absurd he hne
        | cons a b => simp
      -- persisting n entries or all of them if there are fewer
      have htake : l.unstable.entries.take n = l.unstable.entries.take (min n l.unstable.entries.length) := by
        rw [List.take_eq_take_min]
      obtain ⟨s', a1, a2, _⟩ := persist_wf w (min n l.unstable.entries.length) (by omega) (Nat.min_le_right _ _) hl
      rw [htake, a1] at h
      simp only [withStorage] at h; injection h with h; subst h; exact a2
  | compact ci =>
    simp only [exec] at h
    obtain ⟨q1, q2, q3⟩ := hl
    obtain ⟨c1, c2, _⟩ := l.storage.compact_spec w.stContig ci
    by_cases h1 : ci ≤ l.storage.dummy.index
    · rw [c1 h1] at h; simp [withStorage] at h
    · by_cases h2 : l.storage.lastIndex < ci
      · rw [c2 h2] at h; simp [withStorage] at h
      · obtain ⟨s', a1, a2, _⟩ := compact_wf w ci (by omega) q1 q2 (by omega) q3
        rw [a1] at h; simp only [withStorage] at h; injection h with h; subst h; exact a2
  | applySnap =>
    simp only [exec] at h
    cases hs : l.unstable.snapshot with
    | none => rw [hs] at h; injection h with h; subst h; exact w
    | some p =>
      obtain ⟨si, st⟩ := p
      rw [hs] at h
      simp only [] at h
      obtain ⟨c1, _⟩ := l.storage.applySnapshot_spec si st
      by_cases hold : si ≤ l.storage.snapIndex
      · rw [c1 hold] at h; simp [withStorage] at h
      · obtain ⟨a1, a2, _⟩ := applySnapshot_wf w hs (hl si st hs) (by omega)
        rw [a1] at h; simp only [withStorage] at h; injection h with h; subst h; exact a2
  | createSnap i =>
    simp only [exec] at h
    cases hr : l.storage.createSnapshot i with
    | err e => rw [hr] at h; cases h
    | panic p => rw [hr] at h; cases h
    | ok r =>
      obtain ⟨s, x, y⟩ := r
      rw [hr] at h; injection h with h; subst h
      -- only the snapshot meta of the storage changed
      have hs : s.dummy = l.storage.dummy ∧ s.rest = l.storage.rest := by
        unfold Storage.createSnapshot at hr
        split at hr
        · cases hr
        · simp only [] at hr
          split at hr
          · cases hr
          · split at hr
            · cases hr
            · split at hr
              · injection hr with hr; have := (Prod.mk.inj hr).1; subst this; exact ⟨rfl, rfl⟩
              · cases hr
      obtain ⟨hd, hr'⟩ := hs
      have hall : s.all = l.storage.all := by simp [Storage.all, hd, hr']
      have hli : s.lastIndex = l.storage.lastIndex := by simp [Storage.lastIndex, hall, hd]
      have hfi : s.firstIndex = l.storage.firstIndex := by simp [Storage.firstIndex, hd]
      have hfi' : RaftLog.firstIndex { l with storage := s } = l.firstIndex :=
        firstIndex_congr' (l := l) (l' := { l with storage := s }) hd rfl
      have hli' : RaftLog.lastIndex { l with storage := s } = l.lastIndex := by
        simp only [RaftLog.lastIndex, hli]
      refine ⟨by show Contig s.dummy.index s.all; rw [hd, hall]; exact w.stContig, w.unContig, ?_, w.appliedLe,
        by rw [hli']; exact w.committedLe, by rw [hfi']; exact w.firstLe⟩
      have c := w.cover
      show match l.unstable.snapshot with | none => _ | some (si, _) => _
      cases hsn : l.unstable.snapshot with
      | none =>
        rw [hsn] at c
        show s.firstIndex ≤ _ ∧ _ ≤ s.lastIndex + 1 ∧ (_ → _ = s.lastIndex + 1)
        rw [hfi, hli]; exact c
      | some p =>
        obtain ⟨si, st⟩ := p
        rw [hsn] at c
        show _ ∧ (_ → s.dummy.index ≤ si ∧ _ ≤ s.lastIndex + 1) ∧ _
        rw [hd, hli]; exact c

/-- states reachable from `newLog` over a consistent storage by contract-respecting operations -/
inductive Reach : RaftLog → Prop
  | init (s : Storage) (m : Nat) (h : Contig s.dummy.index s.all) (h0 : s.dummy.index = 0 → s.dummy.term = 0) :
      Reach (RaftLog.newLog s m)
  | step {l l' : RaftLog} (r : Reach l) (op : Op) (hl : Legal l op) (h : exec l op = .ok l') : Reach l'

/-- every reachable log is well-formed — in particular `applied ≤ committed ≤ lastIndex` and
    `firstIndex - 1 ≤ committed` always, `term` never fails and `nextEnts` never panics on it -/
theorem C02_wf_reachable {l : RaftLog} (r : Reach l) : WfLog l := by
  induction r with
  | init s m h _ => exact (newLog_wf s m h).1
  | step _ op hl h ih => exact C02_wf_preserved ih op hl h

/-- non-vacuity: a follower's life — append, commit, persist + stableTo, apply, compact, an incoming
    snapshot, its application and stabilisation — is a reachable run ending in a non-trivial state -/
example : ∃ l, Reach l ∧ l.firstIndex = 10 ∧ l.applied = 2 ∧ l.committed = 9 ∧ l.unstable.snapshot = none ∧
    l.storage.dummy = ⟨9, 2, 0, 0⟩ := by
  have r0 := Reach.init Storage.new noLimit ((contigB_iff _ _).mp (by decide)) (fun _ => rfl)
  have r1 := r0.step (.maybeAppend 0 0 2 [⟨1, 1, 11, 0⟩, ⟨2, 1, 21, 0⟩, ⟨3, 1, 31, 0⟩])
    ⟨by decide, by decide, (contigB_iff _ _).mp (by decide), by decide⟩ rfl
  have r2 := r1.step (.persist 3) ⟨by decide, by decide⟩ rfl
  have r3 := r2.step (.stableTo 3 1) (fun _ _ => ⟨⟨by decide, by decide, by
      intro j h1 h2
      have : j = 1 ∨ j = 2 ∨ j = 3 := by
        have h1' : 1 ≤ j := h1
        omega
      rcases this with h | h | h <;> subst h <;> decide, by intro si st h; cases h⟩, Or.inl rfl⟩) rfl
  have r4 := r3.step (.appliedTo 2) trivial rfl
  have r5 := r4.step (.compact 2) ⟨by decide, by decide, by intro si st h; cases h⟩ rfl
  have r6 := r5.step (.restore 9 2) (by show _ < 9; decide) rfl
  have r7 := r6.step .applySnap (by intro si st h; cases h; rfl) rfl
  have r8 := r7.step (.stableSnapTo 9) (by
    intro si st h _; cases h; exact ⟨rfl, rfl, by decide, fun _ => by decide⟩) rfl
  exact ⟨_, r8, by decide, by decide, by decide, by decide, by decide⟩

/-! ### every operation refines a step on the represented whole log -/

/-- the image of one operation on the whole log `L` the concrete log represents: `append` cuts `L`
    before the batch and continues with it, an accepted `maybeAppend` is the abstract
    `Z.LogMatch.maybeAppend`, `restore(i, t)` jumps to some whole log of length i ending in term t (which
    one is decided by the global state: the leader's log — `Z.RaftAbs.restore`), and nothing else changes
    the represented log (commit/applied pointers, stabilisation, persistence, compaction, snapshots) -/
def absStep (L : Log) : Op → Log → Prop
  | .append ents, L' => (ents = [] ∧ L' = L) ∨ ∃ e0 es, ents = e0 :: es ∧ L' = L.take (e0.index - 1) ++ ents.map absE
  | .maybeAppend index logTerm _ ents, L' =>
      (termAt L index ≠ logTerm ∧ L' = L) ∨
      (termAt L index = logTerm ∧ L' = Z.LogMatch.maybeAppend L index (ents.map absE))
  | .restore i t, L' => L'.length = i ∧ termAt L' i = t
  | _, L' => L' = L

/-- **refinement, operation by operation**: if the concrete log represents the whole log `L`
    (`Abs l L`: `L` above the snapshot index is `fullLog l`, with terms) then after any non-panicking
    operation called within its contract it represents the `absStep` image of `L` -/
theorem C02_op_refines {l l' : RaftLog} {L : Log} (w : WfLog l) (a : Abs l L) (op : Op) (hl : Legal l op)
    (h : exec l op = .ok l') : ∃ L', Abs l' L' ∧ absStep L op L' := by
  cases op with
  | append ents =>
    obtain ⟨a0, hc, ha⟩ := hl
    cases ents with
    | nil =>
      simp [exec, RaftLog.append] at h; subst h
      exact ⟨L, a, Or.inl ⟨rfl, rfl⟩⟩
    | cons e0 es =>
      have hidx : e0.index = a0 := hc.head
      simp only [exec] at h
      by_cases h1 : e0.index ≤ l.committed
      · rw [append_panic_after l e0 es (by omega) h1] at h; cases h
      · by_cases h2 : l.lastIndex + 1 < e0.index
        · rw [append_panic_oob w e0 es h2] at h; cases h
        · obtain ⟨l'', a1, a2, _, _, _, a6, _, _, a9, _⟩ :=
            append_ok w e0 es (by rw [hidx]; exact hc) (by omega) (by omega)
          rw [a1] at h; injection h with h; subst h
          exact ⟨_, a.append w e0 es (by omega) (by omega) a2 a6 a9, Or.inr ⟨e0, es, rfl, rfl⟩⟩
  | maybeAppend index logTerm cm ents =>
    obtain ⟨h1, h2, hc, ht⟩ := hl
    simp only [exec] at h
    have hta := a.termAt_eq w h1 h2
    by_cases hm : termW l index = logTerm
    · cases hr : l.maybeAppend index logTerm cm ents with
      | err e => rw [hr] at h; cases h
      | panic p => rw [hr] at h; cases h
      | ok p =>
        obtain ⟨l'', o⟩ := p
        rw [hr] at h; injection h with h; subst h
        cases o with
        | none =>
          obtain ⟨p1, p2⟩ := C02_maybeAppend_spec w index logTerm cm ents hm h1 h2 hc ht
          by_cases hp : matched l (index + 1) ents < ents.length ∧ index + 1 + matched l (index + 1) ents ≤ l.committed
          · rw [p1 hp] at hr; cases hr
          · obtain ⟨l3, a1, _⟩ := p2 hp
            rw [a1] at hr; injection hr with hr; have := (Prod.mk.inj hr).2; cases this
        | some li =>
          exact ⟨_, (C02_maybeAppend_refines w a index logTerm cm ents li hm h1 h2 hc ht hr).1,
            Or.inr ⟨by rw [hta]; exact hm, rfl⟩⟩
    · rw [C02_maybeAppend_reject w index logTerm cm ents hm] at h
      injection h with h; subst h
      exact ⟨L, a, Or.inl ⟨by rw [hta]; exact hm, rfl⟩⟩
  | commitTo c =>
    simp only [exec] at h
    obtain ⟨c1, c2, c3⟩ := commitTo_cases l c
    by_cases h1 : c ≤ l.committed
    · rw [c1 h1] at h; injection h with h; subst h; exact ⟨L, a, rfl⟩
    · by_cases h2 : c ≤ l.lastIndex
      · rw [c2 (by omega) h2] at h; injection h with h; subst h
        exact ⟨L, a.congr rfl rfl rfl, rfl⟩
      · rw [c3 (by omega) (by omega)] at h; cases h
  | maybeCommit i t =>
    simp only [exec] at h
    cases hr : l.maybeCommit i t with
    | err e => rw [hr] at h; cases h
    | panic p => rw [hr] at h; cases h
    | ok p =>
      obtain ⟨l'', b⟩ := p
      rw [hr] at h; injection h with h; subst h
      obtain ⟨c1, c2, c3⟩ := maybeCommit_cases w i t
      by_cases hc : i > l.committed ∧ termW l i = t
      · by_cases hli : i ≤ l.lastIndex
        · rw [c2 hc.1 hc.2 hli] at hr; injection hr with hr; have := (Prod.mk.inj hr).1; subst this
          exact ⟨L, a.congr rfl rfl rfl, rfl⟩
        · rw [c3 hc.1 hc.2 (by omega)] at hr; cases hr
      · rw [c1 hc] at hr; injection hr with hr; have := (Prod.mk.inj hr).1; subst this
        exact ⟨L, a, rfl⟩
  | appliedTo i =>
    simp only [exec] at h
    obtain ⟨c1, c2, c3⟩ := appliedTo_cases l i
    by_cases h0 : i = 0
    · rw [c1 h0] at h; injection h with h; subst h; exact ⟨L, a, rfl⟩
    · by_cases hr : l.committed < i ∨ i < l.applied
      · rw [c2 h0 hr] at h; cases h
      · rw [c3 h0 (by omega) (by omega)] at h; injection h with h; subst h
        exact ⟨L, a.congr rfl rfl rfl, rfl⟩
  | restore i t =>
    simp only [exec] at h; injection h with h; subst h
    have hal := w.appliedLe
    have hci : l.committed < i := hl
    refine ⟨List.replicate i ⟨t, 0⟩, Abs.restore w i t (by omega) _ (by simp) ?_, by simp, ?_⟩
    all_goals
      unfold termAt
      rw [if_neg (by omega)]
      have : (List.replicate i (⟨t, 0⟩ : Z.LogMatch.Entry))[i - 1]? = some ⟨t, 0⟩ := by
        rw [List.getElem?_replicate]; rw [if_pos (by omega)]
      rw [this]
  | stableTo i t =>
    simp only [exec] at h
    obtain ⟨c1, c2⟩ := stableTo_cases w i t
    by_cases hc : l.unstable.offset ≤ i ∧ ∃ e, l.unstable.entries[i - l.unstable.offset]? = some e ∧ e.term = t
    · obtain ⟨h1, e, he, het⟩ := hc
      rw [c1 e h1 he het] at h; injection h with h; subst h
      have hls := w.last_succ
      have hlt : i - l.unstable.offset < l.unstable.entries.length := by
        rcases List.getElem?_eq_some_iff.mp he with ⟨h', _⟩; exact h'
      obtain ⟨hp, hs⟩ := hl h1 (by omega)
      obtain ⟨_, q2, q3, _⟩ := stableTo_wf w i h1 (by omega) hp hs
      exact ⟨L, a.congr q2 q3 (dummyTerm_congr rfl rfl), rfl⟩
    · have : l.stableTo i t = .ok l := by
        apply c2
        by_cases h1 : i < l.unstable.offset
        · exact Or.inl h1
        · cases he : l.unstable.entries[i - l.unstable.offset]? with
          | none => exact Or.inr (Or.inl rfl)
          | some e => exact Or.inr (Or.inr ⟨e, rfl, fun het => hc ⟨by omega, e, he, het⟩⟩)
      rw [this] at h; injection h with h; subst h; exact ⟨L, a, rfl⟩
  | stableSnapTo i =>
    simp only [exec] at h; injection h with h; subst h
    obtain ⟨c1, c2⟩ := stableSnapTo_cases l i
    cases hs : l.unstable.snapshot with
    | none => rw [c2 (Or.inl hs)]; exact ⟨L, a, rfl⟩
    | some p =>
      obtain ⟨si, st⟩ := p
      by_cases he : si = i
      · rw [c1 si st hs he]
        obtain ⟨q1, q2, q3, q4⟩ := hl si st hs he
        obtain ⟨_, r2, r3, _, r5⟩ := stableSnapTo_wf w hs q1 q2 q3 q4
        exact ⟨L, a.congr r2 r3 r5, rfl⟩
      · rw [c2 (Or.inr ⟨si, st, hs, he⟩)]; exact ⟨L, a, rfl⟩
  | persist n =>
    simp only [exec] at h
    by_cases hn : n = 0 ∨ l.unstable.entries = []
    · have : l.unstable.entries.take n = [] := by
        rcases hn with hn | hn
        · rw [hn]; rfl
        · rw [hn]; simp
      rw [this] at h
      simp [Storage.append, withStorage] at h; subst h; exact ⟨L, a, rfl⟩
    · have hne : l.unstable.entries ≠ [] := fun hh => hn (Or.inr hh)
      have hlen : 1 ≤ l.unstable.entries.length := by
        cases he : l.unstable.entries with
        | nil => exact absurd he hne
        | cons a b => simp
      have htake : l.unstable.entries.take n = l.unstable.entries.take (min n l.unstable.entries.length) := by
        rw [List.take_eq_take_min]
      obtain ⟨s', a1, _, a3, a4, _, a6, _⟩ :=
        persist_wf w (min n l.unstable.entries.length) (by omega) (Nat.min_le_right _ _) hl
      rw [htake, a1] at h
      simp only [withStorage] at h; injection h with h; subst h
      exact ⟨L, a.congr a3 a4 (dummyTerm_congr' (l := l) (l' := { l with storage := s' }) a6 rfl), rfl⟩
  | compact ci =>
    simp only [exec] at h
    obtain ⟨q1, q2, q3⟩ := hl
    obtain ⟨c1, c2, _⟩ := l.storage.compact_spec w.stContig ci
    by_cases h1 : ci ≤ l.storage.dummy.index
    · rw [c1 h1] at h; simp [withStorage] at h
    · by_cases h2 : l.storage.lastIndex < ci
      · rw [c2 h2] at h; simp [withStorage] at h
      · obtain ⟨s', a1, _, _, a4, a5, a6⟩ := compact_wf w ci (by omega) q1 q2 (by omega) q3
        rw [a1] at h; simp only [withStorage] at h; injection h with h; subst h
        have hls := w.last_succ
        exact ⟨L, a.compact w (max l.firstIndex (ci + 1)) (Nat.le_max_left _ _)
          (by have := w.first_le_last_succ; omega) a4 a5 a6, rfl⟩
  | applySnap =>
    simp only [exec] at h
    cases hs : l.unstable.snapshot with
    | none => rw [hs] at h; injection h with h; subst h; exact ⟨L, a, rfl⟩
    | some p =>
      obtain ⟨si, st⟩ := p
      rw [hs] at h
      simp only [] at h
      obtain ⟨c1, _⟩ := l.storage.applySnapshot_spec si st
      by_cases hold : si ≤ l.storage.snapIndex
      · rw [c1 hold] at h; simp [withStorage] at h
      · obtain ⟨a1, _, a3, a4, _⟩ := applySnapshot_wf w hs (hl si st hs) (by omega)
        rw [a1] at h; simp only [withStorage] at h; injection h with h; subst h
        refine ⟨L, a.congr a3 a4 ?_, rfl⟩
        unfold dummyTerm
        show (match l.unstable.snapshot with | some (_, t) => t | none => _) =
          (match l.unstable.snapshot with | some (_, t) => t | none => _)
        rw [hs]
  | createSnap i =>
    simp only [exec] at h
    cases hr : l.storage.createSnapshot i with
    | err e => rw [hr] at h; cases h
    | panic p => rw [hr] at h; cases h
    | ok r =>
      obtain ⟨s, x, y⟩ := r
      rw [hr] at h; injection h with h; subst h
      have hs : s.dummy = l.storage.dummy ∧ s.rest = l.storage.rest := by
        unfold Storage.createSnapshot at hr
        split at hr
        · cases hr
        · simp only [] at hr
          split at hr
          · cases hr
          · split at hr
            · cases hr
            · split at hr
              · injection hr with hr; have := (Prod.mk.inj hr).1; subst this; exact ⟨rfl, rfl⟩
              · cases hr
      obtain ⟨hd, hr'⟩ := hs
      have hall : s.all = l.storage.all := by simp [Storage.all, hd, hr']
      have hfi' : RaftLog.firstIndex { l with storage := s } = l.firstIndex :=
        firstIndex_congr' (l := l) (l' := { l with storage := s }) hd rfl
      refine ⟨L, a.congr ?_ hfi' (dummyTerm_congr' (l := l) (l' := { l with storage := s }) hd rfl), rfl⟩
      unfold fullLog
      rw [hfi']
      show sub s.all (l.firstIndex - s.dummy.index) (l.unstable.offset - s.dummy.index) ++ _ = _
      rw [hall, hd]

/-- along every contract-respecting run the concrete log keeps representing a whole log that evolves by
    `absStep` — the per-node clause "the node's concrete log is the suffix above the snapshot index of the
    abstract whole log" of the simulation relation of DESIGN §7 C02 (i) -/
theorem C02_abs_along_runs {l l' : RaftLog} {L : Log} (w : WfLog l) (a : Abs l L) (op : Op) (hl : Legal l op)
    (h : exec l op = .ok l') : WfLog l' ∧ ∃ L', Abs l' L' ∧ absStep L op L' :=
  ⟨C02_wf_preserved w op hl h, C02_op_refines w a op hl h⟩

example : ∃ L', Abs ((exLog.restore 9 5)) L' ∧ absStep exWhole (.restore 9 5) L' :=
  C02_op_refines exWf exAbs (.restore 9 5) (by show _ < 9; decide) rfl

/-- every reachable log is well-formed AND represents a whole log -/
theorem C02_reachable_represents {l : RaftLog} (r : Reach l) : WfLog l ∧ ∃ L, Abs l L := by
  induction r with
  | init s m h h0 =>
    obtain ⟨n1, n2, _, _, n5, _⟩ := newLog_wf s m h
    refine ⟨n1, List.replicate s.dummy.index ⟨s.dummy.term, 0⟩ ++ s.rest.map absE, ?_, ?_, ?_⟩
    · rw [n5]; simp
    · rw [n5, n2]; simp
    · rw [n5]
      show termAt _ (s.dummy.index + 1 - 1) = dummyTerm _
      have hd : dummyTerm (RaftLog.newLog s m) = s.dummy.term := rfl
      rw [hd]
      unfold termAt
      by_cases hz : s.dummy.index = 0
      · rw [if_pos (by omega)]; exact (h0 hz).symm
      · rw [if_neg (by omega)]
        have : (List.replicate s.dummy.index (⟨s.dummy.term, 0⟩ : Z.LogMatch.Entry) ++ s.rest.map absE)[s.dummy.index + 1 - 1 - 1]? =
            some ⟨s.dummy.term, 0⟩ := by
          rw [List.getElem?_append_left (by simp; omega), List.getElem?_replicate, if_pos (by omega)]
        rw [this]
  | step _ op hl h ih =>
    obtain ⟨w, L, a⟩ := ih
    obtain ⟨L', a', _⟩ := C02_op_refines w a op hl h
    exact ⟨C02_wf_preserved w op hl h, L', a'⟩

/-! ### the image in the abstract raft system -/

/-- the concrete accept path computes exactly the `log` and `commit` updates of the abstract action
    `Z.RaftAbs.Step.recvApp` for the message `m = ⟨term, index, |ents|, ents, leaderCommit⟩` -/
theorem C02_recvApp_image {l l' : RaftLog} {Lq : Log} {cq : Nat} (w : WfLog l) (a : Abs l Lq) (hcq : l.committed = cq)
    (m : Z.RaftAbs.AppMsg) (ents : List Entry) (hents : m.ents = ents.map absE) (hn : m.n = ents.length)
    (logTerm lastnewi : Nat) (hm : termW l m.prev = logTerm) (h1 : l.firstIndex ≤ m.prev + 1)
    (h2 : m.prev ≤ l.lastIndex) (hc : Contig (m.prev + 1) ents) (ht : ∀ e ∈ ents, e.term ≠ 0)
    (hr : l.maybeAppend m.prev logTerm m.commit ents = .ok (l', some lastnewi)) :
    Abs l' (Z.LogMatch.maybeAppend Lq m.prev m.ents) ∧
    l'.committed = max cq (min m.commit (m.prev + m.n)) ∧ lastnewi = m.prev + m.n ∧
    m.prev ≤ Lq.length ∧ termAt Lq m.prev = logTerm := by
  obtain ⟨r1, _, r3, r4⟩ := C02_maybeAppend_refines w a m.prev logTerm m.commit ents lastnewi hm h1 h2 hc ht hr
  obtain ⟨p1, p2⟩ := C02_maybeAppend_spec w m.prev logTerm m.commit ents hm h1 h2 hc ht
  refine ⟨by rw [hents]; exact r1, ?_, by rw [hn]; exact r4, by rw [a.length w]; exact h2, r3⟩
  by_cases hp : matched l (m.prev + 1) ents < ents.length ∧ m.prev + 1 + matched l (m.prev + 1) ents ≤ l.committed
  · rw [p1 hp] at hr; cases hr
  · obtain ⟨l'', a1, _, _, _, _, _, a7, _⟩ := p2 hp
    rw [a1] at hr; injection hr with hr; have := (Prod.mk.inj hr).1; subst this
    rw [a7, hcq, hn]

/-! ### the node driver (newReady / StepNode / Advance of raft/node.go over the log model) -/

/-- **the model's Ready/Advance cycle refines the hand-out abstraction** (`Z.Handout`, whose theorem
    `cycle` is `C02_handout_contiguous`): on a well-formed log whose four-field abstraction
    (applied, committed, firstIndex, pending snapshot) satisfies `Z.Handout.Inv`,
    * `newReady` never panics; its committed entries are exactly the `cntOf` entries starting at
      `offOf` = max(applied+1, firstIndex) of the abstract Ready (for some entry limit ≥ 1 standing for
      `MaxCommittedSizePerReady`), each one the log's entry at its index; its snapshot is the pending one;
    * whatever the application does to the storage in between, as long as it leaves the storage's first
      index where the log's first index is (it applied the Ready's snapshot, it did not compact),
      `Advance` never panics (`appliedTo`'s panic branch is unreachable), the abstraction of the new log is
      the abstract `advance`, the invariant holds again, no snapshot is pending, and `applied` moved
      exactly over what was handed out: nothing ⇒ unchanged; entries ⇒ off..applied' with off = applied+1,
      or off = i+1 right after the snapshot i > applied of the same Ready; a snapshot alone ⇒ applied' = i -/
theorem C02_node_cycle (b : NodeBk) {l : RaftLog} (w : WfLog l) (inv : Z.Handout.Inv (absN l)) (more : Bool) :
    ∃ rd limit, 1 ≤ limit ∧ b.newReady l more = .ok rd ∧ rd.entries = l.unstable.entries ∧
      rd.snapshot = l.unstable.snapshot ∧
      Contig (Z.Handout.offOf (absN l)) rd.committed ∧
      rd.committed.length = Z.Handout.cntOf (absN l) more limit ∧
      (∀ k e, rd.committed[k]? = some e → (fullLog l)[Z.Handout.offOf (absN l) + k - l.firstIndex]? = some e) ∧
      ∀ l2 : RaftLog, l2.unstable = l.unstable → l2.committed = l.committed → l2.applied = l.applied →
        l2.storage.dummy.index + 1 = l.firstIndex →
        ∃ b' l3, b.advance l2 rd = .ok (b', l3) ∧ b'.needAdvance = false ∧ l3.storage = l2.storage ∧
          Z.Handout.advance (absN l) (Z.Handout.newReady (absN l) more limit) = some (absN l3) ∧
          Z.Handout.Inv (absN l3) ∧ l3.unstable.snapshot = none ∧ l.applied ≤ l3.applied ∧
          l3.committed = l.committed ∧ l3.firstIndex = l.firstIndex ∧
          (rd.committed.length = 0 ∧ l.unstable.snapshot = none → l3.applied = l.applied) ∧
          (0 < rd.committed.length → l3.applied = Z.Handout.offOf (absN l) + rd.committed.length - 1 ∧
            (match l.unstable.snapshot with
             | none => Z.Handout.offOf (absN l) = l.applied + 1
             | some (i, _) => Z.Handout.offOf (absN l) = i + 1 ∧ l.applied < i)) ∧
          (rd.committed.length = 0 → ∀ i t, l.unstable.snapshot = some (i, t) → l3.applied = i ∧ l.applied < i) := by
  obtain ⟨rd, limit, h1, h2, h3, h4, h5, h6, _, h8⟩ := newReady_refines b w more
  refine ⟨rd, limit, h1, h2, h3, h4, h5, h6, h8, ?_⟩
  intro l2 hu hcm hap hst
  obtain ⟨s', c1, c2, c3, c4, c5, c6⟩ := Z.Handout.cycle inv more limit
  have hpos : ∀ si st, l.unstable.snapshot = some (si, st) → si ≠ 0 := by
    intro si st hs
    have := inv.firstOk
    have hsn : (absN l).snap = some si := by show l.unstable.snapshot.map (·.1) = _; rw [hs]; rfl
    rw [hsn] at this
    have : (absN l).applied < si := this.2.1
    omega
  obtain ⟨_, r2⟩ := advance_refines b w h4 h5 h6 hu hcm hap hst hpos
  rw [Z.Handout.ready_eq] at c1
  obtain ⟨b', l3, a1, a2, a3, a4, a5⟩ := r2 s' c1
  subst a2
  have hcm3 : l3.committed = l.committed := by
    have := Z.Handout.advance_ok inv more limit
    obtain ⟨s'', q1, _, q3, _⟩ := this
    rw [Z.Handout.ready_eq, c1] at q1; injection q1 with q1; subst q1; exact q3
  have hfi3 : l3.firstIndex = l.firstIndex := by
    have := Z.Handout.advance_ok inv more limit
    obtain ⟨s'', q1, _, _, q4, _⟩ := this
    rw [Z.Handout.ready_eq, c1] at q1; injection q1 with q1; subst q1; exact q4
  refine ⟨b', l3, a1, a3, a4, by rw [Z.Handout.ready_eq]; exact c1, c2, a5, c3, hcm3, hfi3, ?_, ?_, ?_⟩
  · intro ⟨hn, hs⟩
    apply c4
    refine ⟨by rw [← h6]; exact hn, ?_⟩
    show l.unstable.snapshot.map (·.1) = none; rw [hs]; rfl
  · intro hp
    obtain ⟨q1, q2⟩ := c5 (by rw [← h6]; exact hp)
    refine ⟨by rw [h6]; exact q1, ?_⟩
    cases hs : l.unstable.snapshot with
    | none =>
      have hsn : (absN l).snap = none := by show l.unstable.snapshot.map (·.1) = _; rw [hs]; rfl
      rw [hsn] at q2; exact q2
    | some p =>
      obtain ⟨si, st⟩ := p
      have hsn : (absN l).snap = some si := by show l.unstable.snapshot.map (·.1) = _; rw [hs]; rfl
      rw [hsn] at q2; exact q2
  · intro hn i t hs
    have hsn : (absN l).snap = some i := by show l.unstable.snapshot.map (·.1) = _; rw [hs]; rfl
    exact c6 (by rw [← h6]; exact hn) i hsn

/-- a Ready that hands out entry 4 (applied 3 → 4) -/
example : ∃ (b : NodeBk) (rd : Ready), b.newReady exLog true = .ok rd ∧ rd.committed = [⟨4, 2, 41, 3⟩] ∧ rd.entries.length = 2 ∧
    NodeBk.appliedCursor rd = 4 :=
  ⟨⟨false, 0, 0, 0, none, false, 4⟩, ⟨exLog.unstable.entries, [⟨4, 2, 41, 3⟩], none, false, some 4⟩, by decide, rfl, rfl, rfl⟩
example : Z.Handout.Inv (absN exLog) := ⟨by decide, by show exLog.firstIndex ≤ exLog.applied + 1; decide⟩

/-- `Z.Handout.Inv` of the abstraction holds initially and is kept by everything raft and the application
    do BETWEEN two cycles: every operation within its contract except `appliedTo` and `stableSnapTo`, which
    only `Advance` calls (`C02_node_cycle` covers them) -/
theorem C02_node_inv_between_cycles {l l' : RaftLog} (w : WfLog l) (inv : Z.Handout.Inv (absN l)) (op : Op)
    (hl : Legal l op) (hop : (∀ i, op ≠ .appliedTo i) ∧ (∀ i, op ≠ .stableSnapTo i))
    (h : exec l op = .ok l') : Z.Handout.Inv (absN l') := by
  -- enough: applied kept, committed not lowered, pending snapshot kept, firstIndex kept or raised by a
  -- compaction up to applied+1 while no snapshot is pending
  have key : ∀ l' : RaftLog, l'.applied = l.applied → l.committed ≤ l'.committed →
      l'.unstable.snapshot = l.unstable.snapshot →
      (l'.firstIndex = l.firstIndex ∨ (l.unstable.snapshot = none ∧ l'.firstIndex ≤ l.applied + 1)) →
      Z.Handout.Inv (absN l') := by
    intro l' h1 h2 h3 h4
    have ha := inv.appliedLe
    have hf := inv.firstOk
    refine ⟨by show l'.applied ≤ l'.committed; rw [h1]; have : l.applied ≤ l.committed := ha; omega, ?_⟩
    show match (l'.unstable.snapshot.map (·.1)) with | none => _ | some i => _
    rw [h3]
    cases hs : l.unstable.snapshot with
    | none =>
      have hsn : (absN l).snap = none := by show l.unstable.snapshot.map (·.1) = _; rw [hs]; rfl
      rw [hsn] at hf
      show l'.firstIndex ≤ l'.applied + 1
      rw [h1]
      rcases h4 with h4 | h4
      · rw [h4]; exact hf
      · exact h4.2
    | some p =>
      obtain ⟨si, st⟩ := p
      have hsn : (absN l).snap = some si := by show l.unstable.snapshot.map (·.1) = _; rw [hs]; rfl
      rw [hsn] at hf
      show l'.firstIndex = si + 1 ∧ l'.applied < si ∧ si ≤ l'.committed
      rcases h4 with h4 | h4
      · rw [h4, h1]
        have h5 : l.firstIndex = si + 1 ∧ l.applied < si ∧ si ≤ l.committed := hf
        exact ⟨h5.1, h5.2.1, by omega⟩
      · rw [hs] at h4; cases h4.1
  cases op with
  | append ents =>
    obtain ⟨a0, hc, ha⟩ := hl
    cases ents with
    | nil => simp [exec, RaftLog.append] at h; subst h; exact inv
    | cons e0 es =>
      have hidx : e0.index = a0 := hc.head
      simp only [exec] at h
      by_cases h1 : e0.index ≤ l.committed
      · rw [append_panic_after l e0 es (by omega) h1] at h; cases h
      · by_cases h2 : l.lastIndex + 1 < e0.index
        · rw [append_panic_oob w e0 es h2] at h; cases h
        · obtain ⟨l'', a1, _, a3, a4, _, a6, a7, _⟩ :=
            append_ok w e0 es (by rw [hidx]; exact hc) (by omega) (by omega)
          rw [a1] at h; injection h with h; subst h
          exact key _ a4 (by rw [a3]; exact Nat.le_refl _) a6 (Or.inl a7)
  | maybeAppend index logTerm cm ents =>
    obtain ⟨h1, h2, hc, ht⟩ := hl
    simp only [exec] at h
    by_cases hm : termW l index = logTerm
    · obtain ⟨p1, p2⟩ := C02_maybeAppend_spec w index logTerm cm ents hm h1 h2 hc ht
      by_cases hp : matched l (index + 1) ents < ents.length ∧ index + 1 + matched l (index + 1) ents ≤ l.committed
      · rw [p1 hp] at h; cases h
      · obtain ⟨l'', a1, _, a3, a4, a5, _, a7, _⟩ := p2 hp
        rw [a1] at h; injection h with h; subst h
        exact key _ a3 (by rw [a7]; omega) a4 (Or.inl a5)
    · rw [C02_maybeAppend_reject w index logTerm cm ents hm] at h
      injection h with h; subst h; exact inv
  | commitTo c =>
    simp only [exec] at h
    obtain ⟨_, hmono, _⟩ := C02_commit_monotone l c
    obtain ⟨e1, e2⟩ := hmono l' h
    subst e1
    exact key _ rfl e2 rfl (Or.inl rfl)
  | maybeCommit i t =>
    simp only [exec] at h
    cases hr : l.maybeCommit i t with
    | err e => rw [hr] at h; cases h
    | panic p => rw [hr] at h; cases h
    | ok p =>
      obtain ⟨l'', b⟩ := p
      rw [hr] at h; injection h with h; subst h
      obtain ⟨c1, c2, c3⟩ := maybeCommit_cases w i t
      by_cases hc : i > l.committed ∧ termW l i = t
      · by_cases hli : i ≤ l.lastIndex
        · rw [c2 hc.1 hc.2 hli] at hr; injection hr with hr; have := (Prod.mk.inj hr).1; subst this
          exact key _ rfl (by show l.committed ≤ i; omega) rfl (Or.inl rfl)
        · rw [c3 hc.1 hc.2 (by omega)] at hr; cases hr
      · rw [c1 hc] at hr; injection hr with hr; have := (Prod.mk.inj hr).1; subst this; exact inv
  | appliedTo i => exact absurd rfl (hop.1 i)
  | restore i t =>
    simp only [exec] at h; injection h with h; subst h
    have hci : l.committed < i := hl
    have ha : l.applied ≤ l.committed := inv.appliedLe
    refine ⟨by show l.applied ≤ i; omega, ?_⟩
    show (RaftLog.restore l i t).firstIndex = i + 1 ∧ l.applied < i ∧ i ≤ i
    exact ⟨RaftLog.firstIndex_some (l := l.restore i t) rfl, by omega, Nat.le_refl _⟩
  | stableTo i t =>
    simp only [exec] at h
    obtain ⟨u, hu, hus⟩ := stableTo_weak l (fun si st hs _ => w.snapLt hs) i t
    rw [hu] at h; injection h with h; subst h
    exact key _ rfl (Nat.le_refl _) hus (Or.inl (firstIndex_congr rfl hus))
  | stableSnapTo i => exact absurd rfl (hop.2 i)
  | persist n =>
    simp only [exec] at h
    cases hr : l.storage.append (l.unstable.entries.take n) with
    | err e => rw [hr] at h; simp [withStorage] at h
    | panic p => rw [hr] at h; simp [withStorage] at h
    | ok s' =>
      rw [hr] at h; simp only [withStorage] at h; injection h with h; subst h
      have w' := C02_wf_preserved w (.persist n) hl (by simp only [exec]; rw [hr]; rfl)
      -- Append never moves the dummy entry when it is called at or above firstIndex
      by_cases hn : n = 0 ∨ l.unstable.entries = []
      · have : l.unstable.entries.take n = [] := by
          rcases hn with hn | hn
          · rw [hn]; rfl
          · rw [hn]; simp
        rw [this] at hr; simp [Storage.append] at hr; subst hr; exact inv
      · have hne : l.unstable.entries ≠ [] := fun hh => hn (Or.inr hh)
        have hlen : 1 ≤ l.unstable.entries.length := by
          cases he : l.unstable.entries with
          | nil => exact absurd he hne
          | cons a b => simp
        have htake : l.unstable.entries.take n = l.unstable.entries.take (min n l.unstable.entries.length) := by
          rw [List.take_eq_take_min]
        obtain ⟨s'', a1, _, _, a4, _⟩ :=
          persist_wf w (min n l.unstable.entries.length) (by omega) (Nat.min_le_right _ _) hl
        rw [htake, a1] at hr; injection hr with hr; subst hr
        exact key _ rfl (Nat.le_refl _) rfl (Or.inl a4)
  | compact ci =>
    simp only [exec] at h
    obtain ⟨q1, q2, q3⟩ := hl
    obtain ⟨c1, c2, _⟩ := l.storage.compact_spec w.stContig ci
    by_cases h1 : ci ≤ l.storage.dummy.index
    · rw [c1 h1] at h; simp [withStorage] at h
    · by_cases h2 : l.storage.lastIndex < ci
      · rw [c2 h2] at h; simp [withStorage] at h
      · obtain ⟨s', a1, _, _, a4, _⟩ := compact_wf w ci (by omega) q1 q2 (by omega) q3
        rw [a1] at h; simp only [withStorage] at h; injection h with h; subst h
        apply key { l with storage := s' } rfl (Nat.le_refl _) rfl
        cases hs : l.unstable.snapshot with
        | none =>
          have hf := inv.firstOk
          have hsn : (absN l).snap = none := by show l.unstable.snapshot.map (·.1) = _; rw [hs]; rfl
          rw [hsn] at hf
          have hf' : l.firstIndex ≤ l.applied + 1 := hf
          exact Or.inr ⟨rfl, by rw [a4]; omega⟩
        | some p =>
          obtain ⟨si, st⟩ := p
          have := q3 si st hs
          have hf := RaftLog.firstIndex_some hs
          exact Or.inl (by rw [a4]; omega)
  | applySnap =>
    simp only [exec] at h
    cases hs : l.unstable.snapshot with
    | none => rw [hs] at h; injection h with h; subst h; exact inv
    | some p =>
      obtain ⟨si, st⟩ := p
      rw [hs] at h
      simp only [] at h
      obtain ⟨c1, _⟩ := l.storage.applySnapshot_spec si st
      by_cases hold : si ≤ l.storage.snapIndex
      · rw [c1 hold] at h; simp [withStorage] at h
      · obtain ⟨a1, _, _, a4, _⟩ := applySnapshot_wf w hs (hl si st hs) (by omega)
        rw [a1] at h; simp only [withStorage] at h; injection h with h; subst h
        exact key _ rfl (Nat.le_refl _) rfl (Or.inl a4)
  | createSnap i =>
    simp only [exec] at h
    cases hr : l.storage.createSnapshot i with
    | err e => rw [hr] at h; cases h
    | panic p => rw [hr] at h; cases h
    | ok r =>
      obtain ⟨s, x, y⟩ := r
      rw [hr] at h; injection h with h; subst h
      have hd : s.dummy = l.storage.dummy := by
        unfold Storage.createSnapshot at hr
        split at hr
        · cases hr
        · simp only [] at hr
          split at hr
          · cases hr
          · split at hr
            · cases hr
            · split at hr
              · injection hr with hr; have := (Prod.mk.inj hr).1; subst this; rfl
              · cases hr
      exact key _ rfl (Nat.le_refl _) rfl
        (Or.inl (firstIndex_congr' (l := l) (l' := { l with storage := s }) hd rfl))

/-- … and it holds for `newLog` over any storage -/
theorem C02_node_inv_init (s : Storage) (m : Nat) (h : Contig s.dummy.index s.all) :
    Z.Handout.Inv (absN (RaftLog.newLog s m)) := by
  obtain ⟨_, _, n3, n4, n5, _⟩ := newLog_wf s m h
  refine ⟨by show (RaftLog.newLog s m).applied ≤ (RaftLog.newLog s m).committed; rw [n3, n4]; exact Nat.le_refl _, ?_⟩
  show (RaftLog.newLog s m).firstIndex ≤ (RaftLog.newLog s m).applied + 1
  rw [n5, n4]; exact Nat.le_refl _

/-! ### RocksStorage: the cached first / last index (C03 `rocks_cached_index_inv`) -/

/-- **rocks_cached_index_inv.** In the model of raft/rocksdb_storage.go's index bookkeeping (tied to the
    real RocksStorage by the `rs.*` ops of protocol `raftlog`): the DB stays sorted by index, and whenever a
    cache is set (non-zero) it holds the first DB entry's index + 1 resp. the last DB entry's index —
    initially and after every operation (reads fill the caches); `Append` for a batch with contiguous index
    fields that lies above the DB's first entry (raft never appends at or below a compacted index) -/
theorem C02_rocks_cached_index_inv {s : RStorage} (h : RStorage.RInv s) :
    RStorage.RInv RStorage.new ∧
    RStorage.RInv s.firstIndex.1 ∧ RStorage.RInv s.lastIndex.1 ∧
    (∀ i, RStorage.RInv (s.term i).1) ∧ (∀ lo hi m, RStorage.RInv (s.entries lo hi m).1) ∧
    (∀ i, RStorage.RInv (s.createSnapshot i).1) ∧ (∀ i t, RStorage.RInv (s.applySnapshot i t).1) ∧
    (∀ ci, RStorage.RInv (s.compact ci).1) ∧
    (∀ e0 es, Contig e0.index (e0 :: es) → (∀ x, s.db.head? = some x → x.index < e0.index) →
      RStorage.RInv (s.append (e0 :: es)).1) ∧
    RStorage.RInv (s.append []).1 :=
  ⟨RStorage.new_inv, (RStorage.firstIndex_spec h).1, (RStorage.lastIndex_spec h).1, RStorage.term_inv h,
   RStorage.entries_inv h, RStorage.createSnapshot_inv h, RStorage.applySnapshot_inv h, RStorage.compact_inv h,
   RStorage.append_inv h, h⟩

/-- `FirstIndex()` / `LastIndex()` answer the true indexes: snapshot index + 1 when a snapshot exists
    (so `CreateSnapshot` alone moves FirstIndex — unlike MemoryStorage), else first DB entry + 1; the last
    DB entry's index -/
theorem C02_rocks_first_last_true {s : RStorage} (h : RStorage.RInv s) :
    (∀ f, s.firstIndex.2 = .ok f →
      (s.snapIndex ≠ 0 ∧ f = s.snapIndex + 1) ∨
      (s.snapIndex = 0 ∧ ∃ e ∈ s.db, f = e.index + 1 ∧ ∀ x ∈ s.db, e.index ≤ x.index)) ∧
    (∀ l, s.lastIndex.2 = .ok l → ∃ e ∈ s.db, l = e.index ∧ ∀ x ∈ s.db, x.index ≤ e.index) :=
  ⟨(RStorage.firstIndex_spec h).2.2.2.2.2, fun l hl => ((RStorage.lastIndex_spec h).2.2.2.2.2 l hl).1⟩

/-- the storage used in the examples: entries 1..5 of term 1 after the dummy -/
def exRocks : RStorage :=
  (RStorage.new.append [⟨1, 1, 0, 0⟩, ⟨2, 1, 0, 0⟩, ⟨3, 1, 0, 0⟩, ⟨4, 1, 0, 0⟩, ⟨5, 1, 0, 0⟩]).1

example : RStorage.RInv exRocks :=
  (C02_rocks_cached_index_inv RStorage.new_inv).2.2.2.2.2.2.2.2.1 _ _ ((contigB_iff _ _).mp (by decide)) (by decide)
example : exRocks.cLast = 5 ∧ exRocks.lastIndex.2 = .ok 5 ∧ exRocks.firstIndex.2 = .ok 1 ∧
    (exRocks.createSnapshot 3).1.firstIndex.2 = .ok 4 := by decide

/-- `ApplySnapshot(i)` leaves nothing above i in the DB (it kept every entry above i, and `LastIndex()` / `Term()` then
    reported the stale tail, before the fix listed in DESIGN §0.2; `MemoryStorage.ApplySnapshot` leaves only the
    snapshot's dummy entry as well) -/
theorem C02_rocks_applySnapshot_drops_tail (s : RStorage) (i t : Nat) (h : s.snapIndex < i) :
    ∀ x ∈ (s.applySnapshot i t).1.db, x.index ≤ i := by
  intro x hx
  unfold RStorage.applySnapshot at hx
  rw [if_neg (by omega)] at hx
  have := (List.mem_filter.mp hx).2
  simpa using this

example : (exRocks.applySnapshot 3 2).1.lastIndex.2 = .ok 3 ∧ ((exRocks.applySnapshot 3 2).1.term 3).2 = .ok 2 ∧
    (exLog.storage.applySnapshot 3 2) = .ok ⟨3, 2, ⟨3, 2, 0, 0⟩, []⟩ := by decide

end Z.Props.C02Log
