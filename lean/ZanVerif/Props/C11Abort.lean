/-
  C11 (and C07) — "an error answer leaves nothing behind", at the level of the apply loop's SHARED write batch.
  rockredis write paths stage their puts in the store's one write batch while they run and, when they fail half-way
  (an over-long second field of HDEL / HMSET, an invalid later key of PLSET, …), leave what they staged in it: the caller has to
  clear it.  The caller is the error branch of `ApplyRaftRequest`, regenerated / pinned by Gen/Abort.lean:
  `if rockredis.IsNeedAbortError(err) { batch.AbortBatchForError(err) }`, `IsNeedAbortError` false for errTooMuchBatchSize only,
  `AbortBatchForError` clearing the store's batch FIRST (in front of its `IsBatched` guard).
  Model: the shared batch is a list of staged writes; a command stages a list of writes and answers ok or an error.
-/
import ZanVerif.Gen.Abort

namespace Z.Props.C11Abort

structure Outcome (W : Type) where
  staged : List W                   -- what the handler put into the shared batch before it returned
  err : Bool                        -- it answered an error
  tooMuchBatchSize : Bool := false  -- … namely errTooMuchBatchSize

/-- the shared write batch after one command went through the handler call and its error branch -/
def afterCommand {W : Type} (wb : List W) (o : Outcome W) : List W :=
  if o.err then
    (if Gen.needAbort o.tooMuchBatchSize && Gen.abortClearsUnconditionally && Gen.errorPathAborts then [] else wb ++ o.staged)
  else wb ++ o.staged

/-- errTooMuchBatchSize is raised by the argument-count guards in front of the first staged write -/
def WellFormed {W : Type} (o : Outcome W) : Prop := o.tooMuchBatchSize = true → o.staged = []

/-- **a failed command leaves nothing of itself in the shared batch** — whether or not a batch of several commands is open, and
    whatever it had staged before it failed: what a later write commits never contains a write of a command that answered an error -/
theorem C11_failed_write_leaves_nothing_staged {W : Type} (wb : List W) (o : Outcome W) (hw : WellFormed o) (he : o.err = true) :
    ∀ w ∈ afterCommand wb o, w ∈ wb := by
  intro w hmem
  unfold afterCommand at hmem
  rw [he] at hmem
  simp only [if_true] at hmem
  unfold Gen.needAbort Gen.abortClearsUnconditionally Gen.errorPathAborts at hmem
  cases ht : o.tooMuchBatchSize with
  | true =>
    rw [ht, hw ht] at hmem
    simpa using hmem
  | false =>
    rw [ht] at hmem
    simp at hmem

/-- over a whole apply event: the writes in the shared batch at the end are writes staged by commands that answered ok (the
    known finding `batch-abort` is the other direction: an abort also drops the staged writes of EARLIER successful commands) -/
theorem C11_event_batch_holds_only_successful_writes {W : Type} (os : List (Outcome W)) (hw : ∀ o ∈ os, WellFormed o) :
    ∀ w ∈ os.foldl afterCommand [], ∃ o ∈ os, o.err = false ∧ w ∈ o.staged := by
  suffices h : ∀ (wb : List W), (∀ w ∈ wb, ∃ o ∈ os, o.err = false ∧ w ∈ o.staged) →
      ∀ (rest : List (Outcome W)), (∀ o ∈ rest, o ∈ os) → ∀ w ∈ rest.foldl afterCommand wb, ∃ o ∈ os, o.err = false ∧ w ∈ o.staged from
    h [] (by simp) os (fun _ h => h)
  intro wb hwb rest
  induction rest generalizing wb with
  | nil => intro _ w hm; exact hwb w hm
  | cons o t ih =>
    intro hsub w hm
    simp only [List.foldl_cons] at hm
    refine ih (afterCommand wb o) ?_ (fun x hx => hsub x (List.mem_cons_of_mem _ hx)) w hm
    intro x hx
    have ho : o ∈ os := hsub o List.mem_cons_self
    cases he : o.err with
    | true => exact hwb x (C11_failed_write_leaves_nothing_staged wb o (hw o ho) he x hx)
    | false =>
      unfold afterCommand at hx
      rw [he] at hx
      simp only [Bool.false_eq_true, if_false, List.mem_append] at hx
      rcases hx with hx | hx
      · exact hwb x hx
      · exact ⟨o, ho, he, hx⟩

/-- the shape of the seeded changes: without the unconditional clear (or with another error exempted from the abort) a failed
    command's staged write stays in the batch and is committed by the next write -/
theorem C11_abort_guard_witness :
    let o : Outcome Nat := { staged := [7], err := true }
    afterCommand ([] : List Nat) o = [] ∧
    (if o.err then (if false then ([] : List Nat) else [] ++ o.staged) else []) = [7] := by decide

example : afterCommand [1, 2] ({ staged := [3], err := false } : Outcome Nat) = [1, 2, 3] := by decide
example : afterCommand [1, 2] ({ staged := [3], err := true } : Outcome Nat) = [] := by decide
example : ∀ w ∈ afterCommand [1, 2] ({ staged := [], err := true, tooMuchBatchSize := true } : Outcome Nat), w ∈ [1, 2] :=
  C11_failed_write_leaves_nothing_staged _ _ (fun _ => rfl) rfl

end Z.Props.C11Abort
