/-
  C02 — replicas never apply different entries at the same log index.
  Theorems over `Z.RaftAbs`, the abstract raft with crashes (15 actions: campaign, grant, becomeLeader,
  propose, sendApp, recvApp, ackStale, restore, sendHb, recvHb, commitLeader, bump, restart, flush,
  crash) for an arbitrary FIXED voter list, for EVERY schedule — messages may be delivered any number
  of times, in any order, or never; nodes outside the voter list are learners.
  Tie to the code: (1) the decision expressions the preconditions stand for are REGENERATED from
  raft/raft.go and raft/log.go (`Gen.Raft`) and proved equal to the model's; (2) the run-time
  refinement certificate: every event of real raft.Node runs is mapped to abstract actions and
  checked by the executable `apply`, proved sound (`C02_certificate_sound`), so every accepted real
  run is an execution of the proved system; (3) the driver compares the abstract nodes with the real
  nodes after every event.
-/
import ZanVerif.Raft.RaftExec
import ZanVerif.Raft.Handout
import ZanVerif.Raft.RaftWitness
import ZanVerif.Gen.Raft

namespace Z.Props.C02
open Z.RaftAbs Z.LogMatch

/-- the quorum size of the model is the regenerated `len(r.prs)/2 + 1` -/
theorem C02_quorum_is_code (n : Nat) : (quorum n : Int) = Gen.quorum n := by
  unfold quorum Gen.quorum
  rw [Int.tdiv_eq_ediv_of_nonneg (by omega)]
  push_cast
  rfl

/-- the model's up-to-date rule is the regenerated `isUpToDate` -/
theorem C02_uptodate_is_code (cand q : Log) :
    UpToDate cand q ↔ Gen.isUpToDate cand.length (lastTerm cand) (lastTerm q) q.length = true := by
  unfold UpToDate Gen.isUpToDate
  simp only [Bool.or_eq_true, Bool.and_eq_true, decide_eq_true_eq, beq_iff_eq, Int.natCast_inj, gt_iff_lt, ge_iff_le,
    Int.ofNat_lt, Int.ofNat_le]

/-- `maybeCommit` advances the commit index only to an index that holds an entry of the leader's own term
    (the current-term rule; `commitLeader`'s precondition `termAt (log c) k = term c`) -/
theorem C02_commit_guard_is_code (k committed tk term : Nat) :
    Gen.maybeCommitGuard k committed tk term = true ↔ (committed < k ∧ tk = term) := by
  unfold Gen.maybeCommitGuard
  simp only [Bool.and_eq_true, decide_eq_true_eq, beq_iff_eq, Int.natCast_inj, gt_iff_lt, Int.ofNat_lt]

/-- **Log Matching** in every reachable state -/
theorem C02_log_matching (vs : List Nat) {s : St} (r : Reach vs s) (a b k : Nat) (hk : 1 ≤ k)
    (ha : k ≤ (s.log a).length) (hb : k ≤ (s.log b).length)
    (ht : ((s.log a)[k - 1]'(by omega)).term = ((s.log b)[k - 1]'(by omega)).term) :
    (s.log a).take k = (s.log b).take k := log_matching_reach vs r a b k hk ha hb ht

/-- **Leader Completeness** -/
theorem C02_leader_completeness (vs : List Nat) {s : St} (r : Reach vs s) (t k u c : Nat) (hg : Good s t k)
    (hq : QAcked vs s t k) (htu : t < u) (hu : s.role c = Role.leader) (hc : s.term c = u) :
    (s.log c).take k = (s.tlog t).take k := leader_completeness vs r t k u c hg hq htu hu hc

/-- **State Machine Safety**: in every reachable state the committed prefixes of any two nodes agree —
    no two replicas apply different entries at the same index -/
theorem C02_state_machine_safety (vs : List Nat) {s : St} (r : Reach vs s) (a b : Nat) :
    (s.log a).take (min (s.commit a) (s.commit b)) = (s.log b).take (min (s.commit a) (s.commit b)) :=
  state_machine_safety vs r a b

/-- **never replaced**: a committed prefix at one time and any committed prefix at any later time agree
    (crashes of any nodes at any points in between included) -/
theorem C02_never_replaced (vs : List Nat) {s s' : St} (r : Reach vs s) (hs : Steps vs s s') (a b : Nat) :
    (s.log a).take (min (s.commit a) (s'.commit b)) = (s'.log b).take (min (s.commit a) (s'.commit b)) :=
  state_machine_safety_over_time vs r hs a b

/-- **the certificate is sound**: an action list accepted by the executable checker from the initial
    state is an execution of the abstract system — so all of the above holds of every accepted real run -/
theorem C02_certificate_sound (vs : List Nat) (as : List Action) {s : St} (h : run vs init as = some s) :
    Reach vs s := run_sound vs as Reach.init h

/-- non-vacuity: a reachable run with a commit, a follower crash that loses an entry and its unsent ack,
    and a leader crash right after committing -/
theorem C02_witness : ∃ s s', Reach [1, 2, 3] s ∧ s.commit 1 = 1 ∧ Steps [1, 2, 3] s s' ∧
    s'.role 1 = Role.follower ∧ s'.log 1 = [⟨1, 0⟩] ∧ s'.log 2 = [⟨1, 0⟩] := witness

end Z.Props.C02
