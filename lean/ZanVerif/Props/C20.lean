/-
  C20 — all storage engines implement the same key-value contract.
  Theorems about (a) the reference contract `Z.Store` every engine is compared with and (b) the shared
  iterator wrapper of engine/iterator.go (`Z.IterP.iterate`), for all stores and option records.
  The engines themselves are black boxes: they are compared with this reference differentially.
-/
import ZanVerif.Engine.StoreLemmas
import ZanVerif.Engine.IterFallback

namespace Z.Props.C20
open Z.Store Z.Ref

/-- every operation, and every committed batch, keeps the store strictly sorted (hence duplicate-free) -/
theorem C20_ref_wellformed (m : List KV) (hm : Z.Ref.Sorted m) (batch : List Op) :
    Z.Ref.Sorted (commit m batch) := commit_sorted hm batch

/-- a batch is invisible until committed, takes effect as the in-order fold when committed, and a cleared
    batch has no effect at all -/
theorem C20_batch_atomic (s : St) (o : Op) (k : Bytes) :
    (s.add o).get k = s.get k
    ∧ (s.add o).commit.store = applyOp (commit s.store s.batch) o
    ∧ (s.add o).clear.commit.store = s.store
    ∧ (s.add o).clear.get k = s.get k := by
  refine ⟨rfl, ?_, rfl, rfl⟩
  simp [St.add, St.commit, commit, List.foldl_append]

/-- point reads after a committed batch: last write to a key wins, untouched keys are unchanged -/
theorem C20_put_get (m : List KV) (hm : Z.Ref.Sorted m) (k v k' : Bytes) :
    get (applyOp m (.put k v)) k' = if k' = k then some v else get m k' := by
  simpa [applyOp] using get_put m hm k v k'

theorem C20_del_get (m : List KV) (hm : Z.Ref.Sorted m) (k k' : Bytes) :
    get (applyOp m (.del k)) k' = if k' = k then none else get m k' := by
  simpa [applyOp] using get_del m hm k k'

/-- **the iterator wrapper**: for every sorted store and every option record (all 16 open/closed ×
    direction combinations, every offset ≥ 0 and count) the keys handed out are exactly
    `take count (drop offset (filter inRange (orient keys)))` -/
theorem C20_iter_spec (m : List KV) (hm : Z.Ref.Sorted m) (mn mx : Option Bytes) (lopen ropen : Bool)
    (offset count : Nat) (unlimited rev : Bool) :
    let o : Z.IterP.Opts Bytes := { min := mn, max := mx, lopen := lopen, ropen := ropen, offset := offset,
                                    count := if unlimited then none else some count }
    let view := (m.map (·.1)).filter (inBounds mn mx ropen)
    (if rev then Z.IterP.iterateRev o view.reverse else Z.IterP.iterate o view)
      = Z.IterP.takeOpt o.count (((if rev then view.reverse else view).filter (Z.IterP.inRange o)).drop offset) := by
  intro o view
  cases rev with
  | true =>
    simp only [if_true]
    exact Z.IterP.iterateRev_eq_spec o view.reverse (view_rev_sorted hm _)
  | false =>
    simp only [Bool.false_eq_true, if_false]
    exact Z.IterP.iterate_eq_spec o view (view_sorted hm _)

/-- the engine-level bounds never remove a key the option record asks for: filtering the bounded view
    equals filtering all keys (so the result does not depend on the engine bounding the view, as long
    as its cursor honours the contract) -/
theorem C20_bounds_transparent (ks : List Bytes) (mn mx : Option Bytes) (lopen ropen : Bool) (off : Nat) (c : Option Nat) :
    let o : Z.IterP.Opts Bytes := { min := mn, max := mx, lopen := lopen, ropen := ropen, offset := off, count := c }
    (ks.filter (inBounds mn mx ropen)).filter (Z.IterP.inRange o) = ks.filter (Z.IterP.inRange o) := by
  intro o
  rw [List.filter_filter]
  congr 1
  funext k
  simp only [Z.IterP.inRange, Z.IterP.minOk, Z.IterP.maxOk, inBounds, o]
  cases mn <;> cases mx <;> cases lopen <;> cases ropen <;> simp <;>
    first
      | (intro h; exact Z.IterP.SOrd.le_of_lt h)
      | (intro h h2; exact ⟨Z.IterP.SOrd.le_of_lt h, h2⟩)
      | (intro h _; exact Z.IterP.SOrd.le_of_lt h)
      | skip

/-- **reverse iteration over an engine that does NOT bound its cursor** (the in-memory engine: it stores the bounds
    of an iterator without applying them): the wrapper as repaired by 855ff6c — start position with the
    "SeekForPrev found nothing ⇒ SeekToFirst" fallback, `Valid` checking Max in reverse too — hands out exactly the
    specified keys over the view of ALL keys, for every sorted store and option record.  (`C20_iter_spec` is the same
    statement over a view the engine has bounded, where the fallback is a no-op: `Z.IterP.fallback_noop`.) -/
theorem C20_iter_spec_unbounded_engine (m : List KV) (hm : Z.Ref.Sorted m) (mn mx : Option Bytes) (lopen ropen : Bool)
    (offset count : Nat) (unlimited : Bool) :
    let o : Z.IterP.Opts Bytes := { min := mn, max := mx, lopen := lopen, ropen := ropen, offset := offset,
                                    count := if unlimited then none else some count }
    let all := (m.map (·.1)).filter (fun _ => true)
    Z.IterP.iterateRevF o all.reverse
      = Z.IterP.takeOpt o.count ((all.reverse.filter (Z.IterP.inRange o)).drop offset) := by
  intro o all
  exact Z.IterP.iterateRevF_eq_spec o all.reverse (view_rev_sorted hm _)

/-- what the repair removed (the witness of the known finding, now fixed): keys aaa1 … aaa4, reverse over the closed
    range [aaa0, aaa0z] — no key is ≤ Max, the fallback puts the cursor on aaa1, and without the added check of
    `Valid` that key, which is ABOVE Max, is handed out; with it nothing is -/
def fbOpts : Z.IterP.Opts Bytes :=
  { min := some [97, 97, 97, 48], max := some [97, 97, 97, 48, 122], lopen := false, ropen := false, offset := 0, count := none }
def fbView : List Bytes := [[97, 97, 97, 52], [97, 97, 97, 51], [97, 97, 97, 50], [97, 97, 97, 49]]

theorem C20_reverse_fallback_witness :
    Z.IterP.iterateRevOld fbOpts fbView = [[97, 97, 97, 49]] ∧ Z.IterP.iterateRevF fbOpts fbView = [] := by
  decide

/-- n counter merges then a read: the sum modulo 2^64 -/
theorem C20_merge_counter (m : List KV) (hm : Z.Ref.Sorted m) (k : Bytes) (ns : List Nat) :
    counterOf (commit m (ns.map (Op.merge k))) k % 18446744073709551616
      = (counterOf m k + ns.sum) % 18446744073709551616 := by
  induction ns generalizing m with
  | nil => simp [commit]
  | cons n t ih =>
    simp only [List.map_cons, commit, List.foldl_cons]
    have hs : Z.Ref.Sorted (applyOp m (.merge k n)) := applyOp_sorted hm _
    have := ih (applyOp m (.merge k n)) hs
    unfold commit at this
    rw [this]
    have hc : counterOf (applyOp m (.merge k n)) k = (counterOf m k + n) % 18446744073709551616 := by
      unfold counterOf applyOp
      rw [get_put m hm]
      simp only [if_true, le64_length, Nat.lt_irrefl, if_false]
      exact ofLE64_le64 _ (Nat.mod_lt _ (by decide))
    rw [hc, List.sum_cons]
    omega

/-! non-vacuity -/
example : Z.Ref.Sorted [([1], [9]), ([1, 0], [8]), ([2], [7])] := by simp [Z.Ref.Sorted]; decide
example : (iter [([1], [9]), ([1, 0], [8]), ([2], [7])] (some [1]) (some [2]) true false 0 (-1) true).map (·.1) = [[2], [1, 0]] := by decide

end Z.Props.C20
