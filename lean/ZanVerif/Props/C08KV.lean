/-
  C08 — commands behave like redis on per-type keyspaces: the KV (string) type.
  Refinement of the EXECUTABLE storage-level KV model (`Z.KVExec`: 13-byte value header, modification time,
  lazy expiry, real key codec; compared line by line with a real KVNode by the `datacorekv` / `datacorettl`
  runs) to the plain specification `Z.KVSpec` (key ↦ (value, expiry second); redis semantics): every modelled
  command answers what the spec answers on the VISIBLE entry of its key, and the visible content afterwards
  (every key, every later read time) is the spec's.  The deviations of the unchanged tree from the spec are
  excluded by `Z.KVSpec.Conforms` and each has a witness theorem (`C08_dev_*`) on the executable model.
-/
import ZanVerif.Data.KVRefine
import ZanVerif.Data.KVGood

namespace Z.Props.C08KV
open Z.KVExec Z.KVSpec Z.KVRefine Z.Header
open Z.Ref (Sorted get get_del del_sorted)
open Z.Codec (kvKey)

/-- **refinement, one command** (`_partial`: under `Conforms`, which lists the deviations).  `m` any sorted
    store, `k` a key holding nothing or a well-formed value, `ts > 0` the log time. -/
theorem C08_kv_refines_partial {m : List KV} (hs : Sorted m) {k : Bytes} (hg : GoodAt m k) {ts : Int} (hts : 0 < ts)
    (c : KCmd) (hok : Conforms c ts (view m ts k)) :
    (kvApply m ts k c).2 = (specCmd c ts (absKV m ts k)).2 ∧
    (∀ t', ts ≤ t' →
      absKV (kvApply m ts k c).1 t' k = visAt t' (applyS (specCmd c ts (absKV m ts k)).1 (absKV m ts k))) ∧
    (∀ k', k' ≠ k → ∀ t', absKV (kvApply m ts k c).1 t' k' = absKV m t' k') := by
  have h := refine_key hg hts c hok
  refine ⟨h.1, fun t' ht' => ?_, fun k' hk t' => ?_⟩
  · simp only [kvApply, absKV]
    rw [view_applyEff_self hs]
    exact h.2 t' ht'
  · simp only [kvApply, absKV]
    rw [view_applyEff_other hs _ _ hk]

/-- **reads are the spec's reads of the visible entry** (GET, STRLEN, GETRANGE, EXISTS, MGET element, TTL) -/
theorem C08_kv_reads_refine {m : List KV} {k : Bytes} (hg : GoodAt m k) {t : Int} (ht : 0 < t) :
    rdGet (view m t k) = (match absKV m t k with | some (u, _) => .bulk u | none => .nil) ∧
    rdMgetOne (view m t k) = (match absKV m t k with | some (u, _) => .bulk u | none => .nil) ∧
    rdStrlen (view m t k) = .int ((valOf (absKV m t k)).length : Nat) ∧
    existsOne (view m t k) = (if (absKV m t k).isSome then 1 else 0, none) ∧
    rdTtl t (view m t k) = .int (match absKV m t k with
      | some (_, e) => if e = 0 then -1 else (e : Int) - t / 1000000000
      | none => -1) := by
  rcases hg with hn | ⟨e, u, hst⟩
  · simp [view_of_none t hn, absKV, vis, rdGet, rdMgetOne, rdStrlen, existsOne, rdTtl, live, valOf]
  · obtain ⟨ver, mt, hm, hv⟩ := view_stored hst
    cases hx : Gen.isExpired (e : Int) t with
    | false =>
      have hl := (live_iff e t ht).mp hx
      simp only [hv, hx, absKV, vis, rdGet, rdMgetOne, rdStrlen, existsOne, rdTtl, live, valOf]
      refine ⟨by simp, by simp, by simp, by simp, ?_⟩
      by_cases he : e = 0
      · simp only [he, if_true]
        rw [ttl_dead _ t ht (Or.inr rfl)]
      · simp only [he, if_false]
        rw [(ttl_live ⟨e, _, some u⟩ t ht he hx).1]
    | true =>
      simp only [hv, hx, absKV, vis, rdGet, rdMgetOne, rdStrlen, existsOne, rdTtl, live, valOf]
      refine ⟨by simp, by simp, by simp, by simp, ?_⟩
      rw [ttl_dead ⟨e, _, some u⟩ t ht (Or.inl hx)]

/-! ### whole logs: any sequence of commands, any non-decreasing positive log timestamps -/

/-- a log of single-key KV writes: (log timestamp, key, command) -/
abbrev Log := List (Int × Bytes × KCmd)

/-- the executable model applied to a log -/
def runImpl : Log → List KV → List KV × List Reply
  | [], m => (m, [])
  | (ts, k, c) :: rest, m =>
    ((runImpl rest (kvApply m ts k c).1).1, (kvApply m ts k c).2 :: (runImpl rest (kvApply m ts k c).1).2)

/-- the spec state: key ↦ entry -/
abbrev SState := Bytes → Option Entry

/-- the spec applied to a log: a command sees the visible entry of its key at its own time -/
def runSpec : Log → SState → SState × List Reply
  | [], S => (S, [])
  | (ts, k, c) :: rest, S =>
    let cur := visAt ts (S k)
    let S' : SState := fun k' => if k' = k then applyS (specCmd c ts cur).1 cur else S k'
    ((runSpec rest S').1, (specCmd c ts cur).2 :: (runSpec rest S').2)

/-- every command conforms at the moment it is applied -/
def ConformsRun : Log → List KV → Prop
  | [], _ => True
  | (ts, k, c) :: rest, m => Conforms c ts (view m ts k) ∧ ConformsRun rest (kvApply m ts k c).1

/-- log timestamps do not go back (equal timestamps are fine for the KV type) -/
def Mono (t0 : Int) : Log → Prop
  | [] => True
  | (ts, _, _) :: rest => t0 ≤ ts ∧ Mono ts rest

/-- the store `m` shows, from time `t0` on, what the spec state `S` shows -/
def Rel (m : List KV) (S : SState) (t0 : Int) : Prop := ∀ t', t0 ≤ t' → ∀ k, absKV m t' k = visAt t' (S k)

/-- **well-formedness is preserved** by every conforming command (so the hypotheses of the one-command theorems
    hold along every conforming log) -/
theorem C08_kv_good_preserved {m : List KV} (hs : Sorted m) (hg : GoodStore m) {ts : Int} (hts : 0 < ts) (k : Bytes)
    (c : KCmd) (hok : Conforms c ts (view m ts k)) :
    Sorted (kvApply m ts k c).1 ∧ GoodStore (kvApply m ts k c).1 :=
  ⟨kvApply_sorted hs ts k c, good_preserved hs hg hts k c hok⟩

/-- **refinement, whole logs** (`_partial`: every command conforms when applied).  For every log with positive
    non-decreasing timestamps, from related states: the replies of the executable model are the spec's replies, and
    the final states are related from the last timestamp on. -/
theorem C08_kv_run_refines_partial : ∀ (log : Log) (m : List KV) (S : SState) (t0 : Int), 0 < t0 → Sorted m → GoodStore m →
    Rel m S t0 → Mono t0 log → ConformsRun log m →
    (runImpl log m).2 = (runSpec log S).2 ∧
    ∀ t', t0 ≤ t' → (∀ e ∈ log, e.1 ≤ t') → ∀ k, absKV (runImpl log m).1 t' k = visAt t' ((runSpec log S).1 k)
  | [], m, S, t0, _, _, _, hR, _, _ => ⟨rfl, fun t' h _ k => hR t' h k⟩
  | (ts, k, c) :: rest, m, S, t0, ht0, hs, hg, hR, hm, hc => by
    have hts : 0 < ts := by have := hm.1; omega
    have hcur : absKV m ts k = visAt ts (S k) := hR ts hm.1 k
    have step := C08_kv_refines_partial hs (hg k) hts c hc.1
    have hgood := C08_kv_good_preserved hs hg hts k c hc.1
    have hR' : Rel (kvApply m ts k c).1
        (fun k' => if k' = k then applyS (specCmd c ts (visAt ts (S k))).1 (visAt ts (S k)) else S k') ts := by
      intro t' ht' k'
      by_cases hk : k' = k
      · subst hk
        simp only [if_true]
        rw [step.2.1 t' ht', hcur]
      · simp only [hk, if_false]
        rw [step.2.2 k' hk t']
        exact hR t' (by have := hm.1; omega) k'
    have ih := C08_kv_run_refines_partial rest _ _ ts hts hgood.1 hgood.2 hR' hm.2 hc.2
    refine ⟨?_, ?_⟩
    · simp only [runImpl, runSpec]
      rw [step.1, hcur, ih.1]
    · intro t' _ hall k'
      simp only [runImpl, runSpec]
      exact ih.2 t' (hall (ts, k, c) List.mem_cons_self) (fun e he => hall e (List.mem_cons_of_mem _ he)) k'

/-- from the empty store and the empty spec state -/
theorem C08_kv_run_from_empty (log : Log) (t0 : Int) (ht0 : 0 < t0) (hm : Mono t0 log) (hc : ConformsRun log []) :
    (runImpl log []).2 = (runSpec log (fun _ => none)).2 ∧
    ∀ t', t0 ≤ t' → (∀ e ∈ log, e.1 ≤ t') → ∀ k,
      absKV (runImpl log []).1 t' k = visAt t' ((runSpec log (fun _ => none)).1 k) :=
  C08_kv_run_refines_partial log [] (fun _ => none) t0 ht0 trivial (fun _ => Or.inl rfl)
    (fun _ _ _ => rfl) hm hc

/-- **DEL k₁ … kₙ** (`_partial`: pairwise distinct keys, none of them expired-but-stored — see `C08_dev_del_expired`,
    `C08_dev_del_repeated_key`): the reply is the number of visible keys; afterwards exactly those keys are gone. -/
theorem C08_del_keys_partial {m : List KV} (hs : Sorted m) (keys : List Bytes) {ts : Int}
    (hk : ∀ k ∈ keys, GoodAt m k ∧ isExpiredV (view m ts k) = false) (_hnd : keys.Nodup) :
    (delKeys m keys).2 = .int ((keys.filter (fun k => (absKV m ts k).isSome)).length : Nat) ∧
    ∀ t' k, absKV (delKeys m keys).1 t' k = if k ∈ keys then none else absKV m t' k := by
  refine ⟨?_, ?_⟩
  · simp only [delKeys]
    congr 3
    apply List.filter_congr
    intro k hkin
    obtain ⟨hg, hne⟩ := hk k hkin
    rcases hg with hn | ⟨e, u, hst⟩
    · simp [hn, absKV, view_of_none ts hn, vis]
    · obtain ⟨ver, mt, hm, hv⟩ := view_stored hst
      obtain ⟨_, ver', mt', _, hget⟩ := hst
      rw [hv ts] at hne
      simp only [isExpiredV] at hne
      simp [hget, absKV, hv ts, hne, vis]
  · intro t' k
    simp only [delKeys, absKV, view]
    rw [get_foldl_del_iff keys hs k]
    by_cases hkin : k ∈ keys <;> simp [hkin, vis]

/-! ### deviations of the unchanged tree from the spec (each excluded by `Conforms`), as witnesses -/

def wKey : Bytes := [116, 58, 97]          -- "t:a"
def wT0 : Int := 1600000000000000000
def wT1 : Int := 1600000002000000000
/-- after `SETEX t:a 1 v` at `wT0`: expired in log time at `wT1` -/
def wExpired : List KV := (kvApply [] wT0 wKey (.setex 1 [118])).1
/-- after `SET t:a 9223372036854775807` -/
def wMax : List KV := (kvApply [] wT0 wKey (.set (fmtInt 9223372036854775807))).1
/-- after `SET t:a abc` -/
def wAbc : List KV := (kvApply [] wT0 wKey (.set [97, 98, 99])).1

/-- DEL of a key that is expired in log time answers 1; the spec (and redis) answer 0 -/
theorem C08_dev_del_expired :
    (kvApply wExpired wT1 wKey .del).2 = .int 1 ∧ (specCmd .del wT1 (absKV wExpired wT1 wKey)).2 = .int 0 := by decide

/-- SETIFEQ on a key that is expired in log time ignores the expected value -/
theorem C08_dev_setifeq_expired :
    (kvApply wExpired wT1 wKey (.setifeq [120] [121] 0)).2 = .int 1 ∧
    (specCmd (.setifeq [120] [121] 0) wT1 (absKV wExpired wT1 wKey)).2 = .int 0 := by decide

/-- INCRBY wraps around int64 silently: max + 1 = min (redis: "increment or decrement would overflow") -/
theorem C08_dev_incr_wraps :
    (kvApply wMax wT1 wKey (.incrby 1)).2 = .int (-9223372036854775808) ∧
    (specCmd (.incrby 1) wT1 (absKV wMax wT1 wKey)).2 = .int 9223372036854775808 := by decide

/-- APPEND k "" and SETRANGE k 1 "" on an existing 3-byte value answer 0; redis answers the length 3 -/
theorem C08_dev_append_setrange_empty :
    (kvApply wAbc wT1 wKey (.append [])).2 = .int 0 ∧ (specCmd (.append []) wT1 (absKV wAbc wT1 wKey)).2 = .int 3 ∧
    (kvApply wAbc wT1 wKey (.setrange 1 [])).2 = .int 0 ∧ (specCmd (.setrange 1 []) wT1 (absKV wAbc wT1 wKey)).2 = .int 3 := by
  decide

/-- PERSIST on a key without expiry answers 1; redis answers 0 -/
theorem C08_dev_persist_no_ttl :
    (kvApply wAbc wT1 wKey .persist).2 = .int 1 ∧ (specCmd .persist wT1 (absKV wAbc wT1 wKey)).2 = .int 0 := by decide

/-- EXPIRE with a duration that lands on the instant 0 removes the expiry instead of the key
    (`EXPIRE k -1600000002` at second 1600000002: ExpireAt := 0 = "none"); negative instants wrap around uint32 -/
theorem C08_dev_expire_instant_zero :
    (kvApply wAbc wT1 wKey (.expire (-1600000002))).2 = .int 1 ∧
    absKV (kvApply wAbc wT1 wKey (.expire (-1600000002))).1 wT1 wKey = some ([97, 98, 99], 0) ∧
    visAt wT1 (applyS (specCmd (.expire (-1600000002)) wT1 (absKV wAbc wT1 wKey)).1 (absKV wAbc wT1 wKey)) = none ∧
    absKV (kvApply wAbc wT1 wKey (.expire (-1600000003))).1 wT1 wKey = some ([97, 98, 99], 4294967295) := by decide

/-- DEL k k counts the key twice -/
theorem C08_dev_del_repeated_key : (delKeys wAbc [wKey, wKey]).2 = .int 2 := by decide

/-- SET k v EX d with an overflowing instant is refused and leaves the key as it was (it answered OK and corrupted the
    key before the fix listed in DESIGN §0.2; general statement: `Z.Props.C10KV.C10_set_ex_overflow_rejected`) -/
theorem C08_set_ex_overflow_refused :
    kvApply wAbc 4000000000000000000 wKey (.setOpts [118] 2000000000 false false) = (wAbc, .err .expoverflow) := by
  decide


/-! ### non-vacuity: the hypotheses instantiated on concrete stores and a concrete log -/

theorem C08_aux_abc_sorted : Sorted wAbc := kvApply_sorted (m := []) trivial wT0 wKey _
theorem C08_aux_abc_good : GoodAt wAbc wKey :=
  Or.inr ⟨0, [97, 98, 99], by decide, 0, Z.Codec.be64 (Z.Codec.toU64 wT0), by decide, by decide⟩

/-- one command: APPEND d on "abc" answers what the spec answers (4) -/
example : (kvApply wAbc wT1 wKey (.append [100])).2 = (specCmd (.append [100]) wT1 (absKV wAbc wT1 wKey)).2 :=
  (C08_kv_refines_partial C08_aux_abc_sorted C08_aux_abc_good (ts := wT1) (by decide) (.append [100])
    (show ([100] : Bytes).isEmpty = false from rfl)).1
example : rdGet (view wAbc wT1 wKey) = .bulk [97, 98, 99] := by
  have h := (C08_kv_reads_refine C08_aux_abc_good (t := wT1) (by decide)).1
  rw [h]; decide

/-- a log: SET 5 ; APPEND 6 ; (2 s later) SETEX 5 s ; GETSET -/
def wLog : Log := [(wT0, wKey, .set [53]), (wT0 + 1, wKey, .append [54]), (wT1, wKey, .setex 5 [55]), (wT1 + 1, wKey, .getset [56])]

example : (runImpl wLog []).2 = (runSpec wLog (fun _ => none)).2 :=
  (C08_kv_run_from_empty wLog wT0 (by decide) ⟨by decide, by decide, by decide, by decide, trivial⟩
    ⟨trivial, rfl, trivial, trivial, trivial⟩).1
example : (runImpl wLog []).2 = [.ok, .int 2, .ok, .bulk [55]] := by decide

end Z.Props.C08KV
