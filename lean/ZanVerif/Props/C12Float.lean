/-
  C12 (float part) — the score codec of the sorted-set index: `encodeFloatToCmpUint64` / `EncodeFloat`
  are strictly monotone and injective modulo `+0.0 == -0.0` on every non-NaN float64, the score key
  `zEncodeScoreKey` orders as the tuple (key, score, member) and is injective, its range keys cut out
  exactly the intended members — and none of this holds once a NaN score is stored (witnesses).
  Property theorems over `Z.Codec`; the proofs are in `ZanVerif/Data/FloatLemmas.lean`.
  `fltBits` / `feqBits` are float `<` / `==` on IEEE bit patterns, defined without reference to the codec.
-/
import ZanVerif.Data.FloatLemmas

namespace Z.Props.C12Float
open Z.Codec

/-- **the cmp value is strictly monotone in the float order** (non-NaN float64s, both zeros, subnormals, ±Inf) -/
theorem C12_float_cmp_strict_mono (a b : Nat) (ha : NonNaN a) (hb : NonNaN b) :
    floatCmpBits a < floatCmpBits b ↔ fltBits a b := floatCmpBits_lt_iff ha hb

/-- -0.5 < -0.0, and not -0.0 < +0.0 -/
example : floatCmpBits 0xBFE0000000000000 < floatCmpBits 0x8000000000000000 ∧
    ¬ floatCmpBits 0x8000000000000000 < floatCmpBits 0 :=
  ⟨(C12_float_cmp_strict_mono _ _ (by decide) (by decide)).mpr (by decide),
   fun h => absurd ((C12_float_cmp_strict_mono _ _ (by decide) (by decide)).mp h) (by decide)⟩

/-- **the cmp value is injective modulo the sign of zero** -/
theorem C12_float_cmp_injective (a b : Nat) (ha : NonNaN a) (hb : NonNaN b) :
    floatCmpBits a = floatCmpBits b ↔ feqBits a b := floatCmpBits_eq_iff ha hb

/-- the two zeros collide (they are `==`), 1.0 and the next float up do not -/
example : floatCmpBits 0x8000000000000000 = floatCmpBits 0 ∧ floatCmpBits 0x3FF0000000000000 ≠ floatCmpBits 0x3FF0000000000001 :=
  ⟨(C12_float_cmp_injective _ _ (by decide) (by decide)).mpr (by decide),
   fun h => absurd ((C12_float_cmp_injective _ _ (by decide) (by decide)).mp h) (by decide)⟩

/-- **`EncodeFloat` bytes compare as the floats**, are 8 bytes, equal iff `==` -/
theorem C12_float_enc_order (a b : Nat) (ha : NonNaN a) (hb : NonNaN b) :
    (encFloatBits a < encFloatBits b ↔ fltBits a b) ∧ (encFloatBits a = encFloatBits b ↔ feqBits a b) ∧
      (encFloatBits a).length = 8 :=
  ⟨encFloatBits_lt_iff ha hb, encFloatBits_eq_iff ha hb, encFloatBits_length a⟩

/-- -Inf < -1.0 < 5e-324 < 1.0 < +Inf on the bytes -/
example : encFloatBits 0xFFF0000000000000 < encFloatBits 0xBFF0000000000000 ∧ encFloatBits 0xBFF0000000000000 < encFloatBits 1 ∧
    encFloatBits 1 < encFloatBits 0x3FF0000000000000 ∧ encFloatBits 0x3FF0000000000000 < encFloatBits 0x7FF0000000000000 :=
  ⟨(C12_float_enc_order _ _ (by decide) (by decide)).1.mpr (by decide),
   (C12_float_enc_order _ _ (by decide) (by decide)).1.mpr (by decide),
   (C12_float_enc_order _ _ (by decide) (by decide)).1.mpr (by decide),
   (C12_float_enc_order _ _ (by decide) (by decide)).1.mpr (by decide)⟩

/-- **the float piece inside a composite key**: first the float order, then whatever follows -/
theorem C12_float_piece_order (a b : Nat) (ha : NonNaN a) (hb : NonNaN b) (r r' : Bytes) :
    encFloatBits a ++ r < encFloatBits b ++ r' ↔ fltBits a b ∨ (feqBits a b ∧ r < r') :=
  float_piece_lt_iff ha hb r r'

/-- 1.5 with a large tail < 2.0 with a small tail; -0.0 ++ [1] < +0.0 ++ [2] by the tail only -/
example : encFloatBits 0x3FF8000000000000 ++ [0xFF] < encFloatBits 0x4000000000000000 ++ [0] ∧
    encFloatBits 0x8000000000000000 ++ [1] < encFloatBits 0 ++ [2] :=
  ⟨(C12_float_piece_order _ _ (by decide) (by decide) _ _).mpr (Or.inl (by decide)),
   (C12_float_piece_order _ _ (by decide) (by decide) _ _).mpr (Or.inr ⟨by decide, by decide⟩)⟩

/-- **`DecodeFloat ∘ EncodeFloat`** returns the score, -0.0 as +0.0 -/
theorem C12_float_roundtrip (u : Nat) (h : NonNaN u) (r : Bytes) :
    decFloatBits (encFloatBits u ++ r) = some (r, canonBits u) ∧ feqBits (canonBits u) u ∧ NonNaN (canonBits u) :=
  ⟨decFloatBits_encFloatBits h r, feqBits_canon u, canonBits_nonNaN h⟩

example : decFloatBits (encFloatBits 0xBFE0000000000000 ++ [7]) = some ([7], 0xBFE0000000000000) ∧
    decFloatBits (encFloatBits 0x8000000000000000 ++ [7]) = some ([7], 0) :=
  ⟨(C12_float_roundtrip _ (by decide) _).1, (C12_float_roundtrip _ (by decide) _).1⟩

/-- **score keys are injective**: (table, key, sep, score, scoreSep, member) is determined by the key bytes,
    the score up to `==` -/
theorem C12_zscorekey_injective (t t' k k' m m' : Bytes) (a a' : Nat) (sep sep' ssep ssep' : Int)
    (ht : t.length < 65536) (ht' : t'.length < 65536) (ha : NonNaN a) (ha' : NonNaN a')
    (hs : inI64 sep) (hs' : inI64 sep') (hss : inI64 ssep) (hss' : inI64 ssep')
    (h : zscoreKey t k m a sep ssep = zscoreKey t' k' m' a' sep' ssep') :
    t = t' ∧ k = k' ∧ sep = sep' ∧ feqBits a a' ∧ ssep = ssep' ∧ m = m' :=
  zscoreKey_inj ht ht' ha ha' hs hs' hss hss' h

/-- adversarial names: key "b:" member "c" vs key "b" member ":c", same score -/
example : zscoreKey [0x61] [0x62, 0x3a] [0x63] 0x3FF0000000000000 58 58 ≠ zscoreKey [0x61] [0x62] [0x3a, 0x63] 0x3FF0000000000000 58 58 :=
  fun h => absurd (C12_zscorekey_injective _ _ _ _ _ _ _ _ _ _ _ _ (by decide) (by decide) (by decide) (by decide)
    (by unfold inI64; decide) (by unfold inI64; decide) (by unfold inI64; decide) (by unfold inI64; decide) h).2.1 (by decide)

/-- **score keys of a table compare as the tuple** (key, sep, score, scoreSep, member), the score in float order -/
theorem C12_zscorekey_order (t k k' m m' : Bytes) (a a' : Nat) (sep sep' ssep ssep' : Int)
    (ha : NonNaN a) (ha' : NonNaN a')
    (hs : inI64 sep) (hs' : inI64 sep') (hss : inI64 ssep) (hss' : inI64 ssep') :
    zscoreKey t k m a sep ssep < zscoreKey t k' m' a' sep' ssep' ↔
      k < k' ∨ (k = k' ∧ (sep < sep' ∨ (sep = sep' ∧ (fltBits a a' ∨
        (feqBits a a' ∧ (ssep < ssep' ∨ (ssep = ssep' ∧ m < m'))))))) :=
  zscoreKey_lt_iff t k k' m m' ha ha' hs hs' hss hss'

/-- member "zz" at -1.0 sorts before member "a" at 5e-324; equal scores (±0) fall back to the member -/
example : zscoreKey [0x74] [0x6b] [0x7a, 0x7a] 0xBFF0000000000000 58 58 < zscoreKey [0x74] [0x6b] [0x61] 1 58 58 ∧
    zscoreKey [0x74] [0x6b] [0x61] 0x8000000000000000 58 58 < zscoreKey [0x74] [0x6b] [0x62] 0 58 58 :=
  ⟨(C12_zscorekey_order _ _ _ _ _ _ _ _ _ _ _ (by decide) (by decide) (by unfold inI64; decide) (by unfold inI64; decide)
      (by unfold inI64; decide) (by unfold inI64; decide)).mpr (Or.inr ⟨rfl, Or.inr ⟨rfl, Or.inl (by decide)⟩⟩),
   (C12_zscorekey_order _ _ _ _ _ _ _ _ _ _ _ (by decide) (by decide) (by unfold inI64; decide) (by unfold inI64; decide)
      (by unfold inI64; decide) (by unfold inI64; decide)).mpr
      (Or.inr ⟨rfl, Or.inr ⟨rfl, Or.inr ⟨by decide, Or.inr ⟨rfl, by decide⟩⟩⟩⟩)⟩

/-- **one sorted set**: its score keys sort by (score, member) and determine (member, score up to `==`) -/
theorem C12_zset_index_order (t k m m' : Bytes) (a b : Nat) (ht : t.length < 65536) (ha : NonNaN a) (hb : NonNaN b) :
    (zScoreK t k m a < zScoreK t k m' b ↔ fltBits a b ∨ (feqBits a b ∧ m < m')) ∧
    (zScoreK t k m a = zScoreK t k m' b ↔ m = m' ∧ feqBits a b) :=
  ⟨zScoreK_lt_iff t k m m' ha hb, zScoreK_eq_iff ht ha hb⟩

example : zScoreK [0x74] [0x6b] [0x62] 0x3FF0000000000000 < zScoreK [0x74] [0x6b] [0x61] 0x3FF8000000000000 :=
  (C12_zset_index_order _ _ _ _ _ _ (by decide) (by decide) (by decide)).1.mpr (Or.inl (by decide))

/-- **index range exactness** for the whole set: every member's score key is strictly inside
    `(zEncodeStartKey, zEncodeStopKey)`, no score key of another key of the table is -/
theorem C12_zset_index_range (t k k' m : Bytes) (a : Nat) (ha : NonNaN a) :
    (zIdxStart t k < zScoreK t k m a ∧ zScoreK t k m a < zIdxStop t k) ∧
    (k ≠ k' → ¬ (zIdxStart t k ≤ zScoreK t k' m a ∧ zScoreK t k' m a ≤ zIdxStop t k)) :=
  ⟨zScoreK_in_idx t k m ha, zScoreK_not_in_idx t k k' m ha⟩

/-- key "k" vs key "k\x00": a prefix-extension is outside the range -/
example : ¬ (zIdxStart [0x74] [0x6b] ≤ zScoreK [0x74] [0x6b, 0] [0x61] 0xFFF0000000000000 ∧
    zScoreK [0x74] [0x6b, 0] [0x61] 0xFFF0000000000000 ≤ zIdxStop [0x74] [0x6b]) :=
  (C12_zset_index_range _ _ _ _ _ (by decide)).2 (by decide)

/-- **score range exactness** (ZRANGEBYSCORE / ZCOUNT / ZREMRANGEBYSCORE with inclusive bounds): the byte range
    `[zEncodeStartScoreKey lo, zEncodeStopScoreKey hi]` holds exactly the members with `lo ≤ score ≤ hi`,
    and lies inside the set's index range -/
theorem C12_zset_score_range (t k m : Bytes) (a lo hi : Nat) (ha : NonNaN a) (hlo : NonNaN lo) (hhi : NonNaN hi) :
    ((zScoreLo t k lo ≤ zScoreK t k m a ∧ zScoreK t k m a ≤ zScoreHi t k hi) ↔ (¬ fltBits a lo ∧ ¬ fltBits hi a)) ∧
    zIdxStart t k < zScoreLo t k lo ∧ zScoreHi t k hi < zIdxStop t k :=
  ⟨zScoreK_in_score_range t k m ha hlo hhi, zScoreLo_gt_idxStart t k hlo.1, zScoreHi_lt_idxStop t k hhi.1⟩

/-- -0.0 is in [+0.0, 1.0]; 1.0 is in [-Inf, 1.0] (inclusive stop, any member name); 1.5 is not in [-Inf, 1.0] -/
example : (zScoreLo [0x74] [0x6b] 0 ≤ zScoreK [0x74] [0x6b] [0x61] 0x8000000000000000 ∧
      zScoreK [0x74] [0x6b] [0x61] 0x8000000000000000 ≤ zScoreHi [0x74] [0x6b] 0x3FF0000000000000) ∧
    (zScoreLo [0x74] [0x6b] 0xFFF0000000000000 ≤ zScoreK [0x74] [0x6b] [0xFF, 0xFF] 0x3FF0000000000000 ∧
      zScoreK [0x74] [0x6b] [0xFF, 0xFF] 0x3FF0000000000000 ≤ zScoreHi [0x74] [0x6b] 0x3FF0000000000000) ∧
    ¬ (zScoreLo [0x74] [0x6b] 0xFFF0000000000000 ≤ zScoreK [0x74] [0x6b] [] 0x3FF8000000000000 ∧
      zScoreK [0x74] [0x6b] [] 0x3FF8000000000000 ≤ zScoreHi [0x74] [0x6b] 0x3FF0000000000000) :=
  ⟨(C12_zset_score_range _ _ _ _ _ _ (by decide) (by decide) (by decide)).1.mpr (by decide),
   (C12_zset_score_range _ _ _ _ _ _ (by decide) (by decide) (by decide)).1.mpr (by decide),
   fun h => absurd ((C12_zset_score_range _ _ _ _ _ _ (by decide) (by decide) (by decide)).1.mp h) (by decide)⟩

/-- every non-NaN member is in the full score range `[-Inf, +Inf]` -/
theorem C12_zset_full_score_range (t k m : Bytes) (a : Nat) (ha : NonNaN a) :
    zScoreLo t k negInfBits ≤ zScoreK t k m a ∧ zScoreK t k m a ≤ zScoreHi t k posInfBits :=
  zScoreK_in_full_score_range t k m ha

example : zScoreLo [0x74] [0x6b] 0xFFF0000000000000 ≤ zScoreK [0x74] [0x6b] [0x61] 0xFFF0000000000000 ∧
    zScoreK [0x74] [0x6b] [0x61] 0xFFF0000000000000 ≤ zScoreHi [0x74] [0x6b] 0x7FF0000000000000 :=
  C12_zset_full_score_range _ _ _ _ (by decide)

/-! ### NaN: the hypotheses `NonNaN` above are necessary (known-finding witnesses) -/

/-- **NaN collides**: Go's `math.NaN()` has the cmp value — hence, for one member name, the score key — of the
    positive subnormal 0x0007FFFFFFFFFFFE; the two are not `==` -/
theorem C12_float_nan_collides :
    floatCmpBits 0x7FF8000000000001 = floatCmpBits 0x0007FFFFFFFFFFFE ∧ ¬ feqBits 0x7FF8000000000001 0x0007FFFFFFFFFFFE ∧
    NonNaN 0x0007FFFFFFFFFFFE ∧ ¬ NonNaN 0x7FF8000000000001 ∧
    ∀ t k m, zScoreK t k m 0x7FF8000000000001 = zScoreK t k m 0x0007FFFFFFFFFFFE :=
  ⟨nan_collides_subnormal, by decide, by decide, by decide, nan_key_collides⟩

example : zScoreK [0x74] [0x6b] [0x61] 0x7FF8000000000001 = zScoreK [0x74] [0x6b] [0x61] 0x0007FFFFFFFFFFFE :=
  C12_float_nan_collides.2.2.2.2 _ _ _

/-- **NaN sorts outside the score range**: the x86 default NaN (`+Inf + -Inf`) gets a cmp value below that of
    every real score; its score key is below the `-Inf` start key (invisible to ZRANGEBYSCORE -inf +inf)
    but inside the set's index range (counted / ranked / deleted by whole-set iteration) -/
theorem C12_float_nan_out_of_range (t k m : Bytes) :
    (∀ u, NonNaN u → floatCmpBits 0xFFF8000000000000 < floatCmpBits u) ∧
    zScoreK t k m 0xFFF8000000000000 < zScoreLo t k negInfBits ∧
    zIdxStart t k < zScoreK t k m 0xFFF8000000000000 ∧ zScoreK t k m 0xFFF8000000000000 < zIdxStop t k :=
  ⟨fun _ h => x86nan_below_all h, x86nan_key_below_negInf t k m, x86nan_key_in_idx t k m⟩

example : ¬ (zScoreLo [0x74] [0x6b] negInfBits ≤ zScoreK [0x74] [0x6b] [0x61] 0xFFF8000000000000) :=
  List.not_le.mpr (C12_float_nan_out_of_range _ _ _).2.1

#print axioms C12_float_cmp_strict_mono
#print axioms C12_float_cmp_injective
#print axioms C12_float_enc_order
#print axioms C12_float_piece_order
#print axioms C12_float_roundtrip
#print axioms C12_zscorekey_injective
#print axioms C12_zscorekey_order
#print axioms C12_zset_index_order
#print axioms C12_zset_index_range
#print axioms C12_zset_score_range
#print axioms C12_zset_full_score_range
#print axioms C12_float_nan_collides
#print axioms C12_float_nan_out_of_range

end Z.Props.C12Float
