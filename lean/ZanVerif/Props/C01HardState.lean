/-
  C01 — a vote is durable before it is released.  The Ready contract (persist the hard state, then send) protects a vote only if
  the Ready that carries the vote message also carries the changed hard state and demands a sync.  Over the regenerated
  `isHardStateEqual`, `MustSync` and the pinned hand-out in `newReady` (Gen/HardState.lean): whenever the vote (or the term)
  differs from the previous hard state, the Ready hands the hard state out and MustSync is true — whatever term and commit are.
  (Seeded changes C01-m1 / C01-m4 drop the hard state when ONLY the vote changed.)
-/
import ZanVerif.Gen.HardState

namespace Z.Props.C01HardState

/-- does the Ready carry the hard state -/
def carries (t v c pt pv pc : Int) : Bool := !(Gen.hardStateEqual t v c pt pv pc)

/-- **a changed vote is always handed out for persistence, with MustSync** — also when term and commit did not move -/
theorem C01_changed_vote_is_persisted (t v c pt pv pc ents : Int) (h : v ≠ pv) :
    carries t v c pt pv pc = true ∧ Gen.mustSync ents v pv t pt = true := by
  unfold carries Gen.hardStateEqual Gen.mustSync
  constructor
  · simp [h]
  · simp [h]

/-- the same for a changed term, and entries always demand a sync -/
theorem C01_changed_term_is_persisted (t v c pt pv pc ents : Int) (h : t ≠ pt) :
    carries t v c pt pv pc = true ∧ Gen.mustSync ents v pv t pt = true := by
  unfold carries Gen.hardStateEqual Gen.mustSync
  constructor <;> simp [h]

theorem C01_entries_demand_sync (v pv t pt ents : Int) (h : ents ≠ 0) : Gen.mustSync ents v pv t pt = true := by
  unfold Gen.mustSync; simp [h]

/-- nothing changed: nothing is handed out (no spurious hard-state writes) -/
theorem C01_unchanged_not_carried (t v c : Int) : carries t v c t v c = false := by
  unfold carries Gen.hardStateEqual; simp

/-- the shape of the seeded change: comparing term and commit only would drop a vote cast without a term change
    (term 3, vote 0 → 2, commit 2 unchanged) -/
theorem C01_vote_only_witness :
    carries 3 2 2 3 0 2 = true ∧ (!(decide ((3 : Int) = 3) && decide ((2 : Int) = 2))) = false := by decide

example : carries 3 2 2 3 0 2 = true ∧ Gen.mustSync 0 2 0 3 3 = true := C01_changed_vote_is_persisted 3 2 2 3 0 2 0 (by decide)
example : Gen.readyCarriesChangedHardState = true := rfl

end Z.Props.C01HardState
