/-
  C10 — unexpired data is never removed: the background compaction filter of the value-header policy
  (rockredis.go `rockCompactFilter.Filter` / `lazyExpireCheck`), over the executable model `Z.CFilter` that the
  `cfilter` certificate runs check verdict by verdict against the real filter on real stores.

  The decision expressions are the ones REGENERATED from the source (Gen/CFilter.lean) with Go's fixed-width
  arithmetic made explicit (`Gen.cfI64`, `Gen.cfU32`: every arithmetic result / conversion wraps to the width of its
  Go type).  The statements below use plain integers and the literal constants 1500000000 (minExpiredPossible),
  172800 s = 48 h (lazyCleanExpired): a changed comparison, guard, constant, or an expression computed in a type
  in which it can wrap makes a proof fail.

  Clocks: `tc` = the filter's cached clock as the sub-key branch reads it, `ts` = the clock `lazyExpireCheck` uses
  (seconds); `now` = a nanosecond clock that is at most 48 h behind `ts` (`(ts - 172800) * 10^9 ≤ now`): the wall clock of
  a reader (the cached clock never runs ahead of it) or the log timestamp of a write that is applied later.
  "Expired at `now`" is the REGENERATED read/write-path rule `Gen.isExpired` (t_ttl_compact.go).
-/
import ZanVerif.Data.CFilter
import ZanVerif.Data.HeaderLemmas

namespace Z.Props.C10Filter
open Z.CFilter Z.Header Z.Codec
open Z.Ref (KV get)

/-! ### auxiliary facts -/

/-- no wrap inside the int64 range -/
theorem C10_aux_i64_id {x : Int} (h1 : -9223372036854775808 ≤ x) (h2 : x < 9223372036854775808) : Gen.cfI64 x = x := by
  unfold Gen.cfI64; split <;> omega

/-- the expiry second of a decoded header is a uint32 -/
theorem C10_aux_decode_u32 {v : Bytes} {h : Hdr} (hd : decode v = .ok h) : h.expireAt < 4294967296 := by
  unfold decode at hd
  split at hd
  · cases hd
  · split at hd
    · cases hd
    · cases hd
      have h1 := fromBE_lt ((v.drop 1).take 4)
      have h2 : ((v.drop 1).take 4).length ≤ 4 := by simp [List.length_take]; omega
      have h3 : 256 ^ ((v.drop 1).take 4).length ≤ 256 ^ 4 := Nat.pow_le_pow_right (by decide) h2
      show fromBE ((v.drop 1).take 4) < 4294967296
      omega

/-- `lazyExpireCheck` in closed form: removed ⇔ the expiry second is a plausible instant (> 1500000000) that lies more
    than 48 h before the clock.  `e < 2^32` (the field is a uint32) is the only size hypothesis: it is what keeps the
    deadline `e + 172800` from wrapping in the type the source computes it in. -/
theorem C10_aux_lazy_exact (e ts : Int) (h0 : 0 ≤ e) (h32 : e < 4294967296) :
    lazyExpire e ts = true ↔ (1500000000 < e ∧ e + 172800 < ts) := by
  have hk : Gen.cfI64 (Int.tdiv Gen.cfLazyCleanExpired (Gen.cfI64 (1000000000 : Int))) = 172800 := by decide
  have hX : Gen.cfLongExpired e ts = decide (e + 172800 < ts) := by
    unfold Gen.cfLongExpired
    rw [hk, C10_aux_i64_id (x := e) (by omega) (by omega), C10_aux_i64_id (x := e + 172800) (by omega) (by omega)]
  unfold lazyExpire
  rw [hX]
  unfold Gen.cfNoExpiry Gen.cfTooSmall Gen.cfMinExpiredPossible
  by_cases h1 : e = 0
  · simp [h1]
  · by_cases h2 : e ≤ 1500000000
    · simp [h1, h2]; omega
    · simp [h1, h2]; omega

/-- what "expired long ago" means for the read / write paths: expired at every clock `now` (ns) that is at most 48 h
    BEHIND the filter's clock — the local wall clock of a reader, and the log timestamp of a write a replica still has
    to apply (the grace period is the replay lag the policy tolerates) -/
theorem C10_aux_long_expired_is_expired (e : Nat) (ts now : Int) (he : e ≠ 0) (hl : (e : Int) + 172800 < ts)
    (hnow : (ts - 172800) * 1000000000 ≤ now) : Gen.isExpired (e : Int) now = true := by
  have hpos : 0 < now := by omega
  have hh : isExpired ⟨e, 0, none⟩ now = Gen.isExpired (e : Int) now := rfl
  rw [← hh, isExpired_iff _ now hpos]
  refine ⟨he, ?_⟩
  have : ts - 172800 ≤ now / 1000000000 := by
    have := Int.ediv_le_ediv (show (0 : Int) < 1000000000 by decide) hnow
    rwa [Int.mul_ediv_cancel _ (show (1000000000 : Int) ≠ 0 by decide)] at this
  show (e : Int) ≤ now / 1000000000
  omega

/-- the three tests of the sub-key case that compare generations are exactly: "no generation", "meta without
    generation", "another generation" -/
theorem C10_aux_verzero_iff (ver : Int) : Gen.cfVerZero ver = true ↔ ver = 0 := by
  unfold Gen.cfVerZero; simp
theorem C10_aux_metanover_iff (hver : Int) : Gen.cfMetaNoVer hver = true ↔ hver = 0 := by
  unfold Gen.cfMetaNoVer; simp
theorem C10_aux_mismatch_iff (hver ver : Int) : Gen.cfVerMismatch hver ver = true ↔ hver ≠ ver := by
  unfold Gen.cfVerMismatch; simp

/-- the generation guard in closed form (generation and cached clock inside the range in which the source's int64
    arithmetic does not wrap): young ⇔ generation + 48 h (in ns) is not before the cached clock -/
theorem C10_aux_young_exact (ver tc : Int)
    (hv1 : -9223372036854775808 ≤ ver) (hv2 : ver + 172800000000000 < 9223372036854775808)
    (hc1 : 0 ≤ tc) (hc2 : tc * 1000000000 < 9223372036854775808) :
    Gen.cfYoungGen ver tc = decide (ver + 172800000000000 ≥ tc * 1000000000) := by
  have hk : Gen.cfI64 (1000000000 : Int) = 1000000000 := by decide
  unfold Gen.cfYoungGen Gen.cfLazyCleanExpired
  rw [hk, C10_aux_i64_id (x := ver) (by omega) (by omega), C10_aux_i64_id (x := ver + 172800000000000) (by omega) (by omega),
    C10_aux_i64_id (x := tc * 1000000000) (by omega) (by omega)]

/-- the three arms of the `switch` -/
theorem C10_aux_D_value {t : UInt8} (h : Gen.cfValueTypes.contains t = true) (m : List KV) (k value : Bytes) (tc ts : Int) :
    filterD m (t :: k) value tc ts = .ok (filterValue value ts) := by
  show (if Gen.cfValueTypes.contains t = true then _ else _) = _
  rw [if_pos h]

theorem C10_aux_D_sub {t : UInt8} (h1 : Gen.cfValueTypes.contains t = false) (h2 : Gen.cfSubKeyTypes.contains t = true)
    (m : List KV) (k value : Bytes) (tc ts : Int) :
    filterD m (t :: k) value tc ts = subVerdict (subInfo m (t :: k)) tc ts := by
  show (if Gen.cfValueTypes.contains t = true then _ else (if Gen.cfSubKeyTypes.contains t = true then _ else _)) = _
  rw [if_neg (by rw [h1]; exact Bool.false_ne_true), if_pos h2]

theorem C10_aux_D_other {t : UInt8} (h1 : Gen.cfValueTypes.contains t = false) (h2 : Gen.cfSubKeyTypes.contains t = false)
    (m : List KV) (k value : Bytes) (tc ts : Int) : filterD m (t :: k) value tc ts = .ok false := by
  show (if Gen.cfValueTypes.contains t = true then _ else (if Gen.cfSubKeyTypes.contains t = true then _ else _)) = _
  rw [if_neg (by rw [h1]; exact Bool.false_ne_true), if_neg (by rw [h2]; exact Bool.false_ne_true)]

/-! ### (a) value-type entries: KV values and collection metas -/

/-- **unexpired data is never removed** (value types).  If the filter removes an entry whose key type is one of the
    value types of the `switch`, then its value carries a header with an expiry second `e` such that
    `e ≠ 0`, `1500000000 < e` and `e + 172800 < ts`; hence the value is expired, by the rule the read and write paths
    use, at every clock `now` that is not more than 48 h behind the filter's clock (in particular at every clock that is
    not behind it: the cached clock never runs ahead of the wall clock). -/
theorem C10_filter_value_safe (m : List KV) (t : UInt8) (k value : Bytes) (tc ts : Int)
    (hty : Gen.cfValueTypes.contains t = true) (hdrop : drops m (t :: k) value tc ts) :
    ∃ h, decode value = .ok h ∧ h.expireAt ≠ 0 ∧ 1500000000 < h.expireAt ∧ (h.expireAt : Int) + 172800 < ts ∧
      ∀ now : Int, (ts - 172800) * 1000000000 ≤ now → Gen.isExpired (h.expireAt : Int) now = true := by
  unfold drops at hdrop
  rw [C10_aux_D_value hty] at hdrop
  unfold filterValue at hdrop
  cases hd : decode value with
  | err e => rw [hd] at hdrop; simp at hdrop
  | ok h =>
    rw [hd] at hdrop
    simp only [Dec.ok.injEq] at hdrop
    have hx := (C10_aux_lazy_exact (h.expireAt : Int) ts (by omega) (by have := C10_aux_decode_u32 hd; omega)).mp hdrop
    have hne : h.expireAt ≠ 0 := by omega
    exact ⟨h, rfl, hne, by omega, hx.2, fun now hnow => C10_aux_long_expired_is_expired h.expireAt ts now hne hx.2 hnow⟩

/-- contrapositive, as the property reads: a value that is NOT expired at `now` is kept by every run of the filter
    whose clock is at most 48 h ahead of `now` -/
theorem C10_filter_live_value_kept (m : List KV) (t : UInt8) (k value : Bytes) (tc ts now : Int) (h : Hdr)
    (hty : Gen.cfValueTypes.contains t = true) (hd : decode value = .ok h)
    (hlive : Gen.isExpired (h.expireAt : Int) now = false) (hnow : (ts - 172800) * 1000000000 ≤ now) :
    ¬ drops m (t :: k) value tc ts := by
  intro hdrop
  obtain ⟨h', hd', _, _, _, hex⟩ := C10_filter_value_safe m t k value tc ts hty hdrop
  rw [hd] at hd'
  cases hd'
  rw [hex now hnow] at hlive
  cases hlive

/-! ### (b) collection sub-key entries -/

/-- the sub-key case behind the decoders: removed only if the collection's meta is absent, or belongs to another
    generation, or expired more than 48 h before the clock -/
theorem C10_aux_sub_safe (ver : Int) (mv : Option Bytes) (tc ts : Int) (hdrop : filterSub ver mv tc ts = true) :
    mv = none ∨ ∃ v h, mv = some v ∧ decode v = .ok h ∧
      (h.ver ≠ ver ∨ (h.expireAt ≠ 0 ∧ (h.expireAt : Int) + 172800 < ts)) := by
  unfold filterSub at hdrop
  split at hdrop
  · cases hdrop
  · split at hdrop
    · cases hdrop
    · cases mv with
      | none => exact Or.inl rfl
      | some v =>
        right
        simp only at hdrop
        cases hd : decode v with
        | err e => rw [hd] at hdrop; cases hdrop
        | ok h =>
          rw [hd] at hdrop
          simp only at hdrop
          refine ⟨v, h, rfl, hd, ?_⟩
          split at hdrop
          · cases hdrop
          · split at hdrop
            · rename_i hm
              exact Or.inl ((C10_aux_mismatch_iff _ _).mp hm)
            · right
              have hx := (C10_aux_lazy_exact (h.expireAt : Int) ts (by omega) (by have := C10_aux_decode_u32 hd; omega)).mp hdrop
              exact ⟨by omega, hx.2⟩

/-- **unexpired data is never removed** (collection members).  If the filter removes an entry whose key type is one of
    the sub-key types of the `switch`, then the key decodes to a collection `(dt, raw)` and a generation `ver`, and the
    collection's meta — looked up in the store under the meta key of its type — is absent, or carries another
    generation, or is expired at every clock `now` that is not more than 48 h behind the filter's clock. -/
theorem C10_filter_subkey_safe (m : List KV) (t : UInt8) (k value : Bytes) (tc ts : Int)
    (hnv : Gen.cfValueTypes.contains t = false) (hty : Gen.cfSubKeyTypes.contains t = true)
    (hdrop : drops m (t :: k) value tc ts) :
    ∃ dt raw ver mk, convertKey (t :: k) = .ok (dt, raw, ver) ∧ metaKeyOf dt raw = some mk ∧
      (get m mk = none ∨ ∃ v h, get m mk = some v ∧ decode v = .ok h ∧
        (h.ver ≠ ver ∨ (h.expireAt ≠ 0 ∧ (h.expireAt : Int) + 172800 < ts ∧
          ∀ now : Int, (ts - 172800) * 1000000000 ≤ now → Gen.isExpired (h.expireAt : Int) now = true))) := by
  unfold drops at hdrop
  rw [C10_aux_D_sub hnv hty] at hdrop
  unfold subVerdict subInfo at hdrop
  cases hc : convertKey (t :: k) with
  | err => rw [hc] at hdrop; simp at hdrop
  | panic => rw [hc] at hdrop; simp at hdrop
  | ok x =>
    obtain ⟨dt, raw, ver⟩ := x
    rw [hc] at hdrop
    simp only at hdrop
    cases hm : metaKeyOf dt raw with
    | none => rw [hm] at hdrop; simp at hdrop
    | some mk =>
      rw [hm] at hdrop
      simp only [Dec.ok.injEq] at hdrop
      refine ⟨dt, raw, ver, mk, rfl, hm, ?_⟩
      rcases C10_aux_sub_safe ver (get m mk) tc ts hdrop with h0 | ⟨v, h, hv, hd, hh⟩
      · exact Or.inl h0
      · right
        refine ⟨v, h, hv, hd, ?_⟩
        rcases hh with hh | ⟨he, hl⟩
        · exact Or.inl hh
        · exact Or.inr ⟨he, hl, fun now hnow => C10_aux_long_expired_is_expired h.expireAt ts now he hl hnow⟩

/-- contrapositive: a member of the CURRENT generation of a collection that is not expired at `now` is kept by every
    run of the filter whose clock is at most 48 h ahead of `now` -/
theorem C10_filter_live_subkey_kept (m : List KV) (t : UInt8) (k value : Bytes) (tc ts now : Int)
    (dt : UInt8) (raw mk v : Bytes) (ver : Int) (h : Hdr)
    (hnv : Gen.cfValueTypes.contains t = false) (hty : Gen.cfSubKeyTypes.contains t = true)
    (hc : convertKey (t :: k) = .ok (dt, raw, ver)) (hm : metaKeyOf dt raw = some mk)
    (hg : get m mk = some v) (hd : decode v = .ok h) (hcur : h.ver = ver)
    (hlive : Gen.isExpired (h.expireAt : Int) now = false) (hnow : (ts - 172800) * 1000000000 ≤ now) :
    ¬ drops m (t :: k) value tc ts := by
  intro hdrop
  obtain ⟨dt', raw', ver', mk', hc', hm', hh⟩ := C10_filter_subkey_safe m t k value tc ts hnv hty hdrop
  rw [hc] at hc'
  cases hc'
  rw [hm] at hm'
  cases hm'
  rcases hh with h0 | ⟨v', h', hv', hd', hh⟩
  · rw [hg] at h0; cases h0
  · rw [hg] at hv'
    cases hv'
    rw [hd] at hd'
    cases hd'
    rcases hh with hne | ⟨_, _, hex⟩
    · exact hne hcur
    · rw [hex now hnow] at hlive
      cases hlive

/-- entries of every other key type (table metas, indexes, the time index, JSON, …), entries with an empty key,
    entries whose header or sub-key does not decode are never removed -/
theorem C10_filter_other_kept (m : List KV) (key value : Bytes) (tc ts : Int) :
    (key = [] → ¬ drops m key value tc ts) ∧
    (∀ t k, key = t :: k → Gen.cfValueTypes.contains t = false → Gen.cfSubKeyTypes.contains t = false → ¬ drops m key value tc ts) ∧
    (∀ t k e, key = t :: k → Gen.cfValueTypes.contains t = true → decode value = .err e → ¬ drops m key value tc ts) ∧
    (∀ t k, key = t :: k → Gen.cfValueTypes.contains t = false → convertKey key = .err → ¬ drops m key value tc ts) := by
  refine ⟨?_, ?_, ?_, ?_⟩
  · intro hk hd; subst hk; unfold drops filterD at hd; simp at hd
  · intro t k hk h1 h2 hd; subst hk; unfold drops at hd; rw [C10_aux_D_other h1 h2] at hd; simp at hd
  · intro t k e hk h1 he hd; subst hk; unfold drops at hd; rw [C10_aux_D_value h1] at hd; unfold filterValue at hd; rw [he] at hd; simp at hd
  · intro t k hk h1 hc hd
    subst hk
    unfold drops at hd
    cases h2 : Gen.cfSubKeyTypes.contains t with
    | false => rw [C10_aux_D_other h1 h2] at hd; simp at hd
    | true => rw [C10_aux_D_sub h1 h2] at hd; unfold subVerdict subInfo at hd; rw [hc] at hd; simp at hd

/-! ### (c) monotonicity in the clock -/

/-- once removable, removable at every later clock (same store): the filter never "un-expires" an entry.
    Size hypothesis: the later cached clock times 10^9 fits an int64 (clocks before the year 2262). -/
theorem C10_filter_monotone (m : List KV) (key value : Bytes) (tc ts tc' ts' : Int)
    (h0 : 0 ≤ tc) (hcc : tc ≤ tc') (hss : ts ≤ ts') (hfit : tc' * 1000000000 < 9223372036854775808)
    (hdrop : drops m key value tc ts) : drops m key value tc' ts' := by
  have hk : Gen.cfI64 (1000000000 : Int) = 1000000000 := by decide
  have hlazy : ∀ e : Int, lazyExpire e ts = true → lazyExpire e ts' = true := by
    intro e he
    unfold lazyExpire at he ⊢
    split at he
    · cases he
    · rename_i h1
      split at he
      · cases he
      · rename_i h2
        simp only [h1, h2, if_false, Bool.false_eq_true]
        unfold Gen.cfLongExpired at he ⊢
        simp only [decide_eq_true_eq] at he ⊢
        omega
  have hyoung : ∀ ver : Int, Gen.cfYoungGen ver tc = false → Gen.cfYoungGen ver tc' = false := by
    intro ver hy
    unfold Gen.cfYoungGen at hy ⊢
    rw [hk] at hy ⊢
    rw [C10_aux_i64_id (x := tc * 1000000000) (by omega) (by omega)] at hy
    rw [C10_aux_i64_id (x := tc' * 1000000000) (by omega) (by omega)]
    simp only [decide_eq_false_iff_not] at hy ⊢
    omega
  have hsub : ∀ ver mv, filterSub ver mv tc ts = true → filterSub ver mv tc' ts' = true := by
    intro ver mv hs
    unfold filterSub at hs ⊢
    split at hs
    · cases hs
    · rename_i h1
      split at hs
      · cases hs
      · rename_i h2
        have h2' : Gen.cfYoungGen ver tc' = false := hyoung ver (by simpa using h2)
        simp only [h1, h2', if_false, Bool.false_eq_true]
        cases mv with
        | none => rfl
        | some v =>
          simp only at hs ⊢
          cases hd : decode v with
          | err e => rw [hd] at hs; cases hs
          | ok h =>
            rw [hd] at hs
            simp only at hs ⊢
            split at hs
            · cases hs
            · rename_i h3
              split at hs
              · rename_i h4
                simp [h3, h4]
              · rename_i h4
                simp only [h3, h4, if_false, Bool.false_eq_true]
                exact hlazy _ hs
  unfold drops at hdrop ⊢
  cases key with
  | nil => unfold filterD at hdrop; simp at hdrop
  | cons t k =>
    cases h1 : Gen.cfValueTypes.contains t with
    | true =>
      rw [C10_aux_D_value h1] at hdrop ⊢
      simp only [Dec.ok.injEq] at hdrop ⊢
      unfold filterValue at hdrop ⊢
      cases hd : decode value with
      | err e => rw [hd] at hdrop; cases hdrop
      | ok h => rw [hd] at hdrop; exact hlazy _ hdrop
    | false =>
      cases h2 : Gen.cfSubKeyTypes.contains t with
      | false => rw [C10_aux_D_other h1 h2] at hdrop; simp at hdrop
      | true =>
        rw [C10_aux_D_sub h1 h2] at hdrop ⊢
        unfold subVerdict at hdrop ⊢
        cases hi : subInfo m (t :: k) with
        | err => rw [hi] at hdrop; simp at hdrop
        | panic => rw [hi] at hdrop; simp at hdrop
        | ok o =>
          rw [hi] at hdrop
          cases o with
          | none => simp at hdrop
          | some p =>
            obtain ⟨ver, mv⟩ := p
            simp only [Dec.ok.injEq] at hdrop ⊢
            exact hsub ver mv hdrop

/-! ### exact decisions: lazy removal does happen, and only long after expiry / for old generations -/

/-- the part of the sub-key case that looks at a decoded meta header -/
theorem C10_aux_meta_exact (ver : Int) (v : Bytes) (h : Hdr) (ts : Int) (hd : decode v = .ok h) :
    (if Gen.cfMetaNoVer h.ver then false else if Gen.cfVerMismatch h.ver ver then true else lazyExpire (h.expireAt : Int) ts) = true ↔
      (h.ver ≠ 0 ∧ (h.ver ≠ ver ∨ (1500000000 < (h.expireAt : Int) ∧ (h.expireAt : Int) + 172800 < ts))) := by
  have hl := C10_aux_lazy_exact (h.expireAt : Int) ts (by omega) (by have := C10_aux_decode_u32 hd; omega)
  by_cases h3 : h.ver = 0
  · have hz : Gen.cfMetaNoVer h.ver = true := (C10_aux_metanover_iff _).mpr h3
    rw [if_pos hz]
    constructor
    · intro hh; cases hh
    · rintro ⟨hne, _⟩; exact absurd h3 hne
  · have hz : ¬ (Gen.cfMetaNoVer h.ver = true) := fun hh => h3 ((C10_aux_metanover_iff _).mp hh)
    rw [if_neg hz]
    by_cases h4 : h.ver = ver
    · have hm : ¬ (Gen.cfVerMismatch h.ver ver = true) := fun hh => (C10_aux_mismatch_iff _ _).mp hh h4
      rw [if_neg hm, hl]
      constructor
      · intro hh; exact ⟨h3, Or.inr hh⟩
      · rintro ⟨_, hne | hh⟩
        · exact absurd h4 hne
        · exact hh
    · have hm : Gen.cfVerMismatch h.ver ver = true := (C10_aux_mismatch_iff _ _).mpr h4
      rw [if_pos hm]
      exact ⟨fun _ => ⟨h3, Or.inl h4⟩, fun _ => rfl⟩

/-- the sub-key case in closed form (generation and cached clock inside the range in which the source's int64
    arithmetic does not wrap): removed ⇔ the generation is set and older than 48 h, and the meta is absent, or carries
    another (non-zero) generation, or is a plausible instant that lies more than 48 h before the clock -/
theorem C10_filter_subkey_exact (ver : Int) (mv : Option Bytes) (tc ts : Int)
    (hv1 : -9223372036854775808 ≤ ver) (hv2 : ver + 172800000000000 < 9223372036854775808)
    (hc1 : 0 ≤ tc) (hc2 : tc * 1000000000 < 9223372036854775808) :
    filterSub ver mv tc ts = true ↔
      (ver ≠ 0 ∧ ver + 172800000000000 < tc * 1000000000 ∧
        (mv = none ∨ ∃ v h, mv = some v ∧ decode v = .ok h ∧ h.ver ≠ 0 ∧
          (h.ver ≠ ver ∨ (1500000000 < (h.expireAt : Int) ∧ (h.expireAt : Int) + 172800 < ts)))) := by
  have hy := C10_aux_young_exact ver tc hv1 hv2 hc1 hc2
  unfold filterSub
  rw [hy]
  by_cases h1 : ver = 0
  · have hz : Gen.cfVerZero ver = true := (C10_aux_verzero_iff _).mpr h1
    rw [if_pos hz]
    constructor
    · intro hh; cases hh
    · rintro ⟨hne, _⟩; exact absurd h1 hne
  · have hz : ¬ (Gen.cfVerZero ver = true) := fun hh => h1 ((C10_aux_verzero_iff _).mp hh)
    rw [if_neg hz]
    by_cases h2 : ver + 172800000000000 ≥ tc * 1000000000
    · rw [if_pos (decide_eq_true h2)]
      constructor
      · intro hh; cases hh
      · rintro ⟨_, hlt, _⟩; omega
    · rw [if_neg (by rw [decide_eq_true_eq]; exact h2)]
      have h2' : ver + 172800000000000 < tc * 1000000000 := by omega
      cases mv with
      | none => exact ⟨fun _ => ⟨h1, h2', Or.inl rfl⟩, fun _ => rfl⟩
      | some v =>
        cases hd : decode v with
        | err e =>
          simp only [hd]
          constructor
          · intro hh; cases hh
          · rintro ⟨_, _, hn | ⟨v', h', hv', hd', _⟩⟩
            · cases hn
            · cases hv'; rw [hd] at hd'; cases hd'
        | ok h =>
          simp only [hd]
          rw [C10_aux_meta_exact ver v h ts hd]
          constructor
          · rintro ⟨a, b⟩; exact ⟨h1, h2', Or.inr ⟨v, h, rfl, hd, a, b⟩⟩
          · rintro ⟨_, _, hn | ⟨v', h', hv', hd', a, b⟩⟩
            · cases hn
            · cases hv'; rw [hd] at hd'; cases hd'; exact ⟨a, b⟩

/-- a sub-key whose generation is younger than 48 h is kept whatever the store says about its collection -/
theorem C10_filter_young_generation_kept (ver : Int) (mv : Option Bytes) (tc ts : Int)
    (hv1 : -9223372036854775808 ≤ ver) (hv2 : ver + 172800000000000 < 9223372036854775808)
    (hc1 : 0 ≤ tc) (hc2 : tc * 1000000000 < 9223372036854775808)
    (hyoung : tc * 1000000000 ≤ ver + 172800000000000) : filterSub ver mv tc ts = false := by
  cases hf : filterSub ver mv tc ts with
  | false => rfl
  | true =>
    have := (C10_filter_subkey_exact ver mv tc ts hv1 hv2 hc1 hc2).mp hf
    omega

/-- a consequence worth knowing (not a safety problem): the sub-key case reads the cached clock but never sets it — only
    `lazyExpireCheck` does, and only for an entry that carries a plausible expiry.  With the clock still unset (0) no
    sub-key of a non-negative generation is ever removed, whatever its collection's meta says. -/
theorem C10_filter_unset_clock_reclaims_no_subkey (ver : Int) (mv : Option Bytes) (ts : Int)
    (hv1 : 0 ≤ ver) (hv2 : ver + 172800000000000 < 9223372036854775808) : filterSub ver mv 0 ts = false :=
  C10_filter_young_generation_kept ver mv 0 ts (by omega) hv2 (by omega) (by omega) (by omega)

/-- the constants and the two type lists the statements above were written against -/
theorem C10_filter_constants :
    Gen.cfMinExpiredPossible = 1500000000 ∧ Gen.cfLazyCleanExpired = 172800 * 1000000000 ∧
    Gen.cfValueTypes = [Gen.cKVType, Gen.cHSizeType, Gen.cLMetaType, Gen.cSSizeType, Gen.cZSizeType, Gen.cBitmapMetaType] ∧
    Gen.cfSubKeyTypes = [Gen.cHashType, Gen.cListType, Gen.cSetType, Gen.cZSetType, Gen.cZScoreType, Gen.cBitmapType] := by
  decide

/-- the two halves fit: the meta of every sub-key type is stored under a key of a VALUE type, i.e. the meta the sub-key
    case consults is itself only ever removed by the rule of (a) -/
theorem C10_filter_meta_is_value_type (t : UInt8) (raw : Bytes) (ht : Gen.cfSubKeyTypes.contains t = true) :
    ∃ mt, Gen.cfValueTypes.contains mt = true ∧ metaKeyOf t raw = some (mt :: (Gen.cMetaPrefix ++ raw)) := by
  have h : t = Gen.cHashType ∨ t = Gen.cListType ∨ t = Gen.cSetType ∨ t = Gen.cZSetType ∨ t = Gen.cZScoreType ∨ t = Gen.cBitmapType := by
    have := C10_filter_constants.2.2.2
    rw [this] at ht
    simpa using ht
  rcases h with h | h | h | h | h | h <;> subst h
  · exact ⟨Gen.cHSizeType, by decide, rfl⟩
  · exact ⟨Gen.cLMetaType, by decide, rfl⟩
  · exact ⟨Gen.cSSizeType, by decide, rfl⟩
  · exact ⟨Gen.cZSizeType, by decide, rfl⟩
  · exact ⟨Gen.cZSizeType, by decide, rfl⟩
  · exact ⟨Gen.cBitmapMetaType, by decide, rfl⟩

/-! ### the statements are not vacuous: entries taken from a real store of a `cfilter` run

    `wKvKey` = KV key of `t:b`; `wKvVal` = its value written by SETEX with expiry second 4294967292 (year 2106: the
    deadline `e + 172800` does not fit 32 bits).  `wMetaKey` / `wMetaVal` = size meta of hash `t:b` of generation
    4294700040986032995 (no expiry); `wStale` = a member key of the older generation 4294700006500585534 of the same hash;
    `wLiveMetaVal` / `wLive` = meta and member key of hash `t:b` of generation 1499999992333898636 (no expiry);
    `wGone` = a member key of a hash `t:ab` whose meta is not in the store. -/

set_option maxRecDepth 8192

def wKvKey : Bytes := [21, 116, 58, 98]
def wKvVal : Bytes := [1, 255, 255, 255, 252, 0, 0, 0, 0, 0, 0, 0, 0, 119, 20, 209, 18, 13, 215, 132, 166, 225]
def wMetaKey : Bytes := [23, 109, 101, 116, 97, 58, 116, 58, 98]
def wMetaVal : Bytes := [1, 0, 0, 0, 0, 59, 153, 214, 238, 181, 160, 247, 99, 0, 0, 0, 0, 0, 0, 0, 3]
def wStale : Bytes := [22, 0, 1, 116, 58, 0, 37, 1, 98, 0, 0, 0, 0, 0, 0, 0, 248, 3, 128, 0, 0, 0, 0, 0, 0, 58, 3, 187, 153, 214, 230, 208, 85, 208, 62, 3, 128, 0, 0, 0, 0, 0, 0, 58, 58, 0, 255]
def wLiveMetaVal : Bytes := [1, 0, 0, 0, 0, 20, 209, 18, 11, 178, 38, 147, 140, 0, 0, 0, 0, 0, 0, 0, 1]
def wLive : Bytes := [22, 0, 1, 116, 58, 0, 37, 1, 98, 0, 0, 0, 0, 0, 0, 0, 248, 3, 128, 0, 0, 0, 0, 0, 0, 58, 3, 148, 209, 18, 11, 178, 38, 147, 140, 3, 128, 0, 0, 0, 0, 0, 0, 58, 58, 111]
def wGone : Bytes := [22, 0, 1, 116, 58, 0, 37, 1, 97, 98, 0, 0, 0, 0, 0, 0, 249, 3, 128, 0, 0, 0, 0, 0, 0, 58, 3, 187, 153, 214, 230, 81, 203, 233, 106, 3, 128, 0, 0, 0, 0, 0, 0, 58, 58, 109]

/-- (a) instantiated: removed one second after the 48 h grace period … -/
example : ∃ h, decode wKvVal = .ok h ∧ h.expireAt ≠ 0 ∧ 1500000000 < h.expireAt ∧ (h.expireAt : Int) + 172800 < 4295140093 ∧
    ∀ now : Int, (4295140093 - 172800) * 1000000000 ≤ now → Gen.isExpired (h.expireAt : Int) now = true :=
  C10_filter_value_safe [] 21 [116, 58, 98] wKvVal 4295140093 4295140093 (by decide) (by decide)

/-- … not a second earlier, and in particular not in the year 2020, when the key has 85 years to live -/
example : decode wKvVal = .ok ⟨4294967292, 0, some [119, 20, 209, 18, 13, 215, 132, 166, 225]⟩ := by rfl
example : ¬ drops [] wKvKey wKvVal 4295140092 4295140092 ∧ ¬ drops [] wKvKey wKvVal 1600000000 1600000000 := by decide

/-- (b) instantiated: a member of a stale generation is removed once the generation is older than 48 h … -/
example : drops [(wMetaKey, wMetaVal)] wStale [118] 4294872843 4294872843 := by decide
example := C10_filter_subkey_safe [(wMetaKey, wMetaVal)] 22 (wStale.drop 1) [118] 4294872843 4294872843 (by decide) (by decide) (by decide)
/-- … a member whose collection has no meta any more as well … -/
example : drops [(wMetaKey, wMetaVal)] wGone [118] 4295045613 4295045613 := by decide
/-- the member key decodes to hash `t:b`, generation 1499999992333898636 -/
theorem C10_aux_wLive_convert : convertKey (22 :: wLive.drop 1) = .ok (22, [116, 58, 98], 1499999992333898636) := by
  have h : (match convertKey (22 :: wLive.drop 1) with
      | .ok (a, b, c) => a == 22 && b == [116, 58, 98] && c == 1499999992333898636 | _ => false) = true := by decide
  cases hc : convertKey (22 :: wLive.drop 1) with
  | err => rw [hc] at h; cases h
  | panic => rw [hc] at h; cases h
  | ok x =>
    obtain ⟨a, b, c⟩ := x
    rw [hc] at h
    simp only [Bool.and_eq_true, beq_iff_eq] at h
    obtain ⟨⟨ha, hb⟩, hc'⟩ := h
    subst ha; subst hb; subst hc'; rfl

/-- … a member of the current generation of an unexpired hash is kept, although its generation is older than 48 h -/
example : ¬ drops [(wMetaKey, wLiveMetaVal)] wLive [118] 1500172799 1500172799 :=
  C10_filter_live_subkey_kept [(wMetaKey, wLiveMetaVal)] 22 (wLive.drop 1) [118] 1500172799 1500172799 (1500172799 * 1000000000)
    22 [116, 58, 98] wMetaKey wLiveMetaVal 1499999992333898636 ⟨0, 1499999992333898636, some [0, 0, 0, 0, 0, 0, 0, 1]⟩
    (by decide) (by decide) C10_aux_wLive_convert (by decide) (by decide) (by rfl) rfl (by decide) (by omega)

/-- (c) instantiated -/
example : drops [] wKvKey wKvVal 4295140093 4295140093 ∧ drops [] wKvKey wKvVal 5000000000 5000000001 :=
  ⟨by decide, C10_filter_monotone [] wKvKey wKvVal 4295140093 4295140093 5000000000 5000000001 (by omega) (by omega) (by omega) (by omega) (by decide)⟩

/-- the exact rule and the generation guard instantiated: generation 1600000000 s; 48 h later to the nanosecond it is
    still kept, one second later a member without meta goes -/
example : filterSub 1600000000000000000 none 1600172800 1600172800 = false ∧ filterSub 1600000000000000000 none 1600172801 1600172801 = true :=
  ⟨C10_filter_young_generation_kept _ none _ _ (by omega) (by omega) (by omega) (by omega) (by omega),
   (C10_filter_subkey_exact _ none _ _ (by omega) (by omega) (by omega) (by omega)).mpr ⟨by omega, by omega, Or.inl rfl⟩⟩

/-- the contrapositive of (a) instantiated: in September 2020 the key (expiry in 2106) is not expired, so no run of the
    filter with a clock up to 48 h ahead removes it -/
example : ¬ drops [] wKvKey wKvVal 1600172800 1600172800 :=
  C10_filter_live_value_kept [] 21 [116, 58, 98] wKvVal 1600172800 1600172800 1600000000000000000
    ⟨4294967292, 0, some [119, 20, 209, 18, 13, 215, 132, 166, 225]⟩ (by decide) (by rfl) (by decide) (by omega)

/-- other key types, empty keys, undecodable headers / sub-keys: a table meta entry (type 10), a KV entry whose value
    is too short for a header, a bitmap segment written under an unversioned key (it does not decode as a sub-key) -/
example : ¬ drops [] [10, 109, 101, 116, 97, 58, 116] [1, 0, 0, 0, 0, 0, 0, 0] 9000000000 9000000000 :=
  (C10_filter_other_kept [] _ _ _ _).2.1 10 [109, 101, 116, 97, 58, 116] rfl (by decide) (by decide)
example : ¬ drops [] wKvKey [1, 255, 255] 9000000000 9000000000 :=
  (C10_filter_other_kept [] _ _ _ _).2.2.1 21 [116, 58, 98] .hdrMeta rfl (by decide) (by rfl)
example : ¬ drops [] [32, 0, 1, 116, 58, 1, 97, 0, 0, 0, 0, 0, 0, 0, 248, 3, 128, 0, 0, 0, 0, 0, 0, 58, 3, 128, 0, 0, 0, 0, 0, 0, 0] [118] 9000000000 9000000000 :=
  (C10_filter_other_kept [] _ _ _ _).2.2.2 32 _ rfl (by decide) (by decide)

/-- the unset clock instantiated: the member of the stale generation above is NOT removed by a filter whose cached clock
    was never set -/
example : filterSub 4294700006500585534 (some wMetaVal) 0 4294872843 = false :=
  C10_filter_unset_clock_reclaims_no_subkey _ _ _ (by omega) (by omega)

example : ∃ mt, Gen.cfValueTypes.contains mt = true ∧ metaKeyOf Gen.cZScoreType [116, 58, 97] = some (mt :: (Gen.cMetaPrefix ++ [116, 58, 97])) :=
  C10_filter_meta_is_value_type Gen.cZScoreType [116, 58, 97] (by decide)

end Z.Props.C10Filter
