/-
  C05 — WAL reopen after a crash returns exactly a durable prefix.
  Property theorems only.  The frame arithmetic, record types, decoder / ReadAll / Save decision expressions are
  `Gen.wal_*`, regenerated from wal/{encoder,decoder,wal}.go, wal/walpb/record.go, raft/node.go and
  pkg/ioutil/pagewriter.go on every run, so every theorem is re-proved against what the code says now.

  `crcf` is the rolling checksum (`crc32.Update` with the Castagnoli table in the code).  The structural theorems
  hold for every `crcf` with `crcf c [] = c`; the corruption theorem is about the concrete CRC-32C (`crc32c`, which the
  driver runs byte for byte against the real files).

  Vocabulary.  `Sealed crcf c rs`: `rs` is what an encoder with rolling crc `c` writes (each record carries the crc rolled
  over its data, sizes below the decoder's limit).  `SealedSegs crcf 0 (pre ++ [tail])`: closed segments `pre` and the
  tail segment of one WAL.  `framesOf rs`: their bytes.  `streamAll crcf files`: what the read loops of `ReadAll`,
  `ValidSnapshotEntries`, `Verify`, `Repair` decode from segment files (records, why it stopped, decoder state).
  `wholeRem rs n = (j, m)`: `j` frames are complete within the first `n` bytes, `m` bytes of the next frame are there.
  `StartOk c0 pre`: the files are read from the first segment of the WAL (`c0 = 0`) or from a later closed segment on,
  which begins with the crc record carrying the chain value `c0` (`Open` at a snapshot starts a new decoder there).
-/
import ZanVerif.Wal.MainLemmas
import ZanVerif.Wal.EffectLemmas
import ZanVerif.Wal.CrcLemmas
import ZanVerif.Wal.RepairLemmas
import ZanVerif.Wal.WriterLemmas

namespace Z.Props.C05
open Z.Wal

/-! ### frames -/

/-- **frame size round trip** over the regenerated `encodeFrameSize` / `decodeFrameSize`: for every record size below
    2^56 the length word decodes to the size and the padding, frames are 8-byte aligned, the padding is the least one,
    and the length word of a non-empty record is never 0 (0 means "end of log") -/
theorem C05_frame_roundtrip (n : Nat) (h : n < 2 ^ 56) :
    decodeFrameSize (asI64 (encodeFrameSize n).1) = ((n : Int), ((encodeFrameSize n).2 : Int)) ∧
    (encodeFrameSize n).2 = (8 - n % 8) % 8 ∧ (8 + n + (encodeFrameSize n).2) % 8 = 0 ∧
    (encodeFrameSize n).1 < 2 ^ 64 ∧ (0 < n → (encodeFrameSize n).1 ≠ 0) := by
  rw [encodeFrameSize_eq n h]
  refine ⟨decodeFrameSize_lenWord n h, rfl, ?_, lenWord_lt n h, lenWord_pos n⟩
  simp only [padOf]; omega

example : encodeFrameSize 13 = (0x830000000000000D, 3) ∧ decodeFrameSize (asI64 0x830000000000000D) = (13, 3) := by decide

/-- the length word survives the trip through its 8 little-endian bytes -/
theorem C05_lenword_bytes (w : Nat) (h : w < 2 ^ 64) (rest : Bytes) : readLE64 (le64 w ++ rest) = w ∧ (le64 w).length = 8 :=
  ⟨readLE64_le64 w h rest, rfl⟩

/-- **record round trip**: the generated `Unmarshal` inverts the generated `Marshal` of walpb.Record
    (fields omitted exactly when the marshaller omits them) -/
theorem C05_record_roundtrip (r : Rec) (ht : r.type < 2 ^ 64) (hl : (marshalRec r).length < 2 ^ 62) :
    unmarshalRec (marshalRec r) = .ok r := unmarshal_marshalRec r ht hl

example : marshalRec ⟨4, 0, none⟩ = [0x08, 0x04, 0x10, 0x00] ∧
    (match unmarshalRec [0x08, 0x04, 0x10, 0x00] with | .ok r => r == ⟨4, 0, none⟩ | .error _ => false) = true := by
  decide +kernel

/-- … and of the payloads the WAL stores: raftpb.Entry, raftpb.HardState, walpb.Snapshot -/
theorem C05_payload_roundtrip :
    (∀ e : Entry, e.ok → unmarshalEntry (marshalEntry e) = .ok e) ∧
    (∀ s : HardState, s.term < 2 ^ 64 → s.vote < 2 ^ 64 → s.commit < 2 ^ 64 → unmarshalState (marshalState s) = .ok s) ∧
    (∀ s : Snap, s.index < 2 ^ 64 → s.term < 2 ^ 64 → unmarshalSnap (marshalSnap s) = .ok s) :=
  ⟨unmarshal_marshalEntry, unmarshal_marshalState, unmarshal_marshalSnap⟩

/-! ### round trip -/

/-- **C05_roundtrip**: the segment files written by one encoder chain — closed segments cut exactly behind their last
    frame, the tail followed by the zero rest of its preallocation — decode to exactly the records written, in order,
    with every chained crc verified (the decoder ends with the encoder's crc), stop with EOF, and the last valid
    offset is the end of the tail's frames (where the WAL is appended to) -/
theorem C05_roundtrip (crcf : UInt32 → Bytes → UInt32) (hnil : ∀ c, crcf c [] = c) (c0 : UInt32) (pre : List (List Rec))
    (tail : List Rec) (k : Nat) (hs : SealedSegs crcf c0 (pre ++ [tail])) (hst : StartOk c0 pre) (hk : k = 0 ∨ 8 ≤ k) :
    streamAll crcf (pre.map framesOf ++ [framesOf tail ++ zeros k]) =
      (pre.flatten ++ tail, .eof, ⟨[], (framesOf tail).length, crcAfterSegs c0 (pre ++ [tail])⟩) := by
  rw [streamAll_start_segs crcf hnil c0 pre tail _ hs hst]
  exact streamFrom_roundtrip crcf hnil c0 pre tail k hs hk

/-- the histories of the writer model (`wal.Create`, then any sequence of `Save` / `SaveSnapshot` / `Sync` with cuts by
    size) produce such files: `C05_roundtrip` and the truncation theorems apply to `encodeHistory` -/
theorem C05_writer_sealed (crcf : UInt32 → Bytes → UInt32) (hnil : ∀ c, crcf c [] = c) (seg : Nat) (opt : Bool) (md : Bytes)
    (h : List Op) (hok : HistOk md h) :
    SealedSegs crcf 0 ((runHistory crcf seg opt md h).closedRecs ++ [(runHistory crcf seg opt md h).recs]) ∧
    (runHistory crcf seg opt md h).tail = framesOf (runHistory crcf seg opt md h).recs ∧
    (runHistory crcf seg opt md h).closed.map (·.bytes) = (runHistory crcf seg opt md h).closedRecs.map framesOf ∧
    (runHistory crcf seg opt md h).crc =
      crcAfterSegs 0 ((runHistory crcf seg opt md h).closedRecs ++ [(runHistory crcf seg opt md h).recs]) :=
  writer_sealed crcf hnil seg opt md h hok

/-! ### truncation -/

/-- **C05_truncation_prefix** (the file ends at byte `n`): for EVERY byte offset `n` of the tail segment, decoding
    returns exactly the records whose frames are wholly contained in the first `n` bytes — all records of the closed
    segments, then the first `j` of the tail — and stops with EOF when `n` is a frame boundary, with unexpected EOF
    inside a frame; never with another record.  The last valid offset (where `Repair` truncates and where the WAL is
    appended to) is the end of the last complete frame, the decoder's crc is the encoder's crc after those records. -/
theorem C05_truncation_prefix (crcf : UInt32 → Bytes → UInt32) (hnil : ∀ c, crcf c [] = c) (c0 : UInt32) (pre : List (List Rec))
    (tail : List Rec) (n : Nat) (hs : SealedSegs crcf c0 (pre ++ [tail])) (hst : StartOk c0 pre) :
    (streamAll crcf (pre.map framesOf ++ [(framesOf tail).take n])).1 = pre.flatten ++ tail.take (wholeRem tail n).1 ∧
    (streamAll crcf (pre.map framesOf ++ [(framesOf tail).take n])).2.1 = (if (wholeRem tail n).2 = 0 then Stop.eof else Stop.ueof) ∧
    (streamAll crcf (pre.map framesOf ++ [(framesOf tail).take n])).2.2.off = (framesOf (tail.take (wholeRem tail n).1)).length ∧
    (streamAll crcf (pre.map framesOf ++ [(framesOf tail).take n])).2.2.crc = crcAfter (crcAfterSegs c0 pre) (tail.take (wholeRem tail n).1) := by
  rw [streamAll_start_segs crcf hnil c0 pre tail _ hs hst]
  exact streamFrom_cut crcf hnil c0 pre tail n hs

/-- **C05_truncation_zero_fill** (preallocated file: the bytes from `n` on read as zeros, any number `k` of them), for
    every `n` that is a frame boundary or a 512-byte sector boundary of the file (disks write sectors atomically;
    frames are 8-byte aligned so a length word is never split): the same records, EOF or unexpected EOF (through the
    short read or through `isTornEntry`), last valid offset at the end of the last complete frame — or the decoder
    accepted the damaged frame, which `C05_accepted_is_collision` makes explicit.
    For other `n` this is FALSE for the real decoder (a partially zeroed sector is reported as crc mismatch): see
    `C05_truncation_zero_fill_any_offset_full` below. -/
theorem C05_truncation_zero_fill (crcf : UInt32 → Bytes → UInt32) (hnil : ∀ c, crcf c [] = c) (c0 : UInt32) (pre : List (List Rec))
    (tail : List Rec) (n k : Nat) (hs : SealedSegs crcf c0 (pre ++ [tail])) (hst : StartOk c0 pre)
    (hal : (wholeRem tail n).2 = 0 ∨ n % 512 = 0) :
    ((streamAll crcf (pre.map framesOf ++ [(framesOf tail).take n ++ zeros k])).1 = pre.flatten ++ tail.take (wholeRem tail n).1 ∧
     ((streamAll crcf (pre.map framesOf ++ [(framesOf tail).take n ++ zeros k])).2.1 = .eof ∨
      (streamAll crcf (pre.map framesOf ++ [(framesOf tail).take n ++ zeros k])).2.1 = .ueof) ∧
     (streamAll crcf (pre.map framesOf ++ [(framesOf tail).take n ++ zeros k])).2.2.off = (framesOf (tail.take (wholeRem tail n).1)).length)
    ∨ (∃ r rs' r' d, tail.drop (wholeRem tail n).1 = r :: rs' ∧
        decodeRecord crcf [(frame r).take (wholeRem tail n).2 ++ zeros k] (framesOf (tail.take (wholeRem tail n).1)).length
          (crcAfter (crcAfterSegs c0 pre) (tail.take (wholeRem tail n).1)) = .got r' d) := by
  rw [streamAll_start_segs crcf hnil c0 pre tail _ hs hst]
  exact streamFrom_cut_zeros crcf hnil c0 pre tail n k hs hal

/-- whatever the decoder accepts (from intact or damaged bytes) was unmarshalled from bytes of the file and, for every
    record type whose crc is checked, carries the rolling crc over its data: an accepted damaged frame is the
    identical record (the lost bytes were zeros) or an explicit crc collision `crcf c d' = crcf c d`, `d' ≠ d` -/
theorem C05_accepted_is_collision (crcf : UInt32 → Bytes → UInt32) (b : Bytes) (off : Nat) (c : UInt32) (r' : Rec) (d : Dec)
    (h : decodeRecord crcf [b] off c = .got r' d) :
    ∃ data : Bytes, unmarshalRec data = .ok r' ∧
      (Gen.wal_decCrcChecked (asI64 r'.type) = true → r'.crc = crcf c (r'.data.getD [])) :=
  got_spec crcf b off c r' d h

/-- **after `Repair`** (which node/raft.go runs when `ReadAll` fails): for EVERY byte offset `n` at which the tail ends,
    `ReadAll` — repeated after one `Repair` when it failed — returns exactly the effect of the records wholly contained in
    the first `n` bytes, whatever snapshot the WAL is opened at and from whichever closed segment on it is read; `Repair` ran iff
    the cut is inside a frame -/
theorem C05_restart_prefix (crcf : UInt32 → Bytes → UInt32) (hnil : ∀ c, crcf c [] = c) (start : Snap) (c0 : UInt32)
    (pre : List (List Rec)) (r0 : Rec) (rs : List Rec) (n : Nat) (hs : SealedSegs crcf c0 (pre ++ [r0 :: rs]))
    (hst : StartOk c0 pre) (h0 : r0.type = crcType) :
    readAllRepair crcf start (pre.map framesOf ++ [(framesOf (r0 :: rs)).take n]) =
      (match effect start (pre.flatten ++ (r0 :: rs).take (wholeRem (r0 :: rs) n).1) with
       | .ok a => .ok (a, decide ((wholeRem (r0 :: rs) n).2 ≠ 0))
       | .error f => .error (f, true)) :=
  readAllRepair_cut crcf hnil start c0 pre r0 rs n hs hst h0

/-- … and when the restart reads the tail segment only (`Open` at a snapshot whose index lies in the tail: the usual case) -/
theorem C05_restart_prefix_tail (crcf : UInt32 → Bytes → UInt32) (hnil : ∀ c, crcf c [] = c) (start : Snap) (c0 : UInt32)
    (r0 : Rec) (rs : List Rec) (n : Nat) (hs : Sealed crcf c0 (r0 :: rs)) (h0 : r0.type = crcType) :
    readAllRepair crcf start [(framesOf (r0 :: rs)).take n] =
      (match effect start ((r0 :: rs).take (wholeRem (r0 :: rs) n).1) with
       | .ok a => .ok (a, decide ((wholeRem (r0 :: rs) n).2 ≠ 0))
       | .error f => .error (f, true)) :=
  readAllRepair_cut_tail crcf hnil start c0 r0 rs n hs h0

/-! ### effect -/

/-- **C05_effect_prefix** — `ReadAll`'s effect of a record list, as fold laws:
    (i) the effect of a longer prefix is the effect of the shorter one continued with the further records;
    (ii) an entry record is added by the entry rule, and the entry rule (regenerated `e.Index > start.Index`,
         `up := e.Index - start.Index - 1`, `up > len(ents)`, `append(ents[:up], e)`) means: the entries stay the contiguous
         run behind the start snapshot, a later entry with an index already present REPLACES that entry and CUTS everything
         behind it (the result ends in the new entry and keeps exactly the older entries with a smaller index);
    (iii) the NEWEST hard state wins; (iv) entries do not touch the state, states do not touch the entries, other records
         touch neither -/
theorem C05_effect_prefix (start : Snap) :
    (∀ (a : Acc) (rs ss : List Rec), effectFrom start a (rs ++ ss) =
        (match effectFrom start a rs with | .error f => .error f | .ok a' => effectFrom start a' ss)) ∧
    (∀ (a : Acc) (r : Rec) (e : Entry), r.type = entryType → r.data = some (marshalEntry e) → e.ok →
        handle start a r = (match addEntry start a.ents e with
                            | .error f => .error f
                            | .ok es => .ok { a with ents := es, enti := e.index })) ∧
    (∀ (ents ents' : List Entry) (e : Entry), Contig start ents → e.index > start.index → addEntry start ents e = .ok ents' →
        Contig start ents' ∧ ents'.getLast? = some e ∧
        (∀ x, x ∈ ents' → x = e ∨ (x ∈ ents ∧ x.index < e.index)) ∧
        (∀ x, x ∈ ents → x.index < e.index → x ∈ ents') ∧
        (∀ x, x ∈ ents → x.index ≥ e.index → x ∈ ents' → x = e)) ∧
    (∀ (a : Acc) (r : Rec) (s : HardState), r.type = stateType → r.data = some (marshalState s) →
        s.term < 2 ^ 64 → s.vote < 2 ^ 64 → s.commit < 2 ^ 64 → handle start a r = .ok { a with state := s }) ∧
    (∀ (a a' : Acc) (r : Rec), handle start a r = .ok a' →
        (r.type ≠ entryType → a'.ents = a.ents) ∧ (r.type ≠ stateType → a'.state = a.state)) ∧
    (∀ (rs : List Rec) (a' : Acc), effect start rs = .ok a' → Contig start a'.ents) :=
  ⟨effectFrom_append start, handle_entry start, addEntry_spec start, handle_state start, handle_frames start,
   fun rs a' h => effectFrom_contig start rs {} a' (contig_nil start) h⟩

/-- non-vacuity: entries 1,2,3 then a new leader's entry 2 — the old 2 and 3 are gone; then a newer state wins -/
example :
    let e (i t : Nat) : Entry := ⟨0, t, i, some [UInt8.ofNat i], 0, 0, 0⟩
    let rec' (e : Entry) : Rec := ⟨entryType, 0, some (marshalEntry e)⟩
    let st (t c : Nat) : Rec := ⟨stateType, 0, some (marshalState ⟨t, 1, c⟩)⟩
    (match effect ⟨0, 0⟩ [rec' (e 1 1), rec' (e 2 1), st 1 1, rec' (e 3 1), rec' (e 2 2), st 2 1] with
     | .ok a => a.ents == [e 1 1, e 2 2] && a.state == ⟨2, 1, 1⟩
     | .error _ => false) = true := by decide +kernel

/-! ### corruption -/

/-- **C05_bitflip_data**: changing exactly one byte (in particular flipping one bit) inside the data of a record of a
    checked type makes that record's crc check fail — from ANY chained start state `c`, whatever precedes and follows
    the byte, whatever follows the frame — with the concrete CRC-32C.  The decoder then stops with a crc mismatch, or, in
    the last segment when some sector-aligned chunk of the frame is all zero, `isTornEntry` reports it as unexpected EOF
    (which makes `Repair` truncate the log there: finding F-C05-1) — it never returns the record. -/
theorem C05_bitflip_data (c : UInt32) (type : Nat) (pre suf : Bytes) (b b' : UInt8) (t : Bytes) (rest : List Bytes) (off : Nat)
    (hne : b ≠ b') (hty : type ≠ crcType)
    (hwf : Rec.wf ⟨type, crc32c c (pre ++ b :: suf), some (pre ++ b' :: suf)⟩) :
    let good : Rec := sealRec crc32c c type (some (pre ++ b :: suf))       -- the record as written
    let bad : Rec := { good with data := some (pre ++ b' :: suf) }          -- one data byte changed on disk
    decodeRecord crc32c ((frame bad ++ t) :: rest) off c =
      (if isTornEntry (rest.length + 1) off (marshalRec bad ++ zeros (padOf (marshalRec bad).length)) = true
       then .stop .ueof ⟨(frame bad ++ t) :: rest, off, crc32c c (pre ++ b' :: suf)⟩
       else .stop .crc ⟨(frame bad ++ t) :: rest, off, crc32c c (pre ++ b' :: suf)⟩) := by
  intro good bad
  have hbad : bad.crc ≠ crc32c c (bad.data.getD []) := by
    show crc32c c (pre ++ b :: suf) ≠ crc32c c (pre ++ b' :: suf)
    exact crc32c_detects c pre suf b b' hne
  exact decodeRecord_frame_badcrc crc32c bad t rest off c hwf hty hbad

/-- the rolling CRC-32C itself: one changed byte always changes it, and no bytes leave it unchanged -/
theorem C05_crc_detects (c : UInt32) (pre suf : Bytes) (b b' : UInt8) (h : b ≠ b') :
    crc32c c (pre ++ b :: suf) ≠ crc32c c (pre ++ b' :: suf) ∧ crc32c c [] = c :=
  ⟨crc32c_detects c pre suf b b' h, crc32c_nil c⟩

example : crc32c 0 [0x31, 0x32, 0x33, 0x34, 0x35, 0x36, 0x37, 0x38, 0x39] = 0xE3069283 := by decide +kernel

/-- non-vacuity of `C05_bitflip_data`: an entry record, one bit of its data flipped, decoded in the middle of a chain:
    crc mismatch; the untouched record is returned -/
example :
    (match decodeRecord crc32c [frame { sealRec crc32c 0xDEADBEEF 2 (some [1, 2, 3, 4]) with data := some [1, 2, 7, 4] }] 64 0xDEADBEEF with
     | .stop .crc d => d.off == 64
     | _ => false) = true ∧
    (match decodeRecord crc32c [frame (sealRec crc32c 0xDEADBEEF 2 (some [1, 2, 3, 4]))] 64 0xDEADBEEF with
     | .got r d => r.data == some [1, 2, 3, 4] && d.off == 64 + 24
     | _ => false) = true := by decide +kernel

/-- **the record type is not covered by the crc** (finding F-C05-2): a record whose type field is changed on disk into any
    other checked type is accepted unchanged otherwise — a hard state can be read as an entry, an entry as a state (where
    `MustUnmarshal` panics).  This is why the full bit-flip statement below does not hold. -/
theorem C05_type_not_protected (crcf : UInt32 → Bytes → UInt32) (c : UInt32) (type type' : Nat) (data : Option Bytes)
    (t : Bytes) (rest : List Bytes) (off : Nat) (hty : type' ≠ crcType)
    (hwf : Rec.wf ⟨type', crcf c (data.getD []), data⟩) :
    decodeRecord crcf ((frame { sealRec crcf c type data with type := type' } ++ t) :: rest) off c =
      .got { sealRec crcf c type data with type := type' }
        ⟨t :: rest, off + (frame { sealRec crcf c type data with type := type' }).length, crcf c (data.getD [])⟩ := by
  have := decodeRecord_frame crcf { sealRec crcf c type data with type := type' } t rest off c hwf (fun _ => rfl)
  rw [this]
  simp [sealRec, hty]

/-- **`ReadAll` never reports a missing snapshot marker when the WAL is opened for writing** (finding F-C05-4): in
    `ReadAll`, `err = ErrSnapshotNotFound` is overwritten by `w.encoder, err = newFileEncoder(…)` before it is returned, so
    `Open(dir, snap)` + `ReadAll` on a WAL that never recorded `snap` returns the whole log behind `snap.Index` without an
    error.  The model behaves as the code does (the harness's `at=` probes agree line by line); the code's documented
    contract ("If it cannot read out the expected snap, it will return ErrSnapshotNotFound") is the oracle class
    `snap-not-found-masked`. -/
theorem C05_snap_not_found_masked (crcf : UInt32 → Bytes → UInt32) (start : Snap) (segs : List Bytes) :
    readAll crcf start segs ≠ .error .snapNotFound :=
  readAll_never_snapNotFound crcf start segs

/-- non-vacuity: a WAL with the empty marker only, opened at snapshot (7, 3): a log comes back, no error -/
example : (match readAll crc32c ⟨7, 3⟩ [(create crc32c 64 false [0x6d]).tail] with
           | .ok (a, off) => a.matched == false && off == 64
           | .error _ => false) = true := by decide +kernel

/-! ### sync policy -/

/-- **what `Save` makes durable** (regenerated `mustSync`, `fsync`, `!w.optimizedFsync`, `curOff < SegmentSizeBytes`):
    without optimized fsync, a `Save` that carries entries or a hard state that changes vote / term returns only after everything encoded
    into the tail segment so far has been written and fdatasync'ed — whether or not it cut a new segment -/
theorem C05_save_syncs (crcf : UInt32 → Bytes → UInt32) (w : WState) (st : HardState) (ents : List Entry)
    (hopt : w.opt = false) (hcall : ¬ (st.isEmpty = true ∧ ents = []))
    (hmust : ents ≠ [] ∨ st.vote ≠ w.state.vote ∨ st.term ≠ w.state.term) :
    (save crcf w st ents).synced = (save crcf w st ents).tail.length ∧
    (save crcf w st ents).flushed = (save crcf w st ents).tail.length :=
  save_syncs crcf w st ents hopt hcall hmust

/-- … and so do `SaveSnapshot`, `Sync` and `wal.Create` -/
theorem C05_marker_syncs (crcf : UInt32 → Bytes → UInt32) (w : WState) (s : Snap) (hopt : w.opt = false) :
    (saveSnapshot crcf w s).synced = (saveSnapshot crcf w s).tail.length ∧ (wsync w true).synced = (wsync w true).tail.length :=
  marker_syncs crcf w s hopt

/-! ### non-vacuity: the hypotheses of the theorems above hold for a concrete WAL -/

/-- a save history with an overwritten suffix (index 2 twice), a snapshot marker and two cuts (64-byte segments) -/
def exHist : List Op :=
  [.save ⟨1, 1, 0⟩ [⟨0, 1, 1, some [1, 2, 3], 0, 0, 0⟩, ⟨0, 1, 2, some [4], 0, 0, 0⟩],
   .snap ⟨1, 1⟩,
   .save ⟨2, 2, 1⟩ [⟨0, 2, 2, some [9, 9], 0, 0, 0⟩]]

def exW : WState := runHistory crc32c 64 false [0x6d] exHist

theorem exHist_ok : HistOk [0x6d] exHist := by
  refine ⟨by decide, ?_⟩
  intro op hop
  simp only [exHist, List.mem_cons, List.mem_nil_iff, or_false] at hop
  rcases hop with rfl | rfl | rfl
  · intro e he
    simp only [List.mem_cons, List.mem_nil_iff, or_false] at he
    rcases he with rfl | rfl <;> decide
  · trivial
  · intro e he
    simp only [List.mem_cons, List.mem_nil_iff, or_false] at he
    rcases he with rfl; decide

attribute [local irreducible] SealedSegs in
theorem exW_sealed : SealedSegs crc32c 0 (exW.closedRecs ++ [exW.recs]) :=
  (C05_writer_sealed crc32c crc32c_nil 64 false [0x6d] exHist exHist_ok).1

/-- two closed segments of 6 records each, 3 records in the tail; everything written and fdatasync'ed -/
example : exW.closedRecs.map List.length = [6, 6] ∧ exW.recs.length = 3 ∧ exW.tail.length = 64 ∧ exW.flushed = 64 ∧ exW.synced = 64 ∧
    (files exW).map (fun s => (s.seq, s.first, s.bytes.length)) = [(0, 0, 168), (1, 3, 152), (2, 3, 64)] := by decide +kernel

theorem exW_facts : (wholeRem exW.recs 32, wholeRem exW.recs 512, (exW.closedRecs.flatten ++ exW.recs.take 1).length, exW.recs.length,
    exW.recs.head?.map (·.type)) = ((1, 16), (3, 0), 13, 3, some crcType) := by decide +kernel

theorem exW_whole : wholeRem exW.recs 32 = (1, 16) ∧ wholeRem exW.recs 512 = (3, 0) ∧
    (exW.closedRecs.flatten ++ exW.recs.take 1).length = 13 ∧ exW.recs.length = 3 ∧
    (∃ r0 rs, exW.recs = r0 :: rs ∧ r0.type = crcType) := by
  have h := exW_facts
  simp only [Prod.mk.injEq] at h
  obtain ⟨a, b, c, d, h1⟩ := h
  refine ⟨a, b, c, d, ?_⟩
  cases h : exW.recs with
  | nil => rw [h] at h1; cases h1
  | cons r0 rs => rw [h] at h1; exact ⟨r0, rs, rfl, by simpa using h1⟩

theorem exW_later : ∃ s0 r1 rs1, exW.closedRecs = [s0, r1 :: rs1] ∧ r1.type = crcType := by
  have h : exW.closedRecs.length = 2 ∧ (exW.closedRecs.getD 1 []).head?.map (·.type) = some crcType := by decide +kernel
  match hc : exW.closedRecs, h with
  | [s0, []], h => simp [hc] at h
  | [s0, r1 :: rs1], h => exact ⟨s0, r1, rs1, rfl, by simpa [hc] using h.2⟩
  | [], h => simp [hc] at h
  | [_], h => simp [hc] at h
  | _ :: _ :: _ :: _, h => simp [hc] at h

attribute [local irreducible] exW streamAll

/-- `C05_truncation_prefix` on it: the tail cut after 32 bytes holds 1 complete frame and 16 bytes of the next one; all 12
    records of the closed segments and that one come back, then unexpected EOF -/
example : (streamAll crc32c (exW.closedRecs.map framesOf ++ [(framesOf exW.recs).take 32])).2.1 = .ueof ∧
    (streamAll crc32c (exW.closedRecs.map framesOf ++ [(framesOf exW.recs).take 32])).1.length = 13 := by
  have h := C05_truncation_prefix crc32c crc32c_nil 0 exW.closedRecs exW.recs 32 exW_sealed (Or.inl rfl)
  rw [exW_whole.1] at h
  refine ⟨by rw [h.2.1]; rfl, ?_⟩
  rw [h.1]
  exact exW_whole.2.2.1

/-- `C05_truncation_zero_fill` on it (n = 512 is behind the last frame: a frame boundary) and `C05_roundtrip` -/
example : (streamAll crc32c (exW.closedRecs.map framesOf ++ [framesOf exW.recs ++ zeros 8])).2.1 = .eof :=  by
  rw [C05_roundtrip crc32c crc32c_nil 0 exW.closedRecs exW.recs 8 exW_sealed (Or.inl rfl) (Or.inr (Nat.le_refl 8))]

/-- `C05_truncation_prefix` read from the SECOND segment on (as `Open` at a snapshot does): a new decoder, the chain value
    comes from that segment's crc record -/
example : ∃ s0 s1, exW.closedRecs = [s0, s1] ∧
    (streamAll crc32c ([s1].map framesOf ++ [(framesOf exW.recs).take 32])).1 = [s1].flatten ++ exW.recs.take 1 ∧
    (streamAll crc32c ([s1].map framesOf ++ [(framesOf exW.recs).take 32])).2.1 = .ueof := by
  obtain ⟨s0, r1, rs1, hc, h1⟩ := exW_later
  have hs := exW_sealed
  rw [hc] at hs
  have hs' : SealedSegs crc32c (crcAfter 0 s0) ([r1 :: rs1] ++ [exW.recs]) := hs.2
  have h := C05_truncation_prefix crc32c crc32c_nil (crcAfter 0 s0) [r1 :: rs1] exW.recs 32 hs' (Or.inr ⟨r1, rs1, [], rfl, h1⟩)
  rw [exW_whole.1] at h
  exact ⟨s0, r1 :: rs1, hc, h.1, by rw [h.2.1]; rfl⟩

/-- `C05_restart_prefix` on it -/
example : ∃ r0 rs, exW.recs = r0 :: rs ∧
    readAllRepair crc32c ⟨0, 0⟩ (exW.closedRecs.map framesOf ++ [(framesOf (r0 :: rs)).take 32]) =
      (match effect ⟨0, 0⟩ (exW.closedRecs.flatten ++ (r0 :: rs).take (wholeRem (r0 :: rs) 32).1) with
       | .ok a => .ok (a, decide ((wholeRem (r0 :: rs) 32).2 ≠ 0))
       | .error f => .error (f, true)) := by
  obtain ⟨r0, rs, he, h0⟩ := exW_whole.2.2.2.2
  refine ⟨r0, rs, he, ?_⟩
  have hs := exW_sealed
  rw [he] at hs
  exact C05_restart_prefix crc32c crc32c_nil ⟨0, 0⟩ 0 exW.closedRecs r0 rs 32 hs (Or.inl rfl) h0


/-- `C05_truncation_zero_fill` on it, both kinds of admissible offsets: byte 16 is a frame boundary of the tail, byte 512 a
    sector boundary (behind the data here); the rest of the preallocation reads as zeros -/
example :
    (((streamAll crc32c (exW.closedRecs.map framesOf ++ [(framesOf exW.recs).take 512 ++ zeros 8])).1 =
        exW.closedRecs.flatten ++ exW.recs.take (wholeRem exW.recs 512).1 ∧
     ((streamAll crc32c (exW.closedRecs.map framesOf ++ [(framesOf exW.recs).take 512 ++ zeros 8])).2.1 = .eof ∨
      (streamAll crc32c (exW.closedRecs.map framesOf ++ [(framesOf exW.recs).take 512 ++ zeros 8])).2.1 = .ueof) ∧
     (streamAll crc32c (exW.closedRecs.map framesOf ++ [(framesOf exW.recs).take 512 ++ zeros 8])).2.2.off =
        (framesOf (exW.recs.take (wholeRem exW.recs 512).1)).length)
    ∨ (∃ r rs' r' d, exW.recs.drop (wholeRem exW.recs 512).1 = r :: rs' ∧
        decodeRecord crc32c [(frame r).take (wholeRem exW.recs 512).2 ++ zeros 8]
          (framesOf (exW.recs.take (wholeRem exW.recs 512).1)).length
          (crcAfter (crcAfterSegs 0 exW.closedRecs) (exW.recs.take (wholeRem exW.recs 512).1)) = .got r' d)) :=
  C05_truncation_zero_fill crc32c crc32c_nil 0 exW.closedRecs exW.recs 512 8 exW_sealed (Or.inl rfl) (Or.inr rfl)

/-- `C05_save_syncs` / `C05_marker_syncs`: any writer state without optimized fsync, a save with one entry -/
example (w : WState) (h : w.opt = false) :
    (save crc32c w ⟨1, 1, 0⟩ [⟨0, 1, 1, some [1], 0, 0, 0⟩]).synced = (save crc32c w ⟨1, 1, 0⟩ [⟨0, 1, 1, some [1], 0, 0, 0⟩]).tail.length :=
  (C05_save_syncs crc32c w _ _ h (by decide) (Or.inl (by decide))).1

example (w : WState) (h : w.opt = false) : (saveSnapshot crc32c w ⟨0, 0⟩).synced = (saveSnapshot crc32c w ⟨0, 0⟩).tail.length :=
  (C05_marker_syncs crc32c w _ h).1

/-! ### statements that are NOT theorems of this tree (kept at full strength) -/

/-- zero fill from ANY byte offset: false for the real decoder — a cut inside a sector leaves a partially zeroed
    sector, which `isTornEntry` does not recognise; the decoder reports a crc mismatch / unmarshal error and the restart
    fails.  Outside the crash model (sector-atomic writes); proved for sector and frame boundaries
    (`C05_truncation_zero_fill`).  The harness runs unaligned offsets for the model comparison only. -/
def C05_truncation_zero_fill_any_offset_full : Prop :=
  ∀ (crcf : UInt32 → Bytes → UInt32), (∀ c, crcf c [] = c) → ∀ (tail : List Rec) (n k : Nat), Sealed crcf 0 tail →
    (streamAll crcf [(framesOf tail).take n ++ zeros k]).1 = tail.take (wholeRem tail n).1 ∧
    ((streamAll crcf [(framesOf tail).take n ++ zeros k]).2.1 = .eof ∨ (streamAll crcf [(framesOf tail).take n ++ zeros k]).2.1 = .ueof)

/-- any subset of the 512-byte sectors written since the last fdatasync missing (zero): stated, not proved here (the proof
    is the one of `C05_truncation_zero_fill` applied to the first damaged frame; the sector-set bookkeeping is not done).
    Exercised by the harness (`reopen zero=…`) with the oracle `crash-unrecoverable` / `lost-synced`. -/
def C05_torn_sector_full : Prop :=
  ∀ (crcf : UInt32 → Bytes → UInt32), (∀ c, crcf c [] = c) → ∀ (tail : List Rec) (img : Bytes) (synced : Nat), Sealed crcf 0 tail →
    img.length = (framesOf tail).length → synced % 8 = 0 →
    (∀ i, i < synced → img[i]? = (framesOf tail)[i]?) →
    (∀ s, (∀ i, s * 512 ≤ i → i < (s + 1) * 512 → img[i]? = (framesOf tail)[i]?) ∨
          (∀ i, s * 512 ≤ i → i < (s + 1) * 512 → synced ≤ i → i < img.length → img[i]? = some 0)) →
    (∃ j, (streamAll crcf [img]).1 = tail.take j ∧ (framesOf (tail.take j)).length ≥ min synced (framesOf tail).length - 0 ∧
      ((streamAll crcf [img]).2.1 = .eof ∨ (streamAll crcf [img]).2.1 = .ueof))
    ∨ (∃ b off c r' d, decodeRecord crcf [b] off c = .got r' d ∧ ¬ r' ∈ tail)

/-- a single flipped bit ANYWHERE in a synced frame is detected: FALSE in this tree.  Counterexamples: the type field
    (`C05_type_not_protected`), the length word and the protobuf framing (the decoder answers `io.ErrUnexpectedEOF`, which
    `Repair` takes for a torn tail and truncates: the harness's `flip-len-lost-synced`, `flip-hdr-lost-synced`), padding
    bytes (harmless). -/
def C05_bitflip_frame_full : Prop :=
  ∀ (c : UInt32) (rs : List Rec) (img : Bytes), Sealed crc32c c rs → img.length = (framesOf rs).length →
    (∃ i bit, i < img.length ∧ bit < 8 ∧ img = (framesOf rs).set i ((framesOf rs).getD i 0 ^^^ UInt8.ofNat (2 ^ bit))) →
    ∀ fuel, rs.length < fuel → (stream crc32c fuel ⟨[img], 0, c⟩).2.1 ∉ [Stop.eof, Stop.ueof] ∨
      (stream crc32c fuel ⟨[img], 0, c⟩).1 = rs

end Z.Props.C05
