/-
  C15 — every key is served by exactly one partition, the one clients compute.
  Property theorems only. `Gen.*` is regenerated from the Go source on every run, so these are
  re-proved against what node/namespace.go, server/server.go and the SDK say now.
-/
import ZanVerif.Route.Partition
import ZanVerif.Route.Merge

namespace Z.Props.C15
open Z.Route

/-- the hash is a non-negative machine int (uint32 widened to a 64-bit int) -/
theorem hashedKey_nonneg (pk : Bytes) : 0 ≤ hashedKey pk := by
  unfold hashedKey; exact Int.natCast_nonneg _

/-- in range: for every key and every positive partition count -/
theorem C15_in_range (pk : Bytes) (n : Int) (hn : 0 < n) :
    0 ≤ serverPartition pk n ∧ serverPartition pk n < n := by
  unfold serverPartition Gen.serverPartition
  have h := hashedKey_nonneg pk
  constructor
  · exact Int.tmod_nonneg _ h
  · exact Int.tmod_lt_of_pos _ hn

/-- the expression the server uses when it is handed the precomputed hash (redis front end) and
    the one it uses for merge commands are the same function, and both are the SDK's -/
theorem C15_client_server_agree (pk : Bytes) (n : Int) :
    serverPartition pk n = sdkPartition pk n
    ∧ Gen.serverPartitionSum (hashedKey pk) n = sdkPartition pk n
    ∧ Gen.serverHashExpr = Gen.sdkHashExpr
    ∧ Gen.serverSumExpr = "node.HashedKey(pk)" := by
  refine ⟨rfl, rfl, by decide, by decide⟩

/-- server and SDK hash the same bytes: the SDK's sharding key of `ns:rest` is what the server
    extracts, whenever the namespace itself contains no ':' (the SDK builds raw keys as ns ++ ":" ++ …) -/
theorem indexByte_append (ns rest : Bytes) (c : UInt8) (h : ∀ b ∈ ns, b ≠ c) :
    indexByte (ns ++ c :: rest) c = some ns.length := by
  induction ns with
  | nil => simp [indexByte]
  | cons a t ih =>
    have ha : a ≠ c := h a (by simp)
    have := ih (fun b hb => h b (by simp [hb]))
    simp [indexByte, ha, this]

theorem C15_same_bytes (ns rest : Bytes) (hne : ns ≠ [])
    (h : ∀ b ∈ ns, b ≠ Gen.namespaceTableSeperator) :
    extractNamespace (ns ++ Gen.namespaceTableSeperator :: rest) = some (ns, rest)
    ∧ sdkShardingKey ns (ns ++ Gen.namespaceTableSeperator :: rest) = rest := by
  constructor
  · unfold extractNamespace
    rw [indexByte_append ns rest _ h]
    cases ns with
    | nil => exact absurd rfl hne
    | cons a t => simp
  · simp [sdkShardingKey]

/-- routing a well-formed raw key lands in range -/
theorem C15_route_in_range (raw : Bytes) (n : Int) (hn : 0 < n) (ns pk : Bytes) (p : Int)
    (h : route raw n = some (ns, pk, p)) : 0 ≤ p ∧ p < n := by
  unfold route at h
  split at h
  · cases h
  · rename_i ns' pk' _
    cases h
    exact C15_in_range pk n hn

/-- merge commands: splitting the key list by partition, running on per-partition stores and
    adding the counts equals the single-store count (every key list incl. duplicates, every
    partition function, every partition count) -/
theorem C15_merge_equals_single_store (present : Bytes → Bool) (n : Nat) (hn : 0 < n) (keys : List Bytes) :
    Z.Merge.merged (fun pk => (serverPartition pk n).toNat) present n keys
      = Z.Merge.existsCount present keys :=
  Z.Merge.merged_eq _ present n (fun pk => by
    have h := C15_in_range pk n (by omega)
    omega) keys

/-- non-vacuity: a concrete key, 7 partitions -/
example : serverPartition [0x61, 0x62, 0x63] 7 = 3 ∧ route [0x6e, 0x3a, 0x61] 4 = some ([0x6e], [0x61], 2) := by
  decide

end Z.Props.C15

#print axioms Z.Props.C15.C15_in_range
#print axioms Z.Props.C15.C15_client_server_agree
#print axioms Z.Props.C15.C15_same_bytes
#print axioms Z.Props.C15.C15_route_in_range
#print axioms Z.Props.C15.C15_merge_equals_single_store
