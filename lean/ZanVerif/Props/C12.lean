/-
  C12 — keys never interfere: isolation of tables, keys, types and sub-keys; codec order.
  Property theorems over `Z.Codec`, the byte-for-byte model of the rockredis key codec (tied to the
  real encoders/decoders by the `codec` correspondence run; constants regenerated in `Gen.Consts`).
-/
import ZanVerif.Data.CodecLemmas

namespace Z.Props.C12
open Z.Codec

/-- every storage key the data mapping writes for user data, as a tuple -/
inductive Tuple
  | kv (rawKey : Bytes)                         -- string value of `table:key`
  | size (t : UInt8) (rawKey : Bytes)           -- size / meta key of a collection (t ∈ hsize, ssize, zsize, lmeta)
  | sub (dt : UInt8) (table key sub : Bytes)    -- hash field / set member / zset member key (dt ∈ hash, set, zset)
  | list (table key : Bytes) (seq : Int)        -- list element key
  deriving DecidableEq

def encode : Tuple → Bytes
  | .kv k => kvKey k
  | .size t k => metaKey t k
  | .sub dt t k s => collSubKey dt t k s
  | .list t k q => listKey t k q

def isMetaType (t : UInt8) : Prop := t = Gen.cHSizeType ∨ t = Gen.cSSizeType ∨ t = Gen.cZSizeType ∨ t = Gen.cLMetaType
def isCollType (t : UInt8) : Prop := t = Gen.cHashType ∨ t = Gen.cSetType ∨ t = Gen.cZSetType

/-- well-formedness = what the callers guarantee: known type bytes, table and key lengths fit the
    2-byte length fields (enforced far below that by `CheckKey`: `Gen.cMaxKeySize`), int64 sequence numbers -/
def Wf : Tuple → Prop
  | .kv _ => True
  | .size t _ => isMetaType t
  | .sub dt t k _ => isCollType dt ∧ t.length < 65536 ∧ k.length < 65536
  | .list t k q => t.length < 65536 ∧ k.length < 65536 ∧ inI64 q

/-- the limits the server enforces are far inside the codec's 16-bit length fields -/
theorem limits_fit : Gen.cMaxKeySize < 65536 ∧ Gen.cMaxSubKeyLen < 65536 ∧ Gen.cMaxTableNameLen < 65536 := by decide

theorem nonKV_prefix {dt : UInt8} (h : dt ≠ Gen.cKVType) (t : Bytes) :
    tablePrefix dt t = dt :: (be16 t.length ++ t ++ [Gen.cTableStartSep]) := by
  unfold tablePrefix; simp [h]

theorem coll_ne_kv {dt : UInt8} (h : isCollType dt) : dt ≠ Gen.cKVType := by
  rcases h with h | h | h <;> subst h <;> decide

theorem list_ne_kv : Gen.cListType ≠ Gen.cKVType := by decide

/-- **C12, injectivity across all encoders jointly**: two well-formed tuples with the same storage key
    are the same tuple — whatever the bytes (':' inside names, 0x00/0xff, names that are prefixes of
    each other, names that collide after naive concatenation). -/
theorem C12_encode_injective (a b : Tuple) (ha : Wf a) (hb : Wf b) (h : encode a = encode b) : a = b := by
  cases a with
  | kv k =>
    cases b with
    | kv k' => simp only [encode, kvKey, List.cons.injEq, true_and] at h; rw [h]
    | size t k' =>
      exfalso; simp only [encode, kvKey, metaKey, List.cons.injEq] at h
      rcases hb with e | e | e | e <;> rw [e] at h <;> exact absurd h.1 (by decide)
    | sub dt t k' s =>
      exfalso; simp only [encode, kvKey, collSubKey, nonKV_prefix (coll_ne_kv hb.1), List.cons_append, List.cons.injEq] at h
      rcases hb.1 with e | e | e <;> rw [e] at h <;> exact absurd h.1 (by decide)
    | list t k' q =>
      exfalso; simp only [encode, kvKey, listKey, nonKV_prefix list_ne_kv, List.cons_append, List.cons.injEq] at h
      exact absurd h.1 (by decide)
  | size t k =>
    cases b with
    | kv k' =>
      exfalso; simp only [encode, kvKey, metaKey, List.cons.injEq] at h
      rcases ha with e | e | e | e <;> rw [e] at h <;> exact absurd h.1 (by decide)
    | size t' k' =>
      simp only [encode, metaKey, List.cons.injEq] at h
      obtain ⟨rfl, h2⟩ := h
      rw [List.append_cancel_left h2]
    | sub dt t' k' s =>
      exfalso; simp only [encode, metaKey, collSubKey, nonKV_prefix (coll_ne_kv hb.1), List.cons_append, List.cons.injEq] at h
      rcases ha with e | e | e | e <;> rcases hb.1 with e' | e' | e' <;> rw [e, e'] at h <;> exact absurd h.1 (by decide)
    | list t' k' q =>
      exfalso; simp only [encode, metaKey, listKey, nonKV_prefix list_ne_kv, List.cons_append, List.cons.injEq] at h
      rcases ha with e | e | e | e <;> rw [e] at h <;> exact absurd h.1 (by decide)
  | sub dt t k s =>
    cases b with
    | kv k' =>
      exfalso; simp only [encode, kvKey, collSubKey, nonKV_prefix (coll_ne_kv ha.1), List.cons_append, List.cons.injEq] at h
      rcases ha.1 with e | e | e <;> rw [e] at h <;> exact absurd h.1 (by decide)
    | size t' k' =>
      exfalso; simp only [encode, metaKey, collSubKey, nonKV_prefix (coll_ne_kv ha.1), List.cons_append, List.cons.injEq] at h
      rcases hb with e | e | e | e <;> rcases ha.1 with e' | e' | e' <;> rw [e, e'] at h <;> exact absurd h.1 (by decide)
    | sub dt' t' k' s' =>
      simp only [encode, collSubKey, nonKV_prefix (coll_ne_kv ha.1), nonKV_prefix (coll_ne_kv hb.1),
        List.cons_append, List.cons.injEq, List.append_assoc] at h
      obtain ⟨rfl, h2⟩ := h
      obtain ⟨rfl, h3⟩ := lenPrefixed_inj ha.2.1 hb.2.1 h2
      simp only [List.cons_append, List.cons.injEq, true_and, List.nil_append] at h3
      obtain ⟨rfl, h4⟩ := lenPrefixed_inj ha.2.2 hb.2.2 h3
      simp only [List.cons_append, List.cons.injEq, true_and, List.nil_append] at h4
      rw [h4]
    | list t' k' q =>
      exfalso; simp only [encode, listKey, collSubKey, nonKV_prefix (coll_ne_kv ha.1), nonKV_prefix list_ne_kv, List.cons_append, List.cons.injEq] at h
      rcases ha.1 with e | e | e <;> rw [e] at h <;> exact absurd h.1 (by decide)
  | list t k q =>
    cases b with
    | kv k' =>
      exfalso; simp only [encode, kvKey, listKey, nonKV_prefix list_ne_kv, List.cons_append, List.cons.injEq] at h
      exact absurd h.1 (by decide)
    | size t' k' =>
      exfalso; simp only [encode, metaKey, listKey, nonKV_prefix list_ne_kv, List.cons_append, List.cons.injEq] at h
      rcases hb with e | e | e | e <;> rw [e] at h <;> exact absurd h.1 (by decide)
    | sub dt' t' k' s' =>
      exfalso; simp only [encode, listKey, collSubKey, nonKV_prefix (coll_ne_kv hb.1), nonKV_prefix list_ne_kv, List.cons_append, List.cons.injEq] at h
      rcases hb.1 with e | e | e <;> rw [e] at h <;> exact absurd h.1 (by decide)
    | list t' k' q' =>
      simp only [encode, listKey, nonKV_prefix list_ne_kv, List.cons_append, List.cons.injEq, List.append_assoc, true_and] at h
      obtain ⟨rfl, h3⟩ := lenPrefixed_inj ha.1 hb.1 h
      simp only [List.cons_append, List.cons.injEq, true_and, List.nil_append] at h3
      obtain ⟨rfl, h4⟩ := lenPrefixed_inj ha.2.1 hb.2.1 h3
      have := toU64_inj ha.2.2 hb.2.2 (be64_inj (toU64_lt _) (toU64_lt _) h4)
      rw [this]

/-- **range exactness of a collection**: the half-open range `[start, stop)` used by clear / scan /
    HGETALL / SMEMBERS contains exactly the byte strings that are sub-keys of that collection -/
theorem C12_coll_range_exact (dt : UInt8) (table key x : Bytes) :
    (collStart dt table key ≤ x ∧ x < collStop dt table key) ↔ ∃ sub, x = collSubKey dt table key sub := by
  unfold collStart collStop collSubKey
  have h := Z.Range.range_iff Gen.cCollStartSep (by decide) (tablePrefix dt table ++ be16 key.length ++ key) x
  simp only [List.append_nil]
  exact h

/-- … and therefore no key of any *other* tuple lies in a collection's range -/
theorem C12_range_isolated (dt : UInt8) (table key : Bytes) (hdt : isCollType dt)
    (ht : table.length < 65536) (hk : key.length < 65536) (u : Tuple) (hu : Wf u)
    (h : collStart dt table key ≤ encode u ∧ encode u < collStop dt table key) :
    ∃ sub, u = .sub dt table key sub := by
  obtain ⟨s, hs⟩ := (C12_coll_range_exact dt table key (encode u)).mp h
  exact ⟨s, C12_encode_injective u (.sub dt table key s) hu ⟨hdt, ht, hk⟩ hs⟩

/-- **range exactness of a table** (whole-table delete, table scans of one data type) -/
theorem C12_table_range_exact (dt : UInt8) (hdt : dt ≠ Gen.cKVType) (table x : Bytes) :
    (tableStart dt table ≤ x ∧ x < tableEnd dt table) ↔ ∃ f, x = tablePrefix dt table ++ f := by
  unfold tableStart tableEnd
  rw [nonKV_prefix hdt]
  simp only [hdt, if_false]
  have h := Z.Range.range_iff Gen.cTableStartSep (by decide) (dt :: (be16 table.length ++ table)) x
  simpa [List.append_assoc] using h

theorem C12_kv_table_range_exact (table x : Bytes) :
    (tableStart Gen.cKVType table ≤ x ∧ x < tableEnd Gen.cKVType table) ↔
      ∃ key, x = kvKey (packRedisKey table key) := by
  unfold tableStart tableEnd tablePrefix kvKey packRedisKey
  simp only [if_true]
  have h := Z.Range.range_iff Gen.cTableStartSep (by decide) (Gen.cKVType :: table) x
  simpa [List.append_assoc] using h

/-! ### the order-preserving composite-key codec (versioned keys, index keys) -/

/-- `EncodeBytes` preserves order, for all byte strings -/
theorem C12_memcmp_bytes_order (a b : Bytes) : encBytes 0 a < encBytes 0 b ↔ a < b := encBytes_lt_iff a b

/-- `EncodeBytes` is self-delimiting (hence injective and prefix-free): the decoder can never confuse
    where one component ends -/
theorem C12_memcmp_bytes_selfdelim (a b r r' : Bytes) (h : encBytes 0 a ++ r = encBytes 0 b ++ r') :
    a = b ∧ r = r' := encBytes_append_inj a b 0 r r' (by omega) h

/-- `EncodeInt` preserves order and is injective on int64 -/
theorem C12_memcmp_int_order (a b : Int) (ha : inI64 a) (hb : inI64 b) :
    (encInt a < encInt b ↔ a < b) ∧ (encInt a = encInt b → a = b) :=
  ⟨encInt_lt ha hb, encInt_inj ha hb⟩

theorem flags_distinct : Gen.cBytesFlag ≠ Gen.cIntFlag ∧ Gen.cBytesFlag ≠ Gen.cFloatFlag ∧ Gen.cIntFlag ≠ Gen.cFloatFlag ∧
    Gen.cNilFlag ≠ Gen.cBytesFlag ∧ Gen.cNilFlag ≠ Gen.cIntFlag ∧ Gen.cNilFlag ≠ Gen.cFloatFlag := by decide

theorem verKey_unfold (k : Bytes) (v : Int) :
    verKey k v = Gen.cBytesFlag :: (encBytes 0 k ++ (Gen.cIntFlag :: (encInt (Gen.cDefaultSep.toNat : Int) ++
      (Gen.cIntFlag :: (encInt v ++ (Gen.cIntFlag :: encInt (Gen.cDefaultSep.toNat : Int))))))) := by
  simp [verKey, memcmpEncode, encOne]

/-- versioned key (key, ':', version, ':'): injective — a collection's generations never share sub-keys -/
theorem C12_verkey_injective (k k' : Bytes) (v v' : Int) (hv : inI64 v) (hv' : inI64 v')
    (h : verKey k v = verKey k' v') : k = k' ∧ v = v' := by
  rw [verKey_unfold, verKey_unfold] at h
  simp only [List.cons.injEq, true_and] at h
  obtain ⟨rfl, h2⟩ := encBytes_append_inj k k' 0 _ _ (by omega) h
  simp only [List.cons.injEq, true_and] at h2
  have h3 := List.append_cancel_left h2
  simp only [List.cons.injEq, true_and] at h3
  have h4 := List.append_inj h3 (by rw [encInt_length, encInt_length])
  exact ⟨rfl, encInt_inj hv hv' h4.1⟩

/-- versioned keys compare as the tuple (key, version): all sub-keys of generation v of key k sort
    together, generations of one key sort by version, and no other key sorts in between -/
theorem C12_verkey_order (k k' : Bytes) (v v' : Int) (hv : inI64 v) (hv' : inI64 v') :
    verKey k v < verKey k' v' ↔ k < k' ∨ (k = k' ∧ v < v') := by
  rw [verKey_unfold, verKey_unfold]
  have hsep : inI64 (Gen.cDefaultSep.toNat : Int) := by unfold inI64; decide
  rw [List.cons_lt_cons_iff]
  simp only [true_and]
  have irr : ¬ (Gen.cBytesFlag < Gen.cBytesFlag) := by decide
  have irr2 : ¬ (Gen.cIntFlag < Gen.cIntFlag) := by decide
  rw [bytes_piece_lt_iff]
  simp only [List.cons_lt_cons_iff, true_and, irr, irr2, false_or]
  rw [int_piece_lt_iff hsep hsep]
  simp only [List.cons_lt_cons_iff, true_and, irr2, false_or, Int.lt_irrefl]
  rw [int_piece_lt_iff hv hv']
  simp only [List.cons_lt_cons_iff, true_and, irr2, false_or, List.lt_irrefl, and_false, or_false]

/-- sub-keys of a versioned collection: (type, table, key, version, sub-key) ↦ storage key is injective -/
theorem C12_versioned_subkey_injective (dt : UInt8) (t k s t' k' s' : Bytes) (v v' : Int)
    (hdt : isCollType dt) (ht : t.length < 65536) (ht' : t'.length < 65536)
    (hk : (verKey k v).length < 65536) (hk' : (verKey k' v').length < 65536) (hv : inI64 v) (hv' : inI64 v')
    (h : collSubKey dt t (verKey k v) s = collSubKey dt t' (verKey k' v') s') :
    t = t' ∧ k = k' ∧ v = v' ∧ s = s' := by
  have := C12_encode_injective (.sub dt t (verKey k v) s) (.sub dt t' (verKey k' v') s') ⟨hdt, ht, hk⟩ ⟨hdt, ht', hk'⟩ h
  simp only [Tuple.sub.injEq, true_and] at this
  obtain ⟨rfl, hkk, rfl⟩ := this
  obtain ⟨rfl, rfl⟩ := C12_verkey_injective k k' v v' hv hv' hkk
  exact ⟨rfl, rfl, rfl, rfl⟩

/-! non-vacuity: concrete adversarial tuples (names that are prefixes of each other / contain ':') -/
example : encode (.sub Gen.cHashType [0x61] [0x62, 0x3a] [0x63]) ≠ encode (.sub Gen.cHashType [0x61] [0x62] [0x3a, 0x63]) := by decide
example : Wf (.sub Gen.cHashType [0x61] [0x62, 0x3a] [0x63]) := by unfold Wf isCollType; decide
example : verKey [1, 2] 5 < verKey [1, 2] 6 ∧ verKey [1, 2] 6 < verKey [1, 2, 0] (-3) := by decide

end Z.Props.C12
