/-
  C13 — cursor scans return every element exactly once, in order.
  Theorems over `Z.Scan`, the model of rockredis/scan.go + node/scan.go that the `scan` correspondence
  ties to the real handlers: the client loop "feed the returned cursor back until it is empty" over the
  members of a collection (HSCAN / SSCAN / ZSCAN and the reverse forms) returns exactly the members
  beyond the start cursor — each once, in key order (descending for the reverse forms) — and
  terminates, for every duplicate-free sorted population of non-empty names, every COUNT in 1..5000,
  every start cursor, both directions. The paging core is `Z.Paged.scanAll_eq`, parametric in the order.
  Key scans (ADVSCAN / ADVREVSCAN over one table, with the node's next-cursor and table-boundary rules): second part of
  this file (`C13_key_scan_*`), over `Data/ScanKeyLemmas.lean`.
-/
import ZanVerif.Data.ScanLemmas
import ZanVerif.Data.ScanKeyLemmas

namespace Z.Props.C13
open Z.Scan Z.IterP

/-- forward collection scan: complete, once, in order, terminating (fuel = enough rounds) -/
theorem C13_coll_scan_forward (ms : List Bytes) (hs : ms.Pairwise (· < ·)) (hne : ∀ m ∈ ms, m ≠ [])
    (c : Int) (h1 : 1 ≤ c) (h2 : c ≤ 5000) (start : Bytes) (fuel : Nat)
    (hfuel : (ms.filter (fun k => decide (start < k))).length < fuel * c.toNat) :
    (collFull ms c false fuel start 0).1 = ms.filter (fun k => decide (start < k)) := by
  have h := collFull_eq_scanAll (α := Bytes) id ms ms c false h1
    (fun cur => by simp [storePage_fwd ms cur h1 h2]) (fun k hk => hne k hk) fuel start 0
  simp only [id, List.map_id'] at h
  rw [h]
  have := Z.Paged.scanAll_eq ms (sorted_pairwise_bytes hs) c.toNat (by omega) fuel (some start)
    (by simpa [Z.Paged.above] using hfuel)
  simpa [Z.Paged.above] using this

/-- reverse collection scan: the members before the start cursor, descending, each once -/
theorem C13_coll_scan_reverse (ms : List Bytes) (hs : ms.Pairwise (· < ·)) (hne : ∀ m ∈ ms, m ≠ [])
    (c : Int) (h1 : 1 ≤ c) (h2 : c ≤ 5000) (start : Bytes) (fuel : Nat)
    (hfuel : (ms.filter (fun k => decide (k < start))).length < fuel * c.toNat) :
    (collFull ms c true fuel start 0).1 = (ms.filter (fun k => decide (k < start))).reverse := by
  have h := collFull_eq_scanAll (α := Flip Bytes) (fun (x : Flip Bytes) => (x : Bytes)) ms.reverse ms c true h1
    (fun cur => by rw [storePage_rev ms cur h1 h2]; exact (List.map_id _).symm)
    (fun k hk => hne k (List.mem_reverse.mp hk)) fuel start 0
  have h' : (collFull ms c true fuel start 0).1 = Z.Paged.scanAll (α := Flip Bytes) ms.reverse c.toNat fuel (some start) :=
    h.trans (List.map_id _)
  rw [h']
  have hab : Z.Paged.above (α := Flip Bytes) ms.reverse (some start) = (ms.filter (fun k => decide (k < start))).reverse := by
    unfold Z.Paged.above
    have : List.filter (fun k => decide (k < start)) ms.reverse = (List.filter (fun k => decide (k < start)) ms).reverse :=
      List.filter_reverse
    rw [← this]; rfl
  have hlen : (Z.Paged.above (α := Flip Bytes) ms.reverse (some start)).length < fuel * c.toNat := by
    have e : (Z.Paged.above (α := Flip Bytes) ms.reverse (some start)).length
        = (ms.filter (fun k => decide (k < start))).length := by
      rw [hab]; exact List.length_reverse
    rw [e]; exact hfuel
  have := Z.Paged.scanAll_eq (α := Flip Bytes) ms.reverse (sorted_rev_flip hs) c.toNat (by omega) fuel (some start) hlen
  rw [this, hab]

/-- the paging core, for any strict total order and any page size ≥ 1 (also what ADVSCAN iterates inside
    one table): concatenated pages = the keys beyond the start cursor -/
theorem C13_paging_core {α : Type} [SOrd α] (ks : List α) (hs : Sorted ks) (n : Nat) (hn : 1 ≤ n) (fuel : Nat)
    (cursor : Option α) (h : (Z.Paged.above ks cursor).length < fuel * n) :
    Z.Paged.scanAll ks n fuel cursor = Z.Paged.above ks cursor := Z.Paged.scanAll_eq ks hs n hn fuel cursor h

/-- **MATCH**: a collection scan with a filter pages over the matching members only (what the store does: it skips
    non-matching members while it counts to COUNT). For every decidable filter `p`: the client loop returns exactly the
    matching members beyond the start cursor, each once, in key order. (That the real MATCH scan IS the paging over the
    filtered population is what the `fullm` / `cfullm` lines of protocol `scan` compare, for prefix patterns.) -/
theorem C13_coll_scan_match (ms : List Bytes) (hs : ms.Pairwise (· < ·)) (hne : ∀ m ∈ ms, m ≠ []) (p : Bytes → Bool)
    (c : Int) (h1 : 1 ≤ c) (h2 : c ≤ 5000) (start : Bytes) (fuel : Nat)
    (hfuel : ((ms.filter p).filter (fun k => decide (start < k))).length < fuel * c.toNat) :
    (collFull (ms.filter p) c false fuel start 0).1 = (ms.filter (fun k => decide (start < k))).filter p := by
  rw [C13_coll_scan_forward (ms.filter p) (List.Pairwise.sublist List.filter_sublist hs)
    (fun m hm => hne m (List.mem_filter.mp hm).1) c h1 h2 start fuel hfuel]
  simp only [List.filter_filter]
  congr 1
  funext k
  exact Bool.and_comm _ _

example : (collFull ([[97], [97, 48], [98], [109]].filter (fun k => [97].isPrefixOf k)) 1 false 10 [] 0).1 = [[97], [97, 48]] := by decide

/-! non-vacuity -/
example : (collFull [[1], [1, 0], [2], [3]] 2 false 10 [] 0).1 = [[1], [1, 0], [2], [3]] := by decide
example : (collFull [[1], [1, 0], [2], [3]] 2 true 10 [9] 0).1 = [[3], [2], [1, 0], [1]] := by decide


/-! ## key scans: ADVSCAN / ADVREVSCAN over ONE TABLE of a store that holds any number of tables

  `ks` = the raw keys `table:key` the store holds for the scanned type, ascending and duplicate-free, of ANY tables
  (also keys without ':'); `t` = the addressed table, any byte string without ':' (58) - also the empty one, also one
  that is a prefix / neighbour of other tables (`t`, `t!`, `t0`); `cur` = ANY start cursor (the key part; it may hold
  ':' and need not be a key). `advFull` is the client loop "feed the returned cursor back as `t:cursor` until it is
  empty" over `advPage` = node/scan.go `advanceScanCommand` (next cursor = key part of the last key unless the page is
  shorter than COUNT; a page whose last key is of another table is cut at the boundary and ends the scan) over the
  store page (first `checkScanCount COUNT` keys beyond the raw cursor). No hypothesis on the keys: a key `t:` with an
  empty key part, keys that are prefixes of each other, a last page that is exactly full are all covered.
  The answer is a `filter` of `ks`: each key at most once, in the order of `ks`, only keys of table `t`, and every key of
  `t` beyond the cursor. -/

/-- **forward key scan** (ADVSCAN), `1 ≤ COUNT ≤ 5000`: exactly the keys of table `t` beyond `t:cur`, each once,
    ascending, nothing of a neighbouring table; terminates after exactly ⌊results / COUNT⌋ + 1 rounds. -/
theorem C13_key_scan_forward (ks : List Bytes) (hs : ks.Pairwise (· < ·)) (t : Bytes) (ht : (58 : UInt8) ∉ t)
    (c : Int) (h1 : 1 ≤ c) (h2 : c ≤ 5000) (cur : Bytes) (fuel : Nat)
    (hfuel : keyScanFuel (ks.filter (fun k => tableIs t k && decide (t ++ [58] ++ cur < k))).length c ≤ fuel) :
    ∃ rounds, advFull ks t c false fuel cur 0
        = some (ks.filter (fun k => tableIs t k && decide (t ++ [58] ++ cur < k)), rounds) ∧
      rounds = (ks.filter (fun k => tableIs t k && decide (t ++ [58] ++ cur < k))).length / c.toNat + 1 := by
  have e := tpart_fwd hs t cur ht
  obtain ⟨r, h, _, _, _, hex⟩ := advFull_main ks hs t ht c h1 h2 false fuel cur
    (by rw [e]; unfold keyScanFuel at hfuel; omega)
  rw [e] at h hex
  exact ⟨r, h, hex (e ▸ empty_key_not_in_tpart_fwd ks t cur)⟩

/-- **reverse key scan** (ADVREVSCAN), `1 ≤ COUNT ≤ 5000`: exactly the keys of table `t` before `t:cur`, each once,
    descending; terminates after ⌊results / COUNT⌋ + 1 rounds, or one round less (possible only if the store holds the key
    `t:` with the empty key part: a full page that ends with it hands out the empty cursor). -/
theorem C13_key_scan_reverse (ks : List Bytes) (hs : ks.Pairwise (· < ·)) (t : Bytes) (ht : (58 : UInt8) ∉ t)
    (c : Int) (h1 : 1 ≤ c) (h2 : c ≤ 5000) (cur : Bytes) (fuel : Nat)
    (hfuel : keyScanFuel (ks.filter (fun k => tableIs t k && decide (k < t ++ [58] ++ cur))).length c ≤ fuel) :
    ∃ rounds, advFull ks t c true fuel cur 0
        = some ((ks.filter (fun k => tableIs t k && decide (k < t ++ [58] ++ cur))).reverse, rounds) ∧
      (ks.filter (fun k => tableIs t k && decide (k < t ++ [58] ++ cur))).length / c.toNat ≤ rounds ∧ 1 ≤ rounds ∧
      rounds ≤ (ks.filter (fun k => tableIs t k && decide (k < t ++ [58] ++ cur))).length / c.toNat + 1 ∧
      ((t ++ [58]) ∉ ks →
        rounds = (ks.filter (fun k => tableIs t k && decide (k < t ++ [58] ++ cur))).length / c.toNat + 1) := by
  have e := tpart_rev hs t cur ht
  have hl : (tpart ks t cur true).length = (ks.filter (fun k => tableIs t k && decide (k < t ++ [58] ++ cur))).length := by
    rw [e, List.length_reverse]
  obtain ⟨r, h, hlo, hpos, hhi, hex⟩ := advFull_main ks hs t ht c h1 h2 true fuel cur
    (by rw [hl]; unfold keyScanFuel at hfuel; omega)
  rw [hl] at hlo hhi hex
  rw [e] at h hex
  refine ⟨r, h, hlo, hpos, hhi, fun hn => hex (fun hm => hn ?_)⟩
  exact (List.mem_filter.mp (List.mem_reverse.mp hm)).1

/-- **MATCH** on key scans: the store skips the keys that do not match while it counts to COUNT, so a scan with a filter
    pages over the matching keys only (that the real MATCH scan IS `advFull` over the filtered population is what the
    `fullm` lines of protocol `scan` compare, for prefix patterns `t:<prefix>*`). For every decidable filter `p`, both
    directions: exactly the matching keys of table `t` beyond the cursor, each once, in scan order. -/
theorem C13_key_scan_match (ks : List Bytes) (hs : ks.Pairwise (· < ·)) (t : Bytes) (ht : (58 : UInt8) ∉ t)
    (p : Bytes → Bool) (c : Int) (h1 : 1 ≤ c) (h2 : c ≤ 5000) (rev : Bool) (cur : Bytes) (fuel : Nat)
    (hfuel : keyScanFuel ((keyScanSpec ks t cur rev).filter p).length c ≤ fuel) :
    ∃ rounds, advFull (ks.filter p) t c rev fuel cur 0 = some ((keyScanSpec ks t cur rev).filter p, rounds) ∧
      ((keyScanSpec ks t cur rev).filter p).length / c.toNat ≤ rounds ∧
      rounds ≤ ((keyScanSpec ks t cur rev).filter p).length / c.toNat + 1 := by
  have hs' : (ks.filter p).Pairwise (· < ·) := hs.filter p
  have e : tpart (ks.filter p) t cur rev = (keyScanSpec ks t cur rev).filter p := by
    rw [tpart_eq_spec hs' t cur ht rev]
    cases rev
    · simp only [keyScanSpec, Bool.false_eq_true, if_false, List.filter_filter]
      apply List.filter_congr; intro k _; exact Bool.and_comm _ _
    · simp only [keyScanSpec, if_true, List.filter_filter, List.filter_reverse]
      congr 1
      apply List.filter_congr; intro k _; exact Bool.and_comm _ _
  obtain ⟨r, h, hlo, _, hhi, _⟩ := advFull_main (ks.filter p) hs' t ht c h1 h2 rev fuel cur
    (by rw [e]; unfold keyScanFuel at hfuel; omega)
  rw [e] at h hlo hhi
  exact ⟨r, h, hlo, hhi⟩

/-- **COUNT omitted / 0** (`checkScanCount`: pages of 100; a negative COUNT is refused by `parseScanArgs` before the
    handler gets here): the same answer, both directions; the node calls only the EMPTY page the last one, so the scan
    may need one more round: at most ⌊results / 100⌋ + 2. -/
theorem C13_key_scan_default_count (ks : List Bytes) (hs : ks.Pairwise (· < ·)) (t : Bytes) (ht : (58 : UInt8) ∉ t)
    (c : Int) (h0 : c ≤ 0) (rev : Bool) (cur : Bytes) (fuel : Nat)
    (hfuel : (keyScanSpec ks t cur rev).length / 100 + 2 ≤ fuel) :
    ∃ rounds, advFull ks t c rev fuel cur 0 = some (keyScanSpec ks t cur rev, rounds) ∧
      (keyScanSpec ks t cur rev).length / 100 ≤ rounds ∧ rounds ≤ (keyScanSpec ks t cur rev).length / 100 + 2 := by
  have e := tpart_eq_spec hs t cur ht rev
  obtain ⟨r, h, hlo, _, hhi⟩ := advFull_default ks hs t ht c h0 rev fuel cur (by rw [e]; omega)
  rw [e] at h hlo hhi
  exact ⟨r, h, hlo, hhi⟩

/-- **every COUNT ≥ 1** (the property's "any COUNT"): the node clamps COUNT to the store's page limit when it parses it
    (`parseCount`, regenerated from parseScanArgs: Gen/Scan.lean — since fix fbc9256), so the client loop is complete for every
    COUNT, forwards and in reverse -/
theorem C13_key_scan_any_count (ks : List Bytes) (hs : ks.Pairwise (· < ·)) (t : Bytes) (ht : (58 : UInt8) ∉ t)
    (c : Int) (h1 : 1 ≤ c) (rev : Bool) (cur : Bytes) (fuel : Nat)
    (hfuel : keyScanFuel (keyScanSpec ks t cur rev).length (parseCount c) ≤ fuel) :
    ∃ rounds, advFull ks t (parseCount c) rev fuel cur 0 = some (keyScanSpec ks t cur rev, rounds) := by
  have hb : 1 ≤ parseCount c ∧ parseCount c ≤ 5000 := by
    unfold parseCount Gen.parseCount Gen.scanMaxCount; split <;> omega
  cases rev with
  | false =>
    obtain ⟨r, h, _⟩ := C13_key_scan_forward ks hs t ht (parseCount c) hb.1 hb.2 cur fuel (by simpa [keyScanSpec] using hfuel)
    exact ⟨r, by simpa [keyScanSpec] using h⟩
  | true =>
    obtain ⟨r, h, _⟩ := C13_key_scan_reverse ks hs t ht (parseCount c) hb.1 hb.2 cur fuel (by simpa [keyScanSpec] using hfuel)
    exact ⟨r, by simpa [keyScanSpec] using h⟩

example : parseCount 6000 = 5000 ∧ parseCount 17 = 17 := by decide

/-- **why the clamp is needed — the defect repaired by fbc9256.** WITHOUT it (COUNT > 5000 reaching the loop unclamped): the
    store clamps the page to 5000 keys (`checkScanCount`), the node compares the page length with the UNCLAMPED count
    (`length < count`), so every page is "the last one": the client loop ends after ONE round with the first 5000 keys of
    the answer and the empty cursor - for every population, table, cursor, direction and fuel. (This is what the real node
    did before the fix: notes/probes/C13-count-over-5000.*; the witness ops are replayed from corpus/C13 on every run now.) -/
theorem C13_key_scan_count_over_5000 (ks : List Bytes) (hs : ks.Pairwise (· < ·)) (t : Bytes) (ht : (58 : UInt8) ∉ t)
    (c : Int) (hc : 5000 < c) (rev : Bool) (cur : Bytes) (fuel : Nat) :
    advFull ks t c rev (fuel + 1) cur 0 = some ((keyScanSpec ks t cur rev).take 5000, 1) := by
  rw [← tpart_eq_spec hs t cur ht rev]
  exact advFull_over ks hs t ht c hc rev fuel cur 0

/-- … hence a table with more than 5000 keys beyond the cursor is never scanned completely with COUNT > 5000 -/
theorem C13_key_scan_count_over_5000_incomplete (ks : List Bytes) (hs : ks.Pairwise (· < ·)) (t : Bytes)
    (ht : (58 : UInt8) ∉ t) (c : Int) (hc : 5000 < c) (rev : Bool) (cur : Bytes) (fuel : Nat)
    (hmore : 5000 < (keyScanSpec ks t cur rev).length) (rounds : Nat) :
    advFull ks t c rev (fuel + 1) cur 0 ≠ some (keyScanSpec ks t cur rev, rounds) := by
  rw [C13_key_scan_count_over_5000 ks hs t ht c hc rev cur fuel]
  intro h
  have h' : (keyScanSpec ks t cur rev).take 5000 = keyScanSpec ks t cur rev := by
    simpa using congrArg (fun o => o.map Prod.fst) h
  have := congrArg List.length h'
  rw [List.length_take] at this
  omega

set_option maxRecDepth 100000 in
/-- witness, by evaluation of the model (population: 5001 keys `t:<hi><lo>` of one table; replayed on the real node: same
    answer): the client loop of ADVSCAN with COUNT 5001 ends after one round with the first 5000 keys - the 5001st key
    `t:\x13\x88` is never returned -/
theorem C13_key_scan_count_over_5000_witness :
    advFull (manyKeys 5001) [116] 5001 false 2001 [] 0 = some ((manyKeys 5001).take 5000, 1) ∧
    (keyScanSpec (manyKeys 5001) [116] [] false).length = 5001 := by
  decide +kernel

/-- the hypothesis `58 ∉ t` is needed (and harmless: a raw key `a:b:x` IS a key of table `a`): for the "table" `a:b` the
    handler extracts table `a` from the cursor and returns `a:b:x`, while no key has table `a:b` -/
theorem C13_key_scan_table_with_colon_witness :
    advFull [[97, 58, 98, 58, 120]] [97, 58, 98] 3 false 5 [] 0 = some ([[97, 58, 98, 58, 120]], 1) ∧
    keyScanSpec [[97, 58, 98, 58, 120]] [97, 58, 98] [] false = [] := by
  decide

/-! non-vacuity (key scans) on `demoKeys` = `s:a  t!:a  t0:b  t:  t:a  t:a:b  t:b  u:a  u:b` (five tables, neighbours
    `t!:` < `t0:` < `t:` in byte order, the key `t:` with the empty key part, prefixes of each other, a key part with ':') -/
example := C13_key_scan_forward demoKeys (by decide) [116] (by decide) 2 (by decide) (by decide) [] 2 (by decide)
-- forward, COUNT 2: pages [t:a, t:a:b] (full, next cursor `a:b`), [t:b | u:a] (cut at the table boundary)
example : advFull demoKeys [116] 2 false 2001 [] 0 = some ([[116, 58, 97], [116, 58, 97, 58, 98], [116, 58, 98]], 2) := by decide
-- forward, COUNT 3: the last page of the table is exactly full, one more round that is cut to nothing
example : advFull demoKeys [116] 3 false 2001 [] 0 = some ([[116, 58, 97], [116, 58, 97, 58, 98], [116, 58, 98]], 2) := by decide
-- the neighbour tables `t!` (from a cursor that is not a key) and `t0`, between `s:` and `t:`; the empty table name
example : advFull demoKeys [116, 33] 1 false 2001 [0] 0 = some ([[116, 33, 58, 97]], 2) := by decide
example : advFull demoKeys [116, 48] 5 false 2001 [] 0 = some ([[116, 48, 58, 98]], 1) := by decide
example : advFull [[58, 97], [97, 58, 98]] [] 1 false 2001 [] 0 = some ([[58, 97]], 2) := by decide
example := C13_key_scan_reverse demoKeys (by decide) [116] (by decide) 2 (by decide) (by decide) [255, 255, 255] 3 (by decide)
-- reverse from `t:\xff\xff\xff`, COUNT 2: [t:b, t:a:b], [t:a, t:] - a full page ending with `t:` = empty cursor: 4/2 rounds
example : advFull demoKeys [116] 2 true 2001 [255, 255, 255] 0
    = some ([[116, 58, 98], [116, 58, 97, 58, 98], [116, 58, 97], [116, 58]], 2) := by decide
-- reverse, COUNT 3: [t:b, t:a:b, t:a], [t: | t0:b, t!:a] cut at the boundary: 4/3 + 1 rounds
example : advFull demoKeys [116] 3 true 2001 [255, 255, 255] 0
    = some ([[116, 58, 98], [116, 58, 97, 58, 98], [116, 58, 97], [116, 58]], 2) := by decide
-- reverse from a cursor inside the table; the empty start cursor yields nothing in reverse
example : advFull demoKeys [116] 1 true 2001 [97, 58] 0 = some ([[116, 58, 97], [116, 58]], 2) := by decide
example : advFull demoKeys [116] 1 true 2001 [] 0 = some ([], 1) := by decide
-- MATCH t:a* (prefix pattern as the driver applies it), COUNT 1
example := C13_key_scan_match demoKeys (by decide) [116] (by decide) (fun k => [116, 58, 97].isPrefixOf k) 1 (by decide) (by decide)
  false [] 3 (by decide)
example : advFull (demoKeys.filter (fun k => [116, 58, 97].isPrefixOf k)) [116] 1 false 2001 [] 0
    = some ([[116, 58, 97], [116, 58, 97, 58, 98]], 3) := by decide
-- COUNT 0 = default 100: a short page inside the table is not called last, a second (empty) round ends the scan (forward
-- example); the reverse example ends in its first round at the table boundary
example := C13_key_scan_default_count demoKeys (by decide) [117] (by decide) 0 (by decide) true [255] 2 (by decide)
example : advFull demoKeys [117] 0 false 2001 [] 0 = some ([[117, 58, 97], [117, 58, 98]], 2) := by decide
example : advFull demoKeys [117] 0 true 2001 [255] 0 = some ([[117, 58, 98], [117, 58, 97]], 1) := by decide
-- COUNT > 5000: one round whatever the fuel; on 5001 keys (sortedness by the linear test `chainLt`) the scan is incomplete
example := C13_key_scan_count_over_5000 demoKeys (by decide) [116] (by decide) 5001 (by decide) true [255] 7
set_option maxRecDepth 100000 in
example : ∀ rounds, advFull (manyKeys 5001) [116] 5001 false 2001 [] 0 ≠ some (keyScanSpec (manyKeys 5001) [116] [] false, rounds) :=
  C13_key_scan_count_over_5000_incomplete (manyKeys 5001) (pairwise_of_chainLt _ (by decide +kernel)) [116] (by decide) 5001
    (by decide) false [] 2000 (by rw [C13_key_scan_count_over_5000_witness.2]; decide)

end Z.Props.C13
