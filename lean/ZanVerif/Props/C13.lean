/-
  C13 — cursor scans return every element exactly once, in order.
  Theorems over `Z.Scan`, the model of rockredis/scan.go + node/scan.go that the `scan` correspondence
  ties to the real handlers: the client loop "feed the returned cursor back until it is empty" over the
  members of a collection (HSCAN / SSCAN / ZSCAN and the reverse forms) returns exactly the members
  beyond the start cursor — each once, in key order (descending for the reverse forms) — and
  terminates, for every duplicate-free sorted population of non-empty names, every COUNT in 1..5000,
  every start cursor, both directions. The paging core is `Z.Paged.scanAll_eq`, parametric in the order.
  Key scans (ADVSCAN with the table-boundary rule): differential + oracle only (see `partial`).
-/
import ZanVerif.Data.ScanLemmas

namespace Z.Props.C13
open Z.Scan Z.IterP

/-- forward collection scan: complete, once, in order, terminating (fuel = enough rounds) -/
theorem C13_coll_scan_forward (ms : List Bytes) (hs : ms.Pairwise (· < ·)) (hne : ∀ m ∈ ms, m ≠ [])
    (c : Int) (h1 : 1 ≤ c) (h2 : c ≤ 5000) (start : Bytes) (fuel : Nat)
    (hfuel : (ms.filter (fun k => decide (start < k))).length < fuel * c.toNat) :
    (collFull ms c false fuel start 0).1 = ms.filter (fun k => decide (start < k)) := by
  have h := collFull_eq_scanAll (α := Bytes) id ms ms c false h1
    (fun cur => by simp [storePage_fwd ms cur h1 h2]) (fun k hk => hne k hk) fuel start 0
  simp only [id, List.map_id'] at h
  rw [h]
  have := Z.Paged.scanAll_eq ms (sorted_pairwise_bytes hs) c.toNat (by omega) fuel (some start)
    (by simpa [Z.Paged.above] using hfuel)
  simpa [Z.Paged.above] using this

/-- reverse collection scan: the members before the start cursor, descending, each once -/
theorem C13_coll_scan_reverse (ms : List Bytes) (hs : ms.Pairwise (· < ·)) (hne : ∀ m ∈ ms, m ≠ [])
    (c : Int) (h1 : 1 ≤ c) (h2 : c ≤ 5000) (start : Bytes) (fuel : Nat)
    (hfuel : (ms.filter (fun k => decide (k < start))).length < fuel * c.toNat) :
    (collFull ms c true fuel start 0).1 = (ms.filter (fun k => decide (k < start))).reverse := by
  have h := collFull_eq_scanAll (α := Flip Bytes) (fun (x : Flip Bytes) => (x : Bytes)) ms.reverse ms c true h1
    (fun cur => by rw [storePage_rev ms cur h1 h2]; exact (List.map_id _).symm)
    (fun k hk => hne k (List.mem_reverse.mp hk)) fuel start 0
  have h' : (collFull ms c true fuel start 0).1 = Z.Paged.scanAll (α := Flip Bytes) ms.reverse c.toNat fuel (some start) :=
    h.trans (List.map_id _)
  rw [h']
  have hab : Z.Paged.above (α := Flip Bytes) ms.reverse (some start) = (ms.filter (fun k => decide (k < start))).reverse := by
    unfold Z.Paged.above
    have : List.filter (fun k => decide (k < start)) ms.reverse = (List.filter (fun k => decide (k < start)) ms).reverse :=
      List.filter_reverse
    rw [← this]; rfl
  have hlen : (Z.Paged.above (α := Flip Bytes) ms.reverse (some start)).length < fuel * c.toNat := by
    have e : (Z.Paged.above (α := Flip Bytes) ms.reverse (some start)).length
        = (ms.filter (fun k => decide (k < start))).length := by
      rw [hab]; exact List.length_reverse
    rw [e]; exact hfuel
  have := Z.Paged.scanAll_eq (α := Flip Bytes) ms.reverse (sorted_rev_flip hs) c.toNat (by omega) fuel (some start) hlen
  rw [this, hab]

/-- the paging core, for any strict total order and any page size ≥ 1 (also what ADVSCAN iterates inside
    one table): concatenated pages = the keys beyond the start cursor -/
theorem C13_paging_core {α : Type} [SOrd α] (ks : List α) (hs : Sorted ks) (n : Nat) (hn : 1 ≤ n) (fuel : Nat)
    (cursor : Option α) (h : (Z.Paged.above ks cursor).length < fuel * n) :
    Z.Paged.scanAll ks n fuel cursor = Z.Paged.above ks cursor := Z.Paged.scanAll_eq ks hs n hn fuel cursor h

/-- **MATCH**: a collection scan with a filter pages over the matching members only (what the store does: it skips
    non-matching members while it counts to COUNT). For every decidable filter `p`: the client loop returns exactly the
    matching members beyond the start cursor, each once, in key order. (That the real MATCH scan IS the paging over the
    filtered population is what the `fullm` / `cfullm` lines of protocol `scan` compare, for prefix patterns.) -/
theorem C13_coll_scan_match (ms : List Bytes) (hs : ms.Pairwise (· < ·)) (hne : ∀ m ∈ ms, m ≠ []) (p : Bytes → Bool)
    (c : Int) (h1 : 1 ≤ c) (h2 : c ≤ 5000) (start : Bytes) (fuel : Nat)
    (hfuel : ((ms.filter p).filter (fun k => decide (start < k))).length < fuel * c.toNat) :
    (collFull (ms.filter p) c false fuel start 0).1 = (ms.filter (fun k => decide (start < k))).filter p := by
  rw [C13_coll_scan_forward (ms.filter p) (List.Pairwise.sublist List.filter_sublist hs)
    (fun m hm => hne m (List.mem_filter.mp hm).1) c h1 h2 start fuel hfuel]
  simp only [List.filter_filter]
  congr 1
  funext k
  exact Bool.and_comm _ _

example : (collFull ([[97], [97, 48], [98], [109]].filter (fun k => [97].isPrefixOf k)) 1 false 10 [] 0).1 = [[97], [97, 48]] := by decide

/-! non-vacuity -/
example : (collFull [[1], [1, 0], [2], [3]] 2 false 10 [] 0).1 = [[1], [1, 0], [2], [3]] := by decide
example : (collFull [[1], [1, 0], [2], [3]] 2 true 10 [9] 0).1 = [[3], [2], [1, 0], [1]] := by decide

end Z.Props.C13
