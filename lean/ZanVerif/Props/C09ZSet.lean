/-
  C09 — counting commands agree with enumerating commands: the SORTED SET.
  Representation invariant `Z.ZSetInv.Inv` of the executable storage-level model `Z.ZSetExec` (the functions the
  `datacorezset` correspondence runs line by line against the real KVNode), for every key codec satisfying the
  abstract facts `Z.ZSetInv.Enc` — which the REAL codec does (`Z.ZSetReal.realEnc`, from the C12 theorems):
  stored size = number of member keys in the member range = number of score-index keys in the index range;
  member keys ↔ index keys form a bijection with equal scores; meta stored iff non-empty.
  Preserved by EVERY write command, including error outcomes (an error applies nothing).
-/
import ZanVerif.Data.ZSetInv
import ZanVerif.Data.ZSetReal
import ZanVerif.Data.ZSetRef
import ZanVerif.Data.ZSetExample
import ZanVerif.Data.ZSetCmd

namespace Z.Props.C09ZSet
open Z.Ref Z.ZSetExec Z.ZSetInv Z.ZSetRef Z.ZSetExample

/-- the empty store satisfies the invariant -/
theorem C09Z_inv_init (E : Enc) (h : 0 < E.sizeBound) : Inv E [] := (inv_empty E).mpr h

/-- ZADD: several pairs, repeated members (last score wins), new / existing members, unchanged scores -/
theorem C09Z_inv_zadd (E : Enc) {m : List KV} (inv : Inv E m) {k : Bytes} (hk : E.ok k) (ts : Int)
    (pairs : List (Nat × Bytes)) (hgood : ∀ p ∈ pairs, E.good p.1)
    (hlen : (commit m (zadd E.toEncFns m ts k pairs)).1.length < E.sizeBound) :
    Inv E (commit m (zadd E.toEncFns m ts k pairs)).1 := inv_zadd E inv hk ts pairs hgood hlen

/-- ZREM: several members, repeated and absent ones -/
theorem C09Z_inv_zrem (E : Enc) {m : List KV} (inv : Inv E m) {k : Bytes} (hk : E.ok k) (ts : Int) (mems : List Bytes)
    (hlen : (commit m (zrem E.toEncFns m ts k mems)).1.length < E.sizeBound) :
    Inv E (commit m (zrem E.toEncFns m ts k mems)).1 := inv_zrem E inv hk ts mems hlen

/-- the full statement for ZINCRBY (every delta, every float addition) … -/
def C09Z_inv_zincrby_full (E : Enc) : Prop :=
  ∀ (fadd : Nat → Nat → Nat) (m : List KV), Inv E m → ∀ (k : Bytes), E.ok k → ∀ (ts : Int) (delta : Nat) (mem : Bytes),
    (commit m (zincrby E.toEncFns fadd m ts k delta mem)).1.length < E.sizeBound →
    Inv E (commit m (zincrby E.toEncFns fadd m ts k delta mem)).1

/-- … holds whenever the resulting score is not a NaN (new member, existing member, delta 0 = unchanged score).
    `+Inf + -Inf` is the counterexample on the real code: ZINCRBY stores the NaN (finding, see `C12Float`). -/
theorem C09Z_inv_zincrby_partial (E : Enc) {m : List KV} (inv : Inv E m) {k : Bytes} (hk : E.ok k)
    (fadd : Nat → Nat → Nat) (ts : Int) (delta : Nat) (mem : Bytes)
    (hres : E.good (fadd (curScore E m k mem) delta))
    (hlen : (commit m (zincrby E.toEncFns fadd m ts k delta mem)).1.length < E.sizeBound) :
    Inv E (commit m (zincrby E.toEncFns fadd m ts k delta mem)).1 :=
  inv_zincrby_partial E inv hk fadd ts delta mem hres hlen

/-- ZINCRBY as the code runs it since the fix listed in DESIGN §0.2: the sum is computed first and a NaN sum is refused
    (`math.IsNaN(score)` → error, nothing written).  `nanB` is that test. -/
def zincrbyGuarded (E : Enc) (nanB : Nat → Bool) (fadd : Nat → Nat → Nat) (m : List KV) (ts : Int) (k : Bytes)
    (delta : Nat) (mem : Bytes) : Except String (List Op × Nat) :=
  if nanB (fadd (curScore E m k mem) delta) then .error "scorenan" else zincrby E.toEncFns fadd m ts k delta mem

/-- **ZINCRBY preserves the invariant for EVERY delta** once NaN sums are refused: `hnan` says that a sum the test lets
    through is a storable score (for the real codec: a 64-bit pattern that is not a NaN) -/
theorem C09Z_inv_zincrby (E : Enc) {m : List KV} (inv : Inv E m) {k : Bytes} (hk : E.ok k)
    (nanB : Nat → Bool) (fadd : Nat → Nat → Nat) (hnan : ∀ a b, nanB (fadd a b) = false → E.good (fadd a b))
    (ts : Int) (delta : Nat) (mem : Bytes)
    (hlen : (commit m (zincrbyGuarded E nanB fadd m ts k delta mem)).1.length < E.sizeBound) :
    Inv E (commit m (zincrbyGuarded E nanB fadd m ts k delta mem)).1 := by
  unfold zincrbyGuarded at hlen ⊢
  cases hb : nanB (fadd (curScore E m k mem) delta) with
  | true => simpa [hb, commit] using inv
  | false =>
    simp only [hb, Bool.false_eq_true, if_false] at hlen ⊢
    exact inv_zincrby_partial E inv hk fadd ts delta mem (hnan _ _ hb) hlen

/-- ZREMRANGEBYRANK: any start / stop (negative, inverted, out of range, the `zRemAll` shortcut) -/
theorem C09Z_inv_zremrangebyrank (E : Enc) {m : List KV} (inv : Inv E m) {k : Bytes} (hk : E.ok k) (ts : Int)
    (start stop : Int)
    (hlen : (commit m (zremrangebyrank E.toEncFns m ts k start stop)).1.length < E.sizeBound) :
    Inv E (commit m (zremrangebyrank E.toEncFns m ts k start stop)).1 :=
  inv_zremrangebyrank E inv hk ts start stop hlen

/-- ZREMRANGEBYSCORE: any non-NaN bounds, inverted ranges included -/
theorem C09Z_inv_zremrangebyscore (E : Enc) {m : List KV} (inv : Inv E m) {k : Bytes} (hk : E.ok k) (ts : Int)
    {min max : Nat} (hmin : E.good min) (hmax : E.good max)
    (hlen : (commit m (zremrangebyscore E.toEncFns m ts k min max)).1.length < E.sizeBound) :
    Inv E (commit m (zremrangebyscore E.toEncFns m ts k min max)).1 :=
  inv_zremrangebyscore E inv hk ts hmin hmax hlen

/-- ZREMRANGEBYLEX: `-`, `+`, `[x`, `(x`, inverted ranges -/
theorem C09Z_inv_zremrangebylex (E : Enc) {m : List KV} (inv : Inv E m) {k : Bytes} (hk : E.ok k) (ts : Int)
    (min max : Option Bytes) (lopen ropen : Bool)
    (hlen : (commit m (zremrangebylex E.toEncFns m ts k min max lopen ropen)).1.length < E.sizeBound) :
    Inv E (commit m (zremrangebylex E.toEncFns m ts k min max lopen ropen)).1 :=
  inv_zremrangebylex E inv hk ts min max lopen ropen hlen

/-- ZCLEAR (both the iterating branch and the range-delete branch above `RangeDeleteNum` members) -/
theorem C09Z_inv_zclear (E : Enc) {m : List KV} (inv : Inv E m) {k : Bytes} (hk : E.ok k) (ts : Int)
    (hlen : (commit m (zclear E.toEncFns m ts k)).1.length < E.sizeBound) :
    Inv E (commit m (zclear E.toEncFns m ts k)).1 := inv_zclear E inv hk ts hlen

/-! ### the property's wording, under the invariant -/

/-- `ZCARD = |ZRANGE 0 -1| = |ZRANGEBYSCORE -inf +inf| = |ZRANGEBYLEX - +|`: the three enumerating commands answer
    the enumeration `zall` (index order) resp. `zlex` (member order), whose lengths are the stored size
    (up to `MAX_BATCH_NUM` members — beyond that the enumerating commands answer the batch-size error by design) -/
theorem C09Z_zcard_eq_enumerations (E : Enc) {m : List KV} (inv : Inv E m) {k : Bytes} (hk : E.ok k)
    (hsmall : ((zall E m k).length : Int) ≤ maxBatch) :
    zcard E.toEncFns m k = .ok ((zall E m k).length : Int) ∧
    zrange E.toEncFns m k 0 (-1) false = .ok (zall E m k) ∧
    zrangebyscore E.toEncFns m k E.ninf E.pinf true 0 (-1) false = .ok (zall E m k) ∧
    zrangebylex E.toEncFns m k none none false false 0 (-1) = .ok (zlex E m k) ∧
    (zlex E m k).length = (zall E m k).length :=
  ⟨(zcard_eq E inv hk).1, zrange_all E inv hk hsmall, zrangebyscore_all E inv hk hsmall,
   zrangebylex_all E inv hk hsmall, (zcard_eq E inv hk).2.symm⟩

/-- each member is listed exactly once, with (a score `==` to) ZSCORE's score, and every member ZSCORE knows is listed -/
theorem C09Z_each_member_once (E : Enc) {m : List KV} (inv : Inv E m) {k : Bytes} (hk : E.ok k) :
    ((zall E m k).map (·.1)).Nodup ∧
    (∀ mem s', (mem, s') ∈ zall E m k → ∃ s, zscore E.toEncFns m k mem = .ok (some s) ∧ feqB s' s = true) ∧
    (∀ mem s, zscore E.toEncFns m k mem = .ok (some s) → ∃ s', (mem, s') ∈ zall E m k ∧ feqB s' s = true) :=
  ⟨zall_nodup E inv.bij hk, fun _ _ h => zscore_of_listed E inv hk h, fun _ _ h => listed_of_zscore E inv hk h⟩

/-- `ZRANK m` = position of `m` in `ZRANGE 0 -1` -/
theorem C09Z_zrank_is_position (E : Enc) {m : List KV} (inv : Inv E m) {k : Bytes} (hk : E.ok k) {mem : Bytes} {s : Nat}
    (h : zscore E.toEncFns m k mem = .ok (some s)) :
    ∃ (r : Nat) (s' : Nat), zrank E.toEncFns m k mem false = .ok (r : Int) ∧ (zall E m k)[r]? = some (mem, s') ∧
      feqB s' s = true := zrank_position E inv hk h

/-- `ZKEYEXIST ⇔ ZCARD > 0` -/
theorem C09Z_zkeyexist_iff (E : Enc) {m : List KV} (inv : Inv E m) {k : Bytes} (hk : E.ok k) :
    zkeyexist E.toEncFns m k = 1 ↔ 0 < (zall E m k).length := zkeyexist_iff E inv hk

/-- the enumeration is strictly increasing in (score, member): score ties are ordered by member bytes
    (from the codec order theorem `score_lt`, i.e. `C12_zscorekey_order` for the real codec) -/
theorem C09Z_ties_by_member (E : Enc) {m : List KV} (inv : Inv E m) {k : Bytes} (hk : E.ok k) :
    (zall E m k).Pairwise (fun a b => E.lt a.2 b.2 ∨ (feqB a.2 b.2 = true ∧ a.1 < b.1)) :=
  zall_sorted E inv.bij hk

/-- the abstract codec facts are not vacuous: the real codec of rockredis satisfies them (`Z.ZSetReal.realEnc`),
    with float `<` = the sign-magnitude order of `C12Float` -/
theorem C09Z_real_codec : Z.ZSetReal.realEnc.toEncFns = realFns ∧ Z.ZSetReal.realEnc.sizeBound = 2 ^ 63 ∧
    Z.ZSetReal.realEnc.lt = Z.Codec.fltBits ∧ Z.ZSetReal.realEnc.good = Z.Codec.NonNaN := ⟨rfl, rfl, rfl, rfl⟩

/-! ### without the NaN guard ZINCRBY can store a NaN: the full statement about the unguarded storage function is false
    (this was a genuine defect of the code under test — `ZADD k inf m; ZINCRBY k -inf m` — repaired, DESIGN §0.2; the
    guarded command is `zincrbyGuarded` above and in `Z.ZSetCmd.apply`) -/

/-- the store after `ZADD t:z inf m` then `ZINCRBY t:z -inf m`, with IEEE addition (`+Inf + -Inf` = NaN) -/
def nanM0 : List KV := (commit [] (zadd realFns [] 1 exK [(Z.ZSetCmd.infBits, [109])])).1
def nanM : List KV :=
  (commit nanM0 (zincrby realFns (fun a b => (Z.ZSetCmd.faddBits a b).getD 0) nanM0 2 exK Z.ZSetCmd.negInfBits [109])).1

/-- on that store ZCARD = 1 but ZRANGEBYSCORE -inf +inf lists nothing, and the member's score is a NaN pattern:
    exactly what the real code answers (witness replayed on the real KVNode, see the report) -/
theorem C09Z_zincrby_nan_witness :
    zcard realFns nanM exK = .ok 1 ∧
    zrangebyscore realFns nanM exK Z.Codec.negInfBits Z.Codec.posInfBits true 0 (-1) false = .ok [] ∧
    zscore realFns nanM exK [109] = .ok (some 0xFFF8000000000000) := ⟨by rfl, by rfl, by rfl⟩

/-- hence ZINCRBY does NOT preserve the invariant for every delta: `C09Z_inv_zincrby_full` is false at the real codec -/
theorem C09Z_inv_zincrby_full_false : ¬ C09Z_inv_zincrby_full Z.ZSetReal.realEnc := by
  intro hfull
  have inv0 : Inv Z.ZSetReal.realEnc nanM0 :=
    inv_zadd Z.ZSetReal.realEnc ((inv_empty Z.ZSetReal.realEnc).mpr (by decide)) exK_ok 1 _
      (by intro p hp
          simp only [List.mem_cons, List.not_mem_nil, or_false] at hp
          subst hp
          show Z.Codec.NonNaN _; decide)
      (by decide)
  have inv1 : Inv Z.ZSetReal.realEnc nanM :=
    hfull (fun a b => (Z.ZSetCmd.faddBits a b).getD 0) nanM0 inv0 exK exK_ok 2 Z.ZSetCmd.negInfBits [109] (by decide)
  have hc := zcard_eq Z.ZSetReal.realEnc inv1 exK_ok
  have hw := C09Z_zincrby_nan_witness
  have hlen : (zall Z.ZSetReal.realEnc nanM exK).length = 1 := by
    have h1 := hc.1
    have h2 := hw.1
    have : (.ok ((zall Z.ZSetReal.realEnc nanM exK).length : Int) : Except String Int) = .ok 1 := by
      rw [← h1]; exact h2
    have := Except.ok.inj this
    omega
  have hall := zrangebyscore_all Z.ZSetReal.realEnc inv1 exK_ok (by rw [hlen]; decide)
  have h3 : (.ok (zall Z.ZSetReal.realEnc nanM exK) : Except String (List (Bytes × Nat))) = .ok [] := by
    rw [← hall]; exact hw.2.1
  have := Except.ok.inj h3
  rw [this] at hlen
  cases hlen

/-- with the guard the witness is refused and the store is unchanged -/
example : commit nanM0 (zincrbyGuarded Z.ZSetReal.realEnc Z.Codec.isNaNBits (fun a b => (Z.ZSetCmd.faddBits a b).getD 0) nanM0 2 exK
    Z.ZSetCmd.negInfBits [109]) = (nanM0, .error "scorenan") := by rfl

/-! ### non-vacuity: every theorem instantiated on the real codec and the store after
    `ZADD t:z 1 a 1 b 2.5 "" 1 a` (`Z.ZSetExample`) -/

open Z.ZSetReal in
example : Inv realEnc exM := C09Z_inv_zadd realEnc (C09Z_inv_init realEnc (by decide)) exK_ok 7 exPairs exPairs_good
  (by show exM.length < 2 ^ 63; rw [exM_length]; decide)
open Z.ZSetReal in
example : Inv realEnc (commit exM (zrem realFns exM 8 exK [[98], [120], [98]])).1 :=
  C09Z_inv_zrem realEnc exInv exK_ok 8 _ (by decide)
open Z.ZSetReal in
example : Inv realEnc (commit exM (zincrby realFns (fun a _ => a) exM 8 exK 0 [97])).1 :=
  C09Z_inv_zincrby_partial realEnc exInv exK_ok _ 8 0 [97] (by show Z.Codec.NonNaN _; decide) (by decide)
open Z.ZSetReal in
example : Inv realEnc (commit exM (zremrangebyrank realFns exM 8 exK 1 (-1))).1 :=
  C09Z_inv_zremrangebyrank realEnc exInv exK_ok 8 1 (-1) (by decide)
open Z.ZSetReal in
example : Inv realEnc (commit exM (zremrangebyscore realFns exM 8 exK one one)).1 :=
  C09Z_inv_zremrangebyscore realEnc exInv exK_ok 8 (by show Z.Codec.NonNaN _; decide) (by show Z.Codec.NonNaN _; decide) (by decide)
open Z.ZSetReal in
example : Inv realEnc (commit exM (zremrangebylex realFns exM 8 exK none (some [98]) false true)).1 :=
  C09Z_inv_zremrangebylex realEnc exInv exK_ok 8 none (some [98]) false true (by decide)
open Z.ZSetReal in
example : Inv realEnc (commit exM (zclear realFns exM 8 exK)).1 := C09Z_inv_zclear realEnc exInv exK_ok 8 (by decide)
open Z.ZSetReal in
example : zcard realFns exM exK = .ok 3 ∧ (zall realEnc exM exK).map (·.1) = [[97], [98], []] := ⟨by rfl, by decide⟩
open Z.ZSetReal in
example := C09Z_zcard_eq_enumerations realEnc exInv exK_ok (by decide)
open Z.ZSetReal in
example := C09Z_each_member_once realEnc exInv exK_ok
open Z.ZSetReal in
example := C09Z_zrank_is_position realEnc exInv exK_ok (mem := [98]) (s := one) (by rfl)
open Z.ZSetReal in
example := C09Z_zkeyexist_iff realEnc exInv exK_ok
open Z.ZSetReal in
example := C09Z_ties_by_member realEnc exInv exK_ok

end Z.Props.C09ZSet
