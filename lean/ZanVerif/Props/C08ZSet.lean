/-
  C08 — commands behave like redis on per-type keyspaces: the SORTED SET.
  Refinement of the executable storage-level model `Z.ZSetExec` (run line by line against the real KVNode by the
  `datacorezset` correspondence) to the plain redis sorted set `key ↦ member ↦ score`, for every codec satisfying
  the abstract facts `Z.ZSetInv.Enc` (the real codec does: `Z.ZSetReal.realEnc`), under the representation
  invariant of C09 (`Props/C09ZSet.lean`): ZSCORE reads the abstraction; ZADD / ZREM / ZINCRBY answer what the
  specification answers and commute with the abstraction (the score index and the size meta never show through);
  ZRANGE / ZREVRANGE are redis's index arithmetic on THE enumeration of the abstraction sorted by (score, member).
  Known deviation from redis, proved as a witness: an exclusive score bound `(x` is implemented as `x ± 1`.
-/
import ZanVerif.Data.ZSetSpec
import ZanVerif.Data.ZSetCmd
import ZanVerif.Data.ZSetExample

namespace Z.Props.C08ZSet
open Z.Ref Z.ZSetExec Z.ZSetInv Z.ZSetRef Z.ZSetSpec Z.ZSetExample

/-- ZSCORE reads the abstraction -/
theorem C08Z_zscore_refines (E : Enc) {m : List KV} (inv : Inv E m) {k : Bytes} (hk : E.ok k) (mem : Bytes) :
    zscore E.toEncFns m k mem = .ok (abs E m k mem) := zscore_refines E inv hk mem

/-- the enumeration `zall` (what ZRANGE 0 -1 WITHSCORES lists) is THE sorted enumeration of the abstraction:
    its members are pairwise distinct, a member is listed iff the abstraction knows it (with a score `==` to the
    abstraction's), and the list is strictly increasing in (score, member) -/
theorem C08Z_enumeration_is_abs (E : Enc) {m : List KV} (inv : Inv E m) {k : Bytes} (hk : E.ok k) :
    ((zall E m k).map (·.1)).Nodup ∧
    (∀ mem s, abs E m k mem = some s ↔ ∃ s', (mem, s') ∈ zall E m k ∧ feqB s' s = true ∧
        zscore E.toEncFns m k mem = .ok (some s)) ∧
    (zall E m k).Pairwise (fun a b => E.lt a.2 b.2 ∨ (feqB a.2 b.2 = true ∧ a.1 < b.1)) := by
  refine ⟨zall_nodup E inv.bij hk, ?_, zall_sorted E inv.bij hk⟩
  intro mem s
  constructor
  · intro h
    have hz : zscore E.toEncFns m k mem = .ok (some s) := by rw [zscore_refines E inv hk, h]
    obtain ⟨s', h1, h2⟩ := listed_of_zscore E inv hk hz
    exact ⟨s', h1, h2, hz⟩
  · rintro ⟨s', _, _, hz⟩
    rw [zscore_refines E inv hk] at hz
    exact Except.ok.inj hz

/-- ZADD commutes with the abstraction and answers the number of new members -/
theorem C08Z_zadd_refines (E : Enc) {m : List KV} (inv : Inv E m) {k : Bytes} (hk : E.ok k) (ts : Int)
    (pairs : List (Nat × Bytes)) (hgood : ∀ p ∈ pairs, E.good p.1) (hsmall : ¬ ((pairs.length : Int) > maxBatch)) :
    ∃ ops, zadd E.toEncFns m ts k pairs =
        .ok (ops, (((dedupPairs pairs).filter (fun p => (abs E m k p.2).isNone)).length : Int)) ∧
      ∀ k' mem', E.ok k' → abs E (applyOps m ops) k' mem' = specAdd (abs E m) k (dedupPairs pairs) k' mem' :=
  zadd_refines E inv hk ts pairs hgood hsmall

/-- ZREM commutes with the abstraction and answers the number of removed members -/
theorem C08Z_zrem_refines (E : Enc) {m : List KV} (inv : Inv E m) {k : Bytes} (hk : E.ok k) (ts : Int)
    (mems : List Bytes) (hsmall : ¬ ((mems.length : Int) > maxBatch)) :
    ∃ ops, zrem E.toEncFns m ts k mems =
        .ok (ops, (((dedupMembers mems).filter (fun mem => (abs E m k mem).isSome)).length : Int)) ∧
      ∀ k' mem', E.ok k' → abs E (applyOps m ops) k' mem' = specRem (abs E m) k mems k' mem' :=
  zrem_refines E inv hk ts mems hsmall

/-- ZINCRBY commutes with the abstraction and answers the new score (stored score, 0 for a new member, + delta) -/
theorem C08Z_zincrby_refines (E : Enc) {m : List KV} (inv : Inv E m) {k : Bytes} (hk : E.ok k)
    (fadd : Nat → Nat → Nat) (ts : Int) (delta : Nat) (mem : Bytes)
    (hres : E.good (fadd ((abs E m k mem).getD 0) delta)) :
    ∃ ops, zincrby E.toEncFns fadd m ts k delta mem = .ok (ops, fadd ((abs E m k mem).getD 0) delta) ∧
      ∀ k' mem', E.ok k' →
        abs E (applyOps m ops) k' mem' = specSet (abs E m) k mem (fadd ((abs E m k mem).getD 0) delta) k' mem' :=
  zincrby_refines E inv hk fadd ts delta mem hres

/-- ZRANGE / ZREVRANGE = redis index arithmetic (`redisSlice`, negative and out-of-range indexes) on the enumeration,
    whenever the command answers at all (a requested range longer than `MAX_BATCH_NUM` is the batch-size error) -/
theorem C08Z_zrange_refines (E : Enc) {m : List KV} (inv : Inv E m) {k : Bytes} (hk : E.ok k) (start stop : Int)
    (reverse : Bool) (v : List (Bytes × Nat)) (h : zrange E.toEncFns m k start stop reverse = .ok v) :
    v = redisSlice (if reverse then (zall E m k).reverse else zall E m k) start stop :=
  zrange_refines E inv hk start stop reverse v h

/-- the executable functions that the `datacorezset` correspondence runs against the real store are the
    functions the theorems talk about, at the real codec -/
theorem C08Z_exec_is_model : Z.ZSetReal.realEnc.toEncFns = realFns ∧ Z.ZSetCmd.F = realFns := ⟨rfl, rfl⟩

/-! ### known deviation from redis: exclusive score bounds -/

/-- redis: the lower bound `(x` lets through exactly the scores > x. Full statement for the code's `getScoreRange`: -/
def C08Z_exclusive_bound_full : Prop :=
  ∀ (txt : Bytes) (x b : Nat), Z.ZSetCmd.parseFloat txt = .val (.fin false x) →
    Z.ZSetCmd.scoreBound (40 :: txt) true = .ok b →
    ∀ s, Z.Codec.NonNaN s → (¬ Z.Codec.fltBits s b ↔ Z.Codec.fltBits (Z.ZSetCmd.toBits (.fin false x)) s)

/-- … it is FALSE: `(1` becomes the inclusive bound 2.0 (`leftRange++`), so 1.5 is not in `(1 +inf` -/
theorem C08Z_exclusive_bound_witness : ¬ C08Z_exclusive_bound_full := by
  intro h
  have := h [49] 2 0x4000000000000000 (by rfl) (by rfl) 0x3FF8000000000000 (by decide)
  revert this
  decide

/-! ### non-vacuity: the theorems instantiated on the real codec and the store after
    `ZADD t:z 1 a 1 b 2.5 "" 1 a` (`Z.ZSetExample`) -/

open Z.ZSetReal in
example := C08Z_zscore_refines realEnc exInv exK_ok [98]
open Z.ZSetReal in
example := C08Z_enumeration_is_abs realEnc exInv exK_ok
open Z.ZSetReal in
example := C08Z_zadd_refines realEnc exInv exK_ok 9 [(twoHalf, [97]), (one, [99]), (one, [97])]
  (by intro p hp
      simp only [List.mem_cons, List.not_mem_nil, or_false] at hp
      rcases hp with rfl | rfl | rfl <;> (show Z.Codec.NonNaN _; decide))
  (by decide)
open Z.ZSetReal in
example := C08Z_zrem_refines realEnc exInv exK_ok 9 [[98], [120], [98]] (by decide)
open Z.ZSetReal in
example := C08Z_zincrby_refines realEnc exInv exK_ok (fun a b => (Z.ZSetCmd.faddBits a b).getD 0) 9 one [97]
  (by show Z.Codec.NonNaN _; decide)
open Z.ZSetReal in
example := C08Z_zrange_refines realEnc exInv exK_ok (-2) 100 true _ rfl
open Z.ZSetReal in
example : (zrange realFns exM exK (-2) 100 true).toOption.map (·.map (·.1)) = some [[98], [97]] := by decide

end Z.Props.C08ZSet
