/-
  C15 on the data node's namespace registry (node/namespace.go NamespaceMgr: InitNamespaceNode, onNamespaceStopped,
  GetNamespaceNodeWithPrimaryKeySum) — which partition count routing uses when a namespace is re-created.
  Property theorems only, for EVERY operation sequence from the empty registry. Model: Route/Registry.lean (tied to the
  real NamespaceMgr line by line by protocol `nsreg`), invariants: Route/RegistryLemmas.lean.
  Hypotheses used: `WF` = partition indexes are machine ints ≥ 0; `NoDash` (only for "meta ⇒ some partition") = base names
  contain no '-' (what the placement driver accepts: common.IsValidNamespaceName).
-/
import ZanVerif.Route.RegistryLemmas

namespace Z.Props.C15Registry
open Z.Route Z.Reg

def WF (ops : List Op) : Prop := ∀ op ∈ ops, op.wf
def NoDash (ops : List Op) : Prop := ∀ op ∈ ops, op.noDash

/-- in range, for every key and every positive count (the regenerated SDK expression) -/
theorem C15_client_partition_in_range (pk : Bytes) (n : Int) (hn : 0 < n) : 0 ≤ sdkPartition pk n ∧ sdkPartition pk n < n := by
  unfold sdkPartition Gen.sdkPartition
  have h : 0 ≤ hashedKey pk := by unfold hashedKey; exact Int.natCast_nonneg _
  exact ⟨Int.tmod_nonneg _ h, Int.tmod_lt_of_pos _ hn⟩

/-! ### (a) the meta of a base name -/

/-- a registered partition always has its meta, and the meta is the count given by the LAST successful init of that
    base name (any base names, also ones with '-') -/
theorem C15_registered_has_meta_of_last_init (ops : List Op) (hwf : WF ops) (base : Name) (i : Int)
    (hp : hasPart (run empty ops) base i) :
    ∃ n, (run empty ops).metas base = some n ∧ lastInit base empty ops none = some n ∧ 0 < n := by
  have inv := inv_reach ops hwf
  obtain ⟨x, hx, e, _⟩ := hp
  have hs := inv.has_meta x hx
  rw [e] at hs
  cases hm : (run empty ops).metas base with
  | none => rw [hm] at hs; simp at hs
  | some n =>
    have hl := inv.meta_last base n hm
    exact ⟨n, rfl, hl, inv.last_pos base n hl⟩

/-- whenever a meta exists it is the count of the last successful init of that base (and positive) -/
theorem C15_meta_is_last_init (ops : List Op) (hwf : WF ops) (base : Name) (n : Int)
    (hm : (run empty ops).metas base = some n) : lastInit base empty ops none = some n ∧ 0 < n := by
  have inv := inv_reach ops hwf
  have hl := inv.meta_last base n hm
  exact ⟨hl, inv.last_pos base n hl⟩

/-- the meta of a base exists IFF some partition of it is registered (base names without '-') -/
theorem C15_meta_iff_registered (ops : List Op) (hwf : WF ops) (hnd : NoDash ops) (base : Name) :
    ((run empty ops).metas base).isSome = true ↔ ∃ i, hasPart (run empty ops) base i := by
  constructor
  · intro h
    obtain ⟨x, hx, e⟩ := (invND_reach ops hwf hnd).meta_has base h
    exact ⟨x.part, x, hx, e, rfl⟩
  · intro ⟨i, hp⟩
    obtain ⟨n, hm, _⟩ := C15_registered_has_meta_of_last_init ops hwf base i hp
    simp [hm]

/-! ### (b) what `route` answers -/

/-- no meta: namespace-not-found, and no partition of that base is registered -/
theorem C15_route_no_meta (ops : List Op) (hwf : WF ops) (base : Name) (pk : Bytes)
    (hm : (run empty ops).metas base = none) :
    route (run empty ops) base pk = .nsNotFound ∧ ∀ i, ¬ hasPart (run empty ops) base i := by
  refine ⟨by simp [Reg.route, hm], ?_⟩
  intro i hp
  obtain ⟨n, hn, _⟩ := C15_registered_has_meta_of_last_init ops hwf base i hp
  rw [hm] at hn; cases hn

/-- with a meta N (= the count of the last successful init): the answer is partition `sdkPartition pk N` — the index
    the client computes with N, always below N — when that partition of the base is registered, and
    partition-not-found exactly when it is not -/
theorem C15_route_by_last_init (ops : List Op) (hwf : WF ops) (base : Name) (pk : Bytes) (N : Int)
    (hm : (run empty ops).metas base = some N) :
    lastInit base empty ops none = some N
    ∧ 0 ≤ sdkPartition pk N ∧ sdkPartition pk N < N
    ∧ (hasPart (run empty ops) base (sdkPartition pk N) →
        route (run empty ops) base pk = .ok (nsDesp base (sdkPartition pk N)))
    ∧ (¬ hasPart (run empty ops) base (sdkPartition pk N) → N ≤ (maxInt : Int) →
        route (run empty ops) base pk = .partNotFound) := by
  have inv := inv_reach ops hwf
  obtain ⟨hl, hpos⟩ := C15_meta_is_last_init ops hwf base N hm
  obtain ⟨h0, h1⟩ := C15_client_partition_in_range pk N hpos
  refine ⟨hl, h0, h1, ?_, ?_⟩
  · intro hp
    have hr := hasPart_registered inv base _ hp
    have : Gen.serverPartitionSum (hashedKey pk) N = sdkPartition pk N := rfl
    simp [Reg.route, hm, this, hr]
  · intro hp hN
    have hr : registered (run empty ops) (nsDesp base (sdkPartition pk N)) = false := by
      cases hreg : registered (run empty ops) (nsDesp base (sdkPartition pk N)) with
      | false => rfl
      | true => exact absurd (registered_hasPart inv base _ h0 (by omega) hreg) hp
    have : Gen.serverPartitionSum (hashedKey pk) N = sdkPartition pk N := rfl
    simp [Reg.route, hm, this, hr]

/-! ### (c) the headline: a namespace re-created with another partition count -/

/-- Once the last successful init of `base` carried count N and all of 0..N-1 are registered, EVERY key is served, by
    exactly one registered node: partition `sdkPartition pk N` of `base` — the partition the client computes with N.
    If moreover every registered partition of the base was created with count N (none of an older generation is left),
    the serving partition is one that was created with N. -/
theorem C15_recreated_served_by_client_partition (ops : List Op) (hwf : WF ops) (base : Name) (N : Int)
    (hlast : lastInit base empty ops none = some N)
    (hall : ∀ i : Int, 0 ≤ i → i < N → hasPart (run empty ops) base i) (pk : Bytes) :
    ∃ x ∈ (run empty ops).nodes,
      route (run empty ops) base pk = .ok x.full
      ∧ x.base = base ∧ x.part = sdkPartition pk N ∧ x.full = nsDesp base (sdkPartition pk N)
      ∧ (∀ y ∈ (run empty ops).nodes, y.full = x.full → y = x)
      ∧ ((∀ y ∈ (run empty ops).nodes, y.base = base → y.pnum = N) → x.pnum = N) := by
  have inv := inv_reach ops hwf
  have hpos : 0 < N := inv.last_pos base N hlast
  -- partition 0 is registered, so the meta exists and is the count of the last init
  obtain ⟨n, hm, hl, _⟩ := C15_registered_has_meta_of_last_init ops hwf base 0 (hall 0 (by omega) hpos)
  have hnN : n = N := by rw [hl] at hlast; exact Option.some.inj hlast
  subst hnN
  obtain ⟨_, h0, h1, hroute, _⟩ := C15_route_by_last_init ops hwf base pk n hm
  have hp := hall _ h0 h1
  obtain ⟨x, hx, e1, e2⟩ := hp
  have hfull : x.full = nsDesp base (sdkPartition pk n) := by rw [(inv.shape x hx).1, e1, e2]
  refine ⟨x, hx, ?_, e1, e2, hfull, ?_, ?_⟩
  · rw [hroute ⟨x, hx, e1, e2⟩, hfull]
  · intro y hy e
    exact pairwise_unique inv.nodup y hy x hx e
  · intro hgen
    exact hgen x hx e1

/-- "re-created": the history splits into `pre` (the old namespace, any counts) and `post` in which partitions of `base`
    are only created with count N and at least one such creation succeeded. Then the last successful init carried N. -/
theorem C15_recreate_last_init (pre post : List Op) (base : Name) (N : Int)
    (honly : ∀ p n, Op.init base p n ∈ post → n = N)
    (hsome : lastInit base (run empty pre) post none ≠ none) :
    lastInit base empty (pre ++ post) none = some N := by
  rw [lastInit_append, lastInit_acc base _ post _ hsome]
  rcases lastInit_cases base (run empty pre) post none with h | ⟨p, n, hm, h⟩
  · exact absurd h hsome
  · rw [h, honly p n hm]

/-- the headline in the re-creation form: after the namespace was re-created with count N (only N is used for the base
    from some point on, at least one partition creation succeeded since) and the re-creation has completed on this node
    (all of 0..N-1 registered), every key is served by exactly the partition the client computes with N; with no
    partition of an older generation left it is a partition of the new generation. -/
theorem C15_recreate_completed (pre post : List Op) (hwf : WF (pre ++ post)) (base : Name) (N : Int)
    (honly : ∀ p n, Op.init base p n ∈ post → n = N)
    (hsome : lastInit base (run empty pre) post none ≠ none)
    (hall : ∀ i : Int, 0 ≤ i → i < N → hasPart (run empty (pre ++ post)) base i)
    (hgen : ∀ y ∈ (run empty (pre ++ post)).nodes, y.base = base → y.pnum = N) (pk : Bytes) :
    ∃ x ∈ (run empty (pre ++ post)).nodes,
      route (run empty (pre ++ post)) base pk = .ok (nsDesp base (sdkPartition pk N))
      ∧ x.full = nsDesp base (sdkPartition pk N) ∧ x.base = base ∧ x.part = sdkPartition pk N ∧ x.pnum = N
      ∧ (∀ y ∈ (run empty (pre ++ post)).nodes, y.full = x.full → y = x) := by
  obtain ⟨x, hx, hr, e1, e2, hf, hu, hg⟩ := C15_recreated_served_by_client_partition (pre ++ post) hwf base N
    (C15_recreate_last_init pre post base N honly hsome) hall pk
  exact ⟨x, hx, by rw [hr, hf], hf, e1, e2, hg hgen, hu⟩

/-- exactly ONE partition: two different indexes of a base never share a full name, so the routed full name
    determines the index -/
theorem C15_full_name_determines_partition (a b : Name) (i j : Int) (hi : 0 ≤ i ∧ i < (maxInt : Int))
    (hj : 0 ≤ j ∧ j < (maxInt : Int)) (h : nsDesp a i = nsDesp b j) : a = b ∧ i = j :=
  nsDesp_inj a b i j hi.1 hi.2 hj.1 hj.2 h

/-! ### non-vacuity: concrete histories (evaluated by the kernel) -/

def a : Name := ['a']
def k0 : Bytes := [0x6b, 0x30]   -- "k0": hash % 2 = 0, hash % 4 = 2
def k3 : Bytes := [0x6b, 0x33]   -- "k3": hash % 2 = 1, hash % 3 = 0

/-- 2 → 4, partitions replaced one after another (old partition 0 still registered when the first new one is created) -/
def recreate24 : List Op :=
  [.init a 0 2, .init a 1 2, .stopped a 1, .init a 1 4, .init a 2 4, .init a 3 4, .stopped a 0, .init a 0 4]

theorem C15_ex_recreate24_wf : WF recreate24 ∧ NoDash recreate24 := by
  constructor <;> intro op h <;> simp [recreate24] at h <;>
    rcases h with h | h | h | h | h | h | h | h <;> subst h <;> simp [Op.wf, Op.noDash, maxInt, a]

example : 0 ≤ sdkPartition k0 4 ∧ sdkPartition k0 4 < 4 := C15_client_partition_in_range k0 4 (by decide)

-- (a): the meta is there, it is 4 = the last successful init, and partitions are registered
example : (run empty recreate24).metas a = some 4 ∧ lastInit a empty recreate24 none = some 4
    ∧ ((run empty recreate24).metas a).isSome = true := by decide
example : hasPart (run empty recreate24) a 2 := ⟨⟨nsDesp a 2, a, 2, 4⟩, by decide, rfl, rfl⟩
-- (a) after everything stopped the meta is gone
example : (run empty (recreate24 ++ [.stopped a 0, .stopped a 1, .stopped a 2, .stopped a 3])).metas a = none := by decide

-- (b): k0 is served by partition 2 (hash % 4), not by partition 0 (hash % 2); with partition 2 stopped: partition-not-found
example : route (run empty recreate24) a k0 = .ok ['a', '-', '2'] ∧ sdkPartition k0 4 = 2 ∧ sdkPartition k0 2 = 0 := by decide
example : route (run empty (recreate24 ++ [.stopped a 2])) a k0 = .partNotFound := by decide
example : route empty a k0 = .nsNotFound := by decide
-- (b) in the transitional state (old partition 0 of the 2-generation still there, first new partition created)
-- the count is already 4
example : (run empty (recreate24.take 4)).metas a = some 4
    ∧ route (run empty (recreate24.take 4)) a k0 = .partNotFound := by decide

-- (c): the hypotheses of the headline hold for recreate24 = pre ++ post with N = 4
example : lastInit a empty recreate24 none = some 4
    ∧ (∀ y ∈ (run empty recreate24).nodes, y.base = a → y.pnum = 4)
    ∧ (run empty recreate24).nodes.map (·.part) = [0, 3, 2, 1] := by decide
example : lastInit a (run empty (recreate24.take 3)) (recreate24.drop 3) none ≠ none := by decide

/-- the headline instantiated: recreate24 = (old generation, partition 1 stopped) ++ (the re-creation with 4): EVERY key is
    served by the partition the client computes with 4 -/
example (pk : Bytes) : Reg.route (run empty recreate24) a pk = .ok (nsDesp a (sdkPartition pk 4)) := by
  have hsplit : recreate24 = recreate24.take 3 ++ recreate24.drop 3 := (List.take_append_drop 3 recreate24).symm
  have hwf : WF (recreate24.take 3 ++ recreate24.drop 3) := by rw [← hsplit]; exact C15_ex_recreate24_wf.1
  have honly : ∀ p n, Op.init a p n ∈ recreate24.drop 3 → n = 4 := by
    intro p n h
    simp [recreate24] at h
    rcases h with h | h | h | h <;> exact h.2
  have hall : ∀ i : Int, 0 ≤ i → i < 4 → hasPart (run empty (recreate24.take 3 ++ recreate24.drop 3)) a i := by
    intro i h0 h1
    have : i = 0 ∨ i = 1 ∨ i = 2 ∨ i = 3 := by omega
    rcases this with h | h | h | h <;> subst h
    · exact ⟨⟨nsDesp a 0, a, 0, 4⟩, by decide, rfl, rfl⟩
    · exact ⟨⟨nsDesp a 1, a, 1, 4⟩, by decide, rfl, rfl⟩
    · exact ⟨⟨nsDesp a 2, a, 2, 4⟩, by decide, rfl, rfl⟩
    · exact ⟨⟨nsDesp a 3, a, 3, 4⟩, by decide, rfl, rfl⟩
  obtain ⟨_, _, h, _⟩ := C15_recreate_completed (recreate24.take 3) (recreate24.drop 3) hwf a 4 honly (by decide) hall
    (by decide) pk
  rw [hsplit]; exact h

/-- The count of the registered partitions alone is NOT enough (why (c) asks for the last init): count-2 partitions 0, 1
    stay registered, a partition of a 3-generation is created and goes away again. All registered partitions were created
    with 2 and 0..1 are all there, but the registry divides by 3: k3 is answered by a-0, the client computes a-1. -/
def abortedRecreate : List Op := [.init a 0 2, .init a 1 2, .init a 2 3, .stopped a 2]

theorem C15_registered_counts_alone_do_not_fix_the_meta :
    (∀ y ∈ (run empty abortedRecreate).nodes, y.base = a → y.pnum = 2)
    ∧ (run empty abortedRecreate).nodes.map (·.part) = [1, 0]
    ∧ (run empty abortedRecreate).metas a = some 3
    ∧ route (run empty abortedRecreate) a k3 = .ok ['a', '-', '0']
    ∧ sdkPartition k3 2 = 1 := by decide

/-- A base name WITH '-' never parses back (GetNamespaceAndPartition splits at the first '-'): its meta is not dropped
    when its last partition stops — why `C15_meta_iff_registered` needs `NoDash`. Routing is not affected: the next init
    with another count replaces the meta (`C15_registered_has_meta_of_last_init` holds for all names). -/
def a1 : Name := ['a', '-', '1']

theorem C15_dash_base_keeps_meta :
    (run empty [.init a1 0 2, .stopped a1 0]).nodes = []
    ∧ (run empty [.init a1 0 2, .stopped a1 0]).metas a1 = some 2
    ∧ route (run empty [.init a1 0 2, .stopped a1 0]) a1 k0 = .partNotFound
    ∧ (run empty [.init a1 0 2, .stopped a1 0, .init a1 0 3]).metas a1 = some 3 := by decide

end Z.Props.C15Registry
