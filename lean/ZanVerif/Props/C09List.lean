/-
  C09 — counting commands agree with enumerating commands (LIST family, local-deletion layout).
  Representation invariant of the executable storage-level list model `Z.ListExec` (the functions the
  `datacorelist` correspondence runs against a real KVNode): the meta is stored iff the list is non-empty, head and
  tail lie strictly inside the regenerated window (listMinSeq, listMaxSeq) with head ≤ tail, exactly the sequence
  numbers in [head, tail] have element keys (so tail − head + 1 = number of element keys), no other key lies in the
  key space of a list. Preserved by EVERY write of the model (LPUSH / RPUSH with several values, LPOP, RPOP, LSET,
  LTRIM incl. the DeleteRange variants, LCLEAR; error replies = store unchanged), hence true after every command
  sequence; the property's equalities in the model's own read functions; for every codec satisfying
  `Z.ListInv.Enc` and in particular for the real codec on admitted keys (`Z.ListReal.realEnc`).
-/
import ZanVerif.Data.ListRef
import ZanVerif.Data.ListReal

namespace Z.Props.C09
open Z.Ref Z.Coll Z.ListExec Z.ListInv Z.ListRef

variable {κ : Type}

theorem C09_list_inv_lpush (E : Enc κ) {m : List KV} (inv : Inv E m) (ts : Int) (k : κ) (atTail : Bool) (args : List Bytes) :
    Inv E (lpush E.toEncFns m ts k atTail args).1 := inv_lpush E inv ts k atTail args

theorem C09_list_inv_lpop (E : Enc κ) {m : List KV} (inv : Inv E m) (ts : Int) (k : κ) (atTail : Bool) :
    Inv E (lpop E.toEncFns m ts k atTail).1 := inv_lpop E inv ts k atTail

theorem C09_list_inv_lset (E : Enc κ) {m : List KV} (inv : Inv E m) (ts : Int) (k : κ) (index : Int) (v : Bytes) :
    Inv E (lset E.toEncFns m ts k index v).1 := inv_lset E inv ts k index v

theorem C09_list_inv_ltrim (E : Enc κ) {m : List KV} (inv : Inv E m) (ts : Int) (k : κ) (start stop : Int) :
    Inv E (ltrim E.toEncFns m ts k start stop).1 := inv_ltrim E inv ts k start stop

theorem C09_list_inv_lclear (E : Enc κ) {m : List KV} (inv : Inv E m) (k : κ) : Inv E (lclear E.toEncFns m k).1 :=
  inv_lclear E inv k

/-- the invariant holds after EVERY sequence of list writes from the empty store -/
theorem C09_list_inv_reachable (E : Enc κ) (cs : List (Cmd κ)) : Inv E (run E [] cs) := inv_reachable E cs

/-- tail − head + 1 = number of stored element keys of the list -/
theorem C09_list_size_eq_count (E : Enc κ) {m : List KV} (inv : Inv E m) (k : κ) (h t sz : Int)
    (hm : lmeta? E.toEncFns m k = some (h, t, sz)) :
    ((scanC m (E.elemK k h) (E.elemK k t)).length : Int) = sz ∧ sz = t - h + 1 ∧ minSeq < h ∧ h ≤ t ∧ t < maxSeq :=
  ⟨count_eq_size E inv hm, lmeta?_size E hm, inv.wf k h t sz hm⟩

/-- LLEN = |LRANGE 0 -1| whenever LRANGE answers a list (it answers `batchsize` above MAX_BATCH_NUM elements) -/
theorem C09_list_llen_eq_lrange (E : Enc κ) {m : List KV} (inv : Inv E m) (k : κ) (l : List Bytes)
    (h : lrange E.toEncFns m k 0 (-1) = .ok l) : llen E.toEncFns m k = l.length := by
  rw [lrange_refines E inv k, specRange_all] at h
  split at h
  · cases h
  · injection h with h; rw [← h]; exact llen_refines E inv k

/-- LRANGE 0 -1 answers a list up to MAX_BATCH_NUM elements -/
theorem C09_list_lrange_total (E : Enc κ) {m : List KV} (inv : Inv E m) (k : κ) (h : llen E.toEncFns m k ≤ (maxBatch : Int)) :
    ∃ l, lrange E.toEncFns m k 0 (-1) = .ok l := by
  rw [lrange_refines E inv k, specRange_all, if_neg]
  · exact ⟨_, rfl⟩
  · rw [llen_refines E inv k] at h; omega

/-- LINDEX i (and LINDEX i−len) = the i-th element of LRANGE 0 -1 -/
theorem C09_list_lindex_eq_lrange (E : Enc κ) {m : List KV} (inv : Inv E m) (k : κ) (l : List Bytes)
    (h : lrange E.toEncFns m k 0 (-1) = .ok l) (i : Nat) (hi : i < l.length) :
    lindex E.toEncFns m k i = some l[i] ∧ lindex E.toEncFns m k ((i : Int) - l.length) = some l[i] := by
  rw [lrange_refines E inv k, specRange_all] at h
  split at h
  · cases h
  · injection h with h
    subst h
    rw [lindex_refines E inv k, lindex_refines E inv k]
    unfold specIndex
    constructor
    · rw [if_pos (by omega)]; simp [hi]
    · rw [if_neg (by omega), if_pos (by omega)]
      have : ((abs E m k).length + ((i : Int) - (abs E m k).length)).toNat = i := by omega
      rw [this]; simp [hi]

/-- LKEYEXIST = 1 ⇔ LLEN > 0 (and LKEYEXIST is 0 or 1) -/
theorem C09_list_lkeyexist_iff (E : Enc κ) {m : List KV} (inv : Inv E m) (k : κ) :
    (lkeyexist E.toEncFns m k = 1 ↔ llen E.toEncFns m k > 0) ∧ (lkeyexist E.toEncFns m k = 0 ∨ lkeyexist E.toEncFns m k = 1) := by
  rw [lkeyexist_refines E inv k, llen_refines E inv k]
  by_cases h : abs E m k = []
  · simp [h]
  · have : (abs E m k).length > 0 := List.length_pos_iff.mpr h
    simp [h]; omega

/-- … for the REAL codec: every store the executable model reaches by the commands the driver runs satisfies the invariant -/
theorem C09_list_real_reachable (cs : List (Cmd Z.CollReal.InKey)) : Inv Z.ListReal.realEnc (run Z.ListReal.realEnc [] cs) :=
  inv_reachable Z.ListReal.realEnc cs

/-! non-vacuity: a concrete run with the real codec (table "t", key part "l:x"): pushes on both ends, pops, an
    emptied and re-created list, a trim, a set -/
section Example
open Z.CollReal Z.ListReal
def exKeyL : InKey := ⟨[116], [108, 58, 120], by decide, by decide, by decide⟩
def exCmdsL : List (Cmd InKey) :=
  [.push 1 exKeyL true [[1], [2]], .pop 2 exKeyL false, .pop 3 exKeyL true, .push 4 exKeyL false [[3], [], [5]],
   .push 5 exKeyL true [[6], [7]], .lset 6 exKeyL (-1) [8], .ltrim 7 exKeyL 1 3]

example : Inv realEnc (run realEnc [] exCmdsL) := C09_list_real_reachable exCmdsL
example : lrange realFns (run realEnc [] exCmdsL) exKeyL.pair 0 (-1) = .ok [[], [3], [6]] := by rfl
example : llen realFns (run realEnc [] exCmdsL) exKeyL.pair = 3 :=
  C09_list_llen_eq_lrange realEnc (C09_list_real_reachable exCmdsL) exKeyL [[], [3], [6]] (by rfl)
example : lindex realEnc.toEncFns (run realEnc [] exCmdsL) exKeyL 2 = some [6] :=
  (C09_list_lindex_eq_lrange realEnc (C09_list_real_reachable exCmdsL) exKeyL [[], [3], [6]] (by rfl) 2 (by decide)).1
example : lindex realEnc.toEncFns (run realEnc [] exCmdsL) exKeyL (-1) = some [6] :=
  (C09_list_lindex_eq_lrange realEnc (C09_list_real_reachable exCmdsL) exKeyL [[], [3], [6]] (by rfl) 2 (by decide)).2
example : lkeyexist realFns (run realEnc [] exCmdsL) exKeyL.pair = 1 := by rfl
example : (lkeyexist realEnc.toEncFns (run realEnc [] exCmdsL) exKeyL = 1 ↔ llen realEnc.toEncFns (run realEnc [] exCmdsL) exKeyL > 0) :=
  (C09_list_lkeyexist_iff realEnc (C09_list_real_reachable exCmdsL) exKeyL).1
example : ∃ l, lrange realEnc.toEncFns (run realEnc [] exCmdsL) exKeyL 0 (-1) = .ok l :=
  C09_list_lrange_total realEnc (C09_list_real_reachable exCmdsL) exKeyL (by decide)
example : lmeta? realFns (run realEnc [] exCmdsL) exKeyL.pair = some (2305843009213693951, 2305843009213693953, 3) := by rfl
example : ((scanC (run realEnc [] exCmdsL) (realEnc.elemK exKeyL 2305843009213693951) (realEnc.elemK exKeyL 2305843009213693953)).length : Int) = 3 :=
  (C09_list_size_eq_count realEnc (C09_list_real_reachable exCmdsL) exKeyL _ _ _ (by rfl)).1
example : Inv realEnc (lpush realEnc.toEncFns (run realEnc [] exCmdsL) 9 exKeyL false [[1], [1]]).1 :=
  C09_list_inv_lpush realEnc (C09_list_real_reachable exCmdsL) 9 exKeyL false [[1], [1]]
example : Inv realEnc (lpop realEnc.toEncFns (run realEnc [] exCmdsL) 9 exKeyL true).1 :=
  C09_list_inv_lpop realEnc (C09_list_real_reachable exCmdsL) 9 exKeyL true
example : Inv realEnc (lset realEnc.toEncFns (run realEnc [] exCmdsL) 9 exKeyL 3 [1]).1 :=
  C09_list_inv_lset realEnc (C09_list_real_reachable exCmdsL) 9 exKeyL 3 [1]
example : Inv realEnc (ltrim realEnc.toEncFns (run realEnc [] exCmdsL) 9 exKeyL (-2) 100).1 :=
  C09_list_inv_ltrim realEnc (C09_list_real_reachable exCmdsL) 9 exKeyL (-2) 100
example : Inv realEnc (lclear realEnc.toEncFns (run realEnc [] exCmdsL) exKeyL).1 :=
  C09_list_inv_lclear realEnc (C09_list_real_reachable exCmdsL) exKeyL
end Example

end Z.Props.C09
