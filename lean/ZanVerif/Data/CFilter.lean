/-
  The compaction filter of the value-header expiry policy (wait_compact + value_header_v1), decision for
  decision: rockredis/rockredis.go `rockCompactFilter.Filter` and `lazyExpireCheck`, with
  t_collections.go `convertCollDBKeyToRawKey` / `encodeMetaKey`, t_list.go `lDecodeListKey`,
  t_bitmap.go `decodeBitmapKey` (the other decoders are in `Z.Codec`).  Executable, core only.

  Clocks are PARAMETERS: `tc` = the cached clock (`cf.cachedTimeSec`, seconds) as the sub-key branch reads it,
  `ts` = the clock `lazyExpireCheck` uses (= `tc`, or the wall clock it re-reads when the cache is stale or
  unset).  The store the filter looks the collection meta up in (`cf.rdb.GetBytesNoLock`) is the association
  list `m`.

  Every decision expression is the one REGENERATED from the source (Gen/CFilter.lean: `Gen.cfNoExpiry`,
  `Gen.cfTooSmall`, `Gen.cfLongExpired`, `Gen.cfVerZero`, `Gen.cfYoungGen`, `Gen.cfMetaNoVer`,
  `Gen.cfVerMismatch`, the two type lists of the `switch`), rendered with Go's fixed-width arithmetic; the
  statement structure around them is pinned by the generator (ANCHOR-BROKEN when it changes).

  Not modelled: the statistics counters; the refresh of the cached clock itself (its result is the parameter
  `ts`); an engine error of `GetBytesNoLock` (the real code keeps the entry).
-/
import ZanVerif.Engine.Ref
import ZanVerif.Data.Header
import ZanVerif.Data.ZCodec
import ZanVerif.Gen.CFilter

namespace Z.CFilter
open Z.Codec Z.Header
open Z.Ref (KV get)

/-- `lazyExpireCheck(h)` on the expiry second of the header, clock `ts` -/
def lazyExpire (e : Int) (ts : Int) : Bool :=
  if Gen.cfNoExpiry e then false
  else if Gen.cfTooSmall e then false
  else Gen.cfLongExpired e ts

/-- the value-type case of `Filter`: an undecodable header keeps the entry -/
def filterValue (value : Bytes) (ts : Int) : Bool :=
  match Z.Header.decode value with
  | .err _ => false
  | .ok h => lazyExpire (h.expireAt : Int) ts

/-- `lDecodeListKey`: (table, key, seq) -/
def decListKey (b : Bytes) : Dec (Bytes × Bytes × Int) :=
  match decTablePrefix Gen.cListType b with
  | .err => .err
  | .panic => .panic
  | .ok (table, rest) =>
    match rest with
    | h :: l :: r2 =>
      let n := h.toNat * 256 + l.toNat
      if n + 8 ≠ r2.length then .err else .ok (table, r2.take n, ofU64 (fromBE (r2.drop n)))
    | _ => .err

/-- `decodeBitmapKey`: (table, key, index).  `Decode` fails on an empty rest; `rets[0].([]byte)` / `rets[2].(int64)` are
    comma-ok assertions (zero value on another kind); `rets[2]` on fewer than three values is an index panic. -/
def decBitmapKey (b : Bytes) : Dec (Bytes × Bytes × Int) :=
  match decTablePrefix Gen.cBitmapType b with
  | .err => .err
  | .panic => .panic
  | .ok (table, rest) =>
    if rest.isEmpty then .err else
    match decAll (rest.length + 1) rest with
    | none => .err
    | some vals =>
      match vals with
      | v0 :: _ :: v2 :: _ =>
        .ok (table, (match v0 with | MVal.bytes k => k | _ => []), (match v2 with | MVal.int v => v | _ => 0))
      | _ => .panic

/-- the versioned key part of a collection sub-key: (table, verKey) by the decoder of the key's type -/
def subVerKey (k : Bytes) : Dec (Bytes × Bytes) :=
  match k with
  | [] => .panic
  | dt :: _ =>
    if dt = Gen.cHashType ∨ dt = Gen.cSetType ∨ dt = Gen.cZSetType then
      match decCollSubKey k with
      | .ok (_, table, key, _) => .ok (table, key)
      | .err => .err
      | .panic => .panic
    else if dt = Gen.cListType then
      match decListKey k with
      | .ok (table, key, _) => .ok (table, key)
      | .err => .err
      | .panic => .panic
    else if dt = Gen.cZScoreType then
      match decZScoreKey k with
      | .ok (table, key, _, _) => .ok (table, key)
      | .err => .err
      | .panic => .panic
    else if dt = Gen.cBitmapType then
      match decBitmapKey k with
      | .ok (table, key, _) => .ok (table, key)
      | .err => .err
      | .panic => .panic
    else .err

/-- `convertCollDBKeyToRawKey`: (type byte, raw redis key `table:key`, generation of the sub-key) -/
def convertKey (k : Bytes) : Dec (UInt8 × Bytes × Int) :=
  match subVerKey k with
  | .err => .err
  | .panic => .panic
  | .ok (table, verk) =>
    match decVerKey verk with
    | .err => .err
    | .panic => .panic
    | .ok (rk, ver) => .ok (k.headD 0, packRedisKey table rk, ver)

/-- `encodeMetaKey(dt, rawKey)`; `none` = `errDataType` -/
def metaKeyOf (dt : UInt8) (raw : Bytes) : Option Bytes :=
  if dt = Gen.cKVType then some (kvKey raw)
  else if dt = Gen.cHashType ∨ dt = Gen.cHSizeType then some (metaKey Gen.cHSizeType raw)
  else if dt = Gen.cSetType ∨ dt = Gen.cSSizeType then some (metaKey Gen.cSSizeType raw)
  else if dt = Gen.cBitmapType ∨ dt = Gen.cBitmapMetaType then some (metaKey Gen.cBitmapMetaType raw)
  else if dt = Gen.cListType ∨ dt = Gen.cLMetaType then some (metaKey Gen.cLMetaType raw)
  else if dt = Gen.cZSetType ∨ dt = Gen.cZSizeType ∨ dt = Gen.cZScoreType then some (metaKey Gen.cZSizeType raw)
  else none

/-- the sub-key case of `Filter` behind the decoders: generation `ver` of the sub-key, stored meta value of its
    collection (`none` = not found), cached clock `tc`, clock `ts` of `lazyExpireCheck` -/
def filterSub (ver : Int) (mv : Option Bytes) (tc ts : Int) : Bool :=
  if Gen.cfVerZero ver then false
  else if Gen.cfYoungGen ver tc then false
  else match mv with
    | none => true
    | some v =>
      match Z.Header.decode v with
      | .err _ => false
      | .ok h =>
        if Gen.cfMetaNoVer h.ver then false
        else if Gen.cfVerMismatch h.ver ver then true
        else lazyExpire (h.expireAt : Int) ts

/-- what the sub-key case looks at: decoded generation and the meta value found in the store
    (`none` when the key does not decode or its type has no meta key: the entry is kept) -/
def subInfo (m : List KV) (key : Bytes) : Dec (Option (Int × Option Bytes)) :=
  match convertKey key with
  | .err => .ok none
  | .panic => .panic
  | .ok (dt, raw, ver) =>
    match metaKeyOf dt raw with
    | none => .ok none
    | some mk => .ok (some (ver, get m mk))

/-- the sub-key case on what `subInfo` found -/
def subVerdict (i : Dec (Option (Int × Option Bytes))) (tc ts : Int) : Dec Bool :=
  match i with
  | .panic => .panic
  | .err => .ok false
  | .ok none => .ok false
  | .ok (some (ver, mv)) => .ok (filterSub ver mv tc ts)

/-- `Filter(level, key, value)`: `.ok true` = remove the entry, `.ok false` = keep it,
    `.panic` = a decoder indexes out of range (nothing is removed; the process dies) -/
def filterD (m : List KV) (key value : Bytes) (tc ts : Int) : Dec Bool :=
  match key with
  | [] => .ok false
  | t :: _ =>
    if Gen.cfValueTypes.contains t then .ok (filterValue value ts)
    else if Gen.cfSubKeyTypes.contains t then subVerdict (subInfo m key) tc ts
    else .ok false

/-- the entry is removed -/
def drops (m : List KV) (key value : Bytes) (tc ts : Int) : Prop := filterD m key value tc ts = .ok true

instance (m : List KV) (key value : Bytes) (tc ts : Int) : Decidable (drops m key value tc ts) :=
  inferInstanceAs (Decidable (filterD m key value tc ts = .ok true))

end Z.CFilter
