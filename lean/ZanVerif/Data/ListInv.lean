/-
  Representation invariant of the storage-level LIST model (`Z.ListExec`) and its preservation by every write
  of the model, for every key codec that satisfies the abstract facts `Enc` (discharged for the real codec in
  `Z.ListReal`).
  Invariant: the meta is stored iff the list is non-empty; head/tail lie strictly inside (listMinSeq, listMaxSeq)
  with head ≤ tail; exactly the sequence numbers in [head, tail] have element keys; no other key lies in the
  key space of the list.
-/
import ZanVerif.Data.ListExec
import ZanVerif.Data.CollLemmas

namespace Z.ListInv
open Z.Ref Z.Coll Z.ListExec

/-- sequence numbers the codec is used with -/
def okSeq (s : Int) : Prop := minSeq ≤ s ∧ s ≤ maxSeq

/-- what the list mapping needs from the key codec -/
structure Enc (κ : Type) extends EncFns κ where
  /-- "x lies in the key space of list k" (real codec: x extends the table/key prefix of the element keys) -/
  inList : κ → Bytes → Prop
  head_rt : ∀ h t ts, okSeq h → headOf (encMeta h t ts) = h
  tail_rt : ∀ h t ts, okSeq t → tailOf (encMeta h t ts) = t
  elem_key : ∀ k s k' s', elemK k s = elemK k' s' → k = k'
  /-- element keys of one list are ordered like the sequence numbers -/
  elem_lt : ∀ k s s', okSeq s → okSeq s' → (elemK k s < elemK k s' ↔ s < s')
  meta_inj : ∀ k k', metaK k = metaK k' → k = k'
  meta_ne_elem : ∀ k k' s, metaK k ≠ elemK k' s
  elem_in : ∀ k s, inList k (elemK k s)
  in_other : ∀ k k' s, inList k (elemK k' s) → k' = k
  meta_out : ∀ k k', ¬ inList k (metaK k')
  /-- the key space of a list is convex in key order -/
  between : ∀ k a b x, elemK k a ≤ x → x ≤ elemK k b → inList k x

variable {κ : Type} (E : Enc κ)

theorem elem_seq (k : κ) {s s' : Int} (hs : okSeq s) (hs' : okSeq s') (h : E.elemK k s = E.elemK k s') : s = s' := by
  rcases Int.lt_trichotomy s s' with hlt | heq | hgt
  · have := (E.elem_lt k s s' hs hs').mpr hlt
    rw [h] at this; exact absurd this (bytes_lt_irrefl _)
  · exact heq
  · have := (E.elem_lt k s' s hs' hs).mpr hgt
    rw [h] at this; exact absurd this (bytes_lt_irrefl _)

theorem elem_le (k : κ) {s s' : Int} (hs : okSeq s) (hs' : okSeq s') : E.elemK k s ≤ E.elemK k s' ↔ s ≤ s' := by
  rw [← List.not_lt, E.elem_lt k s' s hs' hs]; omega

/-- representation invariant -/
structure Inv (m : List KV) : Prop where
  sorted : Sorted m
  /-- head and tail of a stored meta: inside the window, head ≤ tail (so the size is positive) -/
  wf : ∀ k h t sz, lmeta? E.toEncFns m k = some (h, t, sz) → minSeq < h ∧ h ≤ t ∧ t < maxSeq
  /-- exactly the sequence numbers in [head, tail] have element keys -/
  elems : ∀ k s, okSeq s → ((Ref.get m (E.elemK k s)).isSome ↔ ∃ h t sz, lmeta? E.toEncFns m k = some (h, t, sz) ∧ h ≤ s ∧ s ≤ t)
  /-- every stored key in the key space of a list is one of its element keys -/
  noJunk : ∀ k x, (Ref.get m x).isSome → E.inList k x → ∃ s, okSeq s ∧ x = E.elemK k s

theorem lmeta?_eq (m : List KV) (k : κ) :
    lmeta? E.toEncFns m k = match Ref.get m (E.metaK k) with
      | none => none
      | some v => some (E.headOf v, E.tailOf v, E.tailOf v - E.headOf v + 1) := rfl

theorem lmeta?_size {m : List KV} {k : κ} {h t sz : Int} (hm : lmeta? E.toEncFns m k = some (h, t, sz)) : sz = t - h + 1 := by
  rw [lmeta?_eq] at hm
  split at hm
  · cases hm
  · injection hm with hm; injection hm with h1 hm; injection hm with h2 h3; rw [← h1, ← h2, ← h3]

/-! ### batches that only touch keys of one list -/

/-- an operation on list `k`'s own keys -/
inductive Local (k : κ) : WOp → Prop
  | putElem (s : Int) (v : Bytes) : okSeq s → Local k (.put (E.elemK k s) v)
  | delElem (s : Int) : Local k (.del (E.elemK k s))
  | delRange (a b : Bytes) : (∀ x, a ≤ x → x < b → E.inList k x) → Local k (.delRange a b)
  | putMeta (v : Bytes) : Local k (.put (E.metaK k) v)
  | delMeta : Local k (.del (E.metaK k))

theorem eff_local_meta_other {k k' : κ} (hk : k' ≠ k) {ops : List WOp} (hl : ∀ o ∈ ops, Local E k o) (cur : Option Bytes) :
    eff (E.metaK k') cur ops = cur := by
  induction ops generalizing cur with
  | nil => rfl
  | cons o t ih =>
    simp only [eff, List.foldl_cons]
    have : effOp (E.metaK k') cur o = cur := by
      cases hl o List.mem_cons_self with
      | putElem s v _ => simp [effOp, E.meta_ne_elem k' k s]
      | delElem s => simp [effOp, E.meta_ne_elem k' k s]
      | delRange a b hr =>
        simp only [effOp]
        rw [if_neg]; intro h; exact E.meta_out k k' (hr _ h.1 h.2)
      | putMeta v => have : E.metaK k' ≠ E.metaK k := fun e => hk (E.meta_inj _ _ e); simp [effOp, this]
      | delMeta => have : E.metaK k' ≠ E.metaK k := fun e => hk (E.meta_inj _ _ e); simp [effOp, this]
    rw [this]
    exact ih (fun o ho => hl o (List.mem_cons_of_mem _ ho)) cur

theorem eff_local_elem_other {k k' : κ} (hk : k' ≠ k) {ops : List WOp} (hl : ∀ o ∈ ops, Local E k o) (s : Int)
    (cur : Option Bytes) : eff (E.elemK k' s) cur ops = cur := by
  induction ops generalizing cur with
  | nil => rfl
  | cons o t ih =>
    simp only [eff, List.foldl_cons]
    have : effOp (E.elemK k' s) cur o = cur := by
      cases hl o List.mem_cons_self with
      | putElem s' v _ =>
        have : E.elemK k' s ≠ E.elemK k s' := fun e => hk (E.elem_key _ _ _ _ e)
        simp [effOp, this]
      | delElem s' =>
        have : E.elemK k' s ≠ E.elemK k s' := fun e => hk (E.elem_key _ _ _ _ e)
        simp [effOp, this]
      | delRange a b hr =>
        simp only [effOp]
        rw [if_neg]; intro h; exact hk (E.in_other k k' s (hr _ h.1 h.2))
      | putMeta v => have : E.elemK k' s ≠ E.metaK k := fun e => E.meta_ne_elem _ _ _ e.symm; simp [effOp, this]
      | delMeta => have : E.elemK k' s ≠ E.metaK k := fun e => E.meta_ne_elem _ _ _ e.symm; simp [effOp, this]
    rw [this]
    exact ih (fun o ho => hl o (List.mem_cons_of_mem _ ho)) cur

/-- a local batch creates only element keys (with admissible sequence numbers) and the meta key of its list -/
theorem eff_local_new {k : κ} {ops : List WOp} (hl : ∀ o ∈ ops, Local E k o) (x : Bytes) (cur : Option Bytes)
    (h : (eff x cur ops).isSome) : cur.isSome ∨ (∃ s, okSeq s ∧ x = E.elemK k s) ∨ x = E.metaK k := by
  induction ops generalizing cur with
  | nil => exact Or.inl h
  | cons o t ih =>
    simp only [eff, List.foldl_cons] at h
    rcases ih (fun o ho => hl o (List.mem_cons_of_mem _ ho)) _ h with h1 | h1
    · cases hl o List.mem_cons_self with
      | putElem s v hs =>
        simp only [effOp] at h1
        split at h1
        · rename_i hx; exact Or.inr (Or.inl ⟨s, hs, hx⟩)
        · exact Or.inl h1
      | delElem s =>
        simp only [effOp] at h1
        split at h1
        · cases h1
        · exact Or.inl h1
      | delRange a b hr =>
        simp only [effOp] at h1
        split at h1
        · cases h1
        · exact Or.inl h1
      | putMeta v =>
        simp only [effOp] at h1
        split at h1
        · rename_i hx; exact Or.inr (Or.inr hx)
        · exact Or.inl h1
      | delMeta =>
        simp only [effOp] at h1
        split at h1
        · cases h1
        · exact Or.inl h1
    · exact Or.inr h1

/-- closing lemma: after a local batch on list `k`, the invariant holds again as soon as `k` itself is well formed -/
theorem inv_of_local {m : List KV} (inv : Inv E m) (k : κ) (ops : List WOp) (hl : ∀ o ∈ ops, Local E k o)
    (hwf : ∀ h t sz, lmeta? E.toEncFns (applyW m ops) k = some (h, t, sz) → minSeq < h ∧ h ≤ t ∧ t < maxSeq)
    (hel : ∀ s, okSeq s → ((Ref.get (applyW m ops) (E.elemK k s)).isSome ↔
      ∃ h t sz, lmeta? E.toEncFns (applyW m ops) k = some (h, t, sz) ∧ h ≤ s ∧ s ≤ t)) :
    Inv E (applyW m ops) := by
  have hs := inv.sorted
  have hmeta : ∀ k', k' ≠ k → lmeta? E.toEncFns (applyW m ops) k' = lmeta? E.toEncFns m k' := by
    intro k' hk'
    rw [lmeta?_eq, lmeta?_eq, get_applyW hs, eff_local_meta_other E hk' hl]
  refine ⟨applyW_sorted hs _, ?_, ?_, ?_⟩
  · intro k' h t sz hm
    by_cases hk' : k' = k
    · subst hk'; exact hwf h t sz hm
    · rw [hmeta k' hk'] at hm; exact inv.wf k' h t sz hm
  · intro k' s hsq
    by_cases hk' : k' = k
    · subst hk'; exact hel s hsq
    · rw [hmeta k' hk', get_applyW hs, eff_local_elem_other E hk' hl]; exact inv.elems k' s hsq
  · intro k' x hx hin
    rw [get_applyW hs] at hx
    rcases eff_local_new E hl x _ hx with h1 | ⟨s, hsq, rfl⟩ | rfl
    · exact inv.noJunk k' x h1 hin
    · have := E.in_other k' k s hin
      subst this
      exact ⟨s, hsq, rfl⟩
    · exact absurd hin (E.meta_out k' k)


/-! ### the shape of every list batch: element operations around one meta operation -/

/-- an operation on element keys of list `k` -/
inductive LocalE (k : κ) : WOp → Prop
  | putElem (s : Int) (v : Bytes) : okSeq s → LocalE k (.put (E.elemK k s) v)
  | delElem (s : Int) : LocalE k (.del (E.elemK k s))
  | delRange (a b : Bytes) : (∀ x, a ≤ x → x < b → E.inList k x) → LocalE k (.delRange a b)

theorem LocalE.local {k : κ} {o : WOp} (h : LocalE E k o) : Local E k o := by
  cases h with
  | putElem s v hs => exact .putElem s v hs
  | delElem s => exact .delElem s
  | delRange a b hr => exact .delRange a b hr

/-- element operations never touch a meta key -/
theorem eff_localE_meta {k : κ} {ops : List WOp} (hl : ∀ o ∈ ops, LocalE E k o) (k' : κ) (cur : Option Bytes) :
    eff (E.metaK k') cur ops = cur := by
  induction ops generalizing cur with
  | nil => rfl
  | cons o t ih =>
    simp only [eff, List.foldl_cons]
    have : effOp (E.metaK k') cur o = cur := by
      cases hl o List.mem_cons_self with
      | putElem s v _ => simp [effOp, E.meta_ne_elem k' k s]
      | delElem s => simp [effOp, E.meta_ne_elem k' k s]
      | delRange a b hr =>
        simp only [effOp]
        rw [if_neg]; intro h; exact E.meta_out k k' (hr _ h.1 h.2)
    rw [this]
    exact ih (fun o ho => hl o (List.mem_cons_of_mem _ ho)) cur

/-- the meta operation of a batch: delete, or rewrite with (head, tail, timestamp) -/
def metaOps (k : κ) : Option (Int × Int × Int) → List WOp
  | none => [WOp.del (E.metaK k)]
  | some (h, t, ts) => [WOp.put (E.metaK k) (E.encMeta h t ts)]

theorem metaOps_local (k : κ) (nm : Option (Int × Int × Int)) : ∀ o ∈ metaOps E k nm, Local E k o := by
  intro o ho
  cases nm with
  | none => simp only [metaOps, List.mem_singleton] at ho; subst ho; exact .delMeta
  | some x => obtain ⟨h, t, ts⟩ := x; simp only [metaOps, List.mem_singleton] at ho; subst ho; exact .putMeta _

theorem eff_metaOps_elem (k k' : κ) (s : Int) (nm : Option (Int × Int × Int)) (cur : Option Bytes) :
    eff (E.elemK k' s) cur (metaOps E k nm) = cur := by
  have hne : E.elemK k' s ≠ E.metaK k := fun e => E.meta_ne_elem _ _ _ e.symm
  cases nm with
  | none => simp [metaOps, eff, effOp, hne]
  | some x => obtain ⟨h, t, ts⟩ := x; simp [metaOps, eff, effOp, hne]

theorem eff_metaOps_meta (k : κ) (nm : Option (Int × Int × Int)) (cur : Option Bytes) :
    eff (E.metaK k) cur (metaOps E k nm) = nm.map (fun x => E.encMeta x.1 x.2.1 x.2.2) := by
  cases nm with
  | none => simp [metaOps, eff, effOp]
  | some x => obtain ⟨h, t, ts⟩ := x; simp [metaOps, eff, effOp]

/-- `lSetMeta` in terms of `metaOps` -/
theorem setMeta_cases (k : κ) (h t ts : Int) :
    (t - h + 1 < 0 ∧ setMeta E.toEncFns k h t ts = .error "listseq") ∨
    (0 ≤ t - h + 1 ∧ setMeta E.toEncFns k h t ts =
      .ok (metaOps E k (if t - h + 1 = 0 then none else some (h, t, ts)), t - h + 1)) := by
  unfold setMeta
  dsimp only
  by_cases h1 : t - h + 1 < 0
  · exact Or.inl ⟨h1, by rw [if_pos h1]⟩
  · refine Or.inr ⟨by omega, ?_⟩
    rw [if_neg h1]
    by_cases h2 : t - h + 1 = 0
    · rw [if_pos h2, if_pos h2]; rfl
    · rw [if_neg h2, if_neg h2]; rfl

/-- **closing lemma for the batch shape** `a ++ meta op ++ b` (a, b element operations of list k):
    the invariant holds again when the new meta lies in the window and exactly [head, tail] is stored -/
theorem inv_of_shape {m : List KV} (inv : Inv E m) (k : κ) (a b : List WOp)
    (ha : ∀ o ∈ a, LocalE E k o) (hb : ∀ o ∈ b, LocalE E k o) (nm : Option (Int × Int × Int))
    (hwin : ∀ h t ts, nm = some (h, t, ts) → minSeq < h ∧ h ≤ t ∧ t < maxSeq)
    (hel : ∀ s, okSeq s → ((eff (E.elemK k s) (Ref.get m (E.elemK k s)) (a ++ b)).isSome ↔
      ∃ h t ts, nm = some (h, t, ts) ∧ h ≤ s ∧ s ≤ t)) :
    Inv E (applyW m (a ++ metaOps E k nm ++ b)) := by
  have hs := inv.sorted
  have hmeta : lmeta? E.toEncFns (applyW m (a ++ metaOps E k nm ++ b)) k =
      nm.map (fun x => (x.1, x.2.1, x.2.1 - x.1 + 1)) := by
    rw [lmeta?_eq, get_applyW hs, eff_append, eff_append, eff_localE_meta E hb, eff_metaOps_meta]
    cases nm with
    | none => rfl
    | some x =>
      obtain ⟨h, t, ts⟩ := x
      obtain ⟨h1, h2, h3⟩ := hwin h t ts rfl
      have oh : okSeq h := ⟨by omega, by omega⟩
      have ot : okSeq t := ⟨by omega, by omega⟩
      simp only [Option.map_some, E.head_rt h t ts oh, E.tail_rt h t ts ot]
  have hgetE : ∀ s, Ref.get (applyW m (a ++ metaOps E k nm ++ b)) (E.elemK k s) =
      eff (E.elemK k s) (Ref.get m (E.elemK k s)) (a ++ b) := by
    intro s
    rw [get_applyW hs, eff_append, eff_append, eff_metaOps_elem, eff_append]
  apply inv_of_local E inv k
  · intro o ho
    rcases List.mem_append.mp ho with ho | ho
    · rcases List.mem_append.mp ho with ho | ho
      · exact (ha o ho).local
      · exact metaOps_local E k nm o ho
    · exact (hb o ho).local
  · intro h t sz hm
    rw [hmeta] at hm
    cases nm with
    | none => cases hm
    | some x =>
      obtain ⟨h0, t0, ts0⟩ := x
      simp only [Option.map_some, Option.some.injEq, Prod.mk.injEq] at hm
      obtain ⟨rfl, rfl, _⟩ := hm
      exact hwin _ _ _ rfl
  · intro s hsq
    rw [hgetE, hel s hsq, hmeta]
    cases nm with
    | none => simp
    | some x =>
      obtain ⟨h0, t0, ts0⟩ := x
      simp only [Option.some.injEq, Prod.mk.injEq, Option.map_some]
      constructor
      · rintro ⟨h, t, ts, ⟨rfl, rfl, rfl⟩, h1, h2⟩
        exact ⟨_, _, _, ⟨rfl, rfl, rfl⟩, h1, h2⟩
      · rintro ⟨h, t, sz, ⟨rfl, rfl, rfl⟩, h1, h2⟩
        exact ⟨_, _, _, ⟨rfl, rfl, rfl⟩, h1, h2⟩

/-! ### effects of the element operations on an element key of the same list -/

theorem elemK_eq_iff (k : κ) {s q : Int} (hs : okSeq s) (hq : okSeq q) : E.elemK k s = E.elemK k q ↔ s = q :=
  ⟨elem_seq E k hs hq, fun e => by rw [e]⟩

/-- consecutive single deletes -/
theorem eff_delSeqs (k : κ) (from_ cnt : Int) (hok : ∀ i : Int, 0 ≤ i → i < cnt → okSeq (from_ + i))
    {s : Int} (hs : okSeq s) (cur : Option Bytes) :
    eff (E.elemK k s) cur (delSeqs E.toEncFns k from_ cnt) = if from_ ≤ s ∧ s < from_ + cnt then none else cur := by
  have hshape : delSeqs E.toEncFns k from_ cnt =
      ((List.range cnt.toNat).map (fun (i : Nat) => E.elemK k (from_ + (i : Int)))).map WOp.del := by
    simp [delSeqs, List.map_map, Function.comp_def]
  rw [hshape]
  by_cases hin : from_ ≤ s ∧ s < from_ + cnt
  · rw [if_pos hin]
    apply eff_dels_mem
    rw [List.mem_map]
    refine ⟨(s - from_).toNat, List.mem_range.mpr (by omega), ?_⟩
    congr 1; omega
  · rw [if_neg hin]
    apply eff_dels_not_mem
    rw [List.mem_map]
    rintro ⟨i, hi, he⟩
    have hi' := List.mem_range.mp hi
    have := elem_seq E k (hok i (by omega) (by omega)) hs he
    omega

theorem delSeqs_localE (k : κ) (from_ cnt : Int) : ∀ o ∈ delSeqs E.toEncFns k from_ cnt, LocalE E k o := by
  intro o ho
  simp only [delSeqs, List.mem_map] at ho
  obtain ⟨i, _, rfl⟩ := ho
  exact .delElem _

/-- one DeleteRange between two element keys -/
theorem effOp_delRange (k : κ) {a b s : Int} (ha : okSeq a) (hb : okSeq b) (hs : okSeq s) (cur : Option Bytes) :
    effOp (E.elemK k s) cur (WOp.delRange (E.elemK k a) (E.elemK k b)) = if a ≤ s ∧ s < b then none else cur := by
  simp only [effOp, elem_le E k ha hs, E.elem_lt k s b hs hb]

theorem delRange_localE (k : κ) (a b : Int) : LocalE E k (WOp.delRange (E.elemK k a) (E.elemK k b)) :=
  .delRange _ _ (fun x h1 h2 => E.between k a b x h1 (List.le_of_lt h2))

/-- single deletes of what the iterator over the closed range finds -/
theorem eff_scanDels {m : List KV} (inv : Inv E m) (k : κ) {a b s : Int} (ha : okSeq a) (hb : okSeq b) (hs : okSeq s) :
    eff (E.elemK k s) (Ref.get m (E.elemK k s)) ((scanC m (E.elemK k a) (E.elemK k b)).map (fun p => WOp.del p.1)) =
      if a ≤ s ∧ s ≤ b then none else Ref.get m (E.elemK k s) := by
  have hshape : (scanC m (E.elemK k a) (E.elemK k b)).map (fun p => WOp.del p.1) =
      ((scanC m (E.elemK k a) (E.elemK k b)).map (·.1)).map WOp.del := by
    simp [List.map_map, Function.comp_def]
  rw [hshape]
  by_cases hin : a ≤ s ∧ s ≤ b
  · rw [if_pos hin]
    cases hg : Ref.get m (E.elemK k s) with
    | none => exact eff_dels_none _ _
    | some v =>
      apply eff_dels_mem
      rw [List.mem_map]
      exact ⟨(E.elemK k s, v), mem_scanC.mpr ⟨(get_eq_some_iff inv.sorted _ _).mp hg,
        (elem_le E k ha hs).mpr hin.1, (elem_le E k hs hb).mpr hin.2⟩, rfl⟩
  · rw [if_neg hin]
    apply eff_dels_not_mem
    rw [List.mem_map]
    rintro ⟨p, hp, he⟩
    obtain ⟨_, h1, h2⟩ := mem_scanC.mp hp
    rw [he] at h1 h2
    exact hin ⟨(elem_le E k ha hs).mp h1, (elem_le E k hs hb).mp h2⟩

theorem scanDels_localE {m : List KV} (inv : Inv E m) (k : κ) (a b : Int) :
    ∀ o ∈ (scanC m (E.elemK k a) (E.elemK k b)).map (fun p => WOp.del p.1), LocalE E k o := by
  intro o ho
  rw [List.mem_map] at ho
  obtain ⟨p, hp, rfl⟩ := ho
  obtain ⟨hpm, h1, h2⟩ := mem_scanC.mp hp
  have hsome : (Ref.get m p.1).isSome := by rw [get_of_mem inv.sorted hpm]; rfl
  obtain ⟨s, _, hps⟩ := inv.noJunk k p.1 hsome (E.between k a b p.1 h1 h2)
  rw [hps]
  exact .delElem s


/-! ### LPOP / RPOP -/

def popSeq (atTail : Bool) (h t : Int) : Int := if atTail then t else h
def popHead (atTail : Bool) (h : Int) : Int := if atTail then h else h + 1
def popTail (atTail : Bool) (t : Int) : Int := if atTail then t - 1 else t

/-- the new meta after a write that leaves [h, t] -/
def newMeta (h t ts : Int) : Option (Int × Int × Int) := if t - h + 1 = 0 then none else some (h, t, ts)

theorem lpop_shape (m : List KV) (ts : Int) (k : κ) (atTail : Bool) :
    (lmeta? E.toEncFns m k = none ∧ lpop E.toEncFns m ts k atTail = (m, .ok none)) ∨
    (∃ h t sz, lmeta? E.toEncFns m k = some (h, t, sz) ∧
      (sz = 0 ∨ Ref.get m (E.elemK k (popSeq atTail h t)) = none ∨ popTail atTail t - popHead atTail h + 1 < 0) ∧
      (lpop E.toEncFns m ts k atTail).1 = m) ∨
    ∃ h t sz v, lmeta? E.toEncFns m k = some (h, t, sz) ∧ sz ≠ 0 ∧
      Ref.get m (E.elemK k (popSeq atTail h t)) = some v ∧ 0 ≤ popTail atTail t - popHead atTail h + 1 ∧
      lpop E.toEncFns m ts k atTail =
        (applyW m ([WOp.del (E.elemK k (popSeq atTail h t))] ++
          metaOps E k (newMeta (popHead atTail h) (popTail atTail t) ts) ++ []), .ok (some v)) := by
  unfold lpop
  split
  · rename_i hm; exact Or.inl ⟨hm, rfl⟩
  · rename_i h t sz hm
    split
    · rename_i hz; exact Or.inr (Or.inl ⟨h, t, sz, hm, Or.inl hz, rfl⟩)
    · rename_i hsz
      dsimp only
      split
      · rename_i hg
        refine Or.inr (Or.inl ⟨h, t, sz, hm, Or.inr (Or.inl ?_), rfl⟩)
        cases atTail <;> simpa [popSeq] using hg
      · rename_i v hv
        rcases setMeta_cases E k (popHead atTail h) (popTail atTail t) ts with ⟨hneg, he⟩ | ⟨h0, he⟩
        · refine Or.inr (Or.inl ⟨h, t, sz, hm, Or.inr (Or.inr hneg), ?_⟩)
          cases atTail <;> simp only [popHead, popTail, Bool.false_eq_true, ↓reduceIte] at he <;> simp [he]
        · right; right
          refine ⟨h, t, sz, v, hm, hsz, ?_, h0, ?_⟩
          · cases atTail <;> simpa [popSeq] using hv
          · cases atTail <;> simp only [popHead, popTail, popSeq, Bool.false_eq_true, ↓reduceIte] at he ⊢ <;>
              simp [he, newMeta]

/-- **LPOP / RPOP preserve the invariant** -/
theorem inv_lpop {m : List KV} (inv : Inv E m) (ts : Int) (k : κ) (atTail : Bool) :
    Inv E (lpop E.toEncFns m ts k atTail).1 := by
  rcases lpop_shape E m ts k atTail with ⟨_, he⟩ | ⟨_, _, _, _, _, he⟩ | ⟨h, t, sz, v, hm, hsz, hv, h0, he⟩
  · rw [he]; exact inv
  · rw [he]; exact inv
  · rw [he]
    obtain ⟨w1, w2, w3⟩ := inv.wf k h t sz hm
    have oseq : okSeq (popSeq atTail h t) := by cases atTail <;> simp [popSeq, okSeq] <;> omega
    apply inv_of_shape E inv k _ [] (fun o ho => by rw [List.mem_singleton.mp ho]; exact .delElem _) (fun o ho => by cases ho)
    · intro h' t' ts' hnm
      unfold newMeta at hnm
      split at hnm
      · cases hnm
      · injection hnm with hnm
        simp only [Prod.mk.injEq] at hnm
        obtain ⟨rfl, rfl, _⟩ := hnm
        cases atTail <;> simp [popHead, popTail] at * <;> omega
    · intro s hsq
      simp only [List.append_nil, eff, List.foldl_cons, List.foldl_nil, effOp, elemK_eq_iff E k hsq oseq]
      have hold := inv.elems k s hsq
      rw [hm] at hold
      simp only [Option.some.injEq, Prod.mk.injEq] at hold
      have hold' : (Ref.get m (E.elemK k s)).isSome ↔ h ≤ s ∧ s ≤ t := by
        rw [hold]
        constructor
        · rintro ⟨_, _, _, ⟨rfl, rfl, _⟩, h1, h2⟩; exact ⟨h1, h2⟩
        · rintro ⟨h1, h2⟩; exact ⟨_, _, _, ⟨rfl, rfl, rfl⟩, h1, h2⟩
      unfold newMeta
      by_cases hsq' : s = popSeq atTail h t
      · rw [if_pos hsq']
        simp only [Option.isSome_none, Bool.false_eq_true, false_iff]
        rintro ⟨h', t', ts', hnm, h1, h2⟩
        split at hnm
        · cases hnm
        · injection hnm with hnm
          simp only [Prod.mk.injEq] at hnm
          obtain ⟨rfl, rfl, _⟩ := hnm
          cases atTail <;> simp [popHead, popTail, popSeq] at * <;> omega
      · rw [if_neg hsq', hold']
        constructor
        · rintro ⟨h1, h2⟩
          have hne : ¬ (popTail atTail t - popHead atTail h + 1 = 0) := by
            cases atTail <;> simp [popHead, popTail, popSeq] at * <;> omega
          rw [if_neg hne]
          refine ⟨_, _, _, rfl, ?_, ?_⟩ <;> cases atTail <;> simp [popHead, popTail, popSeq] at * <;> omega
        · rintro ⟨h', t', ts', hnm, h1, h2⟩
          split at hnm
          · cases hnm
          · injection hnm with hnm
            simp only [Prod.mk.injEq] at hnm
            obtain ⟨rfl, rfl, _⟩ := hnm
            cases atTail <;> simp [popHead, popTail, popSeq] at * <;> omega


/-! ### helpers -/

theorem elems_iff {m : List KV} (inv : Inv E m) {k : κ} {h t sz : Int} (hm : lmeta? E.toEncFns m k = some (h, t, sz))
    {s : Int} (hsq : okSeq s) : (Ref.get m (E.elemK k s)).isSome ↔ h ≤ s ∧ s ≤ t := by
  rw [inv.elems k s hsq, hm]
  simp only [Option.some.injEq, Prod.mk.injEq]
  constructor
  · rintro ⟨_, _, _, ⟨rfl, rfl, _⟩, h1, h2⟩; exact ⟨h1, h2⟩
  · rintro ⟨h1, h2⟩; exact ⟨_, _, _, ⟨rfl, rfl, rfl⟩, h1, h2⟩

theorem elems_none {m : List KV} (inv : Inv E m) {k : κ} (hm : lmeta? E.toEncFns m k = none)
    {s : Int} (hsq : okSeq s) : Ref.get m (E.elemK k s) = none := by
  have := inv.elems k s hsq
  rw [hm] at this
  cases hg : Ref.get m (E.elemK k s) with
  | none => rfl
  | some v => rw [hg] at this; simp at this

theorem newMeta_some {h' t' ts a b c : Int} (h : newMeta h' t' ts = some (a, b, c)) : a = h' ∧ b = t' ∧ t' - h' + 1 ≠ 0 := by
  unfold newMeta at h
  split at h
  · cases h
  · rename_i hne
    injection h with h
    simp only [Prod.mk.injEq] at h
    exact ⟨h.1.symm, h.2.1.symm, hne⟩

theorem newMeta_iff (h' t' ts s : Int) :
    (∃ a b c, newMeta h' t' ts = some (a, b, c) ∧ a ≤ s ∧ s ≤ b) ↔ (t' - h' + 1 ≠ 0 ∧ h' ≤ s ∧ s ≤ t') := by
  constructor
  · rintro ⟨a, b, c, hnm, h1, h2⟩
    obtain ⟨rfl, rfl, hne⟩ := newMeta_some hnm
    exact ⟨hne, h1, h2⟩
  · rintro ⟨hne, h1, h2⟩
    exact ⟨h', t', ts, by simp [newMeta, hne], h1, h2⟩

theorem consts_ok : minSeq < initSeq ∧ initSeq < maxSeq ∧ 0 ≤ minSeq := by
  simp only [minSeq, initSeq, maxSeq, Gen.cListMinSeq, Gen.cListInitialSeq, Gen.cListMaxSeq]; omega

/-! ### LSET -/

theorem seqOfIndex_some {h t index seq : Int} (hs : seqOfIndex h t index = some seq) :
    h ≤ seq ∧ seq ≤ t ∧ seq = (if index ≥ 0 then h + index else t + index + 1) := by
  unfold seqOfIndex at hs
  by_cases hi : index ≥ 0
  · simp only [hi, ↓reduceIte, Bool.or_eq_true, decide_eq_true_eq] at hs ⊢
    split at hs
    · cases hs
    · injection hs with hs; omega
  · simp only [hi, ↓reduceIte, Bool.or_eq_true, decide_eq_true_eq] at hs ⊢
    split at hs
    · cases hs
    · injection hs with hs; omega

theorem lset_shape {m : List KV} (inv : Inv E m) (ts : Int) (k : κ) (index : Int) (v : Bytes) :
    (∃ e, lset E.toEncFns m ts k index v = (m, .error e)) ∨
    ∃ h t sz seq, lmeta? E.toEncFns m k = some (h, t, sz) ∧ seqOfIndex h t index = some seq ∧
      lset E.toEncFns m ts k index v =
        (applyW m ([] ++ metaOps E k (newMeta h t ts) ++ [WOp.put (E.elemK k seq) v]), .ok ()) := by
  unfold lset
  split
  · exact Or.inl ⟨_, rfl⟩
  · rename_i h t sz hm
    split
    · exact Or.inl ⟨_, rfl⟩
    · split
      · exact Or.inl ⟨_, rfl⟩
      · rename_i seq hseq
        right
        refine ⟨h, t, sz, seq, hm, hseq, ?_⟩
        obtain ⟨_, w2, _⟩ := inv.wf k h t sz hm
        rcases setMeta_cases E k h t ts with ⟨hneg, _⟩ | ⟨_, he⟩
        · omega
        · dsimp only
          rw [he]
          simp [newMeta]

/-- **LSET preserves the invariant** -/
theorem inv_lset {m : List KV} (inv : Inv E m) (ts : Int) (k : κ) (index : Int) (v : Bytes) :
    Inv E (lset E.toEncFns m ts k index v).1 := by
  rcases lset_shape E inv ts k index v with ⟨e, he⟩ | ⟨h, t, sz, seq, hm, hseq, he⟩
  · rw [he]; exact inv
  · rw [he]
    obtain ⟨w1, w2, w3⟩ := inv.wf k h t sz hm
    obtain ⟨q1, q2, _⟩ := seqOfIndex_some hseq
    have oseq : okSeq seq := ⟨by omega, by omega⟩
    apply inv_of_shape E inv k [] _ (fun o ho => by cases ho) (fun o ho => by rw [List.mem_singleton.mp ho]; exact .putElem _ _ oseq)
    · intro h' t' ts' hnm
      obtain ⟨rfl, rfl, _⟩ := newMeta_some hnm
      exact ⟨w1, w2, w3⟩
    · intro s hsq
      rw [newMeta_iff]
      simp only [List.nil_append, eff, List.foldl_cons, List.foldl_nil, effOp, elemK_eq_iff E k hsq oseq]
      by_cases hs : s = seq
      · rw [if_pos hs]; simp; omega
      · rw [if_neg hs, elems_iff E inv hm hsq]
        constructor
        · intro h1; exact ⟨by omega, h1⟩
        · intro h1; exact h1.2

/-! ### LCLEAR (`lDelete`) -/

/-- the element part of `lDelete`'s batch -/
def clearMid (m : List KV) (k : κ) (h t : Int) (big : Bool) : List WOp :=
  (if big then [WOp.delRange (E.elemK k h) (E.elemK k t)]
   else (scanC m (E.elemK k h) (E.elemK k t)).map (fun p => WOp.del p.1)) ++ [WOp.del (E.elemK k t)]

theorem ldelete_shape (m : List KV) (k : κ) :
    ((lmeta? E.toEncFns m k = none ∨ ∃ h t, lmeta? E.toEncFns m k = some (h, t, 0)) ∧ ldelete E.toEncFns m k = ([], 0)) ∨
    ∃ h t sz big, lmeta? E.toEncFns m k = some (h, t, sz) ∧ sz ≠ 0 ∧
      ldelete E.toEncFns m k = ([] ++ metaOps E k none ++ clearMid E m k h t big, sz) := by
  unfold ldelete
  split
  · rename_i hm; exact Or.inl ⟨Or.inl hm, rfl⟩
  · rename_i h t sz hm
    split
    · rename_i hz; subst hz; exact Or.inl ⟨Or.inr ⟨h, t, hm⟩, rfl⟩
    · rename_i hsz
      right
      refine ⟨h, t, sz, decide (sz > (rangeDeleteNum : Int)), hm, hsz, ?_⟩
      simp [metaOps, clearMid]

theorem clearMid_localE {m : List KV} (inv : Inv E m) (k : κ) (h t : Int) (big : Bool) :
    ∀ o ∈ clearMid E m k h t big, LocalE E k o := by
  intro o ho
  unfold clearMid at ho
  rcases List.mem_append.mp ho with ho | ho
  · cases big with
    | true => simp only [↓reduceIte, List.mem_singleton] at ho; rw [ho]; exact delRange_localE E k h t
    | false => simp only [Bool.false_eq_true, ↓reduceIte] at ho; exact scanDels_localE E inv k h t o ho
  · rw [List.mem_singleton.mp ho]; exact .delElem _

theorem eff_clearMid {m : List KV} (inv : Inv E m) (k : κ) {h t s : Int} (oh : okSeq h) (ot : okSeq t) (hs : okSeq s)
    (hle : h ≤ t) (big : Bool) :
    eff (E.elemK k s) (Ref.get m (E.elemK k s)) (clearMid E m k h t big) =
      if h ≤ s ∧ s ≤ t then none else Ref.get m (E.elemK k s) := by
  unfold clearMid
  rw [eff_append]
  have hlast : ∀ cur, eff (E.elemK k s) cur [WOp.del (E.elemK k t)] = if s = t then none else cur := by
    intro cur; simp only [eff, List.foldl_cons, List.foldl_nil, effOp, elemK_eq_iff E k hs ot]
  rw [hlast]
  cases big with
  | true =>
    simp only [↓reduceIte, eff, List.foldl_cons, List.foldl_nil]
    rw [effOp_delRange E k oh ot hs]
    by_cases h1 : s = t
    · subst h1; simp [hle]
    · by_cases h2 : h ≤ s ∧ s < t
      · have : h ≤ s ∧ s ≤ t := ⟨h2.1, by omega⟩
        simp [h1, h2, this]
      · have : ¬ (h ≤ s ∧ s ≤ t) := fun h3 => h2 ⟨h3.1, by omega⟩
        simp [h1, h2, this]
  | false =>
    simp only [Bool.false_eq_true, ↓reduceIte]
    rw [eff_scanDels E inv k oh ot hs]
    by_cases h1 : s = t
    · subst h1; simp [hle]
    · simp [h1]

/-- the store after the batch of `lDelete` satisfies the invariant (used by LCLEAR and by LTRIM that empties the list) -/
theorem inv_ldelete {m : List KV} (inv : Inv E m) (k : κ) : Inv E (applyW m (ldelete E.toEncFns m k).1) := by
  rcases ldelete_shape E m k with ⟨_, he⟩ | ⟨h, t, sz, big, hm, hsz, he⟩
  · rw [he]; exact inv
  · rw [he]
    obtain ⟨w1, w2, w3⟩ := inv.wf k h t sz hm
    have oh : okSeq h := ⟨by omega, by omega⟩
    have ot : okSeq t := ⟨by omega, by omega⟩
    apply inv_of_shape E inv k [] _ (fun o ho => by cases ho) (clearMid_localE E inv k h t big)
    · intro h' t' ts' hnm; cases hnm
    · intro s hsq
      simp only [List.nil_append, eff_clearMid E inv k oh ot hsq w2]
      have := elems_iff E inv hm hsq
      by_cases hin : h ≤ s ∧ s ≤ t
      · simp [hin]
      · simp [hin, this]

/-- **LCLEAR preserves the invariant** -/
theorem inv_lclear {m : List KV} (inv : Inv E m) (k : κ) : Inv E (lclear E.toEncFns m k).1 := by
  unfold lclear
  exact inv_ldelete E inv k


/-! ### LTRIM -/

def trimFront (k : κ) (h start : Int) (big : Bool) : List WOp :=
  if start > 0 then
    (if big then [WOp.delRange (E.elemK k h) (E.elemK k (h + start))] else delSeqs E.toEncFns k h start)
  else []

def trimBack (k : κ) (h llen stop : Int) (big : Bool) : List WOp :=
  if stop < llen - 1 then
    (if big then [WOp.delRange (E.elemK k (h + (stop + 1))) (E.elemK k (h + llen))]
     else delSeqs E.toEncFns k (h + (stop + 1)) (llen - (stop + 1)))
  else []

theorem trimFront_localE (k : κ) (h start : Int) (big : Bool) : ∀ o ∈ trimFront E k h start big, LocalE E k o := by
  intro o ho
  unfold trimFront at ho
  split at ho
  · cases big with
    | true => simp only [↓reduceIte, List.mem_singleton] at ho; rw [ho]; exact delRange_localE E k _ _
    | false => simp only [Bool.false_eq_true, ↓reduceIte] at ho; exact delSeqs_localE E k _ _ o ho
  · cases ho

theorem trimBack_localE (k : κ) (h llen stop : Int) (big : Bool) : ∀ o ∈ trimBack E k h llen stop big, LocalE E k o := by
  intro o ho
  unfold trimBack at ho
  split at ho
  · cases big with
    | true => simp only [↓reduceIte, List.mem_singleton] at ho; rw [ho]; exact delRange_localE E k _ _
    | false => simp only [Bool.false_eq_true, ↓reduceIte] at ho; exact delSeqs_localE E k _ _ o ho
  · cases ho

/-- deleting the sequence numbers [from, from+cnt): by one DeleteRange or by single deletes -/
theorem eff_delBlock (k : κ) (from_ cnt : Int) (hc : 0 < cnt) (ofrom : okSeq from_) (oto : okSeq (from_ + cnt))
    {s : Int} (hs : okSeq s) (cur : Option Bytes) (big : Bool) :
    eff (E.elemK k s) cur (if big then [WOp.delRange (E.elemK k from_) (E.elemK k (from_ + cnt))]
      else delSeqs E.toEncFns k from_ cnt) = if from_ ≤ s ∧ s < from_ + cnt then none else cur := by
  cases big with
  | true =>
    simp only [↓reduceIte, eff, List.foldl_cons, List.foldl_nil]
    exact effOp_delRange E k ofrom oto hs cur
  | false =>
    simp only [Bool.false_eq_true, ↓reduceIte]
    apply eff_delSeqs E k from_ cnt _ hs
    intro i h0 h1
    exact ⟨by have := ofrom.1; omega, by have := oto.2; omega⟩

theorem eff_trimFront (k : κ) (h start : Int) (h0 : 0 ≤ start) (oh : okSeq h) (oe : okSeq (h + start))
    {s : Int} (hs : okSeq s) (cur : Option Bytes) (big : Bool) :
    eff (E.elemK k s) cur (trimFront E k h start big) = if h ≤ s ∧ s < h + start then none else cur := by
  unfold trimFront
  split
  · rename_i hpos; exact eff_delBlock E k h start hpos oh oe hs cur big
  · have : ¬ (h ≤ s ∧ s < h + start) := by omega
    rw [if_neg this]; rfl

theorem eff_trimBack (k : κ) (h llen stop : Int) (ofrom : okSeq (h + (stop + 1))) (oto : okSeq (h + llen))
    {s : Int} (hs : okSeq s) (cur : Option Bytes) (big : Bool) :
    eff (E.elemK k s) cur (trimBack E k h llen stop big) = if h + (stop + 1) ≤ s ∧ s < h + llen then none else cur := by
  unfold trimBack
  split
  · rename_i hlt
    have := eff_delBlock E k (h + (stop + 1)) (llen - (stop + 1)) (by omega) ofrom
      (by have e : h + (stop + 1) + (llen - (stop + 1)) = h + llen := by omega
          rw [e]; exact oto) hs cur big
    have e : h + (stop + 1) + (llen - (stop + 1)) = h + llen := by omega
    rw [e] at this
    exact this
  · have : ¬ (h + (stop + 1) ≤ s ∧ s < h + llen) := by omega
    rw [if_neg this]; rfl

theorem ltrim_shape (m : List KV) (ts : Int) (k : κ) (startP stopP : Int) :
    (lmeta? E.toEncFns m k = none ∧ ltrim E.toEncFns m ts k startP stopP = (m, .ok ())) ∨
    (∃ h t llen, lmeta? E.toEncFns m k = some (h, t, llen) ∧
      (normStart llen startP ≥ llen ∨ normStart llen startP > normStop llen stopP) ∧
      ltrim E.toEncFns m ts k startP stopP = (applyW m (ldelete E.toEncFns m k).1, .ok ())) ∨
    ∃ h t llen start stop big1 big2, lmeta? E.toEncFns m k = some (h, t, llen) ∧
      start = normStart llen startP ∧
      stop = (if normStop llen stopP ≥ llen then llen - 1 else normStop llen stopP) ∧
      0 ≤ start ∧ start ≤ stop ∧ stop < llen ∧
      ltrim E.toEncFns m ts k startP stopP =
        (applyW m ((trimFront E k h start big1 ++ trimBack E k h llen stop big2) ++
          metaOps E k (newMeta (h + start) (h + stop) ts) ++ []), .ok ()) := by
  unfold ltrim
  split
  · rename_i hm; exact Or.inl ⟨hm, rfl⟩
  · rename_i h t llen hm
    dsimp only
    split
    · rename_i hall
      simp only [ge_iff_le, gt_iff_lt, Bool.or_eq_true, decide_eq_true_eq] at hall
      exact Or.inr (Or.inl ⟨h, t, llen, hm, hall, rfl⟩)
    · rename_i hnot
      simp only [ge_iff_le, gt_iff_lt, Bool.or_eq_true, decide_eq_true_eq, not_or, Int.not_le, Int.not_lt] at hnot
      have hs0 : 0 ≤ normStart llen startP := by unfold normStart; dsimp only; split <;> omega
      right; right
      refine ⟨h, t, llen, normStart llen startP, _, decide (normStart llen startP > (rangeDeleteNum : Int)),
        decide (llen - (if normStop llen stopP ≥ llen then llen - 1 else normStop llen stopP) > (rangeDeleteNum : Int)),
        hm, rfl, rfl, hs0, ?_, ?_, ?_⟩
      · split <;> omega
      · split <;> omega
      · generalize hstop : (if normStop llen stopP ≥ llen then llen - 1 else normStop llen stopP) = stop
        have hle : normStart llen startP ≤ stop := by rw [← hstop]; split <;> omega
        rcases setMeta_cases E k (h + normStart llen startP) (h + stop) ts with ⟨hneg, _⟩ | ⟨_, he⟩
        · omega
        · rw [he]
          simp only [trimFront, trimBack, decide_eq_true_eq, newMeta, List.append_nil]

/-- **LTRIM preserves the invariant** -/
theorem inv_ltrim {m : List KV} (inv : Inv E m) (ts : Int) (k : κ) (startP stopP : Int) :
    Inv E (ltrim E.toEncFns m ts k startP stopP).1 := by
  rcases ltrim_shape E m ts k startP stopP with ⟨_, he⟩ | ⟨h, t, llen, _, _, he⟩ |
    ⟨h, t, llen, start, stop, big1, big2, hm, _, _, h0, hle, hlt, he⟩
  · rw [he]; exact inv
  · rw [he]; exact inv_ldelete E inv k
  · rw [he]
    obtain ⟨w1, w2, w3⟩ := inv.wf k h t llen hm
    have hsz := lmeta?_size E hm
    apply inv_of_shape E inv k _ []
      (fun o ho => by
        rcases List.mem_append.mp ho with ho | ho
        · exact trimFront_localE E k _ _ _ o ho
        · exact trimBack_localE E k _ _ _ _ o ho)
      (fun o ho => by cases ho)
    · intro h' t' ts' hnm
      obtain ⟨rfl, rfl, _⟩ := newMeta_some hnm
      omega
    · intro s hsq
      rw [newMeta_iff, List.append_nil, eff_append,
        eff_trimFront E k h start h0 ⟨by omega, by omega⟩ ⟨by omega, by omega⟩ hsq,
        eff_trimBack E k h llen stop ⟨by omega, by omega⟩ ⟨by omega, by omega⟩ hsq]
      have hold := elems_iff E inv hm hsq
      by_cases c1 : h ≤ s ∧ s < h + start
      · rw [if_pos c1]
        by_cases c2 : h + (stop + 1) ≤ s ∧ s < h + llen
        · rw [if_pos c2]; simp; omega
        · rw [if_neg c2]; simp; omega
      · rw [if_neg c1]
        by_cases c2 : h + (stop + 1) ≤ s ∧ s < h + llen
        · rw [if_pos c2]; simp; omega
        · rw [if_neg c2, hold]
          constructor
          · intro h1; exact ⟨by omega, by omega, by omega⟩
          · intro h1; omega


/-! ### LPUSH / RPUSH -/

/-- puts on pairwise distinct keys `K 0 … K (n-1)` -/
theorem eff_putsIdx (K V : Nat → Bytes) (n : Nat) (hinj : ∀ i j, i < n → j < n → K i = K j → i = j) (x : Bytes)
    (cur : Option Bytes) :
    (∀ i, i < n → x = K i → eff x cur ((List.range n).map (fun i => WOp.put (K i) (V i))) = some (V i)) ∧
    ((∀ i, i < n → x ≠ K i) → eff x cur ((List.range n).map (fun i => WOp.put (K i) (V i))) = cur) := by
  induction n with
  | zero => exact ⟨fun i hi => absurd hi (Nat.not_lt_zero i), fun _ => rfl⟩
  | succ n ih =>
    obtain ⟨ih1, ih2⟩ := ih (fun i j hi hj => hinj i j (by omega) (by omega))
    rw [List.range_succ, List.map_append, eff_append]
    simp only [List.map_cons, List.map_nil, eff, List.foldl_cons, List.foldl_nil]
    constructor
    · intro i hi hx
      by_cases hin : i = n
      · subst hin; simp [effOp, hx]
      · have hne : x ≠ K n := by
          intro e; rw [hx] at e; exact hin (hinj i n hi (by omega) e)
        have := ih1 i (by omega) hx
        unfold eff at this
        rw [this]; simp [effOp, hne]
    · intro hmiss
      have := ih2 (fun i hi => hmiss i (by omega))
      unfold eff at this
      rw [this]; simp [effOp, hmiss n (by omega)]

theorem zip_puts (K : Nat → Bytes) (args : List Bytes) :
    (((List.range args.length).map K).zip args).map (fun p => WOp.put p.1 p.2) =
      (List.range args.length).map (fun i => WOp.put (K i) (args.getD i [])) := by
  apply List.ext_getElem
  · simp
  · intro i h1 h2
    simp only [List.length_map, List.length_range] at h2
    simp [List.getElem_zip, List.getD_eq_getElem?_getD, List.getElem?_eq_getElem h2]

/-- sequence number of the i-th pushed argument -/
def pushSeq (atTail : Bool) (h t sz : Int) (i : Int) : Int :=
  if atTail then (if sz > 0 then t + 1 else t) + i else (if sz > 0 then h - 1 else h) - i

def pushPuts (k : κ) (atTail : Bool) (h t sz : Int) (args : List Bytes) : List WOp :=
  (List.range args.length).map (fun (i : Nat) => WOp.put (E.elemK k (pushSeq atTail h t sz i)) (args.getD i []))

def pushHead (atTail : Bool) (h t sz : Int) (n : Int) : Int := if atTail then h else pushSeq atTail h t sz (n - 1)
def pushTail (atTail : Bool) (h t sz : Int) (n : Int) : Int := if atTail then pushSeq atTail h t sz (n - 1) else t

theorem lpush_shape (m : List KV) (ts : Int) (k : κ) (atTail : Bool) (args : List Bytes) :
    (∃ e, lpush E.toEncFns m ts k atTail args = (m, .error e)) ∨
    (args = [] ∧ lpush E.toEncFns m ts k atTail args = (m, .ok (lmeta E.toEncFns m k).2.2)) ∨
    ∃ h t sz, lmeta E.toEncFns m k = (h, t, sz) ∧ args ≠ [] ∧ args.length ≤ maxBatch ∧
      minSeq < pushSeq atTail h t sz ((args.length : Int) - 1) ∧ pushSeq atTail h t sz ((args.length : Int) - 1) < maxSeq ∧
      (∀ i : Nat, i < args.length → Ref.get m (E.elemK k (pushSeq atTail h t sz i)) = none) ∧
      0 ≤ pushTail atTail h t sz args.length - pushHead atTail h t sz args.length + 1 ∧
      lpush E.toEncFns m ts k atTail args =
        (applyW m (pushPuts E k atTail h t sz args ++
          metaOps E k (newMeta (pushHead atTail h t sz args.length) (pushTail atTail h t sz args.length) ts) ++ []),
         .ok (sz + (args.length : Int))) := by
  unfold lpush
  split
  · exact Or.inl ⟨_, rfl⟩
  · rename_i hlen
    generalize hlm : lmeta E.toEncFns m k = lm
    obtain ⟨h, t, sz⟩ := lm
    dsimp only
    split
    · rename_i hemp
      exact Or.inr (Or.inl ⟨List.isEmpty_iff.mp hemp, rfl⟩)
    · rename_i hne
      have hne' : args ≠ [] := fun e => hne (by rw [e]; rfl)
      have hseq : ∀ i : Int, (if sz > 0 then (if atTail = true then t else h) + (if atTail = true then 1 else -1)
          else (if atTail = true then t else h)) + i * (if atTail = true then 1 else -1) = pushSeq atTail h t sz i := by
        intro i
        cases atTail <;> simp only [pushSeq, Bool.false_eq_true, ↓reduceIte] <;> split <;> omega
      simp only [hseq]
      split
      · exact Or.inl ⟨_, rfl⟩
      · rename_i hwin
        simp only [Bool.or_eq_true, decide_eq_true_eq, not_or, Int.not_le] at hwin
        split
        · exact Or.inl ⟨_, rfl⟩
        · rename_i hfree
          have hfree' : ∀ i : Nat, i < args.length → Ref.get m (E.elemK k (pushSeq atTail h t sz i)) = none := by
            intro i hi
            simp only [List.any_eq_true, List.mem_map, List.mem_range, not_exists, not_and] at hfree
            have := hfree (E.elemK k (pushSeq atTail h t sz i)) ⟨i, hi, rfl⟩
            cases hg : Ref.get m (E.elemK k (pushSeq atTail h t sz i)) with
            | none => rfl
            | some v => rw [hg] at this; simp at this
          rcases setMeta_cases E k (pushHead atTail h t sz args.length) (pushTail atTail h t sz args.length) ts with
            ⟨_, he⟩ | ⟨h0, he⟩
          · left
            cases atTail <;> simp only [pushHead, pushTail, Bool.false_eq_true, ↓reduceIte] at he <;> simp [he]
          · right; right
            refine ⟨h, t, sz, rfl, hne', Nat.le_of_not_gt hlen, hwin.1, hwin.2, hfree', h0, ?_⟩
            rw [zip_puts (fun i => E.elemK k (pushSeq atTail h t sz i)) args]
            cases atTail <;> simp only [pushHead, pushTail, Bool.false_eq_true, ↓reduceIte] at he ⊢ <;>
              simp [he, pushPuts, newMeta]


def pushBase (atTail : Bool) (h t sz : Int) : Int :=
  if atTail then (if sz > 0 then t + 1 else t) else (if sz > 0 then h - 1 else h)

theorem pushSeq_eq (atTail : Bool) (h t sz i : Int) :
    pushSeq atTail h t sz i = if atTail then pushBase atTail h t sz + i else pushBase atTail h t sz - i := by
  cases atTail <;> simp [pushSeq, pushBase]

/-- the pushed sequence numbers form the interval between the base and the last one -/
theorem pushSeq_mem (atTail : Bool) (h t sz : Int) (n : Nat) (s : Int) :
    (∃ i : Nat, i < n ∧ s = pushSeq atTail h t sz i) ↔
      (if atTail then pushBase atTail h t sz ≤ s ∧ s ≤ pushBase atTail h t sz + ((n : Int) - 1)
       else pushBase atTail h t sz - ((n : Int) - 1) ≤ s ∧ s ≤ pushBase atTail h t sz) := by
  cases atTail with
  | true =>
    simp only [pushSeq_eq, ↓reduceIte]
    constructor
    · rintro ⟨i, hi, rfl⟩; omega
    · rintro ⟨h1, h2⟩; exact ⟨(s - pushBase true h t sz).toNat, by omega, by omega⟩
  | false =>
    simp only [pushSeq_eq, Bool.false_eq_true, ↓reduceIte]
    constructor
    · rintro ⟨i, hi, rfl⟩; omega
    · rintro ⟨h1, h2⟩; exact ⟨(pushBase false h t sz - s).toNat, by omega, by omega⟩

/-- the state of list `k` as the invariant describes it: absent (defaults), or a non-empty window -/
theorem lmeta_state {m : List KV} (inv : Inv E m) (k : κ) {h t sz : Int} (hlm : lmeta E.toEncFns m k = (h, t, sz)) :
    (lmeta? E.toEncFns m k = none ∧ h = initSeq ∧ t = initSeq ∧ sz = 0) ∨
    (lmeta? E.toEncFns m k = some (h, t, sz) ∧ minSeq < h ∧ h ≤ t ∧ t < maxSeq ∧ sz = t - h + 1) := by
  unfold lmeta at hlm
  cases hq : lmeta? E.toEncFns m k with
  | none =>
    rw [hq] at hlm
    simp only [Option.getD_none, Prod.mk.injEq] at hlm
    exact Or.inl ⟨rfl, hlm.1.symm, hlm.2.1.symm, hlm.2.2.symm⟩
  | some x =>
    rw [hq] at hlm
    simp only [Option.getD_some] at hlm
    subst hlm
    obtain ⟨w1, w2, w3⟩ := inv.wf k h t sz hq
    exact Or.inr ⟨rfl, w1, w2, w3, lmeta?_size E hq⟩

/-- **LPUSH / RPUSH preserve the invariant** -/
theorem inv_lpush {m : List KV} (inv : Inv E m) (ts : Int) (k : κ) (atTail : Bool) (args : List Bytes) :
    Inv E (lpush E.toEncFns m ts k atTail args).1 := by
  rcases lpush_shape E m ts k atTail args with ⟨e, he⟩ | ⟨_, he⟩ | ⟨h, t, sz, hlm, hne, _, hw1, hw2, hfree, h0, he⟩
  · rw [he]; exact inv
  · rw [he]; exact inv
  · rw [he]
    have hn : 0 < args.length := List.length_pos_iff.mpr hne
    have hc := consts_ok
    have hst := lmeta_state E inv k hlm
    -- every target has an admissible sequence number
    have hok : ∀ i : Nat, i < args.length → okSeq (pushSeq atTail h t sz i) := by
      intro i hi
      rw [pushSeq_eq] at hw1 hw2 ⊢
      unfold okSeq
      rcases hst with ⟨_, rfl, rfl, rfl⟩ | ⟨_, w1, w2, w3, hsz⟩ <;> cases atTail <;>
        simp [pushBase] at hw1 hw2 ⊢ <;> (try split at hw1) <;> (try split at hw2) <;> (try split) <;> omega
    have hinj : ∀ i j : Nat, i < args.length → j < args.length →
        E.elemK k (pushSeq atTail h t sz i) = E.elemK k (pushSeq atTail h t sz j) → i = j := by
      intro i j hi hj e
      have := elem_seq E k (hok i hi) (hok j hj) e
      rw [pushSeq_eq, pushSeq_eq] at this
      cases atTail <;> simp at this <;> omega
    apply inv_of_shape E inv k _ []
      (fun o ho => by
        simp only [pushPuts, List.mem_map, List.mem_range] at ho
        obtain ⟨i, hi, rfl⟩ := ho
        exact .putElem _ _ (hok i hi))
      (fun o ho => by cases ho)
    · intro h' t' ts' hnm
      obtain ⟨rfl, rfl, _⟩ := newMeta_some hnm
      rw [pushSeq_eq] at hw1 hw2
      simp only [pushHead, pushTail, pushSeq_eq]
      rcases hst with ⟨_, rfl, rfl, rfl⟩ | ⟨_, w1, w2, w3, hsz⟩ <;> cases atTail <;>
        simp [pushBase] at hw1 hw2 ⊢ <;> (try split at hw1) <;> (try split at hw2) <;> (try split) <;> omega
    · intro s hsq
      rw [newMeta_iff, List.append_nil]
      obtain ⟨hit, miss⟩ := eff_putsIdx (fun i => E.elemK k (pushSeq atTail h t sz i)) (fun i => args.getD i [])
        args.length hinj (E.elemK k s) (Ref.get m (E.elemK k s))
      have hmem := pushSeq_mem atTail h t sz args.length s
      by_cases hin : ∃ i : Nat, i < args.length ∧ s = pushSeq atTail h t sz i
      · obtain ⟨i, hi, hsi⟩ := hin
        have := hit i hi (by rw [hsi])
        unfold pushPuts
        rw [this]
        have hrange := hmem.mp ⟨i, hi, hsi⟩
        simp only [Option.isSome_some, true_iff, pushHead, pushTail, pushSeq_eq]
        rcases hst with ⟨_, rfl, rfl, rfl⟩ | ⟨_, w1, w2, w3, hsz⟩ <;> cases atTail <;>
          simp [pushBase] at hrange ⊢ <;> (try split at hrange) <;> (try split) <;> omega
      · have hmiss : ∀ i : Nat, i < args.length → E.elemK k s ≠ E.elemK k (pushSeq atTail h t sz i) := by
          intro i hi e
          exact hin ⟨i, hi, elem_seq E k hsq (hok i hi) e⟩
        have := miss hmiss
        unfold pushPuts
        rw [this]
        have hrange := mt hmem.mpr hin
        simp only [pushHead, pushTail, pushSeq_eq]
        rcases hst with ⟨hq, rfl, rfl, rfl⟩ | ⟨hq, w1, w2, w3, hsz⟩
        · rw [elems_none E inv hq hsq]
          cases atTail <;> simp [pushBase] at hrange ⊢ <;> omega
        · rw [elems_iff E inv hq hsq]
          cases atTail <;> simp [pushBase] at hrange ⊢ <;> (try split at hrange) <;> (try split) <;> omega

end Z.ListInv
