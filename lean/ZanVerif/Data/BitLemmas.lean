/-
  Lemmas for the executable bitmap model `Z.BitExec`:
  * bits and bytes: `setBitTo` / `testBit`, `popcount` of a slice = byte-wise sum, counting the set bit OFFSETS of a byte
    range = byte-wise sum of `popcount8`;
  * the key codec of the bitmap type (C12 for `BitmapType` / `BitmapMetaType`): segment keys are injective in
    (table, versioned key, index), ordered by the index inside one generation, below the stop key, and separated from
    meta keys and KV keys by the type byte; a well-formed segment key inside the scan range of a generation belongs to it.
-/
import ZanVerif.Data.BitBits
import ZanVerif.Data.CodecLemmas
import ZanVerif.Data.CollLemmas
import ZanVerif.Codec.StreamLemmas

namespace Z.BitExec
open Z.Codec

/-! ### bits -/

theorem popcount8_zero : popcount8 0 = 0 := by decide

theorem popcount_nil : popcount [] = 0 := rfl
theorem popcount_cons (b : UInt8) (v : Bytes) : popcount (b :: v) = popcount8 b + popcount v := by
  simp [popcount]
theorem popcount_append (a b : Bytes) : popcount (a ++ b) = popcount a + popcount b := by
  simp [popcount, List.sum_append]
theorem popcount_replicate_zero (n : Nat) : popcount (List.replicate n 0) = 0 := by
  induction n with
  | zero => rfl
  | succ n ih => rw [List.replicate_succ, popcount_cons, ih, popcount8_zero]

/-- Σ_{b ∈ [a, a+n)} popcount8 (F b) -/
def byteSum (F : Nat → UInt8) (a n : Nat) : Nat := ((List.range' a n).map (fun b => popcount8 (F b))).sum

theorem byteSum_zero (F : Nat → UInt8) (a : Nat) : byteSum F a 0 = 0 := rfl

theorem byteSum_succ (F : Nat → UInt8) (a n : Nat) : byteSum F a (n + 1) = byteSum F a n + popcount8 (F (a + n)) := by
  unfold byteSum
  rw [← List.range'_append (s := a) (m := n) (n := 1) (step := 1)]
  simp [List.sum_append]

theorem byteSum_add (F : Nat → UInt8) (a n k : Nat) : byteSum F a (n + k) = byteSum F a n + byteSum F (a + n) k := by
  induction k with
  | zero => simp [byteSum_zero]
  | succ k ih => rw [show n + (k + 1) = (n + k) + 1 by omega, byteSum_succ, ih, byteSum_succ, Nat.add_assoc a n k]; omega

theorem byteSum_congr (F G : Nat → UInt8) (a n : Nat) (h : ∀ b, a ≤ b → b < a + n → F b = G b) : byteSum F a n = byteSum G a n := by
  induction n with
  | zero => rfl
  | succ n ih =>
    rw [byteSum_succ, byteSum_succ, ih (fun b h1 h2 => h b h1 (by omega)), h (a + n) (by omega) (by omega)]

theorem byteSum_eq_zero (F : Nat → UInt8) (a n : Nat) (h : ∀ b, a ≤ b → b < a + n → F b = 0) : byteSum F a n = 0 := by
  induction n with
  | zero => rfl
  | succ n ih =>
    rw [byteSum_succ, ih (fun b h1 h2 => h b h1 (by omega)), h (a + n) (by omega) (by omega), popcount8_zero]

/-- the set bits of the slice `v[lo : lo+n]` (as Go cuts it: bytes behind the end do not exist) -/
theorem popcount_slice (v : Bytes) (lo n : Nat) :
    popcount ((v.drop lo).take n) = byteSum (fun b => v.getD b 0) lo n := by
  induction n with
  | zero => simp [byteSum_zero, popcount_nil]
  | succ n ih =>
    rw [List.take_succ, popcount_append, ih, byteSum_succ]
    congr 1
    rw [List.getElem?_drop, List.getD_eq_getElem?_getD]
    cases h : v[lo + n]? with
    | none => simp [popcount_nil, popcount8_zero]
    | some x => simp [popcount_cons, popcount_nil]

/-- the offsets of the bytes `[a, a+n)` at which `g` holds -/
def enumCount (g : Nat → Bool) (a n : Nat) : Nat := ((List.range' (8 * a) (8 * n)).filter g).length

theorem filter8 (t0 t1 t2 t3 t4 t5 t6 t7 : Bool) :
    ([t7, t6, t5, t4, t3, t2, t1, t0].filter id).length = ([t0, t1, t2, t3, t4, t5, t6, t7].filter id).length := by
  cases t0 <;> cases t1 <;> cases t2 <;> cases t3 <;> cases t4 <;> cases t5 <;> cases t6 <;> cases t7 <;> rfl

theorem filter_map_id {α : Type} (l : List α) (g : α → Bool) : (l.filter g).length = ((l.map g).filter id).length := by
  induction l with
  | nil => rfl
  | cons a t ih => simp only [List.filter_cons, List.map_cons, id]; split <;> simp [ih]

theorem range8 : List.range 8 = [0, 1, 2, 3, 4, 5, 6, 7] := by decide

/-- the eight offsets of one byte -/
theorem bits8 (B : UInt8) (g : Nat → Bool) (x : Nat) (hg : ∀ i, i < 8 → g (x + i) = testBit B (7 - i)) :
    ([x + 0, x + 1, x + 2, x + 3, x + 4, x + 5, x + 6, x + 7].filter g).length = popcount8 B := by
  rw [filter_map_id]
  simp only [List.map_cons, List.map_nil]
  rw [hg 0 (by omega), hg 1 (by omega), hg 2 (by omega), hg 3 (by omega), hg 4 (by omega), hg 5 (by omega), hg 6 (by omega), hg 7 (by omega)]
  show ([testBit B 7, testBit B 6, testBit B 5, testBit B 4, testBit B 3, testBit B 2, testBit B 1, testBit B 0].filter id).length = _
  rw [filter8]
  unfold popcount8
  rw [range8, filter_map_id (l := [0, 1, 2, 3, 4, 5, 6, 7])]
  rfl

/-- counting set bit OFFSETS over a byte range = adding up the bytes' popcounts, for a bit function that reads
    bit `7 - o % 8` of byte `o / 8` (the layout of SETBIT / GETBIT) -/
theorem enumCount_eq (F : Nat → UInt8) (g : Nat → Bool) (hg : ∀ o, g o = testBit (F (o / 8)) (7 - o % 8)) (a n : Nat) :
    enumCount g a n = byteSum F a n := by
  induction n with
  | zero => rfl
  | succ n ih =>
    unfold enumCount at ih ⊢
    rw [show 8 * (n + 1) = 8 * n + 8 by omega, ← List.range'_append (s := 8 * a) (m := 8 * n) (n := 8) (step := 1),
      List.filter_append, List.length_append, ih, byteSum_succ]
    congr 1
    have e : List.range' (8 * a + 1 * (8 * n)) 8 = [8 * (a + n) + 0, 8 * (a + n) + 1, 8 * (a + n) + 2, 8 * (a + n) + 3,
        8 * (a + n) + 4, 8 * (a + n) + 5, 8 * (a + n) + 6, 8 * (a + n) + 7] := by
      rw [show 8 * a + 1 * (8 * n) = 8 * (a + n) by omega]; rfl
    rw [e]
    apply bits8
    intro i hi
    rw [hg, show (8 * (a + n) + i) / 8 = a + n by omega, show (8 * (a + n) + i) % 8 = i by omega]

/-! ### keys -/

theorem bit_ne_kv : Gen.cBitmapType ≠ Gen.cKVType := by decide

theorem sepI_in : inI64 sepI := by unfold inI64 sepI; decide
theorem sepI1_in : inI64 (sepI + 1) := by unfold inI64 sepI; decide

/-- the part of a segment key in front of the versioned key -/
def tpre (table : Bytes) : Bytes := Gen.cBitmapType :: (be16 table.length ++ table ++ [Gen.cTableStartSep, Gen.cBytesFlag])

theorem segK_unfold (table vk : Bytes) (i : Int) :
    segK table vk i = tpre table ++ (encBytes 0 vk ++ (Gen.cIntFlag :: (encInt sepI ++ (Gen.cIntFlag :: encInt i)))) := by
  simp [segK, tpre, tablePrefix, bit_ne_kv, memcmpEncode, encOne]

theorem stopK_unfold (table vk : Bytes) :
    stopK table vk = tpre table ++ (encBytes 0 vk ++ (Gen.cIntFlag :: (encInt (sepI + 1) ++ (Gen.cIntFlag :: encInt 0)))) := by
  simp [stopK, tpre, tablePrefix, bit_ne_kv, memcmpEncode, encOne]

theorem tpre_inj {t t' r r' : Bytes} (ht : t.length < 65536) (ht' : t'.length < 65536) (h : tpre t ++ r = tpre t' ++ r') :
    t = t' ∧ r = r' := by
  simp only [tpre, List.cons_append, List.cons.injEq, true_and, List.append_assoc] at h
  obtain ⟨rfl, h2⟩ := lenPrefixed_inj ht ht' h
  simp only [List.cons.injEq, true_and] at h2
  exact ⟨rfl, h2⟩

/-- **segment keys are injective** in (table, versioned key, index) -/
theorem segK_inj {t t' v v' : Bytes} {i i' : Int} (ht : t.length < 65536) (ht' : t'.length < 65536) (hi : inI64 i) (hi' : inI64 i')
    (h : segK t v i = segK t' v' i') : t = t' ∧ v = v' ∧ i = i' := by
  rw [segK_unfold, segK_unfold] at h
  obtain ⟨rfl, h2⟩ := tpre_inj ht ht' h
  obtain ⟨rfl, h3⟩ := encBytes_append_inj v v' 0 _ _ (by omega) h2
  simp only [List.cons.injEq, true_and] at h3
  have h4 := List.append_cancel_left h3
  simp only [List.cons.injEq, true_and] at h4
  exact ⟨rfl, rfl, encInt_inj hi hi' h4⟩

theorem segK_head (t v : Bytes) (i : Int) : (segK t v i).head? = some Gen.cBitmapType := by rw [segK_unfold]; rfl
theorem metaK_head (t rk : Bytes) : (metaK t rk).head? = some Gen.cBitmapMetaType := rfl
theorem strK_head (t rk : Bytes) : (strK t rk).head? = some Gen.cKVType := rfl

theorem segK_ne_metaK (t v : Bytes) (i : Int) (t' rk : Bytes) : segK t v i ≠ metaK t' rk := by
  intro h; have := congrArg List.head? h; rw [segK_head, metaK_head] at this; exact absurd this (by decide)
theorem segK_ne_strK (t v : Bytes) (i : Int) (t' rk : Bytes) : segK t v i ≠ strK t' rk := by
  intro h; have := congrArg List.head? h; rw [segK_head, strK_head] at this; exact absurd this (by decide)
theorem metaK_ne_strK (t rk t' rk' : Bytes) : metaK t rk ≠ strK t' rk' := by
  intro h; have := congrArg List.head? h; rw [metaK_head, strK_head] at this; exact absurd this (by decide)

/-- inside one generation the segment keys are ordered by the index -/
theorem segK_lt (t v : Bytes) {i j : Int} (hi : inI64 i) (hj : inI64 j) : segK t v i < segK t v j ↔ i < j := by
  rw [segK_unfold, segK_unfold, append_lt_append_left_iff, append_lt_append_left_iff]
  have irr : ¬ (Gen.cIntFlag < Gen.cIntFlag) := by decide
  simp only [List.cons_lt_cons_iff, irr, false_or, true_and]
  rw [append_lt_append_left_iff]
  simp only [List.cons_lt_cons_iff, irr, false_or, true_and]
  exact encInt_lt hi hj

theorem segK_lt_stopK (t v : Bytes) (i : Int) : segK t v i < stopK t v := by
  rw [segK_unfold, stopK_unfold, append_lt_append_left_iff, append_lt_append_left_iff]
  have irr : ¬ (Gen.cIntFlag < Gen.cIntFlag) := by decide
  simp only [List.cons_lt_cons_iff, irr, false_or, true_and]
  rw [int_piece_lt_iff sepI_in sepI1_in]
  left; unfold sepI; omega

theorem tpre_prefix_eq {t t' : Bytes} (ht : t.length < 65536) (ht' : t'.length < 65536) (hp : tpre t <+: tpre t') : tpre t = tpre t' := by
  obtain ⟨r, hr⟩ := hp
  have := tpre_inj (r := r) (r' := []) ht ht' (by simpa using hr)
  rw [this.1]

/-- a well-formed segment key inside the scan range `[segK t v i0, stopK t v)` is a segment of that generation with index ≥ i0 -/
theorem segK_in_range {t v t' v' : Bytes} {i0 i' : Int} (ht : t.length < 65536) (ht' : t'.length < 65536) (hi0 : inI64 i0) (hi' : inI64 i')
    (hlo : segK t v i0 ≤ segK t' v' i') (hhi : segK t' v' i' < stopK t v) : t' = t ∧ v' = v ∧ i0 ≤ i' := by
  have hlo' : ¬ segK t' v' i' < segK t v i0 := List.not_lt.mpr hlo
  rw [segK_unfold, segK_unfold] at hlo'
  rw [segK_unfold, stopK_unfold] at hhi
  rw [piece_lt_iff (a := tpre t') (b := tpre t) (fun hp => tpre_prefix_eq ht' ht hp) (fun hp => (tpre_prefix_eq ht ht' hp).symm)] at hhi hlo'
  have hpe : tpre t' = tpre t := by
    rcases hhi with h | ⟨h, _⟩
    · exact absurd (Or.inl h) hlo'
    · exact h
  have htt : t' = t := (tpre_inj (r := []) (r' := []) ht' ht (by rw [hpe])).1
  subst htt
  have hhi2 : encBytes 0 v' ++ (Gen.cIntFlag :: (encInt sepI ++ (Gen.cIntFlag :: encInt i'))) <
      encBytes 0 v ++ (Gen.cIntFlag :: (encInt (sepI + 1) ++ (Gen.cIntFlag :: encInt 0))) := by
    rcases hhi with h | ⟨_, h⟩
    · exact absurd h (List.lt_irrefl _)
    · exact h
  have hlo2 : ¬ encBytes 0 v' ++ (Gen.cIntFlag :: (encInt sepI ++ (Gen.cIntFlag :: encInt i'))) <
      encBytes 0 v ++ (Gen.cIntFlag :: (encInt sepI ++ (Gen.cIntFlag :: encInt i0))) := fun h => hlo' (Or.inr ⟨rfl, h⟩)
  rw [bytes_piece_lt_iff] at hhi2 hlo2
  have hvv : v' = v := by
    rcases hhi2 with h | ⟨h, _⟩
    · exact absurd (Or.inl h) hlo2
    · exact h
  subst hvv
  refine ⟨rfl, rfl, ?_⟩
  have irr : ¬ (Gen.cIntFlag < Gen.cIntFlag) := by decide
  have hlo3 : ¬ (encInt sepI ++ (Gen.cIntFlag :: encInt i')) < (encInt sepI ++ (Gen.cIntFlag :: encInt i0)) := by
    intro h; apply hlo2; right; refine ⟨rfl, ?_⟩
    exact List.cons_lt_cons_iff.mpr (Or.inr ⟨rfl, h⟩)
  rw [append_lt_append_left_iff] at hlo3
  have hlo4 : ¬ encInt i' < encInt i0 := fun h => hlo3 (List.cons_lt_cons_iff.mpr (Or.inr ⟨rfl, h⟩))
  rw [encInt_lt hi' hi0] at hlo4
  omega

theorem segK_ge (t v : Bytes) {i0 i : Int} (hi0 : inI64 i0) (hi : inI64 i) (h : i0 ≤ i) : segK t v i0 ≤ segK t v i := by
  apply List.not_lt.mp
  rw [segK_lt t v hi hi0]; omega

/-- the index is read back from the last 8 bytes -/
theorem idxOf_segK (t v : Bytes) {i : Int} (hi : inI64 i) : idxOf (segK t v i) = i := by
  unfold idxOf
  have e : segK t v i = (tpre t ++ (encBytes 0 v ++ (Gen.cIntFlag :: (encInt sepI ++ [Gen.cIntFlag])))) ++ encInt i := by
    rw [segK_unfold]; simp
  rw [e, List.length_append, encInt_length, Nat.add_sub_cancel, List.drop_left]
  unfold encInt
  rw [show be64 ((toU64 i + 9223372036854775808) % 18446744073709551616) = beN 8 ((toU64 i + 9223372036854775808) % 18446744073709551616) from rfl]
  have hb : fromBE (beN 8 ((toU64 i + 9223372036854775808) % 18446744073709551616)) = (toU64 i + 9223372036854775808) % 18446744073709551616 :=
    Z.Stream.fromBE_beN 8 _ (by simp; omega)
  rw [hb]
  unfold toU64 inI64 at *
  omega

end Z.BitExec
