/-
  The real list key codec (`Z.ListExec.realFns`, i.e. the encoders of `Z.Codec`) satisfies the abstract codec
  facts `Z.ListInv.Enc` on the keys the server admits (`Z.CollReal.InKey`) and for sequence numbers inside the
  regenerated window [listMinSeq, listMaxSeq]: `lEncodeListKey` is injective and order preserving in the sequence
  number (big-endian uint64 of a non-negative int64), the element keys of one list are the keys with its table/key
  prefix and a fixed 8-byte suffix, and that key space is convex. Consequences of the C12 lemmas.
-/
import ZanVerif.Data.ListRef
import ZanVerif.Data.SetReal

namespace Z.ListReal
open Z.Codec Z.ListExec Z.CollReal Z.ListInv

def comap {κ κ' : Type} (F : EncFns κ) (f : κ' → κ) : EncFns κ' where
  metaK k := F.metaK (f k)
  elemK k := F.elemK (f k)
  encMeta := F.encMeta
  headOf := F.headOf
  tailOf := F.tailOf

/-- the real codec on admitted keys -/
def inFns : EncFns InKey := comap realFns InKey.pair

theorem list_ne_kv : Gen.cListType ≠ Gen.cKVType := by decide

/-- the common prefix of the element keys of one list -/
def pfx (k : InKey) : Bytes := tablePrefix Gen.cListType k.table ++ be16 k.key.length ++ k.key

theorem elemK_eq (k : InKey) (s : Int) : inFns.elemK k s = pfx k ++ be64 (toU64 s) := rfl

theorem okSeq_range {s : Int} (h : okSeq s) : 0 ≤ s ∧ s < 9223372036854775808 := by
  unfold okSeq minSeq maxSeq at h
  simp only [Gen.cListMinSeq, Gen.cListMaxSeq] at h
  omega

theorem toU64_nonneg {s : Int} (h : 0 ≤ s ∧ s < 9223372036854775808) : toU64 s = s.toNat := by
  unfold toU64; omega

theorem ofU64_toU64 {s : Int} (h : 0 ≤ s ∧ s < 9223372036854775808) : ofU64 (toU64 s) = s := by
  rw [toU64_nonneg h]; unfold ofU64; rw [if_pos (by omega)]; omega

theorem head_rt (h t ts : Int) (oh : okSeq h) : inFns.headOf (inFns.encMeta h t ts) = h := by
  simp only [inFns, comap, realFns, List.append_assoc]
  rw [List.take_left' (be64_length _), show be64 (toU64 h) = beN 8 (toU64 h) from rfl,
    Z.Stream.fromBE_beN 8 _ (by have := toU64_lt h; simpa using this)]
  exact ofU64_toU64 (okSeq_range oh)

theorem tail_rt (h t ts : Int) (ot : okSeq t) : inFns.tailOf (inFns.encMeta h t ts) = t := by
  simp only [inFns, comap, realFns, List.append_assoc]
  rw [List.drop_left' (be64_length _), List.take_left' (be64_length _), show be64 (toU64 t) = beN 8 (toU64 t) from rfl,
    Z.Stream.fromBE_beN 8 _ (by have := toU64_lt t; simpa using this)]
  exact ofU64_toU64 (okSeq_range ot)

theorem elem_key (k : InKey) (s : Int) (k' : InKey) (s' : Int) (h : inFns.elemK k s = inFns.elemK k' s') : k = k' := by
  rw [elemK_eq, elemK_eq] at h
  exact (keyPrefix_inj Gen.cListType list_ne_kv k k' _ _ h).1

theorem elem_lt (k : InKey) (s s' : Int) (hs : okSeq s) (hs' : okSeq s') :
    inFns.elemK k s < inFns.elemK k s' ↔ s < s' := by
  rw [elemK_eq, elemK_eq, append_lt_append_left_iff]
  have r := okSeq_range hs
  have r' := okSeq_range hs'
  unfold be64
  rw [beN_lt 8 (by have := toU64_lt s; simpa using this) (by have := toU64_lt s'; simpa using this),
    toU64_nonneg r, toU64_nonneg r']
  omega

theorem meta_inj (k k' : InKey) (h : inFns.metaK k = inFns.metaK k') : k = k' :=
  metaKey_inj Gen.cLMetaType k k' h

theorem meta_ne_elem (k k' : InKey) (s : Int) : inFns.metaK k ≠ inFns.elemK k' s := by
  rw [elemK_eq]
  simp only [inFns, comap, realFns, InKey.pair, metaKey, pfx, prefix_unfold Gen.cListType list_ne_kv, List.cons_append, ne_eq, List.cons.injEq, not_and]
  intro h; exact absurd h (by decide)

theorem in_other (k k' : InKey) (s : Int) (h : pfx k <+: inFns.elemK k' s) : k' = k := by
  obtain ⟨r, hr⟩ := h
  rw [elemK_eq] at hr
  exact (keyPrefix_inj Gen.cListType list_ne_kv k k' _ _ hr).1.symm

theorem meta_out (k k' : InKey) : ¬ pfx k <+: inFns.metaK k' := by
  rintro ⟨r, hr⟩
  simp only [inFns, comap, realFns, InKey.pair, metaKey, pfx, prefix_unfold Gen.cListType list_ne_kv, List.cons_append, List.cons.injEq] at hr
  exact absurd hr.1 (by decide)

theorem elem_in (k : InKey) (s : Int) : pfx k <+: inFns.elemK k s := by
  rw [elemK_eq]; exact List.prefix_append _ _

/-- whatever lies between two strings with a common prefix has that prefix -/
theorem prefix_of_between : ∀ (P u v x : Bytes), P ++ u ≤ x → x ≤ P ++ v → P <+: x
  | [], _, _, x, _, _ => List.nil_prefix
  | p :: P, u, v, [], h1, _ => absurd h1 (by simp)
  | p :: P, u, v, y :: t, h1, h2 => by
    simp only [List.cons_append] at h1 h2
    have e1 := List.cons_le_cons_iff.mp h1
    have e2 := List.cons_le_cons_iff.mp h2
    have hy : y = p := by
      rcases e1 with h | ⟨h, _⟩
      · rcases e2 with h' | ⟨h', _⟩
        · exact absurd h (by
            have a1 : y.toNat < p.toNat := h'
            intro (a2 : p.toNat < y.toNat); omega)
        · exact h'
      · exact h.symm
    subst hy
    have t1 : P ++ u ≤ t := by
      rcases e1 with h | ⟨_, h⟩
      · exact absurd h (by intro (a : y.toNat < y.toNat); omega)
      · exact h
    have t2 : t ≤ P ++ v := by
      rcases e2 with h | ⟨_, h⟩
      · exact absurd h (by intro (a : y.toNat < y.toNat); omega)
      · exact h
    exact List.cons_prefix_cons.mpr ⟨rfl, prefix_of_between P u v t t1 t2⟩

theorem between (k : InKey) (a b : Int) (x : Bytes) (h1 : inFns.elemK k a ≤ x) (h2 : x ≤ inFns.elemK k b) :
    pfx k <+: x := by
  rw [elemK_eq] at h1 h2
  exact prefix_of_between (pfx k) _ _ x h1 h2

/-- **the real list codec satisfies every abstract codec fact on admitted keys** -/
def realEnc : Z.ListInv.Enc InKey where
  toEncFns := inFns
  inList k x := pfx k <+: x
  head_rt := head_rt
  tail_rt := tail_rt
  elem_key := elem_key
  elem_lt := elem_lt
  meta_inj := meta_inj
  meta_ne_elem := meta_ne_elem
  elem_in := elem_in
  in_other := in_other
  meta_out := meta_out
  between := between

/-! the functions of the instance are the functions the driver runs -/
theorem lpush_comap (m : List Z.Ref.KV) (ts : Int) (k : InKey) (atTail : Bool) (args : List Bytes) :
    lpush realEnc.toEncFns m ts k atTail args = lpush realFns m ts k.pair atTail args := rfl
theorem lpop_comap (m : List Z.Ref.KV) (ts : Int) (k : InKey) (atTail : Bool) :
    lpop realEnc.toEncFns m ts k atTail = lpop realFns m ts k.pair atTail := rfl
theorem lset_comap (m : List Z.Ref.KV) (ts : Int) (k : InKey) (i : Int) (v : Bytes) :
    lset realEnc.toEncFns m ts k i v = lset realFns m ts k.pair i v := rfl
theorem ltrim_comap (m : List Z.Ref.KV) (ts : Int) (k : InKey) (a b : Int) :
    ltrim realEnc.toEncFns m ts k a b = ltrim realFns m ts k.pair a b := rfl
theorem lclear_comap (m : List Z.Ref.KV) (k : InKey) : lclear realEnc.toEncFns m k = lclear realFns m k.pair := rfl
theorem llen_comap (m : List Z.Ref.KV) (k : InKey) : llen realEnc.toEncFns m k = llen realFns m k.pair := rfl
theorem lindex_comap (m : List Z.Ref.KV) (k : InKey) (i : Int) : lindex realEnc.toEncFns m k i = lindex realFns m k.pair i := rfl
theorem lrange_comap (m : List Z.Ref.KV) (k : InKey) (a b : Int) :
    lrange realEnc.toEncFns m k a b = lrange realFns m k.pair a b := rfl
theorem lkeyexist_comap (m : List Z.Ref.KV) (k : InKey) : lkeyexist realEnc.toEncFns m k = lkeyexist realFns m k.pair := rfl

end Z.ListReal
