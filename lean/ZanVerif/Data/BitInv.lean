/-
  Representation facts of the executable bitmap model `Z.BitExec`:
  * `WF`: well-formedness of the bitmap-typed part of the store (every key with the BitmapType byte is a segment key
    `segK table x (1024·j)`, its value carries nothing but zeros above byte 1023) — preserved by EVERY write of the
    model (SETBIT incl. the legacy conversion, BITCLEAR in both layouts, BEXPIRE / BPERSIST) and by any write to a key of
    another type, hence true in every reachable state;
  * (BitFixed.lean) under `WF` the BITCOUNT of the code (`bitcount`: iterator, break behind `end`, clamped cuts) is the prescribed one (`bitcountSpec`);
  * whenever the code's BITCOUNT (`bitcount`) answers a number and no stored segment lies behind the segment of `end`,
    that number is the prescribed one; what it adds otherwise.
-/
import ZanVerif.Data.BitCount

namespace Z.BitExec
open Z.Ref (get put del scan Sorted get_put get_del put_sorted del_sorted mem_scan mem_put mem_del)
open Z.Coll
open Z.Codec Z.Header

/-! ### well-formedness -/

/-- nothing but zeros above byte 1023 (what a doubling of the stored length appends) -/
def ZeroTail (v : Bytes) : Prop := ∀ i, 1024 ≤ i → v.getD i 0 = 0

/-- a key / value pair a bitmap write may put under the BitmapType byte -/
def SegPair (p : KV) : Prop :=
  ∃ (t x : Bytes) (j : Nat), p.1 = segK t x (Gen.cBitmapSegBytes * (j : Int)) ∧ t.length < 65536 ∧ j < 9007199254740992 ∧ ZeroTail p.2 ∧ p.2.length ≤ 2046

structure WF (m : List KV) : Prop where
  sorted : Sorted m
  seg : ∀ p ∈ m, p.1.head? = some Gen.cBitmapType → SegPair p

theorem WF.nil : WF [] := ⟨trivial, fun p hp => by cases hp⟩

theorem WF.put {m : List KV} (W : WF m) (k v : Bytes) (h : k.head? = some Gen.cBitmapType → SegPair (k, v)) : WF (put m k v) :=
  ⟨put_sorted W.sorted k v, fun p hp hh => by
    rcases mem_put hp with rfl | hp
    · exact h hh
    · exact W.seg p hp hh⟩

theorem WF.del {m : List KV} (W : WF m) (k : Bytes) : WF (del m k) :=
  ⟨del_sorted W.sorted k, fun p hp hh => W.seg p (mem_del hp) hh⟩

theorem WF.delRange {m : List KV} (W : WF m) (a b : Bytes) : WF (delRange m a b) :=
  ⟨delRange_sorted W.sorted a b, fun p hp hh => W.seg p (List.mem_filter.mp hp).1 hh⟩

/-- what a write-batch operation must satisfy -/
def OpOK : WOp → Prop
  | .put k v => k.head? = some Gen.cBitmapType → SegPair (k, v)
  | .del _ => True
  | .delRange _ _ => True

theorem WF.applyW {m : List KV} (W : WF m) (wb : List WOp) (h : ∀ o ∈ wb, OpOK o) : WF (applyW m wb) := by
  unfold Z.Coll.applyW
  induction wb generalizing m with
  | nil => exact W
  | cons o t ih =>
    simp only [List.foldl_cons]
    apply ih _ (fun o' ho' => h o' (List.mem_cons_of_mem _ ho'))
    have ho := h o List.mem_cons_self
    cases o with
    | put k v => exact W.put k v ho
    | del k => exact W.del k
    | delRange a b => exact W.delRange a b

theorem ZeroTail.nil : ZeroTail [] := fun i _ => by simp

theorem ZeroTail.of_short {v : Bytes} (h : v.length ≤ 1024) : ZeroTail v := fun i hi => getD_of_le v i (by omega)

theorem getD_append_replicate (v : Bytes) (k i : Nat) : (v ++ List.replicate k (0 : UInt8)).getD i 0 = v.getD i 0 := by
  rw [List.getD_eq_getElem?_getD, List.getD_eq_getElem?_getD]
  by_cases h : i < v.length
  · rw [List.getElem?_append_left h]
  · rw [List.getElem?_append_right (by omega), List.getElem?_eq_none (show v.length ≤ i by omega)]
    by_cases h2 : i - v.length < k
    · rw [List.getElem?_replicate, if_pos h2]; rfl
    · rw [List.getElem?_replicate, if_neg h2]

theorem getD_grow (v : Bytes) (bo i : Nat) : (grow v bo).getD i 0 = v.getD i 0 := by
  unfold grow; split
  · exact getD_append_replicate v _ i
  · rfl

theorem getD_set_ne (v : Bytes) (i j : Nat) (x : UInt8) (h : i ≠ j) : (v.set i x).getD j 0 = v.getD j 0 := by
  rw [List.getD_eq_getElem?_getD, List.getD_eq_getElem?_getD, List.getElem?_set, if_neg h]

theorem byteOffOf_lt (offset : Int) (h : 0 ≤ offset) : byteOffOf offset < 1024 := by
  unfold byteOffOf Gen.bitSetByteOff
  rw [segBytes_val, Int.tdiv_eq_ediv_of_nonneg h, Int.tmod_eq_emod_of_nonneg (by omega)]; omega

theorem ZeroTail.segAfter {v : Bytes} (hz : ZeroTail v) (offset on : Int) (h : 0 ≤ offset) : ZeroTail (segAfter v offset on) := by
  intro i hi
  unfold Z.BitExec.segAfter
  have := byteOffOf_lt offset h
  rw [getD_set_ne _ _ _ _ (by omega), getD_grow]
  exact hz i hi

theorem setIndex_eq (offset : Int) (h0 : 0 ≤ offset) :
    Gen.bitSetIndex offset = Gen.cBitmapSegBytes * ((offset / 8192).toNat : Int) := by
  unfold Gen.bitSetIndex
  rw [show Gen.cBitmapSegBits = 8192 from rfl, segBytes_val, Int.tdiv_eq_ediv_of_nonneg h0]; omega

theorem offsetGuard (offset : Int) (h : Gen.bitOffsetBad offset = false) : 0 ≤ offset ∧ offset ≤ 4294967294 := by
  unfold Gen.bitOffsetBad at h
  rw [show Gen.cMaxBitOffsetV2 = 4294967294 from rfl] at h
  simp only [Bool.or_eq_false_iff, decide_eq_false_iff_not] at h
  omega

theorem grow_length_le (v : Bytes) (bo : Nat) (hb : bo < 1024) (hl : v.length ≤ 2046) : (grow v bo).length ≤ 2046 := by
  unfold grow Gen.bitGrowNeeded Gen.bitGrowFar Gen.bitGrowFarSize Gen.bitGrowDefault
  simp only [decide_eq_true_eq]
  split
  · rw [List.length_append, List.length_replicate]; split <;> omega
  · exact hl

theorem segAfter_length_le (v : Bytes) (offset on : Int) (h0 : 0 ≤ offset) (hl : v.length ≤ 2046) : (segAfter v offset on).length ≤ 2046 := by
  unfold Z.BitExec.segAfter
  rw [List.length_set]
  exact grow_length_le v _ (byteOffOf_lt offset h0) hl

theorem segPair_setbit (table vk v : Bytes) (offset on : Int) (ht : table.length < 65536) (ho : Gen.bitOffsetBad offset = false)
    (hz : ZeroTail v) (hl : v.length ≤ 2046) : SegPair (segK table vk (Gen.bitSetIndex offset), segAfter v offset on) := by
  obtain ⟨h0, h1⟩ := offsetGuard offset ho
  refine ⟨table, vk, (offset / 8192).toNat, ?_, ht, by omega, hz.segAfter offset on h0, segAfter_length_le v offset on h0 hl⟩
  show segK table vk (Gen.bitSetIndex offset) = _
  rw [setIndex_eq offset h0]

/-! ### the legacy conversion -/

theorem chunks_ok : ∀ (fuel : Nat) (v : Bytes) (j : Nat), ∀ c ∈ chunks fuel v (Gen.cBitmapSegBytes * (j : Int)),
    ∃ i : Nat, j ≤ i ∧ i ≤ j + fuel ∧ c.1 = Gen.cBitmapSegBytes * (i : Int) ∧ c.2.length ≤ 1024
  | 0, _, _, c, hc => by simp [chunks] at hc
  | fuel + 1, v, j, c, hc => by
    unfold chunks at hc
    split at hc
    · cases hc
    · rcases List.mem_cons.mp hc with rfl | hc
      · refine ⟨j, by omega, by omega, rfl, ?_⟩
        show (v.take Gen.cBitmapSegBytes.toNat).length ≤ 1024
        rw [List.length_take, show Gen.cBitmapSegBytes.toNat = 1024 from rfl]; omega
      · have e : Gen.cBitmapSegBytes * (j : Int) + Gen.cBitmapSegBytes = Gen.cBitmapSegBytes * ((j + 1 : Nat) : Int) := by
          rw [segBytes_val]; omega
        rw [e] at hc
        obtain ⟨i, h1, h2, h3, h4⟩ := chunks_ok fuel _ (j + 1) c hc
        exact ⟨i, by omega, by omega, h3, h4⟩

theorem WF.convert {m : List KV} (W : WF m) (table rk : Bytes) (ht : table.length < 65536)
    (hlen : ∀ v, get m (strK table rk) = some v → v.length < 1125899906842624) : WF (convert m table rk).1 := by
  unfold Z.BitExec.convert
  cases hg : get m (strK table rk) with
  | none => exact W
  | some v =>
    simp only
    split
    · exact W
    · apply W.applyW
      intro o ho
      rcases List.mem_append.mp ho with ho | ho
      · obtain ⟨c, hc, rfl⟩ := List.mem_map.mp ho
        intro _
        have := chunks_ok _ _ 0 c (by simpa using hc)
        obtain ⟨i, _, h2, h3, h4⟩ := this
        have hl := hlen v hg
        refine ⟨table, rk, i, by rw [h3], ht, ?_, ZeroTail.of_short h4, Nat.le_trans h4 (by omega)⟩
        have hb : (List.take (v.length - Gen.cTsLen) v).length ≤ v.length := by rw [List.length_take]; omega
        omega
      · simp only [List.mem_singleton] at ho; subst ho; trivial

theorem WF.startOf {m : List KV} (W : WF m) (table rk : Bytes) (size0 : Int) (ok : Bool) (ht : table.length < 65536)
    (hlen : ∀ v, get m (strK table rk) = some v → v.length < 1125899906842624) : WF (startOf m table rk size0 ok).1 := by
  unfold Z.BitExec.startOf
  split
  · exact W
  · exact W.convert table rk ht hlen

/-- the size check of the conversion (`if int64(len(v)) != bmSize { panic(…) }`, `bmSize` = 0 + the chunk lengths) is dead:
    the chunks the loop writes add up to the whole body -/
theorem chunks_total : ∀ (fuel : Nat) (v : Bytes) (i : Int), v.length < fuel →
    ((chunks fuel v i).map (fun c => c.2.length)).sum = v.length
  | 0, _, _, h => by omega
  | fuel + 1, v, i, h => by
    unfold chunks
    split
    · rename_i he
      have : v = [] := by simpa using he
      subst this; rfl
    · rename_i hne
      have hpos : 0 < v.length := by
        cases v with
        | nil => simp at hne
        | cons a t => simp
      rw [List.map_cons, List.sum_cons, chunks_total fuel _ _ (by rw [List.length_drop, show Gen.cBitmapSegBytes.toNat = 1024 from rfl]; omega)]
      rw [List.length_take, List.length_drop, show Gen.cBitmapSegBytes.toNat = 1024 from rfl]
      omega

/-! ### every bitmap write preserves `WF` -/

theorem metaK_not_bit (t rk : Bytes) : (metaK t rk).head? = some Gen.cBitmapType → False := by
  rw [metaK_head]; intro h; exact absurd h (by decide)

theorem WF.setbit {m : List KV} (W : WF m) (pol : Pol) (ts : Int) (table rk : Bytes) (offset on : Int) (ht : table.length < 65536)
    (hlen : ∀ v, get m (strK table rk) = some v → v.length < 1125899906842624) : WF (setbit pol m ts table rk offset on).1 := by
  unfold Z.BitExec.setbit
  split
  · exact W
  · rename_i hv
    split
    · exact W
    · rename_i ho
      have ho' : Gen.bitOffsetBad offset = false := by simpa using ho
      split
      · exact W
      · rename_i h ex size0 ok hm
        simp only
        have W1 : WF (Z.BitExec.startOf m table rk size0 ok).1 := W.startOf table rk size0 ok ht hlen
        generalize (Z.BitExec.startOf m table rk size0 ok).1 = m1 at W1 ⊢
        apply W1.applyW
        intro o hmem
        simp only [List.mem_cons, List.mem_nil_iff, or_false] at hmem
        rcases hmem with rfl | rfl
        · intro _
          cases hg : get m1 (segK table (vkey pol rk (wHdr pol h ex ts).ver) (Gen.bitSetIndex offset)) with
          | none => exact segPair_setbit _ _ _ _ _ ht ho' ZeroTail.nil (by simp)
          | some v =>
            have hp := (Z.Coll.get_eq_some_iff W1.sorted _ _).mp hg
            obtain ⟨_, _, _, _, _, _, hz, hl⟩ := W1.seg _ hp (segK_head _ _ _)
            exact segPair_setbit _ _ _ _ _ ht ho' hz hl
        · intro hh; exact absurd hh (fun h => metaK_not_bit _ _ h)

theorem WF.bitclear {m : List KV} (W : WF m) (pol : Pol) (ts : Int) (table rk : Bytes) : WF (bitclear pol m ts table rk).1 := by
  unfold Z.BitExec.bitclear
  cases hmv : mview pol m ts table rk with
  | bad e => exact W
  | mv h ex =>
    simp only
    generalize clearSize h = bm
    by_cases hc : (ex || bm == 0) = true
    · rw [if_pos hc]; exact W
    · rw [if_neg hc]
      cases pol with
      | compact => exact W.applyW _ (fun o ho => by simp only [List.mem_singleton] at ho; subst ho; trivial)
      | «local» =>
        apply W.applyW
        intro o ho
        rcases List.mem_cons.mp ho with rfl | ho
        · trivial
        · split at ho
          · simp only [List.mem_singleton] at ho; subst ho; trivial
          · obtain ⟨p, _, rfl⟩ := List.mem_map.mp ho; trivial

theorem WF.bexpireAt {m : List KV} (W : WF m) (ts : Int) (table rk : Bytes) (when : Int) : WF (bexpireAt m ts table rk when).1 := by
  unfold Z.BitExec.bexpireAt
  split
  · exact W
  · split
    · exact W
    · split
      · exact W
      · exact W
      · exact W.put _ _ (fun hh => absurd hh (fun h => metaK_not_bit _ _ h))

theorem WF.bexpire {m : List KV} (W : WF m) (ts : Int) (table rk : Bytes) (dur : Int) : WF (bexpire m ts table rk dur).1 :=
  W.bexpireAt ts table rk _

theorem WF.bpersist {m : List KV} (W : WF m) (pol : Pol) (ts : Int) (table rk : Bytes) : WF (bpersist pol m ts table rk).1 := by
  unfold Z.BitExec.bpersist
  cases pol with
  | compact => exact W.bexpireAt ts table rk 0
  | «local» =>
    simp only
    split
    · exact W
    · split <;> exact W

/-- a write to a key of another type (KV string, any other collection) keeps the bitmap part well-formed -/
theorem WF.put_other {m : List KV} (W : WF m) (k v : Bytes) (h : k.head? ≠ some Gen.cBitmapType) : WF (Z.Ref.put m k v) :=
  W.put k v (fun hh => absurd hh h)

/-! ### sums over a filtered sorted store = sums over an injective key family -/

theorem get_cons_ne {a : KV} {t : List KV} {k : Bytes} (h : a.1 ≠ k) : get (a :: t) k = get t k := by
  simp [Z.Ref.get, h]

theorem get_tail_none {a : KV} {t : List KV} (hs : Sorted (a :: t)) : get t a.1 = none :=
  Z.Ref.get_none_of_lt (fun p hp => hs.head_lt p hp)

theorem sumOver_const_zero (a n : Nat) : sumOver (fun _ => 0) a n = 0 := by
  induction n with
  | zero => rfl
  | succ n ih => rw [sumOver_succ, ih]

theorem sum_filter_eq_sumOver {m : List KV} (hs : Sorted m) (P : KV → Bool) (G : KV → Nat) (K : Nat → Bytes) (a n : Nat)
    (hK : ∀ i j, a ≤ i → i < a + n → a ≤ j → j < a + n → K i = K j → i = j)
    (h1 : ∀ p ∈ m, P p = true → ∃ j, a ≤ j ∧ j < a + n ∧ p.1 = K j)
    (h2 : ∀ j, a ≤ j → j < a + n → ∀ v, get m (K j) = some v → P (K j, v) = true) :
    ((m.filter P).map G).sum = sumOver (fun j => match get m (K j) with | some v => G (K j, v) | none => 0) a n := by
  induction m with
  | nil =>
    simp only [List.filter_nil, List.map_nil, List.sum_nil, Z.Ref.get]
    exact (sumOver_const_zero a n).symm
  | cons p t ih =>
    have ht := ih hs.tail (fun q hq hP => h1 q (List.mem_cons_of_mem _ hq) hP)
      (fun j ha hb v hg => by
        apply h2 j ha hb v
        have hne : p.1 ≠ K j := by
          intro e
          have := get_tail_none hs
          rw [e, hg] at this; cases this
        rw [get_cons_ne hne]; exact hg)
    by_cases hP : P p = true
    · obtain ⟨j0, ha, hb, hk⟩ := h1 p List.mem_cons_self hP
      rw [List.filter_cons_of_pos hP, List.map_cons, List.sum_cons, ht]
      rw [Nat.add_comm]
      symm
      apply sumOver_bump _ _ a n j0 (G p) ha hb
      · show (match get (p :: t) (K j0) with | some v => G (K j0, v) | none => 0) = _
        have hn : get t (K j0) = none := by rw [← hk]; exact get_tail_none hs
        have hg : get (p :: t) (K j0) = some p.2 := by simp [Z.Ref.get, hk]
        rw [hg, hn]
        simp only [Nat.zero_add]
        rw [← hk]
      · intro j hja hjb hj
        have hne : p.1 ≠ K j := fun e => hj (hK j j0 hja hjb ha hb (by rw [← e, hk]))
        show (match get (p :: t) (K j) with | some v => G (K j, v) | none => 0) = _
        rw [get_cons_ne hne]
    · rw [List.filter_cons_of_neg hP, ht]
      apply sumOver_congr
      intro j ha hb
      have hne : p.1 ≠ K j := by
        intro e
        apply hP
        have := h2 j ha hb p.2 (by simp [Z.Ref.get, e])
        rw [← e] at this
        exact this
      show _ = (match get (p :: t) (K j) with | some v => G (K j, v) | none => 0)
      rw [get_cons_ne hne]

end Z.BitExec
