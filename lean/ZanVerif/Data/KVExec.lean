/-
  Executable storage-level model of the KV (string) type under the value-header policy
  (`policy=compact`), over the sorted reference store `Z.Ref` with the real key codec `Z.Codec`.
  Mirrors rockredis/t_kv.go: stored value = 13-byte header ‖ user data ‖ 8-byte modification time.
  Every single-key write is  `view` (what getRawDBKVValue / prepareKVValueForWrite /
  getDBKVRealValueAndHeader see at the command's clock)  →  `kvCmd` (decision, a pure function of the
  view)  →  `applyEff` (one Put / Delete on the key's own db key).
  Write paths take the LOG timestamp `ts`; read paths and the leader-side pre-checks take the read
  time `now` (the wall clock in the code).  The table key counter is not modelled.
  Core only (runs inside the `datacorekv` / `datacorettl` drivers).
-/
import ZanVerif.Engine.Ref
import ZanVerif.Data.Header

namespace Z.KVExec
abbrev Bytes := List UInt8
abbrev KV := Bytes × Bytes
open Z.Ref (get)
open Z.Codec (kvKey be64 toU64 ofU64 fromBE)
open Z.Header

/-! ### strconv / formatting -/

inductive PRes
  | ok (n : Int)
  | syntax      -- strconv.ErrSyntax  → class `notint`
  | range       -- strconv.ErrRange   → class `numrange`
  deriving DecidableEq, Repr

def digit (c : UInt8) : Option Nat := if 48 ≤ c.toNat ∧ c.toNat ≤ 57 then some (c.toNat - 48) else none

/-- the digit loop of `strconv.ParseUint(s, 10, 64)`: a bad character or an overflow ends it at once -/
def parseUintAux : List UInt8 → Nat → PRes
  | [], n => .ok n
  | c :: r, n =>
    match digit c with
    | none => .syntax
    | some d =>
      if n ≥ 1844674407370955162 then .range
      else if n * 10 + d > 18446744073709551615 then .range
      else parseUintAux r (n * 10 + d)

/-- `strconv.ParseInt(s, 10, 64)` (also the outcome classes of `strconv.Atoi` on a 64-bit int) -/
def parseInt (s : Bytes) : PRes :=
  match s with
  | [] => .syntax
  | c :: r =>
    let neg := c == 45
    let body := if c == 43 || c == 45 then r else s
    if body.isEmpty then .syntax else
    match parseUintAux body 0 with
    | .syntax => .syntax
    | .range => .range
    | .ok un =>
      if !neg && un ≥ 9223372036854775808 then .range
      else if neg && un > 9223372036854775808 then .range
      else .ok (if neg then -un else un)

def digitsAux : Nat → Nat → List UInt8 → List UInt8
  | 0, _, acc => acc
  | f + 1, n, acc =>
    let acc' := UInt8.ofNat (48 + n % 10) :: acc
    if n < 10 then acc' else digitsAux f (n / 10) acc'

/-- `strconv.AppendInt(nil, n, 10)` -/
def fmtInt (n : Int) : Bytes := if n < 0 then 45 :: digitsAux 20 n.natAbs [] else digitsAux 20 n.toNat []

/-- int64 arithmetic wraps -/
def wrap64 (x : Int) : Int := ofU64 (toU64 x)

/-! ### errors, replies -/

inductive KErr
  | header        -- "invalid header meta value"
  | hdrVersion    -- "invalid header version"
  | notint | numrange
  | valuelen      -- errValueSize
  | ttl           -- errInvalidTTL / common.ErrInvalidTTL
  | expoverflow   -- errExpOverflow
  | args          -- common.ErrInvalidArgs
  | offset        -- errOffsetRange
  deriving DecidableEq, Repr

inductive Reply
  | int (n : Int)
  | bulk (b : Bytes)
  | nil
  | ok
  | err (e : KErr)
  deriving DecidableEq, Repr

/-- result of a read-path function: value or error -/
inductive RdRes (α : Type)
  | ok (a : α)
  | error (e : KErr)
  deriving DecidableEq, Repr

def errOf : DErr → KErr
  | .hdrMeta => .header
  | .hdrVersion => .hdrVersion

def tooBig (v : Bytes) : Bool := decide (v.length > Gen.cMaxValueSize)

/-! ### what a command sees of its key -/

/-- `decodeDBRawValueToRealValue`: the trailing modification time is cut when there is room for one -/
def stripTs (v : Bytes) : Bytes := if v.length ≥ 8 then v.take (v.length - 8) else v

inductive View
  | absent
  | bad (raw : Bytes) (e : DErr)                                  -- stored bytes that do not decode
  | val (raw : Bytes) (h : Hdr) (user : Bytes) (expired : Bool)   -- `expired` at the command's clock
  deriving DecidableEq, Repr

/-- `getRawDBKVValue` (isExpired decodes the whole raw value) followed by `decodeDBRawValueToRealValue` -/
def viewRaw (ts : Int) (raw : Bytes) : View :=
  match decode raw with
  | .err e => .bad raw e
  | .ok h0 =>
    match decode (stripTs raw) with
    | .err e => .bad raw e
    | .ok h => .val raw h (h.user.getD []) (isExpired h0 ts)

def view (m : List KV) (ts : Int) (rawKey : Bytes) : View :=
  match get m (kvKey rawKey) with
  | none => .absent
  | some raw => viewRaw ts raw

/-- realV of a key that is present and not expired -/
def live : View → Option Bytes
  | .val _ _ u false => some u
  | _ => none

def isAbsent : View → Bool
  | .absent => true
  | _ => false

def isExpiredV : View → Bool
  | .val _ _ _ e => e
  | _ => false

/-- `keyInfo.OldHeader` after `prepareKVValueForWrite`: fresh for an absent key, renewed for an expired one -/
def hdrForWrite (V : View) (ts : Int) : Hdr :=
  match V with
  | .val _ h _ true => renew h ts
  | .val _ h _ false => h
  | _ => fresh

/-- `encodeRealValueToDBRawValue` -/
def putH (h : Hdr) (user : Bytes) (ts : Int) : Bytes := encode { h with user := some user } ++ be64 (toU64 ts)

/-- `resetWithNewKVValue`: fresh header, new expiry (none for ttl ≤ 0), modification time -/
def reset (ts : Int) (value : Bytes) (dur : Int) : ERes :=
  let raw0 := encode ⟨0, 0, some value⟩
  match (if dur ≤ 0 then rawExpireAt raw0 0 else rawExpireAt raw0 (dur + Int.tdiv ts 1000000000)) with
  | .err e => .err e
  | .ok v => .ok (v ++ be64 (toU64 ts))

def eerr : EErr → KErr
  | .overflow => .expoverflow
  | .dec e => errOf e

/-! ### single-key writes -/

inductive Eff
  | keep
  | put (v : Bytes)
  | del
  deriving DecidableEq, Repr

def applyEff (m : List KV) (dbk : Bytes) : Eff → List KV
  | .keep => m
  | .put v => Z.Ref.put m dbk v
  | .del => Z.Ref.del m dbk

inductive KCmd
  | set (v : Bytes)                                   -- SET k v                       (KVSet → setKV)
  | setOpts (v : Bytes) (dur : Int) (nx xx : Bool)    -- SET k v [EX s] [NX|XX]        (KVSetWithOpts)
  | setnx (v : Bytes)                                 -- SETNX                         (KVSetWithOpts … true false)
  | setex (dur : Int) (v : Bytes)                     -- SETEX k s v                   (SetEx → setKV)
  | setifeq (old new : Bytes) (dur : Int)             -- SETIFEQ k old new [EX s]
  | delifeq (old : Bytes)
  | getset (v : Bytes)
  | incrby (delta : Int)                              -- INCR = incrby 1
  | append (v : Bytes)
  | setrange (off : Int) (v : Bytes)
  | expire (dur : Int)
  | persist
  | del                                               -- DEL of one key (kvDel)
  deriving DecidableEq, Repr

/-- `KVSetWithOpts`; the error of `resetWithNewKVValue` is returned (it was dropped there and in SetIfEQ, and a nil
    value was Put, before the fix listed in DESIGN §0.2) -/
def kvSetWithOpts (ts : Int) (v : Bytes) (dur : Int) (nx xx : Bool) (V : View) : Eff × Reply :=
  if tooBig v then (.keep, .err .valuelen) else
  match V with
  | .bad _ e => (.keep, .err (errOf e))
  | _ =>
    let present := (live V).isSome
    if nx && present then (.keep, .int 0)
    else if xx && !present then (.keep, .int 0)
    else match reset ts v dur with
      | .ok raw => (.put raw, .int 1)
      | .err e => (.keep, .err (eerr e))

/-- the value comparison of SetIfEQ / DelIfEQ: `!bytes.Equal(realV, oldV) && !keyInfo.Expired` -/
def ifeqRefuses (old : Bytes) : View → Bool
  | .absent => old != []
  | .val _ _ u e => u != old && !e
  | .bad _ _ => false

def padTo (base : Bytes) (n : Nat) : Bytes := if base.length < n then base ++ List.replicate (n - base.length) 0 else base

def kvCmd (c : KCmd) (ts : Int) (V : View) : Eff × Reply :=
  match c with
  | .set v =>
    if tooBig v then (.keep, .err .valuelen) else
    match reset ts v 0 with
    | .ok raw => (.put raw, .ok)
    | .err e => (.keep, .err (eerr e))
  | .setOpts v dur nx xx =>
    match kvSetWithOpts ts v dur nx xx V with
    | (e, .int 0) => (e, .nil)
    | (e, .int _) => (e, .ok)
    | r => r
  | .setnx v => kvSetWithOpts ts v 0 true false V
  | .setex dur v =>
    if dur ≤ 0 then (.keep, .err .ttl) else
    if tooBig v then (.keep, .err .valuelen) else
    match reset ts v dur with
    | .ok raw => (.put raw, .ok)
    | .err e => (.keep, .err (eerr e))
  | .setifeq old new dur =>
    if tooBig new then (.keep, .err .valuelen) else
    match V with
    | .bad _ e => (.keep, .err (errOf e))
    | _ =>
      if ifeqRefuses old V then (.keep, .int 0)
      else match reset ts new dur with
        | .ok raw => (.put raw, .int 1)
        | .err e => (.keep, .err (eerr e))
  | .delifeq old =>
    match V with
    | .bad _ e => (.keep, .err (errOf e))
    | _ =>
      if ifeqRefuses old V then (.keep, .int 0)
      else (.del, .int (if isAbsent V then 0 else 1))
  | .getset v =>
    if tooBig v then (.keep, .err .valuelen) else
    match V with
    | .bad _ e => (.keep, .err (errOf e))
    | _ =>
      match reset ts v 0 with
      | .ok raw => (.put raw, match live V with | some u => .bulk u | none => .nil)
      | .err e => (.keep, .err (eerr e))
  | .incrby d =>
    match V with
    | .bad _ e => (.keep, .err (errOf e))
    | _ =>
      let cur : PRes := if Gen.incrFromZero (isAbsent V) (isExpiredV V) then .ok 0 else parseInt ((live V).getD [])
      match cur with
      | .syntax => (.keep, .err .notint)
      | .range => (.keep, .err .numrange)
      | .ok c =>
        let n := wrap64 (c + d)
        (.put (putH (hdrForWrite V ts) (fmtInt n) ts), .int n)
  | .append v =>
    if v.isEmpty then (.keep, .int 0) else
    match V with
    | .bad _ e => (.keep, .err (errOf e))
    | _ =>
      let base := (live V).getD []
      if base.length + v.length > Gen.cMaxValueSize then (.keep, .err .valuelen)
      else (.put (putH (hdrForWrite V ts) (base ++ v) ts), .int (base.length + v.length : Nat))
  | .setrange off v =>
    if off < 0 then (.keep, .err .offset) else
    if v.isEmpty then (.keep, .int 0) else
    if (v.length : Int) + off > Gen.cMaxValueSize then (.keep, .err .valuelen) else
    match V with
    | .bad _ e => (.keep, .err (errOf e))
    | _ =>
      let o := off.toNat
      let base := padTo ((live V).getD []) (o + v.length)
      let nv := base.take o ++ v ++ base.drop (o + v.length)
      (.put (putH (hdrForWrite V ts) nv ts), .int (nv.length : Nat))
  | .expire dur =>
    match V with
    | .absent => (.keep, .int 0)
    | .bad _ e => (.keep, .err (errOf e))
    | .val _ _ _ true => (.keep, .int 0)
    | .val raw _ _ false =>
      match rawExpireAt raw (Int.tdiv ts 1000000000 + dur) with
      | .ok raw' => (.put raw', .int 1)
      | .err e => (.keep, .err (eerr e))
  | .persist =>
    match V with
    | .absent => (.keep, .int 0)
    | .bad _ e => (.keep, .err (errOf e))
    | .val _ _ _ true => (.keep, .int 0)
    | .val raw _ _ false =>
      match rawExpireAt raw 0 with
      | .ok raw' => (.put raw', .int 1)
      | .err e => (.keep, .err (eerr e))
  | .del => (.del, .int (if isAbsent V then 0 else 1))

/-- one single-key KV write applied at log time `ts` -/
def kvApply (m : List KV) (ts : Int) (rawKey : Bytes) (c : KCmd) : List KV × Reply :=
  let r := kvCmd c ts (view m ts rawKey)
  (applyEff m (kvKey rawKey) r.1, r.2)

/-- `DelKeys`: every key is looked up in the committed store (a repeated key counts twice) -/
def delKeys (m : List KV) (keys : List Bytes) : List KV × Reply :=
  (keys.foldl (fun acc k => Z.Ref.del acc (kvKey k)) m,
   .int ((keys.filter (fun k => (get m (kvKey k)).isSome)).length : Nat))

/-! ### reads (at the read time `now`) -/

/-- GET (`GetValueWithOp` / `KVGet`) -/
def rdGet : View → Reply
  | .absent => .nil
  | .bad _ e => .err (errOf e)
  | .val _ _ u e => if e then .nil else .bulk u

def rdStrlen : View → Reply
  | .bad _ e => .err (errOf e)
  | V => .int (((live V).getD []).length : Nat)

/-- `getRange` + `GetRange` -/
def rdGetRange (s e : Int) : View → Reply
  | .bad _ er => .err (errOf er)
  | V =>
    let value := (live V).getD []
    let n : Int := value.length
    let s1 := if s < 0 then n + s else s
    let e1 := if e < 0 then n + e else e
    let s2 := if s1 < 0 then 0 else s1
    let e2 := if e1 < 0 then 0 else e1
    let e3 := if e2 ≥ n then n - 1 else e2
    if s2 > e3 then .nil else .bulk ((value.drop s2.toNat).take (e3 - s2 + 1).toNat)

/-- `KVTtl`: header of the stored value, `ttl(now)` -/
def rdTtl (now : Int) : View → Reply
  | .absent => .int (-1)
  | .bad _ e => .err (errOf e)
  | .val _ h _ _ => .int (ttl h now)

/-- `isKVExistOrExpired` for one key: (count, error) — a value that does not decode gives (1, err) -/
def existsOne : View → Int × Option KErr
  | .absent => (0, none)
  | .bad _ e => (1, some (errOf e))
  | .val _ _ _ e => (if e then 0 else 1, none)

/-- the multi-key branch of `KVExists` ignores decode errors -/
def existsCount (Vs : List View) : Nat := (Vs.filter (fun V => !isAbsent V && !isExpiredV V)).length

/-- one element of MGET: on a decode error the RAW stored bytes stay in the answer -/
def rdMgetOne : View → Reply
  | .absent => .nil
  | .bad raw _ => .bulk raw
  | .val _ _ u e => if e then .nil else .bulk u

/-- `KVGetVer`: the trailing modification time of the stored bytes -/
def rdGetVer (m : List KV) (rawKey : Bytes) : Reply :=
  match get m (kvKey rawKey) with
  | none => .int 0
  | some v => if v.length ≥ 8 then .int (ofU64 (fromBE (v.drop (v.length - 8)))) else .int 0

/-! ### leader-side pre-checks (node/keys.go), evaluated at the read time `now` -/

inductive Lead
  | propose
  | localReply (r : Reply)
  | reject (e : KErr)
  deriving DecidableEq, Repr

/-- setnxCommand: `KVExists(key) == 1` answers 0 without a proposal -/
def leadSetnx (V : View) : Lead := if (existsOne V).1 == 1 then .localReply (.int 0) else .propose

/-- setIfEQCommand / delIfEQCommand: `KVGet` error → error; value differs from the expected one → 0 -/
def leadIfEq (old : Bytes) : View → Lead
  | .bad _ e => .reject (errOf e)
  | V => if (live V).getD [] != old then .localReply (.int 0) else .propose

/-! ### argument parsing (node/keys.go) -/

def lower (b : Bytes) : Bytes := b.map (fun c => if 65 ≤ c.toNat ∧ c.toNat ≤ 90 then c + 32 else c)

structure SetOpts where
  dur : Int := 0
  nx : Bool := false
  xx : Bool := false
  deriving Repr

/-- `getExNxXXArgs` -/
def exNxXX : List Bytes → SetOpts → Bool → Except KErr SetOpts
  | [], o, _ => .ok o
  | a :: r, o, seen =>
    let op := lower a
    if op == [110, 120] then (if seen then .error .args else exNxXX r { o with nx := true } true)
    else if op == [120, 120] then (if seen then .error .args else exNxXX r { o with xx := true } true)
    else if op == [101, 120] then
      match r with
      | [] => .error .args
      | s :: r' =>
        match parseInt s with
        | .ok d => if d ≤ 0 then .error .ttl else exNxXX r' { o with dur := d } seen
        | _ => .error .args
    else .error .args

/-- `getExSecs` -/
def exSecs (ex secs : Bytes) : Except KErr Int :=
  if lower ex != [101, 120] then .error .args else
  match parseInt secs with
  | .syntax => .error .notint
  | .range => .error .numrange
  | .ok n => if n ≤ 0 then .error .ttl else .ok n

/-! ### abstraction: what a reader at time `t` can see of a key -/

def vis : View → Option (Bytes × Nat)
  | .val _ h u false => some (u, h.expireAt)
  | _ => none

/-- visible (value, expiry second; 0 = none) of `rawKey` at time `t` -/
def absKV (m : List KV) (t : Int) (rawKey : Bytes) : Option (Bytes × Nat) := vis (view m t rawKey)

end Z.KVExec
