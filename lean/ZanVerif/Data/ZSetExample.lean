/-
  A concrete, non-trivial instance for the `example`s of Props/C09ZSet.lean and Props/C08ZSet.lean:
  the REAL codec, key `t:z`, the store after `ZADD t:z 1 a 1 b 2.5 "" 1 a` (a score tie, the empty member,
  a repeated member) — with the proof that it satisfies the invariant.
-/
import ZanVerif.Data.ZSetReal
import ZanVerif.Data.ZSetSpec

namespace Z.ZSetExample
open Z.Ref Z.ZSetExec Z.ZSetInv Z.ZSetReal

def exK : Z.Ref.Bytes := [116, 58, 122]                         -- "t:z"
def one : Nat := 0x3FF0000000000000                       -- 1.0
def twoHalf : Nat := 0x4004000000000000                   -- 2.5
def exPairs : List (Nat × Z.Ref.Bytes) := [(one, [97]), (one, [98]), (twoHalf, []), (one, [97])]
def exM : List KV := (commit [] (zadd realFns [] 7 exK exPairs)).1

theorem exK_ok : realEnc.ok exK := ⟨[116], [122], by decide, by decide, by decide⟩

theorem exPairs_good : ∀ p ∈ exPairs, realEnc.good p.1 := by
  intro p hp
  simp only [exPairs, List.mem_cons, List.not_mem_nil, or_false] at hp
  rcases hp with rfl | rfl | rfl | rfl <;> (show Z.Codec.NonNaN _; decide)

theorem exM_length : exM.length = 7 := by decide

theorem exInv : Inv realEnc exM :=
  inv_zadd realEnc ((inv_empty realEnc).mpr (by decide)) exK_ok 7 exPairs exPairs_good
    (by show exM.length < 2 ^ 63; rw [exM_length]; decide)

end Z.ZSetExample
