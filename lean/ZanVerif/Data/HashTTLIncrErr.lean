/-
  HINCRBY under the value-header layout (`Z.HashTTLExec.hincrby` / `hincrbyCmd`): an error answer leaves the store
  untouched (C11).  Kept apart from `HashTTLLemmas` (generation / expiry lemmas, C10) so that C11 depends only on what
  it is about: the errors are decided before `hSetField` runs, and `hSetField` itself fails only without writing.
-/
import ZanVerif.Data.HashTTLExec

namespace Z.HashTTLExec
open Z.Ref (get put del scan)
open Z.Header
open Z.KVExec (KErr Reply errOf eerr tooBig stripTs RdRes PRes parseInt fmtInt wrap64)

/-- `hSetField` answers an error only when the size meta does not decode, and then nothing was written -/
theorem hsetField_error {m : List KV} {ts : Int} {nx : Bool} {table k f v : Bytes} {e : KErr}
    (h : (hsetField m ts nx table k f v).2 = .err e) : (hsetField m ts nx table k f v).1 = m := by
  unfold hsetField at h ⊢
  cases hmv : mview m ts table k with
  | bad e' => rfl
  | mv hd ex =>
    rw [hmv] at h
    simp only at h
    split at h
    · split at h <;> cases h
    · cases h

/-- **error ⇒ nothing changed** (HINCRBY, value-header layout): whatever the error (undecodable size meta, old value
    not an integer / out of range), the store is the one before -/
theorem hincrFinish_error_no_effect (m : List KV) (ts : Int) (table k f : Bytes) (d : Int) (cur : Option Bytes) (e : KErr)
    (h : (hincrFinish m ts table k f d cur).2 = .err e) : (hincrFinish m ts table k f d cur).1 = m := by
  unfold hincrFinish at h ⊢
  simp only at h ⊢
  split
  · rfl
  · rfl
  · rename_i c hc
    rw [hc] at h
    simp only at h ⊢
    generalize hr : hsetField m ts Gen.hincrCheckNX table k f (fmtInt (wrap64 (c + d))) = r at h ⊢
    obtain ⟨m', rep⟩ := r
    cases rep with
    | err e' =>
      have := hsetField_error (m := m) (ts := ts) (nx := Gen.hincrCheckNX) (table := table) (k := k) (f := f)
        (v := fmtInt (wrap64 (c + d))) (e := e') (by rw [hr])
      rw [hr] at this
      exact this
    | int n => cases h
    | bulk b => cases h
    | nil => cases h
    | ok => cases h

theorem hincrby_error_no_effect (m : List KV) (ts : Int) (table k f : Bytes) (d : Int) (e : KErr)
    (h : (hincrby m ts table k f d).2 = .err e) : (hincrby m ts table k f d).1 = m := by
  unfold hincrby at h ⊢
  cases hmv : mview m ts table k with
  | bad e' => rfl
  | mv hd ex =>
    rw [hmv] at h
    exact hincrFinish_error_no_effect m ts table k f d _ e h

theorem hincrbyCmd_error_no_effect (m : List KV) (ts : Int) (table k f dtxt : Bytes) (e : KErr)
    (h : (hincrbyCmd m ts table k f dtxt).2 = .err e) : (hincrbyCmd m ts table k f dtxt).1 = m := by
  unfold hincrbyCmd at h ⊢
  split
  · rfl
  · rfl
  · rename_i d hd
    rw [hd] at h
    exact hincrby_error_no_effect m ts table k f d e h

end Z.HashTTLExec
