/-
  Lemmas about the key codec model (`Z.Codec`): length-prefixed fields, big-endian numbers,
  self-delimiting memcomparable bytes.
-/
import ZanVerif.Data.Codec
import ZanVerif.Data.Memcmp
import ZanVerif.Data.Range

namespace Z.Codec

theorem be16_length (n : Nat) : (be16 n).length = 2 := rfl

theorem u8_ofNat_inj {a b : Nat} (ha : a < 256) (hb : b < 256) (h : UInt8.ofNat a = UInt8.ofNat b) : a = b := by
  have := congrArg UInt8.toNat h
  simp [UInt8.toNat_ofNat'] at this
  omega

theorem be16_inj {n m : Nat} (hn : n < 65536) (hm : m < 65536) (h : be16 n = be16 m) : n = m := by
  unfold be16 at h
  simp only [List.cons.injEq, and_true] at h
  have h1 := u8_ofNat_inj (Nat.mod_lt _ (by decide)) (Nat.mod_lt _ (by decide)) h.1
  have h2 := u8_ofNat_inj (Nat.mod_lt _ (by decide)) (Nat.mod_lt _ (by decide)) h.2
  omega

/-- a 2-byte length prefix makes a field self-delimiting -/
theorem lenPrefixed_inj {a a' r r' : Bytes} (ha : a.length < 65536) (ha' : a'.length < 65536)
    (h : be16 a.length ++ (a ++ r) = be16 a'.length ++ (a' ++ r')) : a = a' ∧ r = r' := by
  have h1 := List.append_inj h (by simp [be16_length])
  have hl := be16_inj ha ha' h1.1
  have h2 := List.append_inj h1.2 hl
  exact h2

theorem beN_length : ∀ (k n : Nat), (beN k n).length = k
  | 0, _ => rfl
  | k + 1, n => by simp [beN, beN_length k]

theorem beN_inj : ∀ (k : Nat) {n m : Nat}, n < 256 ^ k → m < 256 ^ k → beN k n = beN k m → n = m
  | 0, n, m, hn, hm, _ => by simp at hn hm; omega
  | k + 1, n, m, hn, hm, h => by
    simp only [beN] at h
    have h1 := List.append_inj h (by simp [beN_length])
    have hlow := u8_ofNat_inj (Nat.mod_lt _ (by decide)) (Nat.mod_lt _ (by decide)) (by simpa using h1.2)
    have hn' : n / 256 < 256 ^ k := by
      rw [Nat.pow_succ] at hn; exact Nat.div_lt_of_lt_mul (by rw [Nat.mul_comm]; exact hn)
    have hm' : m / 256 < 256 ^ k := by
      rw [Nat.pow_succ] at hm; exact Nat.div_lt_of_lt_mul (by rw [Nat.mul_comm]; exact hm)
    have hhigh := beN_inj k hn' hm' h1.1
    omega

theorem be64_length (n : Nat) : (be64 n).length = 8 := beN_length 8 n

theorem be64_inj {n m : Nat} (hn : n < 18446744073709551616) (hm : m < 18446744073709551616)
    (h : be64 n = be64 m) : n = m :=
  beN_inj 8 (by simpa using hn) (by simpa using hm) h

/-- big-endian order: for equal widths the lexicographic order of the bytes is the numeric order -/
theorem snoc_lt_snoc {xs ys : Bytes} {a b : UInt8} (hl : xs.length = ys.length) :
    xs ++ [a] < ys ++ [b] ↔ xs < ys ∨ (xs = ys ∧ a < b) := by
  induction xs generalizing ys with
  | nil =>
    cases ys with
    | nil => simp [List.cons_lt_cons_iff]
    | cons y ys => simp at hl
  | cons x xs ih =>
    cases ys with
    | nil => simp at hl
    | cons y ys =>
      simp only [List.length_cons, Nat.add_right_cancel_iff] at hl
      simp only [List.cons_append, List.cons_lt_cons_iff, ih hl, List.cons.injEq]
      constructor
      · rintro (h | ⟨rfl, h | ⟨rfl, h⟩⟩)
        · exact Or.inl (Or.inl h)
        · exact Or.inl (Or.inr ⟨rfl, h⟩)
        · exact Or.inr ⟨⟨rfl, rfl⟩, h⟩
      · rintro ((h | ⟨rfl, h⟩) | ⟨⟨rfl, rfl⟩, h⟩)
        · exact Or.inl h
        · exact Or.inr ⟨rfl, Or.inl h⟩
        · exact Or.inr ⟨rfl, Or.inr ⟨rfl, h⟩⟩

theorem u8_ofNat_lt {a b : Nat} (ha : a < 256) (hb : b < 256) : UInt8.ofNat a < UInt8.ofNat b ↔ a < b := by
  rw [UInt8.lt_iff_toNat_lt]
  simp [UInt8.toNat_ofNat']
  omega

theorem beN_lt : ∀ (k : Nat) {n m : Nat}, n < 256 ^ k → m < 256 ^ k → (beN k n < beN k m ↔ n < m)
  | 0, n, m, hn, hm => by simp at hn hm; subst hn; subst hm; simp [beN]
  | k + 1, n, m, hn, hm => by
    have hn' : n / 256 < 256 ^ k := by
      rw [Nat.pow_succ] at hn; exact Nat.div_lt_of_lt_mul (by rw [Nat.mul_comm]; exact hn)
    have hm' : m / 256 < 256 ^ k := by
      rw [Nat.pow_succ] at hm; exact Nat.div_lt_of_lt_mul (by rw [Nat.mul_comm]; exact hm)
    simp only [beN]
    rw [snoc_lt_snoc (by simp [beN_length]), beN_lt k hn' hm',
      u8_ofNat_lt (Nat.mod_lt _ (by decide)) (Nat.mod_lt _ (by decide))]
    constructor
    · rintro (h | ⟨h1, h2⟩)
      · omega
      · have := beN_inj k hn' hm' h1; omega
    · intro h
      by_cases hq : n / 256 < m / 256
      · exact Or.inl hq
      · have : n / 256 = m / 256 := by omega
        exact Or.inr ⟨by rw [this], by omega⟩

/-! ### int64 ↔ uint64 -/

def inI64 (v : Int) : Prop := -9223372036854775808 ≤ v ∧ v < 9223372036854775808

theorem toU64_lt (v : Int) : toU64 v < 18446744073709551616 := by
  unfold toU64; omega

/-- the sign-flipped value is `v + 2^63` for every int64 -/
theorem flip_eq {v : Int} (h : inI64 v) :
    ((toU64 v + 9223372036854775808) % 18446744073709551616 : Nat) = (v + 9223372036854775808).toNat := by
  unfold toU64 inI64 at *; omega

theorem encInt_length (v : Int) : (encInt v).length = 8 := be64_length _

theorem encInt_inj {a b : Int} (ha : inI64 a) (hb : inI64 b) (h : encInt a = encInt b) : a = b := by
  unfold encInt at h
  have := be64_inj (Nat.mod_lt _ (by decide)) (Nat.mod_lt _ (by decide)) h
  rw [flip_eq ha, flip_eq hb] at this
  unfold inI64 at *; omega

/-- `EncodeInt` is order preserving on int64 -/
theorem encInt_lt {a b : Int} (ha : inI64 a) (hb : inI64 b) : encInt a < encInt b ↔ a < b := by
  unfold encInt be64
  rw [beN_lt 8 (by have := Nat.mod_lt (toU64 a + 9223372036854775808) (show 0 < 18446744073709551616 by decide); simpa using this)
        (by have := Nat.mod_lt (toU64 b + 9223372036854775808) (show 0 < 18446744073709551616 by decide); simpa using this),
      flip_eq ha, flip_eq hb]
  unfold inI64 at *; omega

theorem toU64_inj {a b : Int} (ha : inI64 a) (hb : inI64 b) (h : toU64 a = toU64 b) : a = b := by
  unfold toU64 inI64 at *; omega

/-! ### memcomparable bytes: the model's `encBytes` is the prototype's `enc`; self-delimiting -/

theorem encBytes_eq : ∀ (d : Bytes) (n : Nat), encBytes n d = Z.Memcmp2.enc n d
  | [], n => by simp [encBytes, Z.Memcmp2.enc, marker, Z.Memcmp2.marker]
  | x :: xs, n => by
    simp only [encBytes, Z.Memcmp2.enc]
    split <;> simp [encBytes_eq xs]

theorem encBytes_lt_iff (a b : Bytes) : encBytes 0 a < encBytes 0 b ↔ a < b := by
  rw [encBytes_eq, encBytes_eq]; exact Z.Memcmp2.enc_lt_iff a b

theorem marker_inj {n m : Nat} (hn : n ≤ 8) (hm : m ≤ 8) (h : marker n = marker m) : n = m := by
  unfold marker at h
  have := u8_ofNat_inj (by omega) (by omega) h
  omega

theorem marker_ne_ff {n : Nat} (hn : n < 8) : marker n ≠ 0xFF := by
  intro h
  have : marker n = marker 8 := by rw [h]; rfl
  have := marker_inj (by omega) (by omega) this
  omega

/-- a padded tail that claims n real bytes never equals a continuation that is already at position m > n -/
theorem pad_ne (ys : Bytes) : ∀ (n m : Nat) (r r' : Bytes), n < m → m ≤ 7 →
    List.replicate (8 - m) 0 ++ [marker n] ++ r ≠ encBytes m ys ++ r' := by
  induction ys with
  | nil =>
    intro n m r r' hnm hm h
    simp only [encBytes] at h
    have h2 : marker n = marker m := by
      simp [List.append_assoc] at h; exact h.1
    have := marker_inj (by omega) (by omega) h2
    omega
  | cons y ys ih =>
    intro n m r r' hnm hm h
    have hrep : List.replicate (8 - m) (0 : UInt8) = 0 :: List.replicate (8 - m - 1) 0 := by
      have : 8 - m = (8 - m - 1) + 1 := by omega
      rw [this, List.replicate_succ]; simp
    rw [hrep] at h
    simp only [encBytes] at h
    split at h
    · rename_i h7
      subst h7
      simp at h
      exact marker_ne_ff (by omega) h.2.1
    · simp only [List.cons_append, List.cons.injEq] at h
      have e : 8 - m - 1 = 8 - (m + 1) := by omega
      rw [e] at h
      exact ih n (m + 1) r r' (by omega) (by omega) h.2

/-- **self-delimiting**: what follows an encoded byte string is determined, and so is the string -/
theorem encBytes_append_inj (a : Bytes) : ∀ (b : Bytes) (n : Nat) (r r' : Bytes), n ≤ 7 →
    encBytes n a ++ r = encBytes n b ++ r' → a = b ∧ r = r' := by
  induction a with
  | nil =>
    intro b n r r' hn h
    cases b with
    | nil => simp only [encBytes] at h; exact ⟨rfl, List.append_cancel_left h⟩
    | cons y ys =>
      exfalso
      simp only [encBytes] at h
      split at h
      · rename_i h7; subst h7
        simp at h
        exact marker_ne_ff (by omega) h.2.1
      · have hrep : List.replicate (8 - n) (0 : UInt8) = 0 :: List.replicate (8 - (n + 1)) 0 := by
          have : 8 - n = (8 - (n + 1)) + 1 := by omega
          rw [this, List.replicate_succ]
        rw [hrep] at h
        simp only [List.cons_append, List.cons.injEq] at h
        exact pad_ne ys n (n + 1) r r' (by omega) (by omega) (by simpa [List.append_assoc] using h.2)
  | cons x xs ih =>
    intro b n r r' hn h
    cases b with
    | nil =>
      exfalso
      simp only [encBytes] at h
      split at h
      · rename_i h7; subst h7
        simp at h
        exact marker_ne_ff (by omega) h.2.1.symm
      · have hrep : List.replicate (8 - n) (0 : UInt8) = 0 :: List.replicate (8 - (n + 1)) 0 := by
          have : 8 - n = (8 - (n + 1)) + 1 := by omega
          rw [this, List.replicate_succ]
        rw [hrep] at h
        simp only [List.cons_append, List.cons.injEq] at h
        exact pad_ne xs n (n + 1) r' r (by omega) (by omega) (by simpa [List.append_assoc] using h.2.symm)
    | cons y ys =>
      simp only [encBytes] at h
      split at h
      · simp only [List.cons_append, List.cons.injEq] at h
        obtain ⟨rfl, _, h3⟩ := h
        obtain ⟨rfl, hr⟩ := ih ys 0 r r' (by omega) h3
        exact ⟨rfl, hr⟩
      · simp only [List.cons_append, List.cons.injEq] at h
        obtain ⟨rfl, h3⟩ := h
        obtain ⟨rfl, hr⟩ := ih ys (n + 1) r r' (by omega) h3
        exact ⟨rfl, hr⟩

theorem encBytes_inj {a b : Bytes} (h : encBytes 0 a = encBytes 0 b) : a = b :=
  (encBytes_append_inj a b 0 [] [] (by omega) (by simpa using h)).1

end Z.Codec

namespace Z.Codec

/-! ### lexicographic order of concatenations of prefix-free pieces -/

theorem append_lt_append_of_lt : ∀ {a b : Bytes}, a < b → ¬ a <+: b → ∀ (r r' : Bytes), a ++ r < b ++ r'
  | [], b, _, hp, _, _ => absurd List.nil_prefix hp
  | _ :: _, [], h, _, _, _ => absurd h (by simp)
  | x :: xs, y :: ys, h, hp, r, r' => by
    rcases List.cons_lt_cons_iff.mp h with hxy | ⟨rfl, hlt⟩
    · exact List.cons_lt_cons_iff.mpr (Or.inl hxy)
    · refine List.cons_lt_cons_iff.mpr (Or.inr ⟨rfl, append_lt_append_of_lt hlt ?_ r r'⟩)
      intro hpre; exact hp (List.cons_prefix_cons.mpr ⟨rfl, hpre⟩)

theorem append_lt_append_left_iff (a : Bytes) {r r' : Bytes} : a ++ r < a ++ r' ↔ r < r' := by
  induction a with
  | nil => simp
  | cons x xs ih =>
    simp only [List.cons_append, List.cons_lt_cons_iff, ih]
    constructor
    · rintro (h | ⟨_, h⟩)
      · exact absurd h (by intro (a : x.toNat < x.toNat); omega)
      · exact h
    · intro h; exact Or.inr ⟨trivial, h⟩

/-- pieces that are pairwise not proper prefixes of one another compare first, the rest after -/
theorem piece_lt_iff {a b r r' : Bytes} (hab : a <+: b → a = b) (hba : b <+: a → a = b) :
    a ++ r < b ++ r' ↔ a < b ∨ (a = b ∧ r < r') := by
  constructor
  · intro h
    by_cases he : a = b
    · subst he; exact Or.inr ⟨rfl, (append_lt_append_left_iff a).mp h⟩
    · left
      by_cases hlt : a < b
      · exact hlt
      · exfalso
        have hle : b ≤ a := List.not_lt.mp hlt
        have hba' : b < a := by
          rcases List.le_iff_lt_or_eq.mp hle with h' | h'
          · exact h'
          · exact absurd h'.symm he
        have := append_lt_append_of_lt hba' (fun hp => he (hba hp)) r' r
        exact List.lt_asymm h this
  · rintro (h | ⟨rfl, h⟩)
    · exact append_lt_append_of_lt h (fun hp => by
        have := hab hp; subst this; exact List.lt_irrefl _ h) r r'
    · exact (append_lt_append_left_iff a).mpr h

theorem prefix_eq_of_length_eq {a b : Bytes} (hl : a.length = b.length) (hp : a <+: b) : a = b :=
  hp.eq_of_length hl

theorem encBytes_prefix_eq {a b : Bytes} (hp : encBytes 0 a <+: encBytes 0 b) : a = b := by
  obtain ⟨t, ht⟩ := hp
  exact (encBytes_append_inj a b 0 t [] (by omega) (by simpa using ht)).1

/-- a flagged memcomparable byte string followed by anything: order = (string, then the rest) -/
theorem bytes_piece_lt_iff (a b r r' : Bytes) :
    encBytes 0 a ++ r < encBytes 0 b ++ r' ↔ a < b ∨ (a = b ∧ r < r') := by
  rw [piece_lt_iff (fun hp => by rw [encBytes_prefix_eq hp]) (fun hp => by rw [encBytes_prefix_eq hp]),
    encBytes_lt_iff]
  constructor
  · rintro (h | ⟨h, h2⟩)
    · exact Or.inl h
    · exact Or.inr ⟨encBytes_inj h, h2⟩
  · rintro (h | ⟨rfl, h2⟩)
    · exact Or.inl h
    · exact Or.inr ⟨rfl, h2⟩

theorem int_piece_lt_iff {a b : Int} (ha : inI64 a) (hb : inI64 b) (r r' : Bytes) :
    encInt a ++ r < encInt b ++ r' ↔ a < b ∨ (a = b ∧ r < r') := by
  have hl : (encInt a).length = (encInt b).length := by rw [encInt_length, encInt_length]
  rw [piece_lt_iff (fun hp => prefix_eq_of_length_eq hl hp) (fun hp => (prefix_eq_of_length_eq hl.symm hp).symm),
    encInt_lt ha hb]
  constructor
  · rintro (h | ⟨h, h2⟩)
    · exact Or.inl h
    · exact Or.inr ⟨encInt_inj ha hb h, h2⟩
  · rintro (h | ⟨rfl, h2⟩)
    · exact Or.inl h
    · exact Or.inr ⟨rfl, h2⟩

end Z.Codec
