/-
  Shared definitions of the storage-level collection models (set, list) — core only.
  * `WOp` / `applyW`: a rockredis write batch (`wb.Put`, `wb.Delete`, `wb.DeleteRange`) and its commit
    (`rockEng.Write(wb)`): the operations take effect in the order they were added; reads made while
    the batch is being filled see the committed store only (the models read `m`, never the batch).
  * `scanC`: iterator over a CLOSED key range (`common.RangeClose`); `Z.Ref.scan` is the half-open one.
  * `dedup`: `rockredis/util.go:dedupMembers` (first occurrence kept, order kept).
  * `Out`: result of a command = value or the canonical error class of protocol `data`.
-/
import ZanVerif.Engine.Ref
import ZanVerif.Gen.CollConsts

namespace Z.Coll
open Z.Ref

inductive WOp
  | put (k v : Bytes)
  | del (k : Bytes)
  | delRange (a b : Bytes)      -- [a, b)
  deriving Repr

def delRange (m : List KV) (a b : Bytes) : List KV :=
  m.filter (fun p => !(decide (a ≤ p.1) && decide (p.1 < b)))

def applyOp (m : List KV) : WOp → List KV
  | .put k v => put m k v
  | .del k => del m k
  | .delRange a b => delRange m a b

/-- `rockEng.Write(wb)` -/
def applyW (m : List KV) (wb : List WOp) : List KV := wb.foldl applyOp m

/-- pairs with `lo ≤ key ≤ hi`, in key order -/
def scanC (m : List KV) (lo hi : Bytes) : List KV := m.filter (fun p => decide (lo ≤ p.1) && decide (p.1 ≤ hi))

/-- `dedupMembers` -/
def dedup : List Bytes → List Bytes
  | [] => []
  | a :: t => a :: (dedup t).filter (· != a)

/-- value or error class -/
abbrev Out (α : Type) := Except String α

def maxBatch : Nat := Gen.cMaxBatchNum
def rangeDeleteNum : Nat := Gen.cRangeDeleteNum

end Z.Coll
