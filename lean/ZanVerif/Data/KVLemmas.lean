/-
  Lemmas about the executable KV model (`Z.KVExec`): what a well-formed stored value looks like to a command
  at any clock, what the store looks like after a command's effect, frame property.
-/
import ZanVerif.Data.KVExec
import ZanVerif.Data.HeaderLemmas
import ZanVerif.Engine.Ref

namespace Z.KVExec
open Z.Ref (get Sorted get_put get_del put_sorted del_sorted)
open Z.Codec (kvKey be64 toU64 ofU64 fromBE be64_length)
open Z.Header

/-- a stored KV value as every successful command writes it: fixed header part, user data, 8-byte time -/
def Good (raw : Bytes) : Prop :=
  ∃ (e : Nat) (ver : Int) (u mt : Bytes), raw = encFixed e ver ++ (u ++ mt) ∧ e < 4294967296 ∧ mt.length = 8

theorem stripTs_append (x mt : Bytes) (h : mt.length = 8) : stripTs (x ++ mt) = x := by
  unfold stripTs
  have : (x ++ mt).length - 8 = x.length := by simp [h]
  rw [if_pos (by simp [h]), this]
  simp

/-- what any command sees of a well-formed value at clock `t` -/
theorem viewRaw_good (t : Int) (e : Nat) (ver : Int) (u mt : Bytes) (he : e < 4294967296) (hm : mt.length = 8) :
    viewRaw t (encFixed e ver ++ (u ++ mt)) =
      .val (encFixed e ver ++ (u ++ mt)) ⟨e, ofU64 (toU64 ver), some u⟩ u (Gen.isExpired (e : Int) t) := by
  unfold viewRaw
  rw [decode_encFixed e ver (u ++ mt) he]
  simp only
  have : stripTs (encFixed e ver ++ (u ++ mt)) = encFixed e ver ++ u := by
    rw [← List.append_assoc, stripTs_append _ _ hm]
  rw [this, decode_encFixed e ver u he]
  simp [isExpired]

theorem putH_eq (h : Hdr) (u : Bytes) (ts : Int) :
    putH h u ts = encFixed h.expireAt h.ver ++ (u ++ be64 (toU64 ts)) := by
  simp [putH, encode]

theorem viewRaw_putH (t : Int) (h : Hdr) (u : Bytes) (ts : Int) (he : h.expireAt < 4294967296) :
    viewRaw t (putH h u ts) =
      .val (putH h u ts) ⟨h.expireAt, ofU64 (toU64 h.ver), some u⟩ u (Gen.isExpired (h.expireAt : Int) t) := by
  rw [putH_eq, viewRaw_good t _ _ _ _ he (be64_length _)]

theorem zero_ver : ofU64 (toU64 0) = 0 := by decide

/-- `resetWithNewKVValue` in closed form -/
theorem reset_eq (ts : Int) (v : Bytes) (d : Int) :
    reset ts v d =
      if d ≤ 0 then .ok (encFixed 0 0 ++ (v ++ be64 (toU64 ts)))
      else if Gen.expOverflow (d + Int.tdiv ts 1000000000) then .err .overflow
      else .ok (encFixed (u32 (d + Int.tdiv ts 1000000000)) 0 ++ (v ++ be64 (toU64 ts))) := by
  unfold reset
  have henc : encode ⟨0, 0, some v⟩ = encFixed 0 0 ++ v := by simp [encode]
  simp only [henc]
  by_cases hd : d ≤ 0
  · simp only [hd, if_true]
    rw [rawExpireAt_encFixed 0 0 v 0 (by decide)]
    have : Gen.expOverflow 0 = false := by decide
    simp [this, zero_ver, u32]
  · simp only [hd, if_false]
    rw [rawExpireAt_encFixed 0 0 v _ (by decide)]
    by_cases ho : Gen.expOverflow (d + Int.tdiv ts 1000000000) = true
    · simp [ho]
    · simp [ho, zero_ver]

theorem kvKey_inj {a b : Bytes} (h : kvKey a = kvKey b) : a = b := by
  simpa [kvKey] using h

/-- the key's own view after an effect -/
def effView (t : Int) (V : View) : Eff → View
  | .keep => V
  | .put v => viewRaw t v
  | .del => .absent

theorem applyEff_sorted {m : List KV} (hs : Sorted m) (dbk : Bytes) (e : Eff) : Sorted (applyEff m dbk e) := by
  cases e <;> simp [applyEff, hs, put_sorted hs, del_sorted hs]

theorem view_applyEff_self {m : List KV} (hs : Sorted m) (k : Bytes) (e : Eff) (t : Int) :
    view (applyEff m (kvKey k) e) t k = effView t (view m t k) e := by
  cases e with
  | keep => rfl
  | put v => simp [applyEff, view, effView, get_put m hs]
  | del => simp [applyEff, view, effView, get_del m hs]

/-- frame: an effect on `k` is invisible at every other key -/
theorem view_applyEff_other {m : List KV} (hs : Sorted m) (k k' : Bytes) (hk : k' ≠ k) (e : Eff) (t : Int) :
    view (applyEff m (kvKey k) e) t k' = view m t k' := by
  have hne : kvKey k' ≠ kvKey k := fun h => hk (kvKey_inj h)
  cases e with
  | keep => rfl
  | put v => simp [applyEff, view, get_put m hs, hne]
  | del => simp [applyEff, view, get_del m hs, hne]

theorem kvApply_sorted {m : List KV} (hs : Sorted m) (ts : Int) (k : Bytes) (c : KCmd) : Sorted (kvApply m ts k c).1 :=
  applyEff_sorted hs _ _

theorem view_of_get {m : List KV} {k raw : Bytes} (t : Int) (h : get m (kvKey k) = some raw) : view m t k = viewRaw t raw := by
  simp [view, h]

theorem view_of_none {m : List KV} {k : Bytes} (t : Int) (h : get m (kvKey k) = none) : view m t k = .absent := by
  simp [view, h]

end Z.KVExec

namespace Z.KVExec
open Z.Ref (get Sorted get_put get_del put_sorted del_sorted)
open Z.Codec (kvKey be64 toU64 ofU64 fromBE be64_length)
open Z.Header

/-- the key holds a well-formed value with expiry second `e` (0 = none) and user data `u` -/
def Stored (m : List KV) (k : Bytes) (e : Nat) (u : Bytes) : Prop :=
  e < 4294967296 ∧ ∃ (ver : Int) (mt : Bytes), mt.length = 8 ∧ get m (kvKey k) = some (encFixed e ver ++ (u ++ mt))

theorem view_stored {m : List KV} {k : Bytes} {e : Nat} {u : Bytes} (h : Stored m k e u) :
    ∃ (ver : Int) (mt : Bytes), mt.length = 8 ∧ ∀ t, view m t k =
      .val (encFixed e ver ++ (u ++ mt)) ⟨e, ofU64 (toU64 ver), some u⟩ u (Gen.isExpired (e : Int) t) := by
  obtain ⟨he, ver, mt, hm, hg⟩ := h
  exact ⟨ver, mt, hm, fun t => by rw [view_of_get t hg, viewRaw_good t e ver u mt he hm]⟩

/-- commands for which "an expired key is an absent key" holds (all but the three removers / comparers) -/
def followsDeadRule : KCmd → Bool
  | .del => false
  | .setifeq _ _ _ => false
  | .delifeq _ => false
  | _ => true

theorem vis_putH (t : Int) (h : Hdr) (u : Bytes) (ts : Int) (he : h.expireAt < 4294967296) :
    vis (viewRaw t (putH h u ts)) = if Gen.isExpired (h.expireAt : Int) t then none else some (u, h.expireAt) := by
  rw [viewRaw_putH t h u ts he]
  cases hx : Gen.isExpired (h.expireAt : Int) t <;> simp [vis]

theorem isExpired0 (t : Int) : Gen.isExpired ((0 : Nat) : Int) t = false := by
  unfold Gen.isExpired; simp

theorem vis_effView_dead (t : Int) (raw : Bytes) (H : Hdr) (u : Bytes) (e : Eff) :
    vis (effView t (.val raw H u true) e) = vis (effView t .absent e) := by
  cases e <;> simp [effView, vis]

theorem setWithOpts_dead (ts : Int) (v : Bytes) (d : Int) (nx xx : Bool) (raw : Bytes) (H : Hdr) (u : Bytes) :
    kvSetWithOpts ts v d nx xx (.val raw H u true) = kvSetWithOpts ts v d nx xx .absent := by
  simp [kvSetWithOpts, live]

/-- view level: a command of the dead rule cannot tell an expired value from an absent key -/
theorem dead_cmd (c : KCmd) (hc : followsDeadRule c = true) (ts : Int) (raw : Bytes) (H : Hdr) (u : Bytes) :
    (kvCmd c ts (.val raw H u true)).2 = (kvCmd c ts .absent).2 ∧
    ∀ t, vis (effView t (.val raw H u true) (kvCmd c ts (.val raw H u true)).1) =
         vis (effView t .absent (kvCmd c ts .absent).1) := by
  have same : kvCmd c ts (.val raw H u true) = kvCmd c ts .absent →
      (kvCmd c ts (.val raw H u true)).2 = (kvCmd c ts .absent).2 ∧
      ∀ t, vis (effView t (.val raw H u true) (kvCmd c ts (.val raw H u true)).1) =
           vis (effView t .absent (kvCmd c ts .absent).1) := by
    intro h; rw [h]; exact ⟨rfl, fun t => vis_effView_dead t raw H u _⟩
  cases c with
  | del => simp [followsDeadRule] at hc
  | setifeq _ _ _ => simp [followsDeadRule] at hc
  | delifeq _ => simp [followsDeadRule] at hc
  | set v => exact same (by simp [kvCmd])
  | setOpts v d nx xx => exact same (by simp only [kvCmd, setWithOpts_dead])
  | setnx v => exact same (by simp only [kvCmd, setWithOpts_dead])
  | setex d v => exact same (by simp [kvCmd])
  | getset v => exact same (by simp [kvCmd, live])
  | expire d => exact same (by simp [kvCmd])
  | persist => exact same (by simp [kvCmd])
  | incrby d =>
    simp only [kvCmd, isAbsent, isExpiredV, Gen.incrFromZero, Bool.or_true, Bool.true_or, if_true, hdrForWrite, renew, fresh]
    refine ⟨trivial, fun t => ?_⟩
    simp only [effView]
    rw [vis_putH _ _ _ _ (by simp), vis_putH _ _ _ _ (by simp)]
  | append v =>
    simp only [kvCmd, live, Option.getD_none, hdrForWrite, renew, fresh]
    by_cases he : v.isEmpty = true
    · simp only [he, ↓reduceIte]; simp [effView, vis]
    · simp only [he, Bool.false_eq_true, ↓reduceIte]
      by_cases hl : ([] : Bytes).length + v.length > Gen.cMaxValueSize
      · simp only [hl, ↓reduceIte]; simp [effView, vis]
      · simp only [hl, ↓reduceIte]
        refine ⟨trivial, fun t => ?_⟩
        simp only [effView]
        rw [vis_putH _ _ _ _ (by simp), vis_putH _ _ _ _ (by simp)]
  | setrange off v =>
    simp only [kvCmd, live, Option.getD_none, hdrForWrite, renew, fresh]
    by_cases h1 : off < 0
    · simp only [h1, ↓reduceIte]; simp [effView, vis]
    · simp only [h1, ↓reduceIte]
      by_cases he : v.isEmpty = true
      · simp only [he, ↓reduceIte]; simp [effView, vis]
      · simp only [he, Bool.false_eq_true, ↓reduceIte]
        by_cases hl : (v.length : Int) + off > Gen.cMaxValueSize
        · simp only [hl, ↓reduceIte]; simp [effView, vis]
        · simp only [hl, ↓reduceIte]
          refine ⟨trivial, fun t => ?_⟩
          simp only [effView]
          rw [vis_putH _ _ _ _ (by simp), vis_putH _ _ _ _ (by simp)]

end Z.KVExec

namespace Z.KVExec
open Z.Ref (get Sorted get_put get_del put_sorted del_sorted)
open Z.Codec (kvKey be64 toU64 ofU64 fromBE be64_length)
open Z.Header

theorem stored_put {m : List KV} (hs : Sorted m) (k : Bytes) (e : Nat) (ver : Int) (u mt : Bytes)
    (he : e < 4294967296) (hm : mt.length = 8) :
    Stored (Z.Ref.put m (kvKey k) (encFixed e ver ++ (u ++ mt))) k e u :=
  ⟨he, ver, mt, hm, by rw [get_put m hs]; simp⟩

theorem stored_other {m : List KV} (hs : Sorted m) {k k' : Bytes} (hk : k' ≠ k) {e : Nat} {u : Bytes}
    (h : Stored m k e u) (eff : Eff) : Stored (applyEff m (kvKey k') eff) k e u := by
  obtain ⟨he, ver, mt, hm, hg⟩ := h
  have hne : kvKey k ≠ kvKey k' := fun h => hk (kvKey_inj h).symm
  refine ⟨he, ver, mt, hm, ?_⟩
  cases eff with
  | keep => exact hg
  | put v => simp [applyEff, get_put m hs, hne, hg]
  | del => simp [applyEff, get_del m hs, hne, hg]

theorem foldl_del_sorted (keys : List Bytes) : ∀ {m : List KV}, Sorted m →
    Sorted (keys.foldl (fun acc k => Z.Ref.del acc (kvKey k)) m) := by
  induction keys with
  | nil => intro m hs; exact hs
  | cons a t ih => intro m hs; exact ih (del_sorted hs _)

theorem get_foldl_del (keys : List Bytes) (k : Bytes) (hk : k ∉ keys) : ∀ {m : List KV}, Sorted m →
    get (keys.foldl (fun acc k => Z.Ref.del acc (kvKey k)) m) (kvKey k) = get m (kvKey k) := by
  induction keys with
  | nil => intro m _; rfl
  | cons a t ih =>
    intro m hs
    have ha : k ≠ a := fun h => hk (h ▸ List.mem_cons_self)
    have ht : k ∉ t := fun h => hk (List.mem_cons_of_mem _ h)
    simp only [List.foldl_cons]
    rw [ih ht (del_sorted hs _), get_del m hs]
    have : kvKey k ≠ kvKey a := fun h => ha (kvKey_inj h)
    simp [this]

/-- what DEL k₁ … kₙ leaves behind -/
theorem get_foldl_del_iff (keys : List Bytes) : ∀ {m : List KV}, Sorted m → ∀ (k : Bytes),
    get (keys.foldl (fun acc k => Z.Ref.del acc (kvKey k)) m) (kvKey k) = if k ∈ keys then none else get m (kvKey k) := by
  induction keys with
  | nil => intro m _ k; simp
  | cons a t ih =>
    intro m hs k
    simp only [List.foldl_cons]
    rw [ih (del_sorted hs _) k, get_del m hs]
    by_cases hk : k = a
    · subst hk; simp
    · have hne : kvKey k ≠ kvKey a := fun h => hk (kvKey_inj h)
      by_cases ht : k ∈ t
      · simp [ht]
      · simp [ht, hk, hne]

end Z.KVExec
