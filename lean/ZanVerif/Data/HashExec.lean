/-
  Executable storage-level hash model (core only) — the functions of `Z.HashInv` / `Z.HashRef` with the
  codec passed as plain functions, so that they can be run with the REAL key codec (`Z.Codec`, C12) in
  the `datacore` correspondence, while the C08/C09 theorems are stated for every codec that satisfies
  the abstract facts `Z.HashInv.Enc` (`ofEnc`, `*_eq` lemmas: same functions, by `rfl`).
  Layout = rockredis under the local-deletion policy (no version in the keys).
-/
import ZanVerif.Data.HashInv
import ZanVerif.Data.HashRef
import ZanVerif.Data.HashIncr
import ZanVerif.Data.Codec

namespace Z.HashExec
open Z.Ref

structure EncFns where
  metaK  : Bytes → Bytes
  fieldK : Bytes → Bytes → Bytes
  start  : Bytes → Bytes
  stop   : Bytes → Bytes
  encSize : Nat → Bytes
  sizeOf  : Bytes → Nat

def ofEnc (E : Z.HashInv.Enc) : EncFns := ⟨E.metaK, E.fieldK, E.start, E.stop, E.encSize, E.sizeOf⟩

variable (F : EncFns)

def hlen (m : List KV) (k : Bytes) : Nat :=
  match get m (F.metaK k) with
  | some v => F.sizeOf v
  | none => 0

def hset (m : List KV) (k f v : Bytes) : List KV :=
  match get m (F.fieldK k f) with
  | some _ => put m (F.fieldK k f) v
  | none => put (put m (F.fieldK k f) v) (F.metaK k) (F.encSize (hlen F m k + 1))

def hdel (m : List KV) (k f : Bytes) : List KV :=
  match get m (F.fieldK k f) with
  | none => m
  | some _ =>
    let m1 := del m (F.fieldK k f)
    if hlen F m k - 1 = 0 then del m1 (F.metaK k) else put m1 (F.metaK k) (F.encSize (hlen F m k - 1))

def hget (m : List KV) (k f : Bytes) : Option Bytes := get m (F.fieldK k f)
def hsetReply (m : List KV) (k f : Bytes) : Nat := if (get m (F.fieldK k f)).isNone then 1 else 0
def hdelReply (m : List KV) (k f : Bytes) : Nat := if (get m (F.fieldK k f)).isSome then 1 else 0

/-- HGETALL / HKEYS / HVALS: the collection's key range, in key order -/
def hscan (m : List KV) (k : Bytes) : List KV := scan m (F.start k) (F.stop k)

/-- HCLEAR: delete the range and the meta -/
def hclear (m : List KV) (k : Bytes) : List KV :=
  del ((hscan F m k).foldl (fun acc p => del acc p.1) m) (F.metaK k)

/-- what `HIncrBy` reads (`hGetRawFieldValue` with checkExpired = true): no size meta ⇒ the field counts as missing -/
def hincrCur (m : List KV) (k f : Bytes) : Option Bytes :=
  if Gen.hincrFieldMissing false (get m (F.metaK k)).isNone then none else get m (F.fieldK k f)

/-- HINCRBY (`RockDB.HIncrBy`): old value parsed with ParseInt(·, 10, 64) (missing = 0), wrapping int64 addition, the
    decimal text written through `hSetField` (= `hset`: size meta + 1 for a new field), reply = the new number -/
def hincrby (m : List KV) (k f : Bytes) (d : Int) : List KV × Z.HashIncr.IReply :=
  Z.HashIncr.incrWith m (hincrCur F m k f) d (fun v => hset F m k f v)

/-- the apply handler `localHIncrbyCommand`: the increment text is parsed first -/
def hincrbyCmd (m : List KV) (k f dtxt : Bytes) : List KV × Z.HashIncr.IReply :=
  Z.HashIncr.cmdWith m dtxt (hincrby F m k f)

theorem hlen_eq (E : Z.HashInv.Enc) : hlen (ofEnc E) = Z.HashInv.hlen E := rfl
theorem hset_eq (E : Z.HashInv.Enc) : hset (ofEnc E) = Z.HashInv.hset E := rfl
theorem hdel_eq (E : Z.HashInv.Enc) : hdel (ofEnc E) = Z.HashInv.hdel E := rfl
theorem hget_eq (E : Z.HashInv.Enc) : hget (ofEnc E) = Z.HashRef.hget E := rfl
theorem hsetReply_eq (E : Z.HashInv.Enc) : hsetReply (ofEnc E) = Z.HashRef.hsetReply E := rfl
theorem hdelReply_eq (E : Z.HashInv.Enc) : hdelReply (ofEnc E) = Z.HashRef.hdelReply E := rfl
theorem hincrby_eq (E : Z.HashInv.Enc) : hincrby (ofEnc E) = Z.HashIncr.hincrby E := rfl
theorem hincrbyCmd_eq (E : Z.HashInv.Enc) : hincrbyCmd (ofEnc E) = Z.HashIncr.hincrbyCmd E := rfl

/-- the real codec of table `table` (rockredis, local-deletion layout) -/
def realFns (table : Bytes) : EncFns where
  metaK k := Z.Codec.metaKey Gen.cHSizeType (Z.Codec.packRedisKey table k)
  fieldK k f := Z.Codec.collSubKey Gen.cHashType table k f
  start k := Z.Codec.collStart Gen.cHashType table k
  stop k := Z.Codec.collStop Gen.cHashType table k
  encSize n := Z.Codec.be64 n
  sizeOf b := Z.Codec.fromBE b

end Z.HashExec
