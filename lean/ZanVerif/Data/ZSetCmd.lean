/-
  Command layer of the sorted-set model (core only): node/zset.go — argument parsing (`getScoreRange`,
  `getLexRange`, `parseScore`, `strconv.ParseInt/Atoi`), leader-side checks and local answers, apply handlers,
  read handlers and their replies — on top of the storage model `Z.ZSetExec` with the real codec.

  Scores are IEEE-754 bit patterns in the store. Text ↔ bits is modelled exactly for the values the
  `datacorezset` generator uses: half-integers k/2 with |k| ≤ 2^53 (sums of halves are exact), ±0, ±Inf and NaN
  patterns (`FV`). Anything else (`ofBits = none`, a decimal that is not a half-integer) is answered `unmodelled`
  by this layer (the driver prints `bad-op`, which the comparison counts but does not compare).
-/
import ZanVerif.Data.ZSetExec

namespace Z.ZSetCmd
open Z.Ref Z.ZSetExec

/-! ### the float values the command layer can print / add exactly -/

inductive FV
  | fin (neg : Bool) (k : Nat)      -- (-1)^neg · k/2
  | inf (neg : Bool)
  | nan (bits : Nat)
  deriving Repr, DecidableEq

def two52 : Nat := 4503599627370496
def two53 : Nat := 9007199254740992
def infBits : Nat := 0x7FF0000000000000
/-- x86 SSE "default NaN" produced by `+Inf + -Inf` (sign bit set) -/
def defaultNaN : Nat := 0xFFF8000000000000

/-- ⌊log₂ k⌋ for 0 < k < 2^64, by structural recursion (so that the kernel can evaluate it) -/
def ilog2 (k : Nat) : Nat := (List.range 64).foldl (fun acc i => if 2 ^ i ≤ k then i else acc) 0

/-- IEEE-754 binary64 pattern of the magnitude k/2, exact for k ≤ 2^53 -/
def magBits (k : Nat) : Nat :=
  if k = 0 then 0 else
  let e := ilog2 k
  (e + 1022) * two52 + (k - 2 ^ e) * 2 ^ (52 - e)

/-- IEEE-754 binary64 pattern of k/2 (k = 0 ↦ +0.0) -/
def bitsOfHalf (k : Int) : Nat := if k < 0 then two63 + magBits k.natAbs else magBits k.natAbs

def toBits : FV → Nat
  | .fin neg k => (if neg then two63 else 0) + magBits k
  | .inf neg => (if neg then two63 else 0) + infBits
  | .nan u => u

/-- decode a pattern; `none` = not a half-integer below 2^52 in magnitude (subnormals, finer fractions, huge) -/
def ofBits (u : Nat) : Option FV :=
  let neg := decide (u ≥ two63)
  let e := u / two52 % 2048
  let f := u % two52
  if e = 2047 then (if f = 0 then some (.inf neg) else some (.nan u))
  else if e = 0 then (if f = 0 then some (.fin neg 0) else none)
  else
    let mant := two52 + f
    if e > 1074 then none
    else
      let sh := 1074 - e
      if sh ≤ 52 ∧ mant % 2 ^ sh = 0 then some (.fin neg (mant / 2 ^ sh)) else none

/-- float64 addition (round to nearest even is exact here), x86 NaN behaviour -/
def faddFV : FV → FV → Option FV
  | .nan u, _ => some (.nan u)
  | _, .nan u => some (.nan u)
  | .inf a, .inf b => if a = b then some (.inf a) else some (.nan defaultNaN)
  | .inf a, .fin _ _ => some (.inf a)
  | .fin _ _, .inf b => some (.inf b)
  | .fin na ka, .fin nb kb =>
    let ia : Int := if na then -(ka : Int) else ka
    let ib : Int := if nb then -(kb : Int) else kb
    let s := ia + ib
    if s = 0 then some (.fin (na && nb) 0)
    else if s.natAbs > two53 then none
    else some (.fin (decide (s < 0)) s.natAbs)

def faddBits (a b : Nat) : Option Nat :=
  match ofBits a, ofBits b with
  | some x, some y => (faddFV x y).map toBits
  | _, _ => none

/-! ### strconv.FormatFloat(f, 'g', -1, 64) -/

def stripTrailingZeros (ds : List Char) : List Char := (ds.reverse.dropWhile (· == '0')).reverse

def pad2 (n : Nat) : String := if n < 10 then "0" ++ toString n else toString n

/-- shortest digits of k/2 are its exact decimal expansion (k ≤ 2^53): digits (no trailing zeros) and decimal point -/
def fmtFV : FV → String
  | .nan _ => "NaN"
  | .inf neg => if neg then "-Inf" else "+Inf"
  | .fin neg k =>
    let sign := if neg then "-" else ""
    if k = 0 then sign ++ "0" else
    let n := k / 2
    let intDs : List Char := if n = 0 then [] else (toString n).toList
    let all : List Char := intDs ++ (if k % 2 = 1 then ['5'] else [])
    let dp : Int := intDs.length
    let ds := stripTrailingZeros all
    let nd := ds.length
    let exp : Int := dp - 1
    if exp < -4 ∨ exp ≥ 6 then
      -- %e with nd-1 digits after the point
      let mant := match ds with
        | [] => "0"
        | d :: rest => if rest.isEmpty then String.ofList [d] else String.ofList (d :: '.' :: rest)
      sign ++ mant ++ "e" ++ (if exp < 0 then "-" else "+") ++ pad2 exp.natAbs
    else
      -- %f with max(nd - dp, 0) digits after the point
      if dp ≤ 0 then sign ++ "0." ++ String.ofList (List.replicate (-dp).toNat '0' ++ ds)
      else
        let ip := ds.take dp.toNat ++ List.replicate (dp.toNat - nd) '0'
        let fp := ds.drop dp.toNat
        sign ++ String.ofList ip ++ (if fp.isEmpty then "" else "." ++ String.ofList fp)

/-! ### strconv.ParseFloat / ParseInt on byte strings -/

inductive PF
  | val (v : FV)
  | syntaxErr
  | rangeErr
  | unmodelled
  deriving Repr, DecidableEq

def lowerB (b : UInt8) : UInt8 := if 65 ≤ b ∧ b ≤ 90 then b + 32 else b
def lowerBytes (s : Bytes) : Bytes := s.map lowerB
def isDigitB (b : UInt8) : Bool := 48 ≤ b && b ≤ 57
def strB (s : String) : Bytes := s.toUTF8.toList


/-- the ASCII option words and literals, as explicit bytes (kernel-reducible) -/
def tNan : Bytes := [110, 97, 110]   -- nan
def tInf : Bytes := [105, 110, 102]   -- inf
def tInfinity : Bytes := [105, 110, 102, 105, 110, 105, 116, 121]   -- infinity
def t0x : Bytes := [48, 120]   -- 0x
def tNegInf : Bytes := [45, 105, 110, 102]   -- -inf
def tPosInf : Bytes := [43, 105, 110, 102]   -- +inf
def tMinus : Bytes := [45]   -- -
def tPlus : Bytes := [43]   -- +
def tLimit : Bytes := [108, 105, 109, 105, 116]   -- limit
def tWithScores : Bytes := [119, 105, 116, 104, 115, 99, 111, 114, 101, 115]   -- withscores

def digitsVal (ds : Bytes) : Nat := ds.foldl (fun acc d => acc * 10 + (d.toNat - 48)) 0

/-- decimal float literal after the sign: mantissa digits with optional '.', optional exponent -/
def parseDecimal (neg : Bool) (s : Bytes) : PF :=
  let ip := s.takeWhile isDigitB
  let r1 := s.dropWhile isDigitB
  let (fp, r2) : Bytes × Bytes :=
    match r1 with
    | 46 :: t => (t.takeWhile isDigitB, t.dropWhile isDigitB)
    | _ => ([], r1)
  if ip.isEmpty ∧ fp.isEmpty then .syntaxErr else
  let expo : Option Int :=
    match r2 with
    | [] => some 0
    | c :: t =>
      if c = 101 ∨ c = 69 then
        let (eneg, t') : Bool × Bytes :=
          match t with
          | 43 :: u => (false, u)
          | 45 :: u => (true, u)
          | _ => (false, t)
        if t'.isEmpty ∨ !(t'.all isDigitB) then none
        else some (if eneg then -(digitsVal t' : Int) else (digitsVal t' : Int))
      else none
  match expo with
  | none => if s.any (fun c => c = 95 ∨ c = 120 ∨ c = 88 ∨ c = 112 ∨ c = 80) then .unmodelled else .syntaxErr
  | some e =>
    if e.natAbs > 400 then .unmodelled else
    let mant := digitsVal (ip ++ fp)
    let e10 : Int := e - (fp.length : Int)
    -- value = mant · 10^e10 ; k = 2 · value must be an integer
    let num : Nat := 2 * mant * (if e10 ≥ 0 then 10 ^ e10.toNat else 1)
    let den : Nat := if e10 < 0 then 10 ^ (-e10).toNat else 1
    if num % den ≠ 0 then .unmodelled else
    let k := num / den
    if k > two53 then .unmodelled else .val (.fin neg k)

/-- `strconv.ParseFloat(s, 64)` -/
def parseFloat (s : Bytes) : PF :=
  let l := lowerBytes s
  if l = tNan then .val (.nan 0x7FF8000000000001) else
  let (neg, body) : Bool × Bytes :=
    match l with
    | 43 :: t => (false, t)
    | 45 :: t => (true, t)
    | _ => (false, l)
  if body = tInf ∨ body = tInfinity then .val (.inf neg) else
  if body.any (fun c => c = 95) ∨ (body.take 2 = t0x) then .unmodelled else
  parseDecimal neg body

inductive PI
  | val (n : Int)
  | syntaxErr
  | rangeErr
  deriving Repr, DecidableEq

/-- `strconv.ParseInt(s, 10, 64)` / `strconv.Atoi` (int is 64 bits) -/
def parseInt (s : Bytes) : PI :=
  let (neg, body) : Bool × Bytes :=
    match s with
    | 43 :: t => (false, t)
    | 45 :: t => (true, t)
    | _ => (false, s)
  if body.isEmpty ∨ !(body.all isDigitB) then .syntaxErr else
  let n := digitsVal body
  if neg then (if n > 9223372036854775808 then .rangeErr else .val (-(n : Int)))
  else (if n > 9223372036854775807 then .rangeErr else .val n)

/-! ### replies -/

inductive Reply
  | int (n : Int)
  | bulk (b : Bytes)
  | nil
  | arr (l : List Reply)
  | err (cls : String)
  | unmodelled
  deriving Repr

/-- error class of a failed float parse as the harness's `errClass` prints it (`strconv.` → notint) -/
def pfErr : PF → String
  | .rangeErr => "numrange"
  | _ => "notint"
def piErr : PI → String
  | .rangeErr => "numrange"
  | _ => "notint"

def scoreText (bits : Nat) : Option Bytes := (ofBits bits).map (fun v => strB (fmtFV v))
def scoreReply (bits : Nat) : Reply := match scoreText bits with | some t => .bulk t | none => .unmodelled

/-! ### `getScoreRange` / `getLexRange` -/

inductive RangeRes (α : Type)
  | ok (a : α)
  | err (cls : String)
  | unmodelled

def negInfBits : Nat := two63 + infBits

/-- one bound of `getScoreRange`: `inf` is the literal that means unbounded ("-inf" left, "+inf" right);
    an exclusive bound `(x` becomes x+1 (left) / x-1 (right) — that is what the code does -/
def scoreBound (b : Bytes) (isLeft : Bool) : RangeRes Nat :=
  if lowerBytes b = (if isLeft then tNegInf else tPosInf) then .ok (if isLeft then negInfBits else infBits) else
  let (isOpen, d) : Bool × Bytes := match b with | 40 :: t => (true, t) | _ => (false, b)
  match parseFloat d with
  | .val (.nan _) => .unmodelled
  | .val (.inf _) => .err "rangestr"
  | .val v =>
    if isOpen then
      match faddFV v (.fin (!isLeft) 2) with
      | some v' => .ok (toBits v')
      | none => .unmodelled
    else .ok (toBits v)
  | .unmodelled => .unmodelled
  | e => .err (pfErr e)

/-- `getScoreRange(left, right)` → (min, max) bit patterns -/
def getScoreRange (left right : Bytes) : RangeRes (Nat × Nat) :=
  if left.isEmpty ∨ right.isEmpty then .err "rangestr" else
  match scoreBound left true with
  | .err e => .err e
  | .unmodelled => .unmodelled
  | .ok lo =>
    match scoreBound right false with
    | .err e => .err e
    | .unmodelled => .unmodelled
    | .ok hi => .ok (lo, hi)

/-- one bound of `getLexRange`: (bound or nil, open) -/
def lexBound (b : Bytes) (inf : Bytes) : Option (Option Bytes × Bool) :=
  if b = inf then some (none, false) else
  match b with
  | 40 :: t => some (some t, true)
  | 91 :: t => some (some t, false)
  | _ => none

/-- `getLexRange(left, right)` → (min, max, lopen, ropen) -/
def getLexRange (left right : Bytes) : Option (Option Bytes × Option Bytes × Bool × Bool) :=
  if left.isEmpty ∨ right.isEmpty then none else
  match lexBound left (tMinus), lexBound right (tPlus) with
  | some (lo, lop), some (hi, rop) => some (lo, hi, lop, rop)
  | _, _ => none

/-! ### write commands: leader side, then apply -/

inductive Lead
  | err (cls : String)          -- rejected, nothing enters the log
  | loc (r : Reply)             -- answered from the applied state, nothing enters the log
  | propose
  | unmodelled

def F : EncFns := realFns

/-- `parseScore`: NaN is rejected -/
def parseScore (b : Bytes) : RangeRes Nat :=
  match parseFloat b with
  | .val (.nan _) => .err "other:value-is-not"
  | .val v => .ok (toBits v)
  | .unmodelled => .unmodelled
  | e => .err (pfErr e)

/-- `getScorePairs(args)` (args of even length) -/
def scorePairs : List Bytes → RangeRes (List (Nat × Bytes))
  | s :: mem :: t =>
    match parseScore s with
    | .err e => .err e
    | .unmodelled => .unmodelled
    | .ok bits =>
      match scorePairs t with
      | .ok l => .ok ((bits, mem) :: l)
      | o => o
  | _ => .ok []

def intArg (b : Bytes) : Except String Int :=
  match parseInt b with
  | .val n => .ok n
  | e => .error (piErr e)

/-- leader-side handler of a write command; `m` = the applied state, `k` = key after the namespace cut,
    `rest` = the arguments after the key -/
def lead (m : List KV) (cmd : String) (k : Bytes) (rest : List Bytes) : Lead :=
  let argc := rest.length + 2
  match cmd with
  | "zadd" =>
    if argc < 4 ∨ argc % 2 ≠ 0 then .err "argc" else
    match scorePairs rest with
    | .err e => .err e
    | .unmodelled => .unmodelled
    | .ok _ => .propose
  | "zrem" =>
    if argc < 3 then .err "argc" else
    -- ZScore of every argument says "member not exist" → int 0 without a proposal
    if rest.any (fun mem => match zscore F m k mem with | .ok none => false | _ => true) then .propose
    else .loc (.int 0)
  | "zincrby" =>
    if argc ≠ 4 then .err "argc" else
    match parseScore (rest.getD 0 []) with
    | .err e => .err e
    | .unmodelled => .unmodelled
    | .ok _ => .propose
  | "zremrangebyrank" =>
    if argc ≠ 4 then .err "argc" else
    match intArg (rest.getD 0 []), intArg (rest.getD 1 []) with
    | .error e, _ => .err e
    | _, .error e => .err e
    | _, _ => .propose
  | "zremrangebyscore" =>
    if argc ≠ 4 then .err "argc" else
    match getScoreRange (rest.getD 0 []) (rest.getD 1 []) with
    | .err e => .err e
    | .unmodelled => .unmodelled
    | .ok _ => .propose
  | "zremrangebylex" =>
    if argc ≠ 4 then .err "argc" else
    match getLexRange (rest.getD 0 []) (rest.getD 1 []) with
    | none => .err "rangestr"
    | some _ => .propose
  | "zclear" => if argc ≠ 2 then .err "argc" else .propose
  | _ => .unmodelled

def intReply {α : Type} (f : α → Reply) (m : List KV) (r : Except String (List Op × α)) : List KV × Reply :=
  match commit m r with
  | (m', .ok a) => (m', f a)
  | (m', .error e) => (m', .err e)

/-- apply handler (`localZ…Command` + rockredis) of a proposed command at log time `ts` -/
def apply (m : List KV) (ts : Int) (cmd : String) (k : Bytes) (rest : List Bytes) : List KV × Reply :=
  match cmd with
  | "zadd" =>
    match scorePairs rest with
    | .ok ps => intReply .int m (zadd F m ts k ps)
    | .err e => (m, .err e)
    | .unmodelled => (m, .unmodelled)
  | "zrem" => intReply .int m (zrem F m ts k rest)
  | "zincrby" =>
    match parseScore (rest.getD 0 []) with
    | .ok delta =>
      let mem := rest.getD 1 []
      -- the sum must be one the model can compute exactly
      let old : Nat := match zscoreRaw m k mem with | some s => s | none => 0
      match faddBits old delta with
      | none => (m, .unmodelled)
      | some sum =>
        -- `math.IsNaN(score)` after the addition (+Inf + -Inf): refused, nothing written; the stored value is decoded
        -- first, so an undecodable one keeps its own error
        if Z.Codec.isNaNBits sum && (match get m (F.memK k mem) with | some v => (F.decScore v).isSome | none => true) then (m, .err "scorenan")
        else intReply scoreReply m (zincrby F (fun a b => (faddBits a b).getD 0) m ts k delta mem)
    | .err e => (m, .err e)
    | .unmodelled => (m, .unmodelled)
  | "zremrangebyrank" =>
    match intArg (rest.getD 0 []), intArg (rest.getD 1 []) with
    | .ok a, .ok b => intReply .int m (zremrangebyrank F m ts k a b)
    | .error e, _ => (m, .err e)
    | _, .error e => (m, .err e)
  | "zremrangebyscore" =>
    match getScoreRange (rest.getD 0 []) (rest.getD 1 []) with
    | .ok (lo, hi) => intReply .int m (zremrangebyscore F m ts k lo hi)
    | .err e => (m, .err e)
    | .unmodelled => (m, .unmodelled)
  | "zremrangebylex" =>
    match getLexRange (rest.getD 0 []) (rest.getD 1 []) with
    | some (lo, hi, lop, rop) => intReply .int m (zremrangebylex F m ts k lo hi lop rop)
    | none => (m, .err "rangestr")
  | "zclear" => intReply .int m (zclear F m ts k)
  | _ => (m, .unmodelled)
where
  zscoreRaw (m : List KV) (k mem : Bytes) : Option Nat :=
    match get m (F.memK k mem) with
    | some v => F.decScore v
    | none => none

/-! ### read commands -/

def pairsReply (withScores : Bool) (l : List (Bytes × Nat)) : Reply :=
  .arr (l.flatMap (fun p => if withScores then [.bulk p.1, scoreReply p.2] else [.bulk p.1]))

def exReply {α : Type} (f : α → Reply) : Except String α → Reply
  | .ok a => f a
  | .error e => .err e

/-- `limit offset count` tail of ZRANGEBYSCORE / ZRANGEBYLEX: (offset, count) or the `args` error -/
def limitArgs (a : List Bytes) : Option (Int × Int) :=
  match a with
  | [w, o, c] =>
    if lowerBytes w ≠ tLimit then none else
    match parseInt o, parseInt c with
    | .val x, .val y => some (x, y)
    | _, _ => none
  | _ => none

def read (m : List KV) (cmd : String) (k : Bytes) (rest : List Bytes) : Reply :=
  let argc := rest.length + 2
  match cmd with
  | "zcard" => if argc ≠ 2 then .err "argc" else exReply .int (zcard F m k)
  | "zkeyexist" => if argc ≠ 2 then .err "argc" else .int (zkeyexist F m k)
  | "zscore" =>
    if argc ≠ 3 then .err "argc" else
    match zscore F m k (rest.getD 0 []) with
    | .ok (some s) => scoreReply s
    | _ => .nil
  | "zrank" | "zrevrank" =>
    if argc ≠ 3 then .err "argc" else
    match zrank F m k (rest.getD 0 []) (cmd == "zrevrank") with
    | .ok n => if n < 0 then .nil else .int n
    | .error e => .err e
  | "zrange" | "zrevrange" =>
    if argc ≠ 4 ∧ argc ≠ 5 then .err "argc" else
    match intArg (rest.getD 0 []), intArg (rest.getD 1 []) with
    | .error e, _ => .err e
    | _, .error e => .err e
    | .ok a, .ok b =>
      let ws : Option Bool :=
        if argc = 5 then (if lowerBytes (rest.getD 2 []) = tWithScores then some true else none) else some false
      match ws with
      | none => .err "syntax"
      | some w => exReply (pairsReply w) (zrange F m k a b (cmd == "zrevrange"))
  | "zrangebyscore" | "zrevrangebyscore" =>
    if argc < 4 then .err "argc" else
    let reverse := cmd == "zrevrangebyscore"
    let rr := if reverse then getScoreRange (rest.getD 1 []) (rest.getD 0 []) else getScoreRange (rest.getD 0 []) (rest.getD 1 [])
    match rr with
    | .err e => .err e
    | .unmodelled => .unmodelled
    | .ok (lo, hi) =>
      let a := rest.drop 2
      let (w, a) : Bool × List Bytes :=
        match a with
        | x :: t => if lowerBytes x = tWithScores then (true, t) else (false, a)
        | [] => (false, a)
      let lim : Option (Int × Int) := if a.isEmpty then some (0, -1) else limitArgs a
      match lim with
      | none => .err "args"
      | some (off, cnt) =>
        exReply (pairsReply w) (zrangebyscore F m k lo hi (lo == negInfBits && hi == infBits) off cnt reverse)
  | "zcount" =>
    if argc ≠ 4 then .err "argc" else
    match getScoreRange (rest.getD 0 []) (rest.getD 1 []) with
    | .err e => .err e
    | .unmodelled => .unmodelled
    | .ok (lo, hi) => .int (zcount F m k lo hi)
  | "zrangebylex" =>
    if argc ≠ 4 ∧ argc ≠ 7 then .err "argc" else
    match getLexRange (rest.getD 0 []) (rest.getD 1 []) with
    | none => .err "rangestr"
    | some (lo, hi, lop, rop) =>
      let lim : Option (Int × Int) := if argc = 7 then limitArgs (rest.drop 2) else some (0, -1)
      match lim with
      | none => .err "args"
      | some (off, cnt) => exReply (fun l => .arr (l.map .bulk)) (zrangebylex F m k lo hi lop rop off cnt)
  | "zlexcount" =>
    if argc ≠ 4 then .err "argc" else
    match getLexRange (rest.getD 0 []) (rest.getD 1 []) with
    | none => .err "rangestr"
    | some (lo, hi, lop, rop) => .int (zlexcount F m k lo hi lop rop)
  | _ => .unmodelled

end Z.ZSetCmd
