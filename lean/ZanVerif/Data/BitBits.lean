/-
  `setBitTo` changes exactly one bit of a byte (all 256 bytes × 8 × 8 positions × 2 values, by evaluation).
  Kept in its own file: the evaluation takes a while.
-/
import ZanVerif.Data.BitExec

namespace Z.BitExec

theorem ofNat_toNat (n : Nat) : (UInt8.ofNat n).toNat = n % 256 := by
  simp [UInt8.ofNat, UInt8.toNat]

def setNat (n p : Nat) (on : Bool) : Nat :=
  (if on then (if n / 2 ^ p % 2 == 1 then n - 2 ^ p else n) + 2 ^ p else (if n / 2 ^ p % 2 == 1 then n - 2 ^ p else n)) % 256

set_option maxRecDepth 100000 in
theorem setNat_bits : ∀ n < 256, ∀ p < 8, ∀ q < 8, ∀ on : Bool,
    (setNat n p on / 2 ^ q % 2 == 1) = (if q = p then on else (n / 2 ^ q % 2 == 1)) := by decide

/-- `byteVal &= ^(1<<bit); byteVal |= on<<bit` changes bit `p` and nothing else -/
theorem testBit_setBitTo (b : UInt8) (p q : Nat) (hp : p < 8) (hq : q < 8) (on : Bool) :
    testBit (setBitTo b p on) q = if q = p then on else testBit b q := by
  have := setNat_bits b.toNat b.toNat_lt p hp q hq on
  unfold testBit setBitTo
  rw [ofNat_toNat]
  unfold setNat at this
  exact this

end Z.BitExec
