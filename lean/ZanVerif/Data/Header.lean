/-
  The value header of the value-header expiry policy (`policy=compact`: wait_compact + DataVersion
  value_header_v1), byte for byte: rockredis/t_ttl_compact.go `headerMetaValue`
  (encodeTo / encodeWithData / decode, isExpired, ttl), `compactExpiration.rawExpireAt` (incl. the uint32
  overflow guard), `renewOnExpired`, `decodeRawValue(nil)`.
  Executable, core only.  The decision expressions come from the REGENERATED `Gen.isExpired`,
  `Gen.ttlSeconds` (Gen/Ttl.lean) and `Gen.expOverflow`, `Gen.ttlClamp` (Gen/TtlKV.lean).
-/
import ZanVerif.Data.Codec
import ZanVerif.Gen.Ttl
import ZanVerif.Gen.TtlKV

namespace Z.Header
open Z.Codec

/-- `headerMetaValue` with `Ver = ValueHeaderV1` (the only version this policy writes).
    `user = none` is Go's `UserData == nil`. -/
structure Hdr where
  expireAt : Nat            -- uint32, unix seconds; 0 = no expiry
  ver : Int                 -- ValueVersion, int64 (generation of a collection; = log timestamp of its creation)
  user : Option Bytes
  deriving DecidableEq, Repr

/-- `common.ValueHeaderV1` -/
def v1 : UInt8 := 1

/-- `newHeaderMetaV1()` = what `decodeRawValue(dt, nil)` returns -/
def fresh : Hdr := ⟨0, 0, none⟩

/-- the 13 fixed bytes: version byte, ExpireAt (uint32 BE), ValueVersion (uint64 BE) -/
def encFixed (e : Nat) (ver : Int) : Bytes := v1 :: (beN 4 e ++ be64 (toU64 ver))

/-- `encodeWithData` -/
def encode (h : Hdr) : Bytes := encFixed h.expireAt h.ver ++ h.user.getD []

inductive DErr
  | hdrMeta      -- errHeaderMetaValue  "invalid header meta value"  (shorter than 13 bytes)
  | hdrVersion   -- errHeaderVersion    "invalid header version"
  deriving DecidableEq, Repr

inductive Res (α : Type)
  | ok (a : α)
  | err (e : DErr)
  deriving Repr

/-- `headerMetaValue.decode` -/
def decode (b : Bytes) : Res Hdr :=
  if b.length < Gen.cHeaderV1Len then .err .hdrMeta
  else if b.headD 0 ≠ v1 then .err .hdrVersion
  else .ok ⟨fromBE ((b.drop 1).take 4), ofU64 (fromBE ((b.drop 5).take 8)), some (b.drop 13)⟩

/-- `compactExpiration.decodeRawValue`: a nil raw value gives the fresh header -/
def decodeOpt : Option Bytes → Res Hdr
  | none => .ok fresh
  | some b => decode b

/-- `headerMetaValue.isExpired(ts)` (Ver is always V1 here) — the REGENERATED rule -/
def isExpired (h : Hdr) (ts : Int) : Bool := Gen.isExpired (h.expireAt : Int) ts

/-- `headerMetaValue.ttl(ts)`: -1 for "no expiry" and for "no positive remaining time" -/
def ttl (h : Hdr) (ts : Int) : Int :=
  if h.expireAt = 0 then -1
  else if Gen.ttlClamp (Gen.ttlSeconds (h.expireAt : Int) ts) then -1
  else Gen.ttlSeconds (h.expireAt : Int) ts

/-- Go's `uint32(when)` of an int64 -/
def u32 (when : Int) : Nat := (when % 4294967296).toNat

inductive EErr
  | overflow           -- errExpOverflow
  | dec (e : DErr)
  deriving DecidableEq, Repr

inductive ERes
  | ok (b : Bytes)
  | err (e : EErr)
  deriving Repr

/-- `compactExpiration.rawExpireAt`: guard, decode, overwrite the ExpireAt field in place
    (everything behind the 13 fixed bytes is kept) -/
def rawExpireAt (raw : Bytes) (when : Int) : ERes :=
  if Gen.expOverflow when then .err .overflow
  else match decode raw with
    | .err e => .err (.dec e)
    | .ok h => .ok (encFixed (u32 when) h.ver ++ raw.drop 13)

/-- `compactExpiration.renewOnExpired` -/
def renew (_h : Hdr) (ts : Int) : Hdr := ⟨0, ts, none⟩

/-- `Int64(h.UserData)` of a collection's size meta (nil / empty = 0) -/
def sizeI (u : Option Bytes) : Int := ofU64 (fromBE (u.getD []))

end Z.Header
