/-
Scratch prototype for C09: hash size meta = number of field keys, preserved by hset / hdel,
over the sorted reference store (Z.Ref), with the key codec abstracted by the facts that C12 proves.
-/
import ZanVerif.Engine.Ref
namespace Z.HashInv
open Z.Ref

/-- what the data mapping needs from the key codec (C12 provides these for the real encoders) -/
structure Enc where
  metaK  : Bytes → Bytes                 -- size/meta key of a hash
  fieldK : Bytes → Bytes → Bytes         -- data key of (hash, field)
  start  : Bytes → Bytes
  stop   : Bytes → Bytes
  encSize : Nat → Bytes
  sizeOf  : Bytes → Nat
  size_rt : ∀ n, sizeOf (encSize n) = n
  field_inj : ∀ k f k' f', fieldK k f = fieldK k' f' → k = k' ∧ f = f'
  meta_inj : ∀ k k', metaK k = metaK k' → k = k'
  meta_ne_field : ∀ k k' f, metaK k ≠ fieldK k' f
  /-- range exactness: [start k, stop k) holds exactly the field keys of k -/
  range_iff : ∀ k x, (start k ≤ x ∧ x < stop k) ↔ ∃ f, x = fieldK k f

variable (E : Enc)

def hlen (m : List KV) (k : Bytes) : Nat :=
  match get m (E.metaK k) with
  | some v => E.sizeOf v
  | none => 0

def count (m : List KV) (k : Bytes) : Nat := (scan m (E.start k) (E.stop k)).length

def hset (m : List KV) (k f v : Bytes) : List KV :=
  match get m (E.fieldK k f) with
  | some _ => put m (E.fieldK k f) v
  | none => put (put m (E.fieldK k f) v) (E.metaK k) (E.encSize (hlen E m k + 1))

def hdel (m : List KV) (k f : Bytes) : List KV :=
  match get m (E.fieldK k f) with
  | none => m
  | some _ =>
    let m1 := del m (E.fieldK k f)
    if hlen E m k - 1 = 0 then del m1 (E.metaK k) else put m1 (E.metaK k) (E.encSize (hlen E m k - 1))

/-- representation invariant (C09): stored size = number of elements, meta present iff non-empty -/
structure Inv (m : List KV) : Prop where
  sorted : Sorted m
  size : ∀ k, hlen E m k = count E m k
  metaIff : ∀ k, get m (E.metaK k) = none ↔ count E m k = 0

/-! ### codec facts in the form the lemmas need -/

theorem inR_field_self (k f : Bytes) : inR (E.start k) (E.stop k) (E.fieldK k f) = true := by
  have := (E.range_iff k (E.fieldK k f)).mpr ⟨f, rfl⟩
  simp [inR, this.1, this.2]

theorem inR_field_other (k k' f : Bytes) (h : k' ≠ k) : inR (E.start k') (E.stop k') (E.fieldK k f) = false := by
  apply Bool.eq_false_iff.mpr
  intro hin
  simp only [inR, Bool.and_eq_true, decide_eq_true_eq] at hin
  obtain ⟨f', hf'⟩ := (E.range_iff k' (E.fieldK k f)).mp hin
  exact h (E.field_inj k f k' f' hf').1.symm

theorem inR_meta (k k' : Bytes) : inR (E.start k') (E.stop k') (E.metaK k) = false := by
  apply Bool.eq_false_iff.mpr
  intro hin
  simp only [inR, Bool.and_eq_true, decide_eq_true_eq] at hin
  obtain ⟨f', hf'⟩ := (E.range_iff k' (E.metaK k)).mp hin
  exact E.meta_ne_field k k' f' hf'


/-! ### store facts specialised -/

theorem hlen_put_other (m : List KV) (hm : Sorted m) (a v k' : Bytes) (h : E.metaK k' ≠ a) :
    hlen E (put m a v) k' = hlen E m k' := by
  unfold hlen; rw [get_put m hm]; simp [h]

theorem count_put (m : List KV) (hm : Sorted m) (a v k' : Bytes) :
    count E (put m a v) k' = count E m k' +
      (if inR (E.start k') (E.stop k') a && (get m a).isNone then 1 else 0) := by
  unfold count; exact length_scan_put m hm a v _ _

theorem count_del (m : List KV) (hm : Sorted m) (a k' : Bytes) :
    count E (del m a) k' + (if inR (E.start k') (E.stop k') a && (get m a).isSome then 1 else 0) =
      count E m k' := by
  unfold count; exact length_scan_del m hm a _ _

/-- **hset preserves the size invariant** -/
theorem inv_hset {m : List KV} (inv : Inv E m) (k f v : Bytes) : Inv E (hset E m k f v) := by
  have hs := inv.sorted
  have hmf : ∀ k', E.metaK k' ≠ E.fieldK k f := fun k' => E.meta_ne_field k' k f
  unfold hset
  split
  · -- overwrite of an existing field: nothing but the value changes
    rename_i x hx
    refine ⟨put_sorted hs _ _, ?_, ?_⟩
    · intro k'
      rw [hlen_put_other E m hs _ _ _ (hmf k'), count_put E m hs, hx]
      simp [inv.size k']
    · intro k'
      rw [get_put m hs, count_put E m hs, hx]
      simp [hmf k', inv.metaIff k']
  · -- a new field: the element and the size meta are written together
    rename_i hx
    have hs1 : Sorted (put m (E.fieldK k f) v) := put_sorted hs _ _
    have hc1 : ∀ k', count E (put m (E.fieldK k f) v) k' = count E m k' + (if k' = k then 1 else 0) := by
      intro k'
      rw [count_put E m hs, hx]
      by_cases hk : k' = k
      · subst hk; simp [inR_field_self]
      · simp [inR_field_other E k k' f hk, hk]
    have hc2 : ∀ k', count E (put (put m (E.fieldK k f) v) (E.metaK k) (E.encSize (hlen E m k + 1))) k' =
        count E m k' + (if k' = k then 1 else 0) := by
      intro k'
      rw [count_put E _ hs1, inR_meta, hc1 k']; simp
    refine ⟨put_sorted hs1 _ _, ?_, ?_⟩
    · intro k'
      rw [hc2 k']
      by_cases hk : k' = k
      · subst hk
        unfold hlen
        rw [get_put _ hs1]
        simp only [↓reduceIte, E.size_rt]
        have := inv.size k'
        unfold hlen at this
        rw [this]
      · have hne : E.metaK k' ≠ E.metaK k := fun e => hk (E.meta_inj _ _ e)
        rw [hlen_put_other E _ hs1 _ _ _ hne, hlen_put_other E m hs _ _ _ (hmf k')]
        simp [hk, inv.size k']
    · intro k'
      rw [hc2 k', get_put _ hs1]
      by_cases hk : k' = k
      · subst hk; simp
      · have hne : E.metaK k' ≠ E.metaK k := fun e => hk (E.meta_inj _ _ e)
        rw [get_put m hs]
        simp [hne, hmf k', hk, inv.metaIff k']

#print axioms inv_hset
end Z.HashInv
