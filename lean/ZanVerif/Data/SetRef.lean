/-
  Refinement of the storage-level SET model (`Z.SetExec`) to the plain redis set
  `key ↦ finite set of members` (kept as the strictly increasing list of its members):
  every modelled command answers what the specification answers on the abstraction `Z.SetInv.abs`, and the
  abstraction commutes with every write; the invariant holds in every reachable store; C09 corollaries.
-/
import ZanVerif.Data.SetInv

namespace Z.SetRef
open Z.Ref Z.Coll Z.SetExec Z.SetInv

/-! ### the specification: sorted member lists -/

/-- insert into a strictly increasing list (no-op for a member) -/
def insertS : List Bytes → Bytes → List Bytes
  | [], a => [a]
  | b :: t, a => if a < b then a :: b :: t else if a = b then b :: t else b :: insertS t a

/-- SADD -/
def specAdd (s : List Bytes) (args : List Bytes) : List Bytes := args.foldl insertS s
/-- SREM -/
def specRem (s : List Bytes) (args : List Bytes) : List Bytes := s.filter (fun x => !args.contains x)

theorem mem_insertS {s : List Bytes} {a x : Bytes} : x ∈ insertS s a ↔ x = a ∨ x ∈ s := by
  induction s with
  | nil => simp [insertS]
  | cons b t ih =>
    unfold insertS
    split
    · simp
    · split
      · rename_i h; subst h; simp
      · simp only [List.mem_cons, ih]
        constructor
        · rintro (h | h | h)
          · exact Or.inr (Or.inl h)
          · exact Or.inl h
          · exact Or.inr (Or.inr h)
        · rintro (h | h | h)
          · exact Or.inr (Or.inl h)
          · exact Or.inl h
          · exact Or.inr (Or.inr h)

theorem insertS_sorted {s : List Bytes} (hs : s.Pairwise (· < ·)) (a : Bytes) : (insertS s a).Pairwise (· < ·) := by
  induction s with
  | nil => simp [insertS]
  | cons b t ih =>
    have ⟨hb, ht⟩ := List.pairwise_cons.mp hs
    unfold insertS
    split
    · rename_i hab
      refine List.pairwise_cons.mpr ⟨?_, hs⟩
      intro x hx
      rcases List.mem_cons.mp hx with e | hx
      · rw [e]; exact hab
      · exact List.lt_trans hab (hb x hx)
    · split
      · exact hs
      · rename_i hnlt hne
        refine List.pairwise_cons.mpr ⟨?_, ih ht⟩
        intro x hx
        rcases mem_insertS.mp hx with e | hx
        · rw [e]
          rcases List.le_iff_lt_or_eq.mp (List.not_lt.mp hnlt) with h | h
          · exact h
          · exact absurd h.symm hne
        · exact hb x hx

theorem mem_specAdd {s args : List Bytes} {x : Bytes} : x ∈ specAdd s args ↔ x ∈ s ∨ x ∈ args := by
  unfold specAdd
  induction args generalizing s with
  | nil => simp
  | cons a t ih =>
    simp only [List.foldl_cons, ih, mem_insertS, List.mem_cons]
    constructor
    · rintro ((h | h) | h)
      · exact Or.inr (Or.inl h)
      · exact Or.inl h
      · exact Or.inr (Or.inr h)
    · rintro (h | h | h)
      · exact Or.inl (Or.inr h)
      · exact Or.inl (Or.inl h)
      · exact Or.inr h

theorem specAdd_sorted {s : List Bytes} (hs : s.Pairwise (· < ·)) (args : List Bytes) :
    (specAdd s args).Pairwise (· < ·) := by
  unfold specAdd
  induction args generalizing s with
  | nil => exact hs
  | cons a t ih => exact ih (insertS_sorted hs a)

theorem mem_specRem {s args : List Bytes} {x : Bytes} : x ∈ specRem s args ↔ x ∈ s ∧ x ∉ args := by
  simp [specRem, List.mem_filter]

theorem specRem_sorted {s : List Bytes} (hs : s.Pairwise (· < ·)) (args : List Bytes) :
    (specRem s args).Pairwise (· < ·) := hs.filter _

variable {κ : Type} [DecidableEq κ] (E : Enc κ)

/-! ### writes commute with the abstraction; replies are the specification's -/

/-- an error reply leaves the store alone -/
theorem sadd_error {m : List KV} {ts : Int} {k : κ} {args : List Bytes} {e : String}
    (h : (sadd E.toEncFns m ts k args).2 = .error e) : (sadd E.toEncFns m ts k args).1 = m := by
  rcases sadd_cases E m ts k args with ⟨e', he⟩ | ⟨_, _, he⟩
  · rw [he]
  · rw [he] at h; cases h

/-- **SADD refines**: the new abstraction is the old one with the arguments inserted, other sets untouched, and the
    reply is the number of members the set gained -/
theorem sadd_refines {m : List KV} (hm : Sorted m) (ts : Int) (k : κ) (args : List Bytes) {n : Nat}
    (h : (sadd E.toEncFns m ts k args).2 = .ok n) :
    (∀ k', abs E (sadd E.toEncFns m ts k args).1 k' = if k' = k then specAdd (abs E m k) args else abs E m k') ∧
    n + (abs E m k).length = (specAdd (abs E m k) args).length := by
  rcases sadd_cases E m ts k args with ⟨e', he⟩ | ⟨_, _, he⟩
  · rw [he] at h; cases h
  · rw [he] at h ⊢
    injection h with h
    have hm' : Sorted (saddStore E m ts k args) := applyW_sorted hm _
    have habs : ∀ k', abs E (saddStore E m ts k args) k' = if k' = k then specAdd (abs E m k) args else abs E m k' := by
      intro k'
      by_cases hk : k' = k
      · subst hk
        rw [if_pos rfl]
        apply sorted_ext (abs_sorted E hm' k') (specAdd_sorted (abs_sorted E hm k') args)
        intro a
        rw [mem_abs_saddStore E hm, mem_specAdd]
        constructor
        · rintro (⟨_, h⟩ | h)
          · exact Or.inr h
          · exact Or.inl h
        · rintro (h | h)
          · exact Or.inr h
          · exact Or.inl ⟨rfl, h⟩
      · rw [if_neg hk]
        apply sorted_ext (abs_sorted E hm' k') (abs_sorted E hm k')
        intro a
        rw [mem_abs_saddStore E hm]
        simp [hk]
    refine ⟨habs, ?_⟩
    have := length_abs_saddStore E hm ts k args
    rw [habs k, if_pos rfl] at this
    rw [this, ← h]; omega

theorem srem_error {m : List KV} {ts : Int} {k : κ} {args : List Bytes} {e : String}
    (h : (srem E.toEncFns m ts k args).2 = .error e) : (srem E.toEncFns m ts k args).1 = m := by
  rcases srem_cases E m ts k args with ⟨_, he⟩ | ⟨e', he⟩ | he
  · rw [he]
  · rw [he]
  · rw [he] at h; cases h

/-- **SREM refines** -/
theorem srem_refines {m : List KV} (hm : Sorted m) (ts : Int) (k : κ) (args : List Bytes) {n : Nat}
    (h : (srem E.toEncFns m ts k args).2 = .ok n) :
    (∀ k', abs E (srem E.toEncFns m ts k args).1 k' = if k' = k then specRem (abs E m k) args else abs E m k') ∧
    n + (specRem (abs E m k) args).length = (abs E m k).length := by
  rcases srem_cases E m ts k args with ⟨hnil, he⟩ | ⟨e', he⟩ | he
  · rw [he] at h ⊢
    injection h with h
    subst hnil
    refine ⟨?_, ?_⟩
    · intro k'
      have : ∀ l : List Bytes, l.filter (fun _ => true) = l := fun l => List.filter_eq_self.mpr (fun _ _ => rfl)
      by_cases hk : k' = k <;> simp [specRem, hk, this]
    · simp [specRem, ← h]
  · rw [he] at h; cases h
  · rw [he] at h ⊢
    injection h with h
    have hm' : Sorted (sremStore E m ts k args) := applyW_sorted hm _
    have habs : ∀ k', abs E (sremStore E m ts k args) k' = if k' = k then specRem (abs E m k) args else abs E m k' := by
      intro k'
      by_cases hk : k' = k
      · subst hk
        rw [if_pos rfl]
        apply sorted_ext (abs_sorted E hm' k') (specRem_sorted (abs_sorted E hm k') args)
        intro a
        rw [mem_abs_sremStore E hm, mem_specRem]
        simp
      · rw [if_neg hk]
        apply sorted_ext (abs_sorted E hm' k') (abs_sorted E hm k')
        intro a
        rw [mem_abs_sremStore E hm]
        simp [hk]
    refine ⟨habs, ?_⟩
    have := length_abs_sremStore E hm ts k args
    rw [habs k, if_pos rfl] at this
    rw [← this, ← h]; omega


/-! ### reads -/

theorem abs_nil_iff {m : List KV} (inv : Inv E m) (k : κ) : abs E m k = [] ↔ Ref.get m (E.metaK k) = none := by
  rw [inv.metaIff k, ← abs_length, List.length_eq_zero_iff]

/-- SCARD = number of members -/
theorem scard_refines {m : List KV} (inv : Inv E m) (k : κ) : scard E.toEncFns m k = (abs E m k).length := by
  rw [inv.size k, abs_length]

theorem smembersN_refines {m : List KV} (inv : Inv E m) (k : κ) (n : Int) (h1 : 1 ≤ n) (h2 : n ≤ (maxBatch : Int)) :
    smembersN E.toEncFns m k n = .ok ((abs E m k).take n.toNat) := by
  unfold smembersN
  rw [if_neg (by omega), if_neg (by omega)]
  split
  · rename_i hg
    rw [(abs_nil_iff E inv k).mpr hg]; simp
  · rename_i v hg
    split
    · rename_i h0
      have : (abs E m k).length = 0 := by rw [← scard_refines E inv k, scard_eq, hg]; exact h0
      rw [List.length_eq_zero_iff.mp this]; simp
    · simp [abs, List.map_take]

/-- SMEMBERS = the members in order (an error above MAX_BATCH_NUM members) -/
theorem smembers_refines {m : List KV} (inv : Inv E m) (k : κ) :
    smembers E.toEncFns m k = if (abs E m k).length ≤ maxBatch then .ok (abs E m k) else .error "batchsize" := by
  unfold smembers
  rw [scard_refines E inv k]
  split
  · rename_i h0
    rw [h0, if_pos (Nat.zero_le _), List.length_eq_zero_iff.mp h0]
  · rename_i h0
    by_cases hle : (abs E m k).length ≤ maxBatch
    · rw [if_pos hle, smembersN_refines E inv k _ (by omega) (by omega)]
      simp
    · rw [if_neg hle]
      unfold smembersN
      rw [if_pos (by omega)]

/-- SRANDMEMBER count = the first `count` members -/
theorem srandmember_refines {m : List KV} (inv : Inv E m) (k : κ) (n : Int) (h1 : 1 ≤ n) (h2 : n ≤ (maxBatch : Int)) :
    srandmember E.toEncFns m k n = .ok ((abs E m k).take n.toNat) := smembersN_refines E inv k n h1 h2

/-- SISMEMBER -/
theorem sismember_refines {m : List KV} (inv : Inv E m) (k : κ) (a : Bytes) (ha : okSub a = true) :
    sismember E.toEncFns m k a = .ok (if a ∈ abs E m k then 1 else 0) := by
  unfold sismember
  split
  · rename_i hg
    have : Ref.get m (E.metaK k) = none := by
      cases h : Ref.get m (E.metaK k) with
      | none => rfl
      | some v => rw [h] at hg; cases hg
    rw [(abs_nil_iff E inv k).mpr this]; rfl
  · rw [if_neg (by simp [ha])]
    by_cases hin : a ∈ abs E m k
    · rw [if_pos hin, if_pos ((mem_abs E inv.sorted k a).mp hin)]
    · rw [if_neg hin, if_neg (fun h => hin ((mem_abs E inv.sorted k a).mpr h))]

/-- SKEYEXIST -/
theorem skeyexist_refines {m : List KV} (inv : Inv E m) (k : κ) :
    skeyexist E.toEncFns m k = if abs E m k = [] then 0 else 1 := by
  unfold skeyexist
  by_cases h : abs E m k = []
  · rw [if_pos h, (abs_nil_iff E inv k).mp h]; rfl
  · rw [if_neg h]
    cases hg : Ref.get m (E.metaK k) with
    | none => exact absurd ((abs_nil_iff E inv k).mpr hg) h
    | some v => rfl

/-! ### SPOP, SCLEAR -/

theorem specRem_take {s : List Bytes} (hs : s.Pairwise (· < ·)) (n : Nat) : specRem s (s.take n) = s.drop n := by
  apply sorted_ext (specRem_sorted hs _) (hs.sublist (List.drop_sublist n s))
  intro x
  rw [mem_specRem]
  have hnd : (s.take n ++ s.drop n).Nodup := by rw [List.take_append_drop]; exact sorted_nodup hs
  have hdis := (List.nodup_append.mp hnd).2.2
  constructor
  · rintro ⟨hx, hnt⟩
    rw [← List.take_append_drop n s, List.mem_append] at hx
    rcases hx with h | h
    · exact absurd h hnt
    · exact h
  · intro hx
    exact ⟨List.mem_of_mem_drop hx, fun ht => hdis x ht x hx rfl⟩

theorem srem_ok {m : List KV} {ts : Int} {k : κ} {args : List Bytes} (hlen : args.length ≤ maxBatch)
    (hok : ∀ a ∈ args, okSub a = true) : ∃ n, (srem E.toEncFns m ts k args).2 = .ok n := by
  rcases srem_cases E m ts k args with ⟨_, he⟩ | ⟨e, he⟩ | he
  · exact ⟨0, by rw [he]⟩
  · exfalso
    unfold srem at he
    split at he
    · cases he
    · split at he
      · omega
      · dsimp only at he
        split at he
        · rename_i hall
          have : (dedup args).all okSub = true := List.all_eq_true.mpr (fun a ha => hok a (mem_dedup.mp ha))
          simp [this] at hall
        · exact absurd (congrArg Prod.snd he) (by simp)
  · exact ⟨_, by rw [he]⟩

/-- **SPOP refines**: it answers the first `count` members and removes exactly those -/
theorem spop_refines {m : List KV} (inv : Inv E m) (ts : Int) (k : κ) (count : Int)
    (h1 : 1 ≤ count) (h2 : count ≤ (maxBatch : Int)) :
    (spop E.toEncFns m ts k count).2 = .ok ((abs E m k).take count.toNat) ∧
    ∀ k', abs E (spop E.toEncFns m ts k count).1 k' = if k' = k then (abs E m k).drop count.toNat else abs E m k' := by
  have hN := smembersN_refines E inv k count h1 h2
  have hlen : ((abs E m k).take count.toNat).length ≤ maxBatch := by
    rw [List.length_take]; omega
  have hok : ∀ a ∈ (abs E m k).take count.toNat, okSub a = true := fun a ha => inv.subOk k a (List.mem_of_mem_take ha)
  obtain ⟨n, hn⟩ := srem_ok E (m := m) (ts := ts) (k := k) hlen hok
  have href := (srem_refines E inv.sorted ts k _ hn).1
  unfold spop
  rw [hN]
  dsimp only
  split
  · rename_i m' r heq
    refine ⟨rfl, ?_⟩
    intro k'
    have : m' = (srem E.toEncFns m ts k (List.take count.toNat (abs E m k))).1 := by rw [heq]
    rw [this, href k', specRem_take (abs_sorted E inv.sorted k)]
  · rename_i m' e heq
    rw [heq] at hn; cases hn

omit [DecidableEq κ] in
/-- SPOP outside 1 … MAX_BATCH_NUM answers an error and leaves the store alone -/
theorem spop_error {m : List KV} (ts : Int) (k : κ) (count : Int) (h : count < 1 ∨ (maxBatch : Int) < count) :
    ∃ e, spop E.toEncFns m ts k count = (m, .error e) := by
  unfold spop smembersN
  by_cases h2 : count > (maxBatch : Int)
  · rw [if_pos h2]; exact ⟨_, rfl⟩
  · rw [if_neg h2, if_pos (by omega)]; exact ⟨_, rfl⟩

/-- **SCLEAR refines**: reply 1 iff the set had members; afterwards it has none; other sets untouched -/
theorem sclear_refines {m : List KV} (inv : Inv E m) (k : κ) :
    (sclear E.toEncFns m k).2 = (if abs E m k = [] then 0 else 1) ∧
    ∀ k', abs E (sclear E.toEncFns m k).1 k' = if k' = k then [] else abs E m k' := by
  have hs := inv.sorted
  have hnil_case : abs E m k = [] → (sclear E.toEncFns m k).1 = m →
      ∀ k', abs E (sclear E.toEncFns m k).1 k' = if k' = k then [] else abs E m k' := by
    intro h0 he k'
    rw [he]
    by_cases hk : k' = k
    · subst hk; rw [if_pos rfl, h0]
    · rw [if_neg hk]
  unfold sclear
  split
  · rename_i hg
    have h0 := (abs_nil_iff E inv k).mpr hg
    refine ⟨by rw [if_pos h0], ?_⟩
    have := hnil_case h0 (by unfold sclear; rw [hg])
    unfold sclear at this; rw [hg] at this; exact this
  · rename_i v hg
    split
    · rename_i hz
      have hl : (abs E m k).length = 0 := by rw [← scard_refines E inv k, scard_eq, hg]; exact hz
      have h0 := List.length_eq_zero_iff.mp hl
      refine ⟨by rw [if_pos h0], ?_⟩
      have := hnil_case h0 (by unfold sclear; rw [hg]; simp [hz])
      unfold sclear at this; rw [hg] at this; simp only [hz, ↓reduceIte] at this; exact this
    · rename_i hz
      have hne : abs E m k ≠ [] := by
        intro h0
        have := (abs_nil_iff E inv k).mp h0
        rw [hg] at this; cases this
      refine ⟨by rw [if_neg hne], ?_⟩
      intro k'
      have hst : applyW m (WOp.del (E.metaK k) ::
          (if E.sizeOf v > rangeDeleteNum then [WOp.delRange (E.start k) (E.stop k)]
           else (scan m (E.start k) (E.stop k)).map (fun p => WOp.del p.1))) =
          sclearStore E m k (decide (E.sizeOf v > rangeDeleteNum)) := by
        simp only [sclearStore, clearOps, decide_eq_true_eq]
      dsimp only
      rw [hst]
      by_cases hk : k' = k
      · subst hk; rw [if_pos rfl, abs_sclearStore_self E hs]
      · rw [if_neg hk]
        have hs' : Sorted (sclearStore E m k (decide (E.sizeOf v > rangeDeleteNum))) := applyW_sorted hs _
        exact abs_congr E hs hs' k' (fun a => by rw [get_mem_sclearStore E hs]; simp [hk])

/-! ### leader-side pre-checks agree with the specification -/

theorem specAdd_of_mem {s : List Bytes} (hs : s.Pairwise (· < ·)) {args : List Bytes} (h : ∀ a ∈ args, a ∈ s) :
    specAdd s args = s := by
  apply sorted_ext (specAdd_sorted hs args) hs
  intro x
  rw [mem_specAdd]
  constructor
  · rintro (h' | h')
    · exact h'
    · exact h x h'
  · exact Or.inl

theorem specRem_of_not_mem {s : List Bytes} {args : List Bytes} (h : ∀ a ∈ args, a ∉ s) : specRem s args = s := by
  unfold specRem
  apply List.filter_eq_self.mpr
  intro x hx
  simp only [Bool.not_eq_true', List.contains_eq_mem, decide_eq_false_iff_not]
  exact fun hin => h x hin hx

/-- SADD answered by the leader (`local:int:0`): every argument is a member already, so the specification's SADD
    changes nothing and answers 0 too -/
theorem saddPre_sound {m : List KV} (inv : Inv E m) (k : κ) (args : List Bytes) (n : Nat)
    (h : saddPre E.toEncFns m k args = some (.ok n)) : n = 0 ∧ specAdd (abs E m k) args = abs E m k := by
  have key : ∀ args, saddPre E.toEncFns m k args = some (.ok n) → n = 0 ∧ ∀ a ∈ args, a ∈ abs E m k := by
    intro args
    induction args with
    | nil => intro h; simp only [saddPre, Option.some.injEq, Except.ok.injEq] at h; exact ⟨h.symm, fun a ha => by cases ha⟩
    | cons a t ih =>
      intro h
      unfold saddPre at h
      split at h
      · cases h
      · rename_i hsub
        have hsub' : okSub a = true := by simpa using hsub
        rw [sismember_refines E inv k a hsub'] at h
        by_cases hin : a ∈ abs E m k
        · rw [if_pos hin] at h
          obtain ⟨h0, hall⟩ := ih h
          exact ⟨h0, fun x hx => by
            rcases List.mem_cons.mp hx with e | hx
            · rw [e]; exact hin
            · exact hall x hx⟩
        · rw [if_neg hin] at h; cases h
  obtain ⟨h0, hall⟩ := key args h
  exact ⟨h0, specAdd_of_mem (abs_sorted E inv.sorted k) hall⟩

/-- SREM answered by the leader (`local:int:0`): no argument is a member -/
theorem sremPre_sound {m : List KV} (inv : Inv E m) (k : κ) (args : List Bytes) (r : Out Nat)
    (h : sremPre E.toEncFns m k args = some r) : r = .ok 0 ∧ specRem (abs E m k) args = abs E m k := by
  unfold sremPre at h
  split at h
  · rename_i hall
    injection h with h
    refine ⟨h.symm, specRem_of_not_mem ?_⟩
    intro a ha hin
    have := List.all_eq_true.mp hall a ha
    have hsub := inv.subOk k a hin
    rw [sismember_refines E inv k a hsub, if_pos hin] at this
    cases this
  · cases h

/-- SPOP answered by the leader: the set is empty -/
theorem spopPre_sound {m : List KV} (inv : Inv E m) (k : κ) (h : spopPre E.toEncFns m k = true) : abs E m k = [] := by
  unfold spopPre at h
  rw [scard_refines E inv k] at h
  exact List.length_eq_zero_iff.mp (by simpa using h)

/-! ### every reachable store satisfies the invariant -/

/-- the write commands of the model -/
inductive Cmd (κ : Type)
  | sadd (ts : Int) (k : κ) (args : List Bytes)
  | srem (ts : Int) (k : κ) (args : List Bytes)
  | spop (ts : Int) (k : κ) (count : Int)
  | sclear (k : κ)

def exec (m : List KV) : Cmd κ → List KV
  | .sadd ts k args => (sadd E.toEncFns m ts k args).1
  | .srem ts k args => (srem E.toEncFns m ts k args).1
  | .spop ts k count => (spop E.toEncFns m ts k count).1
  | .sclear k => (sclear E.toEncFns m k).1

def run (m : List KV) (cs : List (Cmd κ)) : List KV := cs.foldl (exec E) m

/-- members a command may add -/
def adds : Cmd κ → Nat
  | .sadd _ _ args => args.length
  | _ => 0

theorem inv_empty (hcap : 0 < E.cap) : Inv E [] :=
  ⟨trivial, fun _ => rfl, fun _ => by simp [Ref.get, scan], fun _ => by simpa [scan] using hcap,
   fun _ _ h => by simp [abs, scan] at h⟩

theorem length_filter_not_le (s args : List Bytes) : (specRem s args).length ≤ s.length := List.length_filter_le _ _

/-- one command: the invariant survives and no set grows by more than the command's arguments -/
theorem inv_exec {m : List KV} (inv : Inv E m) (b : Nat) (hb : ∀ k, (abs E m k).length ≤ b) (c : Cmd κ)
    (hfit : b + adds c < E.cap) :
    Inv E (exec E m c) ∧ ∀ k, (abs E (exec E m c) k).length ≤ b + adds c := by
  cases c with
  | sadd ts k args =>
    refine ⟨inv_sadd E inv ts k args (by have := hb k; simp only [adds] at hfit; omega), ?_⟩
    intro k'
    simp only [exec, adds]
    cases hr : (sadd E.toEncFns m ts k args).2 with
    | error e => rw [sadd_error E hr]; have := hb k'; omega
    | ok n =>
      obtain ⟨habs, hn⟩ := sadd_refines E inv.sorted ts k args hr
      rw [habs k']
      by_cases hk : k' = k
      · subst hk
        rw [if_pos rfl]
        rcases sadd_cases E m ts k' args with ⟨e', he⟩ | ⟨_, _, he⟩
        · rw [he] at hr; cases hr
        · rw [he] at hr
          injection hr with hr
          have := newOf_length_le E m k' args
          have := hb k'
          omega
      · rw [if_neg hk]; have := hb k'; omega
  | srem ts k args =>
    refine ⟨inv_srem E inv ts k args, ?_⟩
    intro k'
    simp only [exec, adds]
    cases hr : (srem E.toEncFns m ts k args).2 with
    | error e => rw [srem_error E hr]; have := hb k'; omega
    | ok n =>
      rw [(srem_refines E inv.sorted ts k args hr).1 k']
      have := hb k'
      by_cases hk : k' = k
      · subst hk; rw [if_pos rfl]; have := length_filter_not_le (abs E m k') args; omega
      · rw [if_neg hk]; omega
  | spop ts k count =>
    refine ⟨inv_spop E inv ts k count, ?_⟩
    intro k'
    simp only [exec, adds]
    have := hb k'
    rcases spop_store E m ts k count with h | ⟨vals, _, h⟩
    · rw [h]; omega
    · rw [h]
      cases hr : (srem E.toEncFns m ts k vals).2 with
      | error e => rw [srem_error E hr]; omega
      | ok n =>
        rw [(srem_refines E inv.sorted ts k vals hr).1 k']
        by_cases hk : k' = k
        · subst hk; rw [if_pos rfl]; have := length_filter_not_le (abs E m k') vals; omega
        · rw [if_neg hk]; omega
  | sclear k =>
    refine ⟨inv_sclear E inv k, ?_⟩
    intro k'
    simp only [exec, adds]
    rw [(sclear_refines E inv k).2 k']
    have := hb k'
    by_cases hk : k' = k
    · rw [if_pos hk]; simp
    · rw [if_neg hk]; omega

theorem inv_run {m : List KV} (inv : Inv E m) (b : Nat) (hb : ∀ k, (abs E m k).length ≤ b) (cs : List (Cmd κ))
    (hfit : b + (cs.map adds).sum < E.cap) : Inv E (run E m cs) := by
  induction cs generalizing m b with
  | nil => exact inv
  | cons c t ih =>
    simp only [List.map_cons, List.sum_cons] at hfit
    obtain ⟨inv', hb'⟩ := inv_exec E inv b hb c (by omega)
    exact ih inv' (b + adds c) hb' (by omega)

/-- **the invariant holds after every sequence of set writes from the empty store**, as long as the total number
    of SADD arguments stays below the capacity of the size field (2^63 for the real codec) -/
theorem inv_reachable (cs : List (Cmd κ)) (hfit : (cs.map adds).sum < E.cap) : Inv E (run E [] cs) :=
  inv_run E (inv_empty E (by omega)) 0 (fun _ => by simp [abs, scan]) cs (by omega)

end Z.SetRef
