/-
  Executable storage-level model of the BITMAP type (core only) — rockredis/t_bitmap.go (v2 layout), with the
  legacy "bitmap inside a KV string" paths of t_kv.go that are still reachable (`bitGetOld`, `bitCountOld`, the
  conversion at the head of `BitSetV2`), over the sorted reference store `Z.Ref` with the REAL key codec `Z.Codec`.

  Layout (`Pol.compact` = wait_compact + value_header_v1, `Pol.local` = local_deletion):
  * meta key `BitmapMetaType ‖ "meta:" ‖ table:key` ↦ [13-byte value header (compact only)] ‖ BE64(bmSize) ‖ BE64(ts)
    (`updateBitmapMeta`); `bmSize` = largest `segment index + stored segment length` reached by the generation (it never
    shrinks inside a generation; a new generation starts from 0: `getBitmapMeta` returns the size of an expired meta with
    `ok = false`, `BitSetV2` resets it);
  * one key per segment of `bitmapSegBytes` bytes: `BitmapType ‖ len(table) ‖ table ‖ ':' ‖ memcmp(verKey, int ':', int index)`
    ↦ the segment's bytes, `index` = BYTE index of the start of the segment (`(offset / bitmapSegBits) * bitmapSegBytes`),
    `verKey` = `encodeVerKey(key, generation)` under compact, the key part itself under local;
    a stored segment is as long as the growth rule made it (`len`, then doubling, or `byteOffset + 1`; never shrunk,
    may exceed `bitmapSegBytes` after a doubling — the bytes above 1023 are zero and unreachable for GETBIT);
    an all-zero segment is kept; SETBIT … 0 on a missing key / segment WRITES the (zero) segment and the meta;
  * bit `offset` = bit `7 - offset % 8` of byte `(offset / 8) % 1024` of the segment;
  * BITCLEAR deletes the meta only under compact (the segments of the dead generation stay until compaction) and the meta plus
    the segment range under local (one DeleteRange above RangeDeleteNum segments, else what the iterator finds).
  Write paths take the LOG timestamp, reads the read time `now` (the wall clock in the code).
  Every decision expression is the one REGENERATED from the source (`Gen.Bit`).

  The model has NO panic outcome: the two Go panics the code had (BITCOUNT slice bounds, `panic("bitmap size mismatch")`
  in the legacy conversion of SETBIT) were repaired in /repo (fixes d794a70, 0ad0963) and the model follows the repaired
  code — `bmSize = 0` for an absent / expired bitmap (`convert`), the loop of `BitCountV2` stops behind the segment of
  `end` and clamps an inverted cut (`countLoop`, `segCount`, over the regenerated `Gen.bitCountBehind` / `Gen.bitCountInverted`).
  The size check `if int64(len(v)) != bmSize { panic }` of the conversion is still in the code and is dead:
  `chunks_total` (BitInv.lean) — the chunk lengths add up to `len(v)`, and `bmSize` starts from 0.
  `bitcountSpec` is the answer C09 prescribes (point lookups); `bitcount` is what the code answers.

  Domain (enforced by the driver, `keyOf`): table name and key part non-empty, key within MaxKeySize.
  Not modelled: table key counter (`IncrTableKeyCount`), slow log / metrics, the time index BEXPIRE writes under
  local_deletion (`BEXPIRE` is outside the model for `Pol.local`).
-/
import ZanVerif.Data.CollBase
import ZanVerif.Data.Header
import ZanVerif.Data.KVExec
import ZanVerif.Gen.Bit

namespace Z.BitExec
abbrev Bytes := List UInt8
abbrev KV := Bytes × Bytes
open Z.Ref (get put del scan)
open Z.Coll (WOp applyW)
open Z.Codec
open Z.Header

inductive Pol
  | compact
  | «local»
  deriving DecidableEq, Repr

/-- value or error class of protocol `data` -/
inductive BOut (α : Type)
  | ok (a : α)
  | err (cls : String)
  deriving DecidableEq, Repr

/-! ### keys -/

/-- `bitEncodeMetaKey(table:key)` -/
def metaK (table rk : Bytes) : Bytes := metaKey Gen.cBitmapMetaType (packRedisKey table rk)

def sepI : Int := (Gen.cCollStartSep.toNat : Int)

/-- `encodeBitmapKey(table, verKey, index)` -/
def segK (table vk : Bytes) (index : Int) : Bytes :=
  tablePrefix Gen.cBitmapType table ++ memcmpEncode [.bytes vk, .int sepI, .int index]

/-- `encodeBitmapStopKey(table, verKey)` -/
def stopK (table vk : Bytes) : Bytes :=
  tablePrefix Gen.cBitmapType table ++ memcmpEncode [.bytes vk, .int (sepI + 1), .int 0]

/-- `expiration.encodeToVersionKey(BitmapType, h, key)` -/
def vkey (pol : Pol) (rk : Bytes) (ver : Int) : Bytes :=
  match pol with
  | .compact => verKey rk ver
  | .local => rk

/-- the index a segment key carries: its last 8 bytes, sign bit flipped (`decodeBitmapKey`, third value: `DecodeInt`).
    Written as a subtraction on `Int`: the form `(u + 2^63) % 2^64` makes the KERNEL peel 2^63 successors when a proof term
    forces it to reduce the loop of BITCOUNT on an open store (deep recursion / minutes per lemma). -/
def idxOf (k : Bytes) : Int := (fromBE (k.drop (k.length - 8)) : Int) - 9223372036854775808

/-- `encodeKVKey(table:key)` -/
def strK (table rk : Bytes) : Bytes := kvKey (packRedisKey table rk)

/-! ### header of the meta value -/

/-- `expiration.decodeRawValue(BitmapType, raw)` -/
def decodeMeta (pol : Pol) (raw : Option Bytes) : Res Hdr :=
  match pol with
  | .compact => decodeOpt raw
  | .local => .ok ⟨0, 0, raw⟩

/-- `headerMetaValue.encodeWithData` (header version 0 under local_deletion: no header bytes) -/
def encodeMeta (pol : Pol) (h : Hdr) : Bytes :=
  match pol with
  | .compact => encode h
  | .local => h.user.getD []

def expiredAt (pol : Pol) (h : Hdr) (ts : Int) : Bool :=
  match pol with
  | .compact => isExpired h ts
  | .local => false

/-- `expiration.renewOnExpired` -/
def renewH (pol : Pol) (h : Hdr) (ts : Int) : Hdr :=
  match pol with
  | .compact => renew h ts
  | .local => h

inductive MView
  | bad (e : DErr)
  | mv (h : Hdr) (expired : Bool)
  deriving DecidableEq, Repr

/-- `collHeaderMeta(ts, BitmapType, key)` -/
def mview (pol : Pol) (m : List KV) (ts : Int) (table rk : Bytes) : MView :=
  match get m (metaK table rk) with
  | none => .mv fresh false
  | some raw =>
    match decodeMeta pol (some raw) with
    | .err e => .bad e
    | .ok h => .mv h (expiredAt pol h ts)

def hdrErr : DErr → String
  | .hdrMeta => "header"
  | .hdrVersion => "other:invalid-header-version"

/-- `collVerKeyInfo.IsNotExistOrExpired` -/
def notExist (h : Hdr) (expired : Bool) : Bool := expired || h.user.isNone

inductive BMeta
  | err (cls : String)
  | mk (h : Hdr) (expired : Bool) (size : Int) (ok : Bool)
  deriving DecidableEq, Repr

/-- `getBitmapMeta`: header, size, `ok` = "a v2 bitmap exists and is not expired"; the size of an EXPIRED meta is
    returned too (with ok = false) -/
def bmeta (pol : Pol) (m : List KV) (ts : Int) (table rk : Bytes) : BMeta :=
  match mview pol m ts table rk with
  | .bad e => .err (hdrErr e)
  | .mv h ex =>
    let ud := h.user.getD []
    if ud.length = 0 then .mk h ex 0 false
    else if ud.length < 16 then .err "other:invalid-bitmap-meta"
    else .mk h ex (ofU64 (fromBE (ud.take 8))) (!ex)

/-- `updateBitmapMeta`: user data of the meta -/
def metaUser (size ts : Int) : Bytes := be64 (toU64 size) ++ be64 (toU64 ts)

/-! ### bits and bytes -/

def testBit (b : UInt8) (pos : Nat) : Bool := b.toNat / 2 ^ pos % 2 == 1

/-- `byteVal &= ^(1 << bit); byteVal |= uint8(on&1) << bit` -/
def setBitTo (b : UInt8) (pos : Nat) (on : Bool) : UInt8 :=
  let cleared := if testBit b pos then b.toNat - 2 ^ pos else b.toNat
  UInt8.ofNat (if on then cleared + 2 ^ pos else cleared)

/-- `7 - uint8(uint32(offset)&0x7)` -/
def bitPos (offset : Int) : Nat := (Gen.bitBitPos offset).toNat

def popcount8 (b : UInt8) : Nat := ((List.range 8).filter (testBit b)).length

/-- `popcountBytes` -/
def popcount (v : Bytes) : Nat := (v.map popcount8).sum

/-- the growth rule of `bitSetToNew`: the segment after `append(bmv, make([]byte, expandSize)...)` -/
def grow (bmv : Bytes) (byteOff : Nat) : Bytes :=
  if Gen.bitGrowNeeded byteOff bmv.length then
    bmv ++ List.replicate
      (if Gen.bitGrowFar byteOff bmv.length then Gen.bitGrowFarSize byteOff bmv.length else Gen.bitGrowDefault byteOff bmv.length).toNat 0
  else bmv

/-! ### the legacy string of the same name -/

/-- `KVGet(key)` at the read time: the string value a reader sees (`none` = absent or expired) -/
def strGet (pol : Pol) (m : List KV) (now : Int) (table rk : Bytes) : BOut (Option Bytes) :=
  match pol with
  | .compact =>
    match Z.KVExec.view m now (packRedisKey table rk) with
    | .absent => .ok none
    | .bad _ e => .err (hdrErr e)
    | .val _ _ u ex => .ok (if ex then none else some u)
  | .local =>
    match get m (strK table rk) with
    | none => .ok none
    | some raw => .ok (some (Z.KVExec.stripTs raw))

/-- `KVExists(key)` for one key -/
def strExists (pol : Pol) (m : List KV) (now : Int) (table rk : Bytes) : BOut Int :=
  match pol with
  | .compact =>
    match Z.KVExec.existsOne (Z.KVExec.view m now (packRedisKey table rk)) with
    | (n, none) => .ok n
    | (_, some e) => .err (match e with | .header => "header" | _ => "other:invalid-header-version")
  | .local => .ok (if (get m (strK table rk)).isSome then 1 else 0)

/-- the segments the conversion writes: `for i := 0; i < len(v); i += bitmapSegBytes` -/
def chunks : Nat → Bytes → Int → List (Int × Bytes)
  | 0, _, _ => []
  | fuel + 1, v, i =>
    if v.isEmpty then [] else (i, v.take Gen.cBitmapSegBytes.toNat) :: chunks fuel (v.drop Gen.cBitmapSegBytes.toNat) (i + Gen.cBitmapSegBytes)

/-- the head of `BitSetV2` when `getBitmapMeta` said `!ok`: the size starts from 0 (`bmSize = 0`, fix 0ad0963); a stored
    string of the same name is cut into segments (written under the UNVERSIONED key part, also under compact, where no
    reader looks) and deleted, the size becomes its length; the write batch is committed. Result: store, size. -/
def convert (m : List KV) (table rk : Bytes) : List KV × Int :=
  match get m (strK table rk) with
  | none => (m, 0)
  | some v =>
    if v.length < Gen.cTsLen then (m, 0) else
    let body := v.take (v.length - Gen.cTsLen)
    (applyW m (((chunks (body.length + 1) body 0).map (fun c => WOp.put (segK table rk c.1) c.2)) ++ [WOp.del (strK table rk)]),
     (body.length : Int))

/-! ### writes (log time `ts`) -/

/-- `keyInfo.OldHeader` after `prepareCollKeyForWrite`: a dead bitmap (absent or expired) starts a new generation -/
def wHdr (pol : Pol) (h : Hdr) (ex : Bool) (ts : Int) : Hdr := if notExist h ex then renewH pol h ts else h

/-- `byteOffset := int((offset / 8) % bitmapSegBytes)` -/
def byteOffOf (offset : Int) : Nat := (Gen.bitSetByteOff offset).toNat

/-- the bit SETBIT answers: read from the (grown) segment BEFORE the modification -/
def oldBitOf (bmv : Bytes) (offset : Int) : Bool :=
  testBit ((grow bmv (byteOffOf offset)).getD (byteOffOf offset) 0) (bitPos offset)

/-- the segment SETBIT writes -/
def segAfter (bmv : Bytes) (offset on : Int) : Bytes :=
  (grow bmv (byteOffOf offset)).set (byteOffOf offset)
    (setBitTo ((grow bmv (byteOffOf offset)).getD (byteOffOf offset) 0) (bitPos offset) (on == 1))

/-- the size SETBIT writes: raised only when the segment had to grow and now ends behind the old size -/
def sizeAfter (bmv : Bytes) (offset : Int) (size1 : Int) : Int :=
  if Gen.bitGrowNeeded (byteOffOf offset) bmv.length &&
      Gen.bitSizeGrows (grow bmv (byteOffOf offset)).length (Gen.bitSetIndex offset) size1
  then Gen.bitSizeNew (grow bmv (byteOffOf offset)).length (Gen.bitSetIndex offset) else size1

/-- store and size `bitSetToNew` starts from: a live v2 bitmap as it is; otherwise size 0 and the legacy conversion -/
def startOf (m : List KV) (table rk : Bytes) (size0 : Int) (ok : Bool) : List KV × Int :=
  if ok then (m, size0) else convert m table rk

/-- `BitSetV2` -/
def setbit (pol : Pol) (m : List KV) (ts : Int) (table rk : Bytes) (offset on : Int) : List KV × BOut Int :=
  if Gen.bitValueBad on then (m, .err "bitvalue") else
  if Gen.bitOffsetBad offset then (m, .err "bitoffset") else
  match bmeta pol m ts table rk with
  | .err e => (m, .err e)
  | .mk h ex size0 ok =>
    -- bitSetToNew; prepareCollKeyForWrite sees the same meta (the conversion does not touch it)
    let m1 := (startOf m table rk size0 ok).1
    let size1 := (startOf m table rk size0 ok).2
    let h' := wHdr pol h ex ts
    let bmk := segK table (vkey pol rk h'.ver) (Gen.bitSetIndex offset)
    let bmv := (get m1 bmk).getD []
    (applyW m1 [.put bmk (segAfter bmv offset on),
       .put (metaK table rk) (encodeMeta pol { h' with user := some (metaUser (sizeAfter bmv offset size1) ts) })],
     .ok (if oldBitOf bmv offset then 1 else 0))

/-- the size `BitClear` reads from the meta: `if len(meta) >= 8 { bmSize, _ = Int64(meta[:8], nil) }` -/
def clearSize (h : Hdr) : Int :=
  let ud := h.user.getD []
  if ud.length ≥ 8 then ofU64 (fromBE (ud.take 8)) else 0

/-- `BitClear`: under wait_compact only the meta is deleted; under local_deletion also the segments
    (one DeleteRange above RangeDeleteNum segments, else single deletes of what the iterator finds) -/
def bitclear (pol : Pol) (m : List KV) (ts : Int) (table rk : Bytes) : List KV × BOut Int :=
  match mview pol m ts table rk with
  | .bad e => (m, .err (hdrErr e))
  | .mv h ex =>
    let bmSize := clearSize h
    if ex || bmSize == 0 then (m, .ok 0) else
    match pol with
    | .compact => (applyW m [.del (metaK table rk)], .ok 1)
    | .local =>
      let vk := vkey pol rk h.ver
      (applyW m (WOp.del (metaK table rk) ::
        (if Int.tdiv bmSize Gen.cBitmapSegBytes > (Z.Coll.rangeDeleteNum : Int) then [WOp.delRange (segK table vk 0) (stopK table vk)]
         else (scan m (segK table vk 0) (stopK table vk)).map (fun p => WOp.del p.1))), .ok 1)

/-- `collExpire` / `collPersist` through `compactExpiration.ExpireAt` (compact only) -/
def bexpireAt (m : List KV) (ts : Int) (table rk : Bytes) (when : Int) : List KV × BOut Int :=
  match mview .compact m ts table rk with
  | .bad e => (m, .err (hdrErr e))
  | .mv h ex =>
    if notExist h ex then (m, .ok 0) else
    match rawExpireAt (encode h) when with
    | .err .overflow => (m, .err "expoverflow")
    | .err (.dec e) => (m, .err (hdrErr e))
    | .ok raw' => (put m (metaK table rk) raw', .ok 1)

def bexpire (m : List KV) (ts : Int) (table rk : Bytes) (dur : Int) : List KV × BOut Int :=
  bexpireAt m ts table rk (dur + Int.tdiv ts 1000000000)

def bpersist (pol : Pol) (m : List KV) (ts : Int) (table rk : Bytes) : List KV × BOut Int :=
  match pol with
  | .compact => bexpireAt m ts table rk 0
  | .local =>
    -- `localExpiration.ExpireAt(…, 0)`: errChangeTTLNotSupported for an existing bitmap
    match mview .local m ts table rk with
    | .bad e => (m, .err (hdrErr e))
    | .mv h ex => if notExist h ex then (m, .ok 0) else (m, .err "ttlunsupported")

/-! ### reads (read time `now`) -/

/-- `bitGetOld`: the bit of the string value -/
def bitGetOld (pol : Pol) (m : List KV) (now : Int) (table rk : Bytes) (offset : Int) : BOut Int :=
  match strGet pol m now table rk with
  | .err e => .err e
  | .ok v =>
    let v := v.getD []
    let byteOff := ((offset % 4294967296) / 8).toNat            -- uint32(offset) >> 3
    if byteOff ≥ v.length then .ok 0 else .ok (if testBit (v.getD byteOff 0) (bitPos offset) then 1 else 0)

/-- `BitGetV2` -/
def getbit (pol : Pol) (m : List KV) (now : Int) (table rk : Bytes) (offset : Int) : BOut Int :=
  match bmeta pol m now table rk with
  | .err e => .err e
  | .mk h _ _ ok =>
    if !ok then bitGetOld pol m now table rk offset else
    match get m (segK table (vkey pol rk h.ver) (Gen.bitGetIndex offset)) with
    | none => .ok 0
    | some v =>
      let byteOff := (Gen.bitGetByteOff offset).toNat
      if byteOff ≥ v.length then .ok 0 else .ok (if testBit (v.getD byteOff 0) (bitPos offset) then 1 else 0)

/-- `bitCountOld` -/
def bitCountOld (pol : Pol) (m : List KV) (now : Int) (table rk : Bytes) (start stop : Int) : BOut Int :=
  match strGet pol m now table rk with
  | .err e => .err e
  | .ok v =>
    let v := v.getD []
    let (s, e) := Gen.getRange start stop v.length
    if s > e then .ok 0 else .ok (popcount ((v.drop s.toNat).take (e - s + 1).toNat))

/-- the cut points `(byteStart, byteEnd)` of one iteration of the loop of `BitCountV2` -/
def cutOf (s e : Int) (idx : Int) (v : Bytes) : Nat × Nat :=
  (if idx = Gen.bitCountStartI s * Gen.cBitmapSegBytes then (Gen.bitCountByteStart s).toNat else 0,
   if idx = Gen.bitCountStopI e * Gen.cBitmapSegBytes then min (Gen.bitCountByteEnd e).toNat v.length else v.length)

/-- one iteration of the loop of `BitCountV2`: `if byteStart > byteEnd { byteStart = byteEnd }` (fix d794a70: an inverted cut
    counts nothing), then `popcountBytes(bmv[byteStart:byteEnd])` -/
def segCount (s e : Int) (idx : Int) (v : Bytes) : Nat :=
  let bs := if Gen.bitCountInverted (cutOf s e idx v).1 (cutOf s e idx v).2 then (cutOf s e idx v).2 else (cutOf s e idx v).1
  popcount ((v.drop bs).take ((cutOf s e idx v).2 - bs))

/-- the loop of `BitCountV2`: the stored segments from the start segment on, in key order, until the first one behind the
    segment of `end` (`if index > int64(stopI)*bitmapSegBytes { break }`, fix d794a70) -/
def countLoop (s e : Int) (L : List KV) : Nat :=
  ((L.takeWhile (fun p => !Gen.bitCountBehind (idxOf p.1) (Gen.bitCountStopI e))).map (fun p => segCount s e (idxOf p.1) p.2)).sum

/-- `BitCountV2` -/
def bitcount (pol : Pol) (m : List KV) (now : Int) (table rk : Bytes) (start stop : Int) : BOut Int :=
  match bmeta pol m now table rk with
  | .err e => .err e
  | .mk h _ size ok =>
    if !ok then bitCountOld pol m now table rk start stop else
    let (s, e) := Gen.getRange start stop size
    if s > e then .ok 0 else
    let vk := vkey pol rk h.ver
    .ok (countLoop s e (scan m (segK table vk (Gen.bitCountStartI s * Gen.cBitmapSegBytes)) (stopK table vk)) : Nat)

/-! ### BITCOUNT as C09 prescribes it -/

/-- Σ_{j ∈ [a, a+n)} f j -/
def sumOver (f : Nat → Nat) (a n : Nat) : Nat := ((List.range' a n).map f).sum

/-- the set bits of the bytes `[s, e]` (global byte indexes) that lie in the segment starting at byte `idx`
    (only the first `bitmapSegBytes` bytes of a stored segment are addressable) -/
def segSpec (s e : Int) (idx : Int) (v : Bytes) : Nat :=
  let lo := (max s idx - idx).toNat
  let hi := (min e (idx + min (v.length : Int) Gen.cBitmapSegBytes - 1) - idx + 1).toNat
  popcount ((v.drop lo).take (hi - lo))

/-- **the answer C09 prescribes**, by point lookups: the set bits of the bytes `[s, e]` (after `getRange` against the
    stored size) = for every segment number between the segment of `s` and the segment of `e`, the set bits of the
    stored segment (if any) cut to the range. `C09Bit_bitcountSpec_eq_enum`: this IS the number of offsets of that byte
    range whose GETBIT is 1, in every state. -/
def bitcountSpec (pol : Pol) (m : List KV) (now : Int) (table rk : Bytes) (start stop : Int) : BOut Int :=
  match bmeta pol m now table rk with
  | .err e => .err e
  | .mk h _ size ok =>
    if !ok then bitCountOld pol m now table rk start stop else
    let (s, e) := Gen.getRange start stop size
    if s > e then .ok 0 else
    let vk := vkey pol rk h.ver
    let startI := (Gen.bitCountStartI s).toNat
    let stopI := (Gen.bitCountStopI e).toNat
    .ok (sumOver (fun j => match get m (segK table vk (Gen.cBitmapSegBytes * j)) with
      | some v => segSpec s e (Gen.cBitmapSegBytes * j) v
      | none => 0) startI (stopI + 1 - startI) : Nat)

/-- `BitKeyExist`: a live v2 bitmap, else a live string of the same name -/
def bkeyexist (pol : Pol) (m : List KV) (now : Int) (table rk : Bytes) : BOut Int :=
  match mview pol m now table rk with
  | .bad e => .err (hdrErr e)
  | .mv h ex => if notExist h ex then strExists pol m now table rk else .ok 1

/-- `BitTtl` -/
def bttl (pol : Pol) (m : List KV) (now : Int) (table rk : Bytes) : BOut Int :=
  match pol with
  | .local => .ok (-1)
  | .compact =>
    match get m (metaK table rk) with
    | none => .ok (-1)
    | some raw =>
      match decode raw with
      | .err e => .err (hdrErr e)
      | .ok h => .ok (ttl h now)

end Z.BitExec
