/-
  Executable storage-level SET model (core only) — rockredis/t_set.go under the local-deletion layout
  (`policy=local`: no version in the keys, no header in front of the meta value, nothing expires), over the
  sorted reference store `Z.Ref` with the key codec passed as plain functions (`EncFns`), so that the
  SAME functions run with the real codec (`realFns`, the encoders of `Z.Codec`, C12) in the
  `datacoreset` correspondence and are the subject of the theorems (`Z.SetInv`, any codec satisfying the
  abstract facts `Z.SetInv.Enc`).

  `κ` = the identity of a set (for the real codec: table name × key part).
  Every write returns the new store and the reply; an error reply leaves the store as it was
  (`defer wb.Clear()` + early return: nothing of the batch is committed).
  Layout: member key = `sEncodeSetKey(table, key, member)` ↦ empty value; size key = `sEncodeSizeKey(table:key)` ↦
  `BE64(size) ++ BE64(ts)` (`sIncrSize`), present iff size > 0.
  Not modelled (not visible in any reply): table key counter (`IncrTableKeyCount`), `topLargeCollKeys`,
  slow log / metrics, `delExpire` (a no-op under local deletion).
-/
import ZanVerif.Data.CollBase
import ZanVerif.Data.Codec

namespace Z.SetExec
open Z.Ref Z.Coll

structure EncFns (κ : Type) where
  metaK : κ → Bytes
  memK  : κ → Bytes → Bytes
  start : κ → Bytes
  stop  : κ → Bytes
  /-- `sDecodeSetKey`: the member part of a member key of this set -/
  memOf : κ → Bytes → Bytes
  /-- `sIncrSize`: size and modification timestamp -/
  encMeta : Nat → Int → Bytes
  /-- `Int64(meta[:8])` -/
  sizeOf : Bytes → Nat

variable {κ : Type} (F : EncFns κ)

/-- `common.CheckSubKey` -/
def okSub (a : Bytes) : Bool := a.length ≤ Gen.cMaxSubKeyLen

/-- `sGetSize` (= SCARD): 0 without meta -/
def scard (m : List KV) (k : κ) : Nat :=
  match get m (F.metaK k) with
  | some v => F.sizeOf v
  | none => 0

/-- `sIncrSize`, positive delta: `size += delta; if size <= 0 { Delete(sk) } else { Put(sk, size ++ ts) }` -/
def sizeOp (k : κ) (size : Nat) (ts : Int) : WOp :=
  if size = 0 then .del (F.metaK k) else .put (F.metaK k) (F.encMeta size ts)

/-- `SAdd`: more than MAX_BATCH_NUM arguments → `batchsize`; `dedupMembers`; for each member in order: size check
    (`subkeylen`), `ExistNoLock` on the committed store, absent → `num++`, `wb.Put(ek, nil)`; then `sIncrSize(+num)`
    (the meta is rewritten with the new timestamp even when num = 0); commit; reply num. -/
def sadd (m : List KV) (ts : Int) (k : κ) (args : List Bytes) : List KV × Out Nat :=
  if args.length > maxBatch then (m, .error "batchsize") else
  let as := dedup args
  if !as.all okSub then (m, .error "subkeylen") else
  let new := as.filter (fun a => (get m (F.memK k a)).isNone)
  let wb := new.map (fun a => WOp.put (F.memK k a) []) ++ [sizeOp F k (scard F m k + new.length) ts]
  (applyW m wb, .ok new.length)

/-- `SRem`: no argument → 0; `batchsize`; `dedupMembers`; present members are deleted and counted; `sIncrSize(-num)`
    (size clamps at 0 and then the meta is deleted; otherwise rewritten, also when num = 0); reply num. -/
def srem (m : List KV) (ts : Int) (k : κ) (args : List Bytes) : List KV × Out Nat :=
  if args.isEmpty then (m, .ok 0) else
  if args.length > maxBatch then (m, .error "batchsize") else
  let as := dedup args
  if !as.all okSub then (m, .error "subkeylen") else
  let old := as.filter (fun a => (get m (F.memK k a)).isSome)
  let wb := old.map (fun a => WOp.del (F.memK k a)) ++ [sizeOp F k (scard F m k - old.length) ts]
  (applyW m wb, .ok old.length)

/-- `sMembersN`: `num > MAX_BATCH_NUM` → `batchsize`; `num <= 0` → `args`; no meta → empty; stored size 0 → empty;
    else the first `num` member keys of the range `[start, stop)`, decoded, in key order. -/
def smembersN (m : List KV) (k : κ) (num : Int) : Out (List Bytes) :=
  if num > (maxBatch : Int) then .error "batchsize" else
  if num ≤ 0 then .error "args" else
  match get m (F.metaK k) with
  | none => .ok []
  | some v =>
    if F.sizeOf v = 0 then .ok [] else
    .ok (((scan m (F.start k) (F.stop k)).take num.toNat).map (fun p => F.memOf k p.1))

/-- `SMembers`: size 0 → empty; else `sMembersN(size)` (so: `batchsize` for a set of more than MAX_BATCH_NUM members) -/
def smembers (m : List KV) (k : κ) : Out (List Bytes) :=
  if scard F m k = 0 then .ok [] else smembersN F m k (scard F m k)

/-- `SRandMembers` ("we do not use rand here"): the first `count` members in key order -/
def srandmember (m : List KV) (k : κ) (count : Int) : Out (List Bytes) := smembersN F m k count

/-- `SIsMember`: no meta → 0; over-long member → `subkeylen`; else existence of the member key -/
def sismember (m : List KV) (k : κ) (a : Bytes) : Out Nat :=
  if (get m (F.metaK k)).isNone then .ok 0 else
  if !okSub a then .error "subkeylen" else
  .ok (if (get m (F.memK k a)).isSome then 1 else 0)

/-- `SKeyExists` (`collKeyExists`): the meta is stored -/
def skeyexist (m : List KV) (k : κ) : Nat := if (get m (F.metaK k)).isSome then 1 else 0

/-- `SPop(count)`: `sMembersN(count)` then `SRem` of exactly those; reply = the members popped -/
def spop (m : List KV) (ts : Int) (k : κ) (count : Int) : List KV × Out (List Bytes) :=
  match smembersN F m k count with
  | .error e => (m, .error e)
  | .ok vals =>
    match srem F m ts k vals with
    | (m', .ok _) => (m', .ok vals)
    | (m', .error e) => (m', .error e)

/-- `SClear` (`sDelete`): no meta or size 0 → 0; else delete the meta, then every key of the range
    (one `DeleteRange` above RangeDeleteNum members, single deletes of what the iterator finds otherwise); reply 1 -/
def sclear (m : List KV) (k : κ) : List KV × Nat :=
  match get m (F.metaK k) with
  | none => (m, 0)
  | some v =>
    if F.sizeOf v = 0 then (m, 0) else
    let wb := WOp.del (F.metaK k) ::
      (if F.sizeOf v > rangeDeleteNum then [WOp.delRange (F.start k) (F.stop k)]
       else (scan m (F.start k) (F.stop k)).map (fun p => WOp.del p.1))
    (applyW m wb, 1)

/-! ### leader-side pre-checks (node/set.go): answered from the applied state, nothing enters the log -/

/-- `saddCommand`: members in argument order (no dedup) until the first one that is not a member;
    an over-long member before that → `subkeylen` (rejected). `none` = propose. -/
def saddPre (m : List KV) (k : κ) : List Bytes → Option (Out Nat)
  | [] => some (.ok 0)
  | a :: t =>
    if !okSub a then some (.error "subkeylen") else
    match sismember F m k a with
    | .ok 1 => saddPre m k t
    | _ => none

/-- `sremCommand`: local `0` when no argument is a member (`SIsMember` errors count as "not a member") -/
def sremPre (m : List KV) (k : κ) (args : List Bytes) : Option (Out Nat) :=
  if args.all (fun a => match sismember F m k a with | .ok 1 => false | _ => true) then some (.ok 0) else none

/-- `spopCommand`: local answer on an empty set -/
def spopPre (m : List KV) (k : κ) : Bool := scard F m k = 0

/-! ### the real codec -/

/-- identity of a set for the real codec: (table, key part) -/
abbrev RKey := Bytes × Bytes

/-- rockredis, local-deletion layout -/
def realFns : EncFns RKey where
  metaK k := Z.Codec.metaKey Gen.cSSizeType (Z.Codec.packRedisKey k.1 k.2)
  memK k a := Z.Codec.collSubKey Gen.cSetType k.1 k.2 a
  start k := Z.Codec.collStart Gen.cSetType k.1 k.2
  stop k := Z.Codec.collStop Gen.cSetType k.1 k.2
  memOf k x := x.drop (Z.Codec.collStart Gen.cSetType k.1 k.2).length
  encMeta n ts := Z.Codec.be64 n ++ Z.Codec.be64 (Z.Codec.toU64 ts)
  sizeOf b := Z.Codec.fromBE (b.take 8)

end Z.SetExec
