/-
  Representation invariant of the storage-level SET model (`Z.SetExec`) and its preservation by every
  write of the model, for every key codec that satisfies the abstract facts `Enc` (discharged for the real
  codec in `Z.SetReal`).
  Invariant: stored size = number of member keys in the collection's range; size meta present iff non-empty.
-/
import ZanVerif.Data.SetExec
import ZanVerif.Data.CollLemmas

namespace Z.SetInv
open Z.Ref Z.Coll Z.SetExec

/-- what the set mapping needs from the key codec (C12 provides these for the real encoders, `Z.SetReal`) -/
structure Enc (κ : Type) extends EncFns κ where
  /-- sizes below `cap` survive the 8-byte size field (real codec: 2^63, the positive int64 range) -/
  cap : Nat
  size_rt : ∀ n ts, n < cap → sizeOf (encMeta n ts) = n
  mem_inj : ∀ k a k' a', memK k a = memK k' a' → k = k' ∧ a = a'
  meta_inj : ∀ k k', metaK k = metaK k' → k = k'
  meta_ne_mem : ∀ k k' a, metaK k ≠ memK k' a
  /-- range exactness: [start k, stop k) holds exactly the member keys of k -/
  range_iff : ∀ k x, (start k ≤ x ∧ x < stop k) ↔ ∃ a, x = memK k a
  memOf_memK : ∀ k a, memOf k (memK k a) = a
  /-- member keys of one set are ordered like the members -/
  memK_lt : ∀ k a b, memK k a < memK k b ↔ a < b

variable {κ : Type} [DecidableEq κ] (E : Enc κ)

/-- the members of set `k` as the store holds them: decoded member keys of the range, in key order -/
def abs (m : List KV) (k : κ) : List Bytes := (scan m (E.start k) (E.stop k)).map (fun p => E.memOf k p.1)

/-- representation invariant -/
structure Inv (m : List KV) : Prop where
  sorted : Sorted m
  size : ∀ k, scard E.toEncFns m k = (scan m (E.start k) (E.stop k)).length
  metaIff : ∀ k, Ref.get m (E.metaK k) = none ↔ (scan m (E.start k) (E.stop k)).length = 0
  /-- every size fits the size field (real codec: fewer than 2^63 members) -/
  fits : ∀ k, (scan m (E.start k) (E.stop k)).length < E.cap
  /-- every stored member passed `CheckSubKey` -/
  subOk : ∀ k a, a ∈ abs E m k → okSub a = true

theorem abs_length (m : List KV) (k : κ) : (abs E m k).length = (scan m (E.start k) (E.stop k)).length := by
  simp [abs]

/-! ### the abstraction in terms of `get` -/

theorem mem_abs {m : List KV} (hm : Sorted m) (k : κ) (a : Bytes) :
    a ∈ abs E m k ↔ (Ref.get m (E.memK k a)).isSome := by
  unfold abs
  rw [List.mem_map, get_isSome_iff hm]
  constructor
  · rintro ⟨p, hp, rfl⟩
    obtain ⟨hpm, hr⟩ := mem_scan.mp hp
    obtain ⟨a', ha'⟩ := (E.range_iff k p.1).mp hr
    refine ⟨p.2, ?_⟩
    rw [ha', E.memOf_memK, ← ha']
    exact hpm
  · rintro ⟨v, hv⟩
    refine ⟨(E.memK k a, v), mem_scan.mpr ⟨hv, (E.range_iff k _).mpr ⟨a, rfl⟩⟩, E.memOf_memK k a⟩

theorem abs_sorted {m : List KV} (hm : Sorted m) (k : κ) : (abs E m k).Pairwise (· < ·) := by
  unfold abs
  rw [List.pairwise_map]
  have hs := sorted_pairwise (scan_sorted hm (E.start k) (E.stop k))
  refine hs.imp_of_mem ?_
  intro p q hp hq hpq
  obtain ⟨_, hrp⟩ := mem_scan.mp hp
  obtain ⟨_, hrq⟩ := mem_scan.mp hq
  obtain ⟨a, ha⟩ := (E.range_iff k p.1).mp hrp
  obtain ⟨b, hb⟩ := (E.range_iff k q.1).mp hrq
  rw [ha, hb] at hpq ⊢
  rw [E.memOf_memK, E.memOf_memK]
  exact (E.memK_lt k a b).mp hpq

theorem abs_nodup {m : List KV} (hm : Sorted m) (k : κ) : (abs E m k).Nodup := sorted_nodup (abs_sorted E hm k)

/-- two stores that agree on the member keys of `k` have the same members of `k` -/
theorem abs_congr {m m' : List KV} (hm : Sorted m) (hm' : Sorted m') (k : κ)
    (h : ∀ a, (Ref.get m' (E.memK k a)).isSome = (Ref.get m (E.memK k a)).isSome) : abs E m' k = abs E m k := by
  apply sorted_ext (abs_sorted E hm' k) (abs_sorted E hm k)
  intro a
  rw [mem_abs E hm', mem_abs E hm, h]

theorem scard_eq (m : List KV) (k : κ) :
    scard E.toEncFns m k = match Ref.get m (E.metaK k) with | some v => E.sizeOf v | none => 0 := rfl

/-- closing lemma: a write that touches only member keys of `k` and leaves `k`'s meta as `sIncrSize` writes it for
    the new number `n` of members re-establishes the invariant -/
theorem inv_of_write {m m' : List KV} (inv : Inv E m) (hm' : Sorted m') (k : κ) (n : Nat) (ts : Int) (hn : n < E.cap)
    (hmem : ∀ k', k' ≠ k → ∀ a, Ref.get m' (E.memK k' a) = Ref.get m (E.memK k' a))
    (hmeta : ∀ k', k' ≠ k → Ref.get m' (E.metaK k') = Ref.get m (E.metaK k'))
    (hmk : Ref.get m' (E.metaK k) = if n = 0 then none else some (E.encMeta n ts))
    (hlen : (abs E m' k).length = n) (hsub : ∀ a, a ∈ abs E m' k → okSub a = true) : Inv E m' := by
  have habs : ∀ k', k' ≠ k → abs E m' k' = abs E m k' := fun k' hk' =>
    abs_congr E inv.sorted hm' k' (fun a => by rw [hmem k' hk' a])
  have hother : ∀ k', k' ≠ k → (scan m' (E.start k') (E.stop k')).length = (scan m (E.start k') (E.stop k')).length := by
    intro k' hk'
    rw [← abs_length, ← abs_length, abs_congr E inv.sorted hm' k' (fun a => by rw [hmem k' hk' a])]
  refine ⟨hm', ?_, ?_, ?_, ?_⟩
  rotate_left 2
  · intro k'
    by_cases hk' : k' = k
    · subst hk'; rw [← abs_length, hlen]; exact hn
    · rw [hother k' hk']; exact inv.fits k'
  · intro k' a ha
    by_cases hk' : k' = k
    · subst hk'; exact hsub a ha
    · rw [habs k' hk'] at ha; exact inv.subOk k' a ha
  · intro k'
    by_cases hk' : k' = k
    · subst hk'
      rw [scard_eq, hmk, ← abs_length, hlen]
      by_cases h0 : n = 0
      · simp [h0]
      · simp only [h0, ↓reduceIte]; exact E.size_rt n ts hn
    · rw [hother k' hk', ← inv.size k', scard_eq, scard_eq, hmeta k' hk']
  · intro k'
    by_cases hk' : k' = k
    · subst hk'
      rw [hmk, ← abs_length, hlen]
      by_cases h0 : n = 0 <;> simp [h0]
    · rw [hother k' hk', hmeta k' hk']; exact inv.metaIff k'


/-! ### batches of the set writes -/

theorem effOp_sizeOp_mem (k k' : κ) (a : Bytes) (n : Nat) (ts : Int) (cur : Option Bytes) :
    effOp (E.memK k' a) cur (sizeOp E.toEncFns k n ts) = cur := by
  have hne : E.memK k' a ≠ E.metaK k := fun e => E.meta_ne_mem k k' a e.symm
  unfold sizeOp
  split <;> simp [effOp, hne]

theorem effOp_sizeOp_meta (k k' : κ) (n : Nat) (ts : Int) (cur : Option Bytes) :
    effOp (E.metaK k') cur (sizeOp E.toEncFns k n ts) =
      if k' = k then (if n = 0 then none else some (E.encMeta n ts)) else cur := by
  unfold sizeOp
  by_cases hk : k' = k
  · subst hk; by_cases h0 : n = 0 <;> simp [effOp, h0]
  · have hne : E.metaK k' ≠ E.metaK k := fun e => hk (E.meta_inj _ _ e)
    by_cases h0 : n = 0 <;> simp [effOp, h0, hne, hk]

theorem get_mem_after {m : List KV} (hm : Sorted m) (ops : List WOp) (k : κ) (n : Nat) (ts : Int) (k' : κ) (a : Bytes) :
    Ref.get (applyW m (ops ++ [sizeOp E.toEncFns k n ts])) (E.memK k' a) =
      eff (E.memK k' a) (Ref.get m (E.memK k' a)) ops := by
  rw [get_applyW hm, eff_append]
  simp only [eff, List.foldl_cons, List.foldl_nil]
  exact effOp_sizeOp_mem E k k' a n ts _

theorem get_meta_after {m : List KV} (hm : Sorted m) (ops : List WOp) (k : κ) (n : Nat) (ts : Int)
    (hops : ∀ k' cur, eff (E.metaK k') cur ops = cur) (k' : κ) :
    Ref.get (applyW m (ops ++ [sizeOp E.toEncFns k n ts])) (E.metaK k') =
      if k' = k then (if n = 0 then none else some (E.encMeta n ts)) else Ref.get m (E.metaK k') := by
  rw [get_applyW hm, eff_append, hops]
  simp only [eff, List.foldl_cons, List.foldl_nil]
  exact effOp_sizeOp_meta E k k' n ts _

theorem memK_mem_map (k k' : κ) (a : Bytes) (l : List Bytes) : E.memK k' a ∈ l.map (E.memK k) ↔ k' = k ∧ a ∈ l := by
  rw [List.mem_map]
  constructor
  · rintro ⟨b, hb, he⟩
    obtain ⟨rfl, rfl⟩ := E.mem_inj _ _ _ _ he
    exact ⟨rfl, hb⟩
  · rintro ⟨rfl, ha⟩
    exact ⟨a, ha, rfl⟩

theorem metaK_not_mem_map (k k' : κ) (l : List Bytes) : E.metaK k' ∉ l.map (E.memK k) := by
  rw [List.mem_map]
  rintro ⟨b, _, he⟩
  exact E.meta_ne_mem k' k b he.symm

def putMembers (k : κ) (l : List Bytes) : List WOp := l.map (fun a => WOp.put (E.memK k a) [])
def delMembers (k : κ) (l : List Bytes) : List WOp := l.map (fun a => WOp.del (E.memK k a))

theorem putMembers_eq (k : κ) (l : List Bytes) :
    putMembers E k l = (l.map (E.memK k)).map (fun x => WOp.put x ((fun _ => []) x)) := by
  simp [putMembers, List.map_map, Function.comp_def]

theorem delMembers_eq (k : κ) (l : List Bytes) : delMembers E k l = (l.map (E.memK k)).map WOp.del := by
  simp [delMembers, List.map_map, Function.comp_def]

theorem eff_putMembers_mem (k k' : κ) (a : Bytes) (l : List Bytes) (cur : Option Bytes) :
    eff (E.memK k' a) cur (putMembers E k l) = if k' = k ∧ a ∈ l then some [] else cur := by
  rw [putMembers_eq]
  by_cases h : k' = k ∧ a ∈ l
  · rw [if_pos h, eff_puts_mem _ _ _ _ ((memK_mem_map E k k' a l).mpr h)]
  · rw [if_neg h, eff_puts_not_mem _ _ _ _ (fun hm => h ((memK_mem_map E k k' a l).mp hm))]

theorem eff_putMembers_meta (k k' : κ) (l : List Bytes) (cur : Option Bytes) :
    eff (E.metaK k') cur (putMembers E k l) = cur := by
  rw [putMembers_eq]; exact eff_puts_not_mem _ _ _ _ (metaK_not_mem_map E k k' l)

theorem eff_delMembers_mem (k k' : κ) (a : Bytes) (l : List Bytes) (cur : Option Bytes) :
    eff (E.memK k' a) cur (delMembers E k l) = if k' = k ∧ a ∈ l then none else cur := by
  rw [delMembers_eq]
  by_cases h : k' = k ∧ a ∈ l
  · rw [if_pos h, eff_dels_mem _ _ _ ((memK_mem_map E k k' a l).mpr h)]
  · rw [if_neg h, eff_dels_not_mem _ _ _ (fun hm => h ((memK_mem_map E k k' a l).mp hm))]

theorem eff_delMembers_meta (k k' : κ) (l : List Bytes) (cur : Option Bytes) :
    eff (E.metaK k') cur (delMembers E k l) = cur := by
  rw [delMembers_eq]; exact eff_dels_not_mem _ _ _ (metaK_not_mem_map E k k' l)

/-! ### SADD -/

/-- the members SADD writes: distinct arguments that are not stored -/
def newOf (m : List KV) (k : κ) (args : List Bytes) : List Bytes :=
  (dedup args).filter (fun a => (Ref.get m (E.memK k a)).isNone)

/-- the store SADD commits when it does not answer an error -/
def saddStore (m : List KV) (ts : Int) (k : κ) (args : List Bytes) : List KV :=
  applyW m (putMembers E k (newOf E m k args) ++
    [sizeOp E.toEncFns k (scard E.toEncFns m k + (newOf E m k args).length) ts])

/-- SADD either answers an error and leaves the store alone, or commits `saddStore` and answers the number of new members -/
theorem sadd_cases (m : List KV) (ts : Int) (k : κ) (args : List Bytes) :
    (∃ e, sadd E.toEncFns m ts k args = (m, .error e)) ∨
    ((∀ a ∈ args, okSub a = true) ∧ args.length ≤ maxBatch ∧
      sadd E.toEncFns m ts k args = (saddStore E m ts k args, .ok (newOf E m k args).length)) := by
  unfold sadd
  split
  · exact Or.inl ⟨_, rfl⟩
  · dsimp only
    split
    · exact Or.inl ⟨_, rfl⟩
    · rename_i hlen hall
      refine Or.inr ⟨?_, Nat.le_of_not_gt hlen, rfl⟩
      intro a ha
      simp only [Bool.not_eq_true', Bool.not_eq_false] at hall
      exact List.all_eq_true.mp hall a (mem_dedup.mpr ha)

theorem newOf_nodup (m : List KV) (k : κ) (args : List Bytes) : (newOf E m k args).Nodup := by
  unfold newOf
  have := dedup_nodup args
  rw [List.nodup_iff_pairwise_ne] at *
  exact this.filter _

theorem mem_newOf {m : List KV} (hm : Sorted m) (k : κ) (args : List Bytes) (a : Bytes) :
    a ∈ newOf E m k args ↔ a ∈ args ∧ a ∉ abs E m k := by
  unfold newOf
  rw [List.mem_filter, mem_dedup, mem_abs E hm]
  cases Ref.get m (E.memK k a) <;> simp

theorem mem_abs_saddStore {m : List KV} (hm : Sorted m) (ts : Int) (k : κ) (args : List Bytes) (k' : κ) (a : Bytes) :
    a ∈ abs E (saddStore E m ts k args) k' ↔ (k' = k ∧ a ∈ args) ∨ a ∈ abs E m k' := by
  unfold saddStore
  rw [mem_abs E (applyW_sorted hm _), get_mem_after E hm, eff_putMembers_mem]
  by_cases hk : k' = k
  · subst hk
    by_cases hn : a ∈ newOf E m k' args
    · have := (mem_newOf E hm k' args a).mp hn
      simp [hn, this.1]
    · rw [if_neg (fun h => hn h.2), ← mem_abs E hm]
      have := mt (mem_newOf E hm k' args a).mpr hn
      constructor
      · exact Or.inr
      · rintro (⟨_, h⟩ | h)
        · exact Classical.not_not.mp (fun h' => this ⟨h, h'⟩)
        · exact h
  · simp [hk, mem_abs E hm]

theorem length_abs_saddStore {m : List KV} (hm : Sorted m) (ts : Int) (k : κ) (args : List Bytes) :
    (abs E (saddStore E m ts k args) k).length = (abs E m k).length + (newOf E m k args).length := by
  have hm' : Sorted (saddStore E m ts k args) := applyW_sorted hm _
  have hnd : (abs E m k ++ newOf E m k args).Nodup := by
    rw [List.nodup_append]
    refine ⟨abs_nodup E hm k, newOf_nodup E m k args, ?_⟩
    intro a ha b hb e
    subst e
    exact ((mem_newOf E hm k args a).mp hb).2 ha
  have hperm := (List.perm_ext_iff_of_nodup (abs_nodup E hm' k) hnd).mpr (by
    intro a
    rw [mem_abs_saddStore E hm, List.mem_append, mem_newOf E hm]
    constructor
    · rintro (⟨_, h⟩ | h)
      · by_cases hin : a ∈ abs E m k
        · exact Or.inl hin
        · exact Or.inr ⟨h, hin⟩
      · exact Or.inl h
    · rintro (h | ⟨h, _⟩)
      · exact Or.inr h
      · exact Or.inl ⟨rfl, h⟩)
  rw [hperm.length_eq, List.length_append]

theorem newOf_length_le (m : List KV) (k : κ) (args : List Bytes) : (newOf E m k args).length ≤ args.length := by
  unfold newOf
  refine Nat.le_trans (List.length_filter_le _ _) ?_
  have h := dedup_nodup args
  induction args with
  | nil => simp [dedup]
  | cons a t ih =>
    simp only [dedup, List.length_cons]
    exact Nat.succ_le_succ (Nat.le_trans (List.length_filter_le _ _) (ih (dedup_nodup t)))

/-- **SADD preserves the invariant** (when the new size fits the size field) -/
theorem inv_sadd {m : List KV} (inv : Inv E m) (ts : Int) (k : κ) (args : List Bytes)
    (hfit : (abs E m k).length + args.length < E.cap) : Inv E (sadd E.toEncFns m ts k args).1 := by
  rcases sadd_cases E m ts k args with ⟨e, he⟩ | ⟨hok, _, he⟩
  · rw [he]; exact inv
  · rw [he]
    have hs := inv.sorted
    have hle := newOf_length_le E m k args
    apply inv_of_write E inv (m' := saddStore E m ts k args) (applyW_sorted hs _) k (scard E.toEncFns m k + (newOf E m k args).length) ts
    · rw [inv.size k, ← abs_length]; omega
    · intro k' hk' a
      unfold saddStore
      rw [get_mem_after E hs, eff_putMembers_mem]; simp [hk']
    · intro k' hk'
      unfold saddStore
      rw [get_meta_after E hs _ _ _ _ (fun k'' cur => eff_putMembers_meta E k k'' _ cur)]; simp [hk']
    · unfold saddStore
      rw [get_meta_after E hs _ _ _ _ (fun k'' cur => eff_putMembers_meta E k k'' _ cur)]; simp
    · rw [length_abs_saddStore E hs, inv.size k, abs_length]
    · intro a ha
      rcases (mem_abs_saddStore E hs ts k args k a).mp ha with ⟨_, h⟩ | h
      · exact hok a h
      · exact inv.subOk k a h


/-! ### SREM -/

/-- the members SREM deletes: distinct arguments that are stored -/
def oldOf (m : List KV) (k : κ) (args : List Bytes) : List Bytes :=
  (dedup args).filter (fun a => (Ref.get m (E.memK k a)).isSome)

def sremStore (m : List KV) (ts : Int) (k : κ) (args : List Bytes) : List KV :=
  applyW m (delMembers E k (oldOf E m k args) ++
    [sizeOp E.toEncFns k (scard E.toEncFns m k - (oldOf E m k args).length) ts])

theorem srem_cases (m : List KV) (ts : Int) (k : κ) (args : List Bytes) :
    (args = [] ∧ srem E.toEncFns m ts k args = (m, .ok 0)) ∨
    (∃ e, srem E.toEncFns m ts k args = (m, .error e)) ∨
    srem E.toEncFns m ts k args = (sremStore E m ts k args, .ok (oldOf E m k args).length) := by
  unfold srem
  split
  · rename_i h; exact Or.inl ⟨List.isEmpty_iff.mp h, rfl⟩
  · split
    · exact Or.inr (Or.inl ⟨_, rfl⟩)
    · dsimp only
      split
      · exact Or.inr (Or.inl ⟨_, rfl⟩)
      · exact Or.inr (Or.inr rfl)

theorem oldOf_nodup (m : List KV) (k : κ) (args : List Bytes) : (oldOf E m k args).Nodup := by
  unfold oldOf
  have := dedup_nodup args
  rw [List.nodup_iff_pairwise_ne] at *
  exact this.filter _

theorem mem_oldOf {m : List KV} (hm : Sorted m) (k : κ) (args : List Bytes) (a : Bytes) :
    a ∈ oldOf E m k args ↔ a ∈ args ∧ a ∈ abs E m k := by
  unfold oldOf
  rw [List.mem_filter, mem_dedup, mem_abs E hm]

theorem mem_abs_sremStore {m : List KV} (hm : Sorted m) (ts : Int) (k : κ) (args : List Bytes) (k' : κ) (a : Bytes) :
    a ∈ abs E (sremStore E m ts k args) k' ↔ a ∈ abs E m k' ∧ ¬ (k' = k ∧ a ∈ args) := by
  unfold sremStore
  rw [mem_abs E (applyW_sorted hm _), get_mem_after E hm, eff_delMembers_mem]
  by_cases hk : k' = k
  · subst hk
    by_cases ho : a ∈ oldOf E m k' args
    · have := (mem_oldOf E hm k' args a).mp ho
      simp [ho, this.1]
    · rw [if_neg (fun h => ho h.2), ← mem_abs E hm]
      have := mt (mem_oldOf E hm k' args a).mpr ho
      constructor
      · intro h; exact ⟨h, fun h' => this ⟨h'.2, h⟩⟩
      · exact fun h => h.1
  · simp [hk, mem_abs E hm]

theorem length_abs_sremStore {m : List KV} (hm : Sorted m) (ts : Int) (k : κ) (args : List Bytes) :
    (abs E (sremStore E m ts k args) k).length + (oldOf E m k args).length = (abs E m k).length := by
  have hm' : Sorted (sremStore E m ts k args) := applyW_sorted hm _
  have hnd : (abs E (sremStore E m ts k args) k ++ oldOf E m k args).Nodup := by
    rw [List.nodup_append]
    refine ⟨abs_nodup E hm' k, oldOf_nodup E m k args, ?_⟩
    intro a ha b hb e
    subst e
    exact ((mem_abs_sremStore E hm ts k args k a).mp ha).2 ⟨rfl, ((mem_oldOf E hm k args a).mp hb).1⟩
  have hperm := (List.perm_ext_iff_of_nodup hnd (abs_nodup E hm k)).mpr (by
    intro a
    rw [List.mem_append, mem_abs_sremStore E hm, mem_oldOf E hm]
    constructor
    · rintro (⟨h, _⟩ | ⟨_, h⟩) <;> exact h
    · intro h
      by_cases hin : a ∈ args
      · exact Or.inr ⟨hin, h⟩
      · exact Or.inl ⟨h, fun h' => hin h'.2⟩)
  rw [← hperm.length_eq, List.length_append]

/-- **SREM preserves the invariant** -/
theorem inv_srem {m : List KV} (inv : Inv E m) (ts : Int) (k : κ) (args : List Bytes) :
    Inv E (srem E.toEncFns m ts k args).1 := by
  rcases srem_cases E m ts k args with ⟨_, he⟩ | ⟨e, he⟩ | he
  · rw [he]; exact inv
  · rw [he]; exact inv
  · rw [he]
    have hs := inv.sorted
    have hlen := length_abs_sremStore E hs ts k args
    have hfit := inv.fits k
    apply inv_of_write E inv (m' := sremStore E m ts k args) (applyW_sorted hs _) k
      (scard E.toEncFns m k - (oldOf E m k args).length) ts
    · rw [inv.size k]; omega
    · intro k' hk' a
      unfold sremStore
      rw [get_mem_after E hs, eff_delMembers_mem]; simp [hk']
    · intro k' hk'
      unfold sremStore
      rw [get_meta_after E hs _ _ _ _ (fun k'' cur => eff_delMembers_meta E k k'' _ cur)]; simp [hk']
    · unfold sremStore
      rw [get_meta_after E hs _ _ _ _ (fun k'' cur => eff_delMembers_meta E k k'' _ cur)]; simp
    · rw [inv.size k, ← abs_length]; omega
    · intro a ha
      exact inv.subOk k a ((mem_abs_sremStore E hs ts k args k a).mp ha).1

/-! ### SPOP -/

/-- SPOP's store is the old one (error / nothing to pop) or the result of SREM of the members it answers -/
theorem spop_store (m : List KV) (ts : Int) (k : κ) (count : Int) :
    (spop E.toEncFns m ts k count).1 = m ∨
    ∃ vals, smembersN E.toEncFns m k count = .ok vals ∧ (spop E.toEncFns m ts k count).1 = (srem E.toEncFns m ts k vals).1 := by
  unfold spop
  split
  · exact Or.inl rfl
  · rename_i vals hv
    refine Or.inr ⟨vals, hv, ?_⟩
    split <;> simp_all

/-- **SPOP preserves the invariant** -/
theorem inv_spop {m : List KV} (inv : Inv E m) (ts : Int) (k : κ) (count : Int) :
    Inv E (spop E.toEncFns m ts k count).1 := by
  rcases spop_store E m ts k count with h | ⟨vals, _, h⟩
  · rw [h]; exact inv
  · rw [h]; exact inv_srem E inv ts k vals

/-! ### SCLEAR -/

/-- the range part of `sDelete`'s batch: one DeleteRange, or single deletes of what the iterator finds -/
def clearOps (m : List KV) (k : κ) (big : Bool) : List WOp :=
  if big then [WOp.delRange (E.start k) (E.stop k)] else (scan m (E.start k) (E.stop k)).map (fun p => WOp.del p.1)

theorem clearOps_small (m : List KV) (k : κ) :
    clearOps E m k false = ((scan m (E.start k) (E.stop k)).map (·.1)).map WOp.del := by
  simp [clearOps, List.map_map, Function.comp_def]

theorem eff_clearOps_mem {m : List KV} (hm : Sorted m) (k k' : κ) (a : Bytes) (big : Bool) :
    eff (E.memK k' a) (Ref.get m (E.memK k' a)) (clearOps E m k big) =
      if k' = k then none else Ref.get m (E.memK k' a) := by
  cases big with
  | true =>
    simp only [clearOps, ↓reduceIte, eff, List.foldl_cons, List.foldl_nil, effOp]
    by_cases hk : k' = k
    · subst hk
      have := (E.range_iff k' (E.memK k' a)).mpr ⟨a, rfl⟩
      simp [this]
    · have : ¬ (E.start k ≤ E.memK k' a ∧ E.memK k' a < E.stop k) := by
        intro h
        obtain ⟨b, hb⟩ := (E.range_iff k _).mp h
        exact hk (E.mem_inj _ _ _ _ hb).1
      simp [this, hk]
  | false =>
    rw [clearOps_small]
    by_cases hk : k' = k
    · subst hk
      simp only [↓reduceIte]
      cases hg : Ref.get m (E.memK k' a) with
      | none => exact eff_dels_none _ _
      | some v =>
        apply eff_dels_mem
        rw [List.mem_map]
        exact ⟨(E.memK k' a, v), mem_scan.mpr ⟨(get_eq_some_iff hm _ _).mp hg, (E.range_iff k' _).mpr ⟨a, rfl⟩⟩, rfl⟩
    · rw [if_neg hk]
      apply eff_dels_not_mem
      rw [List.mem_map]
      rintro ⟨p, hp, he⟩
      obtain ⟨b, hb⟩ := (E.range_iff k p.1).mp (mem_scan.mp hp).2
      rw [hb] at he
      exact hk (E.mem_inj _ _ _ _ he).1.symm

theorem eff_clearOps_meta (m : List KV) (k k' : κ) (big : Bool) (cur : Option Bytes) :
    eff (E.metaK k') cur (clearOps E m k big) = cur := by
  cases big with
  | true =>
    simp only [clearOps, ↓reduceIte, eff, List.foldl_cons, List.foldl_nil, effOp]
    have : ¬ (E.start k ≤ E.metaK k' ∧ E.metaK k' < E.stop k) := by
      intro h
      obtain ⟨b, hb⟩ := (E.range_iff k _).mp h
      exact E.meta_ne_mem _ _ _ hb
    simp [this]
  | false =>
    rw [clearOps_small]
    apply eff_dels_not_mem
    rw [List.mem_map]
    rintro ⟨p, hp, he⟩
    obtain ⟨b, hb⟩ := (E.range_iff k p.1).mp (mem_scan.mp hp).2
    rw [hb] at he
    exact E.meta_ne_mem _ _ _ he.symm

def sclearStore (m : List KV) (k : κ) (big : Bool) : List KV := applyW m (WOp.del (E.metaK k) :: clearOps E m k big)

theorem sclear_cases (m : List KV) (k : κ) :
    sclear E.toEncFns m k = (m, 0) ∨ ∃ big, sclear E.toEncFns m k = (sclearStore E m k big, 1) := by
  unfold sclear
  split
  · exact Or.inl rfl
  · split
    · exact Or.inl rfl
    · rename_i v _ _
      refine Or.inr ⟨decide (E.sizeOf v > rangeDeleteNum), ?_⟩
      simp only [sclearStore, clearOps, decide_eq_true_eq]

theorem get_mem_sclearStore {m : List KV} (hm : Sorted m) (k k' : κ) (a : Bytes) (big : Bool) :
    Ref.get (sclearStore E m k big) (E.memK k' a) = if k' = k then none else Ref.get m (E.memK k' a) := by
  unfold sclearStore
  rw [get_applyW hm]
  simp only [eff, List.foldl_cons]
  have hne : E.memK k' a ≠ E.metaK k := fun e => E.meta_ne_mem k k' a e.symm
  simp only [effOp, hne, ↓reduceIte]
  exact eff_clearOps_mem E hm k k' a big

theorem get_meta_sclearStore {m : List KV} (hm : Sorted m) (k k' : κ) (big : Bool) :
    Ref.get (sclearStore E m k big) (E.metaK k') = if k' = k then none else Ref.get m (E.metaK k') := by
  unfold sclearStore
  rw [get_applyW hm]
  simp only [eff, List.foldl_cons]
  have := eff_clearOps_meta E m k k' big (effOp (E.metaK k') (Ref.get m (E.metaK k')) (WOp.del (E.metaK k)))
  unfold eff at this
  rw [this]
  by_cases hk : k' = k
  · subst hk; simp [effOp]
  · have hne : E.metaK k' ≠ E.metaK k := fun e => hk (E.meta_inj _ _ e)
    simp [effOp, hne, hk]

theorem abs_sclearStore_self {m : List KV} (hm : Sorted m) (k : κ) (big : Bool) : abs E (sclearStore E m k big) k = [] := by
  apply List.eq_nil_iff_forall_not_mem.mpr
  intro a
  have hs' : Sorted (sclearStore E m k big) := applyW_sorted hm _
  rw [mem_abs E hs', get_mem_sclearStore E hm]
  simp

/-- **SCLEAR preserves the invariant** -/
theorem inv_sclear {m : List KV} (inv : Inv E m) (k : κ) : Inv E (sclear E.toEncFns m k).1 := by
  rcases sclear_cases E m k with he | ⟨big, he⟩
  · rw [he]; exact inv
  · rw [he]
    have hs := inv.sorted
    have hcap : 0 < E.cap := Nat.lt_of_le_of_lt (Nat.zero_le _) (inv.fits k)
    apply inv_of_write E inv (m' := sclearStore E m k big) (applyW_sorted hs _) k 0 0 hcap
    · intro k' hk' a; rw [get_mem_sclearStore E hs]; simp [hk']
    · intro k' hk'; rw [get_meta_sclearStore E hs]; simp [hk']
    · rw [get_meta_sclearStore E hs]; simp
    · rw [abs_sclearStore_self E hs]; rfl
    · intro a ha; rw [abs_sclearStore_self E hs] at ha; cases ha

end Z.SetInv
