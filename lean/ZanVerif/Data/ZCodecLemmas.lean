/-
  Decoder round trips of the memcomparable codec and of the sorted-set keys:
  `DecodeBytes ∘ EncodeBytes`, `DecodeInt ∘ EncodeInt`, `Decode ∘ memcmpEncode`,
  `decodeDataTablePrefixFromBuf ∘ encodeDataTablePrefixToBuf`, `zDecodeScoreKey ∘ zEncodeScoreKey`,
  `zDecodeSetKey ∘ zEncodeSetKey`.
-/
import ZanVerif.Data.FloatLemmas

namespace Z.Codec

/-! ### list plumbing -/

theorem getD_append_cons (x rest : Bytes) (s : UInt8) : (x ++ s :: rest).getD x.length 0 = s := by
  simp [List.getD_eq_getElem?_getD]

theorem take_append_cons (x rest : Bytes) (s : UInt8) : (x ++ s :: rest).take x.length = x := by
  simp

theorem drop_append_cons (x rest : Bytes) (s : UInt8) : (x ++ s :: rest).drop (x.length + 1) = rest := by
  have : x ++ s :: rest = (x ++ [s]) ++ rest := by simp
  rw [this]
  exact drop_append_length' (x ++ [s]) rest (by simp)

/-! ### `DecodeInt ∘ EncodeInt` -/

theorem ofU64_flip {v : Int} (h : inI64 v) :
    ofU64 (((v + 9223372036854775808).toNat + 9223372036854775808) % 18446744073709551616) = v := by
  unfold ofU64
  unfold inI64 at h
  split <;> omega

theorem decInt_encInt {v : Int} (h : inI64 v) (r : Bytes) : decInt (encInt v ++ r) = some (r, v) := by
  have hl : ¬ (encInt v ++ r).length < 8 := by rw [List.length_append, encInt_length]; omega
  unfold decInt
  rw [if_neg hl, take_append_length' _ _ (encInt_length v), drop_append_length' _ _ (encInt_length v)]
  have hf : fromBE (encInt v) = (v + 9223372036854775808).toNat := by
    unfold encInt
    rw [show ∀ n, be64 n = beN 8 n from fun _ => rfl,
      Z.Stream.fromBE_beN 8 _ (by have := Nat.mod_lt (toU64 v + 9223372036854775808) (show 0 < 18446744073709551616 by decide); simpa using this),
      flip_eq h]
  simp only [hf]
  rw [ofU64_flip h]

/-! ### `DecodeBytes ∘ EncodeBytes` -/

theorem marker_toNat {n : Nat} (h : n ≤ 8) : (marker n).toNat = 247 + n := by
  unfold marker
  rw [UInt8.toNat_ofNat']
  omega

/-- the last (padded) group -/
theorem encBytes_short : ∀ (d : Bytes) (n : Nat), n + d.length ≤ 7 →
    encBytes n d = d ++ (List.replicate (8 - (n + d.length)) 0 ++ [marker (n + d.length)])
  | [], n, _ => by simp [encBytes]
  | x :: xs, n, h => by
    have hn : n ≠ 7 := by simp only [List.length_cons] at h; omega
    simp only [encBytes, if_neg hn, List.cons_append, List.length_cons]
    rw [encBytes_short xs (n + 1) (by simp only [List.length_cons] at h; omega)]
    have e : n + 1 + xs.length = n + (xs.length + 1) := by omega
    rw [e]

/-- a full group -/
theorem encBytes_full : ∀ (g : Bytes) (n : Nat) (y : Bytes), g ≠ [] → n + g.length = 8 →
    encBytes n (g ++ y) = g ++ 0xFF :: encBytes 0 y
  | [], _, _, h, _ => absurd rfl h
  | x :: xs, n, y, _, hl => by
    simp only [List.length_cons] at hl
    by_cases hn : n = 7
    · have : xs = [] := List.eq_nil_of_length_eq_zero (by omega)
      subst this
      simp [encBytes, hn]
    · have hx : xs ≠ [] := by
        intro e; subst e; simp at hl; omega
      simp only [List.cons_append, encBytes, if_neg hn]
      rw [encBytes_full xs (n + 1) y hx (by omega)]

theorem encBytes_length_ge : ∀ (d : Bytes) (n : Nat), d.length ≤ (encBytes n d).length
  | [], _ => by simp
  | x :: xs, n => by
    simp only [encBytes]
    split
    · have := encBytes_length_ge xs 0; simp only [List.length_cons]; omega
    · have := encBytes_length_ge xs (n + 1); simp only [List.length_cons]; omega

/-- decoder step on a final group: marker `247 + n`, `n < 8` real bytes, zero padding -/
theorem decBytes_last (fuel : Nat) (G : Bytes) (hG : G.length = 8) (m : UInt8) (rest : Bytes) (n : Nat) (hn : n < 8)
    (hm : m.toNat = 247 + n) (hz : (G.drop n).all (· == 0) = true) :
    decBytes (fuel + 1) (G ++ m :: rest) = some (rest, G.take n) := by
  have hlen : ¬ (G ++ m :: rest).length < 9 := by simp [hG]; omega
  have htake : (G ++ m :: rest).take 8 = G := by rw [← hG]; exact take_append_cons G rest m
  have hget : (G ++ m :: rest).getD 8 0 = m := by rw [← hG]; exact getD_append_cons G rest m
  have hdrop : (G ++ m :: rest).drop 9 = rest := by
    have := drop_append_cons G rest m; rw [hG] at this; exact this
  rw [decBytes]
  simp only [hlen, htake, hget, hdrop, hm, if_false]
  have e1 : ¬ (255 - (247 + n) > 8) := by omega
  have e2 : 255 - (247 + n) ≠ 0 := by omega
  have e3 : 8 - (255 - (247 + n)) = n := by omega
  simp only [e1, e2, e3, hz, if_true, if_false, ne_eq, not_false_eq_true]

/-- decoder step on a full group (marker 0xFF) -/
theorem decBytes_cont (fuel : Nat) (G : Bytes) (hG : G.length = 8) (rest : Bytes) :
    decBytes (fuel + 1) (G ++ 0xFF :: rest) =
      match decBytes fuel rest with
      | none => none
      | some (r, d) => some (r, G ++ d) := by
  have hlen : ¬ (G ++ (0xFF : UInt8) :: rest).length < 9 := by simp [hG]; omega
  have htake : (G ++ (0xFF : UInt8) :: rest).take 8 = G := by rw [← hG]; exact take_append_cons G rest _
  have hget : (G ++ (0xFF : UInt8) :: rest).getD 8 0 = 0xFF := by rw [← hG]; exact getD_append_cons G rest _
  have hdrop : (G ++ (0xFF : UInt8) :: rest).drop 9 = rest := by
    have := drop_append_cons G rest 0xFF; rw [hG] at this; exact this
  rw [decBytes]
  have hm : (0xFF : UInt8).toNat = 255 := by decide
  simp only [hlen, htake, hget, hdrop, hm, if_false]
  cases decBytes fuel rest with
  | none => simp
  | some p => simp

/-- **`DecodeBytes ∘ EncodeBytes` = id**, whatever follows; one unit of fuel per group -/
theorem decBytes_encBytes : ∀ (fuel : Nat) (d r : Bytes), d.length / 8 < fuel →
    decBytes fuel (encBytes 0 d ++ r) = some (r, d)
  | 0, _, _, h => by omega
  | fuel + 1, d, r, h => by
    by_cases hs : d.length < 8
    · rw [encBytes_short d 0 (by omega)]
      simp only [Nat.zero_add]
      have e : d ++ (List.replicate (8 - d.length) (0 : UInt8) ++ [marker d.length]) ++ r =
          (d ++ List.replicate (8 - d.length) 0) ++ marker d.length :: r := by simp
      rw [e]
      have hG : (d ++ List.replicate (8 - d.length) (0 : UInt8)).length = 8 := by simp; omega
      rw [decBytes_last fuel _ hG (marker d.length) r d.length hs (marker_toNat (by omega)) (by simp)]
      simp
    · have hd : d = d.take 8 ++ d.drop 8 := (List.take_append_drop 8 d).symm
      have hG : (d.take 8).length = 8 := by simp; omega
      have hne : d.take 8 ≠ [] := by intro e; rw [e] at hG; simp at hG
      have e : encBytes 0 d = d.take 8 ++ 0xFF :: encBytes 0 (d.drop 8) := by
        conv => lhs; rw [hd]
        exact encBytes_full _ 0 _ hne (by omega)
      rw [e]
      have e2 : d.take 8 ++ 0xFF :: encBytes 0 (d.drop 8) ++ r = d.take 8 ++ 0xFF :: (encBytes 0 (d.drop 8) ++ r) := by simp
      rw [e2, decBytes_cont fuel _ hG, decBytes_encBytes fuel (d.drop 8) r (by simp; omega)]
      simp

/-! ### `DecodeOne`, `Decode` -/

/-- what the decoder returns for an encoded value: floats come back with +0.0 for -0.0 -/
def canonVal : MVal → MVal
  | .floatBits u => .floatBits (canonBits u)
  | v => v

/-- values the encoder is defined on without loss: int64 ints, non-NaN floats -/
def GoodVal : MVal → Prop
  | .int v => inI64 v
  | .floatBits u => NonNaN u
  | _ => True

theorem decOne_encOne (v : MVal) (hv : GoodVal v) (r : Bytes) : decOne (encOne v ++ r) = some (r, canonVal v) := by
  cases v with
  | bytes b =>
    simp only [encOne, List.cons_append, decOne, ↓reduceIte]
    rw [decBytes_encBytes _ b r (by
        have := encBytes_length_ge b 0
        have h2 : b.length / 8 ≤ b.length := Nat.div_le_self _ _
        simp only [List.length_append]; omega)]
    rfl
  | int i =>
    simp only [encOne, List.cons_append, decOne, ↓reduceIte]
    rw [decInt_encInt hv]
    rfl
  | floatBits u =>
    simp only [encOne, List.cons_append, decOne, ↓reduceIte]
    rw [decFloatBits_encFloatBits hv]
    rfl
  | nil =>
    simp only [encOne, List.cons_append, List.nil_append, decOne, ↓reduceIte]
    rfl

theorem encOne_length_pos (v : MVal) : 0 < (encOne v).length := by
  cases v <;> simp [encOne]

theorem memcmpEncode_cons (v : MVal) (vs : List MVal) : memcmpEncode (v :: vs) = encOne v ++ memcmpEncode vs := by
  simp [memcmpEncode]

/-- **`Decode ∘ memcmpEncode`**: the values come back, floats canonical -/
theorem decAll_memcmpEncode : ∀ (vs : List MVal) (fuel : Nat), (∀ v ∈ vs, GoodVal v) → vs.length < fuel →
    decAll fuel (memcmpEncode vs) = some (vs.map canonVal)
  | _, 0, _, h => by omega
  | [], fuel + 1, _, _ => by simp [decAll, memcmpEncode]
  | v :: vs, fuel + 1, hg, h => by
    rw [memcmpEncode_cons, decAll]
    have hpos := encOne_length_pos v
    have hne : (encOne v ++ memcmpEncode vs).isEmpty = false := by
      cases hv : encOne v with
      | nil => rw [hv] at hpos; simp at hpos
      | cons _ _ => rfl
    rw [hne]
    simp only [Bool.false_eq_true, if_false]
    rw [decOne_encOne v (hg v (by simp))]
    simp only
    rw [if_pos (by simp only [List.length_append]; omega),
      decAll_memcmpEncode vs fuel (fun w hw => hg w (by simp [hw])) (by simp only [List.length_cons] at h; omega)]
    simp

/-! ### table prefix, collection sub-key -/

theorem be16_toNat {n : Nat} (h : n < 65536) :
    (UInt8.ofNat (n / 256 % 256)).toNat * 256 + (UInt8.ofNat (n % 256)).toNat = n := by
  rw [UInt8.toNat_ofNat', UInt8.toNat_ofNat']
  omega

/-- `decodeDataTablePrefixFromBuf ∘ encodeDataTablePrefixToBuf` for the non-KV types, anything following -/
theorem decTablePrefix_tablePrefix {dt : UInt8} (hdt : dt ≠ Gen.cKVType) {t : Bytes} (ht : t.length < 65536) (rest : Bytes) :
    decTablePrefix dt (tablePrefix dt t ++ rest) = .ok (t, rest) := by
  unfold tablePrefix
  rw [if_neg hdt]
  unfold be16
  simp only [List.cons_append, List.nil_append, List.append_assoc, decTablePrefix]
  rw [if_neg (by simp)]
  simp only [be16_toNat ht]
  have e1 : ¬ t.length > (t ++ Gen.cTableStartSep :: rest).length := by
    simp only [List.length_append, List.length_cons]; omega
  have e2 : ¬ t.length = (t ++ Gen.cTableStartSep :: rest).length := by
    simp only [List.length_append, List.length_cons]; omega
  rw [if_neg e1, if_neg e2, getD_append_cons, if_neg (by simp), take_append_cons, drop_append_cons]

/-- `decodeCollSubKey ∘ encodeCollSubKey` -/
theorem decCollSubKey_collSubKey {dt : UInt8}
    (hdt : dt = Gen.cHashType ∨ dt = Gen.cSetType ∨ dt = Gen.cZSetType) {t k : Bytes}
    (ht : t.length < 65536) (hk : k.length < 65536) (m : Bytes) :
    decCollSubKey (collSubKey dt t k m) = .ok (dt, t, k, m) := by
  have hkv : dt ≠ Gen.cKVType := by rcases hdt with h | h | h <;> subst h <;> decide
  have hshape : collSubKey dt t k m = dt :: (be16 t.length ++ t ++ [Gen.cTableStartSep] ++ (be16 k.length ++ k ++ [Gen.cCollStartSep] ++ m)) := by
    unfold collSubKey tablePrefix; rw [if_neg hkv]; simp
  have hpre : decTablePrefix dt (collSubKey dt t k m) = .ok (t, be16 k.length ++ (k ++ Gen.cCollStartSep :: m)) := by
    have : collSubKey dt t k m = tablePrefix dt t ++ (be16 k.length ++ (k ++ Gen.cCollStartSep :: m)) := by
      unfold collSubKey; simp
    rw [this, decTablePrefix_tablePrefix hkv ht]
  have hc : ¬ (dt ≠ Gen.cHashType ∧ dt ≠ Gen.cSetType ∧ dt ≠ Gen.cZSetType) := by
    rcases hdt with h | h | h <;> subst h <;> decide
  rw [hshape] at hpre
  rw [hshape]
  simp only [decCollSubKey]
  rw [if_neg hc, hpre]
  unfold be16
  simp only [List.cons_append, List.nil_append]
  simp only [be16_toNat hk]
  have e1 : ¬ k.length > (k ++ Gen.cCollStartSep :: m).length := by
    simp only [List.length_append, List.length_cons]; omega
  have e2 : ¬ k.length = (k ++ Gen.cCollStartSep :: m).length := by
    simp only [List.length_append, List.length_cons]; omega
  rw [if_neg e1, if_neg e2, getD_append_cons, if_neg (by simp), take_append_cons, drop_append_cons]

/-- **`zDecodeSetKey ∘ zEncodeSetKey`** -/
theorem decZSetKey_collSubKey {t k : Bytes} (ht : t.length < 65536) (hk : k.length < 65536) (m : Bytes) :
    decZSetKey (collSubKey Gen.cZSetType t k m) = .ok (t, k, m) := by
  unfold decZSetKey
  rw [decCollSubKey_collSubKey (Or.inr (Or.inr rfl)) ht hk]
  simp

/-! ### `zDecodeScoreKey ∘ zEncodeScoreKey` -/

/-- the score key decodes to (table, key, member, score), the score canonical (`-0.0 ↦ +0.0`);
    any separators that fit an int64 -/
theorem decZScoreKey_zscoreKey {t : Bytes} (ht : t.length < 65536) (k m : Bytes) {a : Nat} (ha : NonNaN a)
    {sep ssep : Int} (hs : inI64 sep) (hss : inI64 ssep) :
    decZScoreKey (zscoreKey t k m a sep ssep) = .ok (t, k, m, canonBits a) := by
  unfold decZScoreKey zscoreKey
  rw [decTablePrefix_tablePrefix (by decide) ht]
  simp only
  have hne : (memcmpEncode [.bytes k, .int sep, .floatBits a, .int ssep, .bytes m]).isEmpty = false := by
    simp [memcmpEncode, encOne]
  rw [hne]
  simp only [Bool.false_eq_true, if_false]
  rw [decAll_memcmpEncode _ _ (by
      intro v hv
      simp only [List.mem_cons, List.not_mem_nil, or_false] at hv
      rcases hv with rfl | rfl | rfl | rfl | rfl
      · trivial
      · exact hs
      · exact ha
      · exact hss
      · trivial)
    (by
      have h1 := encOne_length_pos (.bytes k)
      have h2 := encOne_length_pos (.int sep)
      have h3 := encOne_length_pos (.floatBits a)
      have h4 := encOne_length_pos (.int ssep)
      have h5 := encOne_length_pos (.bytes m)
      simp only [memcmpEncode_cons, List.length_append, List.length_cons, List.length_nil]
      omega)]
  simp [canonVal]

/-- **`zDecodeScoreKey ∘ zEncodeScoreKey`**: key of any length, table within the 16-bit length field -/
theorem decZScoreKey_zScoreK {t : Bytes} (ht : t.length < 65536) (k m : Bytes) {a : Nat} (ha : NonNaN a) :
    decZScoreKey (zScoreK t k m a) = .ok (t, k, m, canonBits a) :=
  decZScoreKey_zscoreKey ht k m ha inI64_sepI inI64_scoreSepI

/-- decoding then re-encoding a score key gives the same key (the canonical score encodes identically) -/
theorem zScoreK_canon (t k m : Bytes) {a : Nat} (ha : NonNaN a) : zScoreK t k m (canonBits a) = zScoreK t k m a :=
  zscoreKey_congr_feq t k m sepI scoreSepI (canonBits_nonNaN ha) ha (feqBits_canon a)

example : decZScoreKey (zScoreK [0x74] [0x6b, 0x3a] [1, 2, 3, 4, 5, 6, 7, 8, 9] 0x8000000000000000) =
    .ok ([0x74], [0x6b, 0x3a], [1, 2, 3, 4, 5, 6, 7, 8, 9], 0) :=
  decZScoreKey_zScoreK (by decide) _ _ (by decide)

example : decZSetKey (collSubKey Gen.cZSetType [0x74] [0x6b, 0x3a] [0x3a, 1]) = .ok ([0x74], [0x6b, 0x3a], [0x3a, 1]) :=
  decZSetKey_collSubKey (by decide) (by decide) _

end Z.Codec

#print axioms Z.Codec.decInt_encInt
#print axioms Z.Codec.decBytes_encBytes
#print axioms Z.Codec.decOne_encOne
#print axioms Z.Codec.decAll_memcmpEncode
#print axioms Z.Codec.decTablePrefix_tablePrefix
#print axioms Z.Codec.decCollSubKey_collSubKey
#print axioms Z.Codec.decZSetKey_collSubKey
#print axioms Z.Codec.decZScoreKey_zScoreK
