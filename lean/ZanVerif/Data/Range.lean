/-
Scratch prototype for C12/C09/C13: range exactness of a prefix scan in lexicographic byte order.
rockredis scans the sub-keys of a collection key from `P ++ [sep]` (start key) up to, excluding,
`P ++ [sep+1]` (stop key).  The range holds exactly the byte strings that extend `P ++ [sep]`.
-/
namespace Z.Range
abbrev Bytes := List UInt8

theorem lt_of_prefix_ext (a : Bytes) : ∀ (f : Bytes), a ≤ a ++ f := by
  induction a with
  | nil => intro f; exact List.nil_le _
  | cons x a ih => intro f; exact List.cons_le_cons_iff.mpr (Or.inr ⟨rfl, ih f⟩)

theorem succ_toNat {s : UInt8} (hs : s < 255) : (s + 1).toNat = s.toNat + 1 := by
  have : s.toNat < 255 := hs
  rw [UInt8.toNat_add]; simp; omega

/-- prefix + [s] ≤ x < prefix + [s+1]  ↔  x extends prefix + [s] -/
theorem range_iff (s : UInt8) (hs : s < 255) : ∀ (P x : Bytes),
    (P ++ [s] ≤ x ∧ x < P ++ [s + 1]) ↔ ∃ f, x = P ++ [s] ++ f := by
  intro P
  induction P with
  | nil =>
    intro x
    constructor
    · intro ⟨h1, h2⟩
      cases x with
      | nil => exact absurd h1 (by simp)
      | cons y t =>
        simp only [List.nil_append] at h1 h2
        have e1 := List.cons_le_cons_iff.mp h1
        have e2 := List.cons_lt_cons_iff.mp h2
        have hy : y = s := by
          rcases e1 with h | ⟨h, _⟩
          · rcases e2 with h' | ⟨_, ht⟩
            · exfalso
              have a1 : s.toNat < y.toNat := h
              have a2 : y.toNat < (s + 1).toNat := h'
              have a3 := succ_toNat hs
              omega
            · exact absurd ht (by simp)
          · exact h.symm
        exact ⟨t, by simp [hy]⟩
    · intro ⟨f, hf⟩
      subst hf
      simp only [List.nil_append, List.singleton_append]
      refine ⟨List.cons_le_cons_iff.mpr (Or.inr ⟨rfl, List.nil_le _⟩), List.cons_lt_cons_iff.mpr (Or.inl ?_)⟩
      show s.toNat < (s + 1).toNat
      rw [succ_toNat hs]; omega
  | cons p P ih =>
    intro x
    cases x with
    | nil =>
      constructor
      · intro ⟨h1, _⟩; exact absurd h1 (by simp)
      · intro ⟨f, hf⟩; simp at hf
    | cons y t =>
      simp only [List.cons_append]
      constructor
      · intro ⟨h1, h2⟩
        have e1 := List.cons_le_cons_iff.mp h1
        have e2 := List.cons_lt_cons_iff.mp h2
        have hy : y = p := by
          rcases e1 with h | ⟨h, _⟩
          · rcases e2 with h' | ⟨h', _⟩
            · exact absurd h (by
                have a1 : y.toNat < p.toNat := h'
                intro (a2 : p.toNat < y.toNat); omega)
            · rw [h'] at h; exact absurd h (by intro (a : p.toNat < p.toNat); omega)
          · exact h.symm
        subst hy
        have t1 : P ++ [s] ≤ t := by
          rcases e1 with h | ⟨_, h⟩
          · exact absurd h (by intro (a : y.toNat < y.toNat); omega)
          · exact h
        have t2 : t < P ++ [s + 1] := by
          rcases e2 with h | ⟨_, h⟩
          · exact absurd h (by intro (a : y.toNat < y.toNat); omega)
          · exact h
        obtain ⟨f, hf⟩ := (ih t).mp ⟨t1, t2⟩
        exact ⟨f, by simp [hf]⟩
      · intro ⟨f, hf⟩
        injection hf with h1 h2
        subst h1
        have := (ih t).mpr ⟨f, by simpa using h2⟩
        exact ⟨List.cons_le_cons_iff.mpr (Or.inr ⟨rfl, this.1⟩), List.cons_lt_cons_iff.mpr (Or.inr ⟨rfl, this.2⟩)⟩

#print axioms range_iff
end Z.Range
