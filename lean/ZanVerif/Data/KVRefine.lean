/-
  Refinement of the executable KV model (`Z.KVExec`) to the plain spec (`Z.KVSpec`): view-level core.
-/
import ZanVerif.Data.KVLemmas
import ZanVerif.Data.KVSpec

namespace Z.KVRefine
open Z.KVExec Z.KVSpec Z.Header
open Z.Codec (kvKey be64 toU64 ofU64 be64_length)

theorem vis_good (t : Int) (e : Nat) (ver : Int) (x mt : Bytes) (he : e < 4294967296) (hm : mt.length = 8) :
    vis (viewRaw t (encFixed e ver ++ (x ++ mt))) = if Gen.isExpired (e : Int) t then none else some (x, e) := by
  rw [viewRaw_good t e ver x mt he hm]
  cases Gen.isExpired (e : Int) t <;> simp [vis]

theorem visAt_some (t : Int) (ht : 0 < t) (x : Bytes) (e : Nat) :
    visAt t (some (x, e)) = if Gen.isExpired (e : Int) t then none else some (x, e) := by
  have h := isExpired_iff ⟨e, 0, none⟩ t ht
  have hh : isExpired ⟨e, 0, none⟩ t = Gen.isExpired (e : Int) t := rfl
  rw [hh] at h
  simp only [visAt]
  by_cases hc : e ≠ 0 ∧ (e : Int) ≤ t / 1000000000
  · rw [if_pos hc, h.mpr hc]; rfl
  · rw [if_neg hc]
    cases hx : Gen.isExpired (e : Int) t with
    | false => rfl
    | true => exact absurd (h.mp hx) hc

theorem vis_put_good (t : Int) (ht : 0 < t) (e : Nat) (ver : Int) (x mt : Bytes) (he : e < 4294967296) (hm : mt.length = 8) :
    vis (viewRaw t (encFixed e ver ++ (x ++ mt))) = visAt t (some (x, e)) := by
  rw [vis_good t e ver x mt he hm, visAt_some t ht]

theorem vis_putH' (t : Int) (ht : 0 < t) (h : Hdr) (x : Bytes) (ts : Int) (he : h.expireAt < 4294967296) :
    vis (viewRaw t (putH h x ts)) = visAt t (some (x, h.expireAt)) := by
  rw [putH_eq, vis_put_good t ht _ _ _ _ he (be64_length _)]

theorem noOverflow {w : Int} (h : w < 4294967294) : Gen.expOverflow w = false := by
  cases hh : Gen.expOverflow w with
  | false => rfl
  | true => have := (expOverflow_iff _).mp hh; omega

/-- the expiry a duration argument gives, as the model computes it, is the spec's -/
theorem reset_spec (ts : Int) (hts : 0 < ts) (v : Bytes) (d : Int) (hno : 0 < d → ts / 1000000000 + d < 4294967294) :
    reset ts v d = .ok (encFixed (newExp ts d) 0 ++ (v ++ be64 (toU64 ts))) ∧ newExp ts d < 4294967296 := by
  have hdiv : Int.tdiv ts 1000000000 = ts / 1000000000 := Int.tdiv_eq_ediv_of_nonneg (by omega)
  have hnn : 0 ≤ ts / 1000000000 := Int.ediv_nonneg (by omega) (by decide)
  rw [reset_eq, hdiv]
  by_cases hd : d ≤ 0
  · simp [hd, newExp]
  · have h1 := hno (by omega)
    have hu : u32 (d + ts / 1000000000) = expAt ts d := by unfold u32 expAt; omega
    simp only [hd, if_false, noOverflow (show d + ts / 1000000000 < 4294967294 by omega), Bool.false_eq_true, newExp, hu]
    exact ⟨trivial, by unfold expAt; omega⟩


theorem newExp_zero (ts : Int) : newExp ts 0 = 0 := by simp [newExp]

theorem wrap64_of {x : Int} (h : inI64 x) : wrap64 x = x := by
  unfold wrap64 ofU64 toU64; unfold inI64 at h; omega

/-- the absent key: every command answers and acts like the spec on "no entry" -/
theorem refine_absent (c : KCmd) (ts : Int) (hts : 0 < ts) (hok : Conforms c ts .absent) :
    (kvCmd c ts .absent).2 = (specCmd c ts none).2 ∧
    ∀ t', ts ≤ t' → vis (effView t' .absent (kvCmd c ts .absent).1) = visAt t' (applyS (specCmd c ts none).1 none) := by
  have put_ok : ∀ (t' : Int), ts ≤ t' → ∀ (e : Nat) (ver : Int) (x mt : Bytes), e < 4294967296 → mt.length = 8 →
      vis (effView t' .absent (.put (encFixed e ver ++ (x ++ mt)))) = visAt t' (some (x, e)) := by
    intro t' h e ver x mt he hm
    simp only [effView]; exact vis_put_good t' (by omega) e ver x mt he hm
  cases c with
  | set v =>
    simp only [kvCmd, specCmd]
    by_cases hb : tooBig v = true
    · simp [hb, effView, vis, applyS, visAt]
    · have hr := reset_spec ts hts v 0 (by intro h; omega)
      simp only [hb, Bool.false_eq_true, if_false, hr.1, newExp_zero, applyS, true_and]
      intro t' h; exact put_ok t' h 0 0 v _ (by decide) (be64_length _)
  | setOpts v d nx xx =>
    have hr := reset_spec ts hts v d hok
    simp only [kvCmd, kvSetWithOpts, specCmd, live]
    by_cases hb : tooBig v = true
    · simp [hb, effView, vis, applyS, visAt]
    · by_cases hx : xx = true
      · simp [hb, hx, effView, vis, applyS, visAt]
      · simp only [hb, hx, Bool.false_eq_true, if_false, Option.isSome_none, Bool.and_false, Bool.false_and, hr.1, applyS, true_and,
          Option.isNone_none]
        intro t' h; exact put_ok t' h _ 0 v _ hr.2 (be64_length _)
  | setnx v =>
    have hr := reset_spec ts hts v 0 (by intro h; omega)
    simp only [kvCmd, kvSetWithOpts, specCmd, live]
    by_cases hb : tooBig v = true
    · simp [hb, effView, vis, applyS, visAt]
    · simp only [hb, Bool.false_eq_true, if_false, Option.isSome_none, Bool.and_false, Bool.false_and, hr.1, applyS, true_and,
        newExp_zero, Bool.not_false, Bool.and_true]
      intro t' h; exact put_ok t' h 0 0 v _ (by decide) (be64_length _)
  | setex d v =>
    simp only [kvCmd, specCmd]
    by_cases hd : d ≤ 0
    · simp [hd, effView, vis, applyS, visAt]
    · by_cases hb : tooBig v = true
      · simp [hd, hb, effView, vis, applyS, visAt]
      · by_cases ho : 4294967294 ≤ ts / 1000000000 + d
        · have hdiv : Int.tdiv ts 1000000000 = ts / 1000000000 := Int.tdiv_eq_ediv_of_nonneg (by omega)
          have hyes : Gen.expOverflow (d + ts / 1000000000) = true := (expOverflow_iff _).mpr (by omega)
          simp [hd, hb, ho, reset_eq, hdiv, hyes, eerr, effView, vis, applyS, visAt]
        · have hr := reset_spec ts hts v d (by intro _; omega)
          have hne : newExp ts d = expAt ts d := by simp [newExp, hd]
          simp only [hd, hb, ho, Bool.false_eq_true, if_false, hr.1, hne, applyS, true_and]
          intro t' h; exact put_ok t' h _ 0 v _ (hne ▸ hr.2) (be64_length _)
  | setifeq old new d =>
    have hr := reset_spec ts hts new d hok.2
    simp only [kvCmd, specCmd, ifeqRefuses, valOf, Option.map_none, Option.getD_none]
    simp only [show (([] : Bytes) != old) = (old != []) from bne_comm]
    by_cases hb : tooBig new = true
    · simp [hb, effView, vis, applyS, visAt]
    · by_cases ho : (old != []) = true
      · simp [hb, ho, effView, vis, applyS, visAt]
      · simp only [hb, ho, Bool.false_eq_true, if_false, hr.1, applyS, true_and]
        intro t' h; exact put_ok t' h _ 0 new _ hr.2 (be64_length _)
  | delifeq old =>
    simp only [kvCmd, specCmd, ifeqRefuses, valOf, Option.map_none, Option.getD_none, isAbsent]
    simp only [show (([] : Bytes) != old) = (old != []) from bne_comm]
    by_cases ho : (old != []) = true
    · simp only [ho, if_true]; simp [effView, vis, applyS, visAt]
    · simp only [ho, Bool.false_eq_true, if_false]; simp [effView, vis, applyS, visAt]
  | getset v =>
    have hr := reset_spec ts hts v 0 (by intro h; omega)
    simp only [kvCmd, specCmd, live]
    by_cases hb : tooBig v = true
    · simp [hb, effView, vis, applyS, visAt]
    · simp only [hb, Bool.false_eq_true, if_false, hr.1, newExp_zero, applyS, true_and]
      intro t' h; exact put_ok t' h 0 0 v _ (by decide) (be64_length _)
  | incrby d =>
    have hd : inI64 d := hok
    simp only [kvCmd, specCmd, isAbsent, isExpiredV, Gen.incrFromZero, Bool.true_or, if_true, Int.zero_add, wrap64_of hd,
      hdrForWrite, fresh, applyS, putH_eq, true_and]
    intro t' h; exact put_ok t' h 0 0 _ _ (by decide) (be64_length _)
  | append v =>
    have hv : v.isEmpty = false := hok
    simp only [kvCmd, specCmd, hv, Bool.false_eq_true, if_false, live, Option.getD_none, valOf, Option.map_none, hdrForWrite, fresh]
    by_cases hl : ([] : Bytes).length + v.length > Gen.cMaxValueSize
    · simp only [hl, if_true]; simp [effView, vis, applyS, visAt]
    · simp only [hl, if_false, applyS, putH_eq, true_and]
      intro t' h; exact put_ok t' h 0 0 _ _ (by decide) (be64_length _)
  | setrange off v =>
    simp only [kvCmd, specCmd, live, Option.getD_none, valOf, Option.map_none, hdrForWrite, fresh]
    by_cases h1 : off < 0
    · simp only [h1, if_true]; simp [effView, vis, applyS, visAt]
    · simp only [h1, if_false]
      by_cases he : v.isEmpty = true
      · simp only [he, if_true]; simp [effView, vis, applyS, visAt]
      · simp only [he, Bool.false_eq_true, if_false]
        by_cases hl : (v.length : Int) + off > Gen.cMaxValueSize
        · simp only [hl, if_true]; simp [effView, vis, applyS, visAt]
        · simp only [hl, if_false, applyS, putH_eq, true_and]
          intro t' h; exact put_ok t' h 0 0 _ _ (by decide) (be64_length _)
  | expire d => simp [kvCmd, specCmd, effView, vis, applyS, visAt]
  | persist => simp [kvCmd, specCmd, effView, vis, applyS, visAt]
  | del => simp [kvCmd, specCmd, isAbsent, effView, vis, applyS, visAt]


/-- a key that is live at log time `ts`: every conforming command answers and acts like the spec on its entry -/
theorem refine_live (c : KCmd) (ts : Int) (hts : 0 < ts) (e : Nat) (ver : Int) (u mt : Bytes)
    (he : e < 4294967296) (hm : mt.length = 8) (hx : Gen.isExpired (e : Int) ts = false)
    (hok : Conforms c ts (.val (encFixed e ver ++ (u ++ mt)) ⟨e, ofU64 (toU64 ver), some u⟩ u false)) :
    (kvCmd c ts (.val (encFixed e ver ++ (u ++ mt)) ⟨e, ofU64 (toU64 ver), some u⟩ u false)).2 = (specCmd c ts (some (u, e))).2 ∧
    ∀ t', ts ≤ t' →
      vis (effView t' (.val (encFixed e ver ++ (u ++ mt)) ⟨e, ofU64 (toU64 ver), some u⟩ u (Gen.isExpired (e : Int) t'))
        (kvCmd c ts (.val (encFixed e ver ++ (u ++ mt)) ⟨e, ofU64 (toU64 ver), some u⟩ u false)).1) =
      visAt t' (applyS (specCmd c ts (some (u, e))).1 (some (u, e))) := by
  have put_ok : ∀ (t' : Int), ts ≤ t' → ∀ (V : View) (e' : Nat) (ver' : Int) (x mt' : Bytes), e' < 4294967296 → mt'.length = 8 →
      vis (effView t' V (.put (encFixed e' ver' ++ (x ++ mt')))) = visAt t' (some (x, e')) := by
    intro t' h V e' ver' x mt' he' hm'
    simp only [effView]; exact vis_put_good t' (by omega) e' ver' x mt' he' hm'
  have keep_ok : ∀ (t' : Int), ts ≤ t' →
      vis (effView t' (.val (encFixed e ver ++ (u ++ mt)) ⟨e, ofU64 (toU64 ver), some u⟩ u (Gen.isExpired (e : Int) t')) .keep) =
        visAt t' (some (u, e)) := by
    intro t' h
    rw [visAt_some t' (by omega)]
    cases Gen.isExpired (e : Int) t' <;> simp [effView, vis]
  have hdiv : Int.tdiv ts 1000000000 = ts / 1000000000 := Int.tdiv_eq_ediv_of_nonneg (by omega)
  have hnn : 0 ≤ ts / 1000000000 := Int.ediv_nonneg (by omega) (by decide)
  cases c with
  | set v =>
    simp only [kvCmd, specCmd]
    by_cases hb : tooBig v = true
    · simp only [hb, if_true, applyS, true_and]; exact keep_ok
    · have hr := reset_spec ts hts v 0 (by intro h; omega)
      simp only [hb, Bool.false_eq_true, if_false, hr.1, newExp_zero, applyS, true_and]
      intro t' h; exact put_ok t' h _ 0 0 v _ (by decide) (be64_length _)
  | setOpts v d nx xx =>
    have hr := reset_spec ts hts v d hok
    simp only [kvCmd, kvSetWithOpts, specCmd, live]
    by_cases hb : tooBig v = true
    · simp only [hb, if_true, applyS, true_and]; exact keep_ok
    · by_cases hn : nx = true
      · simp only [hb, hn, Bool.false_eq_true, if_false, Option.isSome_some, Bool.and_self, if_true, applyS, true_and]; exact keep_ok
      · simp only [hb, hn, Bool.false_eq_true, if_false, Option.isSome_some, Bool.false_and, Bool.not_true, Bool.and_false, hr.1,
          applyS, true_and, Option.isNone_some]
        intro t' h; exact put_ok t' h _ _ 0 v _ hr.2 (be64_length _)
  | setnx v =>
    simp only [kvCmd, kvSetWithOpts, specCmd, live]
    by_cases hb : tooBig v = true
    · simp only [hb, if_true, applyS, true_and]; exact keep_ok
    · simp only [hb, Bool.false_eq_true, if_false, Option.isSome_some, Bool.and_self, if_true, applyS, true_and]; exact keep_ok
  | setex d v =>
    simp only [kvCmd, specCmd]
    by_cases hd : d ≤ 0
    · simp only [hd, if_true, applyS, true_and]; exact keep_ok
    · by_cases hb : tooBig v = true
      · simp only [hd, hb, if_true, if_false, applyS, true_and]; exact keep_ok
      · by_cases ho : 4294967294 ≤ ts / 1000000000 + d
        · have hyes : Gen.expOverflow (d + ts / 1000000000) = true := (expOverflow_iff _).mpr (by omega)
          simp only [hd, hb, ho, reset_eq, hdiv, hyes, eerr, if_true, if_false, Bool.false_eq_true, applyS, true_and]; exact keep_ok
        · have hr := reset_spec ts hts v d (by intro _; omega)
          have hne : newExp ts d = expAt ts d := by simp [newExp, hd]
          simp only [hd, hb, ho, Bool.false_eq_true, if_false, hr.1, hne, applyS, true_and]
          intro t' h; exact put_ok t' h _ _ 0 v _ (hne ▸ hr.2) (be64_length _)
  | setifeq old new d =>
    have hr := reset_spec ts hts new d hok.2
    simp only [kvCmd, specCmd, ifeqRefuses, valOf, Option.map_some, Option.getD_some, Bool.not_false, Bool.and_true]
    by_cases hb : tooBig new = true
    · simp only [hb, if_true, applyS, true_and]; exact keep_ok
    · by_cases ho : (u != old) = true
      · simp only [hb, ho, Bool.false_eq_true, if_false, if_true, applyS, true_and]; exact keep_ok
      · simp only [hb, ho, Bool.false_eq_true, if_false, hr.1, applyS, true_and]
        intro t' h; exact put_ok t' h _ _ 0 new _ hr.2 (be64_length _)
  | delifeq old =>
    simp only [kvCmd, specCmd, ifeqRefuses, valOf, Option.map_some, Option.getD_some, Bool.not_false, Bool.and_true, isAbsent]
    by_cases ho : (u != old) = true
    · simp only [ho, if_true, applyS, true_and]; exact keep_ok
    · simp only [ho, Bool.false_eq_true, if_false, applyS]; simp [effView, vis, visAt]
  | getset v =>
    have hr := reset_spec ts hts v 0 (by intro h; omega)
    simp only [kvCmd, specCmd, live]
    by_cases hb : tooBig v = true
    · simp only [hb, if_true, applyS, true_and]; exact keep_ok
    · simp only [hb, Bool.false_eq_true, if_false, hr.1, newExp_zero, applyS, true_and]
      intro t' h; exact put_ok t' h _ 0 0 v _ (by decide) (be64_length _)
  | incrby d =>
    have hc : ∀ n, parseInt u = .ok n → inI64 (n + d) := hok
    simp only [kvCmd, specCmd, isAbsent, isExpiredV, Gen.incrFromZero, Bool.or_self, Bool.false_eq_true, if_false, live,
      Option.getD_some, hdrForWrite]
    cases hp : parseInt u with
    | «syntax» => simp only [applyS, true_and]; exact keep_ok
    | range => simp only [applyS, true_and]; exact keep_ok
    | ok n =>
      simp only [wrap64_of (hc n hp), applyS, putH_eq, true_and]
      intro t' h; exact put_ok t' h _ e _ _ _ he (be64_length _)
  | append v =>
    have hv : v.isEmpty = false := hok
    simp only [kvCmd, specCmd, hv, Bool.false_eq_true, if_false, live, Option.getD_some, valOf, Option.map_some, hdrForWrite]
    by_cases hl : u.length + v.length > Gen.cMaxValueSize
    · simp only [hl, if_true, applyS, true_and]; exact keep_ok
    · simp only [hl, if_false, applyS, putH_eq, true_and]
      intro t' h; exact put_ok t' h _ e _ _ _ he (be64_length _)
  | setrange off v =>
    have hv : v.isEmpty = false := by
      rcases hok with h | h
      · exact h
      · simp [live] at h
    simp only [kvCmd, specCmd, live, Option.getD_some, valOf, Option.map_some, hdrForWrite, hv, Bool.false_eq_true, if_false]
    by_cases h1 : off < 0
    · simp only [h1, if_true, applyS, true_and]; exact keep_ok
    · simp only [h1, if_false]
      by_cases hl : (v.length : Int) + off > Gen.cMaxValueSize
      · simp only [hl, if_true, applyS, true_and]; exact keep_ok
      · simp only [hl, if_false, applyS, putH_eq, true_and]
        intro t' h; exact put_ok t' h _ e _ _ _ he (be64_length _)
  | expire d =>
    have hpos : 0 < ts / 1000000000 + d := hok (by simp [live])
    simp only [kvCmd, specCmd, hdiv]
    rw [rawExpireAt_encFixed e ver _ _ he]
    by_cases ho : 4294967294 ≤ ts / 1000000000 + d
    · have hyes : Gen.expOverflow (ts / 1000000000 + d) = true := (expOverflow_iff _).mpr ho
      simp only [hyes, if_true, ho, eerr, applyS, true_and]; exact keep_ok
    · have hu : u32 (ts / 1000000000 + d) = expAt ts d := by unfold u32 expAt; omega
      have hlt : expAt ts d < 4294967296 := by unfold expAt; omega
      simp only [noOverflow (show ts / 1000000000 + d < 4294967294 by omega), Bool.false_eq_true, if_false, ho, hu]
      by_cases hd : d ≤ 0
      · simp only [hd, if_true, applyS, true_and]
        intro t' h
        rw [put_ok t' h _ _ _ u mt hlt hm]
        have h3 : ts / 1000000000 ≤ t' / 1000000000 := Int.ediv_le_ediv (by decide) h
        have hne : expAt ts d ≠ 0 := by unfold expAt; omega
        have hle : (expAt ts d : Int) ≤ t' / 1000000000 := by unfold expAt; omega
        simp [visAt, hne, hle]
      · simp only [hd, if_false, applyS, true_and]
        intro t' h; exact put_ok t' h _ _ _ u mt hlt hm
  | persist =>
    have hne : e ≠ 0 := hok _ _ _ rfl
    have hno : Gen.expOverflow 0 = false := by decide
    have hu0 : u32 0 = 0 := by decide
    simp only [kvCmd, specCmd, hne, if_false]
    rw [rawExpireAt_encFixed e ver _ _ he]
    simp only [hno, Bool.false_eq_true, if_false, hu0, applyS, true_and]
    intro t' h; exact put_ok t' h _ 0 _ u mt (by decide) hm
  | del =>
    simp only [kvCmd, specCmd, isAbsent, Bool.false_eq_true, if_false, applyS]
    simp [effView, vis, visAt]


theorem conforms_dead (c : KCmd) (hc : followsDeadRule c = true) (ts : Int) (raw : Bytes) (H : Hdr) (u : Bytes)
    (h : Conforms c ts (.val raw H u true)) : Conforms c ts .absent := by
  cases c <;> simp_all [Conforms, followsDeadRule, live]

/-- the key holds nothing or a well-formed value -/
def GoodAt (m : List KV) (k : Bytes) : Prop := Z.Ref.get m (kvKey k) = none ∨ ∃ e u, Stored m k e u

/-- view-level core of the refinement: absent / live / expired -/
theorem refine_key {m : List KV} {k : Bytes} (hg : GoodAt m k) {ts : Int} (hts : 0 < ts) (c : KCmd)
    (hok : Conforms c ts (view m ts k)) :
    (kvCmd c ts (view m ts k)).2 = (specCmd c ts (absKV m ts k)).2 ∧
    ∀ t', ts ≤ t' → vis (effView t' (view m t' k) (kvCmd c ts (view m ts k)).1) =
      visAt t' (applyS (specCmd c ts (absKV m ts k)).1 (absKV m ts k)) := by
  rcases hg with hn | ⟨e, u, hst⟩
  · have hv : ∀ t, view m t k = .absent := fun t => view_of_none t hn
    simp only [absKV, hv] at hok ⊢
    exact refine_absent c ts hts hok
  · obtain ⟨ver, mt, hm, hv⟩ := view_stored hst
    cases hx : Gen.isExpired (e : Int) ts with
    | false =>
      simp only [absKV, hv, hx] at hok ⊢
      exact refine_live c ts hts e ver u mt hst.1 hm hx hok
    | true =>
      simp only [absKV, hv, hx] at hok ⊢
      have hlater : ∀ t', ts ≤ t' → Gen.isExpired (e : Int) t' = true := fun t' h =>
        isExpired_mono ⟨e, 0, none⟩ hts h hx
      by_cases hc : followsDeadRule c = true
      · have hd := dead_cmd c hc ts (encFixed e ver ++ (u ++ mt)) ⟨e, ofU64 (toU64 ver), some u⟩ u
        have ha := refine_absent c ts hts (conforms_dead c hc ts _ _ _ hok)
        refine ⟨by rw [hd.1]; exact ha.1, fun t' h => ?_⟩
        rw [hlater t' h, hd.2 t']
        exact ha.2 t' h
      · cases c <;> simp_all [Conforms, followsDeadRule, isExpiredV]

end Z.KVRefine
