/-
  The REAL sorted-set codec (`Z.ZSetExec.realFns`, i.e. the encoders / decoders of `Z.Codec` that the `codec`
  and `datacorezset` correspondences compare byte for byte with rockredis) satisfies every abstract codec fact of
  `Z.ZSetInv.Enc`, for redis keys `table:key` whose table and key part fit the 2-byte length fields (the server
  enforces 255 / 10240), non-NaN 64-bit score patterns and fewer than 2^63 stored keys:
  consequences of the C12 theorems (`Props/C12.lean`, `Props/C12Float.lean` / `FloatLemmas`, `ZCodecLemmas`).
  Keys of other data types (first byte not ZSetType / ZSizeType / ZScoreType) are `foreign`.
-/
import ZanVerif.Data.ZSetInv
import ZanVerif.Data.FloatLemmas
import ZanVerif.Data.ZCodecLemmas
import ZanVerif.Props.C12

namespace Z.ZSetReal
open Z.Codec Z.ZSetExec

abbrev Bytes := List UInt8

/-- in-limit redis key: `table:key` with both parts inside the 16-bit length fields -/
def okKey (k : Bytes) : Prop :=
  ∃ t r, extractTable k = some (t, r) ∧ t.length < 65536 ∧ r.length < 65536

/-- a key of another data type: its first byte is none of the three sorted-set type bytes -/
def foreignKey (x : Bytes) : Prop :=
  match x with
  | [] => True
  | b :: _ => b ≠ Gen.cZSetType ∧ b ≠ Gen.cZSizeType ∧ b ≠ Gen.cZScoreType

/-! ### redis key ↔ (table, key part) -/

theorem indexByte_split : ∀ (raw : Bytes) (c : UInt8) (i : Nat), indexByte raw c = some i →
    raw = raw.take i ++ c :: raw.drop (i + 1)
  | [], _, _, h => by simp [indexByte] at h
  | b :: r, c, i, h => by
    unfold indexByte at h
    split at h
    · rename_i hb
      cases h
      simp [hb]
    · cases hi : indexByte r c with
      | none => simp [hi] at h
      | some j =>
        simp only [hi, Option.map_some, Option.some.injEq] at h
        subst h
        have := indexByte_split r c j hi
        simp only [List.take_succ_cons, List.drop_succ_cons, List.cons_append, List.cons.injEq, true_and]
        exact this

theorem extractTable_eq {k t r : Bytes} (h : extractTable k = some (t, r)) : k = t ++ Gen.cTableStartSep :: r := by
  unfold extractTable at h
  cases hi : indexByte k Gen.cTableStartSep with
  | none => simp [hi] at h
  | some i =>
    simp only [hi, Option.some.injEq, Prod.mk.injEq] at h
    rw [← h.1, ← h.2]
    exact indexByte_split k _ i hi

theorem splitKey_ok {k : Bytes} (h : okKey k) :
    ∃ t r, splitKey k = (t, r) ∧ k = t ++ Gen.cTableStartSep :: r ∧ t.length < 65536 ∧ r.length < 65536 := by
  obtain ⟨t, r, he, ht, hr⟩ := h
  exact ⟨t, r, by simp [splitKey, he], extractTable_eq he, ht, hr⟩

/-! ### byte strings between two strings with a common prefix -/

theorem between_prefix : ∀ (P a b x : Bytes), P ++ a ≤ x → x ≤ P ++ b → ∃ y, x = P ++ y
  | [], _, _, x, _, _ => ⟨x, rfl⟩
  | p :: P, a, b, [], h1, _ => by simp at h1
  | p :: P, a, b, y :: x, h1, h2 => by
    simp only [List.cons_append] at h1 h2
    have e1 := List.cons_le_cons_iff.mp h1
    have e2 := List.cons_le_cons_iff.mp h2
    have hy : y = p := by
      rcases e1 with h | ⟨h, _⟩
      · rcases e2 with h' | ⟨h', _⟩
        · exfalso
          have a1 : p.toNat < y.toNat := h
          have a2 : y.toNat < p.toNat := h'
          omega
        · exact h'
      · exact h.symm
    subst hy
    have t1 : P ++ a ≤ x := by
      rcases e1 with h | ⟨_, h⟩
      · exact absurd h (by intro (c : y.toNat < y.toNat); omega)
      · exact h
    have t2 : x ≤ P ++ b := by
      rcases e2 with h | ⟨_, h⟩
      · exact absurd h (by intro (c : y.toNat < y.toNat); omega)
      · exact h
    obtain ⟨z, hz⟩ := between_prefix P a b x t1 t2
    exact ⟨z, by rw [hz]; rfl⟩

/-! ### float `==` of the model is `feqBits` -/

theorem feqB_iff {a b : Nat} (ha : NonNaN a) (hb : NonNaN b) : feqB a b = true ↔ feqBits a b := by
  unfold feqB isZeroB feqBits isZeroBits
  simp only [ha.2, hb.2, Bool.not_false, Bool.true_and, Bool.or_eq_true, beq_iff_eq, Bool.and_eq_true,
    Z.ZSetExec.two63, Z.Codec.two63]

theorem feqB_imp {a b : Nat} (h : feqB a b = true) : feqBits a b := by
  unfold feqB isZeroB at h
  unfold feqBits isZeroBits
  simp only [Bool.and_eq_true, Bool.not_eq_true', Bool.or_eq_true, beq_iff_eq, Z.ZSetExec.two63] at h
  simp only [Z.Codec.two63]
  exact h.2

theorem feqB_symm (a b : Nat) (h : feqB a b = true) : feqB b a = true := by
  unfold feqB isZeroB at *
  simp only [Bool.and_eq_true, Bool.not_eq_true', Bool.or_eq_true, beq_iff_eq] at h ⊢
  obtain ⟨⟨h1, h2⟩, h3⟩ := h
  refine ⟨⟨h2, h1⟩, ?_⟩
  rcases h3 with h | ⟨h, h'⟩
  · exact Or.inl h.symm
  · exact Or.inr ⟨h', h⟩

theorem feqB_trans (a b c : Nat) (h : feqB a b = true) (h' : feqB b c = true) : feqB a c = true := by
  unfold feqB isZeroB at *
  simp only [Bool.and_eq_true, Bool.not_eq_true', Bool.or_eq_true, beq_iff_eq] at h h' ⊢
  obtain ⟨⟨h1, h2⟩, h3⟩ := h
  obtain ⟨⟨h4, h5⟩, h6⟩ := h'
  refine ⟨⟨h1, h5⟩, ?_⟩
  rcases h3 with rfl | ⟨ha, hb⟩
  · exact h6
  · rcases h6 with rfl | ⟨_, hc⟩
    · exact Or.inr ⟨ha, hb⟩
    · exact Or.inr ⟨ha, hc⟩

/-! ### shapes of the real keys -/

theorem zset_ne_kv : Gen.cZSetType ≠ Gen.cKVType := by decide
theorem zscore_ne_kv : Gen.cZScoreType ≠ Gen.cKVType := by decide

theorem memK_eq (k mem : Bytes) :
    realFns.memK k mem = Gen.cZSetType :: (be16 (splitKey k).1.length ++ ((splitKey k).1 ++
      (Gen.cTableStartSep :: (be16 (splitKey k).2.length ++ ((splitKey k).2 ++ (Gen.cCollStartSep :: mem)))))) := by
  simp [realFns, collSubKey, Z.Props.C12.nonKV_prefix zset_ne_kv, List.append_assoc]

theorem memStop_eq (k : Bytes) :
    realFns.memStop k = Gen.cZSetType :: (be16 (splitKey k).1.length ++ ((splitKey k).1 ++
      (Gen.cTableStartSep :: (be16 (splitKey k).2.length ++ ((splitKey k).2 ++ [Gen.cCollStartSep + 1]))))) := by
  simp [realFns, collStop, Z.Props.C12.nonKV_prefix zset_ne_kv, List.append_assoc]

theorem metaK_eq (k : Bytes) : realFns.metaK k = Gen.cZSizeType :: (Gen.cMetaPrefix ++ k) := rfl

/-- every score-key shape starts with the ZScoreType table prefix -/
theorem zscoreKey_prefix (t r mem : Bytes) (s : Nat) (sep ssep : Int) :
    ∃ y, zscoreKey t r mem s sep ssep = Gen.cZScoreType :: (be16 t.length ++ (t ++ (Gen.cTableStartSep :: y))) := by
  refine ⟨memcmpEncode [.bytes r, .int sep, .floatBits s, .int ssep, .bytes mem], ?_⟩
  simp [zscoreKey, Z.Props.C12.nonKV_prefix zscore_ne_kv, List.append_assoc]

theorem scoreK_eq (k mem : Bytes) (s : Nat) : realFns.scoreK k s mem = zScoreK (splitKey k).1 (splitKey k).2 mem s := rfl

/-! ### the facts -/

theorem score_rt (s : Nat) (h : NonNaN s) : realFns.decScore (realFns.encScore s) = some s := by
  simp only [realFns, getFloat64, putFloat64, be64_length]
  simp only [show (8 : Nat) ≠ 0 by decide, ↓reduceIte, ne_eq, not_true_eq_false]
  rw [be64, Z.Stream.fromBE_beN 8 s (by have := h.1; simp only [two64] at this; omega)]

theorem size_rt (n : Nat) (ts : Int) (h : n < 2 ^ 63) : realFns.sizeOf (realFns.encSize n ts) = some (n : Int) := by
  simp only [realFns, zMetaSize, zMetaVal, List.length_append, be64_length]
  simp only [show (8 + 8 : Nat) ≠ 0 by decide, show ¬ (8 + 8 : Nat) < 8 by decide, ↓reduceIte]
  have ht : (be64 (toU64 (n : Int)) ++ be64 (toU64 ts)).take 8 = be64 (toU64 (n : Int)) :=
    take_append_length' _ _ (be64_length _)
  rw [ht]
  have hn : toU64 (n : Int) = n := by unfold toU64; omega
  rw [hn, be64, Z.Stream.fromBE_beN 8 n (by omega)]
  unfold ofU64
  have : n < 9223372036854775808 := by omega
  simp [this]

theorem mem_inj (k mem k' mem' : Bytes) (hk : okKey k) (hk' : okKey k')
    (h : realFns.memK k mem = realFns.memK k' mem') : k = k' ∧ mem = mem' := by
  obtain ⟨t, r, hs, he, ht, hr⟩ := splitKey_ok hk
  obtain ⟨t', r', hs', he', ht', hr'⟩ := splitKey_ok hk'
  have h2 : collSubKey Gen.cZSetType t r mem = collSubKey Gen.cZSetType t' r' mem' := by
    simpa [realFns, hs, hs'] using h
  have := Z.Props.C12.C12_encode_injective (.sub Gen.cZSetType t r mem) (.sub Gen.cZSetType t' r' mem')
    ⟨Or.inr (Or.inr rfl), ht, hr⟩ ⟨Or.inr (Or.inr rfl), ht', hr'⟩ h2
  simp only [Z.Props.C12.Tuple.sub.injEq, true_and] at this
  obtain ⟨rfl, rfl, rfl⟩ := this
  exact ⟨by rw [he, he'], rfl⟩

theorem meta_inj (k k' : Bytes) (h : realFns.metaK k = realFns.metaK k') : k = k' := by
  simp only [metaK_eq, List.cons.injEq, true_and] at h
  exact List.append_cancel_left h

theorem score_eq_iff (k : Bytes) (s : Nat) (mem k' : Bytes) (s' : Nat) (mem' : Bytes) (hk : okKey k) (hk' : okKey k')
    (hs : NonNaN s) (hs' : NonNaN s') :
    (realFns.scoreK k s mem = realFns.scoreK k' s' mem' ↔ k = k' ∧ mem = mem' ∧ feqB s s' = true) := by
  obtain ⟨t, r, hsp, he, ht, hr⟩ := splitKey_ok hk
  obtain ⟨t', r', hsp', he', ht', hr'⟩ := splitKey_ok hk'
  rw [scoreK_eq, scoreK_eq, hsp, hsp', feqB_iff hs hs']
  constructor
  · intro h
    obtain ⟨rfl, rfl, rfl, hf⟩ := zScoreK_inj ht ht' hs hs' h
    exact ⟨by rw [he, he'], rfl, hf⟩
  · rintro ⟨hkk, rfl, hf⟩
    have : (t, r) = (t', r') := by
      have := hsp
      rw [hkk, hsp'] at this
      exact this.symm
    cases this
    exact zscoreKey_congr_feq t r mem _ _ hs hs' hf

theorem meta_ne_mem (k k' mem : Bytes) : realFns.metaK k ≠ realFns.memK k' mem := by
  rw [metaK_eq, memK_eq]
  intro h
  simp only [List.cons.injEq] at h
  exact absurd h.1 (by decide)

theorem meta_ne_score (k k' : Bytes) (s : Nat) (mem : Bytes) : realFns.metaK k ≠ realFns.scoreK k' s mem := by
  rw [metaK_eq, scoreK_eq]
  obtain ⟨y, hy⟩ := zscoreKey_prefix (splitKey k').1 (splitKey k').2 mem s sepI scoreSepI
  unfold zScoreK
  rw [hy]
  intro h
  simp only [List.cons.injEq] at h
  exact absurd h.1 (by decide)

theorem mem_ne_score (k mem k' : Bytes) (s : Nat) (mem' : Bytes) : realFns.memK k mem ≠ realFns.scoreK k' s mem' := by
  rw [memK_eq, scoreK_eq]
  obtain ⟨y, hy⟩ := zscoreKey_prefix (splitKey k').1 (splitKey k').2 mem' s sepI scoreSepI
  unfold zScoreK
  rw [hy]
  intro h
  simp only [List.cons.injEq] at h
  exact absurd h.1 (by decide)

theorem foreign_ne_meta (x k : Bytes) (hf : foreignKey x) : x ≠ realFns.metaK k := by
  intro e; rw [e, metaK_eq] at hf; exact hf.2.1 rfl

theorem foreign_ne_mem (x k mem : Bytes) (hf : foreignKey x) : x ≠ realFns.memK k mem := by
  intro e; rw [e, memK_eq] at hf; exact hf.1 rfl

theorem foreign_ne_score (x k : Bytes) (s : Nat) (mem : Bytes) (hf : foreignKey x) : x ≠ realFns.scoreK k s mem := by
  intro e
  obtain ⟨y, hy⟩ := zscoreKey_prefix (splitKey k).1 (splitKey k).2 mem s sepI scoreSepI
  rw [e, scoreK_eq] at hf
  unfold zScoreK at hf
  rw [hy] at hf
  exact hf.2.2 rfl

theorem mem_range (k x : Bytes) :
    ((realFns.memK k [] ≤ x ∧ x < realFns.memStop k) ↔ ∃ mem, x = realFns.memK k mem) := by
  simp only [realFns]
  have := Z.Props.C12.C12_coll_range_exact Gen.cZSetType (splitKey k).1 (splitKey k).2 x
  simpa [collStart] using this

theorem idx_self (k : Bytes) (s : Nat) (mem : Bytes) (hs : NonNaN s) :
    realFns.idxStart k < realFns.scoreK k s mem ∧ realFns.scoreK k s mem < realFns.idxStop k :=
  zScoreK_in_idx _ _ mem hs

/-- whatever lies in an index range starts with the ZScoreType prefix of the range's table -/
theorem in_idx_prefix (k x : Bytes) (h : realFns.idxStart k ≤ x ∧ x ≤ realFns.idxStop k) :
    ∃ y, x = Gen.cZScoreType :: (be16 (splitKey k).1.length ++ ((splitKey k).1 ++ (Gen.cTableStartSep :: y))) := by
  obtain ⟨a, ha⟩ := zscoreKey_prefix (splitKey k).1 (splitKey k).2 [] 0 (sepI - 1) scoreSepI
  obtain ⟨b, hb⟩ := zscoreKey_prefix (splitKey k).1 (splitKey k).2 [] 0 (sepI + 1) scoreSepI
  have h1 : realFns.idxStart k = (Gen.cZScoreType :: (be16 (splitKey k).1.length ++ ((splitKey k).1 ++ [Gen.cTableStartSep]))) ++ a := by
    show zIdxStart _ _ = _
    unfold zIdxStart; rw [ha]; simp [List.append_assoc]
  have h2 : realFns.idxStop k = (Gen.cZScoreType :: (be16 (splitKey k).1.length ++ ((splitKey k).1 ++ [Gen.cTableStartSep]))) ++ b := by
    show zIdxStop _ _ = _
    unfold zIdxStop; rw [hb]; simp [List.append_assoc]
  rw [h1, h2] at h
  obtain ⟨y, hy⟩ := between_prefix _ a b x h.1 h.2
  exact ⟨y, by rw [hy]; simp [List.append_assoc]⟩

theorem idx_other (k k' : Bytes) (s : Nat) (mem : Bytes) (hk : okKey k) (hk' : okKey k') (hs : NonNaN s) (hne : k' ≠ k) :
    ¬ (realFns.idxStart k ≤ realFns.scoreK k' s mem ∧ realFns.scoreK k' s mem ≤ realFns.idxStop k) := by
  intro h
  obtain ⟨t, r, hsp, he, ht, hr⟩ := splitKey_ok hk
  obtain ⟨t', r', hsp', he', ht', hr'⟩ := splitKey_ok hk'
  obtain ⟨y, hy⟩ := in_idx_prefix k _ h
  obtain ⟨y', hy'⟩ := zscoreKey_prefix t' r' mem s sepI scoreSepI
  rw [scoreK_eq, hsp'] at hy
  unfold zScoreK at hy
  rw [hy', hsp] at hy
  simp only [List.cons.injEq, true_and] at hy
  have htt := (lenPrefixed_inj ht' ht hy).1
  subst htt
  have hrr : r ≠ r' := fun e => hne (by rw [he, he', e])
  have := zScoreK_not_in_idx t' r r' mem hs hrr
  apply this
  have e1 : realFns.idxStart k = zIdxStart t' r := by show zIdxStart _ _ = _; rw [hsp]
  have e2 : realFns.idxStop k = zIdxStop t' r := by show zIdxStop _ _ = _; rw [hsp]
  have e3 : realFns.scoreK k' s mem = zScoreK t' r' mem s := by rw [scoreK_eq, hsp']
  rw [e1, e2, e3] at h
  exact h

theorem idx_not_mem (k k' mem : Bytes) :
    ¬ (realFns.idxStart k ≤ realFns.memK k' mem ∧ realFns.memK k' mem ≤ realFns.idxStop k) := by
  intro h
  obtain ⟨y, hy⟩ := in_idx_prefix k _ h
  rw [memK_eq] at hy
  simp only [List.cons.injEq] at hy
  exact absurd hy.1 (by decide)

theorem idx_not_meta (k k' : Bytes) :
    ¬ (realFns.idxStart k ≤ realFns.metaK k' ∧ realFns.metaK k' ≤ realFns.idxStop k) := by
  intro h
  obtain ⟨y, hy⟩ := in_idx_prefix k _ h
  rw [metaK_eq] at hy
  simp only [List.cons.injEq] at hy
  exact absurd hy.1 (by decide)

theorem idx_not_foreign (k x : Bytes) (hf : foreignKey x) :
    ¬ (realFns.idxStart k ≤ x ∧ x ≤ realFns.idxStop k) := by
  intro h
  obtain ⟨y, hy⟩ := in_idx_prefix k _ h
  rw [hy] at hf
  exact hf.2.2 rfl

theorem score_lo_ge (k : Bytes) (a : Nat) (ha : NonNaN a) : realFns.idxStart k ≤ realFns.scoreLo k a :=
  List.le_of_lt (zScoreLo_gt_idxStart _ _ ha.1)

theorem score_hi_le (k : Bytes) (b : Nat) (hb : NonNaN b) : realFns.scoreHi k b ≤ realFns.idxStop k :=
  List.le_of_lt (zScoreHi_lt_idxStop _ _ hb.1)

theorem memStop_unknown (k : Bytes) (hk : okKey k) :
    ¬ Z.ZSetInv.KnownF realFns okKey NonNaN foreignKey (realFns.memStop k) := by
  obtain ⟨t, r, hsp, he, ht, hr⟩ := splitKey_ok hk
  rintro (⟨k', _, e⟩ | ⟨k', mem, hk', e⟩ | ⟨k', s, mem, _, _, e⟩ | hf)
  · rw [memStop_eq, metaK_eq] at e
    simp only [List.cons.injEq] at e
    exact absurd e.1 (by decide)
  · obtain ⟨t', r', hsp', he', ht', hr'⟩ := splitKey_ok hk'
    rw [memStop_eq, memK_eq, hsp, hsp'] at e
    simp only [List.cons.injEq, true_and] at e
    obtain ⟨rfl, e2⟩ := lenPrefixed_inj ht ht' e
    simp only [List.cons.injEq, true_and] at e2
    obtain ⟨rfl, e3⟩ := lenPrefixed_inj hr hr' e2
    simp only [List.cons.injEq] at e3
    exact absurd e3.1 (by decide)
  · obtain ⟨y, hy⟩ := zscoreKey_prefix (splitKey k').1 (splitKey k').2 mem s sepI scoreSepI
    rw [memStop_eq, scoreK_eq] at e
    unfold zScoreK at e
    rw [hy] at e
    simp only [List.cons.injEq] at e
    exact absurd e.1 (by decide)
  · rw [memStop_eq] at hf
    exact hf.1 rfl

theorem dec_score (k : Bytes) (s : Nat) (mem : Bytes) (hk : okKey k) (hs : NonNaN s) :
    ∃ s', realFns.decScoreK (realFns.scoreK k s mem) = some (mem, s') ∧ NonNaN s' ∧ feqB s' s = true := by
  obtain ⟨t, r, hsp, he, ht, hr⟩ := splitKey_ok hk
  refine ⟨canonBits s, ?_, canonBits_nonNaN hs, (feqB_iff (canonBits_nonNaN hs) hs).mpr (feqBits_canon s)⟩
  rw [scoreK_eq, hsp]
  simp only [realFns]
  rw [decZScoreKey_zScoreK ht r mem hs]

theorem dec_mem (k mem : Bytes) (hk : okKey k) : realFns.decMemK (realFns.memK k mem) = some mem := by
  obtain ⟨t, r, hsp, he, ht, hr⟩ := splitKey_ok hk
  simp only [realFns, hsp]
  rw [decZSetKey_collSubKey ht hr mem]

theorem score_lt (k : Bytes) (s : Nat) (mem : Bytes) (s' : Nat) (mem' : Bytes) (hs : NonNaN s) (hs' : NonNaN s') :
    (realFns.scoreK k s mem < realFns.scoreK k s' mem' ↔ fltBits s s' ∨ (feqB s s' = true ∧ mem < mem')) := by
  rw [scoreK_eq, scoreK_eq, feqB_iff hs hs']
  exact zScoreK_lt_iff _ _ mem mem' hs hs'

theorem score_range (k : Bytes) (s : Nat) (mem : Bytes) (a b : Nat) (hs : NonNaN s) (ha : NonNaN a) (hb : NonNaN b) :
    ((realFns.scoreLo k a ≤ realFns.scoreK k s mem ∧ realFns.scoreK k s mem ≤ realFns.scoreHi k b) ↔
      (¬ fltBits s a ∧ ¬ fltBits b s)) :=
  zScoreK_in_score_range _ _ mem hs ha hb

theorem mem_lt (k a b : Bytes) : (realFns.memK k a < realFns.memK k b ↔ a < b) := by
  simp only [realFns, collSubKey]
  exact append_lt_append_left_iff _

/-- **the real codec is an instance of the abstract codec facts** -/
def realEnc : Z.ZSetInv.Enc where
  toEncFns := realFns
  ok := okKey
  good := NonNaN
  foreign := foreignKey
  sizeBound := 2 ^ 63
  score_rt := score_rt
  size_rt := size_rt
  feq_refl s hs := (feqB_iff hs hs).mpr (feqBits_refl s)
  feq_symm := feqB_symm
  feq_trans := feqB_trans
  mem_inj := mem_inj
  meta_inj k k' _ _ h := meta_inj k k' h
  score_eq_iff := score_eq_iff
  meta_ne_mem := meta_ne_mem
  meta_ne_score := meta_ne_score
  mem_ne_score := mem_ne_score
  foreign_ne_meta := foreign_ne_meta
  foreign_ne_mem := foreign_ne_mem
  foreign_ne_score := foreign_ne_score
  mem_range k x _ := mem_range k x
  idx_self k s mem _ hs := idx_self k s mem hs
  idx_other := idx_other
  idx_not_mem := idx_not_mem
  idx_not_meta := idx_not_meta
  idx_not_foreign := idx_not_foreign
  score_lo_ge k a _ ha := score_lo_ge k a ha
  score_hi_le k b _ hb := score_hi_le k b hb
  memStop_unknown := memStop_unknown
  dec_score := dec_score
  dec_mem := dec_mem
  lt := fltBits
  ninf := negInfBits
  pinf := posInfBits
  good_ninf := nonNaN_negInf
  good_pinf := nonNaN_posInf
  ninf_le s hs := not_lt_negInf hs
  le_pinf s hs := not_posInf_lt hs
  lt_congr _ _ _ _ ha hb := fltBits_congr (feqB_imp ha) (feqB_imp hb)
  score_lt k s mem s' mem' _ hs hs' := score_lt k s mem s' mem' hs hs'
  score_range k s mem a b _ hs ha hb := score_range k s mem a b hs ha hb
  mem_lt k a b _ := mem_lt k a b

theorem realEnc_fns : realEnc.toEncFns = realFns := rfl

end Z.ZSetReal
