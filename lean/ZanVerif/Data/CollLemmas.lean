/-
  Lemmas about the sorted reference store under write batches, used by the set / list representation
  invariants (core only): `get` after a batch, extensionality of strictly sorted lists, scans as filters.
-/
import ZanVerif.Data.CollBase
import ZanVerif.Engine.StoreLemmas

namespace Z.Coll
open Z.Ref

/-! ### strictly sorted lists are determined by their members -/

theorem pairwise_ext {α : Type} {r : α → α → Prop} (irr : ∀ a, ¬ r a a) (asym : ∀ a b, r a b → ¬ r b a) :
    ∀ {l₁ l₂ : List α}, l₁.Pairwise r → l₂.Pairwise r → (∀ x, x ∈ l₁ ↔ x ∈ l₂) → l₁ = l₂
  | [], [], _, _, _ => rfl
  | [], b :: _, _, _, h => absurd ((h b).mpr List.mem_cons_self) (by simp)
  | a :: _, [], _, _, h => absurd ((h a).mp List.mem_cons_self) (by simp)
  | a :: t₁, b :: t₂, h₁, h₂, h => by
    have ⟨ha, ht₁⟩ := List.pairwise_cons.mp h₁
    have ⟨hb, ht₂⟩ := List.pairwise_cons.mp h₂
    have hab : a = b := by
      rcases List.mem_cons.mp ((h a).mp List.mem_cons_self) with e | ha2
      · exact e
      · rcases List.mem_cons.mp ((h b).mpr List.mem_cons_self) with e | hb1
        · exact e.symm
        · exact absurd (ha b hb1) (asym _ _ (hb a ha2))
    subst hab
    congr 1
    apply pairwise_ext irr asym ht₁ ht₂
    intro x
    constructor
    · intro hx
      rcases List.mem_cons.mp ((h x).mp (List.mem_cons_of_mem _ hx)) with e | h2
      · subst e; exact absurd (ha x hx) (irr x)
      · exact h2
    · intro hx
      rcases List.mem_cons.mp ((h x).mpr (List.mem_cons_of_mem _ hx)) with e | h2
      · subst e; exact absurd (hb x hx) (irr x)
      · exact h2

theorem bytes_lt_irrefl (a : Bytes) : ¬ a < a := List.lt_irrefl a
theorem bytes_lt_asymm (a b : Bytes) : a < b → ¬ b < a := fun h => List.lt_asymm h

/-- two strictly increasing lists of byte strings with the same members are equal -/
theorem sorted_ext {l₁ l₂ : List Bytes} (h₁ : l₁.Pairwise (· < ·)) (h₂ : l₂.Pairwise (· < ·))
    (h : ∀ x, x ∈ l₁ ↔ x ∈ l₂) : l₁ = l₂ :=
  pairwise_ext bytes_lt_irrefl bytes_lt_asymm h₁ h₂ h

theorem sorted_nodup {l : List Bytes} (h : l.Pairwise (· < ·)) : l.Nodup :=
  List.nodup_iff_pairwise_ne.mpr (h.imp (fun {a b} (hab : a < b) (e : a = b) => bytes_lt_irrefl b (e ▸ hab)))

/-! ### the store: `get` versus membership -/

theorem sorted_pairwise {m : List KV} (hm : Sorted m) : m.Pairwise (fun p q => p.1 < q.1) :=
  (Z.Store.refSorted_iff_pairwise m).mp hm

theorem pairwise_sorted {m : List KV} (hm : m.Pairwise (fun p q => p.1 < q.1)) : Sorted m :=
  (Z.Store.refSorted_iff_pairwise m).mpr hm

theorem get_eq_some_iff {m : List KV} (hm : Sorted m) (k v : Bytes) : get m k = some v ↔ (k, v) ∈ m := by
  induction m with
  | nil => simp [Ref.get]
  | cons a t ih =>
    unfold Ref.get
    split
    · rename_i heq
      constructor
      · intro h; injection h with h; subst h; rw [← heq]; exact List.mem_cons_self
      · intro h
        rcases List.mem_cons.mp h with e | h
        · rw [← e]
        · have := hm.head_lt _ h
          simp only at this
          rw [heq] at this
          exact absurd this (bytes_lt_irrefl k)
    · rename_i hne
      rw [ih hm.tail]
      constructor
      · exact List.mem_cons_of_mem _
      · intro h
        rcases List.mem_cons.mp h with e | h
        · exact absurd (by rw [← e]) hne
        · exact h

theorem get_isSome_iff {m : List KV} (hm : Sorted m) (k : Bytes) : (get m k).isSome ↔ ∃ v, (k, v) ∈ m := by
  constructor
  · intro h
    obtain ⟨v, hv⟩ := Option.isSome_iff_exists.mp h
    exact ⟨v, (get_eq_some_iff hm k v).mp hv⟩
  · rintro ⟨v, hv⟩
    rw [(get_eq_some_iff hm k v).mpr hv]; rfl

theorem get_of_mem {m : List KV} (hm : Sorted m) {p : KV} (hp : p ∈ m) : get m p.1 = some p.2 :=
  (get_eq_some_iff hm p.1 p.2).mpr hp

/-- the store is determined by `get` -/
theorem store_ext {m₁ m₂ : List KV} (h₁ : Sorted m₁) (h₂ : Sorted m₂) (h : ∀ k, get m₁ k = get m₂ k) : m₁ = m₂ := by
  apply pairwise_ext (r := fun p q : KV => p.1 < q.1) (fun a => bytes_lt_irrefl a.1) (fun a b => bytes_lt_asymm a.1 b.1)
    (sorted_pairwise h₁) (sorted_pairwise h₂)
  intro x
  rw [← get_eq_some_iff h₁ x.1 x.2, ← get_eq_some_iff h₂ x.1 x.2, h]

/-! ### filters of the store -/

theorem filter_sorted {m : List KV} (hm : Sorted m) (p : KV → Bool) : Sorted (m.filter p) :=
  pairwise_sorted ((sorted_pairwise hm).filter p)

theorem get_filter_key {m : List KV} (hm : Sorted m) (q : Bytes → Bool) (k : Bytes) :
    get (m.filter (fun p => q p.1)) k = if q k then get m k else none := by
  have hf := filter_sorted hm (fun p => q p.1)
  cases hg : get (m.filter (fun p => q p.1)) k with
  | none =>
    split
    · rename_i hq
      cases hg2 : get m k with
      | none => rfl
      | some v =>
        exfalso
        have hmem := (get_eq_some_iff hm k v).mp hg2
        have : (k, v) ∈ m.filter (fun p => q p.1) := List.mem_filter.mpr ⟨hmem, hq⟩
        rw [(get_eq_some_iff hf k v).mpr this] at hg
        cases hg
    · rfl
  | some v =>
    have hmem := List.mem_filter.mp ((get_eq_some_iff hf k v).mp hg)
    simp only at hmem
    rw [if_pos hmem.2, (get_eq_some_iff hm k v).mpr hmem.1]

theorem delRange_sorted {m : List KV} (hm : Sorted m) (a b : Bytes) : Sorted (delRange m a b) :=
  filter_sorted hm _

theorem get_delRange {m : List KV} (hm : Sorted m) (a b k : Bytes) :
    get (delRange m a b) k = if a ≤ k ∧ k < b then none else get m k := by
  unfold delRange
  rw [get_filter_key hm (fun x => !(decide (a ≤ x) && decide (x < b))) k]
  by_cases h : a ≤ k ∧ k < b
  · simp [h]
  · rw [if_neg h]
    have : (!(decide (a ≤ k) && decide (k < b))) = true := by
      simp only [Bool.not_eq_true', Bool.and_eq_false_iff, decide_eq_false_iff_not]
      by_cases h1 : a ≤ k
      · exact Or.inr (fun h2 => h ⟨h1, h2⟩)
      · exact Or.inl h1
    rw [if_pos this]

/-! ### write batches -/

theorem applyOp_sorted {m : List KV} (hm : Sorted m) (o : WOp) : Sorted (applyOp m o) := by
  cases o with
  | put k v => exact put_sorted hm k v
  | del k => exact del_sorted hm k
  | delRange a b => exact delRange_sorted hm a b

theorem applyW_sorted {m : List KV} (hm : Sorted m) (wb : List WOp) : Sorted (applyW m wb) := by
  unfold applyW
  induction wb generalizing m with
  | nil => exact hm
  | cons o t ih => exact ih (applyOp_sorted hm o)

/-- what one batch operation does to the value stored under `x` -/
def effOp (x : Bytes) (cur : Option Bytes) : WOp → Option Bytes
  | .put k v => if x = k then some v else cur
  | .del k => if x = k then none else cur
  | .delRange a b => if a ≤ x ∧ x < b then none else cur

def eff (x : Bytes) (cur : Option Bytes) (wb : List WOp) : Option Bytes := wb.foldl (effOp x) cur

theorem get_applyOp {m : List KV} (hm : Sorted m) (o : WOp) (x : Bytes) :
    get (applyOp m o) x = effOp x (get m x) o := by
  cases o with
  | put k v => simp only [applyOp, effOp]; exact get_put m hm k v x
  | del k => simp only [applyOp, effOp]; exact get_del m hm k x
  | delRange a b => simp only [applyOp, effOp]; exact get_delRange hm a b x

/-- reading after a committed batch = folding the batch's effects on that key over the old value -/
theorem get_applyW {m : List KV} (hm : Sorted m) (wb : List WOp) (x : Bytes) :
    get (applyW m wb) x = eff x (get m x) wb := by
  unfold applyW eff
  induction wb generalizing m with
  | nil => rfl
  | cons o t ih =>
    simp only [List.foldl_cons]
    rw [ih (applyOp_sorted hm o), get_applyOp hm]

theorem eff_append (x : Bytes) (cur : Option Bytes) (a b : List WOp) : eff x cur (a ++ b) = eff x (eff x cur a) b := by
  simp [eff, List.foldl_append]

/-- a batch of puts on keys `ks` (values by `f`): a key outside `ks` keeps its value -/
theorem eff_puts_not_mem (x : Bytes) (cur : Option Bytes) (ks : List Bytes) (f : Bytes → Bytes) (h : x ∉ ks) :
    eff x cur (ks.map (fun k => WOp.put k (f k))) = cur := by
  induction ks generalizing cur with
  | nil => rfl
  | cons a t ih =>
    have hxa : x ≠ a := fun e => h (e ▸ List.mem_cons_self)
    simp only [List.map_cons, eff, List.foldl_cons, effOp, hxa, ↓reduceIte]
    exact ih cur (fun hm => h (List.mem_cons_of_mem _ hm))

theorem eff_puts_mem (x : Bytes) (cur : Option Bytes) (ks : List Bytes) (f : Bytes → Bytes) (h : x ∈ ks) :
    eff x cur (ks.map (fun k => WOp.put k (f k))) = some (f x) := by
  induction ks generalizing cur with
  | nil => cases h
  | cons a t ih =>
    simp only [List.map_cons, eff, List.foldl_cons]
    by_cases hxt : x ∈ t
    · exact ih _ hxt
    · have hxa : x = a := by
        rcases List.mem_cons.mp h with e | h'
        · exact e
        · exact absurd h' hxt
      subst hxa
      have := eff_puts_not_mem x (effOp x cur (WOp.put x (f x))) t f hxt
      unfold eff at this
      rw [this]; simp [effOp]

theorem eff_dels_not_mem (x : Bytes) (cur : Option Bytes) (ks : List Bytes) (h : x ∉ ks) :
    eff x cur (ks.map WOp.del) = cur := by
  induction ks generalizing cur with
  | nil => rfl
  | cons a t ih =>
    have hxa : x ≠ a := fun e => h (e ▸ List.mem_cons_self)
    simp only [List.map_cons, eff, List.foldl_cons, effOp, hxa, ↓reduceIte]
    exact ih cur (fun hm => h (List.mem_cons_of_mem _ hm))

theorem eff_dels_none (x : Bytes) (ks : List Bytes) : eff x none (ks.map WOp.del) = none := by
  induction ks with
  | nil => rfl
  | cons a t ih =>
    simp only [List.map_cons, eff, List.foldl_cons, effOp]
    have : (if x = a then none else (none : Option Bytes)) = none := by split <;> rfl
    rw [this]; exact ih

theorem eff_dels_mem (x : Bytes) (cur : Option Bytes) (ks : List Bytes) (h : x ∈ ks) :
    eff x cur (ks.map WOp.del) = none := by
  induction ks generalizing cur with
  | nil => cases h
  | cons a t ih =>
    simp only [List.map_cons, eff, List.foldl_cons]
    by_cases hxa : x = a
    · subst hxa
      simp only [effOp, ↓reduceIte]
      exact eff_dels_none x t
    · rcases List.mem_cons.mp h with e | h'
      · exact absurd e hxa
      · exact ih _ h'

/-! ### scans -/

theorem scan_sorted {m : List KV} (hm : Sorted m) (lo hi : Bytes) : Sorted (scan m lo hi) := filter_sorted hm _
theorem scanC_sorted {m : List KV} (hm : Sorted m) (lo hi : Bytes) : Sorted (scanC m lo hi) := filter_sorted hm _

theorem mem_scanC {m : List KV} {lo hi : Bytes} {p : KV} : p ∈ scanC m lo hi ↔ p ∈ m ∧ lo ≤ p.1 ∧ p.1 ≤ hi := by
  simp [scanC, List.mem_filter]

/-! ### dedup -/

theorem mem_dedup {l : List Bytes} {x : Bytes} : x ∈ dedup l ↔ x ∈ l := by
  induction l with
  | nil => simp [dedup]
  | cons a t ih =>
    simp only [dedup, List.mem_cons, List.mem_filter, ih, bne_iff_ne, ne_eq]
    constructor
    · rintro (h | ⟨h, _⟩)
      · exact Or.inl h
      · exact Or.inr h
    · rintro (h | h)
      · exact Or.inl h
      · by_cases e : x = a
        · exact Or.inl e
        · exact Or.inr ⟨h, e⟩

theorem dedup_nodup (l : List Bytes) : (dedup l).Nodup := by
  induction l with
  | nil => simp [dedup]
  | cons a t ih =>
    simp only [dedup, List.nodup_cons, List.mem_filter, bne_iff_ne, ne_eq, not_and]
    refine ⟨?_, ?_⟩
    · intro _ h; exact h trivial
    rw [List.nodup_iff_pairwise_ne] at *
    exact ih.filter _

end Z.Coll
