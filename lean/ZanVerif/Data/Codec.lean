/-
  The rockredis key codec, byte for byte (C12; shared by the data-mapping models of C07–C13).
  Mirrors rockredis/t_table.go, t_collections.go, t_kv.go, t_hash.go, t_set.go, t_list.go, t_zset.go,
  memcmp_codec.go, bytes.go, number.go, t_ttl_compact.go (encodeVerKey).
  Constants come from the regenerated `Gen.Consts`.
-/
import ZanVerif.Gen.Consts

namespace Z.Codec
abbrev Bytes := List UInt8

/-- `binary.BigEndian.PutUint16(buf, uint16(n))` -/
def be16 (n : Nat) : Bytes := [UInt8.ofNat (n / 256 % 256), UInt8.ofNat (n % 256)]

/-- big-endian bytes of `n % 256^k`, k bytes -/
def beN : Nat → Nat → Bytes
  | 0, _ => []
  | k + 1, n => beN k (n / 256) ++ [UInt8.ofNat (n % 256)]

/-- `binary.BigEndian.PutUint64` of a value already reduced mod 2^64 -/
def be64 (n : Nat) : Bytes := beN 8 n

def fromBE : Bytes → Nat
  | bs => bs.foldl (fun acc b => acc * 256 + b.toNat) 0

/-- int64 → uint64 two's complement -/
def toU64 (v : Int) : Nat := (v % 18446744073709551616).toNat
/-- uint64 → int64 -/
def ofU64 (u : Nat) : Int := if u < 9223372036854775808 then (u : Int) else (u : Int) - 18446744073709551616

/-! ### table prefix and collection sub-keys -/

/-- `encodeDataTablePrefixToBuf`: KV has no table length prefix -/
def tablePrefix (dt : UInt8) (table : Bytes) : Bytes :=
  if dt = Gen.cKVType then dt :: (table ++ [Gen.cTableStartSep])
  else dt :: (be16 table.length ++ table ++ [Gen.cTableStartSep])

/-- `encodeDataTableStart` / `encodeDataTableEnd` -/
def tableStart (dt : UInt8) (table : Bytes) : Bytes := tablePrefix dt table
def tableEnd (dt : UInt8) (table : Bytes) : Bytes :=
  if dt = Gen.cKVType then dt :: (table ++ [Gen.cTableStartSep + 1])
  else dt :: (be16 table.length ++ table ++ [Gen.cTableStartSep + 1])

/-- `encodeCollSubKey` (hash / set / zset member keys) -/
def collSubKey (dt : UInt8) (table key sub : Bytes) : Bytes :=
  tablePrefix dt table ++ be16 key.length ++ key ++ [Gen.cCollStartSep] ++ sub

def collStart (dt : UInt8) (table key : Bytes) : Bytes := collSubKey dt table key []
/-- `hEncodeStopKey` etc.: last byte of the start key + 1 -/
def collStop (dt : UInt8) (table key : Bytes) : Bytes :=
  tablePrefix dt table ++ be16 key.length ++ key ++ [Gen.cCollStartSep + 1]

/-- `encodeKVKey`: the raw redis key `table:key` behind the type byte -/
def kvKey (rawKey : Bytes) : Bytes := Gen.cKVType :: rawKey

/-- `hEncodeSizeKey`, `sEncodeSizeKey`, `zEncodeSizeKey`, `lEncodeMetaKey`: type byte, "meta:", raw key -/
def metaKey (t : UInt8) (rawKey : Bytes) : Bytes := t :: (Gen.cMetaPrefix ++ rawKey)

/-- `encodeTableMetaKey` -/
def tableMetaKey (table : Bytes) : Bytes := Gen.cTableMetaType :: (Gen.cMetaPrefix ++ table)

/-- `lEncodeListKey` -/
def listKey (table key : Bytes) (seq : Int) : Bytes :=
  tablePrefix Gen.cListType table ++ be16 key.length ++ key ++ be64 (toU64 seq)

/-- `packRedisKey` / `extractTableFromRedisKey` -/
def packRedisKey (table key : Bytes) : Bytes := table ++ [Gen.cTableStartSep] ++ key

def indexByte : Bytes → UInt8 → Option Nat
  | [], _ => none
  | b :: r, c => if b = c then some 0 else (indexByte r c).map (· + 1)

def extractTable (raw : Bytes) : Option (Bytes × Bytes) :=
  match indexByte raw Gen.cTableStartSep with
  | none => none
  | some i => some (raw.take i, raw.drop (i + 1))

/-! ### memcomparable encoding -/

def marker (n : Nat) : UInt8 := UInt8.ofNat (255 - (8 - n))

/-- `EncodeBytes`, bytewise: n = data bytes already emitted in the current group -/
def encBytes : Nat → Bytes → Bytes
  | n, [] => List.replicate (8 - n) 0 ++ [marker n]
  | n, x :: xs => if n = 7 then x :: 0xFF :: encBytes 0 xs else x :: encBytes (n + 1) xs

/-- `EncodeInt`: sign flip, big endian -/
def encInt (v : Int) : Bytes := be64 ((toU64 v + 9223372036854775808) % 18446744073709551616)

/-- `encodeFloatToCmpUint64` on the IEEE bit pattern `u` (= math.Float64bits f).
    `f >= 0` holds for non-NaN patterns with clear sign bit and for -0.0. -/
def isNaNBits (u : Nat) : Bool := (u / 4503599627370496 % 2048 == 2047) && (u % 4503599627370496 != 0)
def geZeroBits (u : Nat) : Bool := (u < 9223372036854775808 && !isNaNBits u) || u == 9223372036854775808
def floatCmpBits (u : Nat) : Nat :=
  if geZeroBits u then (if u < 9223372036854775808 then u + 9223372036854775808 else u)
  else 18446744073709551615 - u

def encFloatBits (u : Nat) : Bytes := be64 (floatCmpBits u)

inductive MVal
  | bytes (b : Bytes)
  | int (v : Int)
  | floatBits (u : Nat)
  | nil
  deriving Repr, DecidableEq

/-- `memcmpEncode` for one value -/
def encOne : MVal → Bytes
  | .bytes b => Gen.cBytesFlag :: encBytes 0 b
  | .int v => Gen.cIntFlag :: encInt v
  | .floatBits u => Gen.cFloatFlag :: encFloatBits u
  | .nil => [Gen.cNilFlag]

def memcmpEncode (vs : List MVal) : Bytes := (vs.map encOne).flatten

/-- `decodeBytes` (forward form): returns (remaining, data) -/
def decBytes : Nat → Bytes → Option (Bytes × Bytes)
  | 0, _ => none
  | fuel + 1, b =>
    if b.length < 9 then none else
    let group := b.take 8
    let m := (b.getD 8 0)
    let pad := 255 - m.toNat
    if pad > 8 then none else
    let real := 8 - pad
    let rest := b.drop 9
    if pad ≠ 0 then
      if (group.drop real).all (· == 0) then some (rest, group.take real) else none
    else
      match decBytes fuel rest with
      | none => none
      | some (r, d) => some (r, group ++ d)

def decInt (b : Bytes) : Option (Bytes × Int) :=
  if b.length < 8 then none else
  let u := fromBE (b.take 8)
  some (b.drop 8, ofU64 ((u + 9223372036854775808) % 18446744073709551616))

def decFloatBits (b : Bytes) : Option (Bytes × Nat) :=
  if b.length < 8 then none else
  let u := fromBE (b.take 8)
  some (b.drop 8, if u ≥ 9223372036854775808 then u - 9223372036854775808 else 18446744073709551615 - u)

/-- `DecodeOne` -/
def decOne (b : Bytes) : Option (Bytes × MVal) :=
  match b with
  | [] => none
  | f :: r =>
    if f = Gen.cIntFlag then (decInt r).map (fun (x : Bytes × Int) => (x.1, MVal.int x.2))
    else if f = Gen.cFloatFlag then (decFloatBits r).map (fun (x : Bytes × Nat) => (x.1, MVal.floatBits x.2))
    else if f = Gen.cBytesFlag then (decBytes (r.length + 1) r).map (fun (x : Bytes × Bytes) => (x.1, MVal.bytes x.2))
    else if f = Gen.cNilFlag then some (r, MVal.nil)
    else none

/-- `Decode`: all values until the input is exhausted -/
def decAll : Nat → Bytes → Option (List MVal)
  | 0, _ => none
  | fuel + 1, b =>
    if b.isEmpty then some [] else
    match decOne b with
    | none => none
    | some (r, v) => if r.length < b.length then (decAll fuel r).map (v :: ·) else none

/-- `encodeVerKey`: key, sep, version, sep (the separators are `byte`s, i.e. int-encoded) -/
def verKey (key : Bytes) (ver : Int) : Bytes :=
  memcmpEncode [.bytes key, .int (Gen.cDefaultSep.toNat : Int), .int ver, .int (Gen.cDefaultSep.toNat : Int)]

/-- outcome of a Go decoder: value, error return, or run-time panic (index out of range / failed type assertion) -/
inductive Dec (α : Type)
  | ok (a : α)
  | err
  | panic
  deriving Repr, DecidableEq

/-- `decodeVerKey`: `Decode` fails → err; fewer than 4 values → err; `vals[0].([]byte)` / `vals[2].(int64)` panic on other kinds -/
def decVerKey (b : Bytes) : Dec (Bytes × Int) :=
  if b.isEmpty then .err else
  match decAll (b.length + 1) b with
  | none => .err
  | some vals =>
    if vals.length < 4 then .err else
    match vals with
    | MVal.bytes k :: _ :: MVal.int v :: _ => .ok (k, v)
    | _ => .panic

/-- `zEncodeScoreKeyInternal`: table prefix, then key, sep, score, scoreSep, member -/
def zscoreKey (table key member : Bytes) (scoreBits : Nat) (sep scoreSep : Int) : Bytes :=
  tablePrefix Gen.cZScoreType table ++
    memcmpEncode [.bytes key, .int sep, .floatBits scoreBits, .int scoreSep, .bytes member]

/-! ### decoders of the table prefix and sub-keys -/

/-- `decodeDataTablePrefixFromBuf` (non-KV types): (table, rest). `buf[pos]` after the table is read
    without a bounds check: a buffer ending right after the table name panics. -/
def decTablePrefix (dt : UInt8) (b : Bytes) : Dec (Bytes × Bytes) :=
  match b with
  | [] => .err
  | t :: r1 =>
    if t ≠ dt then .err else
    match r1 with
    | h :: l :: rest =>
      let n := h.toNat * 256 + l.toNat
      if n > rest.length then .err else
      if n = rest.length then .panic else
      if rest.getD n 0 ≠ Gen.cTableStartSep then .err else
      .ok (rest.take n, rest.drop (n + 1))
    | _ => .err

/-- `decodeCollSubKey`: (dt, table, key, sub); `dbk[0]` on an empty key panics (the guard is `len(dbk) < 0`) -/
def decCollSubKey (b : Bytes) : Dec (UInt8 × Bytes × Bytes × Bytes) :=
  match b with
  | [] => .panic
  | dt :: _ =>
    if dt ≠ Gen.cHashType ∧ dt ≠ Gen.cSetType ∧ dt ≠ Gen.cZSetType then .err else
    match decTablePrefix dt b with
    | .err => .err
    | .panic => .panic
    | .ok (table, rest) =>
      match rest with
      | h :: l :: r2 =>
        let n := h.toNat * 256 + l.toNat
        if n > r2.length then .err else
        if n = r2.length then .panic else
        if r2.getD n 0 ≠ Gen.cCollStartSep then .err else
        .ok (dt, table, r2.take n, r2.drop (n + 1))
      | _ => .err

end Z.Codec
