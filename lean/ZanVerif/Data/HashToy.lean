/-
  A concrete instance of the abstract hash codec facts `Z.HashInv.Enc` — so that the theorems quantified over `Enc`
  (C08 / C09 / C11, hash) are not vacuous, and their hypotheses can be instantiated on concrete stores.
  (The REAL codec satisfies the same facts for key parts below 65536 bytes and sizes below 2^64 — `C08_real_codec_facts`;
  `Enc` asks for them unconditionally, hence this self-delimiting toy codec:)
      enc k      = 1 b₁ 1 b₂ … 1 bₙ 0            (prefix-free)
      metaK k    = 0 ‖ k
      fieldK k f = 2 ‖ enc k ‖ ':' ‖ f             start k = 2 ‖ enc k ‖ ':'      stop k = 2 ‖ enc k ‖ ';'
      encSize n  = n zero bytes
-/
import ZanVerif.Data.HashInv
import ZanVerif.Data.Range

namespace Z.HashToy
open Z.Ref

def enc : Bytes → Bytes
  | [] => [0]
  | b :: t => 1 :: b :: enc t

theorem enc_inj : ∀ (k k' x y : Bytes), enc k ++ x = enc k' ++ y → k = k' ∧ x = y
  | [], [], x, y, h => by simpa [enc] using h
  | [], b :: t, x, y, h => by simp [enc] at h
  | b :: t, [], x, y, h => by simp [enc] at h
  | b :: t, b' :: t', x, y, h => by
    simp only [enc, List.cons_append, List.cons.injEq, true_and] at h
    obtain ⟨hb, ht⟩ := h
    obtain ⟨h1, h2⟩ := enc_inj t t' x y ht
    exact ⟨by rw [hb, h1], h2⟩

def pre (k : Bytes) : Bytes := 2 :: enc k

def toyEnc : Z.HashInv.Enc where
  metaK k := 0 :: k
  fieldK k f := pre k ++ [58] ++ f
  start k := pre k ++ [58]
  stop k := pre k ++ [58 + 1]
  encSize n := List.replicate n 0
  sizeOf b := b.length
  size_rt n := by simp
  field_inj k f k' f' h := by
    simp only [pre, List.cons_append, List.append_assoc, List.cons.injEq, true_and] at h
    obtain ⟨h1, h2⟩ := enc_inj k k' _ _ h
    exact ⟨h1, by simpa using h2⟩
  meta_inj k k' h := by simpa using h
  meta_ne_field k k' f := by simp [pre]
  range_iff k x := Z.Range.range_iff 58 (by decide) (pre k) x

end Z.HashToy
