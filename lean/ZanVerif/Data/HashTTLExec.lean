/-
  Executable storage-level model of the hash type under the value-header policy (`policy=compact`):
  versioned layout.  Size meta  `HSizeType ‖ "meta:" ‖ table:key  ↦  13-byte header ‖ size (8 bytes BE)`,
  field keys  `HashType ‖ len(table) ‖ table ‖ ':' ‖ len(verKey) ‖ verKey(key, ValueVersion) ‖ ':' ‖ field
  ↦ value ‖ 8-byte modification time`.  Mirrors rockredis/t_hash.go, t_collections.go
  (collHeaderMeta, GetCollVersionKey, prepareCollKeyForWrite, collExpire, collPersist, collKeyExists),
  t_ttl.go (HashTtl).  A hash whose meta is absent or expired and that is written again gets
  `ValueVersion := log timestamp`; HCLEAR deletes only the meta; stale field keys stay in the store.
  Write paths take the LOG timestamp `ts`; reads take the read time `now`; HCLEAR takes both (its HLen is a
  read-path function).  Table key counter and hash indexes are not modelled.  Core only.
-/
import ZanVerif.Engine.Ref
import ZanVerif.Data.Header
import ZanVerif.Data.KVExec
import ZanVerif.Gen.HIncr

namespace Z.HashTTLExec
abbrev Bytes := List UInt8
abbrev KV := Bytes × Bytes
open Z.Ref (get put del scan)
open Z.Codec (be64 toU64 ofU64 fromBE)
open Z.Header
open Z.KVExec (KErr Reply errOf eerr tooBig stripTs RdRes PRes parseInt fmtInt wrap64)

def metaK (table k : Bytes) : Bytes := Z.Codec.metaKey Gen.cHSizeType (Z.Codec.packRedisKey table k)
def fieldK (table k : Bytes) (ver : Int) (f : Bytes) : Bytes :=
  Z.Codec.collSubKey Gen.cHashType table (Z.Codec.verKey k ver) f
def startK (table k : Bytes) (ver : Int) : Bytes := Z.Codec.collStart Gen.cHashType table (Z.Codec.verKey k ver)
def stopK (table k : Bytes) (ver : Int) : Bytes := Z.Codec.collStop Gen.cHashType table (Z.Codec.verKey k ver)

/-- `collHeaderMeta(ts)`: header of the size meta (fresh when absent) and "expired at ts" -/
inductive MView
  | bad (e : DErr)
  | mv (h : Hdr) (expired : Bool)
  deriving DecidableEq, Repr

def mview (m : List KV) (ts : Int) (table k : Bytes) : MView :=
  match get m (metaK table k) with
  | none => .mv fresh false
  | some raw =>
    match decode raw with
    | .err e => .bad e
    | .ok h => .mv h (isExpired h ts)

/-- `collVerKeyInfo.IsNotExistOrExpired` -/
def notExist (h : Hdr) (expired : Bool) : Bool := expired || h.user.isNone

/-- `prepareCollKeyForWrite`: a dead hash starts a new generation whose version is the log timestamp -/
def prepare (h : Hdr) (expired : Bool) (ts : Int) : Hdr := if notExist h expired then renew h ts else h

/-- `hIncrSize`: new size ≤ 0 deletes the meta, otherwise the header is re-encoded with the new size -/
def hIncrSize (m : List KV) (table k : Bytes) (h : Hdr) (delta : Int) : List KV × Int :=
  let size := sizeI h.user + delta
  if size ≤ 0 then (del m (metaK table k), 0)
  else (put m (metaK table k) (encode { h with user := some (be64 (toU64 size)) }), size)

def dedupFirst : List Bytes → List Bytes
  | [] => []
  | a :: t => a :: (dedupFirst t).filter (· != a)

/-- `dedupKVRecords`: position of the first occurrence, last value wins -/
def dedupPairs : List (Bytes × Bytes) → List (Bytes × Bytes)
  | [] => []
  | (f, v) :: t =>
    let rest := dedupPairs t
    match rest.find? (·.1 == f) with
    | some (_, v') => (f, v') :: rest.filter (·.1 != f)
    | none => (f, v) :: rest

/-- `hSetField` (HSET / HSETNX / HINCRBY write through it; the value-size check belongs to `HSet`) -/
def hsetField (m : List KV) (ts : Int) (nx : Bool) (table k f v : Bytes) : List KV × Reply :=
  match mview m ts table k with
  | .bad e => (m, .err (errOf e))
  | .mv h ex =>
    let h' := prepare h ex ts
    let ek := fieldK table k h'.ver f
    let value := v ++ be64 (toU64 ts)
    match get m ek with
    | some old => if nx || old == value then (m, .int 0) else (put m ek value, .int 0)
    | none => (put (hIncrSize m table k h' 1).1 ek value, .int 1)

/-- HSET / HSETNX (`HSet`: `checkValueSize`, then `hSetField`) -/
def hset (m : List KV) (ts : Int) (nx : Bool) (table k f v : Bytes) : List KV × Reply :=
  if tooBig v then (m, .err .valuelen) else hsetField m ts nx table k f v

/-- what `HIncrBy` reads — `hGetRawFieldValue(ts, key, field, checkExpired = true)`: a hash that is absent or EXPIRED AT
    THE LOG TIME has no fields; otherwise the field key of the generation the size meta names -/
def hincrCur (m : List KV) (h : Hdr) (ex : Bool) (table k f : Bytes) : Option Bytes :=
  if Gen.hincrFieldMissing ex h.user.isNone then none else get m (fieldK table k h.ver f)

/-- the part of `HIncrBy` after the read: `StrInt64` of the old value without its 8-byte modification time (missing = 0;
    an error returns at once), `n += delta` in int64, `hSetField` of the decimal text, reply n -/
def hincrFinish (m : List KV) (ts : Int) (table k f : Bytes) (d : Int) (cur : Option Bytes) : List KV × Reply :=
  let curN : PRes := match cur with
    | none => .ok 0
    | some fv => parseInt (stripTs fv)
  match curN with
  | .syntax => (m, .err .notint)
  | .range => (m, .err .numrange)
  | .ok c =>
    let n := wrap64 (c + d)
    match hsetField m ts Gen.hincrCheckNX table k f (fmtInt n) with
    | (m', .err e) => (m', .err e)
    | (m', _) => (m', .int n)

/-- HINCRBY (`RockDB.HIncrBy`): the old value without its 8-byte modification time is parsed with
    strconv.ParseInt(·, 10, 64) (missing field / dead hash = 0; ErrSyntax → notint, ErrRange → numrange, nothing
    written); `n += delta` in int64 (NO overflow check: wraps); the decimal text goes through `hSetField` — a dead hash
    starts a new generation (version = log timestamp, no expiry), a new field bumps the size meta, an existing one keeps
    it (and with it generation and expiry); reply = n -/
def hincrby (m : List KV) (ts : Int) (table k f : Bytes) (d : Int) : List KV × Reply :=
  match mview m ts table k with
  | .bad e => (m, .err (errOf e))
  | .mv h ex => hincrFinish m ts table k f d (hincrCur m h ex table k f)

/-- the apply handler `localHIncrbyCommand`: the increment text is parsed first (ParseInt(·, 10, 64)); its error is
    answered before the store is looked at -/
def hincrbyCmd (m : List KV) (ts : Int) (table k f dtxt : Bytes) : List KV × Reply :=
  match parseInt dtxt with
  | .syntax => (m, .err .notint)
  | .range => (m, .err .numrange)
  | .ok d => hincrby m ts table k f d

/-- HMSET -/
def hmset (m : List KV) (ts : Int) (table k : Bytes) (pairs : List (Bytes × Bytes)) : List KV × Reply :=
  let ps := dedupPairs pairs
  match mview m ts table k with
  | .bad e => (m, .err (errOf e))
  | .mv h ex =>
    let h' := prepare h ex ts
    if ps.any (fun p => tooBig p.2) then (m, .err .valuelen) else
    let num := (ps.filter (fun p => (get m (fieldK table k h'.ver p.1)).isNone)).length
    let m1 := ps.foldl (fun acc p => put acc (fieldK table k h'.ver p.1) (p.2 ++ be64 (toU64 ts))) m
    ((hIncrSize m1 table k h' (num : Nat)).1, .ok)

/-- HDEL: `GetCollVersionKey` without any expiry check — it works on whatever generation the meta names -/
def hdel (m : List KV) (ts : Int) (table k : Bytes) (fields : List Bytes) : List KV × Reply :=
  let fs := dedupFirst fields
  match mview m ts table k with
  | .bad e => (m, .err (errOf e))
  | .mv h _ =>
    let hit := fs.filter (fun f => (get m (fieldK table k h.ver f)).isSome)
    let m1 := hit.foldl (fun acc f => del acc (fieldK table k h.ver f)) m
    ((hIncrSize m1 table k h (-(hit.length : Nat))).1, .int (hit.length : Nat))

/-- `HLen` (a read-path function: its clock is the read time) -/
def hlenAt (m : List KV) (now : Int) (table k : Bytes) : RdRes Int :=
  match mview m now table k with
  | .bad e => .error (errOf e)
  | .mv h ex => if ex then .ok 0 else .ok (sizeI h.user)

/-- HCLEAR: the size read at the LOG time decides whether anything happens (since fix 2 of §0.2 the header is read with
    the entry's timestamp; before, `HLen` used the wall clock); `hDeleteAll` (log time) deletes only the meta under
    this policy. The read time `_now` is kept as a parameter to show that the result does not depend on it. -/
def hclear (m : List KV) (_now ts : Int) (table k : Bytes) : List KV × Reply :=
  match hlenAt m ts table k with
  | .error e => (m, .err e)
  | .ok n =>
    if n == 0 then (m, .int 0) else
    match mview m ts table k with
    | .bad e => (m, .err (errOf e))
    | .mv h ex => if notExist h ex then (m, .int 1) else (del m (metaK table k), .int 1)

/-- `collExpire` / `collPersist` through `compactExpiration.ExpireAt` -/
def hexpireAt (m : List KV) (ts : Int) (table k : Bytes) (when : Int) : List KV × Reply :=
  match mview m ts table k with
  | .bad e => (m, .err (errOf e))
  | .mv h ex =>
    if notExist h ex then (m, .int 0) else
    match rawExpireAt (encode h) when with
    | .err e => (m, .err (eerr e))
    | .ok raw' => (put m (metaK table k) raw', .int 1)

def hexpire (m : List KV) (ts : Int) (table k : Bytes) (dur : Int) : List KV × Reply :=
  hexpireAt m ts table k (dur + Int.tdiv ts 1000000000)

def hpersist (m : List KV) (ts : Int) (table k : Bytes) : List KV × Reply := hexpireAt m ts table k 0

/-! ### reads at the read time `now` -/

/-- the generation a reader sees: `none` = absent or expired -/
def liveVer (m : List KV) (now : Int) (table k : Bytes) : RdRes (Option Hdr) :=
  match mview m now table k with
  | .bad e => .error (errOf e)
  | .mv h ex => if notExist h ex then .ok none else .ok (some h)

/-- HGET: field value without its modification time -/
def hget (m : List KV) (now : Int) (table k f : Bytes) : RdRes (Option Bytes) :=
  match liveVer m now table k with
  | .error e => .error e
  | .ok none => .ok none
  | .ok (some h) => .ok ((get m (fieldK table k h.ver f)).map stripTs)

/-- HGETALL / HKEYS / HVALS: the range of the live generation, (field, value) in key order -/
def hscan (m : List KV) (now : Int) (table k : Bytes) : RdRes (List (Bytes × Bytes)) :=
  match liveVer m now table k with
  | .error e => .error e
  | .ok none => .ok []
  | .ok (some h) =>
    .ok ((scan m (startK table k h.ver) (stopK table k h.ver)).map
      (fun p => (p.1.drop (startK table k h.ver).length, stripTs p.2)))

def hkeyexist (m : List KV) (now : Int) (table k : Bytes) : RdRes Int :=
  match liveVer m now table k with
  | .error e => .error e
  | .ok none => .ok 0
  | .ok (some _) => .ok 1

/-- `HashTtl` -/
def httl (m : List KV) (now : Int) (table k : Bytes) : RdRes Int :=
  match get m (metaK table k) with
  | none => .ok (-1)
  | some raw =>
    match decode raw with
    | .err e => .error (errOf e)
    | .ok h => .ok (ttl h now)

end Z.HashTTLExec
