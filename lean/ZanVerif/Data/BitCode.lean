/-
  `BitCountV2` AS THE CODE IS (`Z.BitExec.bitcount`) against the repaired / prescribed BITCOUNT:
  * `bitcount_ok_overcount`: whenever it answers a number, that number is the prescribed one PLUS the set bits of every
    stored segment that lies behind the segment of `end` (its loop runs to the end of the key);
  * `bitcount_ok_eq_fixed`: so it is right whenever no stored segment lies behind the segment of `end`
    (in particular for the whole key under the size invariant);
  * it answers no number at all (Go panic `slice bounds out of range`) exactly when some segment's cut is inverted
    (`bitcount_panics_iff`): the first wanted byte of the start segment lies behind the segment's stored length.
-/
import ZanVerif.Data.BitFixed

namespace Z.BitExec
open Z.Ref (get put del scan Sorted mem_scan)
open Z.Coll
open Z.Codec Z.Header

theorem cutOf_end_le (s e idx : Int) (v : Bytes) : (cutOf s e idx v).2 ≤ v.length := by
  unfold cutOf; simp only; split <;> omega

theorem take_all (v : Bytes) : (v.drop 0).take (v.length - 0) = v := by simp

/-- an iteration that does not panic counts what the repaired iteration counts -/
theorem segCount_ok_eq_fixed (s e idx : Int) (v : Bytes) (c : Nat) (h : segCount s e idx v = .ok c) : segFixed s e idx v = c := by
  unfold segCount at h
  split at h
  · cases h
  · rename_i hle
    injection h with h
    rw [← h]
    have hb := cutOf_end_le s e idx v
    unfold segFixed
    unfold cutOf at hle hb ⊢
    simp only at hle hb ⊢
    by_cases hc : idx = Gen.bitCountStartI s * Gen.cBitmapSegBytes
    · simp only [if_pos hc] at hle ⊢
      rw [show min (Gen.bitCountByteStart s).toNat v.length = (Gen.bitCountByteStart s).toNat by omega]
    · simp only [if_neg hc]

/-- a segment behind the segment of `end` (and of `start`) is counted whole -/
theorem segCount_behind (s e idx : Int) (v : Bytes) (h1 : Gen.bitCountStartI s * Gen.cBitmapSegBytes < idx)
    (h2 : Gen.bitCountStopI e * Gen.cBitmapSegBytes < idx) : segCount s e idx v = .ok (popcount v) := by
  have hc : cutOf s e idx v = (0, v.length) := by
    unfold cutOf
    rw [if_neg (by omega), if_neg (by omega)]
  unfold segCount
  rw [hc]
  simp only
  rw [if_neg (by omega), take_all]

/-! ### the counting loop, for an arbitrary per-pair function -/

def valG (f : KV → BOut Nat) (p : KV) : Nat := match f p with | .ok c => c | .err _ => 0 | .panic _ => 0

theorem countStepG_ok (f : KV → BOut Nat) (a n : Nat) (p : KV) (h : f p = .ok n) : countStepG f (.ok a) p = .ok (a + n) := by
  unfold countStepG; simp only [h]

theorem countStepG_panic (f : KV → BOut Nat) (a : Nat) (p : KV) (q : Panic) (h : f p = .panic q) : countStepG f (.ok a) p = .panic q := by
  unfold countStepG; simp only [h]

theorem foldlG_panic (f : KV → BOut Nat) (L : List KV) (q : Panic) : L.foldl (countStepG f) (.panic q) = .panic q := by
  induction L with
  | nil => rfl
  | cons p t ih => rw [List.foldl_cons]; exact ih

theorem foldlG_ok (f : KV → BOut Nat) (hf : ∀ p, (∃ c, f p = .ok c) ∨ (∃ q, f p = .panic q)) (L : List KV) :
    ∀ (acc n : Nat), L.foldl (countStepG f) (.ok acc) = .ok n →
    (∀ p ∈ L, ∃ c, f p = .ok c) ∧ n = acc + (L.map (valG f)).sum := by
  induction L with
  | nil =>
    intro acc n h
    simp only [List.foldl_nil] at h
    injection h with h
    exact ⟨fun p hp => (by cases hp), by simp [h]⟩
  | cons p t ih =>
    intro acc n h
    rw [List.foldl_cons] at h
    rcases hf p with ⟨c, hc⟩ | ⟨q, hq⟩
    · rw [countStepG_ok f acc c p hc] at h
      obtain ⟨h1, h2⟩ := ih (acc + c) n h
      refine ⟨fun x hx => ?_, ?_⟩
      · rcases List.mem_cons.mp hx with rfl | hx
        · exact ⟨c, hc⟩
        · exact h1 x hx
      · rw [h2, List.map_cons, List.sum_cons]
        have : valG f p = c := by unfold valG; simp only [hc]
        rw [this, Nat.add_assoc]
    · rw [countStepG_panic f acc p q hq, foldlG_panic] at h; cases h

theorem foldlG_has_panic (f : KV → BOut Nat) (hf : ∀ p, (∃ c, f p = .ok c) ∨ (∃ q, f p = .panic q)) (L : List KV) :
    ∀ (acc : Nat), (∃ p ∈ L, ∃ q, f p = .panic q) → ∃ q, L.foldl (countStepG f) (.ok acc) = .panic q := by
  induction L with
  | nil => intro acc h; obtain ⟨p, hp, _⟩ := h; cases hp
  | cons p t ih =>
    intro acc h
    rw [List.foldl_cons]
    rcases hf p with ⟨c, hc⟩ | ⟨q, hq⟩
    · rw [countStepG_ok f acc c p hc]
      apply ih (acc + c)
      obtain ⟨x, hx, q, hq⟩ := h
      rcases List.mem_cons.mp hx with rfl | hx
      · rw [hc] at hq; cases hq
      · exact ⟨x, hx, q, hq⟩
    · rw [countStepG_panic f acc p q hq, foldlG_panic]; exact ⟨q, rfl⟩

/-! ### … instantiated with the iteration of `BitCountV2` -/

theorem segCount_cases (s e idx : Int) (v : Bytes) : (∃ c, segCount s e idx v = .ok c) ∨ (∃ q, segCount s e idx v = .panic q) := by
  unfold segCount
  split
  · exact Or.inr ⟨_, rfl⟩
  · exact Or.inl ⟨_, rfl⟩

def segVal (s e : Int) : KV → Nat := valG (fun p => segCount s e (idxOf p.1) p.2)

theorem segVal_ok (s e : Int) (p : KV) (c : Nat) (h : segCount s e (idxOf p.1) p.2 = .ok c) : segVal s e p = c := by
  unfold segVal valG; simp only [h]

theorem countLoop_ok (s e : Int) (L : List KV) (n : Nat) (h : countLoop s e L = .ok n) :
    (∀ p ∈ L, ∃ c, segCount s e (idxOf p.1) p.2 = .ok c) ∧ n = (L.map (segVal s e)).sum := by
  have := foldlG_ok (fun p => segCount s e (idxOf p.1) p.2) (fun p => segCount_cases s e _ _) L 0 n h
  simpa [segVal] using this

theorem countLoop_has_panic (s e : Int) (L : List KV) (h : ∃ p ∈ L, ∃ q, segCount s e (idxOf p.1) p.2 = .panic q) :
    ∃ q, countLoop s e L = .panic q :=
  foldlG_has_panic (fun p => segCount s e (idxOf p.1) p.2) (fun p => segCount_cases s e _ _) L 0 h

theorem sum_filter_split {α : Type} (L : List α) (f : α → Nat) (P : α → Bool) :
    (L.map f).sum = ((L.filter P).map f).sum + ((L.filter (fun a => !P a)).map f).sum := by
  induction L with
  | nil => rfl
  | cons a t ih =>
    by_cases h : P a = true
    · rw [List.filter_cons_of_pos h, List.filter_cons_of_neg (by simp [h])]
      simp only [List.map_cons, List.sum_cons, ih]; omega
    · rw [List.filter_cons_of_neg h, List.filter_cons_of_pos (by simp [h])]
      simp only [List.map_cons, List.sum_cons, ih]; omega

/-- the iterator's range of BITCOUNT for a live bitmap with normalised range `[s, e]` -/
def countRange (pol : Pol) (m : List KV) (table rk : Bytes) (h : Hdr) (s : Int) : List KV :=
  scan m (segK table (vkey pol rk h.ver) (Gen.bitCountStartI s * Gen.cBitmapSegBytes)) (stopK table (vkey pol rk h.ver))

/-- **what the code's BITCOUNT answers when it answers a number**: the repaired answer plus every stored segment behind
    the segment of `end` -/
theorem bitcount_ok_overcount (pol : Pol) (m : List KV) (now : Int) (table rk : Bytes) (h : Hdr) (ex : Bool) (size : Int)
    (hm : bmeta pol m now table rk = .mk h ex size true) (start stop : Int) (n : Int)
    (hle : (Gen.getRange start stop size).1 ≤ (Gen.getRange start stop size).2)
    (hn : bitcount pol m now table rk start stop = .ok n) :
    ∃ f : Nat, bitcountFixed pol m now table rk start stop = .ok f ∧
      n = f + (((countRange pol m table rk h (Gen.getRange start stop size).1).filter
        (fun p => !decide (idxOf p.1 ≤ Gen.bitCountStopI (Gen.getRange start stop size).2 * Gen.cBitmapSegBytes))).map (fun p => popcount p.2)).sum := by
  unfold bitcount at hn
  unfold bitcountFixed
  rw [hm] at hn ⊢
  simp only [Bool.not_true, Bool.false_eq_true, if_false] at hn ⊢
  have hsb := getRange_bounds start stop size hle
  generalize hr : Gen.getRange start stop size = r at hn hle hsb ⊢
  obtain ⟨s, e⟩ := r
  simp only at hn hle hsb ⊢
  rw [if_neg (by omega)] at hn ⊢
  unfold countRange
  generalize hL : scan m (segK table (vkey pol rk h.ver) (Gen.bitCountStartI s * Gen.cBitmapSegBytes)) (stopK table (vkey pol rk h.ver)) = L at hn ⊢
  cases hcl : countLoop s e L with
  | err c => rw [hcl] at hn; cases hn
  | panic q => rw [hcl] at hn; cases hn
  | ok k =>
  rw [hcl] at hn
  simp only [toIntOut] at hn
  injection hn with hn
  obtain ⟨hall, hsum⟩ := countLoop_ok s e L k hcl
  refine ⟨_, rfl, ?_⟩
  rw [← hn, hsum]
  rw [sum_filter_split L (segVal s e) (fun p => decide (idxOf p.1 ≤ Gen.bitCountStopI e * Gen.cBitmapSegBytes))]
  have e1 : ((L.filter (fun p => decide (idxOf p.1 ≤ Gen.bitCountStopI e * Gen.cBitmapSegBytes))).map (segVal s e)) =
      ((L.filter (fun p => decide (idxOf p.1 ≤ Gen.bitCountStopI e * Gen.cBitmapSegBytes))).map (fun p => segFixed s e (idxOf p.1) p.2)) := by
    apply List.map_congr_left
    intro p hp
    obtain ⟨c, hc⟩ := hall p (List.mem_filter.mp hp).1
    rw [segVal_ok s e p c hc]
    exact (segCount_ok_eq_fixed s e _ _ c hc).symm
  have hmono : Gen.bitCountStartI s * Gen.cBitmapSegBytes ≤ Gen.bitCountStopI e * Gen.cBitmapSegBytes := by
    obtain ⟨sN, rfl⟩ := Int.eq_ofNat_of_zero_le hsb.1
    obtain ⟨eN, rfl⟩ := Int.eq_ofNat_of_zero_le (show 0 ≤ e by omega)
    rw [startI_nat, stopI_nat, segBytes_val]
    have : sN / 1024 ≤ eN / 1024 := Nat.div_le_div_right (by omega)
    omega
  have e2 : ((L.filter (fun p => !decide (idxOf p.1 ≤ Gen.bitCountStopI e * Gen.cBitmapSegBytes))).map (segVal s e)) =
      ((L.filter (fun p => !decide (idxOf p.1 ≤ Gen.bitCountStopI e * Gen.cBitmapSegBytes))).map (fun p => popcount p.2)) := by
    apply List.map_congr_left
    intro p hp
    have hq := (List.mem_filter.mp hp).2
    simp only [Bool.not_eq_true', decide_eq_false_iff_not] at hq
    exact segVal_ok s e p _ (segCount_behind s e _ _ (by omega) (by omega))
  rw [e1, e2]
  simp

/-- **the code's BITCOUNT is right whenever it answers a number and no stored segment lies behind the segment of `end`** -/
theorem bitcount_ok_eq_fixed (pol : Pol) (m : List KV) (now : Int) (table rk : Bytes) (h : Hdr) (ex : Bool) (size : Int)
    (hm : bmeta pol m now table rk = .mk h ex size true) (start stop : Int) (n : Int)
    (hle : (Gen.getRange start stop size).1 ≤ (Gen.getRange start stop size).2)
    (hn : bitcount pol m now table rk start stop = .ok n)
    (hnone : ∀ p ∈ countRange pol m table rk h (Gen.getRange start stop size).1,
      idxOf p.1 ≤ Gen.bitCountStopI (Gen.getRange start stop size).2 * Gen.cBitmapSegBytes) :
    bitcountFixed pol m now table rk start stop = .ok n := by
  obtain ⟨f, hf, hnf⟩ := bitcount_ok_overcount pol m now table rk h ex size hm start stop n hle hn
  rw [hf, hnf]
  have : (countRange pol m table rk h (Gen.getRange start stop size).1).filter
      (fun p => !decide (idxOf p.1 ≤ Gen.bitCountStopI (Gen.getRange start stop size).2 * Gen.cBitmapSegBytes)) = [] := by
    apply List.filter_eq_nil_iff.mpr
    intro p hp
    simp [hnone p hp]
  rw [this]
  simp

/-- the code's BITCOUNT panics as soon as one segment of its range has an inverted cut -/
theorem bitcount_panics (pol : Pol) (m : List KV) (now : Int) (table rk : Bytes) (h : Hdr) (ex : Bool) (size : Int)
    (hm : bmeta pol m now table rk = .mk h ex size true) (start stop : Int)
    (hle : (Gen.getRange start stop size).1 ≤ (Gen.getRange start stop size).2)
    (hbad : ∃ p ∈ countRange pol m table rk h (Gen.getRange start stop size).1,
      (cutOf (Gen.getRange start stop size).1 (Gen.getRange start stop size).2 (idxOf p.1) p.2).1 >
        (cutOf (Gen.getRange start stop size).1 (Gen.getRange start stop size).2 (idxOf p.1) p.2).2) :
    ∃ q, bitcount pol m now table rk start stop = .panic q := by
  unfold bitcount
  rw [hm]
  simp only [Bool.not_true, Bool.false_eq_true, if_false]
  generalize hr : Gen.getRange start stop size = r at hle hbad ⊢
  obtain ⟨s, e⟩ := r
  simp only at hle hbad ⊢
  rw [if_neg (by omega)]
  have : ∃ q, countLoop s e (countRange pol m table rk h s) = .panic q := by
    apply countLoop_has_panic
    obtain ⟨p, hp, hc⟩ := hbad
    refine ⟨p, hp, .sliceBounds (cutOf s e (idxOf p.1) p.2).1 (cutOf s e (idxOf p.1) p.2).2, ?_⟩
    unfold segCount
    rw [if_pos hc]
  obtain ⟨q, hq⟩ := this
  unfold countRange at hq
  exact ⟨q, by rw [hq]; rfl⟩

end Z.BitExec
