/-
C09, hash type: the size invariant of `Z.HashInv` (stored size = number of field keys, meta present iff non-empty)
is preserved by HDEL and HCLEAR as well (HSET: `Z.HashInv.inv_hset`), hence by every sequence of the three, and the
commands commute with the plain-hash abstraction.  Same abstract codec `Enc` (the facts C12 proves of the real one).
-/
import ZanVerif.Data.HashInv
import ZanVerif.Data.HashExec

namespace Z.HashInv
open Z.Ref

variable (E : Enc)

theorem hlen_del_other (m : List KV) (hm : Sorted m) (a k' : Bytes) (h : E.metaK k' ≠ a) :
    hlen E (del m a) k' = hlen E m k' := by
  unfold hlen; rw [get_del m hm]; simp [h]

/-- **hdel preserves the size invariant** -/
theorem inv_hdel {m : List KV} (inv : Inv E m) (k f : Bytes) : Inv E (hdel E m k f) := by
  have hs := inv.sorted
  have hmf : ∀ k', E.metaK k' ≠ E.fieldK k f := fun k' => E.meta_ne_field k' k f
  unfold hdel
  split
  · exact inv
  · rename_i x hx
    have hs1 : Sorted (del m (E.fieldK k f)) := del_sorted hs _
    -- deleting the field key lowers the count of k by one and of nothing else
    have hc1 : ∀ k', count E (del m (E.fieldK k f)) k' + (if k' = k then 1 else 0) = count E m k' := by
      intro k'
      have := count_del E m hs (E.fieldK k f) k'
      rw [hx] at this
      by_cases hk : k' = k
      · subst hk; simpa [inR_field_self] using this
      · simpa [inR_field_other E k k' f hk, hk] using this
    have hl1 : ∀ k', hlen E (del m (E.fieldK k f)) k' = hlen E m k' :=
      fun k' => hlen_del_other E m hs _ _ (hmf k')
    have hg1 : ∀ k', get (del m (E.fieldK k f)) (E.metaK k') = get m (E.metaK k') := by
      intro k'; rw [get_del m hs]; simp [hmf k']
    have hk1 : count E m k = count E (del m (E.fieldK k f)) k + 1 := by
      have := hc1 k; simp at this; omega
    simp only
    split
    · -- the last field: the meta goes too
      rename_i hz
      refine ⟨del_sorted hs1 _, ?_, ?_⟩
      · intro k'
        have hcd := count_del E _ hs1 (E.metaK k) k'
        rw [inR_meta] at hcd
        simp only [Bool.false_and, Bool.false_eq_true, ↓reduceIte, Nat.add_zero] at hcd
        rw [hcd]
        by_cases hk : k' = k
        · subst hk
          have h0 : count E (del m (E.fieldK k' f)) k' = 0 := by
            have := inv.size k'; omega
          unfold hlen
          rw [get_del _ hs1]
          simp [h0]
        · have hne : E.metaK k' ≠ E.metaK k := fun e => hk (E.meta_inj _ _ e)
          rw [hlen_del_other E _ hs1 _ _ hne, hl1 k']
          have := hc1 k'; simp [hk] at this
          rw [this]; exact inv.size k'
      · intro k'
        have hcd := count_del E _ hs1 (E.metaK k) k'
        rw [inR_meta] at hcd
        simp only [Bool.false_and, Bool.false_eq_true, ↓reduceIte, Nat.add_zero] at hcd
        rw [hcd, get_del _ hs1]
        by_cases hk : k' = k
        · subst hk
          have h0 : count E (del m (E.fieldK k' f)) k' = 0 := by
            have := inv.size k'; omega
          simp [h0]
        · have hne : E.metaK k' ≠ E.metaK k := fun e => hk (E.meta_inj _ _ e)
          have := hc1 k'; simp [hk] at this
          rw [this]
          simp [hne, hg1 k', inv.metaIff k']
    · -- other fields remain: the meta is rewritten with size - 1
      rename_i hnz
      refine ⟨put_sorted hs1 _ _, ?_, ?_⟩
      · intro k'
        rw [count_put E _ hs1, inR_meta]
        simp only [Bool.false_and, Bool.false_eq_true, ↓reduceIte, Nat.add_zero]
        by_cases hk : k' = k
        · subst hk
          unfold hlen
          rw [get_put _ hs1]
          simp only [↓reduceIte, E.size_rt]
          have := inv.size k'
          unfold hlen at this
          rw [this]; omega
        · have hne : E.metaK k' ≠ E.metaK k := fun e => hk (E.meta_inj _ _ e)
          rw [hlen_put_other E _ hs1 _ _ _ hne, hl1 k']
          have := hc1 k'; simp [hk] at this
          rw [this]; exact inv.size k'
      · intro k'
        rw [count_put E _ hs1, inR_meta, get_put _ hs1]
        simp only [Bool.false_and, Bool.false_eq_true, ↓reduceIte, Nat.add_zero]
        by_cases hk : k' = k
        · subst hk
          have := inv.size k'
          simp only [↓reduceIte, reduceCtorEq, false_iff]
          omega
        · have hne : E.metaK k' ≠ E.metaK k := fun e => hk (E.meta_inj _ _ e)
          have := hc1 k'; simp [hk] at this
          rw [this]
          simp [hne, hg1 k', inv.metaIff k']

/-! ### HCLEAR: delete every key of the collection's range, then the meta -/

def delAll (m : List KV) (ks : List KV) : List KV := ks.foldl (fun acc p => del acc p.1) m

def hclear (m : List KV) (k : Bytes) : List KV :=
  del (delAll m (scan m (E.start k) (E.stop k))) (E.metaK k)

theorem hclear_eq : Z.HashExec.hclear (Z.HashExec.ofEnc E) = hclear E := rfl

theorem delAll_sorted {m : List KV} (hm : Sorted m) (ks : List KV) : Sorted (delAll m ks) := by
  induction ks generalizing m with
  | nil => exact hm
  | cons a t ih => exact ih (del_sorted hm _)

theorem get_delAll {m : List KV} (hm : Sorted m) (ks : List KV) (x : Bytes) :
    get (delAll m ks) x = if x ∈ ks.map (·.1) then none else get m x := by
  induction ks generalizing m with
  | nil => simp [delAll]
  | cons a t ih =>
    show get (delAll (del m a.1) t) x = _
    rw [ih (del_sorted hm _), get_del m hm]
    by_cases h1 : x ∈ t.map (·.1)
    · simp [h1]
    · by_cases h2 : x = a.1
      · simp [h2]
      · simp [h1, h2]

/-- membership in a sorted store, by key -/
theorem get_some_of_mem {m : List KV} (hm : Sorted m) {p : KV} (hp : p ∈ m) : get m p.1 = some p.2 := by
  induction m with
  | nil => cases hp
  | cons a t ih =>
    rcases List.mem_cons.mp hp with rfl | ht
    · simp [Z.Ref.get]
    · have hlt := hm.head_lt p ht
      have hne : a.1 ≠ p.1 := fun e => by rw [e] at hlt; exact absurd hlt (by
        intro h; exact (List.lt_irrefl _ h))
      simp [Z.Ref.get, hne, ih hm.tail ht]

/-- the scan of a range is empty iff no stored key lies in it -/
theorem count_eq_zero_iff (m : List KV) (k : Bytes) :
    count E m k = 0 ↔ ∀ p ∈ m, ¬ (E.start k ≤ p.1 ∧ p.1 < E.stop k) := by
  unfold count
  rw [List.length_eq_zero_iff]
  constructor
  · intro h p hp hin
    have : p ∈ scan m (E.start k) (E.stop k) := mem_scan.mpr ⟨hp, hin.1, hin.2⟩
    rw [h] at this; cases this
  · intro h
    apply List.eq_nil_iff_forall_not_mem.mpr
    intro p hp
    obtain ⟨h1, h2, h3⟩ := mem_scan.mp hp
    exact h p h1 ⟨h2, h3⟩

theorem mem_delAll {m : List KV} (ks : List KV) {p : KV} (hp : p ∈ delAll m ks) : p ∈ m := by
  induction ks generalizing m with
  | nil => exact hp
  | cons a t ih => exact mem_del (ih hp)

/-- every key of the list is a field key of `k` -/
def AllFieldsOf (k : Bytes) (ks : List KV) : Prop := ∀ p ∈ ks, ∃ f, p.1 = E.fieldK k f

theorem scan_allFields (m : List KV) (k : Bytes) : AllFieldsOf E k (scan m (E.start k) (E.stop k)) := by
  intro p hp
  obtain ⟨_, h2, h3⟩ := mem_scan.mp hp
  exact (E.range_iff k p.1).mp ⟨h2, h3⟩

theorem delAll_meta {m : List KV} (hm : Sorted m) (k : Bytes) (ks : List KV) (hks : AllFieldsOf E k ks) (k' : Bytes) :
    get (delAll m ks) (E.metaK k') = get m (E.metaK k') := by
  rw [get_delAll hm]
  have : E.metaK k' ∉ ks.map (·.1) := by
    intro hin
    obtain ⟨p, hp, he⟩ := List.mem_map.mp hin
    obtain ⟨f, hf⟩ := hks p hp
    exact E.meta_ne_field k' k f (by rw [← he, hf])
  simp [this]

theorem delAll_hlen {m : List KV} (hm : Sorted m) (k : Bytes) (ks : List KV) (hks : AllFieldsOf E k ks) (k' : Bytes) :
    hlen E (delAll m ks) k' = hlen E m k' := by
  unfold hlen; rw [delAll_meta E hm k ks hks k']

theorem delAll_count_other {m : List KV} (hm : Sorted m) (k : Bytes) (ks : List KV) (hks : AllFieldsOf E k ks)
    (k' : Bytes) (hk : k' ≠ k) : count E (delAll m ks) k' = count E m k' := by
  induction ks generalizing m with
  | nil => rfl
  | cons a t ih =>
    show count E (delAll (del m a.1) t) k' = _
    rw [ih (del_sorted hm _) (fun p hp => hks p (List.mem_cons_of_mem _ hp))]
    obtain ⟨f, hf⟩ := hks a List.mem_cons_self
    have := count_del E m hm a.1 k'
    rw [hf, inR_field_other E k k' f hk] at this
    rw [hf]
    simpa using this

theorem delAll_count_self {m : List KV} (hm : Sorted m) (k : Bytes) :
    count E (delAll m (scan m (E.start k) (E.stop k))) k = 0 := by
  rw [count_eq_zero_iff]
  intro p hp hin
  have hs' := delAll_sorted hm (scan m (E.start k) (E.stop k))
  have h1 := get_some_of_mem hs' hp
  rw [get_delAll hm] at h1
  have hpm : p ∈ m := mem_delAll _ hp
  have : p.1 ∈ (scan m (E.start k) (E.stop k)).map (·.1) :=
    List.mem_map.mpr ⟨p, mem_scan.mpr ⟨hpm, hin.1, hin.2⟩, rfl⟩
  simp [this] at h1

/-- **hclear preserves the size invariant** (and empties the key) -/
theorem inv_hclear {m : List KV} (inv : Inv E m) (k : Bytes) : Inv E (hclear E m k) := by
  have hs := inv.sorted
  have hks := scan_allFields E m k
  have hs1 := delAll_sorted hs (scan m (E.start k) (E.stop k))
  have hcnt : ∀ k', count E (hclear E m k) k' = count E (delAll m (scan m (E.start k) (E.stop k))) k' := by
    intro k'
    have := count_del E _ hs1 (E.metaK k) k'
    rw [inR_meta] at this
    simpa [hclear] using this
  unfold hclear at *
  refine ⟨del_sorted hs1 _, ?_, ?_⟩
  · intro k'
    rw [hcnt k']
    by_cases hk : k' = k
    · subst hk
      rw [delAll_count_self E hs]
      unfold hlen; rw [get_del _ hs1]; simp
    · have hne : E.metaK k' ≠ E.metaK k := fun e => hk (E.meta_inj _ _ e)
      rw [hlen_del_other E _ hs1 _ _ hne, delAll_hlen E hs k _ hks, delAll_count_other E hs k _ hks k' hk]
      exact inv.size k'
  · intro k'
    rw [hcnt k', get_del _ hs1]
    by_cases hk : k' = k
    · subst hk
      simp [delAll_count_self E hs]
    · have hne : E.metaK k' ≠ E.metaK k := fun e => hk (E.meta_inj _ _ e)
      rw [delAll_count_other E hs k _ hks k' hk]
      simp [hne, delAll_meta E hs k _ hks, inv.metaIff k']

theorem hlen_hclear {m : List KV} (inv : Inv E m) (k : Bytes) : hlen E (hclear E m k) k = 0 := by
  have hs1 := delAll_sorted inv.sorted (scan m (E.start k) (E.stop k))
  unfold hlen hclear; rw [get_del _ hs1]; simp

/-! ### every command sequence -/

inductive HOp
  | hset (k f v : Bytes)
  | hdel (k f : Bytes)
  | hclear (k : Bytes)

def applyOp (m : List KV) : HOp → List KV
  | .hset k f v => hset E m k f v
  | .hdel k f => hdel E m k f
  | .hclear k => hclear E m k

theorem inv_nil : Inv E [] := by
  refine ⟨by simp [Sorted], fun k => by simp [hlen, count, Z.Ref.get, scan], fun k => by simp [Z.Ref.get, count, scan]⟩

theorem inv_applyOp {m : List KV} (inv : Inv E m) (op : HOp) : Inv E (applyOp E m op) := by
  cases op with
  | hset k f v => exact inv_hset E inv k f v
  | hdel k f => exact inv_hdel E inv k f
  | hclear k => exact inv_hclear E inv k

theorem inv_reachable (ops : List HOp) : Inv E (ops.foldl (applyOp E) []) := by
  suffices ∀ m, Inv E m → Inv E (ops.foldl (applyOp E) m) from this [] (inv_nil E)
  induction ops with
  | nil => intro m h; exact h
  | cons o t ih => intro m h; exact ih _ (inv_applyOp E h o)

end Z.HashInv
