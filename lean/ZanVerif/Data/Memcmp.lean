/-
Scratch prototype: order preservation of the memcomparable bytes encoding, bytewise formulation.
`enc n d`: n = number of data bytes already emitted in the current group (0..7).
-/
namespace Z.Memcmp2
abbrev Bytes := List UInt8

def marker (n : Nat) : UInt8 := UInt8.ofNat (255 - (8 - n))   -- group with n real bytes

def enc : Nat → Bytes → Bytes
  | n, [] => List.replicate (8 - n) 0 ++ [marker n]
  | n, x :: xs => if n = 7 then x :: 0xFF :: enc 0 xs else x :: enc (n + 1) xs

#eval enc 0 [1,2,3]
#eval enc 0 [1,2,3,4,5,6,7,8]
#eval enc 0 []

theorem marker_lt {n m : Nat} (h : n < m) (hm : m ≤ 8) : marker n < marker m := by
  have : m = 1 ∨ m = 2 ∨ m = 3 ∨ m = 4 ∨ m = 5 ∨ m = 6 ∨ m = 7 ∨ m = 8 := by omega
  have : n = 0 ∨ n = 1 ∨ n = 2 ∨ n = 3 ∨ n = 4 ∨ n = 5 ∨ n = 6 ∨ n = 7 := by omega
  rcases ‹m = 1 ∨ _› with rfl|rfl|rfl|rfl|rfl|rfl|rfl|rfl <;>
  rcases ‹n = 0 ∨ _› with rfl|rfl|rfl|rfl|rfl|rfl|rfl|rfl <;>
  first | (exfalso; omega) | decide

theorem marker_lt_ff {n : Nat} (h : n < 8) : marker n < 0xFF := by
  have : n = 0 ∨ n = 1 ∨ n = 2 ∨ n = 3 ∨ n = 4 ∨ n = 5 ∨ n = 6 ∨ n = 7 := by omega
  rcases this with rfl|rfl|rfl|rfl|rfl|rfl|rfl|rfl <;> decide

theorem zero_lt_of_ne (y : UInt8) (h : y ≠ 0) : (0 : UInt8) < y := by
  rcases UInt8.lt_or_eq_of_le (UInt8.zero_le (a := y)) with h' | h'
  · exact h'
  · exact absurd h'.symm h

/-- a padded tail that claims only `n` real bytes is below any continuation at position m > n -/
theorem pad_lt (ys : Bytes) : ∀ (n m : Nat), n < m → m ≤ 7 →
    List.replicate (8 - m) 0 ++ [marker n] < enc m ys := by
  induction ys with
  | nil =>
    intro n m hnm hm
    simp only [enc]
    exact List.append_left_lt (List.cons_lt_cons_iff.mpr (Or.inl (marker_lt hnm (by omega))))
  | cons y ys ih =>
    intro n m hnm hm
    have hrep : List.replicate (8 - m) (0 : UInt8) = 0 :: List.replicate (8 - m - 1) 0 := by
      have : 8 - m = (8 - m - 1) + 1 := by omega
      rw [this, List.replicate_succ]; simp
    rw [hrep]
    simp only [enc, List.cons_append]
    by_cases hy : y = 0
    · subst hy
      split
      · rename_i h7
        subst h7
        simp only [Nat.reduceSub, List.replicate_zero, List.nil_append]
        exact List.cons_lt_cons_iff.mpr (Or.inr ⟨rfl, List.cons_lt_cons_iff.mpr (Or.inl (marker_lt_ff (by omega)))⟩)
      · rename_i h7
        refine List.cons_lt_cons_iff.mpr (Or.inr ⟨rfl, ?_⟩)
        have := ih n (m + 1) (by omega) (by omega)
        have e : 8 - (m + 1) = 8 - m - 1 := by omega
        rw [e] at this
        exact this
    · have h0 := zero_lt_of_ne y hy
      split <;> exact List.cons_lt_cons_iff.mpr (Or.inl h0)

/-- strict monotonicity, any group position -/
theorem enc_lt (a : Bytes) : ∀ (b : Bytes) (n : Nat), n ≤ 7 → a < b → enc n a < enc n b := by
  induction a with
  | nil =>
    intro b n hn hab
    cases b with
    | nil => exact absurd hab (List.lt_irrefl _)
    | cons y ys =>
      have hrep : List.replicate (8 - n) (0 : UInt8) = 0 :: List.replicate (8 - n - 1) 0 := by
        have : 8 - n = (8 - n - 1) + 1 := by omega
        rw [this, List.replicate_succ]; simp
      simp only [enc]
      rw [hrep, List.cons_append]
      by_cases hy : y = 0
      · subst hy
        split
        · rename_i h7; subst h7
          simp only [Nat.reduceSub, List.replicate_zero, List.nil_append]
          exact List.cons_lt_cons_iff.mpr (Or.inr ⟨rfl, List.cons_lt_cons_iff.mpr (Or.inl (marker_lt_ff (by omega)))⟩)
        · rename_i h7
          refine List.cons_lt_cons_iff.mpr (Or.inr ⟨rfl, ?_⟩)
          have := pad_lt ys n (n + 1) (by omega) (by omega)
          have e : 8 - (n + 1) = 8 - n - 1 := by omega
          rw [e] at this
          exact this
      · have h0 := zero_lt_of_ne y hy
        split <;> exact List.cons_lt_cons_iff.mpr (Or.inl h0)
  | cons x xs ih =>
    intro b n hn hab
    cases b with
    | nil => exact absurd hab (by simp)
    | cons y ys =>
      rcases List.cons_lt_cons_iff.mp hab with hxy | ⟨rfl, hlt⟩
      · simp only [enc]
        split <;> exact List.cons_lt_cons_iff.mpr (Or.inl hxy)
      · simp only [enc]
        split
        · exact List.cons_lt_cons_iff.mpr (Or.inr ⟨rfl, List.cons_lt_cons_iff.mpr (Or.inr ⟨rfl, ih ys 0 (by omega) hlt⟩)⟩)
        · exact List.cons_lt_cons_iff.mpr (Or.inr ⟨rfl, ih ys (n + 1) (by omega) hlt⟩)

/-- order preservation and injectivity of the top-level encoding -/
theorem enc_lt_iff (a b : Bytes) : enc 0 a < enc 0 b ↔ a < b := by
  constructor
  · intro h
    rcases List.le_total a b with hab | hba
    · rcases List.le_iff_lt_or_eq.mp hab with h' | h'
      · exact h'
      · subst h'; exact absurd h (List.lt_irrefl _)
    · rcases List.le_iff_lt_or_eq.mp hba with h' | h'
      · exact absurd (List.lt_trans h (enc_lt b a 0 (by omega) h')) (List.lt_irrefl _)
      · subst h'; exact absurd h (List.lt_irrefl _)
  · exact enc_lt a b 0 (by omega)

theorem enc_injective (a b : Bytes) (h : enc 0 a = enc 0 b) : a = b := by
  rcases List.le_total a b with hab | hba
  · rcases List.le_iff_lt_or_eq.mp hab with h' | h'
    · exact absurd (h ▸ enc_lt a b 0 (by omega) h') (List.lt_irrefl _)
    · exact h'
  · rcases List.le_iff_lt_or_eq.mp hba with h' | h'
    · exact absurd (h ▸ enc_lt b a 0 (by omega) h') (List.lt_irrefl _)
    · exact h'.symm

#print axioms enc_lt_iff
end Z.Memcmp2
