/-
  BITCOUNT, iterator form — `Z.BitExec.bitcount` models `BitCountV2` as it is after fix d794a70 (the loop breaks behind the
  segment of `end`, an inverted cut is clamped):
  * `bitcountFixed` / `segFixed`: the same computation in FILTER form (every stored segment of the iterator range whose index
    is not behind `end`, both cut points clamped to the stored length) — a proof device, not a model of any code;
  * `bitcountFixed_eq_spec`: in every well-formed store (`WF`, i.e. every reachable one) the filter form answers the prescribed
    `bitcountSpec`;
  * `segCount_eq_segFixed` (every segment, no hypothesis) and `bitcount_eq_fixed` (well-formed stores: the iterator range is
    ordered by the segment index, so "break at the first segment behind `end`" = "skip every segment behind `end`");
  * hence `bitcount_eq_spec`: the code's BITCOUNT = the prescribed one = (with `bitcountSpec_eq_enum`) the enumeration of GETBIT.
-/
import ZanVerif.Data.BitInv
import ZanVerif.Data.HeaderLemmas

namespace Z.BitExec
open Z.Ref (get put del scan Sorted mem_scan)
open Z.Coll
open Z.Codec Z.Header

/-- one iteration in filter form: both cut points clamped to the stored length, an empty cut counts nothing -/
def segFixed (s e : Int) (idx : Int) (v : Bytes) : Nat :=
  let bs := if idx = Gen.bitCountStartI s * Gen.cBitmapSegBytes then min (Gen.bitCountByteStart s).toNat v.length else 0
  let be := if idx = Gen.bitCountStopI e * Gen.cBitmapSegBytes then min (Gen.bitCountByteEnd e).toNat v.length else v.length
  popcount ((v.drop bs).take (be - bs))

/-- `BitCountV2` in filter form -/
def bitcountFixed (pol : Pol) (m : List KV) (now : Int) (table rk : Bytes) (start stop : Int) : BOut Int :=
  match bmeta pol m now table rk with
  | .err e => .err e
  | .mk h _ size ok =>
    if !ok then bitCountOld pol m now table rk start stop else
    let (s, e) := Gen.getRange start stop size
    if s > e then .ok 0 else
    let vk := vkey pol rk h.ver
    .ok ((((scan m (segK table vk (Gen.bitCountStartI s * Gen.cBitmapSegBytes)) (stopK table vk)).filter
      (fun p => idxOf p.1 ≤ Gen.bitCountStopI e * Gen.cBitmapSegBytes)).map (fun p => segFixed s e (idxOf p.1) p.2)).sum : Nat)

/-! ### ranges -/

theorem head_of_range {c : UInt8} {a b x : Bytes} (h1 : c :: a ≤ x) (h2 : x < c :: b) : x.head? = some c := by
  cases x with
  | nil => exact absurd (List.not_lt.mpr h1) (by simp)
  | cons y ys =>
    have e1 : ¬ (y :: ys < c :: a) := List.not_lt.mpr h1
    rw [List.cons_lt_cons_iff] at e1 h2
    have hyc : ¬ y < c := fun h => e1 (Or.inl h)
    rcases h2 with h | ⟨h, _⟩
    · exact absurd h hyc
    · rw [h]; rfl

theorem segK_cons (t v : Bytes) (i : Int) : ∃ r, segK t v i = Gen.cBitmapType :: r := by
  rw [segK_unfold]; exact ⟨_, rfl⟩
theorem stopK_cons (t v : Bytes) : ∃ r, stopK t v = Gen.cBitmapType :: r := by
  rw [stopK_unfold]; exact ⟨_, rfl⟩

theorem inI64_seg (j : Nat) (h : j < 9007199254740992) : inI64 (Gen.cBitmapSegBytes * (j : Int)) := by
  unfold inI64; rw [segBytes_val]; omega

/-- what the iterator of BITCOUNT finds: the stored segments of that generation from the start index on -/
theorem scan_seg {m : List KV} (W : WF m) (table vk : Bytes) (ht : table.length < 65536) (j0 : Nat) (hj0 : j0 < 9007199254740992)
    (p : KV) (hp : p ∈ scan m (segK table vk (Gen.cBitmapSegBytes * (j0 : Int))) (stopK table vk)) :
    ∃ j : Nat, j0 ≤ j ∧ j < 9007199254740992 ∧ p.1 = segK table vk (Gen.cBitmapSegBytes * (j : Int)) ∧ ZeroTail p.2 := by
  obtain ⟨hm, hlo, hhi⟩ := mem_scan.mp hp
  obtain ⟨r1, e1⟩ := segK_cons table vk (Gen.cBitmapSegBytes * (j0 : Int))
  obtain ⟨r2, e2⟩ := stopK_cons table vk
  have hh : p.1.head? = some Gen.cBitmapType := head_of_range (e1 ▸ hlo) (e2 ▸ hhi)
  obtain ⟨t, x, j, hk, ht', hj, hz, _⟩ := W.seg p hm hh
  rw [hk] at hlo hhi
  obtain ⟨rfl, rfl, hle⟩ := segK_in_range ht ht' (inI64_seg j0 hj0) (inI64_seg j hj) hlo hhi
  refine ⟨j, ?_, hj, hk, hz⟩
  rw [segBytes_val] at hle; omega

/-! ### one segment: repaired cut = prescribed cut -/

theorem byteSum_clip (F : Nat → UInt8) (c : Nat) (hF : ∀ i, c ≤ i → F i = 0) (a n : Nat) :
    byteSum F a n = byteSum F (min a c) (min (a + n) c - min a c) := by
  by_cases hac : c ≤ a
  · rw [byteSum_eq_zero F a n (fun b h1 _ => hF b (by omega)), show min (a + n) c - min a c = 0 by omega]; rfl
  · rw [show min a c = a by omega, show n = (min (a + n) c - a) + (n - (min (a + n) c - a)) by omega, byteSum_add,
      byteSum_eq_zero F (a + (min (a + n) c - a)) _ (fun b h1 h2 => hF b (by omega))]
    rw [show a + (min (a + n) c - a + (n - (min (a + n) c - a))) = a + n by omega]
    omega

theorem startI_nat (s : Nat) : Gen.bitCountStartI (s : Int) = ((s / 1024 : Nat) : Int) := by
  unfold Gen.bitCountStartI; rw [segBytes_val, Int.tdiv_eq_ediv_of_nonneg (by omega)]; omega
theorem stopI_nat (e : Nat) : Gen.bitCountStopI (e : Int) = ((e / 1024 : Nat) : Int) := by
  unfold Gen.bitCountStopI; rw [segBytes_val, Int.tdiv_eq_ediv_of_nonneg (by omega)]; omega
theorem byteStart_nat (s : Nat) : (Gen.bitCountByteStart (s : Int)).toNat = s % 1024 := by
  unfold Gen.bitCountByteStart; rw [segBytes_val, Int.tmod_eq_emod_of_nonneg (by omega)]; omega
theorem byteEnd_nat (e : Nat) : (Gen.bitCountByteEnd (e : Int)).toNat = e % 1024 + 1 := by
  unfold Gen.bitCountByteEnd; rw [segBytes_val, Int.tmod_eq_emod_of_nonneg (by omega)]; omega

/-- the cut points of the loop of `BitCountV2` for the segment with number `j` -/
theorem cut_nat (s e j : Nat) (v : Bytes) :
    (if Gen.cBitmapSegBytes * (j : Int) = Gen.bitCountStartI (s : Int) * Gen.cBitmapSegBytes then (Gen.bitCountByteStart (s : Int)).toNat else 0) =
      (if j = s / 1024 then s % 1024 else 0) ∧
    (if Gen.cBitmapSegBytes * (j : Int) = Gen.bitCountStopI (e : Int) * Gen.cBitmapSegBytes then min (Gen.bitCountByteEnd (e : Int)).toNat v.length else v.length) =
      (if j = e / 1024 then min (e % 1024 + 1) v.length else v.length) := by
  rw [startI_nat, stopI_nat, byteStart_nat, byteEnd_nat, segBytes_val]
  constructor
  · by_cases h : j = s / 1024
    · rw [if_pos h, if_pos (by omega)]
    · rw [if_neg h, if_neg (by omega)]
  · by_cases h : j = e / 1024
    · rw [if_pos h, if_pos (by omega)]
    · rw [if_neg h, if_neg (by omega)]

theorem segFixed_eq_segSpec (s e j : Nat) (v : Bytes) (hz : ZeroTail v) (h1 : s / 1024 ≤ j) (h2 : j ≤ e / 1024) (hse : s ≤ e) :
    segFixed (s : Int) (e : Int) (Gen.cBitmapSegBytes * (j : Int)) v = segSpec (s : Int) (e : Int) (Gen.cBitmapSegBytes * (j : Int)) v := by
  unfold segFixed segSpec
  simp only
  rw [popcount_slice, popcount_slice]
  have hF : ∀ i, min v.length 1024 ≤ i → v.getD i 0 = 0 := by
    intro i hi
    by_cases hl : v.length ≤ i
    · exact getD_of_le v i hl
    · exact hz i (by omega)
  -- the cut points as natural numbers
  have cs : (if Gen.cBitmapSegBytes * (j : Int) = Gen.bitCountStartI (s : Int) * Gen.cBitmapSegBytes
      then min (Gen.bitCountByteStart (s : Int)).toNat v.length else 0) = (if j = s / 1024 then min (s % 1024) v.length else 0) := by
    rw [startI_nat, byteStart_nat, segBytes_val]
    by_cases h : j = s / 1024
    · rw [if_pos h, if_pos (by omega)]
    · rw [if_neg h, if_neg (by omega)]
  rw [cs, (cut_nat s e j v).2]
  generalize hbs : (if j = s / 1024 then min (s % 1024) v.length else 0) = bs
  generalize hbe : (if j = e / 1024 then min (e % 1024 + 1) v.length else v.length) = be
  generalize hlo : (max (s : Int) (Gen.cBitmapSegBytes * (j : Int)) - Gen.cBitmapSegBytes * (j : Int)).toNat = lo
  generalize hhi : (min (e : Int) (Gen.cBitmapSegBytes * (j : Int) + min (v.length : Int) Gen.cBitmapSegBytes - 1) -
    Gen.cBitmapSegBytes * (j : Int) + 1).toNat = hi
  rw [segBytes_val] at hlo hhi
  rw [byteSum_clip _ _ hF bs, byteSum_clip _ _ hF lo]
  have hlo' : lo = if j = s / 1024 then s % 1024 else 0 := by split <;> omega
  have hhi' : hi = if j = e / 1024 then min (e % 1024 + 1) (min v.length 1024) else min v.length 1024 := by split <;> omega
  by_cases hn : min (bs + (be - bs)) (min v.length 1024) - min bs (min v.length 1024) = 0
  · rw [hn, show min (lo + (hi - lo)) (min v.length 1024) - min lo (min v.length 1024) = 0 by
      (split at hlo' <;> split at hhi' <;> split at hbs <;> split at hbe <;> omega)]
    rfl
  · have e1 : min bs (min v.length 1024) = min lo (min v.length 1024) := by
      split at hlo' <;> split at hhi' <;> split at hbs <;> split at hbe <;> omega
    have e2 : min (bs + (be - bs)) (min v.length 1024) = min (lo + (hi - lo)) (min v.length 1024) := by
      split at hlo' <;> split at hhi' <;> split at hbs <;> split at hbe <;> omega
    rw [e1, e2]

/-! ### the repaired iterator-based BITCOUNT is the prescribed one -/

theorem getRange_bounds (start stop size : Int) (h : (Gen.getRange start stop size).1 ≤ (Gen.getRange start stop size).2) :
    0 ≤ (Gen.getRange start stop size).1 ∧ (Gen.getRange start stop size).2 < size := by
  unfold Gen.getRange at h ⊢
  simp only at h ⊢
  constructor
  · split <;> omega
  · split at h <;> split at h <;> split <;> split <;> (try split) <;> (try split at h) <;> omega

theorem bmeta_size_lt (pol : Pol) (m : List KV) (ts : Int) (table rk : Bytes) (h : Hdr) (ex : Bool) (size : Int) (ok : Bool)
    (hm : bmeta pol m ts table rk = .mk h ex size ok) : size < 9223372036854775808 := by
  unfold bmeta at hm
  split at hm
  · cases hm
  · simp only at hm
    split at hm
    · cases hm; omega
    · split at hm
      · cases hm
      · cases hm
        have hl := Z.Header.fromBE_lt (List.take 8 (h.user.getD []))
        have hp : 256 ^ (List.take 8 (h.user.getD [])).length ≤ 256 ^ 8 := Nat.pow_le_pow_right (by omega) (by rw [List.length_take]; omega)
        unfold ofU64; split <;> omega

theorem bitcountFixed_eq_spec {m : List KV} (W : WF m) (pol : Pol) (now : Int) (table rk : Bytes) (ht : table.length < 65536)
    (start stop : Int) : bitcountFixed pol m now table rk start stop = bitcountSpec pol m now table rk start stop := by
  unfold bitcountFixed bitcountSpec
  cases hm : bmeta pol m now table rk with
  | err e => rfl
  | mk h ex size ok =>
    simp only
    by_cases hok : ok = true
    · subst hok
      simp only [Bool.not_true, Bool.false_eq_true, if_false]
      have hb := getRange_bounds start stop size
      have hsz := bmeta_size_lt pol m now table rk h ex size true hm
      generalize hr : Gen.getRange start stop size = r at hb
      obtain ⟨s, e⟩ := r
      simp only at hb ⊢
      by_cases hgt : s > e
      · rw [if_pos hgt, if_pos hgt]
      · rw [if_neg hgt, if_neg hgt]
        obtain ⟨hs0, hes⟩ := hb (by omega)
        obtain ⟨sN, rfl⟩ := Int.eq_ofNat_of_zero_le hs0
        obtain ⟨eN, rfl⟩ := Int.eq_ofNat_of_zero_le (show 0 ≤ e by omega)
        have hse : sN ≤ eN := by omega
        congr 2
        rw [startI_nat, stopI_nat, Int.toNat_natCast, Int.toNat_natCast]
        have hd : sN / 1024 ≤ eN / 1024 := Nat.div_le_div_right hse
        have hbig : eN / 1024 < 9007199254740992 := by omega
        unfold scan
        rw [List.filter_filter]
        rw [sum_filter_eq_sumOver W.sorted _ _ (fun j => segK table (vkey pol rk h.ver) (Gen.cBitmapSegBytes * (j : Int))) (sN / 1024) (eN / 1024 + 1 - sN / 1024)]
        · apply sumOver_congr
          intro j hj1 hj2
          cases hg : get m (segK table (vkey pol rk h.ver) (Gen.cBitmapSegBytes * (j : Int))) with
          | none => rfl
          | some v =>
            simp only
            rw [idxOf_segK _ _ (inI64_seg j (by omega))]
            have hp := (Z.Coll.get_eq_some_iff W.sorted _ _).mp hg
            obtain ⟨_, _, _, _, _, _, hz, _⟩ := W.seg _ hp (segK_head _ _ _)
            exact segFixed_eq_segSpec sN eN j v hz hj1 (by omega) hse
        · intro i j hi1 hi2 hj1 hj2 hij
          have := (segK_inj ht ht (inI64_seg i (by omega)) (inI64_seg j (by omega)) hij).2.2
          rw [segBytes_val] at this; omega
        · intro p hp hP
          simp only [Bool.and_eq_true, decide_eq_true_eq] at hP
          obtain ⟨hq, hlo, hhi⟩ := hP
          have hps : p ∈ scan m (segK table (vkey pol rk h.ver) (Gen.cBitmapSegBytes * ((sN / 1024 : Nat) : Int))) (stopK table (vkey pol rk h.ver)) := by
            rw [mem_scan]; refine ⟨hp, ?_, hhi⟩
            rw [Int.mul_comm]; exact hlo
          obtain ⟨j, hj0, hjb, hk, _⟩ := scan_seg W table _ ht (sN / 1024) (by omega) p hps
          refine ⟨j, hj0, ?_, hk⟩
          rw [hk, idxOf_segK _ _ (inI64_seg j hjb), segBytes_val] at hq
          omega
        · intro j hj1 hj2 v hg
          simp only [Bool.and_eq_true, decide_eq_true_eq]
          refine ⟨?_, ?_, segK_lt_stopK _ _ _⟩
          · rw [idxOf_segK _ _ (inI64_seg j (by omega)), segBytes_val]; omega
          · rw [Int.mul_comm]
            exact segK_ge _ _ (inI64_seg _ (by omega)) (inI64_seg j (by omega)) (by rw [segBytes_val]; omega)
    · have : ok = false := by cases ok <;> simp_all
      subst this
      rfl

/-! ### the code's loop (break, clamp) = the filter form -/

theorem cutOf_end_le (s e idx : Int) (v : Bytes) : (cutOf s e idx v).2 ≤ v.length := by
  unfold cutOf; simp only; split <;> omega

theorem clamp_slice (v : Bytes) (X E : Nat) (hE : E ≤ v.length) :
    popcount ((v.drop (if decide ((X : Int) > (E : Int)) = true then E else X)).take (E - (if decide ((X : Int) > (E : Int)) = true then E else X))) =
      popcount ((v.drop (min X v.length)).take (E - min X v.length)) := by
  by_cases h : (X : Int) > (E : Int)
  · rw [if_pos (by simpa using h), show E - E = 0 by omega, show E - min X v.length = 0 by omega]
    simp
  · rw [if_neg (by simpa using h), show min X v.length = X by omega]

theorem segFixed_cut (s e idx : Int) (v : Bytes) :
    segFixed s e idx v = popcount ((v.drop (min (cutOf s e idx v).1 v.length)).take ((cutOf s e idx v).2 - min (cutOf s e idx v).1 v.length)) := by
  unfold segFixed cutOf
  simp only
  by_cases hc : idx = Gen.bitCountStartI s * Gen.cBitmapSegBytes
  · simp only [if_pos hc]
  · simp only [if_neg hc, Nat.zero_min]

/-- the clamp of the code (`if byteStart > byteEnd { byteStart = byteEnd }`) counts what the filter form counts -/
theorem segCount_eq_segFixed (s e idx : Int) (v : Bytes) : segCount s e idx v = segFixed s e idx v := by
  rw [segFixed_cut]
  unfold segCount Gen.bitCountInverted
  exact clamp_slice v _ _ (cutOf_end_le s e idx v)

theorem takeWhile_eq_filter {α : Type} (R : α → α → Prop) (P : α → Bool) :
    ∀ (L : List α), L.Pairwise R → (∀ a ∈ L, ∀ b ∈ L, R a b → P b = true → P a = true) → L.takeWhile P = L.filter P
  | [], _, _ => rfl
  | a :: t, hp, hm => by
    have hpt := (List.pairwise_cons.mp hp)
    by_cases ha : P a = true
    · rw [List.takeWhile_cons_of_pos ha, List.filter_cons_of_pos ha,
        takeWhile_eq_filter R P t hpt.2 (fun x hx y hy => hm x (List.mem_cons_of_mem _ hx) y (List.mem_cons_of_mem _ hy))]
    · rw [List.takeWhile_cons_of_neg ha, List.filter_cons_of_neg ha]
      symm
      apply List.filter_eq_nil_iff.mpr
      intro b hb hPb
      exact ha (hm a List.mem_cons_self b (List.mem_cons_of_mem _ hb) (hpt.1 b hb) hPb)

/-- in a well-formed store the iterator range is ordered by the segment index: breaking at the first segment behind `end` =
    skipping every segment behind `end`; **the code's BITCOUNT = the filter form** -/
theorem bitcount_eq_fixed {m : List KV} (W : WF m) (pol : Pol) (now : Int) (table rk : Bytes) (ht : table.length < 65536)
    (start stop : Int) : bitcount pol m now table rk start stop = bitcountFixed pol m now table rk start stop := by
  unfold bitcount bitcountFixed
  cases hm : bmeta pol m now table rk with
  | err e => rfl
  | mk h ex size ok =>
    simp only
    by_cases hok : ok = true
    · subst hok
      simp only [Bool.not_true, Bool.false_eq_true, if_false]
      have hb := getRange_bounds start stop size
      have hsz := bmeta_size_lt pol m now table rk h ex size true hm
      generalize hr : Gen.getRange start stop size = r at hb
      obtain ⟨s, e⟩ := r
      simp only at hb ⊢
      by_cases hgt : s > e
      · rw [if_pos hgt, if_pos hgt]
      · rw [if_neg hgt, if_neg hgt]
        obtain ⟨hs0, hes⟩ := hb (by omega)
        obtain ⟨sN, rfl⟩ := Int.eq_ofNat_of_zero_le hs0
        congr 2
        unfold countLoop
        have hP : (fun p : KV => !Gen.bitCountBehind (idxOf p.1) (Gen.bitCountStopI e)) =
            (fun p : KV => decide (idxOf p.1 ≤ Gen.bitCountStopI e * Gen.cBitmapSegBytes)) := by
          funext p; unfold Gen.bitCountBehind
          by_cases hq : idxOf p.1 ≤ Gen.bitCountStopI e * Gen.cBitmapSegBytes
          · rw [decide_eq_true hq, decide_eq_false (by omega)]; rfl
          · rw [decide_eq_false hq, decide_eq_true (by omega)]; rfl
        rw [hP]
        generalize hL : scan m (segK table (vkey pol rk h.ver) (Gen.bitCountStartI (sN : Int) * Gen.cBitmapSegBytes)) (stopK table (vkey pol rk h.ver)) = L
        have hmem : ∀ p ∈ L, ∃ j : Nat, j < 9007199254740992 ∧ p.1 = segK table (vkey pol rk h.ver) (Gen.cBitmapSegBytes * (j : Int)) := by
          intro p hp
          rw [← hL, startI_nat, Int.mul_comm] at hp
          obtain ⟨j, _, hj, hk, _⟩ := scan_seg W table _ ht (sN / 1024) (by omega) p hp
          exact ⟨j, hj, hk⟩
        have hpw : L.Pairwise (fun p q => p.1 < q.1) := by
          rw [← hL]; exact Z.Coll.sorted_pairwise (Z.Coll.scan_sorted W.sorted _ _)
        rw [takeWhile_eq_filter (fun p q : KV => p.1 < q.1) _ L hpw]
        · congr 1
          apply List.map_congr_left
          intro p _
          exact segCount_eq_segFixed _ _ _ _
        · intro a ha b hb hab hPb
          obtain ⟨ja, hja, hka⟩ := hmem a ha
          obtain ⟨jb, hjb, hkb⟩ := hmem b hb
          simp only [decide_eq_true_eq] at hPb ⊢
          rw [hka, hkb, segK_lt _ _ (inI64_seg ja hja) (inI64_seg jb hjb)] at hab
          rw [hka, idxOf_segK _ _ (inI64_seg ja hja)]
          rw [hkb, idxOf_segK _ _ (inI64_seg jb hjb)] at hPb
          omega
    · have : ok = false := by cases ok <;> simp_all
      subst this
      rfl

/-- **the code's BITCOUNT is the prescribed one** in every well-formed store -/
theorem bitcount_eq_spec {m : List KV} (W : WF m) (pol : Pol) (now : Int) (table rk : Bytes) (ht : table.length < 65536)
    (start stop : Int) : bitcount pol m now table rk start stop = bitcountSpec pol m now table rk start stop := by
  rw [bitcount_eq_fixed W pol now table rk ht start stop, bitcountFixed_eq_spec W pol now table rk ht start stop]

end Z.BitExec
