/- C13: the collection-scan client loop of `Z.Scan` is the paged scan of `Z.Paged` (both directions). -/
import ZanVerif.Data.ScanModel
import ZanVerif.Data.Paged
import ZanVerif.Engine.StoreLemmas

namespace Z.Scan
open Z.IterP Z.Paged

theorem checkScanCount_of_range {c : Int} (h1 : 1 ≤ c) (h2 : c ≤ 5000) : checkScanCount c = c.toNat := by
  unfold checkScanCount
  rw [if_neg (by omega), if_neg (by omega)]

theorem isLastPage_of_pos {c : Int} (h1 : 1 ≤ c) (len : Nat) : isLastPage len c = decide (len < c.toNat) := by
  unfold isLastPage
  have : (c == 0) = false := by simp; omega
  simp only [this, Bool.false_and, Bool.or_false]
  congr 1
  apply propext
  constructor <;> intro h <;> omega

/-- forward page = `Paged.page` with the cursor -/
theorem storePage_fwd (ms : List Bytes) (cur : Bytes) {c : Int} (h1 : 1 ≤ c) (h2 : c ≤ 5000) :
    storePage ms cur c false = Paged.page ms (some cur) c.toNat := by
  unfold storePage Paged.page
  simp [checkScanCount_of_range h1 h2]

/-- reverse page = `Paged.page` over the reversed population in the flipped order -/
theorem storePage_rev (ms : List Bytes) (cur : Bytes) {c : Int} (h1 : 1 ≤ c) (h2 : c ≤ 5000) :
    storePage ms cur c true = Paged.page (α := Flip Bytes) ms.reverse (some cur) c.toNat := by
  unfold storePage Paged.page
  simp only [if_true, checkScanCount_of_range h1 h2]
  have : (List.filter (fun k => decide (k < cur)) ms).reverse =
      List.filter (fun k => decide (k < cur)) ms.reverse := (List.filter_reverse).symm
  rw [this]
  rfl

/-- the loop, generic in the direction: if the page function is a `Paged.page` over `ks` in order `α` -/
theorem collFull_eq_scanAll {α : Type} [SOrd α] (toB : α → Bytes) (ks : List α) (ms : List Bytes) (c : Int) (rev : Bool)
    (h1 : 1 ≤ c)
    (hpage : ∀ cur : α, storePage ms (toB cur) c rev = (Paged.page ks (some cur) c.toNat).map toB)
    (hne : ∀ k ∈ ks, toB k ≠ []) :
    ∀ (fuel : Nat) (cur : α) (r : Nat),
      (collFull ms c rev fuel (toB cur) r).1 = (Paged.scanAll ks c.toNat fuel (some cur)).map toB := by
  intro fuel
  induction fuel with
  | zero => intro cur r; simp [collFull, Paged.scanAll]
  | succ fuel ih =>
    intro cur r
    simp only [collFull, collPage, Paged.scanAll, hpage cur, List.length_map, isLastPage_of_pos h1]
    by_cases hshort : (Paged.page ks (some cur) c.toNat).length < c.toNat
    · simp [hshort]
    · simp only [hshort, decide_false, Bool.false_eq_true, if_false]
      cases hl : (Paged.page ks (some cur) c.toNat).getLast? with
      | none =>
        have : Paged.page ks (some cur) c.toNat = [] := List.getLast?_eq_none_iff.mp hl
        simp [this]
      | some last =>
        have hmem : last ∈ ks := by
          have := List.mem_of_getLast? hl
          unfold Paged.page at this
          exact (List.mem_filter.mp (List.mem_of_mem_take this)).1
        have hlast : ((Paged.page ks (some cur) c.toNat).map toB).getLast? = some (toB last) := by
          rw [List.getLast?_map, hl]; rfl
        simp only [hlast, Option.getD_some]
        have hnE : (toB last).isEmpty = false := by
          cases h : toB last with
          | nil => exact absurd h (hne last hmem)
          | cons a t => rfl
        simp only [hnE, Bool.false_eq_true, if_false]
        rw [ih last (r + 1)]
        simp

theorem sorted_pairwise_bytes {ms : List Bytes} (h : ms.Pairwise (· < ·)) : Z.IterP.Sorted ms :=
  (Z.Store.iterSorted_iff_pairwise ms).mpr h

theorem sorted_rev_flip {ms : List Bytes} (h : ms.Pairwise (· < ·)) : Z.IterP.Sorted (α := Flip Bytes) ms.reverse := by
  refine (Z.Store.iterSorted_iff_pairwise (α := Flip Bytes) _).mpr ?_
  exact List.pairwise_reverse.mpr h

end Z.Scan
