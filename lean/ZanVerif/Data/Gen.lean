/-
Scratch prototype for C10 (wait_compact policy): generations of a collection key.  The meta value
holds (version, expireAt, size); sub-keys carry the version; an expired key is renewed lazily by the
next write with version := log timestamp; stale sub-keys stay in the store until compaction.
`no_resurrection`: after a renewal nothing of an older generation is visible - PROVIDED the new
version differs from every stale version still stored; `equal_ts_witness` shows the proviso is needed.
-/
namespace Z.Gen

structure Meta where
  ver : Nat
  expireAt : Nat      -- seconds; 0 = none
  size : Nat
  deriving DecidableEq

structure Store where
  metaOf : Nat → Option Meta                     -- key -> meta
  field : Nat → Nat → Nat → Option Nat            -- key -> version -> field -> value

def expired (m : Meta) (ts : Nat) : Bool := m.expireAt != 0 && decide (m.expireAt ≤ ts / 1000000000)

/-- meta as a write at log time ts sees it: absent or expired => fresh generation with ver := ts -/
def prepare (s : Store) (k ts : Nat) : Meta :=
  match s.metaOf k with
  | some m => if expired m ts then ⟨ts, 0, 0⟩ else m
  | none => ⟨ts, 0, 0⟩

def hset (s : Store) (k f v ts : Nat) : Store :=
  let m := prepare s k ts
  let isNew := (s.field k m.ver f).isNone
  { metaOf := fun j => if j = k then some { m with size := if isNew then m.size + 1 else m.size } else s.metaOf j
    field := fun j ver g => if j = k ∧ ver = m.ver ∧ g = f then some v else s.field j ver g }

def hget (s : Store) (k f ts : Nat) : Option Nat :=
  match s.metaOf k with
  | some m => if expired m ts then none else s.field k m.ver f
  | none => none

def expireAt (s : Store) (k sec : Nat) : Store :=
  { s with metaOf := fun j => if j = k then (s.metaOf k).map (fun m => { m with expireAt := sec }) else s.metaOf j }

/-- dead after expiry: every read at or after the expiry second answers as for an absent key -/
theorem dead_after_expiry (s : Store) (k f ts : Nat) (m : Meta) (hm : s.metaOf k = some m)
    (he : expired m ts = true) : hget s k f ts = none := by
  simp [hget, hm, he]

/-- a renewal at ts makes exactly the generation `ts` visible -/
theorem renew_visible (s : Store) (k f v ts g : Nat) (m : Meta) (hm : s.metaOf k = some m)
    (he : expired m ts = true) :
    hget (hset s k f v ts) k g ts = if g = f then some v else s.field k ts g := by
  have hp : prepare s k ts = ⟨ts, 0, 0⟩ := by simp [prepare, hm, he]
  simp only [hget, hset, hp, ↓reduceIte]
  have : expired { ver := ts, expireAt := 0, size := (if (s.field k ts f).isNone = true then 0 + 1 else 0) } ts = false := by
    simp [expired]
  simp only [this, Bool.false_eq_true, ↓reduceIte, true_and]

/-- **no resurrection**: if no stale sub-key of generation `ts` is stored, a renewed key shows only
    what was written since -/
theorem no_resurrection (s : Store) (k f v ts g : Nat) (m : Meta) (hm : s.metaOf k = some m)
    (he : expired m ts = true) (hfresh : ∀ g', s.field k ts g' = none) (hg : g ≠ f) :
    hget (hset s k f v ts) k g ts = none := by
  rw [renew_visible s k f v ts g m hm he]; simp [hg, hfresh g]

/-- the proviso is needed: the key's generation 7000000000 has expired (expireAt = 1 s) and its field 1
    is still stored; a renewal whose log timestamp is 7000000000 again (equal timestamps happen: the
    leader's clock, not the log index, is the version) makes the stale field visible again -/
def stale : Store :=
  { metaOf := fun j => if j = 0 then some ⟨7, 1, 1⟩ else none
    field := fun j ver g => if j = 0 ∧ ver = 7000000000 ∧ g = 1 then some 42 else none }

theorem equal_ts_witness :
    hget (hset { stale with metaOf := fun j => if j = 0 then some ⟨7000000000, 1, 1⟩ else none }
      0 2 99 7000000000) 0 1 7000000000 = some 42 := by decide

#print axioms no_resurrection
end Z.Gen
