/-
  Lemmas about the executable hash model under the versioned layout (`Z.HashTTLExec`): the codec facts it
  needs (from C12: a size/meta key is never a field key; field keys are injective in (version, field); the
  range [startK, stopK) of a generation holds exactly its field keys), and what a write on a dead hash does.
-/
import ZanVerif.Data.HashTTLExec
import ZanVerif.Data.HashTTLIncrErr
import ZanVerif.Data.HeaderLemmas
import ZanVerif.Data.Range
import ZanVerif.Props.C12

namespace Z.HashTTLExec
open Z.Ref (get put del scan Sorted get_put get_del put_sorted del_sorted mem_scan)
open Z.Codec (be64 toU64 ofU64 fromBE be64_length verKey collSubKey collStart collStop tablePrefix be16 inI64 encInt_length)
open Z.Header
open Z.KVExec (KErr Reply errOf eerr tooBig stripTs RdRes PRes parseInt fmtInt wrap64)

theorem hash_ne_kv : Gen.cHashType ≠ Gen.cKVType := by decide

theorem prefix_unfold (table : Bytes) :
    tablePrefix Gen.cHashType table = Gen.cHashType :: (be16 table.length ++ table ++ [Gen.cTableStartSep]) := by
  unfold tablePrefix; simp [hash_ne_kv]

/-- a size/meta key is never a field key (different type bytes) -/
theorem meta_ne_field (table k k' : Bytes) (v : Int) (f : Bytes) : metaK table k ≠ fieldK table k' v f := by
  simp only [metaK, fieldK, Z.Codec.metaKey, collSubKey, prefix_unfold, List.cons_append, ne_eq, List.cons.injEq, not_and]
  intro h; exact absurd h (by decide)

/-- the length of a versioned key does not depend on the version -/
theorem verKey_length (k : Bytes) (v : Int) : (verKey k v).length = (verKey k 0).length := by
  rw [Z.Props.C12.verKey_unfold, Z.Props.C12.verKey_unfold]
  simp [encInt_length]

/-- field keys of one hash are injective in (generation, field) -/
theorem field_inj (table k : Bytes) (v v' : Int) (f f' : Bytes) (ht : table.length < 65536) (hk : (verKey k 0).length < 65536)
    (hv : inI64 v) (hv' : inI64 v') (h : fieldK table k v f = fieldK table k v' f') : v = v' ∧ f = f' := by
  have := Z.Props.C12.C12_versioned_subkey_injective Gen.cHashType table k f table k f' v v' (Or.inl rfl) ht ht
    (by rw [verKey_length]; exact hk) (by rw [verKey_length]; exact hk) hv hv' h
  exact ⟨this.2.2.1, this.2.2.2⟩

/-- range exactness: [startK, stopK) of generation `v` holds exactly the field keys of that generation -/
theorem range_iff (table k : Bytes) (v : Int) (x : Bytes) :
    (startK table k v ≤ x ∧ x < stopK table k v) ↔ ∃ f, x = fieldK table k v f := by
  simp only [startK, stopK, fieldK, collStart, collStop, collSubKey, List.append_nil]
  exact Z.Range.range_iff Gen.cCollStartSep (by decide)
    (tablePrefix Gen.cHashType table ++ be16 (verKey k v).length ++ verKey k v) x

theorem startK_length (table k : Bytes) (v : Int) (f : Bytes) :
    (fieldK table k v f).drop (startK table k v).length = f := by
  simp only [startK, fieldK, collStart, collSubKey, List.append_nil]
  rw [show tablePrefix Gen.cHashType table ++ be16 (verKey k v).length ++ verKey k v ++ [Gen.cCollStartSep] ++ f =
      (tablePrefix Gen.cHashType table ++ be16 (verKey k v).length ++ verKey k v ++ [Gen.cCollStartSep]) ++ f from rfl]
  exact drop_left_len rfl

theorem mem_get {m : List KV} (hs : Sorted m) {p : KV} (hp : p ∈ m) : get m p.1 = some p.2 := by
  induction m with
  | nil => cases hp
  | cons a t ih =>
    rcases List.mem_cons.mp hp with rfl | hp'
    · simp [Z.Ref.get]
    · have hlt := hs.head_lt p hp'
      have hne : a.1 ≠ p.1 := fun e => List.lt_irrefl p.1 (e ▸ hlt)
      simp only [Z.Ref.get]
      rw [if_neg hne]
      exact ih hs.tail hp'

theorem get_mem {m : List KV} {k v : Bytes} (h : get m k = some v) : (k, v) ∈ m := by
  induction m with
  | nil => simp [Z.Ref.get] at h
  | cons a t ih =>
    simp only [Z.Ref.get] at h
    by_cases he : a.1 = k
    · rw [if_pos he] at h
      have : a = (k, v) := by
        cases a with
        | mk a1 a2 => simp only at he; simp only [Option.some.injEq] at h; rw [he, h]
      exact this ▸ List.mem_cons_self
    · rw [if_neg he] at h; exact List.mem_cons_of_mem _ (ih h)

theorem stripTs_append (x mt : Bytes) (h : mt.length = 8) : stripTs (x ++ mt) = x := by
  unfold stripTs
  have : (x ++ mt).length - 8 = x.length := by simp [h]
  rw [if_pos (by simp [h]), this]
  simp

theorem sizeI_none : sizeI none = 0 := by decide

theorem sizeI_be64 (n : Int) (h0 : 0 ≤ n) (h1 : n < 9223372036854775808) : sizeI (some (be64 (toU64 n))) = n := by
  simp only [sizeI, Option.getD_some]
  rw [show be64 (toU64 n) = Z.Codec.beN 8 (toU64 n) from rfl,
    Z.Stream.fromBE_beN 8 _ (by have := Z.Codec.toU64_lt n; simpa using this)]
  unfold ofU64 toU64; omega


/-- sizes that fit the 2-byte length fields of the codec (the server enforces 255 / 10240) -/
structure KeyOk (table k : Bytes) : Prop where
  ht : table.length < 65536
  hk : (verKey k 0).length < 65536

/-- the size meta of a generation `ver` with `n` fields and no expiry -/
def newMeta (ver : Int) (n : Int) : Bytes := encFixed 0 ver ++ be64 (toU64 n)

/-- the store right after such a renewal -/
def renewed (m : List KV) (table k : Bytes) (ts : Int) (f v : Bytes) : List KV :=
  put (put m (metaK table k) (newMeta ts 1)) (fieldK table k ts f) (v ++ be64 (toU64 ts))

/-- `hSetField` on a dead hash (meta absent, or expired at the log time) whose new field key is not stored:
    a new generation with version = log timestamp, size 1, no expiry -/
theorem hsetField_dead {m : List KV} (table k f v : Bytes) (ts : Int) (nx : Bool) (h : Hdr) (ex : Bool)
    (hmv : mview m ts table k = .mv h ex) (hne : notExist h ex = true)
    (hfresh : get m (fieldK table k ts f) = none) :
    hsetField m ts nx table k f v = (renewed m table k ts f v, .int 1) := by
  unfold hsetField renewed
  simp only [hmv, prepare, hne, if_true, renew, hfresh, hIncrSize, sizeI_none]
  simp [newMeta, encode]

/-- HSET / HSETNX on a dead hash (meta absent, or expired at the log time) whose new field key is not stored:
    a new generation with version = log timestamp, size 1, no expiry -/
theorem hset_dead {m : List KV} (table k f v : Bytes) (ts : Int) (nx : Bool) (h : Hdr) (ex : Bool)
    (hmv : mview m ts table k = .mv h ex) (hne : notExist h ex = true)
    (hfresh : get m (fieldK table k ts f) = none) (hb : tooBig v = false) :
    hset m ts nx table k f v = (renewed m table k ts f v, .int 1) := by
  unfold hset
  simp only [hb, Bool.false_eq_true, if_false]
  exact hsetField_dead table k f v ts nx h ex hmv hne hfresh

theorem renewed_sorted {m : List KV} (hs : Sorted m) (table k : Bytes) (ts : Int) (f v : Bytes) :
    Sorted (renewed m table k ts f v) := put_sorted (put_sorted hs _ _) _ _

theorem renewed_meta {m : List KV} (hs : Sorted m) (table k : Bytes) (ts : Int) (f v : Bytes) :
    get (renewed m table k ts f v) (metaK table k) = some (newMeta ts 1) := by
  unfold renewed
  rw [get_put _ (put_sorted hs _ _), get_put m hs]
  simp [meta_ne_field]

theorem renewed_field {m : List KV} (hs : Sorted m) (table k : Bytes) (ok : KeyOk table k) (ts : Int) (hi : inI64 ts)
    (f v g : Bytes) :
    get (renewed m table k ts f v) (fieldK table k ts g) =
      if g = f then some (v ++ be64 (toU64 ts)) else get m (fieldK table k ts g) := by
  unfold renewed
  rw [get_put _ (put_sorted hs _ _), get_put m hs]
  by_cases hg : g = f
  · simp [hg]
  · have h1 : fieldK table k ts g ≠ fieldK table k ts f := fun h => hg (field_inj table k ts ts g f ok.ht ok.hk hi hi h).2
    have h2 : fieldK table k ts g ≠ metaK table k := fun h => meta_ne_field table k k ts g h.symm
    simp [hg, h1, h2]

theorem mview_renewed {m : List KV} (hs : Sorted m) (table k : Bytes) (ts : Int) (hi : inI64 ts) (f v : Bytes) (t : Int) :
    mview (renewed m table k ts f v) t table k = .mv ⟨0, ts, some (be64 (toU64 1))⟩ false := by
  unfold mview
  rw [renewed_meta hs]
  simp only [newMeta]
  rw [decode_encFixed 0 ts _ (by decide), ofU64_toU64 hi]
  simp [isExpired_zero]


/-! ### HINCRBY -/

theorem wrap64_of {x : Int} (h : inI64 x) : wrap64 x = x := by
  unfold wrap64 ofU64 toU64; unfold inI64 at h; omega

/-- the regenerated "field is missing" guard of `HIncrBy` is the model's `notExist` exactly when the code asks
    `hGetRawFieldValue` to check expiry -/
theorem hincrFieldMissing_eq (h : Hdr) (ex : Bool) : Gen.hincrFieldMissing ex h.user.isNone = notExist h ex := by
  simp [Gen.hincrFieldMissing, Gen.hgetRawMissing, Gen.hincrCheckExpired, Gen.notExistOrExpired, notExist]

/-- HINCRBY on a dead hash (meta absent, or expired at the log time) whose new field key is not stored: the old value
    counts as 0 whatever the dead generation holds; a new generation (version = log timestamp, size 1, no expiry) with the
    one field `f = d` -/
theorem hincrby_dead {m : List KV} (table k f : Bytes) (ts d : Int) (h : Hdr) (ex : Bool)
    (hmv : mview m ts table k = .mv h ex) (hne : notExist h ex = true)
    (hfresh : get m (fieldK table k ts f) = none) (hd : inI64 d) :
    hincrby m ts table k f d = (renewed m table k ts f (fmtInt d), .int d) := by
  unfold hincrby hincrFinish
  simp only [hmv, hincrCur, hincrFieldMissing_eq, hne, if_true, Int.zero_add, wrap64_of hd]
  rw [hsetField_dead table k f (fmtInt d) ts Gen.hincrCheckNX h ex hmv hne hfresh]

/-- HINCRBY on a hash that is live at the log time: the value of the field key of the LIVE generation is parsed (without
    its modification time), and a successful increment is an `hSetField` of the decimal text -/
theorem hincrby_live {m : List KV} (table k f : Bytes) (ts d : Int) (h : Hdr) (ex : Bool)
    (hmv : mview m ts table k = .mv h ex) (hlive : notExist h ex = false) :
    hincrby m ts table k f d = hincrFinish m ts table k f d (get m (fieldK table k h.ver f)) := by
  unfold hincrby
  simp only [hmv, hincrCur, hincrFieldMissing_eq, hlive, Bool.false_eq_true, if_false]

end Z.HashTTLExec
