/-
Scratch prototype for C08 (refinement, hash type): the data mapping over the sorted reference store,
with the key codec abstracted by the facts C12 proves, REFINES the plain redis hash: an abstraction
function reads the logical hash out of the store; every command returns what the specification
returns and commutes with the abstraction.
-/
import ZanVerif.Data.HashInv
namespace Z.HashRef
open Z.Ref Z.HashInv

variable (E : Enc)

/-- the specification: key -> field -> value -/
abbrev Spec := Bytes → Bytes → Option Bytes

def specSet (h : Spec) (k f v : Bytes) : Spec := fun k' f' => if k' = k ∧ f' = f then some v else h k' f'
def specDel (h : Spec) (k f : Bytes) : Spec := fun k' f' => if k' = k ∧ f' = f then none else h k' f'

/-- abstraction: what the store says about (key, field) -/
def abs (m : List KV) : Spec := fun k f => get m (E.fieldK k f)

def hget (m : List KV) (k f : Bytes) : Option Bytes := get m (E.fieldK k f)

/-- HSET's reply: 1 for a new field, 0 for an overwrite -/
def hsetReply (m : List KV) (k f : Bytes) : Nat := if (get m (E.fieldK k f)).isNone then 1 else 0
def hdelReply (m : List KV) (k f : Bytes) : Nat := if (get m (E.fieldK k f)).isSome then 1 else 0

theorem hget_refines (m : List KV) (k f : Bytes) : hget E m k f = abs E m k f := rfl

theorem hset_reply_refines (m : List KV) (k f : Bytes) :
    hsetReply E m k f = if (abs E m k f).isNone then 1 else 0 := rfl

/-- HSET commutes with the abstraction -/
theorem abs_hset {m : List KV} (hs : Sorted m) (k f v : Bytes) :
    abs E (hset E m k f v) = specSet (abs E m) k f v := by
  funext k' f'
  unfold abs hset specSet
  have hmf : E.fieldK k' f' ≠ E.metaK k := fun e => E.meta_ne_field k k' f' e.symm
  have hmf0 : E.fieldK k f ≠ E.metaK k := fun e => E.meta_ne_field k k f e.symm
  have hkey : E.fieldK k' f' = E.fieldK k f ↔ (k' = k ∧ f' = f) :=
    ⟨fun e => E.field_inj k' f' k f e, fun ⟨a, b⟩ => by rw [a, b]⟩
  split
  · rw [get_put m hs]
    by_cases h : k' = k ∧ f' = f
    · simp [h]
    · have : E.fieldK k' f' ≠ E.fieldK k f := fun e => h (hkey.mp e)
      simp [this, h]
  · rw [get_put _ (put_sorted hs _ _), get_put m hs]
    by_cases h : k' = k ∧ f' = f
    · simp [h, hmf0]
    · have : E.fieldK k' f' ≠ E.fieldK k f := fun e => h (hkey.mp e)
      simp [this, h, hmf]

/-- HDEL commutes with the abstraction -/
theorem abs_hdel {m : List KV} (hs : Sorted m) (k f : Bytes) :
    abs E (hdel E m k f) = specDel (abs E m) k f := by
  funext k' f'
  unfold abs hdel specDel
  have hmf : E.fieldK k' f' ≠ E.metaK k := fun e => E.meta_ne_field k k' f' e.symm
  have hmf0 : E.fieldK k f ≠ E.metaK k := fun e => E.meta_ne_field k k f e.symm
  have hkey : E.fieldK k' f' = E.fieldK k f ↔ (k' = k ∧ f' = f) :=
    ⟨fun e => E.field_inj k' f' k f e, fun ⟨a, b⟩ => by rw [a, b]⟩
  split
  · rename_i hx
    by_cases h : k' = k ∧ f' = f
    · simp only [h, and_self, ↓reduceIte]; exact hx
    · simp [h]
  · simp only
    split
    · rw [get_del _ (del_sorted hs _), get_del m hs]
      by_cases h : k' = k ∧ f' = f
      · simp [h, hmf0]
      · have : E.fieldK k' f' ≠ E.fieldK k f := fun e => h (hkey.mp e)
        simp [this, h, hmf]
    · rw [get_put _ (del_sorted hs _), get_del m hs]
      by_cases h : k' = k ∧ f' = f
      · simp [h, hmf0]
      · have : E.fieldK k' f' ≠ E.fieldK k f := fun e => h (hkey.mp e)
        simp [this, h, hmf]

#print axioms abs_hset
#print axioms abs_hdel
end Z.HashRef
