/-
  A plain specification of the redis string commands with absolute expiry seconds: the state maps a key to
  (value, expiry second; 0 = none); a command looks only at the VISIBLE entry of its key at its own time and
  answers / updates like redis.  No storage layout, no header, no versions, no lazy deletion.
  Where ZanRedisDB knowingly or unknowingly deviates from redis the spec follows redis and the refinement
  theorem carries the excluding hypothesis (`Conforms`), with a witness theorem for each deviation.
  Number syntax is Go's `strconv.ParseInt` (as in the model); integer results are unbounded in the spec.
-/
import ZanVerif.Data.KVExec

namespace Z.KVSpec
open Z.KVExec
abbrev Entry := Z.KVExec.Bytes × Nat

def inI64 (v : Int) : Prop := -9223372036854775808 ≤ v ∧ v < 9223372036854775808

/-- an entry with expiry second e is dead from the instant ⌊t/1e9⌋ ≥ e on -/
def visAt (t : Int) : Option Entry → Option Entry
  | some (v, e) => if e ≠ 0 ∧ (e : Int) ≤ t / 1000000000 then none else some (v, e)
  | none => none

inductive SEff
  | keep
  | set (v : Bytes) (e : Nat)
  | del
  deriving DecidableEq, Repr

def applyS : SEff → Option Entry → Option Entry
  | .keep, cur => cur
  | .set v e, _ => some (v, e)
  | .del, _ => none

/-- expiry second given by a duration at log time ts -/
def expAt (ts d : Int) : Nat := (ts / 1000000000 + d).toNat

def newExp (ts d : Int) : Nat := if d ≤ 0 then 0 else expAt ts d

def valOf (cur : Option Entry) : Bytes := (cur.map (·.1)).getD []

def specCmd (c : KCmd) (ts : Int) (cur : Option Entry) : SEff × Reply :=
  match c with
  | .set v => if tooBig v then (.keep, .err .valuelen) else (.set v 0, .ok)
  | .setOpts v d nx xx =>
    if tooBig v then (.keep, .err .valuelen)
    else if nx && cur.isSome then (.keep, .nil)
    else if xx && cur.isNone then (.keep, .nil)
    else (.set v (newExp ts d), .ok)
  | .setnx v =>
    if tooBig v then (.keep, .err .valuelen)
    else if cur.isSome then (.keep, .int 0) else (.set v 0, .int 1)
  | .setex d v =>
    if d ≤ 0 then (.keep, .err .ttl)
    else if tooBig v then (.keep, .err .valuelen)
    else if 4294967294 ≤ ts / 1000000000 + d then (.keep, .err .expoverflow)
    else (.set v (expAt ts d), .ok)
  | .setifeq old new d =>
    if tooBig new then (.keep, .err .valuelen)
    else if valOf cur != old then (.keep, .int 0)
    else (.set new (newExp ts d), .int 1)
  | .delifeq old =>
    if valOf cur != old then (.keep, .int 0)
    else (.del, .int (if cur.isSome then 1 else 0))
  | .getset v =>
    if tooBig v then (.keep, .err .valuelen)
    else (.set v 0, match cur with | some (u, _) => .bulk u | none => .nil)
  | .incrby d =>
    match cur with
    | none => (.set (fmtInt d) 0, .int d)
    | some (u, e) =>
      match parseInt u with
      | .syntax => (.keep, .err .notint)
      | .range => (.keep, .err .numrange)
      | .ok n => (.set (fmtInt (n + d)) e, .int (n + d))
  | .append v =>
    if (valOf cur).length + v.length > Gen.cMaxValueSize then (.keep, .err .valuelen)
    else (.set (valOf cur ++ v) (match cur with | some (_, e) => e | none => 0), .int ((valOf cur).length + v.length : Nat))
  | .setrange off v =>
    if off < 0 then (.keep, .err .offset)
    else if v.isEmpty then (.keep, .int ((valOf cur).length : Nat))
    else if (v.length : Int) + off > Gen.cMaxValueSize then (.keep, .err .valuelen)
    else
      let base := padTo (valOf cur) (off.toNat + v.length)
      let nv := base.take off.toNat ++ v ++ base.drop (off.toNat + v.length)
      (.set nv (match cur with | some (_, e) => e | none => 0), .int (nv.length : Nat))
  | .expire d =>
    match cur with
    | none => (.keep, .int 0)
    | some (u, _) =>
      if 4294967294 ≤ ts / 1000000000 + d then (.keep, .err .expoverflow)
      else if d ≤ 0 then (.del, .int 1)
      else (.set u (expAt ts d), .int 1)
  | .persist =>
    match cur with
    | none => (.keep, .int 0)
    | some (u, e) => if e = 0 then (.keep, .int 0) else (.set u 0, .int 1)
  | .del =>
    match cur with
    | none => (.keep, .int 0)
    | some _ => (.del, .int 1)

/-- the deviations from the spec that the code has on the unchanged tree (each with a witness theorem in
    Props/C08KV.lean); `V` is what the command sees of its key at log time `ts` -/
def Conforms (c : KCmd) (ts : Int) (V : View) : Prop :=
  match c with
  | .del => isExpiredV V = false                                    -- DEL counts a physically present expired key
  | .delifeq _ => isExpiredV V = false                              -- DELIFEQ / SETIFEQ skip the comparison on one
  | .setifeq _ _ d => isExpiredV V = false ∧ (0 < d → ts / 1000000000 + d < 4294967294)
  | .setOpts _ d _ _ => 0 < d → ts / 1000000000 + d < 4294967294    -- the overflow error is dropped, the key corrupted
  | .incrby d =>                                                    -- int64 arithmetic wraps silently
    match live V with
    | none => inI64 d
    | some u => ∀ n, parseInt u = .ok n → inI64 (n + d)
  | .append v => v.isEmpty = false                                  -- APPEND k "" answers 0, not the length
  | .setrange _ v => v.isEmpty = false ∨ (live V).isNone            -- SETRANGE k o "" answers 0, not the length
  | .persist => ∀ raw h u, V = .val raw h u false → h.expireAt ≠ 0  -- PERSIST answers 1 on a key without expiry
  | .expire d => (live V).isSome → 0 < ts / 1000000000 + d          -- an instant ≤ 0 wraps / means "no expiry"
  | _ => True

end Z.KVSpec
