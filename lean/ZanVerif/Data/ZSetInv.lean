/-
  C09 for the sorted set: the representation invariant of the storage-level model `Z.ZSetExec` and its
  preservation by every write command. The key codec is abstracted by the facts `Enc` (discharged for the
  real codec and in-limit keys in `ZSetReal.lean` from the C12 theorems).

  `Inv m`:
    * the store is sorted, holds fewer than `sizeBound` (2^63) keys, and every stored key is a size-meta key, a member
      key or a score-index key of some in-limit zset key, or a key of another data type (`foreign`);
    * member keys and index keys are in bijection with equal scores: a member key stores `encScore s` for a
      non-NaN `s` and its index key `scoreK k s mem` is stored; every stored index key `scoreK k s mem` belongs to
      a member key that stores a score with the same index key;
    * for every key: stored size = number of member keys in the member range = number of index keys in the
      index range; the meta is stored iff that number is positive.
-/
import ZanVerif.Data.ZSetStore

namespace Z.ZSetInv
open Z.Ref Z.ZSetExec Z.ZSetStore

/-- the keys the invariant allows in the store: size-meta, member and index keys of in-limit zset keys (non-NaN
    scores), and keys of other data types -/
def KnownF (F : EncFns) (ok : Bytes → Prop) (good : Nat → Prop) (foreign : Bytes → Prop) (x : Bytes) : Prop :=
  (∃ k, ok k ∧ x = F.metaK k) ∨ (∃ k mem, ok k ∧ x = F.memK k mem) ∨
  (∃ k s mem, ok k ∧ good s ∧ x = F.scoreK k s mem) ∨ foreign x

/-- what the data mapping needs from the key codec -/
structure Enc extends EncFns where
  /-- in-limit redis keys (`table:key`, lengths inside the 2-byte fields, table without ':') -/
  ok : Bytes → Prop
  /-- storable score patterns: 64 bits, not a NaN -/
  good : Nat → Prop
  /-- keys of other data types living in the same engine -/
  foreign : Bytes → Prop
  sizeBound : Nat
  score_rt : ∀ s, good s → decScore (encScore s) = some s
  size_rt : ∀ (n : Nat) (ts : Int), n < sizeBound → sizeOf (encSize n ts) = some (n : Int)
  feq_refl : ∀ s, good s → feqB s s = true
  feq_symm : ∀ s s', feqB s s' = true → feqB s' s = true
  feq_trans : ∀ a b c, feqB a b = true → feqB b c = true → feqB a c = true
  mem_inj : ∀ k mem k' mem', ok k → ok k' → memK k mem = memK k' mem' → k = k' ∧ mem = mem'
  meta_inj : ∀ k k', ok k → ok k' → metaK k = metaK k' → k = k'
  score_eq_iff : ∀ k s mem k' s' mem', ok k → ok k' → good s → good s' →
    (scoreK k s mem = scoreK k' s' mem' ↔ k = k' ∧ mem = mem' ∧ feqB s s' = true)
  meta_ne_mem : ∀ k k' mem, metaK k ≠ memK k' mem
  meta_ne_score : ∀ k k' s mem, metaK k ≠ scoreK k' s mem
  mem_ne_score : ∀ k mem k' s mem', memK k mem ≠ scoreK k' s mem'
  foreign_ne_meta : ∀ x k, foreign x → x ≠ metaK k
  foreign_ne_mem : ∀ x k mem, foreign x → x ≠ memK k mem
  foreign_ne_score : ∀ x k s mem, foreign x → x ≠ scoreK k s mem
  /-- member range exactness -/
  mem_range : ∀ k x, ok k → ((memK k [] ≤ x ∧ x < memStop k) ↔ ∃ mem, x = memK k mem)
  /-- index range: the index keys of k, of no other key, and nothing else that may be stored -/
  idx_self : ∀ k s mem, ok k → good s → idxStart k < scoreK k s mem ∧ scoreK k s mem < idxStop k
  idx_other : ∀ k k' s mem, ok k → ok k' → good s → k' ≠ k →
    ¬ (idxStart k ≤ scoreK k' s mem ∧ scoreK k' s mem ≤ idxStop k)
  idx_not_mem : ∀ k k' mem, ¬ (idxStart k ≤ memK k' mem ∧ memK k' mem ≤ idxStop k)
  idx_not_meta : ∀ k k', ¬ (idxStart k ≤ metaK k' ∧ metaK k' ≤ idxStop k)
  idx_not_foreign : ∀ k x, foreign x → ¬ (idxStart k ≤ x ∧ x ≤ idxStop k)
  /-- score ranges lie inside the index range; the stop key of the member range is never stored -/
  score_lo_ge : ∀ k a, ok k → good a → idxStart k ≤ scoreLo k a
  score_hi_le : ∀ k b, ok k → good b → scoreHi k b ≤ idxStop k
  memStop_unknown : ∀ k, ok k → ¬ KnownF toEncFns ok good foreign (memStop k)
  /-- the decoders invert the encoders (the index decoder up to `==` of the score: -0.0 comes back as +0.0) -/
  dec_score : ∀ k s mem, ok k → good s →
    ∃ s', decScoreK (scoreK k s mem) = some (mem, s') ∧ good s' ∧ feqB s' s = true
  dec_mem : ∀ k mem, ok k → decMemK (memK k mem) = some mem
  /-- order: float `<` on stored patterns, `-Inf` / `+Inf`; index keys of one zset compare as (score, member);
      a score range `[scoreLo a, scoreHi b]` holds exactly the index keys with a ≤ score ≤ b -/
  lt : Nat → Nat → Prop
  ninf : Nat
  pinf : Nat
  good_ninf : good ninf
  good_pinf : good pinf
  ninf_le : ∀ s, good s → ¬ lt s ninf
  le_pinf : ∀ s, good s → ¬ lt pinf s
  lt_congr : ∀ a a' b b', feqB a a' = true → feqB b b' = true → (lt a b ↔ lt a' b')
  score_lt : ∀ k s mem s' mem', ok k → good s → good s' →
    (scoreK k s mem < scoreK k s' mem' ↔ lt s s' ∨ (feqB s s' = true ∧ mem < mem'))
  score_range : ∀ k s mem a b, ok k → good s → good a → good b →
    ((scoreLo k a ≤ scoreK k s mem ∧ scoreK k s mem ≤ scoreHi k b) ↔ (¬ lt s a ∧ ¬ lt b s))
  /-- member keys of one zset compare as the members -/
  mem_lt : ∀ k a b, ok k → (memK k a < memK k b ↔ a < b)

variable (E : Enc)

/-- the keys the invariant allows in the store -/
def Known (x : Bytes) : Prop := KnownF E.toEncFns E.ok E.good E.foreign x

/-- the member range `[zEncodeStartSetKey, zEncodeStopSetKey)` and the index range `[zEncodeStartKey, zEncodeStopKey]` -/
def inMemB (k : Bytes) (x : Bytes) : Bool := inRng (E.memK k []) (E.memStop k) false true x
def inIdxB (k : Bytes) (x : Bytes) : Bool := inRng (E.idxStart k) (E.idxStop k) false false x

/-- bijection part of the invariant (holds between the per-member steps of a command too) -/
structure Bij (m : List KV) : Prop where
  sorted : Sorted m
  known : ∀ x, (get m x).isSome → Known E x
  memv : ∀ k mem v, E.ok k → get m (E.memK k mem) = some v →
    ∃ s, E.good s ∧ v = E.encScore s ∧ (get m (E.scoreK k s mem)).isSome
  idx : ∀ k s mem, E.ok k → E.good s → (get m (E.scoreK k s mem)).isSome →
    ∃ s', E.good s' ∧ get m (E.memK k mem) = some (E.encScore s') ∧ E.scoreK k s' mem = E.scoreK k s mem

/-- size part of the invariant for one key -/
def SizeOK (m : List KV) (k : Bytes) : Prop :=
  match get m (E.metaK k) with
  | none => cnt m (inMemB E k) = 0 ∧ cnt m (inIdxB E k) = 0
  | some v => ∃ n : Nat, 0 < n ∧ E.sizeOf v = some (n : Int) ∧ cnt m (inMemB E k) = n ∧ cnt m (inIdxB E k) = n

structure Inv (m : List KV) : Prop where
  bij : Bij E m
  small : m.length < E.sizeBound
  size : ∀ k, E.ok k → SizeOK E m k

/-! ### `get` through a write batch -/

def effOp (o : Op) (x : Bytes) (prev : Option Bytes) : Option Bytes :=
  match o with
  | .put k v => if x = k then some v else prev
  | .del k => if x = k then none else prev
  | .delRange lo hi => if decide (lo ≤ x) && decide (x < hi) then none else prev

theorem get_applyOps {m : List KV} (hm : Sorted m) (ops : List Op) (x : Bytes) :
    get (applyOps m ops) x = ops.foldl (fun acc o => effOp o x acc) (get m x) := by
  induction ops generalizing m with
  | nil => rfl
  | cons o t ih =>
    rw [applyOps_cons, ih (applyOp_sorted hm o), List.foldl_cons]
    congr 1
    cases o with
    | put k v => simp only [applyOp, effOp]; exact get_put m hm k v x
    | del k => simp only [applyOp, effOp]; exact get_del m hm k x
    | delRange lo hi => simp only [applyOp, effOp]; exact get_delRange m lo hi x

/-! ### codec facts in the form the lemmas need -/

theorem inMemB_iff {k x : Bytes} (hk : E.ok k) : inMemB E k x = true ↔ ∃ mem, x = E.memK k mem := by
  unfold inMemB inRng
  simp only [Bool.false_eq_true, ↓reduceIte, Bool.and_eq_true, decide_eq_true_eq]
  exact E.mem_range k x hk

theorem inMemB_mem {k k' mem : Bytes} (hk : E.ok k) (hk' : E.ok k') :
    inMemB E k (E.memK k' mem) = decide (k' = k) := by
  by_cases h : k' = k
  · subst h
    simp only [decide_true]
    exact (inMemB_iff E hk).mpr ⟨mem, rfl⟩
  · simp only [h, decide_false]
    apply Bool.eq_false_iff.mpr
    intro hin
    obtain ⟨mem', he⟩ := (inMemB_iff E hk).mp hin
    exact h (E.mem_inj _ _ _ _ hk' hk he).1

theorem inMemB_meta {k k' : Bytes} (hk : E.ok k) : inMemB E k (E.metaK k') = false := by
  apply Bool.eq_false_iff.mpr
  intro hin
  obtain ⟨mem', he⟩ := (inMemB_iff E hk).mp hin
  exact E.meta_ne_mem _ _ _ he

theorem inMemB_score {k k' mem : Bytes} {s : Nat} (hk : E.ok k) : inMemB E k (E.scoreK k' s mem) = false := by
  apply Bool.eq_false_iff.mpr
  intro hin
  obtain ⟨mem', he⟩ := (inMemB_iff E hk).mp hin
  exact E.mem_ne_score _ _ _ _ _ he.symm

theorem inIdxB_eq (k x : Bytes) : inIdxB E k x = true ↔ (E.idxStart k ≤ x ∧ x ≤ E.idxStop k) := by
  unfold inIdxB inRng
  simp only [Bool.false_eq_true, ↓reduceIte, Bool.and_eq_true, decide_eq_true_eq]

theorem inIdxB_score {k k' mem : Bytes} {s : Nat} (hk : E.ok k) (hk' : E.ok k') (hs : E.good s) :
    inIdxB E k (E.scoreK k' s mem) = decide (k' = k) := by
  by_cases h : k' = k
  · subst h
    simp only [decide_true]
    exact (inIdxB_eq E _ _).mpr ⟨List.le_of_lt (E.idx_self k' s mem hk hs).1, List.le_of_lt (E.idx_self k' s mem hk hs).2⟩
  · simp only [h, decide_false]
    apply Bool.eq_false_iff.mpr
    intro hin
    exact E.idx_other k k' s mem hk hk' hs h ((inIdxB_eq E _ _).mp hin)

theorem inIdxB_mem {k k' mem : Bytes} : inIdxB E k (E.memK k' mem) = false := by
  apply Bool.eq_false_iff.mpr
  intro hin
  exact E.idx_not_mem k k' mem ((inIdxB_eq E _ _).mp hin)

theorem inIdxB_meta {k k' : Bytes} : inIdxB E k (E.metaK k') = false := by
  apply Bool.eq_false_iff.mpr
  intro hin
  exact E.idx_not_meta k k' ((inIdxB_eq E _ _).mp hin)

/-- a stored key inside the index range of `k` is an index key of `k` -/
theorem known_in_idx {k x : Bytes} (hk : E.ok k) (hx : Known E x) (hin : inIdxB E k x = true) :
    ∃ s mem, E.good s ∧ x = E.scoreK k s mem := by
  have hin' := (inIdxB_eq E _ _).mp hin
  rcases hx with ⟨k', _, rfl⟩ | ⟨k', mem, _, rfl⟩ | ⟨k', s, mem, hk', hs, rfl⟩ | hf
  · exact absurd hin' (E.idx_not_meta k k')
  · exact absurd hin' (E.idx_not_mem k k' mem)
  · by_cases h : k' = k
    · subst h; exact ⟨s, mem, hs, rfl⟩
    · exact absurd hin' (E.idx_other k k' s mem hk hk' hs h)
  · exact absurd hin' (E.idx_not_foreign k x hf)

/-! ### the keys of one member -/

def own (k mem : Bytes) (x : Bytes) : Prop := x = E.memK k mem ∨ ∃ s, E.good s ∧ x = E.scoreK k s mem

theorem not_own_meta (k mem k' : Bytes) : ¬ own E k mem (E.metaK k') := by
  rintro (h | ⟨s, _, h⟩)
  · exact E.meta_ne_mem _ _ _ h
  · exact E.meta_ne_score _ _ _ _ h

theorem not_own_mem {k mem k' mem' : Bytes} (hk : E.ok k) (hk' : E.ok k') (hne : ¬ (k' = k ∧ mem' = mem)) :
    ¬ own E k mem (E.memK k' mem') := by
  rintro (h | ⟨s, _, h⟩)
  · exact hne (E.mem_inj _ _ _ _ hk' hk h)
  · exact E.mem_ne_score _ _ _ _ _ h

theorem not_own_score {k mem k' mem' : Bytes} {s' : Nat} (hk : E.ok k) (hk' : E.ok k') (hs' : E.good s')
    (hne : ¬ (k' = k ∧ mem' = mem)) : ¬ own E k mem (E.scoreK k' s' mem') := by
  rintro (h | ⟨s, hs, h⟩)
  · exact E.mem_ne_score _ _ _ _ _ h.symm
  · have := (E.score_eq_iff k' s' mem' k s mem hk' hk hs' hs).mp h
    exact hne ⟨this.1, this.2.1⟩

theorem not_own_foreign {k mem x : Bytes} (hf : E.foreign x) : ¬ own E k mem x := by
  rintro (h | ⟨s, _, h⟩)
  · exact E.foreign_ne_mem _ _ _ hf h
  · exact E.foreign_ne_score _ _ _ _ hf h

theorem own_known {k mem x : Bytes} (hk : E.ok k) (h : own E k mem x) : Known E x := by
  rcases h with rfl | ⟨s, hs, rfl⟩
  · exact Or.inr (Or.inl ⟨k, mem, hk, rfl⟩)
  · exact Or.inr (Or.inr (Or.inl ⟨k, s, mem, hk, hs, rfl⟩))

/-! ### effects of the per-member primitives on the bijection -/

/-- member `mem` of `k` now has score `s`; nothing else changed -/
structure SetEff (m m' : List KV) (k mem : Bytes) (s : Nat) : Prop where
  memv : get m' (E.memK k mem) = some (E.encScore s)
  idx : (get m' (E.scoreK k s mem)).isSome
  uniq : ∀ s', E.good s' → (get m' (E.scoreK k s' mem)).isSome → E.scoreK k s' mem = E.scoreK k s mem
  frame : ∀ x, ¬ own E k mem x → get m' x = get m x

/-- member `mem` of `k` is gone; nothing else changed -/
structure DelEff (m m' : List KV) (k mem : Bytes) : Prop where
  memv : get m' (E.memK k mem) = none
  idx : ∀ s', E.good s' → get m' (E.scoreK k s' mem) = none
  frame : ∀ x, ¬ own E k mem x → get m' x = get m x

theorem known_of_frame {m m' : List KV} {k mem : Bytes} (hk : E.ok k) (hb : Bij E m)
    (frame : ∀ x, ¬ own E k mem x → get m' x = get m x) : ∀ x, (get m' x).isSome → Known E x := by
  intro x hx
  by_cases ho : own E k mem x
  · exact own_known E hk ho
  · rw [frame x ho] at hx; exact hb.known x hx

theorem bij_of_setEff {m m' : List KV} {k mem : Bytes} {s : Nat} (hb : Bij E m) (hk : E.ok k) (hs : E.good s)
    (hs' : Sorted m') (e : SetEff E m m' k mem s) : Bij E m' := by
  refine ⟨hs', known_of_frame E hk hb e.frame, ?_, ?_⟩
  · intro k' mem' v hk' hv
    by_cases he : k' = k ∧ mem' = mem
    · obtain ⟨rfl, rfl⟩ := he
      rw [e.memv] at hv; cases hv
      exact ⟨s, hs, rfl, e.idx⟩
    · rw [e.frame _ (not_own_mem E hk hk' he)] at hv
      obtain ⟨s1, hs1, hv1, hi1⟩ := hb.memv k' mem' v hk' hv
      refine ⟨s1, hs1, hv1, ?_⟩
      rw [e.frame _ (not_own_score E hk hk' hs1 he)]; exact hi1
  · intro k' s' mem' hk' hgs' hi
    by_cases he : k' = k ∧ mem' = mem
    · obtain ⟨rfl, rfl⟩ := he
      exact ⟨s, hs, e.memv, (e.uniq s' hgs' hi).symm⟩
    · rw [e.frame _ (not_own_score E hk hk' hgs' he)] at hi
      obtain ⟨s1, hs1, hv1, hk1⟩ := hb.idx k' s' mem' hk' hgs' hi
      refine ⟨s1, hs1, ?_, hk1⟩
      rw [e.frame _ (not_own_mem E hk hk' he)]; exact hv1

theorem bij_of_delEff {m m' : List KV} {k mem : Bytes} (hb : Bij E m) (hk : E.ok k)
    (hs' : Sorted m') (e : DelEff E m m' k mem) : Bij E m' := by
  refine ⟨hs', known_of_frame E hk hb e.frame, ?_, ?_⟩
  · intro k' mem' v hk' hv
    by_cases he : k' = k ∧ mem' = mem
    · obtain ⟨rfl, rfl⟩ := he
      rw [e.memv] at hv; cases hv
    · rw [e.frame _ (not_own_mem E hk hk' he)] at hv
      obtain ⟨s1, hs1, hv1, hi1⟩ := hb.memv k' mem' v hk' hv
      refine ⟨s1, hs1, hv1, ?_⟩
      rw [e.frame _ (not_own_score E hk hk' hs1 he)]; exact hi1
  · intro k' s' mem' hk' hgs' hi
    by_cases he : k' = k ∧ mem' = mem
    · obtain ⟨rfl, rfl⟩ := he
      rw [e.idx s' hgs'] at hi; cases hi
    · rw [e.frame _ (not_own_score E hk hk' hgs' he)] at hi
      obtain ⟨s1, hs1, hv1, hk1⟩ := hb.idx k' s' mem' hk' hgs' hi
      refine ⟨s1, hs1, ?_, hk1⟩
      rw [e.frame _ (not_own_mem E hk hk' he)]; exact hv1

/-! ### counting through single operations -/

theorem cnt_put_new {m : List KV} (hm : Sorted m) {a : Bytes} (v : Bytes) (P : Bytes → Bool) (h : get m a = none) :
    cnt (put m a v) P = cnt m P + (if P a then 1 else 0) := by
  rw [cnt_put m hm, h]; simp

theorem cnt_put_old {m : List KV} (hm : Sorted m) {a : Bytes} (v : Bytes) (P : Bytes → Bool) (h : (get m a).isSome) :
    cnt (put m a v) P = cnt m P := by
  rw [cnt_put m hm]
  cases hg : get m a with
  | none => rw [hg] at h; cases h
  | some w => simp

theorem cnt_del_old {m : List KV} (hm : Sorted m) {a : Bytes} (P : Bytes → Bool) (h : (get m a).isSome) :
    cnt (del m a) P + (if P a then 1 else 0) = cnt m P := by
  have := cnt_del m hm a P
  rw [h] at this; simpa using this

theorem cnt_del_new {m : List KV} (hm : Sorted m) {a : Bytes} (P : Bytes → Bool) (h : get m a = none) :
    cnt (del m a) P = cnt m P := by
  have := cnt_del m hm a P
  rw [h] at this; simpa using this

/-! ### `zSetItem` -/

theorem encScore_inj {a b : Nat} (ha : E.good a) (hb : E.good b) (h : E.encScore a = E.encScore b) : a = b := by
  have h1 := E.score_rt a ha
  rw [h, E.score_rt b hb] at h1
  exact (Option.some.inj h1).symm

/-- the only index key of a member is the one of its stored score -/
theorem score_unique {m : List KV} (hb : Bij E m) {k mem : Bytes} {s1 s' : Nat} (hk : E.ok k) (hs1 : E.good s1)
    (hs' : E.good s') (hv : get m (E.memK k mem) = some (E.encScore s1)) (hi : (get m (E.scoreK k s' mem)).isSome) :
    E.scoreK k s' mem = E.scoreK k s1 mem := by
  obtain ⟨s2, hs2, hv2, hk2⟩ := hb.idx k s' mem hk hs' hi
  rw [hv] at hv2
  have := encScore_inj E hs1 hs2 (Option.some.inj hv2)
  rw [this]; exact hk2.symm

/-- no index key of an absent member is stored -/
theorem score_absent {m : List KV} (hb : Bij E m) {k mem : Bytes} {s' : Nat} (hk : E.ok k) (hs' : E.good s')
    (hv : get m (E.memK k mem) = none) : get m (E.scoreK k s' mem) = none := by
  cases hg : get m (E.scoreK k s' mem) with
  | none => rfl
  | some w =>
    obtain ⟨s2, _, hv2, _⟩ := hb.idx k s' mem hk hs' (by rw [hg]; rfl)
    rw [hv] at hv2; cases hv2

/-- what a stored member key holds -/
theorem mem_value {m : List KV} (hb : Bij E m) {k mem v : Bytes} (hk : E.ok k) (hv : get m (E.memK k mem) = some v) :
    ∃ s1, E.good s1 ∧ v = E.encScore s1 ∧ E.decScore v = some s1 ∧ (get m (E.scoreK k s1 mem)).isSome := by
  obtain ⟨s1, hs1, hv1, hi1⟩ := hb.memv k mem v hk hv
  exact ⟨s1, hs1, hv1, by rw [hv1, E.score_rt s1 hs1], hi1⟩

theorem setItem_spec {m : List KV} (hb : Bij E m) {k mem : Bytes} {s : Nat} (hk : E.ok k) (hs : E.good s) :
    ∃ ops ex se, setItemOps E.toEncFns m k s mem = .ok (ops, ex) ∧
      (ex = 0 ↔ get m (E.memK k mem) = none) ∧ E.good se ∧ feqB se s = true ∧
      SetEff E m (applyOps m ops) k mem se ∧
      (∀ k', E.ok k' → cnt (applyOps m ops) (inMemB E k') = cnt m (inMemB E k') + (if k = k' ∧ ex = 0 then 1 else 0)) ∧
      (∀ k', E.ok k' → cnt (applyOps m ops) (inIdxB E k') = cnt m (inIdxB E k') + (if k = k' ∧ ex = 0 then 1 else 0)) ∧
      se = (match get m (E.memK k mem) with
            | some v => (match E.decScore v with
                         | some old => if feqB old s then old else s
                         | none => s)
            | none => s) := by
  have hsm := hb.sorted
  have hne_ms : E.memK k mem ≠ E.scoreK k s mem := E.mem_ne_score _ _ _ _ _
  cases hv : get m (E.memK k mem) with
  | none =>
    -- a new member
    have habs : get m (E.scoreK k s mem) = none := score_absent E hb hk hs hv
    refine ⟨[.put (E.memK k mem) (E.encScore s), .put (E.scoreK k s mem) []], 0, s, ?_, by simp, hs, E.feq_refl s hs, ?_, ?_, ?_, rfl⟩
    · simp [setItemOps, hv]
    · refine ⟨?_, ?_, ?_, ?_⟩
      · rw [get_applyOps hsm]; simp [effOp, hne_ms]
      · rw [get_applyOps hsm]; simp [effOp]
      · intro s' hs' hi
        rw [get_applyOps hsm] at hi
        simp only [List.foldl_cons, List.foldl_nil, effOp] at hi
        by_cases e1 : E.scoreK k s' mem = E.scoreK k s mem
        · exact e1
        · have e2 : E.scoreK k s' mem ≠ E.memK k mem := fun e => E.mem_ne_score _ _ _ _ _ e.symm
          simp only [e1, e2, ↓reduceIte] at hi
          rw [score_absent E hb hk hs' hv] at hi; cases hi
      · intro x hx
        have e1 : x ≠ E.memK k mem := fun e => hx (Or.inl e)
        have e2 : x ≠ E.scoreK k s mem := fun e => hx (Or.inr ⟨s, hs, e⟩)
        rw [get_applyOps hsm]; simp [effOp, e1, e2]
    · intro k' hk'
      have h1 : get (put m (E.memK k mem) (E.encScore s)) (E.scoreK k s mem) = none := by
        rw [get_put m hsm]; simp [hne_ms.symm, habs]
      show cnt (put (put m _ _) _ _) _ = _
      rw [cnt_put_new (put_sorted hsm _ _) _ _ h1, cnt_put_new hsm _ _ hv, inMemB_mem E hk' hk, inMemB_score E hk']
      simp
    · intro k' hk'
      have h1 : get (put m (E.memK k mem) (E.encScore s)) (E.scoreK k s mem) = none := by
        rw [get_put m hsm]; simp [hne_ms.symm, habs]
      show cnt (put (put m _ _) _ _) _ = _
      rw [cnt_put_new (put_sorted hsm _ _) _ _ h1, cnt_put_new hsm _ _ hv, inIdxB_mem E, inIdxB_score E hk' hk hs]
      simp
  | some v =>
    obtain ⟨s1, hs1, hv1, hd1, hi1⟩ := mem_value E hb hk hv
    by_cases hfe : feqB s1 s = true
    · -- same score: nothing is written
      refine ⟨[], 1, s1, ?_, by simp, hs1, hfe, ?_, ?_, ?_, by simp [hd1, hfe]⟩
      · simp [setItemOps, hv, hd1, hfe]
      · refine ⟨by rw [applyOps_nil, hv, hv1], by rw [applyOps_nil]; exact hi1, ?_, fun x _ => rfl⟩
        intro s' hs' hi
        rw [applyOps_nil] at hi
        exact score_unique E hb hk hs1 hs' (by rw [hv, hv1]) hi
      · intro k' _; simp [applyOps_nil]
      · intro k' _; simp [applyOps_nil]
    · -- the score changes: the old index key is deleted, the member value and the new index key are written
      have hkne : E.scoreK k s mem ≠ E.scoreK k s1 mem := by
        intro e
        have := (E.score_eq_iff k s mem k s1 mem hk hk hs hs1).mp e
        exact hfe (E.feq_symm _ _ this.2.2)
      have hnew : get m (E.scoreK k s mem) = none := by
        cases hg : get m (E.scoreK k s mem) with
        | none => rfl
        | some w => exact absurd (score_unique E hb hk hs1 hs (by rw [hv, hv1]) (by rw [hg]; rfl)) hkne
      have hne1 : E.memK k mem ≠ E.scoreK k s1 mem := E.mem_ne_score _ _ _ _ _
      refine ⟨[.del (E.scoreK k s1 mem), .put (E.memK k mem) (E.encScore s), .put (E.scoreK k s mem) []], 1, s, ?_,
        by simp [hv], hs, E.feq_refl s hs, ?_, ?_, ?_, by simp [hd1, hfe]⟩
      · simp [setItemOps, hv, hd1, hfe]
      · refine ⟨?_, ?_, ?_, ?_⟩
        · rw [get_applyOps hsm]; simp [effOp, hne_ms]
        · rw [get_applyOps hsm]; simp [effOp]
        · intro s' hs' hi
          rw [get_applyOps hsm] at hi
          simp only [List.foldl_cons, List.foldl_nil, effOp] at hi
          by_cases e1 : E.scoreK k s' mem = E.scoreK k s mem
          · exact e1
          · have e2 : E.scoreK k s' mem ≠ E.memK k mem := fun e => E.mem_ne_score _ _ _ _ _ e.symm
            simp only [e1, e2, ↓reduceIte] at hi
            by_cases e3 : E.scoreK k s' mem = E.scoreK k s1 mem
            · simp [e3] at hi
            · simp only [e3, ↓reduceIte] at hi
              exact absurd (score_unique E hb hk hs1 hs' (by rw [hv, hv1]) hi) e3
        · intro x hx
          have e1 : x ≠ E.memK k mem := fun e => hx (Or.inl e)
          have e2 : x ≠ E.scoreK k s mem := fun e => hx (Or.inr ⟨s, hs, e⟩)
          have e3 : x ≠ E.scoreK k s1 mem := fun e => hx (Or.inr ⟨s1, hs1, e⟩)
          rw [get_applyOps hsm]; simp [effOp, e1, e2, e3]
      · intro k' hk'
        have hs1' := del_sorted hsm (E.scoreK k s1 mem)
        have h2 : (get (del m (E.scoreK k s1 mem)) (E.memK k mem)).isSome := by
          rw [get_del m hsm]; simp [hne1, hv]
        have h3 : get (put (del m (E.scoreK k s1 mem)) (E.memK k mem) (E.encScore s)) (E.scoreK k s mem) = none := by
          rw [get_put _ hs1', get_del m hsm]; simp [hne_ms.symm, hkne, hnew]
        show cnt (put (put (del m _) _ _) _ _) _ = _
        rw [cnt_put_new (put_sorted hs1' _ _) _ _ h3, cnt_put_old hs1' _ _ h2, inMemB_score E hk']
        have := cnt_del_old hsm (inMemB E k') hi1
        rw [inMemB_score E hk'] at this
        simp at this ⊢; exact this
      · intro k' hk'
        have hs1' := del_sorted hsm (E.scoreK k s1 mem)
        have h2 : (get (del m (E.scoreK k s1 mem)) (E.memK k mem)).isSome := by
          rw [get_del m hsm]; simp [hne1, hv]
        have h3 : get (put (del m (E.scoreK k s1 mem)) (E.memK k mem) (E.encScore s)) (E.scoreK k s mem) = none := by
          rw [get_put _ hs1', get_del m hsm]; simp [hne_ms.symm, hkne, hnew]
        show cnt (put (put (del m _) _ _) _ _) _ = _
        rw [cnt_put_new (put_sorted hs1' _ _) _ _ h3, cnt_put_old hs1' _ _ h2, inIdxB_score E hk' hk hs]
        have := cnt_del_old hsm (inIdxB E k') hi1
        rw [inIdxB_score E hk' hk hs1] at this
        simp at this ⊢; omega

/-! ### `zDelItem` -/

theorem delItem_spec {m : List KV} (hb : Bij E m) {k mem : Bytes} (hk : E.ok k) :
    ∃ ops ex, delItemOps E.toEncFns m k mem = .ok (ops, ex) ∧
      (ex = if (get m (E.memK k mem)).isSome then 1 else 0) ∧
      DelEff E m (applyOps m ops) k mem ∧
      (∀ k', E.ok k' → cnt (applyOps m ops) (inMemB E k') + (if k = k' then ex else 0) = cnt m (inMemB E k')) ∧
      (∀ k', E.ok k' → cnt (applyOps m ops) (inIdxB E k') + (if k = k' then ex else 0) = cnt m (inIdxB E k')) := by
  have hsm := hb.sorted
  cases hv : get m (E.memK k mem) with
  | none =>
    refine ⟨[], 0, by simp [delItemOps, hv], by simp, ⟨by rw [applyOps_nil, hv], ?_, fun x _ => rfl⟩, ?_, ?_⟩
    · intro s' hs'; rw [applyOps_nil]; exact score_absent E hb hk hs' hv
    · intro k' _; simp [applyOps_nil]
    · intro k' _; simp [applyOps_nil]
  | some v =>
    obtain ⟨s1, hs1, hv1, hd1, hi1⟩ := mem_value E hb hk hv
    have hne1 : E.memK k mem ≠ E.scoreK k s1 mem := E.mem_ne_score _ _ _ _ _
    refine ⟨[.del (E.scoreK k s1 mem), .del (E.memK k mem)], 1, by simp [delItemOps, hv, hd1], by simp, ?_, ?_, ?_⟩
    · refine ⟨?_, ?_, ?_⟩
      · rw [get_applyOps hsm]; simp [effOp]
      · intro s' hs'
        rw [get_applyOps hsm]
        simp only [List.foldl_cons, List.foldl_nil, effOp]
        have e2 : E.scoreK k s' mem ≠ E.memK k mem := fun e => E.mem_ne_score _ _ _ _ _ e.symm
        simp only [e2, ↓reduceIte]
        by_cases e3 : E.scoreK k s' mem = E.scoreK k s1 mem
        · simp [e3]
        · simp only [e3, ↓reduceIte]
          cases hg : get m (E.scoreK k s' mem) with
          | none => rfl
          | some w => exact absurd (score_unique E hb hk hs1 hs' (by rw [hv, hv1]) (by rw [hg]; rfl)) e3
      · intro x hx
        have e1 : x ≠ E.memK k mem := fun e => hx (Or.inl e)
        have e3 : x ≠ E.scoreK k s1 mem := fun e => hx (Or.inr ⟨s1, hs1, e⟩)
        rw [get_applyOps hsm]; simp [effOp, e1, e3]
    · intro k' hk'
      have hs1' := del_sorted hsm (E.scoreK k s1 mem)
      have h2 : (get (del m (E.scoreK k s1 mem)) (E.memK k mem)).isSome := by
        rw [get_del m hsm]; simp [hne1, hv]
      show cnt (del (del m _) _) _ + _ = _
      have a1 := cnt_del_old hs1' (inMemB E k') h2
      have a2 := cnt_del_old hsm (inMemB E k') hi1
      rw [inMemB_mem E hk' hk] at a1
      rw [inMemB_score E hk'] at a2
      simp at a1 a2 ⊢; omega
    · intro k' hk'
      have hs1' := del_sorted hsm (E.scoreK k s1 mem)
      have h2 : (get (del m (E.scoreK k s1 mem)) (E.memK k mem)).isSome := by
        rw [get_del m hsm]; simp [hne1, hv]
      show cnt (del (del m _) _) _ + _ = _
      have a1 := cnt_del_old hs1' (inIdxB E k') h2
      have a2 := cnt_del_old hsm (inIdxB E k') hi1
      rw [inIdxB_mem E] at a1
      rw [inIdxB_score E hk' hk hs1] at a2
      simp at a1 a2 ⊢; omega

/-! ### loops over pairwise distinct members -/

/-- contract of one loop step that touches only the keys of member `mem` of `k` -/
structure StepOK (m m' : List KV) (k mem : Bytes) (sgn : Int) (n : Nat) (v : Option Bytes) : Prop where
  bij : Bij E m'
  memv : get m' (E.memK k mem) = v
  frame : ∀ x, ¬ own E k mem x → get m' x = get m x
  mc : ∀ k', E.ok k' → (cnt m' (inMemB E k') : Int) = cnt m (inMemB E k') + (if k = k' then sgn * n else 0)
  ic : ∀ k', E.ok k' → (cnt m' (inIdxB E k') : Int) = cnt m (inIdxB E k') + (if k = k' then sgn * n else 0)

/-- a loop whose items read the store as it was at the start of the command (`m0`) and touch pairwise distinct
    members behaves like the sequential composition of its steps -/
theorem collect_spec {α : Type} (f : α → Except String (List Op × Nat)) (memOf : α → Bytes) (valOf : α → Option Bytes)
    {k : Bytes} (hk : E.ok k) (sgn : Int) (m0 : List KV) :
    ∀ (items : List α) (m : List KV), (items.map memOf).Nodup → Bij E m →
      (∀ a ∈ items, get m (E.memK k (memOf a)) = get m0 (E.memK k (memOf a))) →
      (∀ a ∈ items, ∀ m, Bij E m → get m (E.memK k (memOf a)) = get m0 (E.memK k (memOf a)) →
        ∃ ops n, f a = .ok (ops, n) ∧ StepOK E m (applyOps m ops) k (memOf a) sgn n (valOf a)) →
      ∃ ops n, collect f items = .ok (ops, n) ∧ Bij E (applyOps m ops) ∧
        (∀ a ∈ items, get (applyOps m ops) (E.memK k (memOf a)) = valOf a) ∧
        (∀ x, (∀ a ∈ items, ¬ own E k (memOf a) x) → get (applyOps m ops) x = get m x) ∧
        (∀ k', E.ok k' → (cnt (applyOps m ops) (inMemB E k') : Int) = cnt m (inMemB E k') + (if k = k' then sgn * n else 0)) ∧
        (∀ k', E.ok k' → (cnt (applyOps m ops) (inIdxB E k') : Int) = cnt m (inIdxB E k') + (if k = k' then sgn * n else 0)) := by
  intro items
  induction items with
  | nil =>
    intro m _ hb _ _
    exact ⟨[], 0, rfl, hb, fun a ha => absurd ha List.not_mem_nil, fun x _ => rfl, fun k' _ => by simp [applyOps_nil], fun k' _ => by simp [applyOps_nil]⟩
  | cons a t ih =>
    intro m hnd hb hag hf
    simp only [List.map_cons, List.nodup_cons] at hnd
    obtain ⟨hnot, hnd'⟩ := hnd
    obtain ⟨opsa, na, hfa, sa⟩ := hf a List.mem_cons_self m hb (hag a List.mem_cons_self)
    have hag' : ∀ b ∈ t, get (applyOps m opsa) (E.memK k (memOf b)) = get m0 (E.memK k (memOf b)) := by
      intro b hbt
      have hne : memOf b ≠ memOf a := fun e => hnot (List.mem_map.mpr ⟨b, hbt, e⟩)
      rw [sa.frame _ (not_own_mem E hk hk (fun h => hne h.2))]
      exact hag b (List.mem_cons_of_mem _ hbt)
    obtain ⟨opst, nt, hft, hbt, hvt, hfr, hmc, hic⟩ :=
      ih (applyOps m opsa) hnd' sa.bij hag' (fun b hb' => hf b (List.mem_cons_of_mem _ hb'))
    refine ⟨opsa ++ opst, na + nt, by simp [collect, hfa, hft], by rw [applyOps_append]; exact hbt, ?_, ?_, ?_, ?_⟩
    · intro b hb'
      rw [applyOps_append]
      rcases List.mem_cons.mp hb' with rfl | hbt'
      · rw [hfr _ (fun c hc => not_own_mem E hk hk (fun h => hnot (List.mem_map.mpr ⟨c, hc, h.2.symm⟩)))]
        exact sa.memv
      · exact hvt b hbt'
    · intro x hx
      rw [applyOps_append, hfr x (fun b hb' => hx b (List.mem_cons_of_mem _ hb')), sa.frame x (hx a List.mem_cons_self)]
    · intro k' hk'
      rw [applyOps_append, hmc k' hk', sa.mc k' hk']
      split <;> simp [Int.mul_add] <;> omega
    · intro k' hk'
      rw [applyOps_append, hic k' hk', sa.ic k' hk']
      split <;> simp [Int.mul_add] <;> omega

/-- the count returned by a loop is the sum of the per-item counts -/
theorem collect_count {α : Type} (f : α → Except String (List Op × Nat)) :
    ∀ (items : List α) (ops : List Op) (n : Nat), collect f items = .ok (ops, n) →
      n = (items.map (fun a => match f a with | .ok (_, c) => c | .error _ => 0)).sum := by
  intro items
  induction items with
  | nil => intro ops n h; simp [collect] at h; simp [h.2]
  | cons a t ih =>
    intro ops n h
    simp only [collect] at h
    cases hfa : f a with
    | error e => simp [hfa] at h
    | ok r =>
      obtain ⟨oa, ca⟩ := r
      simp only [hfa] at h
      cases hft : collect f t with
      | error e => simp [hft] at h
      | ok r' =>
        obtain ⟨ot, ct⟩ := r'
        simp only [hft, Except.ok.injEq, Prod.mk.injEq] at h
        have := ih ot ct hft
        simp [hfa, ← this, ← h.2]

/-! ### the size meta -/

theorem bij_put_meta {m : List KV} (hb : Bij E m) {k : Bytes} (hk : E.ok k) (v : Bytes) : Bij E (put m (E.metaK k) v) := by
  have hs := hb.sorted
  refine ⟨put_sorted hs _ _, ?_, ?_, ?_⟩
  · intro x hx
    rw [get_put m hs] at hx
    by_cases e : x = E.metaK k
    · exact Or.inl ⟨k, hk, e⟩
    · simp only [e, ↓reduceIte] at hx; exact hb.known x hx
  · intro k' mem v' hk' hv
    rw [get_put m hs] at hv
    simp only [(E.meta_ne_mem k k' mem).symm, ↓reduceIte] at hv
    obtain ⟨s1, hs1, hv1, hi1⟩ := hb.memv k' mem v' hk' hv
    refine ⟨s1, hs1, hv1, ?_⟩
    rw [get_put m hs]; simp only [(E.meta_ne_score k k' s1 mem).symm, ↓reduceIte]; exact hi1
  · intro k' s' mem hk' hs' hi
    rw [get_put m hs] at hi
    simp only [(E.meta_ne_score k k' s' mem).symm, ↓reduceIte] at hi
    obtain ⟨s1, hs1, hv1, hk1⟩ := hb.idx k' s' mem hk' hs' hi
    refine ⟨s1, hs1, ?_, hk1⟩
    rw [get_put m hs]; simp only [(E.meta_ne_mem k k' mem).symm, ↓reduceIte]; exact hv1

theorem bij_del_meta {m : List KV} (hb : Bij E m) (k : Bytes) : Bij E (del m (E.metaK k)) := by
  have hs := hb.sorted
  refine ⟨del_sorted hs _, ?_, ?_, ?_⟩
  · intro x hx
    rw [get_del m hs] at hx
    by_cases e : x = E.metaK k
    · simp [e] at hx
    · simp only [e, ↓reduceIte] at hx; exact hb.known x hx
  · intro k' mem v' hk' hv
    rw [get_del m hs] at hv
    simp only [(E.meta_ne_mem k k' mem).symm, ↓reduceIte] at hv
    obtain ⟨s1, hs1, hv1, hi1⟩ := hb.memv k' mem v' hk' hv
    refine ⟨s1, hs1, hv1, ?_⟩
    rw [get_del m hs]; simp only [(E.meta_ne_score k k' s1 mem).symm, ↓reduceIte]; exact hi1
  · intro k' s' mem hk' hs' hi
    rw [get_del m hs] at hi
    simp only [(E.meta_ne_score k k' s' mem).symm, ↓reduceIte] at hi
    obtain ⟨s1, hs1, hv1, hk1⟩ := hb.idx k' s' mem hk' hs' hi
    refine ⟨s1, hs1, ?_, hk1⟩
    rw [get_del m hs]; simp only [(E.meta_ne_mem k k' mem).symm, ↓reduceIte]; exact hv1

theorem cnt_le_length (m : List KV) (P : Bytes → Bool) : cnt m P ≤ m.length := List.length_filter_le _ _

theorem length_put_ge (m : List KV) (a v : Bytes) : m.length ≤ (put m a v).length := by
  induction m with
  | nil => simp [put]
  | cons b t ih =>
    unfold put
    split
    · simp
    · split
      · simp
      · simp only [List.length_cons]; omega

theorem sizeOK_congr {m m' : List KV} {k' : Bytes} (hg : get m' (E.metaK k') = get m (E.metaK k'))
    (h1 : cnt m' (inMemB E k') = cnt m (inMemB E k')) (h2 : cnt m' (inIdxB E k') = cnt m (inIdxB E k'))
    (h : SizeOK E m k') : SizeOK E m' k' := by
  unfold SizeOK at *
  rw [hg, h1, h2]; exact h

theorem cnt_put_meta {m : List KV} (hm : Sorted m) (k v : Bytes) {k' : Bytes} (hk' : E.ok k') :
    cnt (put m (E.metaK k) v) (inMemB E k') = cnt m (inMemB E k') ∧
    cnt (put m (E.metaK k) v) (inIdxB E k') = cnt m (inIdxB E k') := by
  constructor
  · rw [cnt_put m hm, inMemB_meta E hk']; simp
  · rw [cnt_put m hm, inIdxB_meta E]; simp

theorem cnt_del_meta {m : List KV} (hm : Sorted m) (k : Bytes) {k' : Bytes} (hk' : E.ok k') :
    cnt (del m (E.metaK k)) (inMemB E k') = cnt m (inMemB E k') ∧
    cnt (del m (E.metaK k)) (inIdxB E k') = cnt m (inIdxB E k') := by
  constructor
  · have := cnt_del m hm (E.metaK k) (inMemB E k'); rw [inMemB_meta E hk'] at this; simpa using this
  · have := cnt_del m hm (E.metaK k) (inIdxB E k'); rw [inIdxB_meta E] at this; simpa using this

/-- `zIncrSize` after a loop that changed the number of members of `k` by `d` restores the invariant -/
theorem finish_size {m m2 : List KV} {k : Bytes} (inv : Inv E m) (hb2 : Bij E m2) (hk : E.ok k) (d : Int) (ts : Int)
    (hmeta : ∀ k', get m2 (E.metaK k') = get m (E.metaK k'))
    (hmc : ∀ k', E.ok k' → (cnt m2 (inMemB E k') : Int) = cnt m (inMemB E k') + (if k = k' then d else 0))
    (hic : ∀ k', E.ok k' → (cnt m2 (inIdxB E k') : Int) = cnt m (inIdxB E k') + (if k = k' then d else 0)) :
    ∃ sops sz, incrSizeOps E.toEncFns (get m (E.metaK k)) ts k d = .ok (sops, sz) ∧
      (sops = [.del (E.metaK k)] ∨ ∃ v, sops = [.put (E.metaK k) v]) ∧
      ((applyOps m2 sops).length < E.sizeBound → Inv E (applyOps m2 sops)) := by
  have hs2 := hb2.sorted
  have hsz := inv.size k hk
  -- the size the code computes is the new number of members
  have hnew : ∃ n0 : Nat, sizeOfMeta E.toEncFns (get m (E.metaK k)) = .ok (n0 : Int) ∧
      cnt m (inMemB E k) = n0 ∧ cnt m (inIdxB E k) = n0 := by
    unfold SizeOK at hsz
    cases hg : get m (E.metaK k) with
    | none => rw [hg] at hsz; exact ⟨0, by simp [sizeOfMeta], hsz.1, hsz.2⟩
    | some v =>
      rw [hg] at hsz
      obtain ⟨n, _, hso, h1, h2⟩ := hsz
      exact ⟨n, by simp [sizeOfMeta, hso], h1, h2⟩
  obtain ⟨n0, hread, hm0, hi0⟩ := hnew
  have hmc2 := hmc k hk
  have hic2 := hic k hk
  simp only [↓reduceIte, hm0, hi0] at hmc2 hic2
  -- other keys keep their size facts through the loop and the meta write
  have others : ∀ (m' : List KV), (∀ k', E.ok k' → k' ≠ k → get m' (E.metaK k') = get m2 (E.metaK k')) →
      (∀ k', E.ok k' → cnt m' (inMemB E k') = cnt m2 (inMemB E k') ∧ cnt m' (inIdxB E k') = cnt m2 (inIdxB E k')) →
      ∀ k', E.ok k' → k' ≠ k → SizeOK E m' k' := by
    intro m' hg hc k' hk' hne
    have hne' : ¬ k = k' := fun e => hne e.symm
    have c1 := hmc k' hk'
    have c2 := hic k' hk'
    simp only [hne', ↓reduceIte, Int.add_zero] at c1 c2
    apply sizeOK_congr E (by rw [hg k' hk' hne, hmeta k']) _ _ (inv.size k' hk')
    · rw [(hc k' hk').1]; exact_mod_cast c1
    · rw [(hc k' hk').2]; exact_mod_cast c2
  by_cases hle : (n0 : Int) + d ≤ 0
  · -- the zset is (now) empty: the meta is deleted
    have hz : cnt m2 (inMemB E k) = 0 ∧ cnt m2 (inIdxB E k) = 0 := by omega
    refine ⟨[.del (E.metaK k)], 0, by simp [incrSizeOps, hread, hle], Or.inl rfl, fun hlen => ?_⟩
    show Inv E (del m2 (E.metaK k))
    refine ⟨bij_del_meta E hb2 k, hlen, ?_⟩
    intro k' hk'
    by_cases hkk : k' = k
    · subst hkk
      unfold SizeOK
      rw [get_del m2 hs2]; simp only [↓reduceIte]
      rw [(cnt_del_meta E hs2 k' hk').1, (cnt_del_meta E hs2 k' hk').2]; exact hz
    · apply others _ _ (fun k'' hk'' => cnt_del_meta E hs2 k hk'') k' hk' hkk
      intro k'' hk'' hne
      rw [get_del m2 hs2]
      have : E.metaK k'' ≠ E.metaK k := fun e => hne (E.meta_inj _ _ hk'' hk e)
      simp [this]
  · -- the meta is rewritten with the new size and the write's timestamp
    have hpos : 0 < (n0 : Int) + d := by omega
    refine ⟨[.put (E.metaK k) (E.encSize ((n0 : Int) + d).toNat ts)], (n0 : Int) + d, by simp [incrSizeOps, hread, hle],
      Or.inr ⟨_, rfl⟩, fun hlen => ?_⟩
    have hlen' : (put m2 (E.metaK k) (E.encSize ((n0 : Int) + d).toNat ts)).length < E.sizeBound := hlen
    show Inv E (put m2 (E.metaK k) _)
    refine ⟨bij_put_meta E hb2 hk _, hlen, ?_⟩
    intro k' hk'
    by_cases hkk : k' = k
    · subst hkk
      unfold SizeOK
      rw [get_put m2 hs2]; simp only [↓reduceIte]
      rw [(cnt_put_meta E hs2 k' _ hk').1, (cnt_put_meta E hs2 k' _ hk').2]
      have hb : ((n0 : Int) + d).toNat < E.sizeBound := by
        have a1 := cnt_le_length m2 (inMemB E k')
        have a2 := length_put_ge m2 (E.metaK k') (E.encSize ((n0 : Int) + d).toNat ts)
        omega
      refine ⟨((n0 : Int) + d).toNat, by omega, E.size_rt _ ts hb, by omega, by omega⟩
    · apply others _ _ (fun k'' hk'' => cnt_put_meta E hs2 k _ hk'') k' hk' hkk
      intro k'' hk'' hne
      rw [get_put m2 hs2]
      have : E.metaK k'' ≠ E.metaK k := fun e => hne (E.meta_inj _ _ hk'' hk e)
      simp [this]

/-! ### deduplication -/

theorem mem_dedupPairs : ∀ (l : List (Nat × Bytes)) (p : Nat × Bytes), p ∈ dedupPairs l → p ∈ l
  | [], p, h => by simp [dedupPairs] at h
  | (s, mem) :: t, p, h => by
    simp only [dedupPairs] at h
    split at h
    · rename_i s' x hfind
      rcases List.mem_cons.mp h with rfl | h
      · have h1 := List.mem_of_find?_eq_some hfind
        have h2 := List.find?_some hfind
        simp only [beq_iff_eq] at h2
        have := mem_dedupPairs t _ h1
        rw [h2] at this
        exact List.mem_cons_of_mem _ this
      · exact List.mem_cons_of_mem _ (mem_dedupPairs t p (List.mem_filter.mp h).1)
    · rcases List.mem_cons.mp h with rfl | h
      · exact List.mem_cons_self
      · exact List.mem_cons_of_mem _ (mem_dedupPairs t p h)

theorem dedupPairs_nodup : ∀ (l : List (Nat × Bytes)), ((dedupPairs l).map (·.2)).Nodup
  | [] => by simp [dedupPairs]
  | (s, mem) :: t => by
    have ih := dedupPairs_nodup t
    simp only [dedupPairs]
    have hsub : ((dedupPairs t).filter (fun p => p.2 != mem)).map (·.2) |>.Nodup :=
      ih.sublist ((List.filter_sublist).map _)
    have hnot : mem ∉ ((dedupPairs t).filter (fun p => p.2 != mem)).map (·.2) := by
      intro hm
      obtain ⟨q, hq, he⟩ := List.mem_map.mp hm
      have := (List.mem_filter.mp hq).2
      simp [he] at this
    split
    · simp only [List.map_cons, List.nodup_cons]
      exact ⟨hnot, hsub⟩
    · rename_i hfind
      simp only [List.map_cons, List.nodup_cons]
      refine ⟨?_, ih⟩
      intro hm
      obtain ⟨q, hq, he⟩ := List.mem_map.mp hm
      have := List.find?_eq_none.mp hfind q hq
      simp [he] at this

theorem dedupMembers_nodup : ∀ (l : List Bytes), (dedupMembers l).Nodup
  | [] => by simp [dedupMembers]
  | a :: t => by
    have ih := dedupMembers_nodup t
    simp only [dedupMembers, List.nodup_cons]
    refine ⟨?_, ih.sublist List.filter_sublist⟩
    intro hm
    have := (List.mem_filter.mp hm).2
    simp at this

/-! ### ZADD / ZREM -/

theorem setItemOps_congr {m m0 : List KV} {k mem : Bytes} (s : Nat)
    (h : get m (E.memK k mem) = get m0 (E.memK k mem)) :
    setItemOps E.toEncFns m k s mem = setItemOps E.toEncFns m0 k s mem := by
  unfold setItemOps; rw [h]

theorem delItemOps_congr {m m0 : List KV} {k mem : Bytes}
    (h : get m (E.memK k mem) = get m0 (E.memK k mem)) :
    delItemOps E.toEncFns m k mem = delItemOps E.toEncFns m0 k mem := by
  unfold delItemOps; rw [h]

/-- the score a ZADD pair leaves in the member key: the given one, or the stored one if it is `==` -/
def newScore (m0 : List KV) (k : Bytes) (p : Nat × Bytes) : Nat :=
  match get m0 (E.memK k p.2) with
  | some v => (match E.decScore v with
               | some old => if feqB old p.1 then old else p.1
               | none => p.1)
  | none => p.1

/-- the loop body of `ZAdd` -/
def addItem (m0 : List KV) (k : Bytes) (p : Nat × Bytes) : Except String (List Op × Nat) :=
  match setItemOps E.toEncFns m0 k p.1 p.2 with
  | .error e => .error e
  | .ok (ops, ex) => .ok (ops, if ex = 0 then 1 else 0)

theorem addItem_step {m0 m : List KV} {k : Bytes} (hk : E.ok k) (p : Nat × Bytes) (hg : E.good p.1) (hb : Bij E m)
    (hag : get m (E.memK k p.2) = get m0 (E.memK k p.2)) :
    ∃ ops n, addItem E m0 k p = .ok (ops, n) ∧
      StepOK E m (applyOps m ops) k p.2 1 n (some (E.encScore (newScore E m0 k p))) := by
  obtain ⟨ops, ex, se, hops, _, hse, _, eff, hmc, hic, hsev⟩ := setItem_spec E hb (mem := p.2) hk hg
  rw [setItemOps_congr E p.1 hag] at hops
  refine ⟨ops, if ex = 0 then 1 else 0, by simp [addItem, hops], ?_⟩
  have hval : se = newScore E m0 k p := by rw [hsev, newScore, hag]
  refine ⟨bij_of_setEff E hb hk hse (applyOps_sorted hb.sorted ops) eff, by rw [← hval]; exact eff.memv, eff.frame, ?_, ?_⟩
  · intro k' hk'
    rw [hmc k' hk']
    by_cases h1 : k = k' <;> by_cases h2 : ex = 0 <;> simp [h1, h2]
  · intro k' hk'
    rw [hic k' hk']
    by_cases h1 : k = k' <;> by_cases h2 : ex = 0 <;> simp [h1, h2]

theorem delItem_step {m0 m : List KV} {k : Bytes} (hk : E.ok k) (mem : Bytes) (hb : Bij E m)
    (hag : get m (E.memK k mem) = get m0 (E.memK k mem)) :
    ∃ ops n, delItemOps E.toEncFns m0 k mem = .ok (ops, n) ∧ StepOK E m (applyOps m ops) k mem (-1) n none := by
  obtain ⟨ops, ex, hops, _, eff, hmc, hic⟩ := delItem_spec E hb (mem := mem) hk
  rw [delItemOps_congr E hag] at hops
  refine ⟨ops, ex, hops, ?_⟩
  refine ⟨bij_of_delEff E hb hk (applyOps_sorted hb.sorted ops) eff, eff.memv, eff.frame, ?_, ?_⟩
  · intro k' hk'
    have := hmc k' hk'
    by_cases h1 : k = k' <;> simp [h1] at this ⊢ <;> omega
  · intro k' hk'
    have := hic k' hk'
    by_cases h1 : k = k' <;> simp [h1] at this ⊢ <;> omega

theorem zadd_eq (m : List KV) (ts : Int) (k : Bytes) (pairs : List (Nat × Bytes)) :
    zadd E.toEncFns m ts k pairs =
      if pairs.isEmpty then .ok ([], 0)
      else if (pairs.length : Int) > maxBatch then .error "batchsize"
      else
        match collect (addItem E m k) (dedupPairs pairs) with
        | .error e => .error e
        | .ok (ops, num) =>
          match incrSizeOps E.toEncFns (get m (E.metaK k)) ts k num with
          | .error e => .error e
          | .ok (sops, _) => .ok (ops ++ sops, (num : Int)) := rfl

/-- **ZADD preserves the invariant** (several pairs, repeated members, new and existing members, unchanged scores) -/
theorem inv_zadd {m : List KV} (inv : Inv E m) {k : Bytes} (hk : E.ok k) (ts : Int) (pairs : List (Nat × Bytes))
    (hgood : ∀ p ∈ pairs, E.good p.1)
    (hlen : (commit m (zadd E.toEncFns m ts k pairs)).1.length < E.sizeBound) :
    Inv E (commit m (zadd E.toEncFns m ts k pairs)).1 := by
  rw [zadd_eq] at hlen ⊢
  by_cases h1 : pairs.isEmpty = true
  · simp only [h1, ↓reduceIte]; exact inv
  · by_cases h2 : (pairs.length : Int) > maxBatch
    · simp only [h1, h2, ↓reduceIte, Bool.false_eq_true]; exact inv
    · obtain ⟨ops, num, hcol, hb2, _, hfr, hmc, hic⟩ :=
        collect_spec E (addItem E m k) (·.2) (fun p => some (E.encScore (newScore E m k p))) hk 1 m (dedupPairs pairs) m
          (dedupPairs_nodup pairs) inv.bij
          (fun _ _ => rfl)
          (fun a ha m1 hb1 hag => addItem_step E hk a (hgood a (mem_dedupPairs pairs a ha)) hb1 hag)
      obtain ⟨sops, sz, hso, _, hfin⟩ := finish_size E inv hb2 hk (num : Int) ts
        (fun k' => hfr _ (fun a _ => not_own_meta E k a.2 k'))
        (fun k' hk' => by rw [hmc k' hk']; simp) (fun k' hk' => by rw [hic k' hk']; simp)
      simp only [h1, h2, ↓reduceIte, Bool.false_eq_true, hcol, hso, commit, applyOps_append] at hlen ⊢
      exact hfin hlen

theorem zrem_eq (m : List KV) (ts : Int) (k : Bytes) (mems : List Bytes) :
    zrem E.toEncFns m ts k mems =
      if mems.isEmpty then .ok ([], 0)
      else if (mems.length : Int) > maxBatch then .error "batchsize"
      else
        match collect (fun mem => delItemOps E.toEncFns m k mem) (dedupMembers mems) with
        | .error e => .error e
        | .ok (ops, num) =>
          match incrSizeOps E.toEncFns (get m (E.metaK k)) ts k (-(num : Int)) with
          | .error e => .error e
          | .ok (sops, _) => .ok (ops ++ sops, (num : Int)) := rfl

/-- **ZREM preserves the invariant** (several members, repeated and absent ones) -/
theorem inv_zrem {m : List KV} (inv : Inv E m) {k : Bytes} (hk : E.ok k) (ts : Int) (mems : List Bytes)
    (hlen : (commit m (zrem E.toEncFns m ts k mems)).1.length < E.sizeBound) :
    Inv E (commit m (zrem E.toEncFns m ts k mems)).1 := by
  rw [zrem_eq] at hlen ⊢
  by_cases h1 : mems.isEmpty = true
  · simp only [h1, ↓reduceIte]; exact inv
  · by_cases h2 : (mems.length : Int) > maxBatch
    · simp only [h1, h2, ↓reduceIte, Bool.false_eq_true]; exact inv
    · obtain ⟨ops, num, hcol, hb2, _, hfr, hmc, hic⟩ :=
        collect_spec E (fun mem => delItemOps E.toEncFns m k mem) id (fun _ => none) hk (-1) m (dedupMembers mems) m
          (by simpa using dedupMembers_nodup mems) inv.bij (fun _ _ => rfl)
          (fun a _ m1 hb1 hag => delItem_step E hk a hb1 hag)
      obtain ⟨sops, sz, hso, _, hfin⟩ := finish_size E inv hb2 hk (-(num : Int)) ts
        (fun k' => hfr _ (fun a _ => not_own_meta E k a k'))
        (fun k' hk' => by rw [hmc k' hk']; simp) (fun k' hk' => by rw [hic k' hk']; simp)
      simp only [h1, h2, ↓reduceIte, Bool.false_eq_true, hcol, hso, commit, applyOps_append] at hlen ⊢
      exact hfin hlen

/-! ### ZINCRBY -/

/-- the score ZINCRBY adds to: the stored one, 0 for a new member -/
def curScore (m : List KV) (k mem : Bytes) : Nat :=
  match get m (E.memK k mem) with
  | some v => (E.decScore v).getD 0
  | none => 0

/-- existing member: old index key deleted first, then the new index key and the member value are put -/
theorem setOld_spec {m : List KV} (hb : Bij E m) {k mem v : Bytes} {s : Nat} (hk : E.ok k) (hs : E.good s)
    (hv : get m (E.memK k mem) = some v) :
    ∃ old, E.decScore v = some old ∧
      SetEff E m (applyOps m [.del (E.scoreK k old mem), .put (E.scoreK k s mem) [], .put (E.memK k mem) (E.encScore s)]) k mem s ∧
      (∀ k', E.ok k' → cnt (applyOps m [.del (E.scoreK k old mem), .put (E.scoreK k s mem) [], .put (E.memK k mem) (E.encScore s)]) (inMemB E k') = cnt m (inMemB E k')) ∧
      (∀ k', E.ok k' → cnt (applyOps m [.del (E.scoreK k old mem), .put (E.scoreK k s mem) [], .put (E.memK k mem) (E.encScore s)]) (inIdxB E k') = cnt m (inIdxB E k')) := by
  have hsm := hb.sorted
  obtain ⟨s1, hs1, hv1, hd1, hi1⟩ := mem_value E hb hk hv
  have hne_ms : E.memK k mem ≠ E.scoreK k s mem := E.mem_ne_score _ _ _ _ _
  have hne1 : E.memK k mem ≠ E.scoreK k s1 mem := E.mem_ne_score _ _ _ _ _
  have hs1' := del_sorted hsm (E.scoreK k s1 mem)
  -- after the delete, the new index key is not stored (it is the old one, or was never there)
  have h1 : get (del m (E.scoreK k s1 mem)) (E.scoreK k s mem) = none := by
    rw [get_del m hsm]
    by_cases e : E.scoreK k s mem = E.scoreK k s1 mem
    · simp [e]
    · simp only [e, ↓reduceIte]
      cases hg : get m (E.scoreK k s mem) with
      | none => rfl
      | some w => exact absurd (score_unique E hb hk hs1 hs (by rw [hv, hv1]) (by rw [hg]; rfl)) e
  have h2 : (get (put (del m (E.scoreK k s1 mem)) (E.scoreK k s mem) []) (E.memK k mem)).isSome := by
    rw [get_put _ hs1', get_del m hsm]; simp [hne_ms, hne1, hv]
  refine ⟨s1, hd1, ⟨?_, ?_, ?_, ?_⟩, ?_, ?_⟩
  · rw [get_applyOps hsm]; simp [effOp]
  · rw [get_applyOps hsm]; simp [effOp, hne_ms.symm]
  · intro s' hs' hi
    rw [get_applyOps hsm] at hi
    simp only [List.foldl_cons, List.foldl_nil, effOp] at hi
    by_cases e1 : E.scoreK k s' mem = E.scoreK k s mem
    · exact e1
    · have e2 : E.scoreK k s' mem ≠ E.memK k mem := fun e => E.mem_ne_score _ _ _ _ _ e.symm
      simp only [e1, e2, ↓reduceIte] at hi
      by_cases e3 : E.scoreK k s' mem = E.scoreK k s1 mem
      · simp [e3] at hi
      · simp only [e3, ↓reduceIte] at hi
        exact absurd (score_unique E hb hk hs1 hs' (by rw [hv, hv1]) hi) e3
  · intro x hx
    have e1 : x ≠ E.memK k mem := fun e => hx (Or.inl e)
    have e2 : x ≠ E.scoreK k s mem := fun e => hx (Or.inr ⟨s, hs, e⟩)
    have e3 : x ≠ E.scoreK k s1 mem := fun e => hx (Or.inr ⟨s1, hs1, e⟩)
    rw [get_applyOps hsm]; simp [effOp, e1, e2, e3]
  · intro k' hk'
    show cnt (put (put (del m _) _ _) _ _) _ = _
    rw [cnt_put_old (put_sorted hs1' _ _) _ _ h2, cnt_put_new hs1' _ _ h1, inMemB_score E hk']
    have := cnt_del_old hsm (inMemB E k') hi1
    rw [inMemB_score E hk'] at this
    simp at this ⊢; exact this
  · intro k' hk'
    show cnt (put (put (del m _) _ _) _ _) _ = _
    rw [cnt_put_old (put_sorted hs1' _ _) _ _ h2, cnt_put_new hs1' _ _ h1, inIdxB_score E hk' hk hs]
    have := cnt_del_old hsm (inIdxB E k') hi1
    rw [inIdxB_score E hk' hk hs1] at this
    simp at this ⊢; omega

/-- **ZINCRBY preserves the invariant** — new member, existing member, unchanged score (delta 0) —
    PROVIDED the resulting score is not a NaN (`good`); `+Inf + -Inf` is the counterexample on the real code -/
theorem inv_zincrby_partial {m : List KV} (inv : Inv E m) {k : Bytes} (hk : E.ok k) (fadd : Nat → Nat → Nat)
    (ts : Int) (delta : Nat) (mem : Bytes) (hres : E.good (fadd (curScore E m k mem) delta))
    (hlen : (commit m (zincrby E.toEncFns fadd m ts k delta mem)).1.length < E.sizeBound) :
    Inv E (commit m (zincrby E.toEncFns fadd m ts k delta mem)).1 := by
  have hsm := inv.bij.sorted
  unfold zincrby at hlen ⊢
  cases hv : get m (E.memK k mem) with
  | none =>
    -- a new member: [size meta] ++ [index key, member value]
    have hcur : curScore E m k mem = 0 := by simp [curScore, hv]
    rw [hcur] at hres
    obtain ⟨iops, ex, se, hops, hex, _, _, eff, hmc, hic, _⟩ := setItem_spec E inv.bij (mem := mem) hk hres
    have hex0 : ex = 0 := hex.mpr hv
    have hiops : iops = [.put (E.memK k mem) (E.encScore (fadd 0 delta)), .put (E.scoreK k (fadd 0 delta) mem) []] := by
      simp [setItemOps, hv] at hops; exact hops.1.symm
    have hse : se = fadd 0 delta := by
      have h1 := eff.memv
      rw [hiops, get_applyOps hsm] at h1
      simp [effOp, E.mem_ne_score] at h1
      exact (encScore_inj E hres ‹E.good se› h1).symm
    subst hse
    have hb2 := bij_of_setEff E inv.bij hk hres (applyOps_sorted hsm iops) eff
    obtain ⟨sops, sz, hso, hshape, hfin⟩ := finish_size E inv hb2 hk 1 ts
      (fun k' => eff.frame _ (not_own_meta E k mem k'))
      (fun k' hk' => by rw [hmc k' hk']; by_cases h : k = k' <;> simp [hex0, h])
      (fun k' hk' => by rw [hic k' hk']; by_cases h : k = k' <;> simp [hex0, h])
    -- the code writes the meta first; the three keys are pairwise different, so the order is immaterial
    have hcomm : applyOps m (sops ++ [.put (E.scoreK k (fadd 0 delta) mem) [], .put (E.memK k mem) (E.encScore (fadd 0 delta))]) =
        applyOps (applyOps m iops) sops := by
      apply sorted_ext (applyOps_sorted hsm _) (applyOps_sorted (applyOps_sorted hsm _) _)
      intro x
      rw [get_applyOps hsm, get_applyOps (applyOps_sorted hsm _), get_applyOps hsm, hiops]
      have d1 : E.metaK k ≠ E.memK k mem := E.meta_ne_mem _ _ _
      have d2 : E.metaK k ≠ E.scoreK k (fadd 0 delta) mem := E.meta_ne_score _ _ _ _
      have d3 : E.memK k mem ≠ E.scoreK k (fadd 0 delta) mem := E.mem_ne_score _ _ _ _ _
      rcases hshape with rfl | ⟨v0, rfl⟩
      · simp only [List.cons_append, List.nil_append, List.foldl_cons, List.foldl_nil, effOp]
        by_cases e1 : x = E.metaK k
        · subst e1; simp [d1, d2]
        · by_cases e2 : x = E.memK k mem
          · subst e2; simp [d3, d1.symm]
          · simp [e1, e2]
      · simp only [List.cons_append, List.nil_append, List.foldl_cons, List.foldl_nil, effOp]
        by_cases e1 : x = E.metaK k
        · subst e1; simp [d1, d2]
        · by_cases e2 : x = E.memK k mem
          · subst e2; simp [d3, d1.symm]
          · simp [e1, e2]
    simp only [hv, hso, commit, hcomm] at hlen ⊢
    exact hfin hlen
  | some v =>
    obtain ⟨old, hd, eff, hmc, hic⟩ := setOld_spec E inv.bij (s := fadd (curScore E m k mem) delta) hk hres hv
    have hcur : curScore E m k mem = old := by simp [curScore, hv, hd]
    rw [hcur] at eff hmc hic hres
    simp only [hv, hd, commit] at hlen ⊢
    refine ⟨bij_of_setEff E inv.bij hk hres (applyOps_sorted hsm _) eff, hlen, ?_⟩
    intro k' hk'
    exact sizeOK_congr E (eff.frame _ (not_own_meta E k mem k')) (hmc k' hk') (hic k' hk') (inv.size k' hk')

/-! ### range removal: the loops over the score index and over the member range -/

theorem sorted_pairwise {m : List KV} (hm : Sorted m) : m.Pairwise (fun p q => p.1 < q.1) := by
  induction m with
  | nil => exact List.Pairwise.nil
  | cons a t ih => exact List.Pairwise.cons (fun p hp => hm.head_lt p hp) (ih hm.tail)

theorem limit_sublist {α : Type} (l : List α) (offset count : Int) : List.Sublist (limit l offset count) l := by
  unfold limit
  split
  · exact List.nil_sublist _
  · simp only
    split
    · exact List.drop_sublist _ _
    · exact (List.take_sublist _ _).trans (List.drop_sublist _ _)

theorem rscan_sublist (m : List KV) (lo hi : Bytes) (a b : Bool) : List.Sublist (rscan m lo hi a b) m := List.filter_sublist

theorem mem_rscan {m : List KV} {lo hi : Bytes} {a b : Bool} {p : KV} :
    p ∈ rscan m lo hi a b ↔ p ∈ m ∧ inRng lo hi a b p.1 = true := by
  simp [rscan, List.mem_filter]

/-- member decoded from an index entry / a member entry -/
def idxMem (p : KV) : Bytes := match E.decScoreK p.1 with | some (mem, _) => mem | none => []
def lexMem (p : KV) : Bytes := match E.decMemK p.1 with | some mem => mem | none => []

/-- result of a removing loop: bijection kept, metas untouched, both counts of `k` reduced by `num` -/
structure LoopOK (m : List KV) (k : Bytes) (ops : List Op) (num : Nat) : Prop where
  bij : Bij E (applyOps m ops)
  metas : ∀ k', get (applyOps m ops) (E.metaK k') = get m (E.metaK k')
  mc : ∀ k', E.ok k' → (cnt (applyOps m ops) (inMemB E k') : Int) = cnt m (inMemB E k') + (if k = k' then -(num : Int) else 0)
  ic : ∀ k', E.ok k' → (cnt (applyOps m ops) (inIdxB E k') : Int) = cnt m (inIdxB E k') + (if k = k' then -(num : Int) else 0)

theorem remIdx_spec {m : List KV} (hb : Bij E m) {k : Bytes} (hk : E.ok k) (ents : List KV) (hsub : List.Sublist ents m)
    (hin : ∀ p ∈ ents, inIdxB E k p.1 = true) :
    ∃ ops num, remIdxLoop E.toEncFns m k ents = .ok (ops, num) ∧ LoopOK E m k ops num := by
  have hsm := hb.sorted
  -- every entry is an index key of k of a stored member
  have hent : ∀ p ∈ ents, ∃ s mem, E.good s ∧ p.1 = E.scoreK k s mem ∧ idxMem E p = mem ∧
      (get m p.1).isSome := by
    intro p hp
    have hpm : p ∈ m := hsub.mem hp
    have hg : get m p.1 = some p.2 := get_of_mem hsm hpm
    have hsome : (get m p.1).isSome := by rw [hg]; rfl
    obtain ⟨s, mem, hs, he⟩ := known_in_idx E hk (hb.known _ hsome) (hin p hp)
    obtain ⟨s', hd, _, _⟩ := E.dec_score k s mem hk hs
    exact ⟨s, mem, hs, he, by simp [idxMem, he, hd], hsome⟩
  have hnd : (ents.map (idxMem E)).Nodup := by
    rw [List.nodup_iff_pairwise_ne, List.pairwise_map]
    apply ((sorted_pairwise hsm).sublist hsub).imp_of_mem
    intro p q hp hq hlt heq
    obtain ⟨s, mem, hs, he, hm1, hi1⟩ := hent p hp
    obtain ⟨s2, mem2, hs2, he2, hm2, hi2⟩ := hent q hq
    rw [hm1, hm2] at heq
    subst heq
    rw [he] at hi1
    rw [he2] at hi2
    obtain ⟨s1, hs1, hv1, hk1⟩ := hb.idx k s mem hk hs hi1
    have := score_unique E hb hk hs1 hs2 hv1 hi2
    rw [he, he2, this, hk1] at hlt
    exact List.lt_irrefl _ hlt
  obtain ⟨ops, num, hcol, hb2, _, hfr, hmc, hic⟩ :=
    collect_spec E (fun (p : KV) => match E.decScoreK p.1 with
                                   | none => .ok ([], 0)
                                   | some (mem, _) => delItemOps E.toEncFns m k mem)
      (idxMem E) (fun _ => none) hk (-1) m ents m hnd hb (fun _ _ => rfl)
      (fun p hp m1 hb1 hag => by
        obtain ⟨s, mem, hs, he, hm1, _⟩ := hent p hp
        obtain ⟨s', hd, _, _⟩ := E.dec_score k s mem hk hs
        rw [hm1] at hag ⊢
        simp only [he, hd]
        exact delItem_step E hk mem hb1 hag)
  refine ⟨ops, num, hcol, hb2, fun k' => hfr _ (fun a _ => not_own_meta E k _ k'), ?_, ?_⟩
  · intro k' hk'; rw [hmc k' hk']; simp
  · intro k' hk'; rw [hic k' hk']; simp

theorem remLex_spec {m : List KV} (hb : Bij E m) {k : Bytes} (hk : E.ok k) (ents : List KV) (hsub : List.Sublist ents m)
    (hin : ∀ p ∈ ents, inMemB E k p.1 = true) :
    ∃ ops num, remLexLoop E.toEncFns m k ents = .ok (ops, num) ∧ LoopOK E m k ops num := by
  have hsm := hb.sorted
  have hent : ∀ p ∈ ents, ∃ mem, p.1 = E.memK k mem ∧ lexMem E p = mem := by
    intro p hp
    obtain ⟨mem, he⟩ := (inMemB_iff E hk).mp (hin p hp)
    exact ⟨mem, he, by simp [lexMem, he, E.dec_mem k mem hk]⟩
  have hnd : (ents.map (lexMem E)).Nodup := by
    rw [List.nodup_iff_pairwise_ne, List.pairwise_map]
    apply ((sorted_pairwise hsm).sublist hsub).imp_of_mem
    intro p q hp hq hlt heq
    obtain ⟨mem, he, hm1⟩ := hent p hp
    obtain ⟨mem2, he2, hm2⟩ := hent q hq
    rw [hm1, hm2] at heq
    subst heq
    rw [he, he2] at hlt
    exact List.lt_irrefl _ hlt
  obtain ⟨ops, num, hcol, hb2, _, hfr, hmc, hic⟩ :=
    collect_spec E (fun (p : KV) => match E.decMemK p.1 with
                                   | none => .ok ([], 0)
                                   | some mem => delItemOps E.toEncFns m k mem)
      (lexMem E) (fun _ => none) hk (-1) m ents m hnd hb (fun _ _ => rfl)
      (fun p hp m1 hb1 hag => by
        obtain ⟨mem, he, hm1⟩ := hent p hp
        rw [hm1] at hag ⊢
        simp only [he, E.dec_mem k mem hk]
        exact delItem_step E hk mem hb1 hag)
  refine ⟨ops, num, hcol, hb2, fun k' => hfr _ (fun a _ => not_own_meta E k _ k'), ?_, ?_⟩
  · intro k' hk'; rw [hmc k' hk']; simp
  · intro k' hk'; rw [hic k' hk']; simp

/-- "the command keeps the invariant" for a command result -/
def Pres {α : Type} (m : List KV) (r : Except String (List Op × α)) : Prop :=
  (commit m r).1.length < E.sizeBound → Inv E (commit m r).1

theorem pres_error {α : Type} {m : List KV} (inv : Inv E m) (e : String) : Pres E m (.error e : Except String (List Op × α)) :=
  fun _ => inv

theorem pres_nil {α : Type} {m : List KV} (inv : Inv E m) (a : α) : Pres E m (.ok ([], a)) := fun _ => inv

/-- a removing loop followed by `zIncrSize(-num)` -/
theorem pres_loop {m : List KV} (inv : Inv E m) {k : Bytes} (hk : E.ok k) (ts : Int) {ops : List Op} {num : Nat}
    (h : LoopOK E m k ops num) :
    Pres E m (match incrSizeOps E.toEncFns (get m (E.metaK k)) ts k (-(num : Int)) with
              | .error e => .error e
              | .ok (sops, _) => .ok (ops ++ sops, (num : Int))) := by
  obtain ⟨sops, sz, hso, _, hfin⟩ := finish_size E inv h.bij hk (-(num : Int)) ts h.metas h.mc h.ic
  intro hlen
  simp only [hso, commit, applyOps_append] at hlen ⊢
  exact hfin hlen

theorem pres_remRangeIter {m : List KV} (inv : Inv E m) {k : Bytes} (hk : E.ok k) (ts : Int) (lo hi : Bytes)
    (offset count : Int) (hsub : ∀ x, inRng lo hi false false x = true → inIdxB E k x = true) :
    Pres E m (remRangeIter E.toEncFns m ts k lo hi offset count) := by
  unfold remRangeIter
  split
  · exact pres_error E inv _
  · obtain ⟨ops, num, hloop, hok⟩ := remIdx_spec E inv.bij hk (limit (rscan m lo hi false false) offset count)
      ((limit_sublist _ _ _).trans (rscan_sublist _ _ _ _ _))
      (fun p hp => hsub _ (mem_rscan.mp ((limit_sublist _ _ _).mem hp)).2)
    rw [hloop]
    exact pres_loop E inv hk ts hok

/-! ### `zRemAll` by range deletion (more than `RangeDeleteNum` members) -/

theorem cnt_of_get_removed {m m' : List KV} (hm : Sorted m) (hm' : Sorted m') (R : Bytes → Bool)
    (hget : ∀ x, get m' x = if R x then none else get m x) (P : Bytes → Bool)
    (hP : ∀ p ∈ m, R p.1 = true → P p.1 = false) : cnt m' P = cnt m P := by
  have e : m' = m.filter (fun p => !R p.1) := by
    apply sorted_ext hm' (filter_sorted hm _)
    intro x
    rw [hget, get_filter m (fun x => !R x)]
    cases R x <;> simp
  subst e
  unfold cnt
  rw [List.filter_filter]
  congr 1
  apply List.filter_congr
  intro p hp
  cases hr : R p.1
  · simp
  · simp [hP p hp hr]

theorem length_del_le (m : List KV) (a : Bytes) : (del m a).length ≤ m.length := by
  induction m with
  | nil => simp [del]
  | cons b t ih =>
    unfold del
    split
    · simp
    · simp only [List.length_cons]; omega

/-- the three deletions of `zRemAll`'s range-delete branch remove exactly the keys of `k` -/
theorem inv_delAll {m : List KV} (inv : Inv E m) {k : Bytes} (hk : E.ok k) :
    Inv E (applyOps m [.delRange (E.idxStart k) (E.idxStop k), .delRange (E.memK k []) (E.memStop k), .del (E.metaK k)]) := by
  have hb := inv.bij
  have hsm := hb.sorted
  let R : Bytes → Bool := fun x =>
    (decide (x = E.metaK k) || (decide (E.memK k [] ≤ x) && decide (x < E.memStop k))) ||
      (decide (E.idxStart k ≤ x) && decide (x < E.idxStop k))
  let m3 := applyOps m [.delRange (E.idxStart k) (E.idxStop k), .delRange (E.memK k []) (E.memStop k), .del (E.metaK k)]
  have hs3 : Sorted m3 := applyOps_sorted hsm _
  have hget : ∀ x, get m3 x = if R x then none else get m x := by
    intro x
    show get (applyOps m _) x = _
    rw [get_applyOps hsm]
    simp only [List.foldl_cons, List.foldl_nil, effOp, R]
    by_cases e1 : x = E.metaK k
    · simp [e1]
    · by_cases e2 : (decide (E.memK k [] ≤ x) && decide (x < E.memStop k)) = true
      · simp [e1, e2]
      · by_cases e3 : (decide (E.idxStart k ≤ x) && decide (x < E.idxStop k)) = true
        · simp [e1, e2, e3]
        · simp [e1, e2, e3]
  -- which of the keys that may be stored are removed
  have rMeta : ∀ k', E.ok k' → (R (E.metaK k') = true ↔ k' = k) := by
    intro k' hk'
    have a1 : inMemB E k (E.metaK k') = false := inMemB_meta E hk
    have a2 : ¬ (E.idxStart k ≤ E.metaK k' ∧ E.metaK k' ≤ E.idxStop k) := E.idx_not_meta k k'
    simp only [inMemB, inRng, Bool.false_eq_true, ↓reduceIte] at a1
    have a3 : (decide (E.idxStart k ≤ E.metaK k') && decide (E.metaK k' < E.idxStop k)) = false := by
      apply Bool.eq_false_iff.mpr
      intro h
      simp only [Bool.and_eq_true, decide_eq_true_eq] at h
      exact a2 ⟨h.1, List.le_of_lt h.2⟩
    simp only [R, a1, a3, Bool.or_false, decide_eq_true_eq]
    exact ⟨fun e => E.meta_inj _ _ hk' hk e, fun e => by rw [e]⟩
  have rMem : ∀ k' mem, E.ok k' → (R (E.memK k' mem) = true ↔ k' = k) := by
    intro k' mem hk'
    have a1 : inMemB E k (E.memK k' mem) = decide (k' = k) := inMemB_mem E hk hk'
    have a2 : ¬ (E.idxStart k ≤ E.memK k' mem ∧ E.memK k' mem ≤ E.idxStop k) := E.idx_not_mem k k' mem
    simp only [inMemB, inRng, Bool.false_eq_true, ↓reduceIte] at a1
    have a3 : (decide (E.idxStart k ≤ E.memK k' mem) && decide (E.memK k' mem < E.idxStop k)) = false := by
      apply Bool.eq_false_iff.mpr
      intro h
      simp only [Bool.and_eq_true, decide_eq_true_eq] at h
      exact a2 ⟨h.1, List.le_of_lt h.2⟩
    have a4 : decide (E.memK k' mem = E.metaK k) = false := by
      simp only [decide_eq_false_iff_not]; exact (E.meta_ne_mem k k' mem).symm
    simp only [R, a1, a3, a4, Bool.or_false, Bool.false_or, decide_eq_true_eq]
  have rScore : ∀ k' s mem, E.ok k' → E.good s → (R (E.scoreK k' s mem) = true ↔ k' = k) := by
    intro k' s mem hk' hs
    have a1 : inMemB E k (E.scoreK k' s mem) = false := inMemB_score E hk
    simp only [inMemB, inRng, Bool.false_eq_true, ↓reduceIte] at a1
    have a4 : decide (E.scoreK k' s mem = E.metaK k) = false := by
      simp only [decide_eq_false_iff_not]; exact (E.meta_ne_score k k' s mem).symm
    simp only [R, a1, a4, Bool.or_false, Bool.false_or, Bool.and_eq_true, decide_eq_true_eq]
    constructor
    · intro h
      apply Classical.byContradiction
      intro hne
      exact E.idx_other k k' s mem hk hk' hs hne ⟨h.1, List.le_of_lt h.2⟩
    · intro e; subst e
      exact ⟨List.le_of_lt (E.idx_self k' s mem hk hs).1, (E.idx_self k' s mem hk hs).2⟩
  have hb3 : Bij E m3 := by
    refine ⟨hs3, ?_, ?_, ?_⟩
    · intro x hx
      rw [hget] at hx
      by_cases hr : R x = true
      · simp [hr] at hx
      · simp only [hr, Bool.false_eq_true, ↓reduceIte] at hx; exact hb.known x hx
    · intro k' mem v hk' hv
      rw [hget] at hv
      by_cases hr : R (E.memK k' mem) = true
      · simp [hr] at hv
      · simp only [hr, Bool.false_eq_true, ↓reduceIte] at hv
        have hne : k' ≠ k := fun e => hr ((rMem k' mem hk').mpr e)
        obtain ⟨s1, hs1, hv1, hi1⟩ := hb.memv k' mem v hk' hv
        refine ⟨s1, hs1, hv1, ?_⟩
        rw [hget]
        have : ¬ R (E.scoreK k' s1 mem) = true := fun h => hne ((rScore k' s1 mem hk' hs1).mp h)
        simp only [this, Bool.false_eq_true, ↓reduceIte]; exact hi1
    · intro k' s mem hk' hs hi
      rw [hget] at hi
      by_cases hr : R (E.scoreK k' s mem) = true
      · simp [hr] at hi
      · simp only [hr, Bool.false_eq_true, ↓reduceIte] at hi
        have hne : k' ≠ k := fun e => hr ((rScore k' s mem hk' hs).mpr e)
        obtain ⟨s1, hs1, hv1, hk1⟩ := hb.idx k' s mem hk' hs hi
        refine ⟨s1, hs1, ?_, hk1⟩
        rw [hget]
        have : ¬ R (E.memK k' mem) = true := fun h => hne ((rMem k' mem hk').mp h)
        simp only [this, Bool.false_eq_true, ↓reduceIte]; exact hv1
  have hlen3 : m3.length ≤ m.length := by
    show (del (delRange (delRange m _ _) _ _) _).length ≤ _
    have a1 := length_del_le (delRange (delRange m (E.idxStart k) (E.idxStop k)) (E.memK k []) (E.memStop k)) (E.metaK k)
    have a2 : (delRange (delRange m (E.idxStart k) (E.idxStop k)) (E.memK k []) (E.memStop k)).length ≤
        (delRange m (E.idxStart k) (E.idxStop k)).length := List.length_filter_le _ _
    have a3 : (delRange m (E.idxStart k) (E.idxStop k)).length ≤ m.length := List.length_filter_le _ _
    omega
  refine ⟨hb3, by have := inv.small; show m3.length < _; omega, ?_⟩
  intro k' hk'
  by_cases hkk : k' = k
  · subst hkk
    unfold SizeOK
    have h0 : get m3 (E.metaK k') = none := by
      rw [hget]; simp [(rMeta k' hk').mpr rfl]
    rw [h0]
    constructor
    · -- no member key of k is left
      unfold cnt
      apply List.length_eq_zero_iff.mpr
      apply List.filter_eq_nil_iff.mpr
      intro p hp hin
      obtain ⟨mem, he⟩ := (inMemB_iff E hk').mp hin
      have hg := get_of_mem hs3 hp
      rw [hget, he] at hg
      simp [(rMem k' mem hk').mpr rfl] at hg
    · unfold cnt
      apply List.length_eq_zero_iff.mpr
      apply List.filter_eq_nil_iff.mpr
      intro p hp hin
      have hg := get_of_mem hs3 hp
      have hkn : Known E p.1 := hb3.known _ (by rw [hg]; rfl)
      obtain ⟨s, mem, hs, he⟩ := known_in_idx E hk' hkn hin
      rw [hget, he] at hg
      simp [(rScore k' s mem hk' hs).mpr rfl] at hg
  · -- other keys: their meta and their keys are not touched
    have hmeta : get m3 (E.metaK k') = get m (E.metaK k') := by
      rw [hget]
      have : ¬ R (E.metaK k') = true := fun h => hkk ((rMeta k' hk').mp h)
      simp [this]
    have hcnt : ∀ (P : Bytes → Bool), (∀ p ∈ m, R p.1 = true → P p.1 = false) → cnt m3 P = cnt m P :=
      fun P hP => cnt_of_get_removed hsm hs3 R hget P hP
    -- a stored removed key is a key of k
    have hrem : ∀ p ∈ m, R p.1 = true →
        p.1 = E.metaK k ∨ (∃ mem, p.1 = E.memK k mem) ∨ (∃ s mem, E.good s ∧ p.1 = E.scoreK k s mem) := by
      intro p hp hr
      have hg := get_of_mem hsm hp
      have hkn : Known E p.1 := hb.known _ (by rw [hg]; rfl)
      rcases hkn with ⟨k2, hk2, e⟩ | ⟨k2, mem, hk2, e⟩ | ⟨k2, s, mem, hk2, hs, e⟩ | hf
      · rw [e] at hr; left; rw [e, (rMeta k2 hk2).mp hr]
      · rw [e] at hr; right; left; exact ⟨mem, by rw [e, (rMem k2 mem hk2).mp hr]⟩
      · rw [e] at hr; right; right; exact ⟨s, mem, hs, by rw [e, (rScore k2 s mem hk2 hs).mp hr]⟩
      · exfalso
        simp only [R, Bool.or_eq_true, Bool.and_eq_true, decide_eq_true_eq] at hr
        rcases hr with (h | h) | h
        · exact E.foreign_ne_meta _ _ hf h
        · obtain ⟨mem, e⟩ := (E.mem_range k p.1 hk).mp h
          exact E.foreign_ne_mem _ _ _ hf e
        · exact E.idx_not_foreign k p.1 hf ⟨h.1, List.le_of_lt h.2⟩
    apply sizeOK_congr E hmeta _ _ (inv.size k' hk')
    · apply hcnt
      intro p hp hr
      rcases hrem p hp hr with e | ⟨mem, e⟩ | ⟨s, mem, _, e⟩
      · rw [e]; exact inMemB_meta E hk'
      · rw [e, inMemB_mem E hk' hk]; simp [Ne.symm hkk]
      · rw [e]; exact inMemB_score E hk'
    · apply hcnt
      intro p hp hr
      rcases hrem p hp hr with e | ⟨mem, e⟩ | ⟨s, mem, hs, e⟩
      · rw [e]; exact inIdxB_meta E
      · rw [e]; exact inIdxB_mem E
      · rw [e, inIdxB_score E hk' hk hs]; simp [Ne.symm hkk]

/-! ### ZREMRANGEBYRANK / ZREMRANGEBYSCORE / ZREMRANGEBYLEX / ZCLEAR -/

theorem pres_remAll {m : List KV} (inv : Inv E m) {k : Bytes} (hk : E.ok k) (ts : Int) :
    Pres E m (remAll E.toEncFns m ts k) := by
  unfold remAll
  split
  · exact pres_error E inv _
  · split
    · exact pres_nil E inv _
    · split
      · exact pres_nil E inv _
      · split
        · exact fun _ => inv_delAll E inv hk
        · exact pres_remRangeIter E inv hk ts _ _ _ _ (fun x h => h)

theorem pres_remRangeBytes {m : List KV} (inv : Inv E m) {k : Bytes} (hk : E.ok k) (ts : Int) (lo hi : Bytes)
    (offset count : Int) (hsub : ∀ x, inRng lo hi false false x = true → inIdxB E k x = true) :
    Pres E m (remRangeBytes E.toEncFns m ts k lo hi offset count) := by
  unfold remRangeBytes
  split
  · exact pres_error E inv _
  · split
    · exact pres_nil E inv _
    · split
      · exact pres_remAll E inv hk ts
      · exact pres_remRangeIter E inv hk ts lo hi offset count hsub

/-- **ZREMRANGEBYRANK preserves the invariant** (any start / stop, incl. negative, inverted, out of range) -/
theorem inv_zremrangebyrank {m : List KV} (inv : Inv E m) {k : Bytes} (hk : E.ok k) (ts : Int) (start stop : Int) :
    Pres E m (zremrangebyrank E.toEncFns m ts k start stop) := by
  unfold zremrangebyrank
  split
  · exact pres_error E inv _
  · exact pres_remRangeBytes E inv hk ts _ _ _ _ (fun x h => h)

theorem score_range_sub {k : Bytes} (hk : E.ok k) {a b : Nat} (ha : E.good a) (hb : E.good b) :
    ∀ x, inRng (E.scoreLo k a) (E.scoreHi k b) false false x = true → inIdxB E k x = true := by
  intro x h
  simp only [inRng, Bool.false_eq_true, ↓reduceIte, Bool.and_eq_true, decide_eq_true_eq] at h
  exact (inIdxB_eq E k x).mpr ⟨List.le_trans (E.score_lo_ge k a hk ha) h.1, List.le_trans h.2 (E.score_hi_le k b hk hb)⟩

/-- **ZREMRANGEBYSCORE preserves the invariant** (any non-NaN bounds, incl. inverted ranges) -/
theorem inv_zremrangebyscore {m : List KV} (inv : Inv E m) {k : Bytes} (hk : E.ok k) (ts : Int) {min max : Nat}
    (hmin : E.good min) (hmax : E.good max) :
    Pres E m (zremrangebyscore E.toEncFns m ts k min max) :=
  pres_remRangeBytes E inv hk ts _ _ _ _ (score_range_sub E hk hmin hmax)

theorem memK_lt_stop {k : Bytes} (hk : E.ok k) (b : Bytes) : E.memK k [] ≤ E.memK k b ∧ E.memK k b < E.memStop k :=
  (E.mem_range k _ hk).mpr ⟨b, rfl⟩

/-- a stored key inside a lex range of `k` is a member key of `k` -/
theorem lex_range_sub {m : List KV} (hb : Bij E m) {k : Bytes} (hk : E.ok k) (min max : Option Bytes) (lopen ropen : Bool) :
    ∀ p ∈ rscan m (lexLo E.toEncFns k min) (lexHi E.toEncFns k max) lopen ropen, inMemB E k p.1 = true := by
  intro p hp
  obtain ⟨hpm, hr⟩ := mem_rscan.mp hp
  have hg := get_of_mem hb.sorted hpm
  have hkn : Known E p.1 := hb.known _ (by rw [hg]; rfl)
  simp only [inRng, Bool.and_eq_true] at hr
  obtain ⟨hl, hh⟩ := hr
  have hlo : E.memK k [] ≤ p.1 := by
    have h0 : E.memK k [] ≤ lexLo E.toEncFns k min := by
      cases min with
      | none => exact List.le_refl _
      | some b => exact (memK_lt_stop E hk b).1
    cases lopen
    · simp only [Bool.false_eq_true, ↓reduceIte, decide_eq_true_eq] at hl; exact List.le_trans h0 hl
    · simp only [↓reduceIte, decide_eq_true_eq] at hl; exact List.le_trans h0 (List.le_of_lt hl)
  have hhi : p.1 < E.memStop k := by
    cases max with
    | none =>
      simp only [lexHi] at hh
      cases ropen
      · simp only [Bool.false_eq_true, ↓reduceIte] at hh
        rcases List.le_iff_lt_or_eq.mp (of_decide_eq_true hh) with h | h
        · exact h
        · exact absurd (h ▸ hkn) (E.memStop_unknown k hk)
      · simp only [↓reduceIte] at hh; exact of_decide_eq_true hh
    | some b =>
      simp only [lexHi] at hh
      have h1 := (memK_lt_stop E hk b).2
      cases ropen
      · simp only [Bool.false_eq_true, ↓reduceIte] at hh; exact List.lt_of_le_of_lt (of_decide_eq_true hh) h1
      · simp only [↓reduceIte] at hh; exact List.lt_trans (of_decide_eq_true hh) h1
  simp only [inMemB, inRng, Bool.false_eq_true, ↓reduceIte, Bool.and_eq_true, decide_eq_true_eq]
  exact ⟨hlo, hhi⟩

/-- **ZREMRANGEBYLEX preserves the invariant** (`-`, `+`, `[x`, `(x`, inverted ranges) -/
theorem inv_zremrangebylex {m : List KV} (inv : Inv E m) {k : Bytes} (hk : E.ok k) (ts : Int)
    (min max : Option Bytes) (lopen ropen : Bool) :
    Pres E m (zremrangebylex E.toEncFns m ts k min max lopen ropen) := by
  unfold zremrangebylex
  split
  · exact pres_remAll E inv hk ts
  · obtain ⟨ops, num, hloop, hok⟩ := remLex_spec E inv.bij hk
      (rscan m (lexLo E.toEncFns k min) (lexHi E.toEncFns k max) lopen ropen)
      (rscan_sublist _ _ _ _ _) (lex_range_sub E inv.bij hk min max lopen ropen)
    rw [hloop]
    exact pres_loop E inv hk ts hok

/-- **ZCLEAR preserves the invariant** -/
theorem inv_zclear {m : List KV} (inv : Inv E m) {k : Bytes} (hk : E.ok k) (ts : Int) :
    Pres E m (zclear E.toEncFns m ts k) := by
  have h := pres_remAll E inv hk ts
  unfold zclear
  unfold Pres at h ⊢
  cases hr : remAll E.toEncFns m ts k with
  | error e => exact fun _ => inv
  | ok r =>
    obtain ⟨ops, n⟩ := r
    rw [hr] at h
    exact h

theorem inv_empty : Inv E [] ↔ 0 < E.sizeBound := by
  constructor
  · intro h; exact h.small
  · intro h
    refine ⟨⟨trivial, fun x hx => by simp [Z.Ref.get] at hx, fun k mem v _ hv => by simp [Z.Ref.get] at hv,
      fun k s mem _ _ hi => by simp [Z.Ref.get] at hi⟩, h, ?_⟩
    intro k _
    simp [SizeOK, Z.Ref.get, cnt]

end Z.ZSetInv
