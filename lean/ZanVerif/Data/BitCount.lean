/-
  BITCOUNT of the bitmap model: `Z.BitExec.bitcountSpec` (point lookups) is the enumeration of GETBIT over the byte
  range — in EVERY store, no invariant needed (`bitcountSpec_eq_enum`).
  Pieces: GETBIT of a live bitmap reads bit `7 - o % 8` of the byte `byteAt (o / 8)`; a byte range splits into its
  `bitmapSegBytes`-blocks; the cut of a stored segment counts exactly the block's bytes.
-/
import ZanVerif.Data.BitLemmas

namespace Z.BitExec
open Z.Ref (get)
open Z.Codec Z.Header

/-! ### sums over index ranges -/

theorem sumOver_zero (f : Nat → Nat) (a : Nat) : sumOver f a 0 = 0 := rfl

theorem sumOver_succ (f : Nat → Nat) (a n : Nat) : sumOver f a (n + 1) = sumOver f a n + f (a + n) := by
  unfold sumOver
  rw [← List.range'_append (s := a) (m := n) (n := 1) (step := 1)]
  simp [List.sum_append]

theorem sumOver_congr (f g : Nat → Nat) (a n : Nat) (h : ∀ j, a ≤ j → j < a + n → f j = g j) : sumOver f a n = sumOver g a n := by
  induction n with
  | zero => rfl
  | succ n ih => rw [sumOver_succ, sumOver_succ, ih (fun j h1 h2 => h j h1 (by omega)), h (a + n) (by omega) (by omega)]

theorem sumOver_one (f : Nat → Nat) (a : Nat) : sumOver f a 1 = f a := by
  rw [sumOver_succ, sumOver_zero]; simp

/-- one index gets `c` more -/
theorem sumOver_bump (f g : Nat → Nat) (a n j0 c : Nat) (h0 : a ≤ j0) (h1 : j0 < a + n) (hj : g j0 = f j0 + c)
    (ho : ∀ j, a ≤ j → j < a + n → j ≠ j0 → g j = f j) : sumOver g a n = sumOver f a n + c := by
  induction n with
  | zero => omega
  | succ n ih =>
    rw [sumOver_succ, sumOver_succ]
    by_cases hl : j0 = a + n
    · subst hl
      rw [sumOver_congr g f a n (fun j h1 h2 => ho j h1 (by omega) (by omega)), hj]; omega
    · rw [ih (by omega) (fun j h1 h2 h3 => ho j h1 (by omega) h3), ho (a + n) (by omega) (by omega) (fun e => hl e.symm)]; omega

theorem byteSum_shift (F : Nat → UInt8) (c a n : Nat) : byteSum (fun b => F (c + b)) a n = byteSum F (c + a) n := by
  induction n with
  | zero => rfl
  | succ n ih => rw [byteSum_succ, byteSum_succ, ih, Nat.add_assoc]

/-- a byte range `[s, e]` is the concatenation of its cuts with the 1024-byte blocks `s/1024 … e/1024` -/
theorem byteSum_blocks (F : Nat → UInt8) (s : Nat) : ∀ (d : Nat),
    byteSum F s (d + 1) =
      sumOver (fun j => byteSum F (max s (1024 * j)) (min (s + d) (1024 * j + 1023) + 1 - max s (1024 * j))) (s / 1024) ((s + d) / 1024 + 1 - s / 1024)
  | 0 => by
    rw [show (s + 0) / 1024 + 1 - s / 1024 = 1 by omega, sumOver_one]
    rw [show max s (1024 * (s / 1024)) = s by omega, show min (s + 0) (1024 * (s / 1024) + 1023) + 1 - s = 1 by omega]
  | d + 1 => by
    rw [byteSum_succ, byteSum_blocks F s d]
    by_cases hb : (s + (d + 1)) % 1024 = 0
    · -- a new block starts at byte s + d + 1
      rw [show (s + (d + 1)) / 1024 + 1 - s / 1024 = ((s + d) / 1024 + 1 - s / 1024) + 1 by omega, sumOver_succ]
      congr 1
      · apply sumOver_congr
        intro j h1 h2
        rw [show min (s + d) (1024 * j + 1023) = min (s + (d + 1)) (1024 * j + 1023) by omega]
      · rw [show s / 1024 + ((s + d) / 1024 + 1 - s / 1024) = (s + (d + 1)) / 1024 by omega]
        rw [show max s (1024 * ((s + (d + 1)) / 1024)) = s + (d + 1) by omega,
          show min (s + (d + 1)) (1024 * ((s + (d + 1)) / 1024) + 1023) + 1 - (s + (d + 1)) = 1 by omega]
        rw [byteSum_succ, byteSum_zero]; simp [Nat.add_assoc]
    · -- the last block grows by one byte
      have hq : (s + (d + 1)) / 1024 = (s + d) / 1024 := by omega
      rw [hq]
      have hmono : s / 1024 ≤ (s + d) / 1024 := Nat.div_le_div_right (by omega)
      symm
      apply sumOver_bump _ _ _ _ ((s + d) / 1024) (popcount8 (F (s + (d + 1))))
      · exact Nat.div_le_div_right (by omega)
      · omega
      · show byteSum F _ _ = byteSum F _ _ + _
        rw [show min (s + (d + 1)) (1024 * ((s + d) / 1024) + 1023) + 1 - max s (1024 * ((s + d) / 1024)) =
            (min (s + d) (1024 * ((s + d) / 1024) + 1023) + 1 - max s (1024 * ((s + d) / 1024))) + 1 by omega, byteSum_succ]
        congr 3
        omega
      · intro j _ _ hj
        show byteSum F _ _ = byteSum F _ _
        by_cases hlt : j < (s + d) / 1024
        · rw [show min (s + (d + 1)) (1024 * j + 1023) = min (s + d) (1024 * j + 1023) by omega]
        · -- blocks behind the range are empty on both sides
          rw [show min (s + (d + 1)) (1024 * j + 1023) + 1 - max s (1024 * j) = 0 by omega,
            show min (s + d) (1024 * j + 1023) + 1 - max s (1024 * j) = 0 by omega]

/-! ### the byte a live bitmap holds at a global byte index -/

/-- byte `b` of generation `vk` of `table`: segment `b / 1024`, position `b % 1024` (0 where nothing is stored) -/
def byteAt (m : List KV) (table vk : Bytes) (b : Nat) : UInt8 :=
  ((get m (segK table vk (Gen.cBitmapSegBytes * ((b / 1024 : Nat) : Int)))).getD []).getD (b % 1024) 0

theorem testBit_zero (p : Nat) : testBit 0 p = false := by
  unfold testBit
  have : (0 : UInt8).toNat = 0 := rfl
  rw [this, Nat.zero_div]
  rfl

theorem getD_of_le (v : Bytes) (i : Nat) (h : v.length ≤ i) : v.getD i 0 = 0 := by
  rw [List.getD_eq_getElem?_getD, List.getElem?_eq_none h]; rfl

theorem segBytes_val : Gen.cBitmapSegBytes = 1024 := rfl

/-- GETBIT on a live v2 bitmap, non-negative offset: bit `7 - o % 8` of byte `o / 8` -/
theorem getbit_live (pol : Pol) (m : List KV) (now : Int) (table rk : Bytes) (h : Hdr) (ex : Bool) (size : Int)
    (hm : bmeta pol m now table rk = .mk h ex size true) (o : Nat) :
    getbit pol m now table rk (o : Int) = .ok (if testBit (byteAt m table (vkey pol rk h.ver) (o / 8)) (7 - o % 8) then 1 else 0) := by
  unfold getbit byteAt
  rw [hm]
  simp only [Bool.not_true, Bool.false_eq_true, if_false]
  have hi : Gen.bitGetIndex (o : Int) = Gen.cBitmapSegBytes * ((o / 8 / 1024 : Nat) : Int) := by
    unfold Gen.bitGetIndex Gen.cBitmapSegBits Gen.cBitmapSegBytes
    rw [Int.tdiv_eq_ediv_of_nonneg (by omega)]; omega
  have hb : (Gen.bitGetByteOff (o : Int)).toNat = o / 8 % 1024 := by
    unfold Gen.bitGetByteOff Gen.cBitmapSegBytes
    rw [Int.tdiv_eq_ediv_of_nonneg (by omega)]; omega
  have hp : bitPos (o : Int) = 7 - o % 8 := by
    unfold bitPos Gen.bitBitPos; omega
  rw [hi, hb, hp]
  cases hg : get m (segK table (vkey pol rk h.ver) (Gen.cBitmapSegBytes * ((o / 8 / 1024 : Nat) : Int))) with
  | none => simp [testBit_zero]
  | some v =>
    simp only [Option.getD_some]
    by_cases hl : o / 8 % 1024 ≥ v.length
    · simp [hl, getD_of_le v _ hl, testBit_zero]
    · rw [if_neg hl]

/-- the set bit offsets of the bytes `[a, a+n)` as GETBIT shows them = the bytes' popcounts -/
theorem enum_live (pol : Pol) (m : List KV) (now : Int) (table rk : Bytes) (h : Hdr) (ex : Bool) (size : Int)
    (hm : bmeta pol m now table rk = .mk h ex size true) (a n : Nat) :
    enumCount (fun o => getbit pol m now table rk (o : Int) == .ok 1) a n = byteSum (byteAt m table (vkey pol rk h.ver)) a n := by
  apply enumCount_eq
  intro o
  rw [getbit_live pol m now table rk h ex size hm o]
  cases testBit (byteAt m table (vkey pol rk h.ver) (o / 8)) (7 - o % 8) <;> decide

/-! ### one stored segment against its block -/

/-- the cut of a stored segment counts the bytes of its block that lie in `[s, e]` -/
theorem segSpec_block (m : List KV) (table vk : Bytes) (s e j : Nat) (hs : s / 1024 ≤ j) (he : j ≤ e / 1024) (hse : s ≤ e) :
    (match get m (segK table vk (Gen.cBitmapSegBytes * (j : Int))) with
      | some v => segSpec (s : Int) (e : Int) (Gen.cBitmapSegBytes * (j : Int)) v
      | none => 0) =
    byteSum (byteAt m table vk) (max s (1024 * j)) (min e (1024 * j + 1023) + 1 - max s (1024 * j)) := by
  have hB : ∀ b, b < 1024 → byteAt m table vk (1024 * j + b) = ((get m (segK table vk (Gen.cBitmapSegBytes * (j : Int)))).getD []).getD b 0 := by
    intro b hb
    unfold byteAt
    rw [show (1024 * j + b) / 1024 = j by omega, show (1024 * j + b) % 1024 = b by omega]
  have hlo : max s (1024 * j) = 1024 * j + (max s (1024 * j) - 1024 * j) := by omega
  generalize hL : min e (1024 * j + 1023) + 1 - max s (1024 * j) = L
  generalize hl : max s (1024 * j) - 1024 * j = lo at hlo
  have hfit : lo + L ≤ 1024 := by omega
  rw [hlo, ← byteSum_shift]
  rw [byteSum_congr _ (fun b => ((get m (segK table vk (Gen.cBitmapSegBytes * (j : Int)))).getD []).getD b 0) lo L
    (fun b h1 h2 => hB b (by omega))]
  cases hg : get m (segK table vk (Gen.cBitmapSegBytes * (j : Int))) with
  | none =>
    simp only [Option.getD_none]
    rw [byteSum_eq_zero]
    intro b _ _; rfl
  | some v =>
    simp only [Option.getD_some]
    unfold segSpec
    rw [popcount_slice]
    have e1 : (max (s : Int) (Gen.cBitmapSegBytes * (j : Int)) - Gen.cBitmapSegBytes * (j : Int)).toNat = lo := by
      rw [segBytes_val]; omega
    rw [e1]
    generalize hH : (min (e : Int) (Gen.cBitmapSegBytes * (j : Int) + min (v.length : Int) Gen.cBitmapSegBytes - 1) -
      Gen.cBitmapSegBytes * (j : Int) + 1).toNat = hi
    rw [segBytes_val] at hH
    have hle : hi - lo ≤ L := by omega
    rw [show L = (hi - lo) + (L - (hi - lo)) by omega, byteSum_add]
    rw [byteSum_eq_zero (fun b => v.getD b 0) (lo + (hi - lo)) (L - (hi - lo))]
    · omega
    · intro b h1 h2
      apply getD_of_le
      omega

/-! ### C09: the prescribed BITCOUNT is the enumeration -/

/-- **BITCOUNT as prescribed = the number of offsets in the byte range whose GETBIT is 1**, for a live v2 bitmap, every
    start / end (negative, beyond the size, crossing segments, start > end), every store -/
theorem bitcountSpec_eq_enum (pol : Pol) (m : List KV) (now : Int) (table rk : Bytes) (h : Hdr) (ex : Bool) (size : Int)
    (hm : bmeta pol m now table rk = .mk h ex size true) (start stop : Int) :
    bitcountSpec pol m now table rk start stop =
      .ok (if (Gen.getRange start stop size).1 > (Gen.getRange start stop size).2 then 0
        else (enumCount (fun o => getbit pol m now table rk (o : Int) == .ok 1) (Gen.getRange start stop size).1.toNat
          ((Gen.getRange start stop size).2 - (Gen.getRange start stop size).1 + 1).toNat : Nat)) := by
  unfold bitcountSpec
  rw [hm]
  simp only [Bool.not_true, Bool.false_eq_true, if_false]
  generalize hr : Gen.getRange start stop size = r
  obtain ⟨s, e⟩ := r
  simp only
  have hs0 : 0 ≤ s := by
    have : s = (Gen.getRange start stop size).1 := by rw [hr]
    rw [this]; unfold Gen.getRange; simp only; split <;> omega
  by_cases hgt : s > e
  · rw [if_pos hgt, if_pos hgt]
  · rw [if_neg hgt, if_neg hgt]
    rw [enum_live pol m now table rk h ex size hm]
    obtain ⟨sN, rfl⟩ := Int.eq_ofNat_of_zero_le hs0
    obtain ⟨eN, rfl⟩ := Int.eq_ofNat_of_zero_le (show 0 ≤ e by omega)
    have hse : sN ≤ eN := by omega
    congr 2
    have h1 : (Gen.bitCountStartI (sN : Int)).toNat = sN / 1024 := by
      unfold Gen.bitCountStartI; rw [segBytes_val, Int.tdiv_eq_ediv_of_nonneg (by omega)]; omega
    have h2 : (Gen.bitCountStopI (eN : Int)).toNat = eN / 1024 := by
      unfold Gen.bitCountStopI; rw [segBytes_val, Int.tdiv_eq_ediv_of_nonneg (by omega)]; omega
    rw [h1, h2, Int.toNat_natCast, show ((eN : Int) - (sN : Int) + 1).toNat = (eN - sN) + 1 by omega,
      byteSum_blocks, show sN + (eN - sN) = eN by omega]
    apply sumOver_congr
    intro j hj1 hj2
    have hd : sN / 1024 ≤ eN / 1024 := Nat.div_le_div_right hse
    exact segSpec_block m table (vkey pol rk h.ver) sN eN j hj1 (by omega) hse

end Z.BitExec
