/-
  Executable storage-level model of the SORTED SET type (core only) — rockredis/t_zset.go over the sorted
  reference store `Z.Ref`, local-deletion layout (no versions in the keys, no TTL, header-less meta value):

    member key   zEncodeSetKey(table, key, member)         ↦ 8 bytes, the IEEE bit pattern of the score (PutFloat64)
    score key    zEncodeScoreKey(table, key, member, score) ↦ empty value                    (the score index)
    size meta    zEncodeSizeKey(table:key)                  ↦ size (int64 BE) ‖ log timestamp of the write

  A score is its IEEE-754 bit pattern `Nat < 2^64` everywhere in the storage model; no floating-point arithmetic
  is needed except float `==` (`feqB`, on bit patterns) and ZINCRBY's sum, which is a parameter (`fadd`) here and
  instantiated by exact half-integer arithmetic in `Z.ZSetCmd`.

  The codec is passed as plain functions (`EncFns`) so that the same functions run with the REAL key codec
  (`realFns`, built from `Z.Codec`) in the `datacorezset` correspondence, while the theorems
  (`ZSetInv`, `ZSetRef`, `Props/C09ZSet`, `Props/C08ZSet`) are stated for every codec satisfying the abstract
  facts of `Z.ZSetInv.Enc` — which `ZSetReal` proves of the real codec for in-limit keys.

  Write commands mirror the code's WRITE BATCH discipline literally: every read of a command sees the store as it
  was when the command started (`GetBytesNoLock` does not see `db.wb`), the writes are collected in order as `Op`s
  and applied at the end (`rockEng.Write(wb)`); an error return applies nothing (`defer wb.Clear()`).
-/
import ZanVerif.Engine.Ref
import ZanVerif.Data.ZCodec
import ZanVerif.Gen.CollConsts

namespace Z.ZSetExec
open Z.Ref

def two63 : Nat := 9223372036854775808

/-- `MAX_BATCH_NUM` and `RangeDeleteNum` of rockredis/const.go (regenerated) -/
def maxBatch : Int := (Gen.cMaxBatchNum : Int)
def rangeDeleteNum : Int := (Gen.cRangeDeleteNum : Int)

structure EncFns where
  /-- `zEncodeSizeKey(key)` -/
  metaK : Bytes → Bytes
  /-- `zEncodeSetKey(table, rk, member)`; `memK k []` is `zEncodeStartSetKey` -/
  memK : Bytes → Bytes → Bytes
  /-- `zEncodeStopSetKey(table, rk)` -/
  memStop : Bytes → Bytes
  /-- `zEncodeScoreKey(false, false, table, rk, member, score)` -/
  scoreK : Bytes → Nat → Bytes → Bytes
  /-- `zEncodeStartScoreKey(table, rk, score)` / `zEncodeStopScoreKey(table, rk, score)` -/
  scoreLo : Bytes → Nat → Bytes
  scoreHi : Bytes → Nat → Bytes
  /-- `zEncodeStartKey(table, rk)` / `zEncodeStopKey(table, rk)` -/
  idxStart : Bytes → Bytes
  idxStop : Bytes → Bytes
  /-- `zDecodeScoreKey` → (member, score); `none` = the decoder's error return (the loops `continue`) -/
  decScoreK : Bytes → Option (Bytes × Nat)
  /-- `zDecodeSetKey` → member -/
  decMemK : Bytes → Option Bytes
  /-- `PutFloat64` / `Float64` -/
  encScore : Nat → Bytes
  decScore : Bytes → Option Nat
  /-- `encodeZMetaData(size, ts, oldh)` / `parseZMetaSize` -/
  encSize : Nat → Int → Bytes
  sizeOf : Bytes → Option Int

variable (F : EncFns)

/-! ### float `==` on bit patterns -/

def isZeroB (u : Nat) : Bool := u == 0 || u == two63

/-- Go's `s == score` on float64: false if either is a NaN; +0.0 == -0.0 -/
def feqB (a b : Nat) : Bool :=
  !Z.Codec.isNaNBits a && !Z.Codec.isNaNBits b && (a == b || (isZeroB a && isZeroB b))

/-! ### write batch -/

inductive Op
  | put (k v : Bytes)
  | del (k : Bytes)
  | delRange (lo hi : Bytes)      -- `wb.DeleteRange(lo, hi)`: [lo, hi)
  deriving Repr, DecidableEq

def delRange (m : List KV) (lo hi : Bytes) : List KV :=
  m.filter (fun p => !(decide (lo ≤ p.1) && decide (p.1 < hi)))

def applyOp (m : List KV) : Op → List KV
  | .put k v => put m k v
  | .del k => del m k
  | .delRange lo hi => delRange m lo hi

/-- `rockEng.Write(wb)`: the buffered operations in order -/
def applyOps (m : List KV) (ops : List Op) : List KV := ops.foldl applyOp m

/-! ### range iteration (`NewDBRangeIterator` / `NewDBRangeLimitIterator`, engine/iterator.go; contract = C20) -/

def inRng (lo hi : Bytes) (lopen ropen : Bool) (x : Bytes) : Bool :=
  (if lopen then decide (lo < x) else decide (lo ≤ x)) && (if ropen then decide (x < hi) else decide (x ≤ hi))

/-- the keys of a range in key order -/
def rscan (m : List KV) (lo hi : Bytes) (lopen ropen : Bool) : List KV :=
  m.filter (fun p => inRng lo hi lopen ropen p.1)

/-- `Limit{Offset, Count}`: a negative offset yields nothing, a negative count is "no limit" -/
def limit {α : Type} (l : List α) (offset count : Int) : List α :=
  if offset < 0 then [] else
  let l := l.drop offset.toNat
  if count < 0 then l else l.take count.toNat

/-! ### size meta -/

/-- `parseZMetaSize(oldh.UserData)`; an absent meta has `UserData == nil` → 0 -/
def sizeOfMeta (mv : Option Bytes) : Except String Int :=
  match mv with
  | none => .ok 0
  | some b =>
    match F.sizeOf b with
    | some n => .ok n
    | none => .error "notint"

/-- `zIncrSize(ts, key, oldh, delta, wb)`: reads the size out of the header read at the START of the command -/
def incrSizeOps (mv : Option Bytes) (ts : Int) (k : Bytes) (delta : Int) : Except String (List Op × Int) :=
  match sizeOfMeta F mv with
  | .error e => .error e
  | .ok size =>
    let size := size + delta
    if size ≤ 0 then .ok ([.del (F.metaK k)], 0)
    else .ok ([.put (F.metaK k) (F.encSize size.toNat ts)], size)

/-! ### per-member primitives -/

/-- `zSetItem`: operations and the `exists` flag -/
def setItemOps (m : List KV) (k : Bytes) (score : Nat) (mem : Bytes) : Except String (List Op × Nat) :=
  match get m (F.memK k mem) with
  | some v =>
    match F.decScore v with
    | none => .error "notfloat"
    | some s =>
      if feqB s score then .ok ([], 1)
      else .ok ([.del (F.scoreK k s mem), .put (F.memK k mem) (F.encScore score), .put (F.scoreK k score mem) []], 1)
  | none => .ok ([.put (F.memK k mem) (F.encScore score), .put (F.scoreK k score mem) []], 0)

/-- `zDelItem`: operations and 1 if the member existed -/
def delItemOps (m : List KV) (k : Bytes) (mem : Bytes) : Except String (List Op × Nat) :=
  match get m (F.memK k mem) with
  | none => .ok ([], 0)
  | some v =>
    match F.decScore v with
    | none => .error "notfloat"
    | some s => .ok ([.del (F.scoreK k s mem), .del (F.memK k mem)], 1)

/-- a loop `for … { ops; n }` that stops at the first error: concatenated operations, summed counts -/
def collect {α : Type} (f : α → Except String (List Op × Nat)) : List α → Except String (List Op × Nat)
  | [] => .ok ([], 0)
  | a :: t =>
    match f a with
    | .error e => .error e
    | .ok (ops, n) =>
      match collect f t with
      | .error e => .error e
      | .ok (ops', n') => .ok (ops ++ ops', n + n')

/-! ### ZADD / ZREM / ZINCRBY -/

/-- `dedupScorePairs`: one pair per member, position of the first occurrence, the last score wins -/
def dedupPairs : List (Nat × Bytes) → List (Nat × Bytes)
  | [] => []
  | (s, mem) :: t =>
    let rest := dedupPairs t
    match rest.find? (fun p => p.2 == mem) with
    | some (s', _) => (s', mem) :: rest.filter (fun p => p.2 != mem)
    | none => (s, mem) :: rest

/-- `dedupMembers`: first occurrence of each member -/
def dedupMembers : List Bytes → List Bytes
  | [] => []
  | a :: t => a :: (dedupMembers t).filter (· != a)

/-- `ZAdd(ts, key, args...)`: reply = number of members that did not exist -/
def zadd (m : List KV) (ts : Int) (k : Bytes) (pairs : List (Nat × Bytes)) : Except String (List Op × Int) :=
  if pairs.isEmpty then .ok ([], 0)
  else if (pairs.length : Int) > maxBatch then .error "batchsize"
  else
    match collect (fun p => match setItemOps F m k p.1 p.2 with
                            | .error e => .error e
                            | .ok (ops, ex) => .ok (ops, if ex = 0 then 1 else 0)) (dedupPairs pairs) with
    | .error e => .error e
    | .ok (ops, num) =>
      match incrSizeOps F (get m (F.metaK k)) ts k num with
      | .error e => .error e
      | .ok (sops, _) => .ok (ops ++ sops, num)

/-- `ZRem(ts, key, members...)` -/
def zrem (m : List KV) (ts : Int) (k : Bytes) (mems : List Bytes) : Except String (List Op × Int) :=
  if mems.isEmpty then .ok ([], 0)
  else if (mems.length : Int) > maxBatch then .error "batchsize"
  else
    match collect (fun mem => delItemOps F m k mem) (dedupMembers mems) with
    | .error e => .error e
    | .ok (ops, num) =>
      match incrSizeOps F (get m (F.metaK k)) ts k (-(num : Int)) with
      | .error e => .error e
      | .ok (sops, _) => .ok (ops ++ sops, num)

/-- `ZIncrBy(ts, key, delta, member)`: reply = the new score. The old score key is deleted BEFORE the new one is
    put (same key when the score is unchanged). `fadd` = float64 addition on bit patterns. -/
def zincrby (fadd : Nat → Nat → Nat) (m : List KV) (ts : Int) (k : Bytes) (delta : Nat) (mem : Bytes) :
    Except String (List Op × Nat) :=
  match get m (F.memK k mem) with
  | none =>
    match incrSizeOps F (get m (F.metaK k)) ts k 1 with
    | .error e => .error e
    | .ok (sops, _) =>
      let score := fadd 0 delta
      .ok (sops ++ [.put (F.scoreK k score mem) [], .put (F.memK k mem) (F.encScore score)], score)
  | some v =>
    match F.decScore v with
    | none => .error "notfloat"
    | some old =>
      let score := fadd old delta
      .ok ([.del (F.scoreK k old mem), .put (F.scoreK k score mem) [], .put (F.memK k mem) (F.encScore score)], score)

/-! ### range removal -/

/-- `zParseLimit(total, start, stop)` → (offset, count); offset -1 = empty -/
def parseLimit (total start stop : Int) : Int × Int :=
  if start < 0 ∨ stop < 0 then
    let start1 := if start < 0 then total + start else start
    let stop1 := if stop < 0 then total + stop else stop
    let start2 := if start1 < 0 then 0 else start1
    if start2 ≥ total then (-1, 0)
    else if start2 > stop1 then (-1, 0)
    else (start2, stop1 - start2 + 1)
  else if start > stop then (-1, 0)
  else (start, stop - start + 1)

/-- the loop of `zRemRangeBytes` over the score index: undecodable keys are skipped -/
def remIdxLoop (m : List KV) (k : Bytes) (ents : List KV) : Except String (List Op × Nat) :=
  collect (fun (p : KV) => match F.decScoreK p.1 with
                           | none => .ok ([], 0)
                           | some (mem, _) => delItemOps F m k mem) ents

/-- `zRemRangeBytes` below the `zRemAll` shortcut: iterate [lo, hi] with the limit, delete, update the size -/
def remRangeIter (m : List KV) (ts : Int) (k : Bytes) (lo hi : Bytes) (offset count : Int) :
    Except String (List Op × Int) :=
  if count > maxBatch then .error "batchsize" else
  match remIdxLoop F m k (limit (rscan m lo hi false false) offset count) with
  | .error e => .error e
  | .ok (ops, num) =>
    match incrSizeOps F (get m (F.metaK k)) ts k (-(num : Int)) with
    | .error e => .error e
    | .ok (sops, _) => .ok (ops ++ sops, num)

/-- `zRemAll(ts, key, wb)` under the local-deletion policy -/
def remAll (m : List KV) (ts : Int) (k : Bytes) : Except String (List Op × Int) :=
  match sizeOfMeta F (get m (F.metaK k)) with
  | .error e => .error e
  | .ok num =>
    if num = 0 then .ok ([], 0)
    else if (get m (F.metaK k)).isNone then .ok ([], 0)
    else if num > rangeDeleteNum then
      .ok ([.delRange (F.idxStart k) (F.idxStop k), .delRange (F.memK k []) (F.memStop k), .del (F.metaK k)], num)
    else
      -- zRemRangeBytes(ts, key, keyInfo, 0, -1, wb): total = num ≠ 0, count = -1 < total
      remRangeIter F m ts k (F.idxStart k) (F.idxStop k) 0 (-1)

/-- `zRemRangeBytes(ts, key, keyInfo{[lo, hi]}, offset, count, wb)` -/
def remRangeBytes (m : List KV) (ts : Int) (k : Bytes) (lo hi : Bytes) (offset count : Int) :
    Except String (List Op × Int) :=
  match sizeOfMeta F (get m (F.metaK k)) with
  | .error e => .error e
  | .ok total =>
    if total = 0 then .ok ([], 0)
    else if offset = 0 ∧ count ≥ total then remAll F m ts k
    else remRangeIter F m ts k lo hi offset count

/-- `ZRemRangeByRank(ts, key, start, stop)` -/
def zremrangebyrank (m : List KV) (ts : Int) (k : Bytes) (start stop : Int) : Except String (List Op × Int) :=
  match sizeOfMeta F (get m (F.metaK k)) with
  | .error e => .error e
  | .ok num =>
    let (offset, count) := parseLimit num start stop
    remRangeBytes F m ts k (F.idxStart k) (F.idxStop k) offset count

/-- `ZRemRangeByScore(ts, key, min, max)`: bounds inclusive (bit patterns) -/
def zremrangebyscore (m : List KV) (ts : Int) (k : Bytes) (min max : Nat) : Except String (List Op × Int) :=
  remRangeBytes F m ts k (F.scoreLo k min) (F.scoreHi k max) 0 (-1)

/-- range keys of `getZSetForRangeWithMinMax`: `nil` bounds are the collection's start / stop key -/
def lexLo (k : Bytes) (min : Option Bytes) : Bytes := match min with | none => F.memK k [] | some b => F.memK k b
def lexHi (k : Bytes) (max : Option Bytes) : Bytes := match max with | none => F.memStop k | some b => F.memK k b

/-- the loop of `internalZRemRangeByLex` over the member keys: undecodable keys are skipped -/
def remLexLoop (m : List KV) (k : Bytes) (ents : List KV) : Except String (List Op × Nat) :=
  collect (fun (p : KV) => match F.decMemK p.1 with
                           | none => .ok ([], 0)
                           | some mem => delItemOps F m k mem) ents

/-- `ZRemRangeByLex(ts, key, min, max, rangeType)`; `none` = the `-` / `+` bound (`nil`) -/
def zremrangebylex (m : List KV) (ts : Int) (k : Bytes) (min max : Option Bytes) (lopen ropen : Bool) :
    Except String (List Op × Int) :=
  if min.isNone ∧ max.isNone then remAll F m ts k
  else
    match remLexLoop F m k (rscan m (lexLo F k min) (lexHi F k max) lopen ropen) with
    | .error e => .error e
    | .ok (ops, num) =>
      match incrSizeOps F (get m (F.metaK k)) ts k (-(num : Int)) with
      | .error e => .error e
      | .ok (sops, _) => .ok (ops ++ sops, num)

/-- `ZClear(ts, key)`: 1 if something was removed -/
def zclear (m : List KV) (ts : Int) (k : Bytes) : Except String (List Op × Int) :=
  match remAll F m ts k with
  | .error e => .error e
  | .ok (ops, n) => .ok (ops, if n > 0 then 1 else 0)

/-- a write command as a state transformer: the batch is applied iff the command did not fail -/
def commit {α : Type} (m : List KV) (r : Except String (List Op × α)) : List KV × Except String α :=
  match r with
  | .error e => (m, .error e)
  | .ok (ops, a) => (applyOps m ops, .ok a)

/-! ### reads -/

/-- `keyInfo.IsNotExistOrExpired()`: no meta stored -/
def absent (m : List KV) (k : Bytes) : Bool := (get m (F.metaK k)).isNone

/-- `ZCard` -/
def zcard (m : List KV) (k : Bytes) : Except String Int := sizeOfMeta F (get m (F.metaK k))

/-- `ZScore`: `none` = errScoreMiss -/
def zscore (m : List KV) (k mem : Bytes) : Except String (Option Nat) :=
  if absent F m k then .ok none else
  match get m (F.memK k mem) with
  | none => .ok none
  | some v =>
    match F.decScore v with
    | none => .error "notfloat"
    | some s => .ok (some s)

/-- `zrank(key, member, reverse)`: -1 = no rank -/
def zrank (m : List KV) (k mem : Bytes) (reverse : Bool) : Except String Int :=
  if absent F m k then .ok (-1) else
  match get m (F.memK k mem) with
  | none => .ok (-1)
  | some v =>
    match F.decScore v with
    | none => .error "notfloat"
    | some s =>
      let sk := F.scoreK k s mem
      -- forward: [start, sk] ascending; reverse: [sk, stop] descending — `lastKey` is the last one visited
      let ents := if reverse then (rscan m sk (F.idxStop k) false false).reverse
                  else rscan m (F.idxStart k) sk false false
      let lastKey : Bytes := match ents.getLast? with | some p => p.1 | none => []
      match F.decScoreK lastKey with
      | some (mem', _) => if mem' = mem then .ok ((ents.length : Int) - 1) else .ok (-1)
      | none => .ok (-1)

/-- `zRangeBytes(ts, preCheckCnt, key, minKey, maxKey, offset, count, reverse)` → (member, score as decoded) -/
def rangeBytes (m : List KV) (k : Bytes) (preCheckCnt : Bool) (lo hi : Bytes) (offset count : Int) (reverse : Bool) :
    Except String (List (Bytes × Nat)) :=
  if offset < 0 then .ok [] else
  if count > maxBatch then .error "batchsize" else
  let total : Int := match sizeOfMeta F (get m (F.metaK k)) with | .ok n => n | .error _ => 0
  if count < 0 ∧ preCheckCnt ∧ total - offset > maxBatch then .error "batchsize" else
  let ents := rscan m lo hi false false
  let sel :=
    if !reverse || (offset = 0 ∧ count < 0) then limit ents offset count
    else limit ents.reverse offset count
  let v := sel.filterMap (fun p => F.decScoreK p.1)
  if count < 0 ∧ (v.length : Int) > maxBatch then .error "batchsize" else
  if reverse && (offset = 0 ∧ count < 0) then .ok v.reverse else .ok v

/-- `ZRangeGeneric(key, start, stop, reverse)` -/
def zrange (m : List KV) (k : Bytes) (start stop : Int) (reverse : Bool) : Except String (List (Bytes × Nat)) :=
  if absent F m k then .ok [] else
  match sizeOfMeta F (get m (F.metaK k)) with
  | .error e => .error e
  | .ok num =>
    let (offset, count) := parseLimit num start stop
    rangeBytes F m k true (F.idxStart k) (F.idxStop k) offset count reverse

/-- `zRange(key, min, max, offset, count, reverse)` (ZRANGEBYSCORE family); `unbounded` = min is -Inf and max is +Inf -/
def zrangebyscore (m : List KV) (k : Bytes) (min max : Nat) (unbounded : Bool) (offset count : Int) (reverse : Bool) :
    Except String (List (Bytes × Nat)) :=
  if absent F m k then .ok [] else
  rangeBytes F m k unbounded (F.scoreLo k min) (F.scoreHi k max) offset count reverse

/-- `ZCount(key, min, max)` -/
def zcount (m : List KV) (k : Bytes) (min max : Nat) : Int :=
  if absent F m k then 0 else ((rscan m (F.scoreLo k min) (F.scoreHi k max) false false).length : Int)

/-- `ZRangeByLex(key, min, max, rangeType, offset, count)` -/
def zrangebylex (m : List KV) (k : Bytes) (min max : Option Bytes) (lopen ropen : Bool) (offset count : Int) :
    Except String (List Bytes) :=
  if count > maxBatch then .error "batchsize" else
  if absent F m k then .ok [] else
  let ay := (limit (rscan m (lexLo F k min) (lexHi F k max) lopen ropen) offset count).filterMap (fun p => F.decMemK p.1)
  if count < 0 ∧ (ay.length : Int) > maxBatch then .error "batchsize" else .ok ay

/-- `ZLexCount(key, min, max, rangeType)` -/
def zlexcount (m : List KV) (k : Bytes) (min max : Option Bytes) (lopen ropen : Bool) : Int :=
  if absent F m k then 0 else ((rscan m (lexLo F k min) (lexHi F k max) lopen ropen).length : Int)

/-- `ZKeyExists`: the meta is stored -/
def zkeyexist (m : List KV) (k : Bytes) : Int := if absent F m k then 0 else 1

/-! ### the real codec (rockredis, local-deletion layout); `k` = the redis key `table:key` after the namespace cut -/

def splitKey (k : Bytes) : Bytes × Bytes :=
  match Z.Codec.extractTable k with
  | some tk => tk
  | none => ([], k)

def realFns : EncFns where
  metaK k := Z.Codec.metaKey Gen.cZSizeType k
  memK k mem := Z.Codec.collSubKey Gen.cZSetType (splitKey k).1 (splitKey k).2 mem
  memStop k := Z.Codec.collStop Gen.cZSetType (splitKey k).1 (splitKey k).2
  scoreK k s mem := Z.Codec.zScoreK (splitKey k).1 (splitKey k).2 mem s
  scoreLo k s := Z.Codec.zScoreLo (splitKey k).1 (splitKey k).2 s
  scoreHi k s := Z.Codec.zScoreHi (splitKey k).1 (splitKey k).2 s
  idxStart k := Z.Codec.zIdxStart (splitKey k).1 (splitKey k).2
  idxStop k := Z.Codec.zIdxStop (splitKey k).1 (splitKey k).2
  decScoreK x := match Z.Codec.decZScoreKey x with | .ok (_, _, mem, s) => some (mem, s) | _ => none
  decMemK x := match Z.Codec.decZSetKey x with | .ok (_, _, mem) => some mem | _ => none
  encScore s := Z.Codec.putFloat64 s
  decScore v := Z.Codec.getFloat64 v
  encSize n ts := Z.Codec.zMetaVal n ts
  sizeOf v := Z.Codec.zMetaSize v

end Z.ZSetExec
