/-
  Refinement of the storage-level LIST model (`Z.ListExec`) to the plain redis list `key ↦ List value`:
  the abstraction `abs` reads the elements head … tail out of the store; every modelled read answers what the
  specification answers on the abstraction (this file, part 1: reads + C09 corollaries); every write commutes
  with the abstraction (part 2); the invariant holds in every reachable store.
-/
import ZanVerif.Data.ListInv

namespace Z.ListRef
open Z.Ref Z.Coll Z.ListExec Z.ListInv

/-! ### the specification: plain lists with redis index conventions -/

/-- LINDEX: negative indexes count from the end -/
def specIndex (l : List Bytes) (i : Int) : Option Bytes :=
  if i ≥ 0 then l[i.toNat]? else if (l.length : Int) + i ≥ 0 then l[((l.length : Int) + i).toNat]? else none

/-- LRANGE (and what LTRIM keeps): negative = from the end, start clamps at 0, stop at the last element -/
def specRange (l : List Bytes) (start stop : Int) : List Bytes :=
  let n : Int := l.length
  let s := normStart n start
  let e := normStop n stop
  if s > e ∨ s ≥ n then [] else (l.drop s.toNat).take ((if e ≥ n then n - 1 else e) - s + 1).toNat

/-- LSET: `none` = index out of range -/
def specSet (l : List Bytes) (i : Int) (v : Bytes) : Option (List Bytes) :=
  let idx : Int := if i ≥ 0 then i else (l.length : Int) + i
  if idx < 0 ∨ idx ≥ (l.length : Int) then none else some (l.set idx.toNat v)

/-- LPUSH a b c on [x] gives [c, b, a, x]; RPUSH appends -/
def specPush (atTail : Bool) (l args : List Bytes) : List Bytes := if atTail then l ++ args else args.reverse ++ l

/-- LPOP / RPOP: the element answered and the list left -/
def specPop (atTail : Bool) (l : List Bytes) : Option Bytes × List Bytes :=
  if atTail then (l.getLast?, l.dropLast) else (l.head?, l.tail)

variable {κ : Type} (E : Enc κ)

/-- value stored for sequence number `s` of list `k` -/
def valAt (m : List KV) (k : κ) (s : Int) : Bytes := (Ref.get m (E.elemK k s)).getD []

/-- the abstraction: the elements head … tail -/
def abs (m : List KV) (k : κ) : List Bytes :=
  match lmeta? E.toEncFns m k with
  | none => []
  | some (h, _, sz) => (List.range sz.toNat).map (fun (i : Nat) => valAt E m k (h + (i : Int)))

theorem abs_none {m : List KV} {k : κ} (h : lmeta? E.toEncFns m k = none) : abs E m k = [] := by
  unfold abs; rw [h]

theorem abs_some {m : List KV} {k : κ} {h t sz : Int} (hm : lmeta? E.toEncFns m k = some (h, t, sz)) :
    abs E m k = (List.range sz.toNat).map (fun (i : Nat) => valAt E m k (h + (i : Int))) := by
  unfold abs; rw [hm]

theorem abs_length_some {m : List KV} {k : κ} {h t sz : Int} (hm : lmeta? E.toEncFns m k = some (h, t, sz)) :
    (abs E m k).length = sz.toNat := by
  rw [abs_some E hm]; simp

/-! ### the stored keys between two elements -/

/-- under the invariant the closed key range [elemK a, elemK t] of a list (head ≤ a ≤ tail) holds exactly the
    elements a … tail, in sequence order -/
theorem scanC_elems {m : List KV} (inv : Inv E m) {k : κ} {h t sz : Int} (hm : lmeta? E.toEncFns m k = some (h, t, sz))
    (a : Int) (ha : h ≤ a) (hat : a ≤ t) :
    scanC m (E.elemK k a) (E.elemK k t) =
      (List.range (t - a + 1).toNat).map (fun (i : Nat) => (E.elemK k (a + (i : Int)), valAt E m k (a + (i : Int)))) := by
  obtain ⟨w1, w2, w3⟩ := inv.wf k h t sz hm
  have ok : ∀ s, h ≤ s → s ≤ t → okSeq s := fun s h1 h2 => ⟨by omega, by omega⟩
  apply pairwise_ext (r := fun p q : KV => p.1 < q.1) (fun p => bytes_lt_irrefl p.1) (fun p q => bytes_lt_asymm p.1 q.1)
  · exact sorted_pairwise (scanC_sorted inv.sorted _ _)
  · rw [List.pairwise_map]
    refine List.Pairwise.imp_of_mem ?_ List.pairwise_lt_range
    intro i j hi hj hij
    have hi' := List.mem_range.mp hi
    have hj' := List.mem_range.mp hj
    exact (E.elem_lt k _ _ (ok _ (by omega) (by omega)) (ok _ (by omega) (by omega))).mpr (by omega)
  · intro p
    rw [mem_scanC, List.mem_map]
    constructor
    · rintro ⟨hpm, h1, h2⟩
      have hsome : (Ref.get m p.1).isSome := by rw [get_of_mem inv.sorted hpm]; rfl
      obtain ⟨s, hsq, hps⟩ := inv.noJunk k p.1 hsome (E.between k a t p.1 h1 h2)
      rw [hps] at h1 h2
      have h1' := (elem_le E k (ok a ha hat) hsq).mp h1
      have h2' := (elem_le E k hsq (ok t (by omega) (by omega))).mp h2
      refine ⟨(s - a).toNat, List.mem_range.mpr (by omega), ?_⟩
      have e : a + ((s - a).toNat : Int) = s := by omega
      rw [e]
      have hg := get_of_mem inv.sorted hpm
      rw [hps] at hg
      simp only [valAt, hg, Option.getD_some]
      rw [← hps]
    · rintro ⟨i, hi, rfl⟩
      have hi' := List.mem_range.mp hi
      have hsq := ok (a + (i : Int)) (by omega) (by omega)
      have hsome := (elems_iff E inv hm hsq).mpr ⟨by omega, by omega⟩
      obtain ⟨v, hv⟩ := Option.isSome_iff_exists.mp hsome
      simp only [valAt, hv, Option.getD_some]
      exact ⟨(get_eq_some_iff inv.sorted _ _).mp hv, (elem_le E k (ok a ha hat) hsq).mpr (by omega),
        (elem_le E k hsq (ok t (by omega) (by omega))).mpr (by omega)⟩

/-- "tail − head + 1 = length": the number of stored element keys of a list is its size -/
theorem count_eq_size {m : List KV} (inv : Inv E m) {k : κ} {h t sz : Int} (hm : lmeta? E.toEncFns m k = some (h, t, sz)) :
    ((scanC m (E.elemK k h) (E.elemK k t)).length : Int) = sz := by
  obtain ⟨w1, w2, w3⟩ := inv.wf k h t sz hm
  rw [scanC_elems E inv hm h (Int.le_refl h) w2, lmeta?_size E hm]
  simp; omega

/-! ### reads -/

/-- LLEN = length of the list -/
theorem llen_refines {m : List KV} (inv : Inv E m) (k : κ) : llen E.toEncFns m k = (abs E m k).length := by
  unfold llen
  cases hm : lmeta? E.toEncFns m k with
  | none => rw [abs_none E hm]; rfl
  | some x =>
    obtain ⟨h, t, sz⟩ := x
    obtain ⟨w1, w2, w3⟩ := inv.wf k h t sz hm
    have := lmeta?_size E hm
    rw [abs_length_some E hm]
    simp only; omega

/-- LKEYEXIST -/
theorem lkeyexist_refines {m : List KV} (inv : Inv E m) (k : κ) :
    lkeyexist E.toEncFns m k = if abs E m k = [] then 0 else 1 := by
  unfold lkeyexist
  cases hm : lmeta? E.toEncFns m k with
  | none =>
    rw [abs_none E hm]
    rw [lmeta?_eq] at hm
    cases hg : Ref.get m (E.metaK k) with
    | none => rfl
    | some v => rw [hg] at hm; cases hm
  | some x =>
    obtain ⟨h, t, sz⟩ := x
    obtain ⟨w1, w2, w3⟩ := inv.wf k h t sz hm
    have hsz := lmeta?_size E hm
    have hlen := abs_length_some E hm
    have hne : abs E m k ≠ [] := by
      intro e; rw [e] at hlen; simp at hlen; omega
    rw [if_neg hne]
    rw [lmeta?_eq] at hm
    cases hg : Ref.get m (E.metaK k) with
    | none => rw [hg] at hm; cases hm
    | some v => rfl

theorem abs_getElem {m : List KV} {k : κ} {h t sz : Int} (hm : lmeta? E.toEncFns m k = some (h, t, sz))
    (i : Nat) (hi : i < (abs E m k).length) : (abs E m k)[i] = valAt E m k (h + (i : Int)) := by
  simp [abs_some E hm]

/-- an element inside the window is stored, so `get` answers the abstraction's element -/
theorem get_elem {m : List KV} (inv : Inv E m) {k : κ} {h t sz : Int} (hm : lmeta? E.toEncFns m k = some (h, t, sz))
    (s : Int) (h1 : h ≤ s) (h2 : s ≤ t) : Ref.get m (E.elemK k s) = some (valAt E m k s) := by
  obtain ⟨w1, w2, w3⟩ := inv.wf k h t sz hm
  have hsome := (elems_iff E inv hm (s := s) ⟨by omega, by omega⟩).mpr ⟨h1, h2⟩
  obtain ⟨v, hv⟩ := Option.isSome_iff_exists.mp hsome
  simp [valAt, hv]

/-- LINDEX -/
theorem lindex_refines {m : List KV} (inv : Inv E m) (k : κ) (i : Int) :
    lindex E.toEncFns m k i = specIndex (abs E m k) i := by
  unfold lindex
  cases hm : lmeta? E.toEncFns m k with
  | none =>
    rw [abs_none E hm]
    simp [specIndex]
  | some x =>
    obtain ⟨h, t, sz⟩ := x
    obtain ⟨w1, w2, w3⟩ := inv.wf k h t sz hm
    have hsz := lmeta?_size E hm
    have hlen := abs_length_some E hm
    simp only
    cases hq : seqOfIndex h t i with
    | none =>
      simp only
      unfold seqOfIndex at hq
      unfold specIndex
      by_cases hi : i ≥ 0
      · simp only [hi, ↓reduceIte, Bool.or_eq_true, decide_eq_true_eq] at hq ⊢
        split at hq
        · rename_i hr
          rw [List.getElem?_eq_none]; omega
        · cases hq
      · simp only [hi, ↓reduceIte, Bool.or_eq_true, decide_eq_true_eq] at hq ⊢
        split at hq
        · rename_i hr
          rw [if_neg (by omega)]
        · cases hq
    | some seq =>
      obtain ⟨q1, q2, q3⟩ := seqOfIndex_some hq
      simp only
      rw [get_elem E inv hm seq q1 q2]
      unfold specIndex
      by_cases hi : i ≥ 0
      · rw [if_pos hi] at q3 ⊢
        rw [List.getElem?_eq_getElem (by omega), abs_getElem E hm]
        congr 2; omega
      · rw [if_neg hi] at q3 ⊢
        rw [if_pos (by omega), List.getElem?_eq_getElem (by omega), abs_getElem E hm]
        congr 2; omega

/-- LRANGE: the specification's slice (an error above MAX_BATCH_NUM elements) -/
theorem lrange_refines {m : List KV} (inv : Inv E m) (k : κ) (startP stopP : Int) :
    lrange E.toEncFns m k startP stopP =
      if (specRange (abs E m k) startP stopP).length > maxBatch then .error "batchsize"
      else .ok (specRange (abs E m k) startP stopP) := by
  unfold lrange
  cases hm : lmeta? E.toEncFns m k with
  | none =>
    rw [abs_none E hm]
    simp [specRange, normStart]
  | some x =>
    obtain ⟨h, t, sz⟩ := x
    obtain ⟨w1, w2, w3⟩ := inv.wf k h t sz hm
    have hsz := lmeta?_size E hm
    have hlen := abs_length_some E hm
    have hn : ((abs E m k).length : Int) = sz := by rw [hlen]; omega
    simp only
    unfold specRange
    simp only [hn]
    have hs0 : 0 ≤ normStart sz startP := by unfold normStart; dsimp only; split <;> omega
    by_cases hemp : normStart sz startP > normStop sz stopP ∨ normStart sz startP ≥ sz
    · have : (decide (normStart sz startP > normStop sz stopP) || decide (normStart sz startP ≥ sz)) = true := by
        simpa using hemp
      rw [if_pos this, if_pos hemp]
      simp
    · have : ¬ (decide (normStart sz startP > normStop sz stopP) || decide (normStart sz startP ≥ sz)) = true := by
        simpa using hemp
      rw [if_neg this, if_neg hemp]
      generalize hstop : (if normStop sz stopP ≥ sz then sz - 1 else normStop sz stopP) = stop
      generalize hstart : normStart sz startP = start at *
      have hle : start ≤ stop := by rw [← hstop]; split <;> omega
      have hlt : stop < sz := by rw [← hstop]; split <;> omega
      have hL : (List.take (stop - start + 1).toNat (List.drop start.toNat (abs E m k))).length = (stop - start + 1).toNat := by
        rw [List.length_take, List.length_drop, hlen]; omega
      rw [hL]
      by_cases hbig : stop - start + 1 > (maxBatch : Int)
      · rw [if_pos hbig, if_pos (by omega)]
      · rw [if_neg hbig, if_neg (by omega)]
        congr 1
        rw [scanC_elems E inv hm (h + start) (by omega) (by omega)]
        apply List.ext_getElem
        · simp only [List.length_map, List.length_take, List.length_range, hL]; omega
        · intro i h1 h2
          simp only [List.getElem_map, List.getElem_take, List.getElem_range, List.getElem_drop]
          rw [abs_getElem E hm]
          congr 1; omega


/-! ### every reachable store satisfies the invariant -/

/-- the write commands of the model -/
inductive Cmd (κ : Type)
  | push (ts : Int) (k : κ) (atTail : Bool) (args : List Bytes)
  | pop (ts : Int) (k : κ) (atTail : Bool)
  | lset (ts : Int) (k : κ) (index : Int) (v : Bytes)
  | ltrim (ts : Int) (k : κ) (start stop : Int)
  | lclear (k : κ)

def exec (m : List KV) : Cmd κ → List KV
  | .push ts k atTail args => (lpush E.toEncFns m ts k atTail args).1
  | .pop ts k atTail => (lpop E.toEncFns m ts k atTail).1
  | .lset ts k i v => (lset E.toEncFns m ts k i v).1
  | .ltrim ts k a b => (ltrim E.toEncFns m ts k a b).1
  | .lclear k => (lclear E.toEncFns m k).1

def run (m : List KV) (cs : List (Cmd κ)) : List KV := cs.foldl (exec E) m

theorem inv_empty : Inv E [] :=
  ⟨trivial, fun _ _ _ _ h => by simp [lmeta?, Ref.get] at h, fun _ _ _ => by simp [lmeta?, Ref.get],
   fun _ _ h => by simp [Ref.get] at h⟩

theorem inv_exec {m : List KV} (inv : Inv E m) (c : Cmd κ) : Inv E (exec E m c) := by
  cases c with
  | push ts k atTail args => exact inv_lpush E inv ts k atTail args
  | pop ts k atTail => exact inv_lpop E inv ts k atTail
  | lset ts k i v => exact inv_lset E inv ts k i v
  | ltrim ts k a b => exact inv_ltrim E inv ts k a b
  | lclear k => exact inv_lclear E inv k

/-- **the invariant holds after every sequence of list writes from the empty store** -/
theorem inv_reachable (cs : List (Cmd κ)) : Inv E (run E [] cs) := by
  have : ∀ m, Inv E m → Inv E (run E m cs) := by
    induction cs with
    | nil => intro m h; exact h
    | cons c t ih => intro m h; exact ih _ (inv_exec E h c)
  exact this [] (inv_empty E)

/-! ### the abstraction after a batch -/

/-- lists other than the one written keep their abstraction -/
theorem abs_other {m : List KV} (hs : Sorted m) (k : κ) (ops : List WOp) (hl : ∀ o ∈ ops, Local E k o) (k' : κ) (hk : k' ≠ k) :
    abs E (applyW m ops) k' = abs E m k' := by
  have hmeta : lmeta? E.toEncFns (applyW m ops) k' = lmeta? E.toEncFns m k' := by
    rw [lmeta?_eq, lmeta?_eq, get_applyW hs, eff_local_meta_other E hk hl]
  have hval : ∀ s, valAt E (applyW m ops) k' s = valAt E m k' s := by
    intro s; unfold valAt; rw [get_applyW hs, eff_local_elem_other E hk hl]
  unfold abs
  rw [hmeta]
  cases lmeta? E.toEncFns m k' with
  | none => rfl
  | some x => simp only [hval]

theorem shape_local (k : κ) (a b : List WOp) (ha : ∀ o ∈ a, LocalE E k o) (hb : ∀ o ∈ b, LocalE E k o)
    (nm : Option (Int × Int × Int)) : ∀ o ∈ a ++ metaOps E k nm ++ b, Local E k o := by
  intro o ho
  rcases List.mem_append.mp ho with ho | ho
  · rcases List.mem_append.mp ho with ho | ho
    · exact (ha o ho).local
    · exact metaOps_local E k nm o ho
  · exact (hb o ho).local

theorem lmeta?_shape {m : List KV} (hs : Sorted m) (k : κ) (a b : List WOp) (hb : ∀ o ∈ b, LocalE E k o)
    (nm : Option (Int × Int × Int)) :
    Ref.get (applyW m (a ++ metaOps E k nm ++ b)) (E.metaK k) = nm.map (fun x => E.encMeta x.1 x.2.1 x.2.2) := by
  rw [get_applyW hs, eff_append, eff_append, eff_localE_meta E hb, eff_metaOps_meta]

theorem get_elem_shape {m : List KV} (hs : Sorted m) (k : κ) (a b : List WOp) (nm : Option (Int × Int × Int)) (s : Int) :
    Ref.get (applyW m (a ++ metaOps E k nm ++ b)) (E.elemK k s) = eff (E.elemK k s) (Ref.get m (E.elemK k s)) (a ++ b) := by
  rw [get_applyW hs, eff_append, eff_append, eff_metaOps_elem, eff_append]

/-- the written list after a batch that deletes the meta -/
theorem abs_shape_none {m : List KV} (hs : Sorted m) (k : κ) (a b : List WOp) (hb : ∀ o ∈ b, LocalE E k o) :
    abs E (applyW m (a ++ metaOps E k none ++ b)) k = [] := by
  unfold abs
  rw [lmeta?_eq, lmeta?_shape E hs k a b hb none]
  rfl

/-- the written list after a batch that rewrites the meta to [h, t] -/
theorem abs_shape_some {m : List KV} (hs : Sorted m) (k : κ) (a b : List WOp) (hb : ∀ o ∈ b, LocalE E k o)
    (h t ts : Int) (oh : okSeq h) (ot : okSeq t) :
    abs E (applyW m (a ++ metaOps E k (some (h, t, ts)) ++ b)) k =
      (List.range (t - h + 1).toNat).map (fun (i : Nat) =>
        (eff (E.elemK k (h + (i : Int))) (Ref.get m (E.elemK k (h + (i : Int)))) (a ++ b)).getD []) := by
  unfold abs
  rw [lmeta?_eq, lmeta?_shape E hs k a b hb (some (h, t, ts))]
  simp only [Option.map_some, E.head_rt h t ts oh, E.tail_rt h t ts ot, valAt, get_elem_shape E hs]

theorem newMeta_zero {h t ts : Int} (hz : t - h + 1 = 0) : newMeta h t ts = none := by simp [newMeta, hz]
theorem newMeta_pos {h t ts : Int} (hz : t - h + 1 ≠ 0) : newMeta h t ts = some (h, t, ts) := by simp [newMeta, hz]

/-! ### writes commute with the abstraction; replies are the specification's -/

theorem abs_ne_nil {m : List KV} (inv : Inv E m) {k : κ} {h t sz : Int} (hm : lmeta? E.toEncFns m k = some (h, t, sz)) :
    (abs E m k).length = sz.toNat ∧ 1 ≤ sz ∧ sz = t - h + 1 := by
  obtain ⟨w1, w2, w3⟩ := inv.wf k h t sz hm
  have := lmeta?_size E hm
  exact ⟨abs_length_some E hm, by omega, this⟩

/-- **LCLEAR refines**: reply 1 iff the list had elements; afterwards it is empty; other lists untouched -/
theorem lclear_refines {m : List KV} (inv : Inv E m) (k : κ) :
    (lclear E.toEncFns m k).2 = (if abs E m k = [] then 0 else 1) ∧ abs E (lclear E.toEncFns m k).1 k = [] ∧
    ∀ k', k' ≠ k → abs E (lclear E.toEncFns m k).1 k' = abs E m k' := by
  unfold lclear
  rcases ldelete_shape E m k with ⟨hq, he⟩ | ⟨h, t, sz, big, hm, hsz, he⟩
  · rw [he]
    have h0 : abs E m k = [] := by
      rcases hq with hq | ⟨h, t, hq⟩
      · exact abs_none E hq
      · have := (abs_ne_nil E inv hq).2.1; omega
    refine ⟨?_, ?_, ?_⟩
    · rw [if_pos h0]; rfl
    · exact h0
    · intro k' _; rfl
  · rw [he]
    obtain ⟨hl, h1, _⟩ := abs_ne_nil E inv hm
    have hne : abs E m k ≠ [] := by intro e; rw [e] at hl; simp at hl; omega
    refine ⟨?_, ?_, ?_⟩
    · simp only [hne, ↓reduceIte]; rw [if_pos (by omega)]
    · exact abs_shape_none E inv.sorted k [] _ (clearMid_localE E inv k h t big)
    · intro k' hk'
      exact abs_other E inv.sorted k _ (shape_local E k [] _ (fun o ho => by cases ho) (clearMid_localE E inv k h t big) none) k' hk'

theorem effOp_del_elem (k : κ) {s q : Int} (hs : okSeq s) (hq : okSeq q) (cur : Option Bytes) :
    eff (E.elemK k s) cur [WOp.del (E.elemK k q)] = if s = q then none else cur := by
  simp only [eff, List.foldl_cons, List.foldl_nil, effOp, elemK_eq_iff E k hs hq]

/-- **LPOP / RPOP refine**: the reply is the first / last element (nil on an empty list), the list loses it,
    other lists are untouched -/
theorem lpop_refines {m : List KV} (inv : Inv E m) (ts : Int) (k : κ) (atTail : Bool) :
    (lpop E.toEncFns m ts k atTail).2 = .ok (specPop atTail (abs E m k)).1 ∧
    abs E (lpop E.toEncFns m ts k atTail).1 k = (specPop atTail (abs E m k)).2 ∧
    ∀ k', k' ≠ k → abs E (lpop E.toEncFns m ts k atTail).1 k' = abs E m k' := by
  rcases lpop_shape E m ts k atTail with ⟨hq, he⟩ | ⟨h, t, sz, hm, hdead, _⟩ | ⟨h, t, sz, v, hm, hsz, hv, h0, he⟩
  · rw [he, abs_none E hq]
    cases atTail <;> simp [specPop]
  · exfalso
    obtain ⟨w1, w2, w3⟩ := inv.wf k h t sz hm
    obtain ⟨_, h1, _⟩ := abs_ne_nil E inv hm
    rcases hdead with hz | hg | hneg
    · omega
    · have := get_elem E inv hm (popSeq atTail h t) (by cases atTail <;> simp [popSeq] <;> omega)
        (by cases atTail <;> simp [popSeq] <;> omega)
      rw [hg] at this; cases this
    · cases atTail <;> simp [popHead, popTail] at hneg <;> omega
  · rw [he]
    obtain ⟨w1, w2, w3⟩ := inv.wf k h t sz hm
    obtain ⟨hl, h1, hszv⟩ := abs_ne_nil E inv hm
    have ok : ∀ s, h ≤ s → s ≤ t → okSeq s := fun s a b => ⟨by omega, by omega⟩
    have hval : v = valAt E m k (popSeq atTail h t) := by simp [valAt, hv]
    refine ⟨?_, ?_, ?_⟩
    · -- the reply
      simp only [specPop]
      cases atTail with
      | true =>
        simp only [↓reduceIte, popSeq] at hval ⊢
        rw [List.getLast?_eq_getElem?, List.getElem?_eq_getElem (by omega), abs_getElem E hm, hval]
        congr 3; omega
      | false =>
        simp only [Bool.false_eq_true, ↓reduceIte, popSeq] at hval ⊢
        rw [List.head?_eq_getElem?, List.getElem?_eq_getElem (by omega), abs_getElem E hm, hval]
        congr 3; omega
    · -- the list left
      by_cases hone : popTail atTail t - popHead atTail h + 1 = 0
      · rw [newMeta_zero hone, abs_shape_none E inv.sorted k _ [] (fun o ho => by cases ho)]
        simp only [specPop]
        have hlen1 : (abs E m k).length = 1 := by
          cases atTail <;> simp [popHead, popTail] at hone <;> omega
        cases atTail <;> simp [List.eq_nil_iff_length_eq_zero, hlen1]
      · rw [newMeta_pos hone, abs_shape_some E inv.sorted k _ [] (fun o ho => by cases ho) _ _ _
          (by cases atTail <;> simp [popHead, popTail] at hone ⊢ <;> exact ok _ (by omega) (by omega))
          (by cases atTail <;> simp [popHead, popTail] at hone ⊢ <;> exact ok _ (by omega) (by omega))]
        simp only [List.append_nil, specPop]
        apply List.ext_getElem
        · cases atTail <;> simp [popHead, popTail] at hone ⊢ <;> omega
        · intro i hi1 hi2
          simp only [List.length_map, List.length_range] at hi1
          simp only [List.getElem_map, List.getElem_range]
          cases atTail with
          | true =>
            simp only [popHead, popTail, popSeq, ↓reduceIte] at hi1 hone ⊢
            rw [effOp_del_elem E k (ok _ (by omega) (by omega)) (ok t (by omega) (by omega)), if_neg (by omega),
              List.getElem_dropLast, abs_getElem E hm]
            rfl
          | false =>
            simp only [popHead, popTail, popSeq, Bool.false_eq_true, ↓reduceIte] at hi1 hone ⊢
            rw [effOp_del_elem E k (ok _ (by omega) (by omega)) (ok h (by omega) (by omega)), if_neg (by omega),
              List.getElem_tail, abs_getElem E hm]
            simp only [valAt]
            congr 3; omega
    · intro k' hk'
      exact abs_other E inv.sorted k _ (shape_local E k _ [] (fun o ho => by rw [List.mem_singleton.mp ho]; exact .delElem _)
        (fun o ho => by cases ho) _) k' hk'


/-- **LSET refines**: `listindex` exactly when the specification has no such index; else the element is replaced -/
theorem lset_refines {m : List KV} (inv : Inv E m) (ts : Int) (k : κ) (index : Int) (v : Bytes) :
    match specSet (abs E m k) index v with
    | none => lset E.toEncFns m ts k index v = (m, .error "listindex")
    | some l' => (lset E.toEncFns m ts k index v).2 = .ok () ∧ abs E (lset E.toEncFns m ts k index v).1 k = l' ∧
        ∀ k', k' ≠ k → abs E (lset E.toEncFns m ts k index v).1 k' = abs E m k' := by
  cases hm : lmeta? E.toEncFns m k with
  | none =>
    have hspec : specSet (abs E m k) index v = none := by
      rw [abs_none E hm]; unfold specSet; dsimp only; rw [if_pos]; simp only [List.length_nil]; split <;> omega
    rw [hspec]
    simp only
    unfold lset; rw [hm]
  | some x =>
    obtain ⟨h, t, sz⟩ := x
    obtain ⟨w1, w2, w3⟩ := inv.wf k h t sz hm
    obtain ⟨hl, h1, hszv⟩ := abs_ne_nil E inv hm
    have ok : ∀ s, h ≤ s → s ≤ t → okSeq s := fun s a b => ⟨by omega, by omega⟩
    have hn : ((abs E m k).length : Int) = sz := by rw [hl]; omega
    cases hq : seqOfIndex h t index with
    | none =>
      have hspec : specSet (abs E m k) index v = none := by
        unfold specSet; dsimp only; rw [if_pos]
        unfold seqOfIndex at hq
        rw [hn]
        by_cases hi : index ≥ 0
        · simp only [hi, ↓reduceIte, Bool.or_eq_true, decide_eq_true_eq] at hq ⊢
          split at hq
          · omega
          · cases hq
        · simp only [hi, ↓reduceIte, Bool.or_eq_true, decide_eq_true_eq] at hq ⊢
          split at hq
          · omega
          · cases hq
      rw [hspec]
      simp only
      unfold lset; rw [hm]; simp only [hq]
      rw [if_neg (by omega)]
    | some seq =>
      obtain ⟨q1, q2, q3⟩ := seqOfIndex_some hq
      have hidx : (if index ≥ 0 then index else ((abs E m k).length : Int) + index) = seq - h := by
        rw [hn]; split at q3 <;> rename_i hi <;> simp only [hi, ↓reduceIte] <;> omega
      have hspec : specSet (abs E m k) index v = some ((abs E m k).set (seq - h).toNat v) := by
        unfold specSet; dsimp only; rw [hidx, if_neg (by omega)]
      rw [hspec]
      simp only
      rcases lset_shape E inv ts k index v with ⟨e, he⟩ | ⟨h', t', sz', seq', hm', hseq', he⟩
      · exfalso
        unfold lset at he; rw [hm] at he; simp only [hq] at he
        rw [if_neg (by omega)] at he
        exact absurd (congrArg Prod.snd he) (by simp)
      · rw [hm] at hm'
        injection hm' with hm'
        simp only [Prod.mk.injEq] at hm'
        obtain ⟨rfl, rfl, rfl⟩ := hm'
        rw [hq] at hseq'
        injection hseq' with hseq'
        subst hseq'
        rw [he]
        refine ⟨rfl, ?_, ?_⟩
        · rw [newMeta_pos (by omega), abs_shape_some E inv.sorted k [] _
            (fun o ho => by rw [List.mem_singleton.mp ho]; exact .putElem _ _ (ok seq q1 q2)) h t ts (ok h (by omega) w2) (ok t w2 (by omega))]
          apply List.ext_getElem
          · simp; omega
          · intro i hi1 hi2
            simp only [List.length_map, List.length_range] at hi1
            simp only [List.getElem_map, List.getElem_range, List.nil_append, eff, List.foldl_cons, List.foldl_nil, effOp,
              elemK_eq_iff E k (ok (h + (i : Int)) (by omega) (by omega)) (ok seq q1 q2), List.getElem_set]
            by_cases hi : h + (i : Int) = seq
            · rw [if_pos hi, if_pos (by omega)]; rfl
            · rw [if_neg hi, if_neg (by omega), abs_getElem E hm]; rfl
        · intro k' hk'
          exact abs_other E inv.sorted k _ (shape_local E k [] _ (fun o ho => by cases ho)
            (fun o ho => by rw [List.mem_singleton.mp ho]; exact .putElem _ _ (ok seq q1 q2)) _) k' hk'

/-- **LTRIM refines**: the list becomes what LRANGE start stop answers; reply OK; other lists untouched -/
theorem ltrim_refines {m : List KV} (inv : Inv E m) (ts : Int) (k : κ) (startP stopP : Int) :
    (ltrim E.toEncFns m ts k startP stopP).2 = .ok () ∧
    abs E (ltrim E.toEncFns m ts k startP stopP).1 k = specRange (abs E m k) startP stopP ∧
    ∀ k', k' ≠ k → abs E (ltrim E.toEncFns m ts k startP stopP).1 k' = abs E m k' := by
  cases hm : lmeta? E.toEncFns m k with
  | none =>
    have he : ltrim E.toEncFns m ts k startP stopP = (m, .ok ()) := by unfold ltrim; rw [hm]
    rw [he, abs_none E hm]
    exact ⟨rfl, by simp [specRange, normStart], fun _ _ => rfl⟩
  | some x =>
    obtain ⟨h, t, sz⟩ := x
    obtain ⟨w1, w2, w3⟩ := inv.wf k h t sz hm
    obtain ⟨hl, h1, hszv⟩ := abs_ne_nil E inv hm
    have ok : ∀ s, h ≤ s → s ≤ t + 1 → okSeq s := fun s a b => ⟨by omega, by omega⟩
    have hn : ((abs E m k).length : Int) = sz := by rw [hl]; omega
    rcases ltrim_shape E m ts k startP stopP with ⟨hq, _⟩ | ⟨h', t', llen, hm', hall, he⟩ |
      ⟨h', t', llen, start, stop, big1, big2, hm', hstart, hstop, h0, hle, hlt, he⟩
    · rw [hm] at hq; cases hq
    · rw [hm] at hm'
      injection hm' with hm'
      simp only [Prod.mk.injEq] at hm'
      obtain ⟨rfl, rfl, rfl⟩ := hm'
      rw [he]
      have hspec : specRange (abs E m k) startP stopP = [] := by
        unfold specRange; dsimp only; rw [hn, if_pos]
        rcases hall with h2 | h2
        · exact Or.inr h2
        · exact Or.inl h2
      rw [hspec]
      rcases ldelete_shape E m k with ⟨hq, _⟩ | ⟨h', t', sz', big, hm', hsz', hd⟩
      · exfalso
        rcases hq with hq | ⟨a, b, hq⟩
        · rw [hm] at hq; cases hq
        · rw [hm] at hq; injection hq with hq; simp only [Prod.mk.injEq] at hq; omega
      · rw [hd]
        refine ⟨rfl, abs_shape_none E inv.sorted k [] _ (clearMid_localE E inv k h' t' big), ?_⟩
        intro k' hk'
        exact abs_other E inv.sorted k _ (shape_local E k [] _ (fun o ho => by cases ho) (clearMid_localE E inv k h' t' big) none) k' hk'
    · rw [hm] at hm'
      injection hm' with hm'
      simp only [Prod.mk.injEq] at hm'
      obtain ⟨rfl, rfl, rfl⟩ := hm'
      rw [he]
      have hloc : ∀ o ∈ trimFront E k h start big1 ++ trimBack E k h sz stop big2, LocalE E k o := by
        intro o ho
        rcases List.mem_append.mp ho with ho | ho
        · exact trimFront_localE E k _ _ _ o ho
        · exact trimBack_localE E k _ _ _ _ o ho
      refine ⟨rfl, ?_, ?_⟩
      · rw [newMeta_pos (by omega), abs_shape_some E inv.sorted k _ [] (fun o ho => by cases ho) _ _ _
          (ok _ (by omega) (by omega)) (ok _ (by omega) (by omega))]
        have hspec : specRange (abs E m k) startP stopP = ((abs E m k).drop start.toNat).take (stop - start + 1).toNat := by
          unfold specRange; dsimp only; rw [hn, ← hstart, if_neg (by omega), ← hstop]
        rw [hspec]
        apply List.ext_getElem
        · simp only [List.length_map, List.length_range, List.length_take, List.length_drop, hl]; omega
        · intro i hi1 hi2
          simp only [List.length_map, List.length_range] at hi1
          simp only [List.getElem_map, List.getElem_range, List.append_nil, List.getElem_take, List.getElem_drop]
          have hsq : okSeq (h + start + (i : Int)) := ok _ (by omega) (by omega)
          rw [eff_append, eff_trimFront E k h start h0 (ok _ (by omega) (by omega)) (ok _ (by omega) (by omega)) hsq,
            eff_trimBack E k h sz stop (ok _ (by omega) (by omega)) (ok _ (by omega) (by omega)) hsq,
            if_neg (by omega), if_neg (by omega), abs_getElem E hm]
          simp only [valAt]
          congr 3; omega
      · intro k' hk'
        exact abs_other E inv.sorted k _ (shape_local E k _ [] hloc (fun o ho => by cases ho) _) k' hk'


theorem getD_lt {l : List Bytes} {j : Nat} (hj : j < l.length) (d : Bytes) : l.getD j d = l[j] := by
  rw [List.getD_eq_getElem?_getD, List.getElem?_eq_getElem hj, Option.getD_some]

/-- the pushed targets are admissible and pairwise distinct -/
theorem push_facts {m : List KV} (inv : Inv E m) (k : κ) (atTail : Bool) {h t sz : Int} (n : Nat) (hn : 0 < n)
    (hst : (lmeta? E.toEncFns m k = none ∧ h = initSeq ∧ t = initSeq ∧ sz = 0) ∨
      (lmeta? E.toEncFns m k = some (h, t, sz) ∧ minSeq < h ∧ h ≤ t ∧ t < maxSeq ∧ sz = t - h + 1))
    (hw1 : minSeq < pushSeq atTail h t sz ((n : Int) - 1)) (hw2 : pushSeq atTail h t sz ((n : Int) - 1) < maxSeq) :
    (∀ i : Nat, i < n → okSeq (pushSeq atTail h t sz i)) ∧
    (∀ i j : Nat, i < n → j < n → E.elemK k (pushSeq atTail h t sz i) = E.elemK k (pushSeq atTail h t sz j) → i = j) := by
  have hc := consts_ok
  have hok : ∀ i : Nat, i < n → okSeq (pushSeq atTail h t sz i) := by
    intro i hi
    rw [pushSeq_eq] at hw1 hw2 ⊢
    unfold okSeq
    rcases hst with ⟨_, rfl, rfl, rfl⟩ | ⟨_, w1, w2, w3, hsz⟩ <;> cases atTail <;>
      simp [pushBase] at hw1 hw2 ⊢ <;> (try split at hw1) <;> (try split at hw2) <;> (try split) <;> omega
  refine ⟨hok, ?_⟩
  intro i j hi hj e
  have := elem_seq E k (hok i hi) (hok j hj) e
  rw [pushSeq_eq, pushSeq_eq] at this
  cases atTail <;> simp at this <;> omega

theorem lpush_error {m : List KV} {ts : Int} {k : κ} {atTail : Bool} {args : List Bytes} {e : String}
    (h : (lpush E.toEncFns m ts k atTail args).2 = .error e) : (lpush E.toEncFns m ts k atTail args).1 = m := by
  rcases lpush_shape E m ts k atTail args with ⟨e', he⟩ | ⟨_, he⟩ | ⟨_, _, _, _, _, _, _, _, _, _, he⟩
  · rw [he]
  · rw [he]
  · rw [he] at h; cases h

/-- **LPUSH / RPUSH refine**: LPUSH a b c puts c b a in front, RPUSH appends; reply = new length; other lists untouched -/
theorem lpush_refines {m : List KV} (inv : Inv E m) (ts : Int) (k : κ) (atTail : Bool) (args : List Bytes) {r : Int}
    (hr : (lpush E.toEncFns m ts k atTail args).2 = .ok r) :
    abs E (lpush E.toEncFns m ts k atTail args).1 k = specPush atTail (abs E m k) args ∧
    r = ((specPush atTail (abs E m k) args).length : Int) ∧
    ∀ k', k' ≠ k → abs E (lpush E.toEncFns m ts k atTail args).1 k' = abs E m k' := by
  have hlenabs : ∀ {h t sz : Int}, lmeta E.toEncFns m k = (h, t, sz) → ((abs E m k).length : Int) = sz := by
    intro h t sz hlm
    rcases lmeta_state E inv k hlm with ⟨hq, _, _, rfl⟩ | ⟨hq, _, _, _, _⟩
    · rw [abs_none E hq]; rfl
    · obtain ⟨hl, h1, _⟩ := abs_ne_nil E inv hq; rw [hl]; omega
  rcases lpush_shape E m ts k atTail args with ⟨e, he⟩ | ⟨hnil, he⟩ | ⟨h, t, sz, hlm, hne, _, hw1, hw2, hfree, h0, he⟩
  · rw [he] at hr; cases hr
  · rw [he] at hr ⊢
    injection hr with hr
    subst hnil
    have : specPush atTail (abs E m k) [] = abs E m k := by cases atTail <;> simp [specPush]
    rw [this]
    refine ⟨rfl, ?_, fun _ _ => rfl⟩
    rw [← hr]
    exact (hlenabs (h := (lmeta E.toEncFns m k).1) (t := (lmeta E.toEncFns m k).2.1) rfl).symm
  · rw [he] at hr ⊢
    injection hr with hr
    have hn : 0 < args.length := List.length_pos_iff.mpr hne
    have hst := lmeta_state E inv k hlm
    obtain ⟨hok, hinj⟩ := push_facts E inv k atTail args.length hn hst hw1 hw2
    have hlocal : ∀ o ∈ pushPuts E k atTail h t sz args, LocalE E k o := by
      intro o ho
      simp only [pushPuts, List.mem_map, List.mem_range] at ho
      obtain ⟨i, hi, rfl⟩ := ho
      exact .putElem _ _ (hok i hi)
    have hlen := hlenabs hlm
    refine ⟨?_, ?_, ?_⟩
    rotate_left
    · rw [← hr]
      cases atTail <;> simp [specPush] <;> omega
    · intro k' hk'
      exact abs_other E inv.sorted k _ (shape_local E k _ [] hlocal (fun o ho => by cases ho) _) k' hk'
    · -- the written list
      have hc := consts_ok
      have hnz : pushTail atTail h t sz args.length - pushHead atTail h t sz args.length + 1 ≠ 0 := by
        simp only [pushHead, pushTail, pushSeq_eq]
        rcases hst with ⟨_, rfl, rfl, rfl⟩ | ⟨_, w1, w2, w3, hsz⟩ <;> cases atTail <;>
          simp [pushBase] <;> (try split) <;> omega
      have hwinH : okSeq (pushHead atTail h t sz args.length) := by
        rw [pushSeq_eq] at hw1 hw2
        simp only [pushHead, pushSeq_eq]
        unfold okSeq
        rcases hst with ⟨_, rfl, rfl, rfl⟩ | ⟨_, w1, w2, w3, hsz⟩ <;> cases atTail <;>
          simp [pushBase] at hw1 hw2 ⊢ <;> (try split at hw1) <;> (try split at hw2) <;> (try split) <;> omega
      have hwinT : okSeq (pushTail atTail h t sz args.length) := by
        rw [pushSeq_eq] at hw1 hw2
        simp only [pushTail, pushSeq_eq]
        unfold okSeq
        rcases hst with ⟨_, rfl, rfl, rfl⟩ | ⟨_, w1, w2, w3, hsz⟩ <;> cases atTail <;>
          simp [pushBase] at hw1 hw2 ⊢ <;> (try split at hw1) <;> (try split at hw2) <;> (try split) <;> omega
      rw [newMeta_pos hnz, abs_shape_some E inv.sorted k _ [] (fun o ho => by cases ho) _ _ _ hwinH hwinT]
      simp only [List.append_nil]
      apply List.ext_getElem
      · simp only [List.length_map, List.length_range, pushHead, pushTail, pushSeq_eq]
        rcases hst with ⟨_, rfl, rfl, rfl⟩ | ⟨_, w1, w2, w3, hsz⟩ <;> cases atTail <;>
          simp [pushBase, specPush] <;> (try split) <;> omega
      · intro i hi1 hi2
        simp only [List.length_map, List.length_range] at hi1
        simp only [List.getElem_map, List.getElem_range]
        obtain ⟨hit, miss⟩ := eff_putsIdx (fun j => E.elemK k (pushSeq atTail h t sz j)) (fun j => args.getD j [])
          args.length hinj (E.elemK k (pushHead atTail h t sz args.length + (i : Int)))
          (Ref.get m (E.elemK k (pushHead atTail h t sz args.length + (i : Int))))
        unfold pushPuts
        cases atTail with
        | true =>
          simp only [pushHead, pushTail, pushSeq_eq, pushBase, ↓reduceIte, specPush] at hi1 hit miss ⊢
          by_cases hlt : (i : Int) < sz
          · -- an old element
            rcases hst with ⟨_, rfl, rfl, rfl⟩ | ⟨hq, w1, w2, w3, hsz⟩
            · omega
            · have hsq : okSeq (h + (i : Int)) := ⟨by omega, by omega⟩
              rw [miss (fun j hj e => by
                have := elem_seq E k hsq (by have := hok j hj; simpa [pushSeq_eq, pushBase] using this) e
                split at this <;> omega)]
              rw [List.getElem_append_left (by omega), abs_getElem E hq]
              rfl
          · -- a pushed element
            have hj : i - sz.toNat < args.length := by
              rcases hst with ⟨_, rfl, rfl, rfl⟩ | ⟨hq, w1, w2, w3, hsz⟩ <;> simp at hi1 <;> (try split at hi1) <;> omega
            rw [hit (i - sz.toNat) hj (by
              congr 1
              rcases hst with ⟨_, rfl, rfl, rfl⟩ | ⟨hq, w1, w2, w3, hsz⟩ <;> simp <;> (try split) <;> omega)]
            rw [List.getElem_append_right (by omega)]
            simp only [Option.getD_some, getD_lt hj]
            congr 1; omega
        | false =>
          simp only [pushHead, pushTail, pushSeq_eq, pushBase, Bool.false_eq_true, ↓reduceIte, specPush] at hi1 hit miss ⊢
          by_cases hlt : i < args.length
          · -- a pushed element: argument number n-1-i
            have hj : args.length - 1 - i < args.length := by omega
            rw [hit (args.length - 1 - i) hj (by congr 1; omega)]
            rw [List.getElem_append_left (by simpa using hlt), List.getElem_reverse]
            simp only [Option.getD_some, getD_lt hj]
          · -- an old element
            rcases hst with ⟨_, rfl, rfl, rfl⟩ | ⟨hq, w1, w2, w3, hsz⟩
            · simp at hi1; omega
            · have hpos : sz > 0 := by omega
              simp only [hpos, ↓reduceIte] at hi1 miss ⊢
              have hsq : okSeq (h - 1 - ((args.length : Int) - 1) + (i : Int)) := ⟨by omega, by omega⟩
              rw [miss (fun j hj e => by
                have := elem_seq E k hsq (by have := hok j hj; simpa [pushSeq_eq, pushBase, hpos] using this) e
                omega)]
              rw [List.getElem_append_right (by simp; omega), abs_getElem E hq]
              simp only [valAt, List.length_reverse]
              congr 3; omega

/-- LRANGE 0 -1 of the specification is the whole list -/
theorem specRange_all (l : List Bytes) : specRange l 0 (-1) = l := by
  unfold specRange normStart normStop
  dsimp only
  by_cases h0 : l.length = 0
  · have : l = [] := List.length_eq_zero_iff.mp h0
    subst this; simp
  · have hs : (if (0 : Int) < 0 then (l.length : Int) + 0 else 0) = 0 := by simp
    simp only [hs]
    have he : (if (-1 : Int) < 0 then (l.length : Int) + -1 else -1) = (l.length : Int) - 1 := by simp; omega
    simp only [he]
    rw [if_neg (by omega), if_neg (by omega), if_neg (by omega)]
    have : ((l.length : Int) - 1 - 0 + 1).toNat = l.length := by omega
    rw [this]; simp

/-- **the repair branches of LPUSH / RPUSH are dead under the invariant**: with at most MAX_BATCH_NUM arguments and the
    last sequence number inside the window, the push answers a length (no `listseq` from an occupied target key or from
    `lSetMeta`) -/
theorem lpush_ok {m : List KV} (inv : Inv E m) (ts : Int) (k : κ) (atTail : Bool) (args : List Bytes)
    (hlen : args.length ≤ maxBatch)
    (hwin : minSeq < pushSeq atTail (lmeta E.toEncFns m k).1 (lmeta E.toEncFns m k).2.1 (lmeta E.toEncFns m k).2.2 ((args.length : Int) - 1) ∧
      pushSeq atTail (lmeta E.toEncFns m k).1 (lmeta E.toEncFns m k).2.1 (lmeta E.toEncFns m k).2.2 ((args.length : Int) - 1) < maxSeq) :
    ∃ r, (lpush E.toEncFns m ts k atTail args).2 = .ok r := by
  generalize hlm : lmeta E.toEncFns m k = lm at hwin
  obtain ⟨h, t, sz⟩ := lm
  simp only at hwin
  have hst := lmeta_state E inv k hlm
  have hc := consts_ok
  by_cases hnil : args = []
  · subst hnil
    refine ⟨sz, ?_⟩
    unfold lpush
    rw [if_neg (by simp), hlm]
    rfl
  · have hn : 0 < args.length := List.length_pos_iff.mpr hnil
    obtain ⟨hok, _⟩ := push_facts E inv k atTail args.length hn hst hwin.1 hwin.2
    -- no target key is stored
    have hfree : ∀ i : Nat, i < args.length → Ref.get m (E.elemK k (pushSeq atTail h t sz i)) = none := by
      intro i hi
      rcases hst with ⟨hq, rfl, rfl, rfl⟩ | ⟨hq, w1, w2, w3, hsz⟩
      · exact elems_none E inv hq (hok i hi)
      · have := elems_iff E inv hq (hok i hi)
        cases hg : Ref.get m (E.elemK k (pushSeq atTail h t sz i)) with
        | none => rfl
        | some v =>
          rw [hg] at this
          have hin := this.mp rfl
          rw [pushSeq_eq] at hin
          cases atTail <;> simp [pushBase] at hin <;> (try split at hin) <;> omega
    unfold lpush
    rw [if_neg (by omega), hlm]
    dsimp only
    rw [if_neg (by simpa using hnil)]
    have hseq : ∀ i : Int, (if sz > 0 then (if atTail = true then t else h) + (if atTail = true then 1 else -1)
        else (if atTail = true then t else h)) + i * (if atTail = true then 1 else -1) = pushSeq atTail h t sz i := by
      intro i
      cases atTail <;> simp only [pushSeq, Bool.false_eq_true, ↓reduceIte] <;> split <;> omega
    simp only [hseq]
    rw [if_neg (by simp only [Bool.or_eq_true, decide_eq_true_eq, not_or, Int.not_le]; exact hwin)]
    rw [if_neg (by
      simp only [List.any_eq_true, List.mem_map, List.mem_range, not_exists, not_and]
      rintro x ⟨i, hi, rfl⟩
      rw [hfree i hi]; simp)]
    rcases setMeta_cases E k (pushHead atTail h t sz args.length) (pushTail atTail h t sz args.length) ts with
      ⟨hneg, _⟩ | ⟨_, he⟩
    · exfalso
      have h1 := hwin.1
      have h2 := hwin.2
      rw [pushSeq_eq] at h1 h2
      simp only [pushHead, pushTail, pushSeq_eq] at hneg
      rcases hst with ⟨_, rfl, rfl, rfl⟩ | ⟨_, w1, w2, w3, hsz⟩ <;> cases atTail <;>
        simp [pushBase] at h1 h2 hneg <;> (try split at hneg) <;> omega
    · refine ⟨sz + (args.length : Int), ?_⟩
      cases atTail <;> simp only [pushHead, pushTail, Bool.false_eq_true, ↓reduceIte] at he <;> simp [he]

/-- LPOP / RPOP / LTRIM answered by the leader (`preCheckListLength`): the list is empty -/
theorem emptyPre_sound {m : List KV} (inv : Inv E m) (k : κ) (h : emptyPre E.toEncFns m k = true) : abs E m k = [] := by
  unfold emptyPre at h
  have := llen_refines E inv k
  have h0 : llen E.toEncFns m k = 0 := by simpa using h
  rw [h0] at this
  exact List.length_eq_zero_iff.mp (by omega)

end Z.ListRef
