/-
  The float64 part of the memcomparable codec (`encodeFloatToCmpUint64`, `EncodeFloat`, `DecodeFloat`)
  and the sorted-set score key built on it (`zEncodeScoreKey` and its range keys).

  A float64 is its IEEE-754 bit pattern `u < 2^64`.  `fltBits` / `feqBits` are the float `<` / `==`
  on non-NaN patterns written out as the sign-magnitude order (they never mention the codec);
  the theorems say the codec is strictly monotone and injective modulo `+0.0 == -0.0` for these,
  and give concrete witnesses of what goes wrong for NaN patterns.
-/
import ZanVerif.Data.CodecLemmas
import ZanVerif.Data.ZCodec
import ZanVerif.Codec.StreamLemmas

namespace Z.Codec

def two63 : Nat := 9223372036854775808
def two64 : Nat := 18446744073709551616

/-- a 64-bit pattern that is not a NaN -/
def NonNaN (u : Nat) : Prop := u < two64 ∧ isNaNBits u = false
instance (u : Nat) : Decidable (NonNaN u) := inferInstanceAs (Decidable (u < two64 ∧ isNaNBits u = false))

/-- both zeros -/
def isZeroBits (u : Nat) : Prop := u = 0 ∨ u = two63
instance (u : Nat) : Decidable (isZeroBits u) := inferInstanceAs (Decidable (u = 0 ∨ u = two63))

/-- float `==` on non-NaN patterns: same pattern or both zeros (+0.0 == -0.0) -/
def feqBits (a b : Nat) : Prop := a = b ∨ (isZeroBits a ∧ isZeroBits b)
instance (a b : Nat) : Decidable (feqBits a b) := inferInstanceAs (Decidable (a = b ∨ (isZeroBits a ∧ isZeroBits b)))

/-- float `<` on non-NaN patterns: the sign-magnitude order with -0.0 and +0.0 identified.
    The sign bit of `u` is `two63 ≤ u`; among patterns of one sign the pattern order is the magnitude order. -/
def fltBits (a b : Nat) : Prop :=
  (two63 ≤ a ∧ b < two63 ∧ ¬ (isZeroBits a ∧ isZeroBits b))   -- negative < non-negative, except -0 vs +0
  ∨ (a < two63 ∧ b < two63 ∧ a < b)                            -- both non-negative: by magnitude
  ∨ (two63 ≤ a ∧ two63 ≤ b ∧ b < a)                            -- both negative: larger magnitude is smaller
instance (a b : Nat) : Decidable (fltBits a b) :=
  inferInstanceAs (Decidable ((two63 ≤ a ∧ b < two63 ∧ ¬ (isZeroBits a ∧ isZeroBits b))
    ∨ (a < two63 ∧ b < two63 ∧ a < b) ∨ (two63 ≤ a ∧ two63 ≤ b ∧ b < a)))

/-- `-Inf` and `+Inf` -/
def negInfBits : Nat := 0xFFF0000000000000
def posInfBits : Nat := 0x7FF0000000000000

/-! ### what `NonNaN` means arithmetically -/

theorem nonNaN_lt {u : Nat} (h : NonNaN u) : u < 18446744073709551616 := h.1

/-- a non-NaN pattern with clear sign bit is at most `+Inf` -/
theorem nonNaN_pos_le {u : Nat} (h : NonNaN u) (hs : u < 9223372036854775808) : u ≤ 0x7FF0000000000000 := by
  have h2 := h.2
  simp only [isNaNBits, Bool.and_eq_false_iff, beq_eq_false_iff_ne, bne_eq_false_iff_eq, ne_eq] at h2
  omega

/-- a non-NaN pattern with set sign bit is at most `-Inf` -/
theorem nonNaN_neg_le {u : Nat} (h : NonNaN u) : u ≤ 0xFFF0000000000000 := by
  have h1 := h.1
  have h2 := h.2
  simp only [two64, isNaNBits, Bool.and_eq_false_iff, beq_eq_false_iff_ne, bne_eq_false_iff_eq, ne_eq] at h1 h2
  omega

theorem nonNaN_of_le_posInf {u : Nat} (h : u ≤ 0x7FF0000000000000) : NonNaN u := by
  refine ⟨by simp only [two64]; omega, ?_⟩
  simp only [isNaNBits, Bool.and_eq_false_iff, beq_eq_false_iff_ne, bne_eq_false_iff_eq, ne_eq]
  omega

theorem nonNaN_of_neg_le_negInf {u : Nat} (h1 : 9223372036854775808 ≤ u) (h : u ≤ 0xFFF0000000000000) : NonNaN u := by
  refine ⟨by simp only [two64]; omega, ?_⟩
  simp only [isNaNBits, Bool.and_eq_false_iff, beq_eq_false_iff_ne, bne_eq_false_iff_eq, ne_eq]
  omega

/-- `NonNaN` is exactly: in `[+0, +Inf]` or in `[-0, -Inf]` (as patterns) -/
theorem nonNaN_iff (u : Nat) :
    NonNaN u ↔ u ≤ 0x7FF0000000000000 ∨ (9223372036854775808 ≤ u ∧ u ≤ 0xFFF0000000000000) := by
  constructor
  · intro h
    by_cases hs : u < 9223372036854775808
    · exact Or.inl (nonNaN_pos_le h hs)
    · exact Or.inr ⟨by omega, nonNaN_neg_le h⟩
  · rintro (h | ⟨h1, h2⟩)
    · exact nonNaN_of_le_posInf h
    · exact nonNaN_of_neg_le_negInf h1 h2

/-- the value of `encodeFloatToCmpUint64` on non-NaN patterns -/
theorem floatCmpBits_pos {u : Nat} (h : NonNaN u) (hs : u < 9223372036854775808) :
    floatCmpBits u = u + 9223372036854775808 := by
  have h2 := h.2
  simp [floatCmpBits, geZeroBits, h2, hs]

theorem floatCmpBits_negZero : floatCmpBits 9223372036854775808 = 9223372036854775808 := by decide

theorem floatCmpBits_neg {u : Nat} (hs : 9223372036854775808 < u) :
    floatCmpBits u = 18446744073709551615 - u := by
  have h1 : ¬ u < 9223372036854775808 := by omega
  have h2 : ¬ u = 9223372036854775808 := by omega
  simp [floatCmpBits, geZeroBits, h1, h2]

/-- the cmp value of any 64-bit pattern is a 64-bit value -/
theorem floatCmpBits_lt_two64 {u : Nat} (h : u < two64) : floatCmpBits u < two64 := by
  simp only [two64] at *
  unfold floatCmpBits
  split
  · split <;> omega
  · omega

/-! ### strict monotonicity, injectivity modulo ±0 -/

/-- **strictly monotone**: on non-NaN floats the cmp value orders exactly as float `<` -/
theorem floatCmpBits_lt_iff {a b : Nat} (ha : NonNaN a) (hb : NonNaN b) :
    floatCmpBits a < floatCmpBits b ↔ fltBits a b := by
  have ha1 := nonNaN_neg_le ha
  have hb1 := nonNaN_neg_le hb
  simp only [fltBits, isZeroBits, two63]
  by_cases sa : a < 9223372036854775808
  · rw [floatCmpBits_pos ha sa]
    by_cases sb : b < 9223372036854775808
    · rw [floatCmpBits_pos hb sb]; omega
    · by_cases zb : b = 9223372036854775808
      · subst zb; rw [floatCmpBits_negZero]; omega
      · rw [floatCmpBits_neg (by omega)]; omega
  · by_cases za : a = 9223372036854775808
    · subst za; rw [floatCmpBits_negZero]
      by_cases sb : b < 9223372036854775808
      · rw [floatCmpBits_pos hb sb]; omega
      · by_cases zb : b = 9223372036854775808
        · subst zb; rw [floatCmpBits_negZero]; omega
        · rw [floatCmpBits_neg (by omega)]; omega
    · rw [floatCmpBits_neg (by omega)]
      by_cases sb : b < 9223372036854775808
      · rw [floatCmpBits_pos hb sb]; omega
      · by_cases zb : b = 9223372036854775808
        · subst zb; rw [floatCmpBits_negZero]; omega
        · rw [floatCmpBits_neg (by omega)]; omega

/-- **injective modulo ±0**: equal cmp values ⇔ the floats are `==` -/
theorem floatCmpBits_eq_iff {a b : Nat} (ha : NonNaN a) (hb : NonNaN b) :
    floatCmpBits a = floatCmpBits b ↔ feqBits a b := by
  have ha1 := nonNaN_neg_le ha
  have hb1 := nonNaN_neg_le hb
  simp only [feqBits, isZeroBits, two63]
  by_cases sa : a < 9223372036854775808
  · rw [floatCmpBits_pos ha sa]
    by_cases sb : b < 9223372036854775808
    · rw [floatCmpBits_pos hb sb]; omega
    · by_cases zb : b = 9223372036854775808
      · subst zb; rw [floatCmpBits_negZero]; omega
      · rw [floatCmpBits_neg (by omega)]; omega
  · by_cases za : a = 9223372036854775808
    · subst za; rw [floatCmpBits_negZero]
      by_cases sb : b < 9223372036854775808
      · rw [floatCmpBits_pos hb sb]; omega
      · by_cases zb : b = 9223372036854775808
        · subst zb; rw [floatCmpBits_negZero]; omega
        · rw [floatCmpBits_neg (by omega)]; omega
    · rw [floatCmpBits_neg (by omega)]
      by_cases sb : b < 9223372036854775808
      · rw [floatCmpBits_pos hb sb]; omega
      · by_cases zb : b = 9223372036854775808
        · subst zb; rw [floatCmpBits_negZero]; omega
        · rw [floatCmpBits_neg (by omega)]; omega

/-! ### sanity of the reference order `fltBits` / `feqBits` (independent of the codec) -/

theorem feqBits_refl (a : Nat) : feqBits a a := Or.inl rfl
theorem feqBits_symm {a b : Nat} (h : feqBits a b) : feqBits b a := by
  rcases h with h | ⟨h1, h2⟩
  · exact Or.inl h.symm
  · exact Or.inr ⟨h2, h1⟩
theorem feqBits_trans {a b c : Nat} (h : feqBits a b) (h' : feqBits b c) : feqBits a c := by
  simp only [feqBits, isZeroBits, two63] at *; omega

theorem fltBits_irrefl (a : Nat) : ¬ fltBits a a := by
  simp only [fltBits, isZeroBits, two63]; omega

theorem fltBits_asymm {a b : Nat} (h : fltBits a b) : ¬ fltBits b a := by
  simp only [fltBits, isZeroBits, two63] at *; omega

theorem fltBits_trans {a b c : Nat} (h : fltBits a b) (h' : fltBits b c) : fltBits a c := by
  simp only [fltBits, isZeroBits, two63] at *; omega

/-- exactly one of `<`, `==`, `>` -/
theorem fltBits_trichotomy (a b : Nat) : fltBits a b ∨ feqBits a b ∨ fltBits b a := by
  simp only [fltBits, feqBits, isZeroBits, two63]; omega

theorem fltBits_not_feq {a b : Nat} (h : fltBits a b) : ¬ feqBits a b := by
  simp only [fltBits, feqBits, isZeroBits, two63] at *; omega

/-- `<` respects `==` on both sides -/
theorem fltBits_congr {a a' b b' : Nat} (ha : feqBits a a') (hb : feqBits b b') : fltBits a b ↔ fltBits a' b' := by
  simp only [fltBits, feqBits, isZeroBits, two63] at *; omega

theorem not_fltBits_iff (a b : Nat) : ¬ fltBits a b ↔ (feqBits a b ∨ fltBits b a) := by
  simp only [fltBits, feqBits, isZeroBits, two63]; omega

/-- `-Inf` is below every other non-NaN float -/
theorem negInf_lt {u : Nat} (h : NonNaN u) (hne : u ≠ negInfBits) : fltBits negInfBits u := by
  have := nonNaN_neg_le h
  simp only [fltBits, isZeroBits, two63, negInfBits] at *; omega

theorem not_lt_negInf {u : Nat} (h : NonNaN u) : ¬ fltBits u negInfBits := by
  have := nonNaN_neg_le h
  simp only [fltBits, isZeroBits, two63, negInfBits] at *; omega

/-- `+Inf` is above every other non-NaN float -/
theorem lt_posInf {u : Nat} (h : NonNaN u) (hne : u ≠ posInfBits) : fltBits u posInfBits := by
  have h1 := nonNaN_neg_le h
  have h2 := nonNaN_pos_le h
  simp only [fltBits, isZeroBits, two63, posInfBits] at *; omega

theorem not_posInf_lt {u : Nat} (h : NonNaN u) : ¬ fltBits posInfBits u := by
  have h2 := nonNaN_pos_le h
  simp only [fltBits, isZeroBits, two63, posInfBits] at *; omega

theorem nonNaN_negInf : NonNaN negInfBits := by decide
theorem nonNaN_posInf : NonNaN posInfBits := by decide

/-- 1.0 < 1.5 < 2.0, -0.5 < -0.0, -0.5 < +0.0, -1.0 < -0.5, -2^1023·… < 5e-324 -/
example : fltBits 0x3FF0000000000000 0x3FF8000000000000 ∧ fltBits 0x3FF8000000000000 0x4000000000000000 := by decide
example : fltBits 0xBFE0000000000000 0x8000000000000000 ∧ fltBits 0xBFE0000000000000 0 := by decide
example : fltBits 0xBFF0000000000000 0xBFE0000000000000 ∧ ¬ fltBits 0xBFE0000000000000 0xBFF0000000000000 := by decide
example : fltBits 0xFFEFFFFFFFFFFFFF 1 ∧ fltBits 0x8000000000000001 0 ∧ fltBits 0x8000000000000000 1 := by decide
/-- the two zeros are `==`, neither is `<` the other -/
example : ¬ fltBits 0x8000000000000000 0 ∧ ¬ fltBits 0 0x8000000000000000 ∧ feqBits 0 0x8000000000000000 := by decide
example : NonNaN 0x3FF0000000000000 ∧ NonNaN 0xBFE0000000000000 ∧ NonNaN 0x8000000000000000 ∧
    ¬ NonNaN 0x7FF8000000000001 ∧ ¬ NonNaN 0xFFF8000000000000 ∧ ¬ NonNaN 0x7FF0000000000001 ∧ ¬ NonNaN two64 := by decide

/-! ### the encoded bytes -/

theorem encFloatBits_length (u : Nat) : (encFloatBits u).length = 8 := be64_length _

theorem encFloatBits_lt_iff {a b : Nat} (ha : NonNaN a) (hb : NonNaN b) :
    encFloatBits a < encFloatBits b ↔ fltBits a b := by
  unfold encFloatBits be64
  rw [beN_lt 8 (by simpa [two64] using floatCmpBits_lt_two64 ha.1) (by simpa [two64] using floatCmpBits_lt_two64 hb.1)]
  exact floatCmpBits_lt_iff ha hb

theorem encFloatBits_eq_iff {a b : Nat} (ha : NonNaN a) (hb : NonNaN b) :
    encFloatBits a = encFloatBits b ↔ feqBits a b := by
  rw [← floatCmpBits_eq_iff ha hb]
  constructor
  · intro h
    exact be64_inj (floatCmpBits_lt_two64 ha.1) (floatCmpBits_lt_two64 hb.1) h
  · intro h; unfold encFloatBits; rw [h]

/-- the float piece of a composite key, any 64-bit patterns (NaN included): order = (cmp value, then the rest) -/
theorem float_piece_lt_iff_raw {a b : Nat} (ha : a < two64) (hb : b < two64) (r r' : Bytes) :
    encFloatBits a ++ r < encFloatBits b ++ r' ↔
      floatCmpBits a < floatCmpBits b ∨ (floatCmpBits a = floatCmpBits b ∧ r < r') := by
  have hl : (encFloatBits a).length = (encFloatBits b).length := by rw [encFloatBits_length, encFloatBits_length]
  rw [piece_lt_iff (fun hp => prefix_eq_of_length_eq hl hp) (fun hp => (prefix_eq_of_length_eq hl.symm hp).symm)]
  have hlt : encFloatBits a < encFloatBits b ↔ floatCmpBits a < floatCmpBits b := by
    unfold encFloatBits be64
    exact beN_lt 8 (by simpa [two64] using floatCmpBits_lt_two64 ha) (by simpa [two64] using floatCmpBits_lt_two64 hb)
  have heq : encFloatBits a = encFloatBits b ↔ floatCmpBits a = floatCmpBits b :=
    ⟨fun h => be64_inj (floatCmpBits_lt_two64 ha) (floatCmpBits_lt_two64 hb) h, fun h => by unfold encFloatBits; rw [h]⟩
  rw [hlt, heq]

/-- the float piece on non-NaN scores: order = (float order, then the rest) -/
theorem float_piece_lt_iff {a b : Nat} (ha : NonNaN a) (hb : NonNaN b) (r r' : Bytes) :
    encFloatBits a ++ r < encFloatBits b ++ r' ↔ fltBits a b ∨ (feqBits a b ∧ r < r') := by
  rw [float_piece_lt_iff_raw ha.1 hb.1, floatCmpBits_lt_iff ha hb, floatCmpBits_eq_iff ha hb]

/-! ### canonical pattern, decoder round trip -/

/-- the decoder returns +0.0 for both zeros -/
def canonBits (u : Nat) : Nat := if u = two63 then 0 else u

theorem canonBits_def (u : Nat) : canonBits u = if u = 9223372036854775808 then 0 else u := rfl

theorem feqBits_canon (u : Nat) : feqBits (canonBits u) u := by
  simp only [feqBits, canonBits_def, isZeroBits, two63]; split <;> omega

theorem canonBits_nonNaN {u : Nat} (h : NonNaN u) : NonNaN (canonBits u) := by
  unfold canonBits; split
  · decide
  · exact h

theorem canonBits_idem (u : Nat) : canonBits (canonBits u) = canonBits u := by
  simp only [canonBits_def]; split <;> simp_all

theorem canonBits_eq_iff {a b : Nat} : canonBits a = canonBits b ↔ feqBits a b := by
  simp only [feqBits, canonBits_def, isZeroBits, two63]; split <;> split <;> omega

theorem floatCmpBits_canon {u : Nat} (h : NonNaN u) : floatCmpBits (canonBits u) = floatCmpBits u :=
  (floatCmpBits_eq_iff (canonBits_nonNaN h) h).mpr (feqBits_canon u)

theorem encFloatBits_canon {u : Nat} (h : NonNaN u) : encFloatBits (canonBits u) = encFloatBits u := by
  unfold encFloatBits; rw [floatCmpBits_canon h]

theorem take_append_length' (a r : Bytes) {n : Nat} (h : a.length = n) : (a ++ r).take n = a := by
  subst h; simp
theorem drop_append_length' (a r : Bytes) {n : Nat} (h : a.length = n) : (a ++ r).drop n = r := by
  subst h; simp

/-- `DecodeFloat ∘ EncodeFloat` = identity up to the sign of zero -/
theorem decFloatBits_encFloatBits {u : Nat} (h : NonNaN u) (r : Bytes) :
    decFloatBits (encFloatBits u ++ r) = some (r, canonBits u) := by
  have hl : ¬ (encFloatBits u ++ r).length < 8 := by rw [List.length_append, encFloatBits_length]; omega
  unfold decFloatBits
  rw [if_neg hl, take_append_length' _ _ (encFloatBits_length u), drop_append_length' _ _ (encFloatBits_length u)]
  have hf : fromBE (encFloatBits u) = floatCmpBits u :=
    Z.Stream.fromBE_beN 8 _ (by simpa [two64] using floatCmpBits_lt_two64 h.1)
  simp only [hf]
  have h1 := nonNaN_neg_le h
  congr 2
  simp only [canonBits_def]
  by_cases sa : u < 9223372036854775808
  · rw [floatCmpBits_pos h sa]
    rw [if_pos (by omega), if_neg (by omega)]; omega
  · by_cases za : u = 9223372036854775808
    · subst za; rw [floatCmpBits_negZero]; simp
    · rw [floatCmpBits_neg (by omega), if_neg (by omega), if_neg za]; omega

/-! ### NaN witnesses: the codec is neither injective nor monotone once a NaN gets in -/

/-- Go's `math.NaN()` (0x7FF8000000000001) is not `>= 0`, so it is complemented: its cmp value is that of
    the positive subnormal 0x0007FFFFFFFFFFFE ≈ 1.1e-308 — the two scores share one score-key prefix -/
theorem nan_collides_subnormal : floatCmpBits 0x7FF8000000000001 = floatCmpBits 0x0007FFFFFFFFFFFE := by decide

theorem nan_collides_subnormal_enc : encFloatBits 0x7FF8000000000001 = encFloatBits 0x0007FFFFFFFFFFFE := by
  unfold encFloatBits; rw [nan_collides_subnormal]

/-- every positive quiet/signalling NaN lands among the non-negative finite scores -/
theorem pos_nan_among_positives {u : Nat} (hs : u < two63) (hn : isNaNBits u = true) :
    floatCmpBits u = floatCmpBits (two63 - 1 - u) ∧ NonNaN (two63 - 1 - u) ∧ two63 - 1 - u < 0x0010000000000000 := by
  have hlt : two63 - 1 - u < 0x0010000000000000 := by
    simp only [two63, isNaNBits, Bool.and_eq_true, beq_iff_eq, bne_iff_ne, ne_eq] at *
    omega
  have hnn : NonNaN (two63 - 1 - u) := nonNaN_of_le_posInf (by omega)
  refine ⟨?_, hnn, hlt⟩
  rw [floatCmpBits_pos hnn (by simp only [two63] at *; omega)]
  simp only [two63] at *
  have h1 : ¬ u = 9223372036854775808 := by omega
  simp [floatCmpBits, geZeroBits, hn, h1]
  omega

/-- the x86 default NaN (0xFFF8000000000000, the result of `+Inf + -Inf`) gets a cmp value *below* `-Inf`:
    it sorts before every real score -/
theorem x86nan_below_negInf : floatCmpBits 0xFFF8000000000000 < floatCmpBits negInfBits := by decide

theorem x86nan_below_all {u : Nat} (h : NonNaN u) : floatCmpBits 0xFFF8000000000000 < floatCmpBits u := by
  have h1 := nonNaN_neg_le h
  have e : floatCmpBits 0xFFF8000000000000 = 0x0007FFFFFFFFFFFF := by decide
  rw [e]
  by_cases sa : u < 9223372036854775808
  · rw [floatCmpBits_pos h sa]; omega
  · by_cases za : u = 9223372036854775808
    · subst za; rw [floatCmpBits_negZero]; omega
    · rw [floatCmpBits_neg (by omega)]; omega

/-- every negative NaN sorts strictly below `-Inf` -/
theorem neg_nan_below_negInf {u : Nat} (hu : u < two64) (hs : two63 ≤ u) (hn : isNaNBits u = true) :
    floatCmpBits u < floatCmpBits negInfBits := by
  simp only [two63, two64, negInfBits, isNaNBits, Bool.and_eq_true, beq_iff_eq, bne_iff_ne, ne_eq] at *
  rw [floatCmpBits_neg (by omega), floatCmpBits_neg (by omega)]
  omega

/-! ### the sorted-set score key `zEncodeScoreKeyInternal` -/

theorem zscoreKey_unfold (t k m : Bytes) (a : Nat) (sep ssep : Int) :
    zscoreKey t k m a sep ssep =
      Gen.cZScoreType :: (be16 t.length ++ (t ++ (Gen.cTableStartSep :: (Gen.cBytesFlag :: (encBytes 0 k ++
        (Gen.cIntFlag :: (encInt sep ++ (Gen.cFloatFlag :: (encFloatBits a ++
          (Gen.cIntFlag :: (encInt ssep ++ (Gen.cBytesFlag :: encBytes 0 m)))))))))))) := by
  have h : Gen.cZScoreType ≠ Gen.cKVType := by decide
  rw [zscoreKey, tablePrefix, if_neg h]
  simp [memcmpEncode, encOne]

/-- the score key with the cmp values spelled out: any 64-bit score patterns, NaN included -/
theorem zscoreKey_lt_iff_raw (t k k' m m' : Bytes) {a a' : Nat} {sep sep' ssep ssep' : Int}
    (ha : a < two64) (ha' : a' < two64)
    (hs : inI64 sep) (hs' : inI64 sep') (hss : inI64 ssep) (hss' : inI64 ssep') :
    zscoreKey t k m a sep ssep < zscoreKey t k' m' a' sep' ssep' ↔
      k < k' ∨ (k = k' ∧ (sep < sep' ∨ (sep = sep' ∧ (floatCmpBits a < floatCmpBits a' ∨
        (floatCmpBits a = floatCmpBits a' ∧ (ssep < ssep' ∨ (ssep = ssep' ∧ m < m'))))))) := by
  rw [zscoreKey_unfold, zscoreKey_unfold]
  have irr0 : ¬ (Gen.cZScoreType < Gen.cZScoreType) := by decide
  have irr1 : ¬ (Gen.cTableStartSep < Gen.cTableStartSep) := by decide
  have irr2 : ¬ (Gen.cBytesFlag < Gen.cBytesFlag) := by decide
  have irr3 : ¬ (Gen.cIntFlag < Gen.cIntFlag) := by decide
  have irr4 : ¬ (Gen.cFloatFlag < Gen.cFloatFlag) := by decide
  rw [List.cons_lt_cons_iff]
  simp only [true_and, irr0, false_or]
  rw [append_lt_append_left_iff, append_lt_append_left_iff]
  simp only [List.cons_lt_cons_iff, true_and, irr1, irr2, false_or]
  rw [bytes_piece_lt_iff]
  simp only [List.cons_lt_cons_iff, true_and, irr3, false_or]
  rw [int_piece_lt_iff hs hs']
  simp only [List.cons_lt_cons_iff, true_and, irr4, false_or]
  rw [float_piece_lt_iff_raw ha ha']
  simp only [List.cons_lt_cons_iff, true_and, irr3, false_or]
  rw [int_piece_lt_iff hss hss']
  simp only [List.cons_lt_cons_iff, true_and, irr2, false_or]
  rw [encBytes_lt_iff]

/-- **score keys of one table compare as the tuple (key, sep, score, scoreSep, member)**, the score by float order -/
theorem zscoreKey_lt_iff (t k k' m m' : Bytes) {a a' : Nat} {sep sep' ssep ssep' : Int}
    (ha : NonNaN a) (ha' : NonNaN a')
    (hs : inI64 sep) (hs' : inI64 sep') (hss : inI64 ssep) (hss' : inI64 ssep') :
    zscoreKey t k m a sep ssep < zscoreKey t k' m' a' sep' ssep' ↔
      k < k' ∨ (k = k' ∧ (sep < sep' ∨ (sep = sep' ∧ (fltBits a a' ∨
        (feqBits a a' ∧ (ssep < ssep' ∨ (ssep = ssep' ∧ m < m'))))))) := by
  rw [zscoreKey_lt_iff_raw t k k' m m' ha.1 ha'.1 hs hs' hss hss', floatCmpBits_lt_iff ha ha', floatCmpBits_eq_iff ha ha']

/-- equal score keys, any 64-bit score patterns: everything agrees, the scores up to their cmp value -/
theorem zscoreKey_inj_raw {t t' k k' m m' : Bytes} {a a' : Nat} {sep sep' ssep ssep' : Int}
    (ht : t.length < 65536) (ht' : t'.length < 65536) (ha : a < two64) (ha' : a' < two64)
    (hs : inI64 sep) (hs' : inI64 sep') (hss : inI64 ssep) (hss' : inI64 ssep')
    (h : zscoreKey t k m a sep ssep = zscoreKey t' k' m' a' sep' ssep') :
    t = t' ∧ k = k' ∧ sep = sep' ∧ floatCmpBits a = floatCmpBits a' ∧ ssep = ssep' ∧ m = m' := by
  rw [zscoreKey_unfold, zscoreKey_unfold] at h
  simp only [List.cons.injEq, true_and] at h
  obtain ⟨rfl, h1⟩ := lenPrefixed_inj ht ht' h
  simp only [List.cons.injEq, true_and] at h1
  obtain ⟨rfl, h2⟩ := encBytes_append_inj k k' 0 _ _ (by omega) h1
  simp only [List.cons.injEq, true_and] at h2
  have h3 := List.append_inj h2 (by rw [encInt_length, encInt_length])
  have e1 := encInt_inj hs hs' h3.1
  have h4 := h3.2
  simp only [List.cons.injEq, true_and] at h4
  have h5 := List.append_inj h4 (by rw [encFloatBits_length, encFloatBits_length])
  have e2 := be64_inj (floatCmpBits_lt_two64 ha) (floatCmpBits_lt_two64 ha') h5.1
  have h6 := h5.2
  simp only [List.cons.injEq, true_and] at h6
  have h7 := List.append_inj h6 (by rw [encInt_length, encInt_length])
  have e3 := encInt_inj hss hss' h7.1
  have h8 := h7.2
  simp only [List.cons.injEq, true_and] at h8
  exact ⟨rfl, rfl, e1, e2, e3, encBytes_inj h8⟩

/-- **score keys are injective** (tables / keys within the 16-bit length field, non-NaN scores), modulo `+0 == -0` -/
theorem zscoreKey_inj {t t' k k' m m' : Bytes} {a a' : Nat} {sep sep' ssep ssep' : Int}
    (ht : t.length < 65536) (ht' : t'.length < 65536) (ha : NonNaN a) (ha' : NonNaN a')
    (hs : inI64 sep) (hs' : inI64 sep') (hss : inI64 ssep) (hss' : inI64 ssep')
    (h : zscoreKey t k m a sep ssep = zscoreKey t' k' m' a' sep' ssep') :
    t = t' ∧ k = k' ∧ sep = sep' ∧ feqBits a a' ∧ ssep = ssep' ∧ m = m' := by
  obtain ⟨h1, h2, h3, h4, h5, h6⟩ := zscoreKey_inj_raw ht ht' ha.1 ha'.1 hs hs' hss hss' h
  exact ⟨h1, h2, h3, (floatCmpBits_eq_iff ha ha').mp h4, h5, h6⟩

/-- conversely `==` scores give the same key -/
theorem zscoreKey_congr_feq (t k m : Bytes) {a a' : Nat} (sep ssep : Int) (ha : NonNaN a) (ha' : NonNaN a')
    (h : feqBits a a') : zscoreKey t k m a sep ssep = zscoreKey t k m a' sep ssep := by
  rw [zscoreKey_unfold, zscoreKey_unfold, (encFloatBits_eq_iff ha ha').mpr h]

/-! ### the five key shapes of t_zset.go -/

theorem sepI_eq : sepI = 58 := by decide
theorem scoreSepI_eq : scoreSepI = 58 := by decide
theorem inI64_sepI : inI64 sepI := by unfold inI64; decide
theorem inI64_scoreSepI : inI64 scoreSepI := by unfold inI64; decide
theorem inI64_sepI_pred : inI64 (sepI - 1) := by unfold inI64; decide
theorem inI64_sepI_succ : inI64 (sepI + 1) := by unfold inI64; decide
theorem inI64_scoreSepI_succ : inI64 (scoreSepI + 1) := by unfold inI64; decide
theorem nonNaN_zero : NonNaN 0 := by decide

/-- members of one sorted set sort by (score, member) -/
theorem zScoreK_lt_iff (t k m m' : Bytes) {a b : Nat} (ha : NonNaN a) (hb : NonNaN b) :
    zScoreK t k m a < zScoreK t k m' b ↔ fltBits a b ∨ (feqBits a b ∧ m < m') := by
  unfold zScoreK
  rw [zscoreKey_lt_iff t k k m m' ha hb inI64_sepI inI64_sepI inI64_scoreSepI inI64_scoreSepI]
  simp [List.lt_irrefl, Int.lt_irrefl]

theorem zScoreK_inj {t t' k k' m m' : Bytes} {a a' : Nat} (ht : t.length < 65536) (ht' : t'.length < 65536)
    (ha : NonNaN a) (ha' : NonNaN a') (h : zScoreK t k m a = zScoreK t' k' m' a') :
    t = t' ∧ k = k' ∧ m = m' ∧ feqBits a a' := by
  obtain ⟨h1, h2, _, h4, _, h6⟩ :=
    zscoreKey_inj ht ht' ha ha' inI64_sepI inI64_sepI inI64_scoreSepI inI64_scoreSepI h
  exact ⟨h1, h2, h6, h4⟩

theorem zScoreK_eq_iff {t k m m' : Bytes} {a a' : Nat} (ht : t.length < 65536) (ha : NonNaN a) (ha' : NonNaN a') :
    zScoreK t k m a = zScoreK t k m' a' ↔ m = m' ∧ feqBits a a' := by
  constructor
  · intro h
    obtain ⟨_, _, h3, h4⟩ := zScoreK_inj ht ht ha ha' h
    exact ⟨h3, h4⟩
  · rintro ⟨rfl, h⟩
    exact zscoreKey_congr_feq t k m sepI scoreSepI ha ha' h

/-- every score key of the set (t, k) lies strictly inside the index range — for any 64-bit score pattern, NaN included -/
theorem zScoreK_in_idx_raw (t k m : Bytes) {a : Nat} (ha : a < two64) :
    zIdxStart t k < zScoreK t k m a ∧ zScoreK t k m a < zIdxStop t k := by
  unfold zIdxStart zIdxStop zScoreK
  have h0 : (0 : Nat) < two64 := by decide
  rw [zscoreKey_lt_iff_raw t k k [] m h0 ha inI64_sepI_pred inI64_sepI inI64_scoreSepI inI64_scoreSepI,
    zscoreKey_lt_iff_raw t k k m [] ha h0 inI64_sepI inI64_sepI_succ inI64_scoreSepI inI64_scoreSepI]
  constructor
  · exact Or.inr ⟨rfl, Or.inl (by omega)⟩
  · exact Or.inr ⟨rfl, Or.inl (by omega)⟩

theorem zScoreK_in_idx (t k m : Bytes) {a : Nat} (ha : NonNaN a) :
    zIdxStart t k < zScoreK t k m a ∧ zScoreK t k m a < zIdxStop t k := zScoreK_in_idx_raw t k m ha.1

theorem bytes_eq_of_not_lt {a b : Bytes} (h1 : ¬ a < b) (h2 : ¬ b < a) : a = b := by
  have h1' : b ≤ a := List.not_lt.mp h1
  rcases List.le_iff_lt_or_eq.mp h1' with h | h
  · exact absurd h h2
  · exact h.symm

/-- … and no score key of another set of the same table lies in it (any 64-bit score pattern) -/
theorem zScoreK_not_in_idx_raw (t k k' m : Bytes) {a : Nat} (ha : a < two64) (hk : k ≠ k') :
    ¬ (zIdxStart t k ≤ zScoreK t k' m a ∧ zScoreK t k' m a ≤ zIdxStop t k) := by
  rintro ⟨h1, h2⟩
  have h0 : (0 : Nat) < two64 := by decide
  have h1' : ¬ zScoreK t k' m a < zIdxStart t k := List.not_lt.mpr h1
  have h2' : ¬ zIdxStop t k < zScoreK t k' m a := List.not_lt.mpr h2
  unfold zIdxStart zIdxStop zScoreK at *
  rw [zscoreKey_lt_iff_raw t k' k m [] ha h0 inI64_sepI inI64_sepI_pred inI64_scoreSepI inI64_scoreSepI] at h1'
  rw [zscoreKey_lt_iff_raw t k k' [] m h0 ha inI64_sepI_succ inI64_sepI inI64_scoreSepI inI64_scoreSepI] at h2'
  exact hk (bytes_eq_of_not_lt (fun h => h2' (Or.inl h)) (fun h => h1' (Or.inl h)))

theorem zScoreK_not_in_idx (t k k' m : Bytes) {a : Nat} (ha : NonNaN a) (hk : k ≠ k') :
    ¬ (zIdxStart t k ≤ zScoreK t k' m a ∧ zScoreK t k' m a ≤ zIdxStop t k) :=
  zScoreK_not_in_idx_raw t k k' m ha.1 hk

/-- **ZRANGEBYSCORE range exactness**: the byte range `[zScoreLo lo, zScoreHi hi]` holds exactly the members
    with `lo ≤ score ≤ hi` in float order -/
theorem zScoreK_in_score_range (t k m : Bytes) {a lo hi : Nat} (ha : NonNaN a) (hlo : NonNaN lo) (hhi : NonNaN hi) :
    (zScoreLo t k lo ≤ zScoreK t k m a ∧ zScoreK t k m a ≤ zScoreHi t k hi) ↔ (¬ fltBits a lo ∧ ¬ fltBits hi a) := by
  rw [← List.not_lt, ← List.not_lt]
  unfold zScoreLo zScoreHi zScoreK
  rw [zscoreKey_lt_iff t k k m [] ha hlo inI64_sepI inI64_sepI inI64_scoreSepI inI64_scoreSepI,
    zscoreKey_lt_iff t k k [] m hhi ha inI64_sepI inI64_sepI inI64_scoreSepI_succ inI64_scoreSepI]
  have e1 : ¬ (scoreSepI + 1 < scoreSepI) := by omega
  have e2 : ¬ (scoreSepI + 1 = scoreSepI) := by omega
  simp [List.lt_irrefl, Int.lt_irrefl, e1, e2]

theorem zScoreLo_gt_idxStart (t k : Bytes) {lo : Nat} (hlo : lo < two64) : zIdxStart t k < zScoreLo t k lo := by
  unfold zIdxStart zScoreLo
  have h0 : (0 : Nat) < two64 := by decide
  rw [zscoreKey_lt_iff_raw t k k [] [] h0 hlo inI64_sepI_pred inI64_sepI inI64_scoreSepI inI64_scoreSepI]
  exact Or.inr ⟨rfl, Or.inl (by omega)⟩

theorem zScoreHi_lt_idxStop (t k : Bytes) {hi : Nat} (hhi : hi < two64) : zScoreHi t k hi < zIdxStop t k := by
  unfold zIdxStop zScoreHi
  have h0 : (0 : Nat) < two64 := by decide
  rw [zscoreKey_lt_iff_raw t k k [] [] hhi h0 inI64_sepI inI64_sepI_succ inI64_scoreSepI_succ inI64_scoreSepI]
  exact Or.inr ⟨rfl, Or.inl (by omega)⟩

/-- the whole-set score range `[-Inf, +Inf]` holds every non-NaN member -/
theorem zScoreK_in_full_score_range (t k m : Bytes) {a : Nat} (ha : NonNaN a) :
    zScoreLo t k negInfBits ≤ zScoreK t k m a ∧ zScoreK t k m a ≤ zScoreHi t k posInfBits :=
  (zScoreK_in_score_range t k m ha nonNaN_negInf nonNaN_posInf).mpr ⟨not_lt_negInf ha, not_posInf_lt ha⟩

/-- **NaN witness at key level**: a member stored with the x86 default NaN as score has a key *below* the
    `-Inf` start key — ZRANGEBYSCORE -inf +inf never sees it, yet it is inside `[zIdxStart, zIdxStop]`
    (`zScoreK_in_idx_raw`), so whole-set iteration (ZCARD recount, delete, rank) does -/
theorem x86nan_key_below_negInf (t k m : Bytes) :
    zScoreK t k m 0xFFF8000000000000 < zScoreLo t k 0xFFF0000000000000 := by
  unfold zScoreK zScoreLo
  rw [zscoreKey_lt_iff_raw t k k m [] (by decide) (by decide) inI64_sepI inI64_sepI inI64_scoreSepI inI64_scoreSepI]
  exact Or.inr ⟨rfl, Or.inr ⟨rfl, Or.inl (by decide)⟩⟩

theorem x86nan_key_in_idx (t k m : Bytes) :
    zIdxStart t k < zScoreK t k m 0xFFF8000000000000 ∧ zScoreK t k m 0xFFF8000000000000 < zIdxStop t k :=
  zScoreK_in_idx_raw t k m (by decide)

/-- a member stored with Go's `math.NaN()` shares its (score) key prefix with the subnormal 0x0007FFFFFFFFFFFE:
    with the same member name the two score keys are the same key -/
theorem nan_key_collides (t k m : Bytes) :
    zScoreK t k m 0x7FF8000000000001 = zScoreK t k m 0x0007FFFFFFFFFFFE := by
  unfold zScoreK
  rw [zscoreKey_unfold, zscoreKey_unfold, nan_collides_subnormal_enc]

end Z.Codec

#print axioms Z.Codec.floatCmpBits_lt_iff
#print axioms Z.Codec.floatCmpBits_eq_iff
#print axioms Z.Codec.float_piece_lt_iff
#print axioms Z.Codec.decFloatBits_encFloatBits
#print axioms Z.Codec.zscoreKey_lt_iff
#print axioms Z.Codec.zscoreKey_inj
#print axioms Z.Codec.zScoreK_in_score_range
#print axioms Z.Codec.zScoreK_not_in_idx
#print axioms Z.Codec.x86nan_key_below_negInf
#print axioms Z.Codec.nan_key_collides
#print axioms Z.Codec.pos_nan_among_positives
