/-
  The real hash key codec (`Z.HashExec.realFns`, i.e. the encoders of `Z.Codec`) satisfies the abstract
  codec facts of `Z.HashInv.Enc` for every table name and key part whose length fits the 2-byte length
  fields (the server enforces 255 / 10240): consequences of the C12 lemmas.
-/
import ZanVerif.Data.HashExec
import ZanVerif.Data.CodecLemmas
import ZanVerif.Codec.StreamLemmas

namespace Z.HashReal
open Z.Codec Z.HashExec

abbrev Bytes := List UInt8

theorem hash_ne_kv : Gen.cHashType ≠ Gen.cKVType := by decide

theorem prefix_unfold (table : Bytes) :
    tablePrefix Gen.cHashType table = Gen.cHashType :: (be16 table.length ++ table ++ [Gen.cTableStartSep]) := by
  unfold tablePrefix; simp [hash_ne_kv]

/-- field keys are injective in (key part, field) -/
theorem field_inj (table : Bytes) (k f k' f' : Bytes) (hk : k.length < 65536) (hk' : k'.length < 65536)
    (h : (realFns table).fieldK k f = (realFns table).fieldK k' f') : k = k' ∧ f = f' := by
  simp only [realFns, collSubKey, List.append_assoc] at h
  have h1 := List.append_cancel_left h
  obtain ⟨rfl, h2⟩ := lenPrefixed_inj hk hk' h1
  simp only [List.cons_append, List.nil_append, List.cons.injEq, true_and] at h2
  exact ⟨rfl, h2⟩

/-- size/meta keys are injective in the key part -/
theorem meta_inj (table : Bytes) (k k' : Bytes) (h : (realFns table).metaK k = (realFns table).metaK k') : k = k' := by
  simp only [realFns, metaKey, packRedisKey, List.cons.injEq, true_and, List.append_assoc] at h
  have h1 := List.append_cancel_left h
  have h2 := List.append_cancel_left h1
  simpa using h2

/-- a size/meta key is never a field key (different type bytes) -/
theorem meta_ne_field (table : Bytes) (k k' f : Bytes) : (realFns table).metaK k ≠ (realFns table).fieldK k' f := by
  simp only [realFns, metaKey, collSubKey, prefix_unfold, List.cons_append, ne_eq, List.cons.injEq, not_and]
  intro h; exact absurd h (by decide)

/-- range exactness: [start k, stop k) holds exactly the field keys of k -/
theorem range_iff (table : Bytes) (k x : Bytes) :
    ((realFns table).start k ≤ x ∧ x < (realFns table).stop k) ↔ ∃ f, x = (realFns table).fieldK k f := by
  simp only [realFns, collStart, collStop, collSubKey, List.append_nil]
  exact Z.Range.range_iff Gen.cCollStartSep (by decide) (tablePrefix Gen.cHashType table ++ be16 k.length ++ k) x

/-- the size value round-trips below 2^64 (`PutInt64` / `Int64`) -/
theorem size_rt (table : Bytes) (n : Nat) (h : n < 18446744073709551616) :
    (realFns table).sizeOf ((realFns table).encSize n) = n := by
  simp only [realFns]
  exact Z.Stream.fromBE_beN 8 n (by simpa using h)

end Z.HashReal
