/-
  Executable storage-level LIST model (core only) — rockredis/t_list.go under the local-deletion layout
  (`policy=local`: no version in the keys, no header in front of the meta value, nothing expires), over the
  sorted reference store `Z.Ref` with the key codec passed as plain functions (`EncFns`): the SAME functions run
  with the real codec (`realFns`, the encoders of `Z.Codec`, C12) in the `datacorelist` correspondence and are the
  subject of the theorems (`Z.ListInv`, any codec satisfying the abstract facts `Z.ListInv.Enc`).

  Layout: element key = `lEncodeListKey(table, key, seq)` ↦ value; meta key = `lEncodeMetaKey(table:key)` ↦
  `BE64(head) ++ BE64(tail) ++ BE64(ts)` (`encodeListMeta`), present iff the list is non-empty; without meta
  `parseListMeta` answers head = tail = listInitialSeq, size 0. Sequence constants regenerated (`Gen.cList*Seq`).
  Every write returns the new store and the reply; an error reply leaves the store as it was.
  Not modelled: table key counter, `topLargeCollKeys`, slow log / metrics, `delExpire` (no-op under local deletion),
  and the REPAIR `fixListKey` that the code runs when it finds its own meta inconsistent (push would overwrite an
  element, pop finds no element at head/tail, `lSetMeta` sees tail < head - 1): the model answers what the code
  answers there (`listseq` / nil) but leaves the store unchanged; `Z.ListInv` proves these branches dead under
  the representation invariant.
-/
import ZanVerif.Data.CollBase
import ZanVerif.Data.Codec

namespace Z.ListExec
open Z.Ref Z.Coll

structure EncFns (κ : Type) where
  metaK : κ → Bytes
  elemK : κ → Int → Bytes
  /-- `encodeListMeta`: head, tail, timestamp -/
  encMeta : Int → Int → Int → Bytes
  headOf : Bytes → Int
  tailOf : Bytes → Int

variable {κ : Type} (F : EncFns κ)

def minSeq : Int := Gen.cListMinSeq
def maxSeq : Int := Gen.cListMaxSeq
def initSeq : Int := Gen.cListInitialSeq

/-- `parseListMeta` of the stored meta (head, tail, size); `none` = no meta (`IsNotExistOrExpired`) -/
def lmeta? (m : List KV) (k : κ) : Option (Int × Int × Int) :=
  match get m (F.metaK k) with
  | none => none
  | some v => some (F.headOf v, F.tailOf v, F.tailOf v - F.headOf v + 1)

/-- `parseListMeta(keyInfo.MetaData())` as the write path of push uses it: defaults without meta -/
def lmeta (m : List KV) (k : κ) : Int × Int × Int := (lmeta? F m k).getD (initSeq, initSeq, 0)

/-- `lSetMeta`: size < 0 → `listseq`; size = 0 → delete the meta; else rewrite it. Answers (batch ops, size). -/
def setMeta (k : κ) (head tail ts : Int) : Out (List WOp × Int) :=
  let size := tail - head + 1
  if size < 0 then .error "listseq"
  else if size = 0 then .ok ([.del (F.metaK k)], size)
  else .ok ([.put (F.metaK k) (F.encMeta head tail ts)], size)

/-- `lpush(whereSeq)`: LPUSH (`atTail = false`) writes args[i] at head-1-i (head itself on an empty list), RPUSH at
    tail+1+i; `listseq` when the last sequence number leaves (listMinSeq, listMaxSeq) or when a target key is
    already stored (dead under the invariant); meta written once at the end; reply = new length -/
def lpush (m : List KV) (ts : Int) (k : κ) (atTail : Bool) (args : List Bytes) : List KV × Out Int :=
  if args.length > maxBatch then (m, .error "batchsize") else
  let (head, tail, size) := lmeta F m k
  if args.isEmpty then (m, .ok size) else
  let delta : Int := if atTail then 1 else -1
  let seq0 : Int := if atTail then tail else head
  let seq : Int := if size > 0 then seq0 + delta else seq0
  let n : Int := args.length
  let last : Int := seq + (n - 1) * delta
  if last ≤ minSeq || last ≥ maxSeq then (m, .error "listseq") else
  let targets := (List.range args.length).map (fun (i : Nat) => F.elemK k (seq + (i : Int) * delta))
  if targets.any (fun ek => (get m ek).isSome) then (m, .error "listseq") else
  let puts := (targets.zip args).map (fun p => WOp.put p.1 p.2)
  let (head', tail') := if atTail then (head, last) else (last, tail)
  match setMeta F k head' tail' ts with
  | .error e => (m, .error e)
  | .ok (mops, _) => (applyW m (puts ++ mops), .ok (size + n))

/-- `lpop(whereSeq)`: no meta / size 0 → nil; the element at head (LPOP) or tail (RPOP) is deleted, head+1 / tail-1,
    meta rewritten or deleted when the list became empty; reply = the element -/
def lpop (m : List KV) (ts : Int) (k : κ) (atTail : Bool) : List KV × Out (Option Bytes) :=
  match lmeta? F m k with
  | none => (m, .ok none)
  | some (head, tail, size) =>
    if size = 0 then (m, .ok none) else
    let seq := if atTail then tail else head
    match get m (F.elemK k seq) with
    | none => (m, .ok none)                 -- "pop error": fixListKey, reply nil (dead under the invariant)
    | some v =>
      let (head', tail') := if atTail then (head, tail - 1) else (head + 1, tail)
      match setMeta F k head' tail' ts with
      | .error e => (m, .error e)
      | .ok (mops, _) => (applyW m (WOp.del (F.elemK k seq) :: mops), .ok (some v))

/-- `lDelete`: batch ops that remove a whole list and the number of elements it had -/
def ldelete (m : List KV) (k : κ) : List WOp × Int :=
  match lmeta? F m k with
  | none => ([], 0)
  | some (head, tail, size) =>
    if size = 0 then ([], 0) else
    let startKey := F.elemK k head
    let stopKey := F.elemK k tail
    ([WOp.del (F.metaK k)] ++
      (if size > (rangeDeleteNum : Int) then [WOp.delRange startKey stopKey]
       else (scanC m startKey stopKey).map (fun p => WOp.del p.1)) ++
      [WOp.del stopKey], size)

/-- `LClear`: reply 1 iff the list had elements -/
def lclear (m : List KV) (k : κ) : List KV × Nat :=
  let (ops, num) := ldelete F m k
  (applyW m ops, if num > 0 then 1 else 0)

/-- index normalisation shared by LTRIM / LRANGE: negative = from the end, start clamps at 0 -/
def normStart (llen start : Int) : Int :=
  let s := if start < 0 then llen + start else start
  if s < 0 then 0 else s
def normStop (llen stop : Int) : Int := if stop < 0 then llen + stop else stop

def delSeqs (k : κ) (from_ : Int) (cnt : Int) : List WOp :=
  (List.range cnt.toNat).map (fun (i : Nat) => WOp.del (F.elemK k (from_ + (i : Int))))

/-- `ltrim2` (= LTRIM): no meta → OK, nothing written; the whole list goes (`lDelete`) when start ≥ len or start > stop;
    else elements before start and after stop are deleted (single deletes up to RangeDeleteNum, one DeleteRange above) and
    the meta becomes [head+start, head+stop] -/
def ltrim (m : List KV) (ts : Int) (k : κ) (startP stopP : Int) : List KV × Out Unit :=
  match lmeta? F m k with
  | none => (m, .ok ())
  | some (head, _, llen) =>
    let start := normStart llen startP
    let stop := normStop llen stopP
    if start ≥ llen || start > stop then (applyW m (ldelete F m k).1, .ok ()) else
    let stop := if stop ≥ llen then llen - 1 else stop
    let front : List WOp :=
      if start > 0 then
        (if start > (rangeDeleteNum : Int) then [WOp.delRange (F.elemK k head) (F.elemK k (head + start))]
         else delSeqs F k head start)
      else []
    let back : List WOp :=
      if stop < llen - 1 then
        (if llen - stop > (rangeDeleteNum : Int) then [WOp.delRange (F.elemK k (head + (stop + 1))) (F.elemK k (head + llen))]
         else delSeqs F k (head + (stop + 1)) (llen - (stop + 1)))
      else []
    match setMeta F k (head + start) (head + stop) ts with
    | .error e => (m, .error e)
    | .ok (mops, _) => (applyW m (front ++ back ++ mops), .ok ())

/-- the sequence number an index denotes, if inside the list (LINDEX / LSET) -/
def seqOfIndex (head tail index : Int) : Option Int :=
  let seq := if index ≥ 0 then head + index else tail + index + 1
  if seq < head || seq > tail then none else some seq

/-- `LSet`: `listindex` without meta, on size 0, for an index outside the list; else the meta is rewritten
    (new timestamp) and the element overwritten -/
def lset (m : List KV) (ts : Int) (k : κ) (index : Int) (v : Bytes) : List KV × Out Unit :=
  match lmeta? F m k with
  | none => (m, .error "listindex")
  | some (head, tail, size) =>
    if size = 0 then (m, .error "listindex") else
    match seqOfIndex head tail index with
    | none => (m, .error "listindex")
    | some seq =>
      let mops := match setMeta F k head tail ts with
        | .ok (ops, _) => ops
        | .error _ => []            -- the code ignores lSetMeta's result here
      (applyW m (mops ++ [WOp.put (F.elemK k seq) v]), .ok ())

def llen (m : List KV) (k : κ) : Int :=
  match lmeta? F m k with
  | none => 0
  | some (_, _, size) => size

def lindex (m : List KV) (k : κ) (index : Int) : Option Bytes :=
  match lmeta? F m k with
  | none => none
  | some (head, tail, _) =>
    match seqOfIndex head tail index with
    | none => none
    | some seq => get m (F.elemK k seq)

/-- `LRange`: at most `limit` values of the stored keys in the CLOSED range [elemK(head+start), elemK(tail)];
    more than MAX_BATCH_NUM → `batchsize` -/
def lrange (m : List KV) (k : κ) (startP stopP : Int) : Out (List Bytes) :=
  match lmeta? F m k with
  | none => .ok []
  | some (head, tail, llen) =>
    let start := normStart llen startP
    let stop := normStop llen stopP
    if start > stop || start ≥ llen then .ok [] else
    let stop := if stop ≥ llen then llen - 1 else stop
    let limit := stop - start + 1
    if limit > (maxBatch : Int) then .error "batchsize" else
    .ok (((scanC m (F.elemK k (head + start)) (F.elemK k tail)).take limit.toNat).map (·.2))

/-- `LKeyExists` (`collKeyExists`): the meta is stored -/
def lkeyexist (m : List KV) (k : κ) : Nat := if (get m (F.metaK k)).isSome then 1 else 0

/-- `preCheckListLength` (lpop / rpop / ltrim): answered by the leader without raft when LLEN = 0 -/
def emptyPre (m : List KV) (k : κ) : Bool := llen F m k = 0

/-! ### the real codec -/

abbrev RKey := Bytes × Bytes

def realFns : EncFns RKey where
  metaK k := Z.Codec.metaKey Gen.cLMetaType (Z.Codec.packRedisKey k.1 k.2)
  elemK k s := Z.Codec.listKey k.1 k.2 s
  encMeta h t ts := Z.Codec.be64 (Z.Codec.toU64 h) ++ Z.Codec.be64 (Z.Codec.toU64 t) ++ Z.Codec.be64 (Z.Codec.toU64 ts)
  headOf b := Z.Codec.ofU64 (Z.Codec.fromBE (b.take 8))
  tailOf b := Z.Codec.ofU64 (Z.Codec.fromBE ((b.drop 8).take 8))

end Z.ListExec
