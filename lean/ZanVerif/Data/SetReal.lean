/-
  The real set key codec (`Z.SetExec.realFns`, i.e. the encoders of `Z.Codec`) satisfies the abstract codec
  facts `Z.SetInv.Enc` on the keys the server admits: table name without the separator ':', table name and
  key part shorter than 2^16 bytes (the server enforces 255 and 10240). Consequences of the C12 lemmas.
  `realEnc` is an INSTANCE of `Enc`, so every theorem of `Z.SetInv` / `Z.SetRef` holds for the functions the
  `datacoreset` correspondence runs (`*_comap`: same functions, by `rfl`).
-/
import ZanVerif.Data.SetRef
import ZanVerif.Data.CodecLemmas
import ZanVerif.Codec.StreamLemmas

namespace Z.CollReal
open Z.Codec

/-- a collection key the server admits -/
structure InKey where
  table : Bytes
  key : Bytes
  ht : table.length < 65536
  hk : key.length < 65536
  hc : Gen.cTableStartSep ∉ table

theorem InKey.eq_of {a b : InKey} (h1 : a.table = b.table) (h2 : a.key = b.key) : a = b := by
  cases a; cases b; simp_all

instance : DecidableEq InKey := fun a b =>
  if h1 : a.table = b.table then
    if h2 : a.key = b.key then isTrue (InKey.eq_of h1 h2)
    else isFalse (fun e => h2 (by rw [e]))
  else isFalse (fun e => h1 (by rw [e]))

def InKey.pair (k : InKey) : Bytes × Bytes := (k.table, k.key)

/-- `table ++ ":" ++ key` determines both parts when the table has no ':' (`extractTableFromRedisKey` cuts at the first) -/
theorem split_sep_inj (c : UInt8) : ∀ (a a' r r' : Bytes), c ∉ a → c ∉ a' → a ++ [c] ++ r = a' ++ [c] ++ r' → a = a' ∧ r = r'
  | [], [], r, r', _, _, h => by simpa using h
  | [], y :: ys, r, r', _, h2, h => by
    simp only [List.nil_append, List.singleton_append, List.cons_append, List.cons.injEq] at h
    exact absurd (h.1 ▸ List.mem_cons_self) h2
  | x :: xs, [], r, r', h1, _, h => by
    simp only [List.nil_append, List.singleton_append, List.cons_append, List.cons.injEq] at h
    exact absurd (h.1 ▸ List.mem_cons_self) h1
  | x :: xs, y :: ys, r, r', h1, h2, h => by
    simp only [List.cons_append, List.cons.injEq] at h
    obtain ⟨hxy, ht⟩ := h
    have := split_sep_inj c xs ys r r' (fun hm => h1 (List.mem_cons_of_mem _ hm)) (fun hm => h2 (List.mem_cons_of_mem _ hm))
      (by simpa using ht)
    exact ⟨by rw [hxy, this.1], this.2⟩

theorem packRedisKey_inj (k k' : InKey) (h : packRedisKey k.table k.key = packRedisKey k'.table k'.key) : k = k' := by
  obtain ⟨h1, h2⟩ := split_sep_inj _ _ _ _ _ k.hc k'.hc h
  exact InKey.eq_of h1 h2

theorem metaKey_inj (t : UInt8) (k k' : InKey)
    (h : metaKey t (packRedisKey k.table k.key) = metaKey t (packRedisKey k'.table k'.key)) : k = k' := by
  simp only [metaKey, List.cons.injEq, true_and] at h
  exact packRedisKey_inj k k' (List.append_cancel_left h)

theorem prefix_unfold (dt : UInt8) (hdt : dt ≠ Gen.cKVType) (table : Bytes) :
    tablePrefix dt table = dt :: (be16 table.length ++ table ++ [Gen.cTableStartSep]) := by
  unfold tablePrefix; simp [hdt]

/-- the part of a collection data key in front of the sub-key / sequence number determines (table, key part) -/
theorem keyPrefix_inj (dt : UInt8) (hdt : dt ≠ Gen.cKVType) (k k' : InKey) (r r' : Bytes)
    (h : tablePrefix dt k.table ++ be16 k.key.length ++ k.key ++ r = tablePrefix dt k'.table ++ be16 k'.key.length ++ k'.key ++ r') :
    k = k' ∧ r = r' := by
  rw [prefix_unfold dt hdt, prefix_unfold dt hdt] at h
  simp only [List.cons_append, List.append_assoc, List.cons.injEq, true_and] at h
  obtain ⟨ht, h2⟩ := lenPrefixed_inj k.ht k'.ht h
  simp only [List.cons.injEq, true_and] at h2
  obtain ⟨hk, h3⟩ := lenPrefixed_inj k.hk k'.hk h2
  exact ⟨InKey.eq_of ht hk, h3⟩

end Z.CollReal

namespace Z.SetReal
open Z.Codec Z.SetExec Z.CollReal

/-- a codec on `κ` seen through a map into `κ` -/
def comap {κ κ' : Type} (F : EncFns κ) (f : κ' → κ) : EncFns κ' where
  metaK k := F.metaK (f k)
  memK k := F.memK (f k)
  start k := F.start (f k)
  stop k := F.stop (f k)
  memOf k := F.memOf (f k)
  encMeta := F.encMeta
  sizeOf := F.sizeOf

theorem set_ne_kv : Gen.cSetType ≠ Gen.cKVType := by decide

theorem mem_inj (k : InKey) (a : Bytes) (k' : InKey) (a' : Bytes)
    (h : realFns.memK k.pair a = realFns.memK k'.pair a') : k = k' ∧ a = a' := by
  simp only [realFns, collSubKey, InKey.pair, List.append_assoc] at h
  have := keyPrefix_inj Gen.cSetType set_ne_kv k k' ([Gen.cCollStartSep] ++ a) ([Gen.cCollStartSep] ++ a')
    (by simpa [List.append_assoc] using h)
  exact ⟨this.1, by simpa using this.2⟩

theorem meta_ne_mem (k k' : InKey) (a : Bytes) : realFns.metaK k.pair ≠ realFns.memK k'.pair a := by
  simp only [realFns, metaKey, collSubKey, prefix_unfold Gen.cSetType set_ne_kv, List.cons_append, ne_eq, List.cons.injEq, not_and]
  intro h; exact absurd h (by decide)

theorem range_iff (k : InKey) (x : Bytes) :
    (realFns.start k.pair ≤ x ∧ x < realFns.stop k.pair) ↔ ∃ a, x = realFns.memK k.pair a := by
  simp only [realFns, collStart, collStop, collSubKey, List.append_nil]
  exact Z.Range.range_iff Gen.cCollStartSep (by decide) (tablePrefix Gen.cSetType k.pair.1 ++ be16 k.pair.2.length ++ k.pair.2) x

theorem memOf_memK (k : InKey) (a : Bytes) : realFns.memOf k.pair (realFns.memK k.pair a) = a := by
  simp only [realFns, collStart, collSubKey, List.append_nil]
  rw [List.drop_left]

theorem memK_lt (k : InKey) (a b : Bytes) : realFns.memK k.pair a < realFns.memK k.pair b ↔ a < b := by
  simp only [realFns, collSubKey]
  exact append_lt_append_left_iff _

theorem size_rt (n : Nat) (ts : Int) (h : n < 9223372036854775808) : realFns.sizeOf (realFns.encMeta n ts) = n := by
  simp only [realFns]
  rw [List.take_left' (be64_length n)]
  exact Z.Stream.fromBE_beN 8 n (by simp; omega)

/-- **the real set codec satisfies every abstract codec fact on admitted keys** -/
def realEnc : Z.SetInv.Enc InKey where
  toEncFns := comap realFns InKey.pair
  cap := 9223372036854775808
  size_rt := size_rt
  mem_inj := mem_inj
  meta_inj := fun k k' h => metaKey_inj Gen.cSSizeType k k' h
  meta_ne_mem := meta_ne_mem
  range_iff := range_iff
  memOf_memK := memOf_memK
  memK_lt := memK_lt

/-! the functions of the instance are the functions the driver runs -/
theorem sadd_comap (m : List Z.Ref.KV) (ts : Int) (k : InKey) (args : List Bytes) :
    sadd realEnc.toEncFns m ts k args = sadd realFns m ts k.pair args := rfl
theorem srem_comap (m : List Z.Ref.KV) (ts : Int) (k : InKey) (args : List Bytes) :
    srem realEnc.toEncFns m ts k args = srem realFns m ts k.pair args := rfl
theorem spop_comap (m : List Z.Ref.KV) (ts : Int) (k : InKey) (c : Int) :
    spop realEnc.toEncFns m ts k c = spop realFns m ts k.pair c := rfl
theorem sclear_comap (m : List Z.Ref.KV) (k : InKey) : sclear realEnc.toEncFns m k = sclear realFns m k.pair := rfl
theorem scard_comap (m : List Z.Ref.KV) (k : InKey) : scard realEnc.toEncFns m k = scard realFns m k.pair := rfl
theorem smembers_comap (m : List Z.Ref.KV) (k : InKey) : smembers realEnc.toEncFns m k = smembers realFns m k.pair := rfl
theorem srandmember_comap (m : List Z.Ref.KV) (k : InKey) (c : Int) :
    srandmember realEnc.toEncFns m k c = srandmember realFns m k.pair c := rfl
theorem sismember_comap (m : List Z.Ref.KV) (k : InKey) (a : Bytes) :
    sismember realEnc.toEncFns m k a = sismember realFns m k.pair a := rfl
theorem skeyexist_comap (m : List Z.Ref.KV) (k : InKey) : skeyexist realEnc.toEncFns m k = skeyexist realFns m k.pair := rfl
theorem saddPre_comap (m : List Z.Ref.KV) (k : InKey) (args : List Bytes) :
    saddPre realEnc.toEncFns m k args = saddPre realFns m k.pair args := by
  induction args with
  | nil => rfl
  | cons a t ih => simp only [saddPre, ih, sismember_comap]
theorem sremPre_comap (m : List Z.Ref.KV) (k : InKey) (args : List Bytes) :
    sremPre realEnc.toEncFns m k args = sremPre realFns m k.pair args := rfl

end Z.SetReal
